"""Per-property configuration of the generic pipeline (checks/common.py)."""

PROPS = {
    "C18": {
        "coq_header": "From Wharf Require Import Base.Prelude Val.Drip Val.VPool Exec.C18.\nOpen Scope Z_scope.",
        "groups": {"drip": "drip_case", "vperr": "vperr_case", "vpwnd": "vpwnd_case"},
        "shard": {"drip": 400, "vperr": 12, "vpwnd": 12},
        "rule": "drip: random data over 3 symbols, buffer 1..6, arbitrary write compositions, validation failing at a random block or never; "
                "vperr/vpwnd: pwr.ValidatingPool at the real 64 KiB block size, signed sizes on/around block multiples, written = signed + {flips at first/last/middle byte of a block, truncation, extension within/to/past the block end, replacement}, "
                "9 write-slicing families (one write, bs-1, bs, bs+1, 32k, 2bs+3, 16k-1, boundary-hugging 1-byte writes, random); "
                "non-trivial = at least two Write calls and more than one block of data; distinct = digest of the input",
        "assumptions": ["strong hash (MD5) treated as injective on the blocks compared: the executable model uses the block itself as its hash",
                        "the inner pool's writer accepts every write (a recording in-memory pool)"],
    },
}
