"""Per-property configuration of the generic pipeline (checks/common.py): one JSON file per
property under checks/props/ (keys: coq_header, groups, shard, rule, assumptions,
trusted_base, timeout, search_rounds)."""
import glob
import json
import os

PROPS = {}
for _p in sorted(glob.glob(os.path.join(os.path.dirname(os.path.abspath(__file__)), "props", "C*.json"))):
    PROPS[os.path.basename(_p)[:-5]] = json.load(open(_p))
