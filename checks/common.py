"""Shared pipeline of every /verif check: Coq (re)check of the property theorems, build of the
Go harness against /repo's working tree, generation + implementation run + independent oracle,
correspondence with the Gallina model (generated case files evaluated by vm_compute), verdict,
evidence and replay files.  See DESIGN.md sections 1.3 and 3."""
import collections
import concurrent.futures
import hashlib
import json
import os
import re
import shutil
import subprocess
import sys
import tempfile
import time

VERIF = os.path.dirname(os.path.dirname(os.path.abspath(__file__)))
COQ = os.path.join(VERIF, "coq")
HARNESS = os.path.join(VERIF, "harness")
BIN = os.path.join(HARNESS, "bin", "wharfobs")

FORBIDDEN = re.compile(r"\b(Admitted|admit|Axiom|Axioms|Parameter|Parameters|Conjecture|Admit Obligations|bypass_check)\b|Unset Guard|Unset Positivity|Unset Universe|type-in-type|impredicative-set")

# axioms of the standard library that a theorem may depend on (named in DESIGN.md section 8)
ALLOWED_AXIOMS = {
    "functional_extensionality_dep", "FunctionalExtensionality.functional_extensionality_dep",
    "proof_irrelevance", "ProofIrrelevance.proof_irrelevance", "Eqdep.Eq_rect_eq.eq_rect_eq",
    "Classical_Prop.classic", "JMeq.JMeq_eq", "JMeq_eq",
}


def go_env():
    env = dict(os.environ)
    env["GOFLAGS"] = "-mod=mod"
    env["GOPROXY"] = "off"
    env.pop("GOTOOLCHAIN", None)   # go.mod asks for go 1.24.0; the cached toolchain is selected by 'auto'
    env.pop("GOSUMDB", None)
    env["GOTOOLCHAIN"] = "auto"
    env.setdefault("GOCACHE", os.path.expanduser("~/.cache/go-build"))
    return env


def run(cmd, cwd=None, timeout=None, env=None, stdin=None):
    t0 = time.time()
    try:
        p = subprocess.run(cmd, cwd=cwd, timeout=timeout, env=env, input=stdin,
                           stdout=subprocess.PIPE, stderr=subprocess.PIPE, text=True, errors="replace")
        return p.returncode, p.stdout, p.stderr, time.time() - t0
    except subprocess.TimeoutExpired as e:
        out = e.stdout.decode("utf8", "replace") if isinstance(e.stdout, bytes) else (e.stdout or "")
        err = e.stderr.decode("utf8", "replace") if isinstance(e.stderr, bytes) else (e.stderr or "")
        return -999, out, err, time.time() - t0


class Problem(Exception):
    """a failure of the machinery itself (not a verdict about the property)"""


# ------------------------------------------------------------------ Coq side

def coq_build():
    """full .vo build (no -vos); no-op when current"""
    rc, out, err, _ = run(["sh", "./mkproject.sh"], cwd=COQ, timeout=120)
    if rc != 0:
        raise Problem("coq/mkproject.sh failed: " + out + err)
    rc, out, err, dt = run(["make", "-j16"], cwd=COQ, timeout=3000)
    return rc, out + err, dt


def strip_coq_comments(src):
    out, depth, i = [], 0, 0
    while i < len(src):
        if src.startswith("(*", i):
            depth += 1; i += 2
        elif src.startswith("*)", i) and depth > 0:
            depth -= 1; i += 2
        else:
            if depth == 0 or src[i] == "\n":
                out.append(src[i])
            i += 1
    return "".join(out)


def coq_forbidden():
    hits = []
    for root, _, files in os.walk(os.path.join(COQ, "theories")):
        for f in files:
            if f.endswith(".v"):
                p = os.path.join(root, f)
                code = strip_coq_comments(open(p, encoding="utf8").read())
                for i, line in enumerate(code.split("\n"), 1):
                    if FORBIDDEN.search(line):
                        hits.append("%s:%d: %s" % (os.path.relpath(p, VERIF), i, line.strip()))
    return hits


def coq_check_properties(pid):
    """re-run coqc on Properties/<pid>.v, parse the statements and the Print Assumptions output"""
    rel = "theories/Properties/%s.v" % pid
    path = os.path.join(COQ, rel)
    src = open(path, encoding="utf8").read()
    stmts = re.findall(r"^\s*(Theorem|Lemma|Corollary|Example|Fact)\s+([A-Za-z0-9_']+)", src, re.M)
    qeds = len(re.findall(r"\bQed\.", src))
    cmd = ["coqc", "-Q", "theories", "Wharf", rel]
    rc, out, err, dt = run(cmd, cwd=COQ, timeout=1500)
    res = {"file": "coq/" + rel, "statements": [n for _, n in stmts], "obligations": len(stmts),
           "discharged": qeds if rc == 0 else 0, "rc": rc, "wall_s": round(dt, 2),
           "checker_cmd": "cd coq && make -j16 && " + " ".join(cmd), "axioms": [], "closed": 0, "output_tail": (out + err)[-1500:]}
    if rc == 0:
        res["closed"] = out.count("Closed under the global context")
        in_ax = False
        for line in out.splitlines():
            if line.startswith("Axioms:"):
                in_ax = True
                continue
            if in_ax:
                m = re.match(r"^([A-Za-z_][A-Za-z0-9_.']*)", line)
                if m and not line.startswith("Closed"):
                    res["axioms"].append(m.group(1))
                elif line.startswith("Closed") or (line.strip() == ""):
                    in_ax = False
        res["axioms"] = sorted(set(res["axioms"]))
    return res


# ------------------------------------------------------------------ Go side

def go_build():
    os.makedirs(os.path.join(HARNESS, "bin"), exist_ok=True)
    rc, out, err, dt = run(["go", "build", "-tags", "verif", "-o", BIN, "./cmd/wharfobs"], cwd=HARNESS, env=go_env(), timeout=1200)
    return rc, out + err, dt


def run_harness(pid, seed, tier, outpath, timeout, extra=None):
    tmp = tempfile.mkdtemp(prefix="wharfobs-%s-" % pid)
    try:
        cmd = [BIN, pid, "-seed", str(seed), "-tier", tier, "-out", outpath, "-tmp", tmp] + (extra or [])
        return run(cmd, cwd=HARNESS, env=go_env(), timeout=timeout)
    finally:
        shutil.rmtree(tmp, ignore_errors=True)


def load_cases(path):
    cases = []
    if os.path.exists(path):
        for line in open(path, encoding="utf8"):
            line = line.strip()
            if line:
                try:
                    cases.append(json.loads(line))
                except ValueError:
                    pass   # a truncated last line after a crash
    return cases


# ------------------------------------------------------------------ correspondence

def _eval_shard(args):
    header, group, ctype, terms, idx, workdir = args
    name = "cases_%s_%d" % (group, idx)
    path = os.path.join(workdir, name + ".v")
    with open(path, "w", encoding="utf8") as f:
        f.write(header + "\n")
        f.write("Definition cs : list %s := [\n%s\n].\n" % (ctype, ";\n".join(terms)))
        f.write("Definition M_%s := Eval vm_compute in mismatches_%s cs.\nPrint M_%s.\n" % (group, group, group))
    rc, out, err, dt = run(["coqc", "-Q", os.path.join(COQ, "theories"), "Wharf", path], cwd=workdir, timeout=1800)
    if rc != 0:
        return group, None, (out + err)[-3000:], dt
    m = re.search(r"M_%s\s*=\s*(\[[^\]]*\])" % re.escape(group), out, re.S)
    if not m:
        return group, None, "cannot parse: " + out[-500:], dt
    ids = [int(x) for x in re.findall(r"(\d+)%N", m.group(1))]
    if not ids:
        ids = [int(x) for x in re.findall(r"\b(\d+)\b", m.group(1))]
    return group, ids, "", dt


def correspondence(cfg, cases, shard=200):
    """returns (number compared, mismatching ids, problems)"""
    groups = collections.OrderedDict()
    for c in cases:
        if c.get("group") and c.get("coq"):
            groups.setdefault(c["group"], []).append(c["coq"])
    if not groups:
        return 0, [], []
    workdir = tempfile.mkdtemp(prefix="verif-cases-")
    jobs = []
    try:
        for g, terms in groups.items():
            ctype = cfg["groups"][g]
            sh = cfg.get("shard", {}).get(g, shard)
            for i in range(0, len(terms), sh):
                jobs.append((cfg["coq_header"], g, ctype, terms[i:i + sh], i // sh, workdir))
        mism, problems = [], []
        with concurrent.futures.ThreadPoolExecutor(max_workers=12) as ex:
            for g, ids, msg, dt in ex.map(_eval_shard, jobs):
                if ids is None:
                    problems.append("%s: %s" % (g, msg))
                else:
                    mism.extend(ids)
        return sum(len(v) for v in groups.values()), sorted(mism), problems
    finally:
        shutil.rmtree(workdir, ignore_errors=True)


# ------------------------------------------------------------------ verdict

def known_findings(pid):
    p = os.path.join(VERIF, "known_findings.json")
    if not os.path.exists(p):
        return {}
    d = json.load(open(p))
    return {f["id"]: f for f in d.get("findings", []) if f["property"] == pid}


def write_replay(pid, payload):
    os.makedirs(os.path.join(VERIF, "replay"), exist_ok=True)
    h = hashlib.sha1(json.dumps(payload, sort_keys=True, default=str).encode()).hexdigest()[:10]
    rel = "replay/%s-%s.json" % (pid, h)
    payload = dict(payload)
    payload["how_to_replay"] = "./check %s --replay %s" % (pid, rel)
    with open(os.path.join(VERIF, rel), "w") as f:
        json.dump(payload, f, indent=1, default=str)
    return rel


def input_size(c):
    return len(json.dumps(c.get("input"), default=str))


def main(pid, cfg, argv):
    t0 = time.time()
    tier = os.environ.get("VERIF_TIER", "quick")
    seed = int(os.environ.get("VERIF_SEED", "1") or "1")
    replay = None
    i = 0
    while i < len(argv):
        a = argv[i]
        if a == "--tier":
            tier = argv[i + 1]; i += 2
        elif a == "--seed":
            seed = int(argv[i + 1]); i += 2
        elif a == "--replay":
            replay = argv[i + 1]; i += 2
        else:
            raise SystemExit("unknown argument " + a)
    if tier not in ("quick", "thorough"):
        tier = "quick"
    if replay:
        rp = json.load(open(os.path.join(VERIF, replay) if not os.path.isabs(replay) else replay))
        seed = int(rp.get("seed", seed)); tier = rp.get("tier", tier)

    violations = []     # (replay-rel-path, suffix)
    known_lines = []
    notes = []
    cov = {}

    def violation(payload, nofail=False):
        payload.update({"property": pid, "tier": tier, "seed": seed})
        rel = write_replay(pid, payload)
        violations.append((rel, " no-failing-input-found" if nofail else ""))

    # 1. Coq
    rc, log, dt_make = coq_build()
    forb = coq_forbidden()
    pr = None
    if rc != 0:
        violation({"broken": "theorem:build of coq/ failed", "log": log[-3000:]}, nofail=True)
    else:
        pr = coq_check_properties(pid)
        if pr["rc"] != 0:
            violation({"broken": "theorem:%s does not check" % pr["file"], "statements": pr["statements"], "log": pr["output_tail"]}, nofail=True)
        bad_ax = [a for a in pr["axioms"] if a.split(".")[-1] not in {x.split(".")[-1] for x in ALLOWED_AXIOMS}]
        if bad_ax:
            violation({"broken": "theorem:Print Assumptions of %s lists axioms outside the trusted base" % pr["file"], "axioms": bad_ax}, nofail=True)
    if forb:
        violation({"broken": "theorem:forbidden vernacular in the development", "hits": forb}, nofail=True)

    # 1b. thorough tier: independent re-check of the compiled property library with coqchk
    coqchk_res = None
    if tier == "thorough" and pr and pr["rc"] == 0:
        rc_c, out_c, err_c, dt_c = run(["coqchk", "-silent", "-o", "-Q", "theories", "Wharf", "Wharf.Properties." + pid], cwd=COQ, timeout=3000)
        txt = out_c + err_c
        m = re.search(r"\* Axioms:(.*?)\* Constants/Inductives relying on type-in-type", txt, re.S)
        axioms_txt = " ".join(m.group(1).split()) if m else "?"
        coqchk_res = {"rc": rc_c, "wall_s": round(dt_c, 1), "axioms": axioms_txt}
        if rc_c != 0:
            violation({"broken": "theorem:coqchk rejects Wharf.Properties." + pid, "log": txt[-3000:]}, nofail=True)
        elif axioms_txt not in ("<none>",) and any(a.split(".")[-1] not in {x.split(".")[-1] for x in ALLOWED_AXIOMS} for a in axioms_txt.split()):
            violation({"broken": "theorem:coqchk lists axioms outside the trusted base", "axioms": axioms_txt}, nofail=True)

    # 2. Go harness from /repo's working tree
    rc, log, dt_go = go_build()
    if rc != 0:
        sys.stdout.write(log[-4000:] + "\n")
        raise Problem("go build of the harness against /repo failed (see above)")

    # 3. cases: corpus first, then generated
    outdir = tempfile.mkdtemp(prefix="verif-%s-" % pid)
    try:
        obs = os.path.join(outdir, "obs.jsonl")
        timeout = cfg.get("timeout", {}).get(tier, 900 if tier == "quick" else 7200)
        rc, out, err, dt_h = run_harness(pid, seed, tier, obs, timeout)
        cases = load_cases(obs)
        if rc != 0:
            what = "harness timed out (possible hang in the implementation)" if rc == -999 else "harness exited with status %d (crash in the implementation?)" % rc
            violation({"broken": "impl:" + what, "cases_completed": len(cases), "stderr_tail": err[-3000:],
                       "last_case": cases[-1].get("input") if cases else None}, nofail=False)

        # 4. correspondence with the model
        ncmp, mism, problems = correspondence(cfg, cases)
        if problems:
            sys.stdout.write("\n".join(problems) + "\n")
            raise Problem("model evaluation of the generated case file failed (see above)")

        # 5. oracle verdicts
        kf = known_findings(pid)
        fails = [c for c in cases if c.get("oracle")]
        unknown = [c for c in fails if c.get("finding") not in kf]
        seen_k = collections.OrderedDict()
        for c in fails:
            if c.get("finding") in kf and c["finding"] not in seen_k:
                seen_k[c["finding"]] = c
        for fid, c in seen_k.items():
            known_lines.append("KNOWN-FINDING: property=%s %s (%s; e.g. case %d: %s)" % (pid, fid, kf[fid]["what"], c["id"], c["oracle"][:160]))
        if unknown:
            # one violation per distinct failure text class, smallest input first
            unknown.sort(key=input_size)
            c = unknown[0]
            violation({"case": {k: c.get(k) for k in ("id", "group", "class", "input", "obs")}, "oracle_failure": c["oracle"],
                       "other_failing_cases": len(unknown) - 1, "broken": None})
        by_id = {c["id"]: c for c in cases}
        mism_unexplained = [m for m in mism if not by_id.get(m, {}).get("oracle")]
        searched = 0
        if mism and not unknown:
            # the model and the implementation disagree and the oracle is silent on these cases: search
            found = None
            for s in range(1, cfg.get("search_rounds", 3) + 1):
                sobs = os.path.join(outdir, "search%d.jsonl" % s)
                rc2, _, err2, _ = run_harness(pid, seed + 7919 * s, "search", sobs, timeout * 2)
                sc = load_cases(sobs)
                searched += len(sc)
                bad = [c for c in sc if c.get("oracle") and c.get("finding") not in kf]
                if bad:
                    bad.sort(key=input_size)
                    found = (bad[0], seed + 7919 * s)
                    break
            c0 = by_id.get(mism[0], {})
            if found:
                c, s2 = found
                violation({"case": {k: c.get(k) for k in ("id", "group", "class", "input", "obs")}, "oracle_failure": c["oracle"],
                           "found_by": "search after correspondence break corr:%s/%s" % (pid, c0.get("group")), "search_seed": s2, "search_tier": "search",
                           "disagreeing_case": {k: c0.get(k) for k in ("id", "group", "class", "input", "obs")}})
            else:
                violation({"broken": "corr:%s/%s" % (pid, c0.get("group")), "disagreeing_cases": len(mism),
                           "case": {k: c0.get(k) for k in ("id", "group", "class", "input", "obs", "coq")},
                           "model_observation": "differs (evaluate the Coq term in 'coq' with Exec/%s.v)" % pid,
                           "searched_cases": searched}, nofail=True)

        # 6. evidence
        classes = collections.Counter(c.get("class", "?") for c in cases)
        nontrivial_keys = {c["key"] for c in cases if c.get("nontrivial")}
        samples = []
        seen_cls = set()
        for c in cases:
            if c.get("nontrivial") and c.get("class") not in seen_cls and len(samples) < 4:
                seen_cls.add(c.get("class"))
                s = {k: c.get(k) for k in ("id", "group", "class", "input", "obs", "oracle")}
                if len(json.dumps(s, default=str)) < 6000:
                    samples.append(s)
        if not samples and cases:
            samples = [{k: cases[0].get(k) for k in ("id", "group", "class", "oracle")}]
        cov = {
            "obligations": pr["obligations"] if pr else 0,
            "discharged": pr["discharged"] if pr else 0,
            "checker_cmd": pr["checker_cmd"] if pr else "cd coq && make",
            "trusted_base": cfg.get("trusted_base", []) + [
                "Coq 8.16.1 kernel (coqc) incl. vm_compute; no native_compute",
                "Print Assumptions of %s: %s" % (pr["file"] if pr else "?", ("%d statements closed under the global context" % pr["closed"]) + ("; axioms: " + ", ".join(pr["axioms"]) if pr and pr["axioms"] else "; no axioms") if pr else "n/a"),
                "hand-written Gallina model (coq/theories, all but Properties/) tied to /repo by this run's correspondence",
                "Go harness /verif/harness (generators, oracles, printers) and checks/common.py (case-file emitter)",
            ],
            "statements": pr["statements"] if pr else [],
            "evaluations": len(cases),
            "distinct_nontrivial": len(nontrivial_keys),
            "rule": cfg.get("rule", ""),
            "samples": samples,
            "traces_validated_against_impl": ncmp,
            "disagreements_checked": len(mism),
            "oracle_failures": len(fails),
            "known_findings_hit": list(seen_k.keys()),
            "search_cases": searched,
            "class_histogram": dict(classes.most_common(60)),
            "exhaustive": False,
            "coqchk": coqchk_res,
            "timing_s": {"coq_make": round(dt_make, 1), "coq_properties": pr["wall_s"] if pr else None, "go_build": round(dt_go, 1), "harness": round(dt_h, 1)},
        }
    finally:
        shutil.rmtree(outdir, ignore_errors=True)

    ev = {"property_id": pid, "tier": tier, "seed": seed, "level": "proof", "coverage": cov,
          "assumptions": cfg.get("assumptions", []), "wall_s": round(time.time() - t0, 2), "violations": len(violations)}
    os.makedirs(os.path.join(VERIF, "evidence"), exist_ok=True)
    with open(os.path.join(VERIF, "evidence", pid + ".json"), "w") as f:
        json.dump(ev, f, indent=1, default=str)

    for l in known_lines:
        print(l)
    print("%s tier=%s seed=%d: %d theorem statements re-checked, %d cases run, %d compared with the model, %d disagreements, %d oracle failures (%d known), %.1fs" % (
        pid, tier, seed, cov.get("obligations", 0), cov.get("evaluations", 0), cov.get("traces_validated_against_impl", 0),
        cov.get("disagreements_checked", 0), cov.get("oracle_failures", 0), len(known_lines), time.time() - t0))
    for rel, suffix in violations:
        print("VIOLATION property=%s replay=%s%s" % (pid, rel, suffix))
    return 1 if violations else 0
