#!/bin/sh
# MANIFEST.setup_cmd: build the framework from files on disk only (offline).
set -e
cd "$(dirname "$0")"
export GOFLAGS=-mod=mod GOPROXY=off GOTOOLCHAIN=auto
unset GOSUMDB || true
( cd coq && ./mkproject.sh && timeout 3000 make -j16 ) > /tmp/verif-setup-coq.log 2>&1 || { tail -30 /tmp/verif-setup-coq.log; exit 1; }
( cd harness && mkdir -p bin && go build -tags verif -o bin/wharfobs ./cmd/wharfobs )
if [ -d coq/extraction ]; then ( cd coq/extraction && [ ! -f build.sh ] || sh build.sh ); fi
echo setup ok
