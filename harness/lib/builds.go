package lib

import (
	"bytes"
	"fmt"
	"os"
	"path/filepath"
	"sort"
	"strings"
)

// Build is a directory tree in memory: the unit every build-level property quantifies over.
type Entry struct {
	Path string // slash separated, relative
	Kind string // "file" | "dir" | "link"
	Data []byte // file content
	Dest string // link destination
}

type Build struct{ Entries []Entry }

func (b *Build) sortEntries() {
	sort.Slice(b.Entries, func(i, j int) bool { return b.Entries[i].Path < b.Entries[j].Path })
}

func (b *Build) Get(path string) *Entry {
	for i := range b.Entries {
		if b.Entries[i].Path == path {
			return &b.Entries[i]
		}
	}
	return nil
}

func (b *Build) Remove(path string) {
	var out []Entry
	for _, e := range b.Entries {
		if e.Path != path && !strings.HasPrefix(e.Path, path+"/") {
			out = append(out, e)
		}
	}
	b.Entries = out
}

// Put adds/replaces an entry and makes sure its parent directories exist as dirs.
func (b *Build) Put(e Entry) {
	b.Remove(e.Path)
	parts := strings.Split(e.Path, "/")
	for i := 1; i < len(parts); i++ {
		p := strings.Join(parts[:i], "/")
		if x := b.Get(p); x == nil {
			b.Entries = append(b.Entries, Entry{Path: p, Kind: "dir"})
		} else if x.Kind != "dir" {
			b.Remove(p)
			b.Entries = append(b.Entries, Entry{Path: p, Kind: "dir"})
		}
	}
	b.Entries = append(b.Entries, e)
	b.sortEntries()
}

func (b *Build) Clone() *Build {
	c := &Build{}
	for _, e := range b.Entries {
		c.Entries = append(c.Entries, Entry{e.Path, e.Kind, append([]byte(nil), e.Data...), e.Dest})
	}
	return c
}

func (b *Build) Files() []Entry {
	var out []Entry
	for _, e := range b.Entries {
		if e.Kind == "file" {
			out = append(out, e)
		}
	}
	return out
}

// WriteTo materializes the build into dir (created; must not exist or be empty).
func (b *Build) WriteTo(dir string) error {
	if err := os.MkdirAll(dir, 0o755); err != nil {
		return err
	}
	b.sortEntries()
	for _, e := range b.Entries {
		p := filepath.Join(dir, filepath.FromSlash(e.Path))
		switch e.Kind {
		case "dir":
			if err := os.MkdirAll(p, 0o755); err != nil {
				return err
			}
		case "file":
			if err := os.MkdirAll(filepath.Dir(p), 0o755); err != nil {
				return err
			}
			if err := os.WriteFile(p, e.Data, 0o644); err != nil {
				return err
			}
		case "link":
			if err := os.MkdirAll(filepath.Dir(p), 0o755); err != nil {
				return err
			}
			if err := os.Symlink(e.Dest, p); err != nil {
				return err
			}
		}
	}
	return nil
}

// ReadBuild walks dir with Lstat/Readlink only (independent of tlc).
func ReadBuild(dir string) (*Build, error) {
	b := &Build{}
	err := filepath.Walk(dir, func(p string, info os.FileInfo, err error) error {
		if err != nil {
			return err
		}
		rel, _ := filepath.Rel(dir, p)
		if rel == "." {
			return nil
		}
		rel = filepath.ToSlash(rel)
		switch {
		case info.Mode()&os.ModeSymlink != 0:
			d, err := os.Readlink(p)
			if err != nil {
				return err
			}
			b.Entries = append(b.Entries, Entry{Path: rel, Kind: "link", Dest: d})
		case info.IsDir():
			b.Entries = append(b.Entries, Entry{Path: rel, Kind: "dir"})
		default:
			d, err := os.ReadFile(p)
			if err != nil {
				return err
			}
			b.Entries = append(b.Entries, Entry{Path: rel, Kind: "file", Data: d})
		}
		return nil
	})
	b.sortEntries()
	return b, err
}

// DiffBuilds returns "" when the two trees are identical (same entries, kinds, bytes, link
// destinations), else a short description of the first differences.
func DiffBuilds(got, want *Build) string {
	gm := map[string]Entry{}
	for _, e := range got.Entries {
		gm[e.Path] = e
	}
	var diffs []string
	for _, w := range want.Entries {
		g, ok := gm[w.Path]
		if !ok {
			diffs = append(diffs, fmt.Sprintf("missing %s %s", w.Kind, w.Path))
			continue
		}
		delete(gm, w.Path)
		if g.Kind != w.Kind {
			diffs = append(diffs, fmt.Sprintf("%s is a %s, want %s", w.Path, g.Kind, w.Kind))
		} else if w.Kind == "file" && !bytes.Equal(g.Data, w.Data) {
			diffs = append(diffs, fmt.Sprintf("%s content differs (len %d want %d, first diff at %d)", w.Path, len(g.Data), len(w.Data), firstDiff(g.Data, w.Data)))
		} else if w.Kind == "link" && g.Dest != w.Dest {
			diffs = append(diffs, fmt.Sprintf("%s -> %s, want -> %s", w.Path, g.Dest, w.Dest))
		}
	}
	var extra []string
	for p, e := range gm {
		extra = append(extra, fmt.Sprintf("unexpected %s %s", e.Kind, p))
	}
	sort.Strings(extra)
	diffs = append(diffs, extra...)
	if len(diffs) > 6 {
		diffs = append(diffs[:6], fmt.Sprintf("... %d more", len(diffs)-6))
	}
	return strings.Join(diffs, "; ")
}

func firstDiff(a, b []byte) int {
	n := len(a)
	if len(b) < n {
		n = len(b)
	}
	for i := 0; i < n; i++ {
		if a[i] != b[i] {
			return i
		}
	}
	return n
}

// Summary is the JSON-friendly description of a build (sizes and digests, not contents).
func (b *Build) Summary() []map[string]interface{} {
	var out []map[string]interface{}
	for _, e := range b.Entries {
		m := map[string]interface{}{"path": e.Path, "kind": e.Kind}
		if e.Kind == "file" {
			m["size"] = len(e.Data)
			m["sha"] = Digest(e.Data)
		}
		if e.Kind == "link" {
			m["dest"] = e.Dest
		}
		out = append(out, m)
	}
	return out
}

// ---------- content and build-pair generators ----------

const BS = 65536

// Sizes on and around block multiples.
var BoundarySizes = []int{0, 1, 2, 100, BS - 1, BS, BS + 1, 2*BS - 1, 2 * BS, 2*BS + 1, 3*BS + 17, 5 * BS}

// GenContent makes file content of the given size: high entropy, periodic (repeats blocks) or
// low-entropy runs.
func GenContent(r *Rng, size int) []byte {
	switch r.Intn(5) {
	case 0: // runs
		b := make([]byte, size)
		for i := 0; i < size; {
			n := r.Range(1, 3*BS/2)
			v := byte(r.Intn(4))
			for j := 0; j < n && i < size; j++ {
				b[i] = v
				i++
			}
		}
		return b
	case 1: // periodic: a random block repeated (equal blocks inside one file)
		period := []int{BS, BS / 2, 1000, BS + 1}[r.Intn(4)]
		p := r.Bytes(period)
		b := make([]byte, size)
		for i := range b {
			b[i] = p[i%period]
		}
		return b
	default:
		return r.Bytes(size)
	}
}

func GenSize(r *Rng, max int) int {
	if r.Chance(3, 5) {
		s := BoundarySizes[r.Intn(len(BoundarySizes))]
		if s <= max {
			return s
		}
	}
	return r.Range(0, max)
}

// Edit applies one localized edit (overwrite / insert / delete) to data.
func Edit(r *Rng, data []byte) ([]byte, string) {
	n := len(data)
	lens := []int{1, 7, BS - 1, BS, BS + 1, 3 * BS}
	l := lens[r.Intn(len(lens))]
	if l > n && n > 0 {
		l = r.Range(1, n)
	}
	at := 0
	if n > 0 {
		at = []int{0, n - 1, n / 2, (n / BS) * BS, r.Intn(n)}[r.Intn(5)]
	}
	if at > n {
		at = n
	}
	switch r.Intn(3) {
	case 0:
		out := append([]byte(nil), data...)
		for i := at; i < at+l && i < n; i++ {
			out[i] ^= byte(1 + r.Intn(255))
		}
		return out, fmt.Sprintf("overwrite@%d+%d", at, l)
	case 1:
		ins := r.Bytes(l)
		out := append(append(append([]byte(nil), data[:at]...), ins...), data[at:]...)
		return out, fmt.Sprintf("insert@%d+%d", at, l)
	default:
		end := at + l
		if end > n {
			end = n
		}
		out := append(append([]byte(nil), data[:at]...), data[end:]...)
		return out, fmt.Sprintf("delete@%d+%d", at, end-at)
	}
}

type PairOpts struct {
	MaxFiles int // number of files in the old build
	MaxSize  int // per-file size cap
	Links    bool
	KindSwap bool // allow a path to change kind between the builds
}

// GenPair returns (old, new, relations): new is derived from old by the path-level and
// content-level relations the properties enumerate.
func GenPair(r *Rng, o PairOpts) (*Build, *Build, []string) {
	if o.MaxFiles == 0 {
		o.MaxFiles = 5
	}
	if o.MaxSize == 0 {
		o.MaxSize = 5 * BS
	}
	dirs := []string{"", "a/", "a/b/", "c/", "data/x/"}
	old := &Build{}
	nf := r.Range(1, o.MaxFiles)
	for i := 0; i < nf; i++ {
		p := fmt.Sprintf("%sf%d.bin", dirs[r.Intn(len(dirs))], i)
		old.Put(Entry{Path: p, Kind: "file", Data: GenContent(r, GenSize(r, o.MaxSize))})
	}
	if r.Chance(1, 2) {
		old.Put(Entry{Path: "emptydir", Kind: "dir"})
	}
	if r.Chance(1, 3) {
		old.Put(Entry{Path: "gone/deep/er", Kind: "dir"})
		old.Put(Entry{Path: "gone/deep/f.txt", Kind: "file", Data: r.Bytes(r.Range(0, 300))})
	}
	if o.Links && r.Chance(1, 2) {
		old.Put(Entry{Path: "link0", Kind: "link", Dest: old.Files()[0].Path})
		if r.Chance(1, 2) {
			old.Put(Entry{Path: "a/dangling", Kind: "link", Dest: "nowhere"})
		}
	}
	nw := old.Clone()
	var rel []string
	files := old.Files()
	nops := r.Range(0, 5)
	for k := 0; k < nops; k++ {
		f := files[r.Intn(len(files))]
		switch r.Intn(14) {
		case 0: // edit in place
			if e := nw.Get(f.Path); e != nil && e.Kind == "file" {
				d, how := Edit(r, e.Data)
				nw.Put(Entry{Path: f.Path, Kind: "file", Data: d})
				rel = append(rel, "edit:"+f.Path+":"+how)
			}
		case 1: // rename
			np := fmt.Sprintf("%srenamed%d.bin", dirs[r.Intn(len(dirs))], k)
			nw.Remove(f.Path)
			nw.Put(Entry{Path: np, Kind: "file", Data: f.Data})
			rel = append(rel, "rename:"+f.Path+"->"+np)
		case 2: // duplicate keeping the original
			np := fmt.Sprintf("%sdup%d.bin", dirs[r.Intn(len(dirs))], k)
			nw.Put(Entry{Path: np, Kind: "file", Data: f.Data})
			rel = append(rel, "dup:"+f.Path+"->"+np)
		case 3: // duplicate to two paths dropping the original
			nw.Remove(f.Path)
			for j := 0; j < 2; j++ {
				np := fmt.Sprintf("%sfan%d_%d.bin", dirs[r.Intn(len(dirs))], k, j)
				nw.Put(Entry{Path: np, Kind: "file", Data: f.Data})
			}
			rel = append(rel, "fanout-drop:"+f.Path)
		case 4: // swap two files
			g := files[r.Intn(len(files))]
			if g.Path != f.Path && nw.Get(f.Path) != nil && nw.Get(g.Path) != nil {
				nw.Put(Entry{Path: f.Path, Kind: "file", Data: g.Data})
				nw.Put(Entry{Path: g.Path, Kind: "file", Data: f.Data})
				rel = append(rel, "swap:"+f.Path+"<->"+g.Path)
			}
		case 5: // chain A->B, B->C
			if len(files) >= 2 {
				g := files[r.Intn(len(files))]
				if g.Path != f.Path {
					np := fmt.Sprintf("chain%d.bin", k)
					nw.Put(Entry{Path: np, Kind: "file", Data: g.Data})
					nw.Put(Entry{Path: g.Path, Kind: "file", Data: f.Data})
					nw.Remove(f.Path)
					rel = append(rel, "chain:"+f.Path+"->"+g.Path+"->"+np)
				}
			}
		case 6: // patched and source of a rename
			np := fmt.Sprintf("moved%d.bin", k)
			nw.Put(Entry{Path: np, Kind: "file", Data: f.Data})
			d, how := Edit(r, f.Data)
			nw.Put(Entry{Path: f.Path, Kind: "file", Data: d})
			rel = append(rel, "patched+renamesrc:"+f.Path+":"+how)
		case 7: // remove
			nw.Remove(f.Path)
			rel = append(rel, "remove:"+f.Path)
		case 8: // becomes empty / grows from empty
			nw.Put(Entry{Path: f.Path, Kind: "file", Data: nil})
			rel = append(rel, "emptied:"+f.Path)
		case 9: // brand new file
			np := fmt.Sprintf("%snew%d.bin", dirs[r.Intn(len(dirs))], k)
			nw.Put(Entry{Path: np, Kind: "file", Data: GenContent(r, GenSize(r, o.MaxSize))})
			rel = append(rel, "added:"+np)
		case 10: // block-aligned prefix / suffix of another file
			nb := len(f.Data) / BS
			if nb >= 1 {
				cut := r.Range(1, nb) * BS
				np := fmt.Sprintf("part%d.bin", k)
				if r.Bool() {
					nw.Put(Entry{Path: np, Kind: "file", Data: append([]byte(nil), f.Data[:cut]...)})
					rel = append(rel, fmt.Sprintf("prefix:%s[:%d]", f.Path, cut))
				} else {
					nw.Put(Entry{Path: np, Kind: "file", Data: append([]byte(nil), f.Data[len(f.Data)-cut:]...)})
					rel = append(rel, fmt.Sprintf("suffix:%s[-%d:]", f.Path, cut))
				}
			}
		case 11: // grow / shrink
			if e := nw.Get(f.Path); e != nil && e.Kind == "file" {
				if r.Bool() {
					nw.Put(Entry{Path: f.Path, Kind: "file", Data: append(append([]byte(nil), e.Data...), r.Bytes(r.Range(1, BS+5))...)})
					rel = append(rel, "grow:"+f.Path)
				} else if len(e.Data) > 0 {
					nw.Put(Entry{Path: f.Path, Kind: "file", Data: append([]byte(nil), e.Data[:r.Intn(len(e.Data))]...)})
					rel = append(rel, "shrink:"+f.Path)
				}
			}
		case 12: // new file built from blocks of two old files
			g := files[r.Intn(len(files))]
			d := append(append([]byte(nil), f.Data...), g.Data...)
			np := fmt.Sprintf("concat%d.bin", k)
			nw.Put(Entry{Path: np, Kind: "file", Data: d})
			rel = append(rel, "concat:"+f.Path+"+"+g.Path)
		case 13: // symlink changes
			if o.Links {
				switch r.Intn(3) {
				case 0:
					np := fmt.Sprintf("newlink%d", k)
					nw.Put(Entry{Path: np, Kind: "link", Dest: f.Path})
					rel = append(rel, "link-added:"+np)
				case 1:
					if nw.Get("link0") != nil {
						nw.Remove("link0")
						rel = append(rel, "link-removed:link0")
					}
				default:
					if e := nw.Get("link0"); e != nil && e.Kind == "link" {
						nw.Put(Entry{Path: "link0", Kind: "link", Dest: "emptydir"})
						rel = append(rel, "link-retarget:link0")
					}
				}
			}
		}
	}
	if r.Chance(1, 3) {
		nw.Remove("gone")
		rel = append(rel, "dir-removed:gone")
	}
	if r.Chance(1, 3) {
		nw.Put(Entry{Path: "fresh/empty/dir", Kind: "dir"})
		rel = append(rel, "dir-added")
	}
	if o.KindSwap && r.Chance(1, 2) {
		f := files[r.Intn(len(files))]
		switch r.Intn(3) {
		case 0:
			nw.Remove(f.Path)
			nw.Put(Entry{Path: f.Path, Kind: "link", Dest: "emptydir"})
			rel = append(rel, "kindswap:file->link:"+f.Path)
		case 1:
			nw.Remove(f.Path)
			nw.Put(Entry{Path: f.Path, Kind: "dir"})
			nw.Put(Entry{Path: f.Path + "/inner.bin", Kind: "file", Data: f.Data})
			rel = append(rel, "kindswap:file->dir:"+f.Path)
		default:
			if nw.Get("emptydir") != nil {
				nw.Remove("emptydir")
				nw.Put(Entry{Path: "emptydir", Kind: "file", Data: r.Bytes(10)})
				rel = append(rel, "kindswap:dir->file:emptydir")
			}
		}
	}
	if len(rel) == 0 {
		rel = append(rel, "identical")
	}
	return old, nw, rel
}
