package lib

// Recording wrappers used by the patcher-level checks (C01/C17): a bowl that records which
// new-file indices it is asked to write / transpose and an old-build pool that records which
// old-file indices are sized / opened.  Both append to one shared, ordered event log.

import (
	"fmt"
	"io"
	"sync"

	"github.com/itchio/lake"
	"github.com/itchio/wharf/pwr/bowl"
)

// Ev is one recorded call. Kind: "W" bowl.GetWriter(A) | "T" bowl.Transpose(source A <- target B)
// | "S" pool.GetSize(A) | "R" pool.GetReader/GetReadSeeker(A)
type Ev struct {
	Kind string
	A, B int64
}

func (e Ev) String() string {
	if e.Kind == "T" {
		return fmt.Sprintf("T(%d<-%d)", e.A, e.B)
	}
	return fmt.Sprintf("%s(%d)", e.Kind, e.A)
}

func (e Ev) Coq() string {
	switch e.Kind {
	case "W":
		return "EvWriter " + CoqZ(e.A)
	case "T":
		return "EvTranspose " + CoqZ(e.A) + " " + CoqZ(e.B)
	case "S":
		return "EvSize " + CoqZ(e.A)
	default:
		return "EvRead " + CoqZ(e.A)
	}
}

type Recorder struct {
	mu     sync.Mutex
	Events []Ev
	Closed int // pool.Close calls
}

func (r *Recorder) add(e Ev) {
	r.mu.Lock()
	r.Events = append(r.Events, e)
	r.mu.Unlock()
}

func (r *Recorder) Strings() []string {
	out := make([]string, len(r.Events))
	for i, e := range r.Events {
		out[i] = e.String()
	}
	return out
}

func (r *Recorder) Coq() string {
	out := make([]string, len(r.Events))
	for i, e := range r.Events {
		out[i] = e.Coq()
	}
	return CoqList(out)
}

// RecBowl wraps a bowl.
type RecBowl struct {
	Inner bowl.Bowl
	Rec   *Recorder
}

var _ bowl.Bowl = (*RecBowl)(nil)

func (b *RecBowl) Resume(c *bowl.BowlCheckpoint) error { return b.Inner.Resume(c) }
func (b *RecBowl) Save() (*bowl.BowlCheckpoint, error) { return b.Inner.Save() }
func (b *RecBowl) GetWriter(index int64) (bowl.EntryWriter, error) {
	b.Rec.add(Ev{Kind: "W", A: index})
	return b.Inner.GetWriter(index)
}
func (b *RecBowl) Transpose(t bowl.Transposition) error {
	b.Rec.add(Ev{Kind: "T", A: t.SourceIndex, B: t.TargetIndex})
	return b.Inner.Transpose(t)
}
func (b *RecBowl) Commit() error { return b.Inner.Commit() }
func (b *RecBowl) Close() error  { return b.Inner.Close() }

// RecPool wraps the old-build pool.
type RecPool struct {
	Inner lake.Pool
	Rec   *Recorder
}

var _ lake.Pool = (*RecPool)(nil)

func (p *RecPool) GetSize(i int64) int64 {
	p.Rec.add(Ev{Kind: "S", A: i})
	return p.Inner.GetSize(i)
}
func (p *RecPool) GetReader(i int64) (io.Reader, error) {
	p.Rec.add(Ev{Kind: "R", A: i})
	return p.Inner.GetReader(i)
}
func (p *RecPool) GetReadSeeker(i int64) (io.ReadSeeker, error) {
	p.Rec.add(Ev{Kind: "R", A: i})
	return p.Inner.GetReadSeeker(i)
}
func (p *RecPool) Close() error {
	p.Rec.mu.Lock()
	p.Rec.Closed++
	p.Rec.mu.Unlock()
	return p.Inner.Close()
}
