// Package lib holds what every property sub-command of wharfobs shares: the single
// seeded PRNG, the JSONL case writer, Coq term printers and small helpers.
package lib

import (
	"bufio"
	"crypto/sha1"
	"encoding/hex"
	"encoding/json"
	"fmt"
	"os"
	"strings"
	"sync"
)

// ---------- PRNG (splitmix64); every random choice of a run derives from one seed ----------

type Rng struct{ s uint64 }

func NewRng(seed uint64) *Rng { return &Rng{s: seed*0x9E3779B97F4A7C15 + 0x1234567} }

func (r *Rng) U64() uint64 {
	r.s += 0x9E3779B97F4A7C15
	z := r.s
	z = (z ^ (z >> 30)) * 0xBF58476D1CE4E5B9
	z = (z ^ (z >> 27)) * 0x94D049BB133111EB
	return z ^ (z >> 31)
}

// Intn returns a value in [0,n)
func (r *Rng) Intn(n int) int {
	if n <= 0 {
		return 0
	}
	return int(r.U64() % uint64(n))
}
func (r *Rng) Range(lo, hi int) int     { return lo + r.Intn(hi-lo+1) } // inclusive
func (r *Rng) Bool() bool               { return r.U64()&1 == 1 }
func (r *Rng) Chance(num, den int) bool { return r.Intn(den) < num }
func (r *Rng) Pick(xs []int) int        { return xs[r.Intn(len(xs))] }
func (r *Rng) Fork() *Rng               { return &Rng{s: r.U64()} }
func (r *Rng) Bytes(n int) []byte {
	b := make([]byte, n)
	for i := 0; i < n; i += 8 {
		v := r.U64()
		for j := 0; j < 8 && i+j < n; j++ {
			b[i+j] = byte(v >> (8 * uint(j)))
		}
	}
	return b
}

// ---------- case records ----------

// Case is one line of the observation file.
type Case struct {
	ID         int         `json:"id"`
	Group      string      `json:"group"`             // which model comparator evaluates Coq (empty: oracle only)
	Class      string      `json:"class"`             // generator class, for the distribution histogram
	Nontrivial bool        `json:"nontrivial"`        // by the rule the property states in its evidence
	Key        string      `json:"key"`               // digest of the input, for distinct counting
	Input      interface{} `json:"input,omitempty"`   // human-readable input (may be a recipe for large inputs)
	Obs        interface{} `json:"obs,omitempty"`     // projected observables of the implementation
	Oracle     string      `json:"oracle"`            // "" = property holds on this case; else what failed
	Finding    string      `json:"finding,omitempty"` // id of a known-findings matcher that accepts this failing input
	Coq        string      `json:"coq,omitempty"`     // the case as a Coq term (input + observed output)
}

type Out struct {
	mu   sync.Mutex
	w    *bufio.Writer
	f    *os.File
	next int
}

func NewOut(path string) (*Out, error) {
	f, err := os.Create(path)
	if err != nil {
		return nil, err
	}
	return &Out{w: bufio.NewWriterSize(f, 1<<20), f: f}, nil
}

// Emit assigns the case id and writes the line. c.Coq may contain the placeholder $ID.
func (o *Out) Emit(c *Case) {
	o.mu.Lock()
	defer o.mu.Unlock()
	c.ID = o.next
	o.next++
	if c.Key == "" {
		b, _ := json.Marshal(c.Input)
		c.Key = Digest(b)
	}
	c.Coq = strings.ReplaceAll(c.Coq, "$ID", fmt.Sprintf("%d", c.ID))
	b, err := json.Marshal(c)
	if err != nil {
		panic(err)
	}
	o.w.Write(b)
	o.w.WriteByte('\n')
}

func (o *Out) Close() { o.w.Flush(); o.f.Close() }

func Digest(b []byte) string {
	h := sha1.Sum(b)
	return hex.EncodeToString(h[:8])
}

// ---------- Coq term printers ----------

func CoqN(n int64) string { // N literal (non-negative)
	if n < 0 {
		panic("CoqN negative")
	}
	return fmt.Sprintf("%d%%N", n)
}
func CoqZ(n int64) string {
	if n < 0 {
		return fmt.Sprintf("(%d)%%Z", n)
	}
	return fmt.Sprintf("%d%%Z", n)
}
func CoqNat(n int) string { return fmt.Sprintf("%d%%nat", n) }
func CoqBool(b bool) string {
	if b {
		return "true"
	}
	return "false"
}
func CoqList(items []string) string { return "[" + strings.Join(items, "; ") + "]" }
func CoqNList(xs []int64) string {
	s := make([]string, len(xs))
	for i, x := range xs {
		s[i] = CoqN(x)
	}
	return CoqList(s)
}
func CoqBytes(b []byte) string { // list N
	s := make([]string, len(b))
	for i, x := range b {
		s[i] = fmt.Sprintf("%d", x)
	}
	return "([" + strings.Join(s, ";") + "]%N)"
}
func CoqOption(s string, some bool) string {
	if some {
		return "(Some " + s + ")"
	}
	return "None"
}

// Rle is a run-length encoded byte string: compact in case files, expanded by the model's [expand].
type Run struct {
	V byte
	C int
}
type Rle []Run

func (r Rle) Bytes() []byte {
	var b []byte
	for _, x := range r {
		for i := 0; i < x.C; i++ {
			b = append(b, x.V)
		}
	}
	return b
}
func (r Rle) Len() int {
	n := 0
	for _, x := range r {
		n += x.C
	}
	return n
}
func (r Rle) Coq() string {
	s := make([]string, len(r))
	for i, x := range r {
		s[i] = fmt.Sprintf("(%d,%d)", x.V, x.C)
	}
	return "([" + strings.Join(s, ";") + "]%N)"
}
func (r Rle) String() string {
	s := make([]string, len(r))
	for i, x := range r {
		s[i] = fmt.Sprintf("%dx%d", x.V, x.C)
	}
	return strings.Join(s, ",")
}

// ToRle compresses b
func ToRle(b []byte) Rle {
	var r Rle
	for _, x := range b {
		if n := len(r); n > 0 && r[n-1].V == x {
			r[n-1].C++
		} else {
			r = append(r, Run{x, 1})
		}
	}
	return r
}

// Guard runs f and converts a panic into ("panic", message).
func Guard(f func() error) (class string, msg string) {
	defer func() {
		if r := recover(); r != nil {
			class = "panic"
			msg = fmt.Sprint(r)
		}
	}()
	if err := f(); err != nil {
		return "error", err.Error()
	}
	return "ok", ""
}

// Ints renders a byte slice as a JSON-friendly list of numbers.
func Ints(b []byte) []int {
	out := make([]int, len(b))
	for i, x := range b {
		out[i] = int(x)
	}
	return out
}

// IntsL renders a list of byte slices.
func IntsL(bs [][]byte) [][]int {
	out := make([][]int, len(bs))
	for i, b := range bs {
		out[i] = Ints(b)
	}
	return out
}
