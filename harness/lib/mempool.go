package lib

import (
	"bytes"
	"fmt"
	"io"
	"sync"

	"github.com/itchio/lake"
	"github.com/itchio/lake/tlc"
)

// MemPool is an in-memory lake.WritablePool that records what is written to each file
// (one entry per Write call) and which files were opened for reading.
type MemPool struct {
	Container *tlc.Container
	Data      map[int64][]byte
	mu        sync.Mutex
	Written   map[int64][][]byte // per file: the byte slices passed to inner Write, in order
	Closed    map[int64]int
	Reads     map[int64]int
}

var _ lake.WritablePool = (*MemPool)(nil)

func NewMemPool(files [][]byte) *MemPool {
	c := &tlc.Container{}
	mp := &MemPool{Container: c, Data: map[int64][]byte{}, Written: map[int64][][]byte{}, Closed: map[int64]int{}, Reads: map[int64]int{}}
	off := int64(0)
	for i, f := range files {
		c.Files = append(c.Files, &tlc.File{Path: fmt.Sprintf("f%d", i), Mode: 0644, Size: int64(len(f)), Offset: off})
		off += int64(len(f))
		mp.Data[int64(i)] = f
	}
	c.Size = off
	return mp
}

func (mp *MemPool) GetSize(i int64) int64                { return mp.Container.Files[i].Size }
func (mp *MemPool) GetReader(i int64) (io.Reader, error) { return mp.GetReadSeeker(i) }
func (mp *MemPool) GetReadSeeker(i int64) (io.ReadSeeker, error) {
	mp.mu.Lock()
	defer mp.mu.Unlock()
	d, ok := mp.Data[i]
	if !ok {
		return nil, fmt.Errorf("mempool: no file %d", i)
	}
	mp.Reads[i]++
	return bytes.NewReader(d), nil
}
func (mp *MemPool) Close() error { return nil }

type memWriter struct {
	mp *MemPool
	i  int64
}

func (w *memWriter) Write(b []byte) (int, error) {
	w.mp.mu.Lock()
	defer w.mp.mu.Unlock()
	w.mp.Written[w.i] = append(w.mp.Written[w.i], append([]byte(nil), b...))
	return len(b), nil
}
func (w *memWriter) Close() error {
	w.mp.mu.Lock()
	defer w.mp.mu.Unlock()
	w.mp.Closed[w.i]++
	return nil
}
func (mp *MemPool) GetWriter(i int64) (io.WriteCloser, error) {
	mp.mu.Lock()
	defer mp.mu.Unlock()
	mp.Written[i] = nil
	return &memWriter{mp, i}, nil
}

// WrittenBytes concatenates everything written to file i
func (mp *MemPool) WrittenBytes(i int64) []byte {
	var b []byte
	for _, w := range mp.Written[i] {
		b = append(b, w...)
	}
	return b
}
