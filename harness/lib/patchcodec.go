package lib

// Grammar-driven reader / writer of a wharf patch as a MESSAGE LIST (the level at which the
// Patch/* models work): PatchHeader, two containers, then per new file a series
//   SyncHeader{RSYNC}  SyncOp* SyncOp{HEY_YOU_DID_IT}
//   SyncHeader{BSDIFF} BsdiffHeader Control* Control{eof} SyncOp{HEY_YOU_DID_IT}
// This reader is the harness's own (it never calls the patcher), so what it returns is an
// independent view of the stream.

import (
	"bytes"
	"fmt"
	"strings"

	"github.com/itchio/lake/tlc"
	"github.com/itchio/savior/seeksource"

	"github.com/itchio/wharf/bsdiff"
	"github.com/itchio/wharf/pwr"
	"github.com/itchio/wharf/wire"
)

const HeyYouDidIt = int64(pwr.SyncOp_HEY_YOU_DID_IT)

// PMsg is one message of the per-file part of a patch.
type PMsg struct {
	Kind string // "sh" SyncHeader | "so" SyncOp | "bh" BsdiffHeader | "ct" Control
	// SyncHeader: Type, FileIndex.  SyncOp: Type, FileIndex, BlockIndex, BlockSpan, Data.
	Type, FileIndex, BlockIndex, BlockSpan int64
	Data                                   []byte
	TargetIndex                            int64  // BsdiffHeader
	Add, Copy                              []byte // Control
	Seek                                   int64
	Eof                                    bool
}

func SH(typ, fileIndex int64) PMsg { return PMsg{Kind: "sh", Type: typ, FileIndex: fileIndex} }
func Range(file, idx, span int64) PMsg {
	return PMsg{Kind: "so", Type: 0, FileIndex: file, BlockIndex: idx, BlockSpan: span}
}
func DataOp(d []byte) PMsg { return PMsg{Kind: "so", Type: 1, Data: d} }
func Hey() PMsg            { return PMsg{Kind: "so", Type: HeyYouDidIt} }
func BH(target int64) PMsg { return PMsg{Kind: "bh", TargetIndex: target} }
func Ctl(add, cp []byte, seek int64) PMsg {
	return PMsg{Kind: "ct", Add: add, Copy: cp, Seek: seek}
}
func CtlEof() PMsg { return PMsg{Kind: "ct", Eof: true} }

type DecodedPatch struct {
	Algo    pwr.CompressionAlgorithm
	Quality int32
	Target  *tlc.Container // old build
	Source  *tlc.Container // new build
	Msgs    []PMsg
	// Series[i] = [start,end) of new file i's messages in Msgs (SyncHeader included)
	Series [][2]int
}

// DecodePatch parses a patch following the grammar above; anything else is an error.
func DecodePatch(patch []byte) (*DecodedPatch, error) {
	src := seeksource.FromBytes(patch)
	if _, err := src.Resume(nil); err != nil {
		return nil, err
	}
	raw := wire.NewReadContext(src)
	if err := raw.ExpectMagic(pwr.PatchMagic); err != nil {
		return nil, err
	}
	ph := &pwr.PatchHeader{}
	if err := raw.ReadMessage(ph); err != nil {
		return nil, err
	}
	if ph.Compression == nil {
		return nil, fmt.Errorf("decode: no compression settings in the header")
	}
	rctx, err := pwr.DecompressWire(raw, ph.Compression)
	if err != nil {
		return nil, err
	}
	dp := &DecodedPatch{Algo: ph.Compression.Algorithm, Quality: ph.Compression.Quality, Target: &tlc.Container{}, Source: &tlc.Container{}}
	if err := rctx.ReadMessage(dp.Target); err != nil {
		return nil, err
	}
	if err := rctx.ReadMessage(dp.Source); err != nil {
		return nil, err
	}
	for i := range dp.Source.Files {
		start := len(dp.Msgs)
		sh := &pwr.SyncHeader{}
		if err := rctx.ReadMessage(sh); err != nil {
			return nil, fmt.Errorf("decode: sync header of file %d: %v", i, err)
		}
		dp.Msgs = append(dp.Msgs, SH(int64(sh.Type), sh.FileIndex))
		switch sh.Type {
		case pwr.SyncHeader_RSYNC:
			for {
				op := &pwr.SyncOp{}
				if err := rctx.ReadMessage(op); err != nil {
					return nil, fmt.Errorf("decode: ops of file %d: %v", i, err)
				}
				dp.Msgs = append(dp.Msgs, PMsg{Kind: "so", Type: int64(op.Type), FileIndex: op.FileIndex, BlockIndex: op.BlockIndex, BlockSpan: op.BlockSpan, Data: append([]byte(nil), op.Data...)})
				if op.Type == pwr.SyncOp_HEY_YOU_DID_IT {
					break
				}
			}
		case pwr.SyncHeader_BSDIFF:
			bh := &pwr.BsdiffHeader{}
			if err := rctx.ReadMessage(bh); err != nil {
				return nil, err
			}
			dp.Msgs = append(dp.Msgs, BH(bh.TargetIndex))
			for {
				ct := &bsdiff.Control{}
				if err := rctx.ReadMessage(ct); err != nil {
					return nil, fmt.Errorf("decode: controls of file %d: %v", i, err)
				}
				dp.Msgs = append(dp.Msgs, PMsg{Kind: "ct", Add: append([]byte(nil), ct.Add...), Copy: append([]byte(nil), ct.Copy...), Seek: ct.Seek, Eof: ct.Eof})
				if ct.Eof {
					break
				}
			}
			op := &pwr.SyncOp{}
			if err := rctx.ReadMessage(op); err != nil {
				return nil, err
			}
			if op.Type != pwr.SyncOp_HEY_YOU_DID_IT {
				return nil, fmt.Errorf("decode: bsdiff series of file %d not closed by the end marker", i)
			}
			dp.Msgs = append(dp.Msgs, Hey())
		default:
			return nil, fmt.Errorf("decode: series kind %d for file %d", sh.Type, i)
		}
		dp.Series = append(dp.Series, [2]int{start, len(dp.Msgs)})
	}
	// nothing may follow
	extra := &pwr.SyncHeader{}
	if err := rctx.ReadMessage(extra); err == nil {
		return nil, fmt.Errorf("decode: messages after the last series")
	}
	return dp, nil
}

// ProtoMsg has the method set of github.com/golang/protobuf/proto.Message (not imported
// directly so that the shared go.mod stays as it is).
type ProtoMsg interface {
	Reset()
	String() string
	ProtoMessage()
}

func (m PMsg) Proto() ProtoMsg {
	switch m.Kind {
	case "sh":
		return &pwr.SyncHeader{Type: pwr.SyncHeader_Type(m.Type), FileIndex: m.FileIndex}
	case "so":
		return &pwr.SyncOp{Type: pwr.SyncOp_Type(m.Type), FileIndex: m.FileIndex, BlockIndex: m.BlockIndex, BlockSpan: m.BlockSpan, Data: m.Data}
	case "bh":
		return &pwr.BsdiffHeader{TargetIndex: m.TargetIndex}
	case "ct":
		return &bsdiff.Control{Add: m.Add, Copy: m.Copy, Seek: m.Seek, Eof: m.Eof}
	}
	panic("PMsg kind " + m.Kind)
}

// EncodePatch writes magic, header, the two containers and msgs verbatim (no grammar check:
// the caller may craft ill-formed streams).
func EncodePatch(comp Compression, target, source *tlc.Container, msgs []PMsg) ([]byte, error) {
	var buf bytes.Buffer
	raw := wire.NewWriteContext(&buf)
	if err := raw.WriteMagic(pwr.PatchMagic); err != nil {
		return nil, err
	}
	if err := raw.WriteMessage(&pwr.PatchHeader{Compression: comp.Settings()}); err != nil {
		return nil, err
	}
	w, err := pwr.CompressWire(raw, comp.Settings())
	if err != nil {
		return nil, err
	}
	if err := w.WriteMessage(target); err != nil {
		return nil, err
	}
	if err := w.WriteMessage(source); err != nil {
		return nil, err
	}
	for _, m := range msgs {
		if err := w.WriteMessage(m.Proto()); err != nil {
			return nil, err
		}
	}
	if err := w.Close(); err != nil {
		return nil, err
	}
	return buf.Bytes(), nil
}

// ---------- Coq printers for the Patch/* models ----------

// PathDict numbers path segments so that a path prints as a list of N.
type PathDict struct{ ids map[string]int }

func NewPathDict() *PathDict { return &PathDict{ids: map[string]int{}} }
func (d *PathDict) seg(s string) int {
	if id, ok := d.ids[s]; ok {
		return id
	}
	id := len(d.ids) + 1
	d.ids[s] = id
	return id
}
func (d *PathDict) Path(p string) string {
	p = strings.Trim(strings.ReplaceAll(p, "\\", "/"), "/")
	if p == "" || p == "." {
		return "[]"
	}
	parts := strings.Split(p, "/")
	s := make([]string, len(parts))
	for i, x := range parts {
		s[i] = fmt.Sprintf("%d", d.seg(x))
	}
	return "[" + strings.Join(s, ";") + "]%N"
}

// Dest prints a symlink destination (opaque to the model) as the list of its bytes.
func CoqDest(s string) string { return CoqBytes([]byte(s)) }

// CoqContainer prints a tlc.Container as the model's [container].
func CoqContainer(c *tlc.Container, d *PathDict) string {
	fs := make([]string, len(c.Files))
	for i, f := range c.Files {
		fs[i] = fmt.Sprintf("(%s, %s)", d.Path(f.Path), CoqZ(f.Size))
	}
	ds := make([]string, len(c.Dirs))
	for i, x := range c.Dirs {
		ds[i] = d.Path(x.Path)
	}
	ls := make([]string, len(c.Symlinks))
	for i, l := range c.Symlinks {
		ls[i] = fmt.Sprintf("(%s, %s)", d.Path(l.Path), CoqDest(l.Dest))
	}
	return fmt.Sprintf("(mkC %s %s %s)", CoqList(fs), CoqList(ds), CoqList(ls))
}

func CoqRle(b []byte) string { return ToRle(b).Coq() }

// CoqMsg prints a message as the model's run-length encoded [rmsg].
func CoqMsg(m PMsg) string {
	switch m.Kind {
	case "sh":
		return fmt.Sprintf("RSH %s %s", CoqZ(m.Type), CoqZ(m.FileIndex))
	case "so":
		return fmt.Sprintf("RSO %s %s %s %s %s", CoqZ(m.Type), CoqZ(m.FileIndex), CoqZ(m.BlockIndex), CoqZ(m.BlockSpan), CoqRle(m.Data))
	case "bh":
		return fmt.Sprintf("RBH %s", CoqZ(m.TargetIndex))
	case "ct":
		return fmt.Sprintf("RCT %s %s %s %s", CoqRle(m.Add), CoqRle(m.Copy), CoqZ(m.Seek), CoqBool(m.Eof))
	}
	panic("PMsg kind " + m.Kind)
}

func CoqMsgs(ms []PMsg) string {
	s := make([]string, len(ms))
	for i, m := range ms {
		s[i] = CoqMsg(m)
	}
	return CoqList(s)
}

// CoqTree prints a build (as read back from disk) as the model's tree listing.
func CoqTree(b *Build, d *PathDict) string {
	s := make([]string, 0, len(b.Entries))
	for _, e := range b.Entries {
		switch e.Kind {
		case "dir":
			s = append(s, fmt.Sprintf("(%s, RDir)", d.Path(e.Path)))
		case "file":
			s = append(s, fmt.Sprintf("(%s, RFile %s)", d.Path(e.Path), CoqRle(e.Data)))
		case "link":
			s = append(s, fmt.Sprintf("(%s, RLink %s)", d.Path(e.Path), CoqDest(e.Dest)))
		}
	}
	return CoqList(s)
}

// MsgSummary is the JSON-friendly projection of a message list (no payload bytes).
func MsgSummary(ms []PMsg) []string {
	out := make([]string, len(ms))
	for i, m := range ms {
		switch m.Kind {
		case "sh":
			out[i] = fmt.Sprintf("SH(%d,%d)", m.Type, m.FileIndex)
		case "so":
			switch m.Type {
			case 0:
				out[i] = fmt.Sprintf("RANGE(%d,%d,%d)", m.FileIndex, m.BlockIndex, m.BlockSpan)
			case 1:
				out[i] = fmt.Sprintf("DATA(%d)", len(m.Data))
			case HeyYouDidIt:
				out[i] = "HEY"
			default:
				out[i] = fmt.Sprintf("SO?(%d)", m.Type)
			}
		case "bh":
			out[i] = fmt.Sprintf("BH(%d)", m.TargetIndex)
		case "ct":
			out[i] = fmt.Sprintf("CT(%d,%d,%d,%v)", len(m.Add), len(m.Copy), m.Seek, m.Eof)
		}
	}
	return out
}
