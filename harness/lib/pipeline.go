package lib

import (
	"bytes"
	"context"
	"fmt"
	"os"
	"time"

	"github.com/itchio/headway/state"
	"github.com/itchio/lake"
	"github.com/itchio/lake/pools/fspool"
	"github.com/itchio/lake/tlc"
	"github.com/itchio/savior/seeksource"

	"github.com/itchio/wharf/pwr"
	"github.com/itchio/wharf/pwr/bowl"
	"github.com/itchio/wharf/pwr/patcher"
	"github.com/itchio/wharf/pwr/rediff"

	_ "github.com/itchio/wharf/compressors/cbrotli"
	_ "github.com/itchio/wharf/compressors/gzip"
	_ "github.com/itchio/wharf/decompressors/cbrotli"
	_ "github.com/itchio/wharf/decompressors/gzip"
)

var Quiet = &state.Consumer{}

type Compression struct {
	Algo    pwr.CompressionAlgorithm
	Quality int32
}

func (c Compression) Settings() *pwr.CompressionSettings {
	return &pwr.CompressionSettings{Algorithm: c.Algo, Quality: c.Quality}
}
func (c Compression) String() string { return fmt.Sprintf("%s-q%d", c.Algo, c.Quality) }

var Compressions = []Compression{
	{pwr.CompressionAlgorithm_NONE, 0},
	{pwr.CompressionAlgorithm_GZIP, 1}, {pwr.CompressionAlgorithm_GZIP, 6}, {pwr.CompressionAlgorithm_GZIP, 9},
	{pwr.CompressionAlgorithm_BROTLI, 1}, {pwr.CompressionAlgorithm_BROTLI, 6}, {pwr.CompressionAlgorithm_BROTLI, 9},
	// quality 0 is a legal setting of both algorithms (kept at the end: callers index the first seven)
	{pwr.CompressionAlgorithm_GZIP, 0}, {pwr.CompressionAlgorithm_BROTLI, 0},
}

func Walk(dir string) (*tlc.Container, error) { return tlc.WalkAny(dir, tlc.WalkOpts{}) }

// SignDir computes the stand-alone signature of a directory.
func SignDir(dir string) (*pwr.SignatureInfo, error) {
	c, err := Walk(dir)
	if err != nil {
		return nil, err
	}
	h, err := pwr.ComputeSignature(context.Background(), c, fspool.New(c, dir), Quiet)
	if err != nil {
		return nil, err
	}
	return &pwr.SignatureInfo{Container: c, Hashes: h}, nil
}

type DiffResult struct {
	Patch, Sig    []byte
	Fresh, Reused int64
	OldSig        *pwr.SignatureInfo
	NewContainer  *tlc.Container
}

// Diff runs pwr.DiffContext.WritePatch from oldDir to newDir. pool may be nil (fspool over newDir).
func Diff(oldDir, newDir string, comp Compression, pool lake.Pool) (*DiffResult, error) {
	oldSig, err := SignDir(oldDir)
	if err != nil {
		return nil, err
	}
	nc, err := Walk(newDir)
	if err != nil {
		return nil, err
	}
	if pool == nil {
		pool = fspool.New(nc, newDir)
	}
	dctx := &pwr.DiffContext{Compression: comp.Settings(), Consumer: Quiet, SourceContainer: nc, Pool: pool,
		TargetContainer: oldSig.Container, TargetSignature: oldSig.Hashes}
	var p, s bytes.Buffer
	if err := dctx.WritePatch(context.Background(), &p, &s); err != nil {
		return nil, err
	}
	return &DiffResult{Patch: p.Bytes(), Sig: s.Bytes(), Fresh: dctx.FreshBytes, Reused: dctx.ReusedBytes, OldSig: oldSig, NewContainer: nc}, nil
}

func ReadSig(sig []byte) (*pwr.SignatureInfo, error) {
	src := seeksource.FromBytes(sig)
	if _, err := src.Resume(nil); err != nil {
		return nil, err
	}
	return pwr.ReadSignature(context.Background(), src)
}

func NewPatcher(patch []byte) (patcher.Patcher, error) {
	src := seeksource.FromBytes(patch)
	if _, err := src.Resume(nil); err != nil {
		return nil, err
	}
	return patcher.New(src, Quiet)
}

// ApplyFresh applies patch to oldDir into outDir (created empty). wrapPool may wrap the old-build pool.
func ApplyFresh(patch []byte, oldDir, outDir string, whitelist map[int64]bool, wrapPool func(lake.Pool, *tlc.Container) lake.Pool) (patcher.Patcher, error) {
	os.RemoveAll(outDir)
	if err := os.MkdirAll(outDir, 0o755); err != nil {
		return nil, err
	}
	p, err := NewPatcher(patch)
	if err != nil {
		return nil, err
	}
	if whitelist != nil {
		p.SetSourceIndexWhitelist(whitelist)
	}
	var tp lake.Pool = fspool.New(p.GetTargetContainer(), oldDir)
	if wrapPool != nil {
		tp = wrapPool(tp, p.GetTargetContainer())
	}
	b, err := bowl.NewFreshBowl(bowl.FreshBowlParams{SourceContainer: p.GetSourceContainer(), TargetContainer: p.GetTargetContainer(), TargetPool: tp, OutputFolder: outDir})
	if err != nil {
		return p, err
	}
	defer b.Close()
	if err := p.Resume(nil, tp, b); err != nil {
		return p, err
	}
	return p, b.Commit()
}

// ApplyInPlace applies patch onto dir (which holds the old build) through an overlay bowl.
// beforeCommit (optional) is called after patching and before Commit.
func ApplyInPlace(patch []byte, dir, stageDir string, beforeCommit func() error) error {
	os.RemoveAll(stageDir)
	if err := os.MkdirAll(stageDir, 0o755); err != nil {
		return err
	}
	p, err := NewPatcher(patch)
	if err != nil {
		return err
	}
	tp := fspool.New(p.GetTargetContainer(), dir)
	b, err := bowl.NewOverlayBowl(bowl.OverlayBowlParams{SourceContainer: p.GetSourceContainer(), TargetContainer: p.GetTargetContainer(), StageFolder: stageDir, OutputFolder: dir, Consumer: Quiet})
	if err != nil {
		return err
	}
	defer b.Close()
	if err := p.Resume(nil, tp, b); err != nil {
		return err
	}
	if beforeCommit != nil {
		if err := beforeCommit(); err != nil {
			return err
		}
	}
	return b.Commit()
}

type OptParams struct {
	Partitions  int
	Concurrency int
	ForceMapAll bool
	SizeLimit   int64
	Comp        Compression
}

// Optimize runs rediff on patch.
func Optimize(patch []byte, oldDir, newDir string, o OptParams) ([]byte, error) {
	rc, err := rediff.NewContext(rediff.Params{PatchReader: seeksource.FromBytes(patch), Consumer: Quiet, Compression: o.Comp.Settings(),
		SuffixSortConcurrency: o.Concurrency, Partitions: o.Partitions, ForceMapAll: o.ForceMapAll, RediffSizeLimit: o.SizeLimit})
	if err != nil {
		return nil, err
	}
	var out bytes.Buffer
	err = rc.Optimize(rediff.OptimizeParams{TargetPool: fspool.New(rc.GetTargetContainer(), oldDir), SourcePool: fspool.New(rc.GetSourceContainer(), newDir), PatchWriter: &out})
	return out.Bytes(), err
}

// WithDeadline runs f in a goroutine and reports "hang" when it does not return in time.
// (The goroutine is leaked on a hang; the caller should stop soon afterwards.)
func WithDeadline(d time.Duration, f func() error) (class string, msg string) {
	type res struct{ c, m string }
	ch := make(chan res, 1)
	go func() {
		c, m := Guard(f)
		ch <- res{c, m}
	}()
	select {
	case r := <-ch:
		return r.c, r.m
	case <-time.After(d):
		return "hang", fmt.Sprintf("no return within %s", d)
	}
}
