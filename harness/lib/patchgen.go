package lib

// Build-pair generator for the patcher-level checks whose cases are also evaluated by the
// Gallina model: contents are made of few long runs (compact when run-length encoded, and
// full of equal blocks inside one file and across files, which is where the block library,
// the preferred-file rule and the short-last-block arithmetic are exercised), sizes sit on and
// around multiples of the 64 KiB block size.

import (
	"fmt"
	"sort"
)

var runSizes = []int{0, 1, 2, 100, BS - 1, BS, BS + 1, 2*BS - 1, 2 * BS, 2*BS + 1, 3 * BS, 3*BS + 17}

// RunContent returns size bytes made of at most ~24 runs over 6 symbols; cuts prefer block
// boundaries and their neighbours.
func RunContent(r *Rng, size int) []byte {
	if size == 0 {
		return []byte{}
	}
	ncuts := r.Intn(24)
	cutset := map[int]bool{}
	for i := 0; i < ncuts; i++ {
		var c int
		switch r.Intn(4) {
		case 0:
			c = r.Intn(size)
		case 1:
			c = (r.Intn(size/BS+1))*BS + r.Range(-2, 2)
		case 2:
			c = r.Intn(size/BS+1) * BS
		default:
			c = r.Intn(size)/1000*1000 + 1
		}
		if c > 0 && c < size {
			cutset[c] = true
		}
	}
	cuts := []int{}
	for c := range cutset {
		cuts = append(cuts, c)
	}
	sort.Ints(cuts)
	cuts = append(cuts, size)
	b := make([]byte, size)
	prev, last := 0, byte(255)
	for _, c := range cuts {
		v := byte(r.Intn(6))
		if v == last {
			v = (v + 1) % 6
		}
		last = v
		for i := prev; i < c; i++ {
			b[i] = v
		}
		prev = c
	}
	return b
}

func RunSize(r *Rng, max int) int {
	if r.Chance(3, 5) {
		s := runSizes[r.Intn(len(runSizes))]
		if s <= max {
			return s
		}
	}
	return r.Range(0, max)
}

// RunEdit applies one localized edit whose payload is a run.
func RunEdit(r *Rng, data []byte) ([]byte, string) {
	n := len(data)
	lens := []int{1, 7, 1000, BS - 1, BS, BS + 1}
	l := lens[r.Intn(len(lens))]
	at := 0
	if n > 0 {
		at = []int{0, n - 1, n / 2, (n / BS) * BS, r.Intn(n), (r.Intn(n/BS + 1)) * BS}[r.Intn(6)]
	}
	if at > n {
		at = n
	}
	v := byte(6 + r.Intn(3)) // symbols the generator never uses elsewhere
	switch r.Intn(3) {
	case 0:
		out := append([]byte(nil), data...)
		for i := at; i < at+l && i < n; i++ {
			out[i] = v
		}
		if n == 0 {
			out = []byte{v}
		}
		return out, fmt.Sprintf("overwrite@%d+%d", at, l)
	case 1:
		ins := make([]byte, l)
		for i := range ins {
			ins[i] = v
		}
		out := append(append(append([]byte(nil), data[:at]...), ins...), data[at:]...)
		return out, fmt.Sprintf("insert@%d+%d", at, l)
	default:
		end := at + l
		if end > n {
			end = n
		}
		out := append(append([]byte(nil), data[:at]...), data[end:]...)
		if len(out) == n { // nothing deleted: make it an edit anyway
			out = append(out, v)
		}
		return out, fmt.Sprintf("delete@%d+%d", at, end-at)
	}
}

type RunPairOpts struct {
	MaxOld   int  // old files: 1..MaxOld
	MaxNew   int  // cap on the number of files of the new build (0 = no cap)
	MaxSize  int  // per-file size cap
	Links    bool // symlinks and empty directories
	AllKinds bool // make sure copies, patched, brand-new and empty files all occur
}

// FileClass says how a new file relates to the old build (used to label whitelist members).
type FileClass struct {
	Path  string
	Class string // "same" | "renamed" | "dup" | "patched" | "new" | "empty" | "prefix" | "suffix" | "concat" | "grown" | "shrunk"
}

// GenRunPair builds (old, new) and says how every new file came about.
func GenRunPair(r *Rng, o RunPairOpts) (*Build, *Build, []FileClass) {
	if o.MaxOld == 0 {
		o.MaxOld = 4
	}
	if o.MaxSize == 0 {
		o.MaxSize = 3*BS + 17
	}
	dirs := []string{"", "a/", "a/b/", "c/"}
	old := &Build{}
	nOld := r.Range(1, o.MaxOld)
	for i := 0; i < nOld; i++ {
		p := fmt.Sprintf("%sf%d.bin", dirs[r.Intn(len(dirs))], i)
		size := RunSize(r, o.MaxSize)
		if i == 0 && size < BS { // at least one old file with a full block
			size = BS + r.Intn(BS)
		}
		old.Put(Entry{Path: p, Kind: "file", Data: RunContent(r, size)})
	}
	if r.Chance(1, 3) {
		old.Put(Entry{Path: "a/zero.bin", Kind: "file", Data: []byte{}})
	}
	if o.Links {
		if r.Chance(1, 2) {
			old.Put(Entry{Path: "emptydir", Kind: "dir"})
		}
		if r.Chance(1, 2) {
			old.Put(Entry{Path: "gone/deep/er", Kind: "dir"})
			old.Put(Entry{Path: "gone/deep/g.bin", Kind: "file", Data: RunContent(r, r.Range(0, 300))})
		}
		if r.Chance(1, 2) {
			old.Put(Entry{Path: "link0", Kind: "link", Dest: old.Files()[0].Path})
		}
		if r.Chance(1, 3) {
			old.Put(Entry{Path: "a/dangling", Kind: "link", Dest: "nowhere"})
		}
	}
	olds := old.Files()
	nw := &Build{}
	for _, e := range old.Entries {
		if e.Kind != "file" {
			nw.Entries = append(nw.Entries, e)
		}
	}
	var classes []FileClass
	put := func(p, class string, d []byte) {
		if nw.Get(p) != nil {
			return
		}
		nw.Put(Entry{Path: p, Kind: "file", Data: d})
		classes = append(classes, FileClass{p, class})
	}
	kinds := []string{"same", "patched", "new", "empty", "renamed", "dup", "prefix", "suffix", "concat", "grown", "shrunk", "patched+moved"}
	nNew := r.Range(1, 6)
	if o.AllKinds && nNew < 4 {
		nNew = 4
	}
	if o.MaxNew > 0 && nNew > o.MaxNew {
		nNew = o.MaxNew
	}
	for k := 0; k < nNew; k++ {
		f := olds[r.Intn(len(olds))]
		var kind string
		if o.AllKinds && k < 4 {
			kind = kinds[k]
		} else {
			kind = kinds[r.Intn(len(kinds))]
		}
		np := fmt.Sprintf("%sn%d.bin", dirs[r.Intn(len(dirs))], k)
		switch kind {
		case "same":
			put(f.Path, "same", f.Data)
		case "patched":
			d, _ := RunEdit(r, f.Data)
			put(f.Path, "patched", d)
		case "new":
			put(np, "new", RunContent(r, RunSize(r, o.MaxSize)))
		case "empty":
			if r.Bool() {
				put(f.Path, "empty", []byte{})
			} else {
				put(np, "empty", []byte{})
			}
		case "renamed":
			put(np, "renamed", f.Data)
		case "dup":
			put(f.Path, "same", f.Data)
			put(np, "dup", f.Data)
		case "prefix", "suffix":
			nb := len(f.Data) / BS
			if nb >= 1 {
				cut := r.Range(1, nb) * BS
				if kind == "prefix" {
					put(np, "prefix", append([]byte(nil), f.Data[:cut]...))
				} else {
					put(np, "suffix", append([]byte(nil), f.Data[len(f.Data)-cut:]...))
				}
			} else {
				put(np, "renamed", f.Data)
			}
		case "concat":
			g := olds[r.Intn(len(olds))]
			put(np, "concat", append(append([]byte(nil), f.Data...), g.Data...))
		case "grown":
			put(f.Path, "grown", append(append([]byte(nil), f.Data...), RunContent(r, r.Range(1, BS+5))...))
		case "shrunk":
			if len(f.Data) > 0 {
				put(f.Path, "shrunk", append([]byte(nil), f.Data[:r.Intn(len(f.Data))]...))
			} else {
				put(f.Path, "same", f.Data)
			}
		case "patched+moved":
			d, _ := RunEdit(r, f.Data)
			put(f.Path, "patched", d)
			put(np, "renamed", f.Data)
		}
	}
	if o.Links {
		if r.Chance(1, 3) {
			nw.Remove("gone")
		}
		if r.Chance(1, 3) {
			nw.Put(Entry{Path: "fresh/empty/dir", Kind: "dir"})
		}
		if r.Chance(1, 3) {
			nw.Put(Entry{Path: "newlink", Kind: "link", Dest: "a/b"})
		}
		if e := nw.Get("link0"); e != nil && r.Chance(1, 2) {
			if r.Bool() {
				nw.Remove("link0")
			} else {
				nw.Put(Entry{Path: "link0", Kind: "link", Dest: "emptydir"})
			}
		}
	}
	// classes in the order of the new build's files (sorted by path, the order of the walk)
	byPath := map[string]string{}
	for _, c := range classes {
		byPath[c.Path] = c.Class
	}
	var out []FileClass
	for _, f := range nw.Files() {
		cl := byPath[f.Path]
		if cl == "" {
			cl = "kept" // e.g. gone/deep/g.bin carried over
		}
		out = append(out, FileClass{f.Path, cl})
	}
	return old, nw, out
}
