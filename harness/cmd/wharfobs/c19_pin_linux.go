//go:build linux

package main

// C19: restrict the CPUs a child process may run on.  runtime.NumCPU is computed once, at
// process start, from the affinity mask: the child restricts the calling thread and replaces
// itself by a fresh copy of the same command (execve keeps the calling thread's mask).

import (
	"os"
	"runtime"
	"syscall"
	"unsafe"
)

const c19PinnedEnv = "VERIF_C19_PINNED"

// c19PinAndReexec keeps n of the CPUs this process is allowed on (a window chosen by pick) and
// starts the command over.  It returns only when that was not possible (no such syscall,
// fewer CPUs than asked are taken as they are): the caller then goes on unrestricted and
// reports the NumCPU it has, which is what the model is told.
func c19PinAndReexec(n int, pick uint64) {
	runtime.LockOSThread()
	defer runtime.UnlockOSThread()
	var mask [16]uint64 // 1024 CPUs
	if _, _, e := syscall.RawSyscall(syscall.SYS_SCHED_GETAFFINITY, 0, unsafe.Sizeof(mask), uintptr(unsafe.Pointer(&mask[0]))); e != 0 {
		return
	}
	var allowed []int
	for i := 0; i < len(mask)*64; i++ {
		if mask[i/64]&(1<<(uint(i)%64)) != 0 {
			allowed = append(allowed, i)
		}
	}
	if len(allowed) == 0 {
		return
	}
	if n > len(allowed) {
		n = len(allowed)
	}
	start := int(pick % uint64(len(allowed)))
	var want [16]uint64
	for k := 0; k < n; k++ {
		cpu := allowed[(start+k)%len(allowed)]
		want[cpu/64] |= 1 << (uint(cpu) % 64)
	}
	if _, _, e := syscall.RawSyscall(syscall.SYS_SCHED_SETAFFINITY, 0, unsafe.Sizeof(want), uintptr(unsafe.Pointer(&want[0]))); e != 0 {
		return
	}
	exe, err := os.Executable()
	if err != nil {
		return
	}
	syscall.Exec(exe, os.Args, append(os.Environ(), c19PinnedEnv+"=1"))
}
