package main

// C02, generators of the strengthening round for the reviewer variants C02-4 and C02-6: the two
// input classes behind the repaired defects "ghost looked up through a new symlink" and "entry
// really named like a temporary name" were only present as ONE fixed corpus witness each (the
// smallest one: ghost directly below the link; a regular file with the reserved name in both
// builds). Both classes are generated here in breadth. A later round (variant C02-9) added the
// class "symlink of both builds whose destination changes as text only" (c02GenLinks).

import (
	"fmt"
	"strings"

	"verif/harness/lib"
)

// ---------------------------------------------------------------- directory replaced by a symlink

// what the old directory may hold, one to four levels below it
var c02SubFiles = []string{"tool", "conf", "bin/tool", "bin/aux", "bin/deep/x", "bin/deep/er/y", "etc/conf", "share/doc/readme"}
var c02SubDirs = []string{"emptyd", "bin/emptyd", "bin/deep/emptyd"}
var c02SubLinks = []string{"lnk", "bin/lnk", "bin/deep/lnk"}

// c02GenDirToLink: a directory D of the old build (in the root, or one / two levels down) with a
// subtree of files, empty directories and symlinks up to four levels deep is a SYMLINK in the new
// build. The link points to
//   - a sibling directory T (dest "v2"), a directory reached through ".." or one further down
//     ("lib/v2"), another new symlink that points to T (chain), a regular file, or nowhere;
//   - T exists in the old build already (its entries are kept / patched: no-op transpositions and
//     overlays) or is new (its files arrive from the stage folder);
//   - T holds NAMESAKES of what D held: for an old entry D/s the new build has T/s with
//     probability 2/3, as a file with other contents (mostly), an edited version, the same
//     contents (rarely: that is a rename out of a directory that ensureDirsAndSymlinks removes,
//     the known kind-swap finding), an empty directory or a symlink.
//
// Every old entry below D is a ghost whose path now leads THROUGH the new link to its namesake.
// A few ordinary files (kept, patched, renamed) surround the shape.
func c02GenDirToLink(r *lib.Rng) (*lib.Build, *lib.Build, []string) {
	old, nw := &lib.Build{}, &lib.Build{}
	var rel []string
	small := func(tag byte) []byte { return append(c02Content(r, r.Range(1, 300)), tag) }
	prefix := []string{"", "", "p/", "p/q/"}[r.Intn(4)]
	D := prefix + "cur"
	T, dest, tkind := prefix+"v2", "v2", "sibling"
	switch r.Intn(9) {
	case 0:
		if prefix != "" {
			T, dest, tkind = "v2", strings.Repeat("../", strings.Count(prefix, "/"))+"v2", "dotdot"
		}
	case 1:
		T, dest, tkind = prefix+"lib/v2", "lib/v2", "nested"
	case 2:
		dest, tkind = "latest", "chain"
	case 3:
		if r.Bool() {
			tkind = "to-file"
		} else {
			dest, tkind = "nowhere", "dangling"
		}
	}
	// surroundings
	keep := lib.Entry{Path: "k", Kind: "file", Data: small(50)}
	old.Put(keep)
	nw.Put(keep)
	if r.Bool() {
		e := lib.Entry{Path: prefix + "readme", Kind: "file", Data: small(51)}
		old.Put(e)
		d, how := c02Edit(r, e.Data)
		nw.Put(lib.Entry{Path: e.Path, Kind: "file", Data: d})
		rel = append(rel, "patched:"+e.Path+":"+how)
	}
	if r.Chance(1, 3) {
		e := lib.Entry{Path: "r1", Kind: "file", Data: small(52)}
		old.Put(e)
		nw.Put(lib.Entry{Path: prefix + "r2", Kind: "file", Data: e.Data})
		rel = append(rel, "rename:r1->"+prefix+"r2")
	}
	// the old directory
	var subs []lib.Entry // paths relative to D
	pickSome := func(pool []string, lo, hi int) []string {
		var out []string
		n := r.Range(lo, hi)
		for _, i := range c02Perm(r, len(pool)) {
			if len(out) < n {
				out = append(out, pool[i])
			}
		}
		return out
	}
	for _, s := range pickSome(c02SubFiles, 1, 4) {
		subs = append(subs, lib.Entry{Path: s, Kind: "file", Data: small(53)})
	}
	for _, s := range pickSome(c02SubDirs, 0, 1) {
		subs = append(subs, lib.Entry{Path: s, Kind: "dir"})
	}
	for _, s := range pickSome(c02SubLinks, 0, 1) {
		subs = append(subs, lib.Entry{Path: s, Kind: "link", Dest: []string{"tool", "nowhere", "deep"}[r.Intn(3)]})
	}
	maxDepth := 0
	for _, e := range subs {
		e2 := e
		e2.Path = D + "/" + e.Path
		old.Put(e2)
		if d := strings.Count(e.Path, "/") + 1; d > maxDepth {
			maxDepth = d
		}
	}
	// the new build: D is a link
	nw.Put(lib.Entry{Path: D, Kind: "link", Dest: dest})
	rel = append(rel, fmt.Sprintf("dir->link:%s->%s:%s:ghost-depth<=%d", D, dest, tkind, maxDepth))
	switch tkind {
	case "chain":
		nw.Put(lib.Entry{Path: prefix + "latest", Kind: "link", Dest: "v2"})
		if r.Bool() {
			old.Put(lib.Entry{Path: prefix + "latest", Kind: "link", Dest: "cur"})
		}
	case "to-file":
		nw.Put(lib.Entry{Path: T, Kind: "file", Data: small(54)})
		if r.Bool() {
			old.Put(*nw.Get(T))
		}
		return old, nw, rel
	case "dangling":
		return old, nw, rel
	}
	// the link's destination and its namesakes
	inOld := r.Bool()
	nw.Put(lib.Entry{Path: T, Kind: "dir"})
	if inOld {
		old.Put(lib.Entry{Path: T, Kind: "dir"})
		rel = append(rel, "dest-in-old")
	}
	putT := func(e lib.Entry, how string) {
		e.Path = T + "/" + e.Path
		nw.Put(e)
		rel = append(rel, "namesake:"+e.Path+":"+how)
		if !inOld {
			return
		}
		// the destination already held this entry: kept, changed, or it is new there
		switch r.Intn(3) {
		case 0:
			old.Put(e)
		case 1:
			if e.Kind == "file" {
				old.Put(lib.Entry{Path: e.Path, Kind: "file", Data: small(55)})
			}
		}
	}
	for _, e := range subs {
		if !r.Chance(2, 3) {
			continue
		}
		switch x := r.Intn(20); {
		case x < 2: // another kind
			if e.Kind == "file" {
				putT(lib.Entry{Path: e.Path, Kind: []string{"dir", "link"}[r.Intn(2)], Dest: "elsewhere"}, "other-kind")
			} else {
				putT(lib.Entry{Path: e.Path, Kind: "file", Data: small(56)}, "other-kind")
			}
		case e.Kind != "file":
			putT(e, "same")
		case x < 3: // same contents: a rename out of the directory that becomes a link
			putT(e, "same-contents")
		case x < 8:
			d, how := c02Edit(r, e.Data)
			putT(lib.Entry{Path: e.Path, Kind: "file", Data: d}, "edited:"+how)
		default:
			putT(lib.Entry{Path: e.Path, Kind: "file", Data: small(57)}, "new-contents")
		}
	}
	for k := r.Intn(3); k > 0; k-- {
		putT(lib.Entry{Path: []string{"extra", "bin/extra", "new/sub/extra"}[r.Intn(3)], Kind: "file", Data: small(58)}, "extra")
	}
	if inOld && r.Chance(1, 3) {
		// an ordinary ghost inside the destination itself
		old.Put(lib.Entry{Path: T + "/bin/oldonly", Kind: "file", Data: small(59)})
		rel = append(rel, "ghost-in-dest")
	}
	return old, nw, rel
}

func c02Perm(r *lib.Rng, n int) []int {
	perm := make([]int, n)
	for i := range perm {
		perm[i] = i
	}
	for i := n - 1; i > 0; i-- {
		j := r.Intn(i + 1)
		perm[i], perm[j] = perm[j], perm[i]
	}
	return perm
}

// ---------------------------------------------------------------- entries named like temporary names

// c02GenTmpNames: clashing transpositions (a rename whose destination is itself renamed: chains,
// swaps, cycles, duplicates onto a rename source, two independent chains) in a build that really
// has entries named <destination>.butler-rename-<n>, for the numbers Commit hands out (1 .. number
// of clashes, any of them depending on Go's map order) and the next one. Such an entry is
//   - only in the new build: a symlink, an empty directory, a directory with a file (all three
//     created by ensureDirsAndSymlinks BEFORE the transpositions run), the destination of another
//     rename or of a copy (written DURING the transpositions), a new file (staged, moved in
//     afterwards), a patched... (needs the old file, see "both");
//   - only in the old build: a file that is deleted, a file that is renamed elsewhere (a
//     transposition source), a symlink, a directory;
//   - in both: kept, patched, symlink retargeted, directory kept, file turned into a symlink.
//
// All contents are pairwise distinct, so the relation (and thus the clashes) is unambiguous.
func c02GenTmpNames(r *lib.Rng) (*lib.Build, *lib.Build, []string) {
	old, nw := &lib.Build{}, &lib.Build{}
	var rel []string
	tag := byte(20)
	data := func() []byte {
		tag++
		size := r.Range(1, 600)
		if r.Chance(1, 10) {
			size = []int{0, 1, 8191, 8193}[r.Intn(4)]
		}
		return append(c02Content(r, size), tag)
	}
	dir := []string{"", "", "m/", "m/n/"}[r.Intn(4)]
	P := func(n string) string { return dir + n }
	A, B, C, D, E := data(), data(), data(), data(), data()
	of := func(p string, d []byte) { old.Put(lib.Entry{Path: P(p), Kind: "file", Data: d}) }
	nf := func(p string, d []byte) { nw.Put(lib.Entry{Path: P(p), Kind: "file", Data: d}) }
	shapes := []string{"chain", "chain3", "swap", "cycle3", "keep+dup-onto-source", "patched+dup-onto-source", "two-chains", "fanout-onto-sources", "swap+dup"}
	shape := shapes[r.Intn(len(shapes))]
	of("a", A)
	of("b", B)
	switch shape {
	case "chain":
		nf("b", A)
		nf("c", B)
	case "chain3":
		of("c", C)
		nf("b", A)
		nf("c", B)
		nf("d", C)
	case "swap":
		nf("a", B)
		nf("b", A)
	case "cycle3":
		of("c", C)
		nf("a", C)
		nf("b", A)
		nf("c", B)
	case "keep+dup-onto-source":
		nf("a", A)
		nf("b", A)
		nf("c", B)
	case "patched+dup-onto-source":
		d, _ := c02Edit(r, A)
		nf("a", append(d, 19))
		nf("b", A)
		nf("c", B)
	case "two-chains":
		of("d", D)
		of("e", E)
		nf("b", A)
		nf("c", B)
		nf("e", D)
		nf("f", E)
	case "fanout-onto-sources":
		of("c", C)
		nf("b", A)
		nf("c", A)
		nf("x", B)
		nf("y", C)
	case "swap+dup":
		nf("a", B)
		nf("b", A)
		nf("c", A)
	}
	rel = append(rel, "shape:"+shape)
	// the clashing destinations: old file paths that receive ANOTHER old file's whole contents
	// while their own old contents live on somewhere in the new build
	oldFiles, newFiles := old.Files(), nw.Files()
	var clash, others []string
	for _, n := range newFiles {
		o := old.Get(n.Path)
		if o == nil || string(o.Data) == string(n.Data) {
			others = append(others, n.Path)
			continue
		}
		fromOld, livesOn := false, false
		for _, k := range oldFiles {
			if k.Path != n.Path && string(k.Data) == string(n.Data) {
				fromOld = true
			}
		}
		for _, q := range newFiles {
			if string(q.Data) == string(o.Data) {
				livesOn = true
			}
		}
		if fromOld && livesOn {
			clash = append(clash, n.Path)
		} else {
			others = append(others, n.Path)
		}
	}
	for _, o := range oldFiles {
		if nw.Get(o.Path) == nil {
			others = append(others, o.Path)
		}
	}
	// a spare old file whose contents a reserved name may take over (rename destination)
	spare := 0
	used := map[string]bool{}
	for k := r.Range(1, 3); k > 0; k-- {
		base := clash[r.Intn(len(clash))]
		if len(others) > 0 && r.Chance(1, 6) {
			base = others[r.Intn(len(others))]
		}
		n := r.Range(1, len(clash)+1)
		if r.Chance(1, 2) {
			n = r.Range(1, len(clash))
		}
		name := fmt.Sprintf("%s.butler-rename-%d", base, n)
		if used[name] {
			continue
		}
		used[name] = true
		file := func(d []byte) lib.Entry { return lib.Entry{Path: name, Kind: "file", Data: d} }
		link := func(dest string) lib.Entry { return lib.Entry{Path: name, Kind: "link", Dest: dest} }
		how := ""
		switch x := r.Intn(24); {
		// only in the new build
		case x < 4:
			nw.Put(link([]string{"c", "b", "nowhere"}[r.Intn(3)]))
			how = "new:link"
		case x < 6:
			nw.Put(lib.Entry{Path: name, Kind: "dir"})
			how = "new:emptydir"
		case x < 8:
			nw.Put(lib.Entry{Path: name + "/inside", Kind: "file", Data: data()})
			how = "new:dir+file"
		case x < 11: // the destination of another rename
			spare++
			sp := lib.Entry{Path: fmt.Sprintf("%sspare%d", []string{"", "s/"}[r.Intn(2)], spare), Kind: "file", Data: data()}
			old.Put(sp)
			nw.Put(file(sp.Data))
			how = "new:rename-dest<=" + sp.Path
		case x < 13: // a copy of a file that stays
			spare++
			sp := lib.Entry{Path: fmt.Sprintf("kept%d", spare), Kind: "file", Data: data()}
			old.Put(sp)
			nw.Put(sp)
			nw.Put(file(sp.Data))
			how = "new:copy-dest<=" + sp.Path
		case x < 14:
			nw.Put(file(data()))
			how = "new:file"
		// only in the old build
		case x < 15:
			old.Put(file(data()))
			how = "old:file-deleted"
		case x < 17: // a transposition source
			e := file(data())
			old.Put(e)
			spare++
			np := fmt.Sprintf("%smoved%d", []string{"", "s/"}[r.Intn(2)], spare)
			nw.Put(lib.Entry{Path: np, Kind: "file", Data: e.Data})
			how = "old:file-renamed->" + np
		case x < 18:
			old.Put(link("a"))
			how = "old:link"
		case x < 19:
			old.Put(lib.Entry{Path: name + "/inside", Kind: "file", Data: data()})
			how = "old:dir+file"
		// in both builds
		case x < 20:
			e := file(data())
			old.Put(e)
			nw.Put(e)
			how = "both:kept"
		case x < 21:
			e := file(data())
			old.Put(e)
			d, _ := c02Edit(r, e.Data)
			nw.Put(file(append(d, 18)))
			how = "both:patched"
		case x < 22:
			old.Put(link("a"))
			nw.Put(link("b"))
			how = "both:link-retargeted"
		case x < 23:
			old.Put(lib.Entry{Path: name, Kind: "dir"})
			nw.Put(lib.Entry{Path: name, Kind: "dir"})
			how = "both:dir"
		default:
			old.Put(file(data()))
			nw.Put(link("b"))
			how = "both:file->link"
		}
		rel = append(rel, "reserved-name:"+name+":"+how)
	}
	return old, nw, rel
}

// ---------------------------------------------------------------- symlinks whose destination TEXT changes

// c02NearDest returns a destination that differs from d as a string while some weaker comparison
// (cleaned paths, case folding, prefix / length / base name, the file the link resolves to) calls
// the two equal. via names the first component of the "<via>/../d" form: a directory (the same
// file is meant), a symlink to a nested directory (another file is meant) or nothing at all.
// alias is the name of a symlink that points to d.
func c02NearDest(r *lib.Rng, d, via, alias string) (string, string) {
	base := d[strings.LastIndexByte(d, '/')+1:]
	switch r.Intn(13) {
	case 0:
		return "./" + d, "dot-slash"
	case 1:
		return d + "/", "trailing-slash"
	case 2:
		return d + "/.", "trailing-dot"
	case 3:
		if i := strings.IndexByte(d, '/'); i >= 0 {
			return d[:i] + "/" + d[i:], "double-slash"
		}
		return ".//" + d, "double-slash"
	case 4, 5:
		return via + "/../" + d, "dotdot-via:" + via
	case 6:
		return "sub/../" + "./" + d, "dotdot-via-missing+dot"
	case 7: // the case of the last component's first letter
		c := base[0]
		switch {
		case 'a' <= c && c <= 'z':
			c -= 32
		case 'A' <= c && c <= 'Z':
			c += 32
		default:
			c = 'X'
		}
		return d[:len(d)-len(base)] + string(c) + base[1:], "case"
	case 8:
		return d + []string{".1", "2", "~"}[r.Intn(3)], "old-is-prefix"
	case 9:
		if len(base) > 1 {
			return d[:len(d)-1], "new-is-prefix"
		}
		return d + "x", "old-is-prefix"
	case 10: // same length, last character differs
		c := d[len(d)-1] + 1
		if c == '/' || c > 'z' {
			c = 'a'
		}
		return d[:len(d)-1] + string(c), "same-length"
	case 11:
		return "alt/" + base, "same-basename"
	default:
		return alias, "same-target-via:" + alias
	}
}

// c02GenLinks: one to four symlinks (in the root, in bin/ or in p/q/, one of them possibly a level
// further down) that exist in the old build, the new build or both. A link of both builds keeps
// its destination, is retargeted to another entry, or - the emphasis - gets a destination that is
// another TEXT for (nearly) the same thing, in either direction: "lib" <-> "./lib", "lib/",
// "lib/.", ".//lib", "data//lib", "data/../lib" (data a real directory), "cur/../lib" (cur a
// symlink to a nested directory: another file), "nox/../lib" (dangling), "Lib", "lib.1", "li",
// "lic", "alt/lib", the name of another symlink that points to "lib". The destinations are files,
// directories, other symlinks or nothing. Two links may exchange their destinations. The files
// around them are kept, patched or renamed - or there is no file work at all.
func c02GenLinks(r *lib.Rng) (*lib.Build, *lib.Build, []string) {
	old, nw := &lib.Build{}, &lib.Build{}
	var rel []string
	tag := byte(60)
	data := func() []byte { tag++; return append(c02Content(r, r.Range(1, 400)), tag) }
	prefix := []string{"", "", "bin/", "p/q/"}[r.Intn(4)]
	both := func(e lib.Entry) {
		e.Path = prefix + e.Path
		old.Put(e)
		nw.Put(e)
	}
	fileWork := !r.Chance(1, 4)
	for _, p := range []string{"lib", "data/lib", "data/deep/x", "alt/lib"} {
		e := lib.Entry{Path: p, Kind: "file", Data: data()}
		both(e)
		if fileWork && r.Chance(1, 3) {
			d, how := c02Edit(r, e.Data)
			nw.Put(lib.Entry{Path: prefix + p, Kind: "file", Data: append(d, 17)})
			rel = append(rel, "patched:"+prefix+p+":"+how)
		}
	}
	both(lib.Entry{Path: "cur", Kind: "link", Dest: "data/deep"})
	if fileWork && r.Bool() {
		e := lib.Entry{Path: "r1", Kind: "file", Data: data()}
		old.Put(e)
		nw.Put(lib.Entry{Path: prefix + "r2", Kind: "file", Data: e.Data})
		rel = append(rel, "rename:r1->"+prefix+"r2")
	}
	if fileWork && r.Chance(1, 3) {
		nw.Put(lib.Entry{Path: prefix + "added", Kind: "file", Data: data()})
		rel = append(rel, "added:"+prefix+"added")
	}
	pool := []string{"lib", "lib", "data/lib", "data/deep", "data/deep/x", "cur", "nowhere"}
	nl := r.Range(1, 4)
	type lk struct{ path, od, nd, how string }
	var links []lk
	for i := 0; i < nl; i++ {
		// dir: where the link lives below prefix; up: how its destinations get back to prefix
		dir, up := "", ""
		if i == nl-1 && r.Chance(1, 4) {
			dir, up = "ld/", "../"
		}
		d := pool[r.Intn(len(pool))]
		l := lk{path: fmt.Sprintf("%s%sl%d", prefix, dir, i)}
		switch x := r.Intn(16); {
		case x < 2:
			l.od, l.nd, l.how = up+d, up+d, "kept"
		case x < 3:
			l.nd, l.how = up+d, "added"
		case x < 4:
			l.od, l.how = up+d, "removed"
		case x < 6:
			l.od, l.nd, l.how = up+d, up+pool[r.Intn(len(pool))], "retarget"
			if l.od == l.nd {
				l.nd = up + "elsewhere"
			}
		default:
			alias := fmt.Sprintf("alias%d", i)
			via := []string{"cur", "cur", "data", "nox"}[r.Intn(4)]
			n, h := c02NearDest(r, d, via, alias)
			l.od, l.nd, l.how = up+d, up+n, "near:"+h
			if n == alias { // a symlink next to the link, pointing where the link pointed
				both(lib.Entry{Path: dir + alias, Kind: "link", Dest: up + d})
				l.nd = alias
			}
			if r.Chance(1, 3) {
				l.od, l.nd = l.nd, l.od
				l.how += ":reversed"
			}
		}
		links = append(links, l)
	}
	if len(links) >= 2 && r.Chance(1, 6) {
		a, b := &links[0], &links[1]
		if a.od != "" && b.od != "" && a.od != b.od && !strings.Contains(b.path, "ld/") {
			a.nd, b.nd = b.od, a.od
			a.how, b.how = "exchange", "exchange"
		}
	}
	for _, l := range links {
		if l.od != "" {
			old.Put(lib.Entry{Path: l.path, Kind: "link", Dest: l.od})
		}
		if l.nd != "" {
			nw.Put(lib.Entry{Path: l.path, Kind: "link", Dest: l.nd})
		}
		rel = append(rel, fmt.Sprintf("link:%s:%s:%q->%q", l.path, l.how, l.od, l.nd))
	}
	return old, nw, rel
}
