package main

// Helpers shared by C15 and C19: (1) a second build of this very harness with the Go race
// detector (`go build -race`), run as a child process on a parameter file, whose stderr is
// scanned for race reports; (2) re-execution of the running binary as a child (kill and
// restart experiments).  A child is always started as
//     <binary> <sub-command> -replay <params.json> -out <result file> -tmp <scratch>
// so that main.go needs no change: the child sub-commands are ordinary registry entries.

import (
	"bytes"
	"encoding/json"
	"fmt"
	"os"
	"os/exec"
	"path/filepath"
	"regexp"
	"runtime"
	"sort"
	"strings"
	"sync"
	"time"
)

var (
	raceOnce sync.Once
	racePath string
	raceErr  error
)

// harnessDir finds the module directory of the harness (the directory holding go.mod with
// `module verif/harness`): beside the executable (bin/wharfobs), the working directory, or
// above either of them.
func harnessDir() (string, error) {
	var starts []string
	if exe, err := os.Executable(); err == nil {
		starts = append(starts, filepath.Dir(exe))
	}
	if wd, err := os.Getwd(); err == nil {
		starts = append(starts, wd)
	}
	for _, s := range starts {
		for d := s; ; d = filepath.Dir(d) {
			if b, err := os.ReadFile(filepath.Join(d, "go.mod")); err == nil && bytes.Contains(b, []byte("module verif/harness")) {
				return d, nil
			}
			if d == filepath.Dir(d) {
				break
			}
		}
	}
	return "", fmt.Errorf("cannot locate the harness module directory from %v", starts)
}

func goEnv() []string {
	var env []string
	for _, kv := range os.Environ() {
		if strings.HasPrefix(kv, "GOFLAGS=") || strings.HasPrefix(kv, "GOPROXY=") || strings.HasPrefix(kv, "GOTOOLCHAIN=") ||
			strings.HasPrefix(kv, "GOSUMDB=") || strings.HasPrefix(kv, "GORACE=") || strings.HasPrefix(kv, "CGO_ENABLED=") {
			continue
		}
		env = append(env, kv)
	}
	return append(env, "GOFLAGS=-mod=mod", "GOPROXY=off", "GOTOOLCHAIN=auto", "CGO_ENABLED=1")
}

// raceBinary builds (once per process) the harness with -race into c.Tmp.  An error means
// the race detector is not available here: the caller must turn that into a failure of the
// check, never into a pass.
func raceBinary(c *Ctx) (string, error) {
	raceOnce.Do(func() {
		raceTag := "x"
		if len(os.Args) > 1 {
			raceTag = os.Args[1]
		}
		dir, err := harnessDir()
		if err != nil {
			raceErr = err
			return
		}
		// kept beside the normal binary (one per property, so that checks of different
		// properties may run side by side): `go build` re-links only when something changed
		out := filepath.Join(dir, "bin", "wharfobs-race-"+raceTag)
		t0 := time.Now()
		defer func() {
			if os.Getenv("VERIF_TIMING") != "" {
				fmt.Fprintf(os.Stderr, "race build %.1fs\n", time.Since(t0).Seconds())
			}
		}()
		cmd := exec.Command("go", "build", "-race", "-tags", "verif", "-o", out, "./cmd/wharfobs")
		cmd.Dir = dir
		cmd.Env = goEnv()
		b, err := cmd.CombinedOutput()
		if err != nil {
			raceErr = fmt.Errorf("CHECK-PROBLEM: `go build -race` of the harness failed (race detector unavailable?): %v\n%s", err, tail(string(b), 2000))
			return
		}
		racePath = out
	})
	return racePath, raceErr
}

func tail(s string, n int) string {
	if len(s) > n {
		return s[len(s)-n:]
	}
	return s
}

type childResult struct {
	Exit     int    // exit status (-1: could not start / killed by the deadline)
	TimedOut bool   // the deadline expired: a hang
	Stderr   string // complete stderr
	Races    []string
}

// runChild starts binary with the given sub-command on a parameter value (written as JSON to
// a file passed by -replay) and returns its exit status and stderr; result is the path the
// child writes its observations to (-out).
func runChild(binary, sub string, params interface{}, result, tmp string, deadline time.Duration, extraEnv ...string) (*childResult, error) {
	pf := result + ".params.json"
	b, err := json.Marshal(params)
	if err != nil {
		return nil, err
	}
	if err := os.WriteFile(pf, b, 0o644); err != nil {
		return nil, err
	}
	defer os.Remove(pf)
	cmd := exec.Command(binary, sub, "-replay", pf, "-out", result, "-tmp", tmp)
	cmd.Env = append(os.Environ(), extraEnv...)
	var stderr bytes.Buffer
	cmd.Stderr = &stderr
	cmd.Stdout = &stderr
	if err := cmd.Start(); err != nil {
		return nil, err
	}
	done := make(chan error, 1)
	go func() { done <- cmd.Wait() }()
	res := &childResult{}
	select {
	case err := <-done:
		if err != nil {
			if ee, ok := err.(*exec.ExitError); ok {
				res.Exit = ee.ExitCode()
			} else {
				return nil, err
			}
		}
	case <-time.After(deadline):
		cmd.Process.Kill()
		<-done
		res.Exit = -1
		res.TimedOut = true
	}
	res.Stderr = stderr.String()
	res.Races = raceReports(res.Stderr)
	return res, nil
}

var raceFrame = regexp.MustCompile(`(?m)^\s+(github\.com/itchio/wharf/\S+?)\(\)\s*$`)

// raceReports projects the race detector's output to one line per report: the functions of
// itchio/wharf on the stacks of the two conflicting accesses (no addresses, no line numbers,
// no goroutine ids), so that the same race gives the same text on every run.
func raceReports(stderr string) []string {
	var out []string
	parts := strings.Split(stderr, "WARNING: DATA RACE")
	for _, p := range parts[1:] {
		if i := strings.Index(p, "=================="); i >= 0 {
			p = p[:i]
		}
		// only the two access stacks: cut at the first "Goroutine ... created at"
		if i := strings.Index(p, "\nGoroutine "); i >= 0 {
			p = p[:i]
		}
		seen := map[string]bool{}
		var fns []string
		for _, m := range raceFrame.FindAllStringSubmatch(p, -1) {
			f := strings.TrimPrefix(m[1], "github.com/itchio/wharf/")
			if !seen[f] {
				seen[f] = true
				fns = append(fns, f)
			}
		}
		sort.Strings(fns)
		if len(fns) == 0 {
			fns = []string{"(no itchio/wharf frame on the access stacks)"}
		}
		out = append(out, strings.Join(fns, " | "))
	}
	return out
}

// raceEnv: report every race, keep running, exit status 66 at the end when one was seen.
const raceEnv = "GORACE=halt_on_error=0 exitcode=66 history_size=3"

func numCPU() int { return runtime.NumCPU() }

// shmScratch makes a private scratch directory on /dev/shm (tmpfs: file creation is an order
// of magnitude cheaper than on the disk behind /tmp); "" when that is not possible.  The
// caller removes it; directories left by a run that was killed are removed after an hour.
func shmScratch(tag string) string {
	const root = "/dev/shm"
	if os.Getenv("VERIF_NO_SHM") != "" {
		return ""
	}
	if st, err := os.Stat(root); err != nil || !st.IsDir() {
		return ""
	}
	if old, err := filepath.Glob(filepath.Join(root, "wharfobs-"+tag+"-*")); err == nil {
		for _, o := range old {
			if st, err := os.Stat(o); err == nil && time.Since(st.ModTime()) > time.Hour {
				os.RemoveAll(o)
			}
		}
	}
	d, err := os.MkdirTemp(root, "wharfobs-"+tag+"-")
	if err != nil {
		return ""
	}
	return d
}
