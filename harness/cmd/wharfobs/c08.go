package main

// C08 — data already present in the old build is not sent again.
//
// Implementation under test: pwr.DiffContext.WritePatch (FreshBytes / ReusedBytes, the op stream
// of the patch), wsync.ComputeDiff at small block sizes, and the accounting of
// pwr.makeOpsWriter (through the verif hook pwr.VerifAccountOps).
//
// Classes / groups:
//   pair/...   : lib.GenPair build pairs through lib.Diff (oracle only)
//   edits/...  : high-entropy builds, k localized edits per file, renames, duplications (oracle only)
//   big/...    : one high-entropy file of 4..48 MiB (many wraps of the differ's 4 MiB + 2 blocks
//                buffer), k edits of which the first one shifts all following data, positions early,
//                random and on/around the wrap offsets, lengths up to > 4 MiB; in-memory pools
//                (oracle only: "independent of file size and of whether an edit shifts ...")
//   corpus/... : fixed inputs that failed on seeded faulty variants, at the start of every run
//
// Configuration dimension of every pair / edits / big case: where the signature of the old build
// comes from - computed from the old files (pwr.ComputeSignature) or "stored": read back with
// pwr.ReadSignature from the signature file that the previous push (WritePatch nothing -> old)
// wrote, together with the container recorded in that file (what a client pushing against a
// downloaded signature does).
//   "ops"      : small block sizes (4..16), 256-letter alphabet, sources derived from an old file by
//                edits / renames: exact op list vs the model (Exec/C11.v [mismatches_ops])
//   "acct"     : makeOpsWriter's counters on arbitrary op lists and file sizes at the real 64 KiB
//                block size vs the model (Exec/C08.v [mismatches_acct])
//
// Oracle (independent of the model):
//   FreshBytes + ReusedBytes == total size of the new files; FreshBytes == data bytes found in the
//   decoded patch; ReusedBytes == bytes addressed by the decoded block ranges; identical builds =>
//   FreshBytes == 0 and no op with data bytes; a new file whose content equals an old file's
//   content (same path, renamed, duplicated) has no op with data bytes; a file derived from an old
//   high-entropy file by k localized edits carries at most introduced + (2k+2)*64KiB data bytes.
//   "Data bytes of the patch" are measured on the patch itself, not on the op kinds the differ
//   means to use: the Data field of EVERY message of a file's op stream counts (a BLOCK_RANGE
//   message that carries a payload re-sends bytes just as a DATA message does, and is reported
//   as such), and so does whatever else a message carries beyond the fields of its kind (encoded
//   size of the message minus its Data > c08OpOverhead, e.g. unknown fields). The acct group reads
//   back the messages makeOpsWriter wrote for an arbitrary op list and demands the same: every
//   message has the kind / range fields / data of the op it was given and a range message no data.

import (
	"bytes"
	"context"
	"fmt"
	"io"
	"path/filepath"
	"strings"

	"github.com/golang/protobuf/proto"
	"github.com/itchio/lake"
	"github.com/itchio/lake/pools/fspool"
	"github.com/itchio/lake/tlc"
	"github.com/itchio/savior/seeksource"
	"github.com/itchio/wharf/pwr"
	"github.com/itchio/wharf/wire"
	"github.com/itchio/wharf/wsync"

	"verif/harness/lib"
)

func init() { register("C08", runC08) }

type c08Op struct {
	Range             bool
	File, Index, Span int64
	DataLen           int64 // bytes of the Data field, whatever the kind of the message
	Extra             int64 // encoded size of the message beyond its Data field
}

// c08OpOverhead bounds the encoded size of a SyncOp message without its payload: four varint
// fields (1 tag byte + at most 10 bytes each) and tag + length of the Data field (1 + 5).
const c08OpOverhead = 4*11 + 6

// c08Decode reads the op stream of an (unoptimized) patch.
func c08Decode(patch []byte) (tc, sc *tlc.Container, files [][]c08Op, err error) {
	src := seeksource.FromBytes(patch)
	if _, err = src.Resume(nil); err != nil {
		return
	}
	raw := wire.NewReadContext(src)
	if err = raw.ExpectMagic(pwr.PatchMagic); err != nil {
		return
	}
	hdr := &pwr.PatchHeader{}
	if err = raw.ReadMessage(hdr); err != nil {
		return
	}
	rc, err := pwr.DecompressWire(raw, hdr.GetCompression())
	if err != nil {
		return
	}
	tc, sc = &tlc.Container{}, &tlc.Container{}
	if err = rc.ReadMessage(tc); err != nil {
		return
	}
	if err = rc.ReadMessage(sc); err != nil {
		return
	}
	for i := range sc.Files {
		sh := &pwr.SyncHeader{}
		if err = rc.ReadMessage(sh); err != nil {
			return
		}
		if sh.FileIndex != int64(i) || sh.Type != pwr.SyncHeader_RSYNC {
			err = fmt.Errorf("sync header %d names file %d type %s", i, sh.FileIndex, sh.Type)
			return
		}
		var ops []c08Op
		for {
			op := &pwr.SyncOp{}
			if err = rc.ReadMessage(op); err != nil {
				return
			}
			if op.Type == pwr.SyncOp_HEY_YOU_DID_IT {
				break
			}
			dl := int64(len(op.Data))
			extra := int64(proto.Size(op)) - dl
			switch op.Type {
			case pwr.SyncOp_BLOCK_RANGE:
				ops = append(ops, c08Op{Range: true, File: op.FileIndex, Index: op.BlockIndex, Span: op.BlockSpan, DataLen: dl, Extra: extra})
			case pwr.SyncOp_DATA:
				ops = append(ops, c08Op{DataLen: dl, Extra: extra})
			default:
				err = fmt.Errorf("file %d: op of type %d", i, op.Type)
				return
			}
		}
		files = append(files, ops)
	}
	return
}

type c08Expect struct {
	// per new path: -1 = nothing known, else the bound on the data bytes of that file
	bound map[string]int64
	why   map[string]string
}

// c08Cfg is the configuration of one diff.
type c08Cfg struct {
	comp lib.Compression
	// where the signature of the old build comes from:
	//   ""     computed from the old files (pwr.ComputeSignature)
	//   "push" read back (pwr.ReadSignature) from the signature file that the previous push
	//          (WritePatch nothing -> old) wrote
	//   "sign" read back from a signature file written the way `butler sign` does
	//          (header, container, pwr.ComputeSignatureToWriter)
	stored   string
	prevComp lib.Compression // compression of the stored signature file
	mem      bool            // in-memory pools instead of directories (builds of plain files only)
}

func (g c08Cfg) sigName() string {
	if g.stored != "" {
		return "stored-" + g.stored + "(" + g.prevComp.String() + ")"
	}
	return "computed"
}

// c08MkCfg draws the configuration of case i for the given old build. The previous push of an old
// build of more than 1 MiB does not run its (discarded) patch through a slow compressor setting.
func c08MkCfg(c *Ctx, r *lib.Rng, i int, old *lib.Build) c08Cfg {
	n := len(lib.Compressions)
	g := c08Cfg{comp: lib.Compressions[(i+int(c.Seed))%n], prevComp: lib.Compressions[r.Intn(n)]}
	g.stored = []string{"", "", "push", "sign"}[r.Intn(4)]
	total := 0
	for _, f := range old.Files() {
		total += len(f.Data)
	}
	if total > c08MiB && g.stored == "push" && g.prevComp.Quality > 1 {
		g.prevComp.Quality = 1
	}
	return g
}

// c08MemBuild: the container of a build of plain files and a maker of in-memory pools over it
func c08MemBuild(b *lib.Build) (*tlc.Container, func() lake.Pool) {
	var datas [][]byte
	var paths []string
	for _, f := range b.Files() {
		datas = append(datas, f.Data)
		paths = append(paths, f.Path)
	}
	mk := func() *lib.MemPool {
		mp := lib.NewMemPool(datas)
		for i, p := range paths {
			mp.Container.Files[i].Path = p
		}
		for _, e := range b.Entries {
			if e.Kind == "dir" {
				mp.Container.Dirs = append(mp.Container.Dirs, &tlc.Dir{Path: e.Path, Mode: 0755})
			}
		}
		return mp
	}
	return mk().Container, func() lake.Pool { return mk() }
}

// c08Diff runs pwr.DiffContext.WritePatch old -> new with the old signature obtained as cfg says.
func c08Diff(oldC *tlc.Container, oldPool func() lake.Pool, newC *tlc.Container, newPool lake.Pool, cfg c08Cfg) (*lib.DiffResult, error) {
	ctx := context.Background()
	tc := oldC
	var hashes []wsync.BlockHash
	if cfg.stored != "" {
		var sig bytes.Buffer
		if cfg.stored == "push" {
			prev := &pwr.DiffContext{Compression: cfg.prevComp.Settings(), Consumer: lib.Quiet, SourceContainer: oldC, Pool: oldPool(),
				TargetContainer: &tlc.Container{}, TargetSignature: nil}
			if err := prev.WritePatch(ctx, io.Discard, &sig); err != nil {
				return nil, fmt.Errorf("previous push: %w", err)
			}
		} else {
			raw := wire.NewWriteContext(&sig)
			if err := raw.WriteMagic(pwr.SignatureMagic); err != nil {
				return nil, err
			}
			if err := raw.WriteMessage(&pwr.SignatureHeader{Compression: cfg.prevComp.Settings()}); err != nil {
				return nil, err
			}
			sw, err := pwr.CompressWire(raw, cfg.prevComp.Settings())
			if err != nil {
				return nil, err
			}
			if err := sw.WriteMessage(oldC); err != nil {
				return nil, err
			}
			err = pwr.ComputeSignatureToWriter(ctx, oldC, oldPool(), lib.Quiet, func(h wsync.BlockHash) error {
				return sw.WriteMessage(&pwr.BlockHash{WeakHash: h.WeakHash, StrongHash: h.StrongHash})
			})
			if err != nil {
				return nil, fmt.Errorf("signing the old build: %w", err)
			}
			if err := sw.Close(); err != nil {
				return nil, err
			}
		}
		si, err := lib.ReadSig(sig.Bytes())
		if err != nil {
			return nil, fmt.Errorf("stored signature: %w", err)
		}
		tc, hashes = si.Container, si.Hashes
	} else {
		h, err := pwr.ComputeSignature(ctx, oldC, oldPool(), lib.Quiet)
		if err != nil {
			return nil, err
		}
		hashes = h
	}
	dctx := &pwr.DiffContext{Compression: cfg.comp.Settings(), Consumer: lib.Quiet, SourceContainer: newC, Pool: newPool,
		TargetContainer: tc, TargetSignature: hashes}
	var p, s bytes.Buffer
	if err := dctx.WritePatch(ctx, &p, &s); err != nil {
		return nil, err
	}
	return &lib.DiffResult{Patch: p.Bytes(), Sig: s.Bytes(), Fresh: dctx.FreshBytes, Reused: dctx.ReusedBytes, NewContainer: newC}, nil
}

// c08CheckPair diffs old -> new and evaluates the oracle. expect may be nil.
func c08CheckPair(c *Ctx, name string, old, nw *lib.Build, cfg c08Cfg, expect *c08Expect) (obs map[string]interface{}, oracle string, err error) {
	var oldC, newC *tlc.Container
	var oldPool func() lake.Pool
	var newPool lake.Pool
	if cfg.mem {
		oldC, oldPool = c08MemBuild(old)
		var mk func() lake.Pool
		newC, mk = c08MemBuild(nw)
		newPool = mk()
	} else {
		base := filepath.Join(c.Tmp, name)
		defer removeAll(base)
		oldDir, newDir := filepath.Join(base, "old"), filepath.Join(base, "new")
		if err = old.WriteTo(oldDir); err != nil {
			return
		}
		if err = nw.WriteTo(newDir); err != nil {
			return
		}
		if oldC, err = lib.Walk(oldDir); err != nil {
			return
		}
		if newC, err = lib.Walk(newDir); err != nil {
			return
		}
		oldPool = func() lake.Pool { return fspool.New(oldC, oldDir) }
		newPool = fspool.New(newC, newDir)
	}
	var dr *lib.DiffResult
	cls, msg := lib.Guard(func() error {
		var e error
		dr, e = c08Diff(oldC, oldPool, newC, newPool, cfg)
		return e
	})
	obs = map[string]interface{}{"diff": cls}
	if cls != "ok" {
		return obs, "diff " + cls + ": " + msg, nil
	}
	obs["fresh"], obs["reused"] = dr.Fresh, dr.Reused
	tc, sc, files, derr := c08Decode(dr.Patch)
	if derr != nil {
		return obs, "the patch cannot be decoded: " + derr.Error(), nil
	}
	var total, dataBytes, rangeBytes int64
	for _, f := range nw.Files() {
		total += int64(len(f.Data))
	}
	oldByContent := map[string]string{}
	for _, f := range old.Files() {
		oldByContent[string(f.Data)] = f.Path
	}
	perFile := map[string]int64{}
	nData := 0
	smuggled := ""
	for i, ops := range files {
		var fd int64
		for j, o := range ops {
			// what the patch carries is measured on the messages themselves: the payload of any message,
			// and anything a message holds beyond the fields of its kind
			fd += o.DataLen
			if o.DataLen > 0 {
				nData++
			}
			if smuggled == "" && o.Range && o.DataLen > 0 {
				smuggled = fmt.Sprintf("file %s: operation %d is a block range (old file %d, blocks %d+%d) that carries %d data bytes", sc.Files[i].Path, j, o.File, o.Index, o.Span, o.DataLen)
			}
			if smuggled == "" && o.Extra > c08OpOverhead {
				smuggled = fmt.Sprintf("file %s: operation %d is encoded in %d bytes beyond its %d data bytes (a sync operation has at most %d)", sc.Files[i].Path, j, o.Extra, o.DataLen, c08OpOverhead)
			}
			if o.Range {
				if o.File < 0 || o.File >= int64(len(tc.Files)) {
					return obs, fmt.Sprintf("file %d: block range names old file %d of %d", i, o.File, len(tc.Files)), nil
				}
				sz := tc.Files[o.File].Size
				lo, hi := o.Index*lib.BS, (o.Index+o.Span)*lib.BS
				if o.Span < 1 || o.Index < 0 || o.Index+o.Span > (sz+lib.BS-1)/lib.BS {
					return obs, fmt.Sprintf("file %d: block range %d+%d outside old file %d of %d bytes", i, o.Index, o.Span, o.File, sz), nil
				}
				if hi > sz {
					hi = sz
				}
				rangeBytes += hi - lo
			}
		}
		dataBytes += fd
		perFile[sc.Files[i].Path] = fd
	}
	obs["dataOps"] = nData
	obs["patchDataBytes"] = dataBytes
	switch {
	case smuggled != "":
		oracle = fmt.Sprintf("%s; FreshBytes %d, data bytes in the patch %d", smuggled, dr.Fresh, dataBytes)
	case dr.Fresh+dr.Reused != total:
		oracle = fmt.Sprintf("FreshBytes %d + ReusedBytes %d = %d, the new files have %d bytes", dr.Fresh, dr.Reused, dr.Fresh+dr.Reused, total)
	case dr.Fresh != dataBytes:
		oracle = fmt.Sprintf("FreshBytes %d but the patch carries %d data bytes", dr.Fresh, dataBytes)
	case dr.Reused != rangeBytes:
		oracle = fmt.Sprintf("ReusedBytes %d but the block ranges of the patch address %d bytes", dr.Reused, rangeBytes)
	}
	if oracle == "" && lib.DiffBuilds(nw, old) == "" && lib.DiffBuilds(old, nw) == "" && (dr.Fresh != 0 || nData != 0) {
		oracle = fmt.Sprintf("identical builds but FreshBytes %d and %d data operations with bytes", dr.Fresh, nData)
	}
	if oracle == "" {
		for _, f := range nw.Files() {
			if p, ok := oldByContent[string(f.Data)]; ok && perFile[f.Path] != 0 {
				oracle = fmt.Sprintf("new file %s (%d bytes) has the content of old file %s but %d fresh bytes", f.Path, len(f.Data), p, perFile[f.Path])
				break
			}
		}
	}
	if oracle == "" && expect != nil {
		for p, b := range expect.bound {
			if perFile[p] > b {
				oracle = fmt.Sprintf("file %s: %d fresh bytes exceed the bound %d (%s)", p, perFile[p], b, expect.why[p])
				break
			}
		}
	}
	return obs, oracle, nil
}

// ---------- pair class ----------

func c08Pairs(c *Ctx, r *lib.Rng, n int) error {
	for i := 0; i < n; i++ {
		cr := r.Fork()
		opts := lib.PairOpts{MaxFiles: 5, MaxSize: 4 * lib.BS, Links: true}
		if i%8 == 5 {
			opts.MaxFiles = 2
			opts.MaxSize = 5<<20 + 777
		}
		old, nw, rel := lib.GenPair(cr, opts)
		if i%6 == 0 { // identical builds
			nw = old.Clone()
			rel = []string{"identical"}
		}
		cfg := c08MkCfg(c, cr, i, old)
		obs, oracle, err := c08CheckPair(c, fmt.Sprintf("c08p-%d", i), old, nw, cfg, nil)
		if err != nil {
			return err
		}
		kinds := map[string]bool{}
		for _, x := range rel {
			kinds[strings.SplitN(x, ":", 2)[0]] = true
		}
		cls := "pair/mixed"
		if len(rel) == 1 {
			cls = "pair/" + strings.SplitN(rel[0], ":", 2)[0]
		}
		c.Out.Emit(&lib.Case{Class: cls, Nontrivial: len(kinds) >= 1 && !kinds["identical"],
			Input: map[string]interface{}{"old": old.Summary(), "new": nw.Summary(), "relations": rel, "compression": cfg.comp.String(), "oldSignature": cfg.sigName()},
			Obs:   obs, Oracle: oracle})
	}
	return nil
}

// ---------- edits class ----------

// one localized edit of known size on data (bs is the block size the lengths and offsets hug)
func c08Edit(r *lib.Rng, data []byte, bs int) (out []byte, introduced int, how string) {
	n := len(data)
	l := []int{1, 7, bs - 1, bs, bs + 1, 3 * bs, r.Range(1, 2*bs)}[r.Intn(7)]
	if l < 1 {
		l = 1
	}
	at := 0
	if n > 0 {
		at = []int{0, n - 1, n, n / 2, (n / bs) * bs, r.Intn(n+1)/bs*bs + []int{0, 1, bs - 1}[r.Intn(3)], r.Intn(n + 1)}[r.Intn(7)]
	}
	if at > n {
		at = n
	}
	if at < 0 {
		at = 0
	}
	return c08EditAt(r, data, r.Intn(3), at, l)
}

// c08EditAt: kind 0 overwrites l bytes at offset at in place, 1 inserts l fresh bytes there, 2 deletes l bytes
func c08EditAt(r *lib.Rng, data []byte, kind, at, l int) (out []byte, introduced int, how string) {
	n := len(data)
	if at > n {
		at = n
	}
	switch kind {
	case 0: // overwrite in place
		end := at + l
		if end > n {
			end = n
		}
		out = append([]byte{}, data...)
		copy(out[at:end], r.Bytes(end-at))
		return out, end - at, fmt.Sprintf("overwrite@%d+%d", at, end-at)
	case 1:
		out = make([]byte, 0, n+l)
		out = append(append(append(out, data[:at]...), r.Bytes(l)...), data[at:]...)
		return out, l, fmt.Sprintf("insert@%d+%d", at, l)
	default:
		end := at + l
		if end > n {
			end = n
		}
		out = make([]byte, 0, n-(end-at))
		out = append(append(out, data[:at]...), data[end:]...)
		return out, 0, fmt.Sprintf("delete@%d+%d", at, end-at)
	}
}

var c08Sizes = []int{0, 1, 100, lib.BS - 1, lib.BS, lib.BS + 1, 2 * lib.BS, 2*lib.BS + 1, 3*lib.BS + 17, 5 * lib.BS, 6*lib.BS - 1, 10*lib.BS + 333}

func c08Edits(c *Ctx, r *lib.Rng, n int) error {
	for i := 0; i < n; i++ {
		cr := r.Fork()
		old, nw := &lib.Build{}, &lib.Build{}
		exp := &c08Expect{bound: map[string]int64{}, why: map[string]string{}}
		nf := cr.Range(1, 4)
		var rel []string
		maxK := 0
		for f := 0; f < nf; f++ {
			size := c08Sizes[cr.Intn(len(c08Sizes))]
			if cr.Chance(1, 4) {
				size = cr.Range(0, 8*lib.BS)
			}
			if i%10 == 9 && f == 0 { // beyond one data op / one buffer
				size = 4<<20 + cr.Range(0, 3*lib.BS)
			}
			data := cr.Bytes(size)
			p := fmt.Sprintf("%sf%d.bin", []string{"", "a/", "a/b/"}[cr.Intn(3)], f)
			old.Put(lib.Entry{Path: p, Kind: "file", Data: data})
			k := []int{0, 1, 1, 2, 3, 4}[cr.Intn(6)]
			nd, intro := data, 0
			var hows []string
			for e := 0; e < k; e++ {
				var in int
				var how string
				nd, in, how = c08Edit(cr, nd, lib.BS)
				intro += in
				hows = append(hows, how)
			}
			if k > maxK {
				maxK = k
			}
			np := p
			mode := cr.Intn(5)
			switch mode {
			case 1: // renamed
				np = fmt.Sprintf("moved/r%d.bin", f)
			case 2: // duplicated: the original stays as it was, the copy carries the edits
				nw.Put(lib.Entry{Path: p, Kind: "file", Data: data})
				exp.bound[p], exp.why[p] = 0, "unchanged original of a duplicated file"
				np = fmt.Sprintf("dup/d%d.bin", f)
			}
			nw.Put(lib.Entry{Path: np, Kind: "file", Data: nd})
			exp.bound[np] = int64(intro + (2*k+2)*lib.BS)
			exp.why[np] = fmt.Sprintf("%d edits introducing %d bytes: %s", k, intro, strings.Join(hows, ","))
			if k == 0 {
				exp.bound[np], exp.why[np] = 0, "content of an old file"
			}
			rel = append(rel, fmt.Sprintf("%s->%s size %d k=%d mode=%d %s", p, np, size, k, mode, strings.Join(hows, ",")))
		}
		cfg := c08MkCfg(c, cr, i, old)
		obs, oracle, err := c08CheckPair(c, fmt.Sprintf("c08e-%d", i), old, nw, cfg, exp)
		if err != nil {
			return err
		}
		c.Out.Emit(&lib.Case{Class: fmt.Sprintf("edits/k%d", maxK), Nontrivial: maxK > 0,
			Input: map[string]interface{}{"files": rel, "old": old.Summary(), "new": nw.Summary(), "compression": cfg.comp.String(), "oldSignature": cfg.sigName()},
			Obs:   obs, Oracle: oracle})
	}
	return nil
}

// ---------- big class: files spanning many wraps of the differ's buffer ----------

// wsync.ComputeDiff works in a buffer of MaxDataOp + 2 blocks: while the source is block aligned
// with the old file the buffer wraps every c08Wrap source bytes
const c08Wrap = wsync.MaxDataOp + 2*lib.BS

const c08MiB = 1 << 20

// c08BigEdit: one edit of a big file. shifting: an insertion or deletion whose length is not a
// multiple of the block size (all following data moves off the block grid). early: in the first
// wrap of the buffer.
func c08BigEdit(r *lib.Rng, data []byte, shifting, early bool) ([]byte, int, string) {
	n := len(data)
	kind := r.Intn(3)
	l := []int{1, 7, 1000, lib.BS - 1, lib.BS, lib.BS + 1, 3*lib.BS + 5, r.Range(1, 2*lib.BS), r.Range(1, 2*lib.BS), wsync.MaxDataOp + r.Range(-lib.BS, 2*lib.BS)}[r.Intn(10)]
	if shifting {
		kind = 1 + r.Intn(2)
		for l%lib.BS == 0 {
			l = r.Range(1, 2*lib.BS)
		}
	}
	var at int
	switch {
	case early:
		at = []int{0, 1, 100000, lib.BS - 1, lib.BS, r.Intn(c08Wrap)}[r.Intn(6)]
	case r.Chance(1, 3) && n > c08Wrap:
		// on / around an offset where the buffer wraps (exact while nothing has shifted yet)
		at = r.Range(1, n/c08Wrap)*c08Wrap + []int{-lib.BS - 1, -lib.BS, -1, 0, 1, lib.BS - 1, lib.BS}[r.Intn(7)]
	default:
		at = r.Intn(n + 1)
	}
	if at < 0 {
		at = 0
	}
	return c08EditAt(r, data, kind, at, l)
}

var c08BigSizes = []int{c08Wrap, 10 * c08MiB, 24 * c08MiB, 28 * c08MiB, 36 * c08MiB, 44 * c08MiB}

// c08BigCase diffs one big file after the given edits (in-memory pools).
func c08BigCase(c *Ctx, name, class string, data, nd []byte, k, intro int, hows []string, renamed bool, cfg c08Cfg) error {
	old, nw := &lib.Build{}, &lib.Build{}
	p, np := "data/big.bin", "data/big.bin"
	if renamed {
		np = "moved/big.bin"
	}
	old.Put(lib.Entry{Path: p, Kind: "file", Data: data})
	old.Put(lib.Entry{Path: "small.bin", Kind: "file", Data: data[:len(data)%1000]})
	nw.Put(lib.Entry{Path: np, Kind: "file", Data: nd})
	nw.Put(lib.Entry{Path: "small.bin", Kind: "file", Data: data[:len(data)%1000]})
	exp := &c08Expect{bound: map[string]int64{}, why: map[string]string{}}
	exp.bound[np] = int64(intro + (2*k+2)*lib.BS)
	exp.why[np] = fmt.Sprintf("%d edits introducing %d bytes: %s", k, intro, strings.Join(hows, ","))
	if k == 0 {
		exp.bound[np], exp.why[np] = 0, "content of an old file"
	}
	cfg.mem = true
	obs, oracle, err := c08CheckPair(c, name, old, nw, cfg, exp)
	if err != nil {
		return err
	}
	rel := fmt.Sprintf("%s->%s size %d k=%d %s", p, np, len(data), k, strings.Join(hows, ","))
	c.Out.Emit(&lib.Case{Class: class, Nontrivial: k > 0,
		Input: map[string]interface{}{"files": []string{rel}, "old": old.Summary(), "new": nw.Summary(), "compression": cfg.comp.String(), "oldSignature": cfg.sigName()},
		Obs:   obs, Oracle: oracle})
	return nil
}

func c08Big(c *Ctx, r *lib.Rng, n int) error {
	for i := 0; i < n; i++ {
		cr := r.Fork()
		size := c08BigSizes[(i+int(c.Seed))%len(c08BigSizes)]
		size += []int{0, 1, 12345, lib.BS - 1, cr.Intn(2 * lib.BS), -(size % c08Wrap)}[cr.Intn(6)]
		data := cr.Bytes(size)
		k := []int{1, 1, 2, 3}[cr.Intn(4)]
		nd, intro := data, 0
		var hows []string
		for e := 0; e < k; e++ {
			var in int
			var how string
			// three times in four the first edit shifts everything behind it off the block grid
			nd, in, how = c08BigEdit(cr, nd, e == 0 && cr.Chance(3, 4), e == 0 && cr.Chance(1, 2))
			intro += in
			hows = append(hows, how)
		}
		renamed := cr.Chance(1, 3)
		cfg := c08MkCfg(c, cr, i, &lib.Build{Entries: []lib.Entry{{Path: "big", Kind: "file", Data: data}}})
		if err := c08BigCase(c, fmt.Sprintf("c08b-%d", i), fmt.Sprintf("big/k%d", k), data, nd, k, intro, hows, renamed, cfg); err != nil {
			return err
		}
	}
	return nil
}

// ---------- corpus: inputs that failed on seeded faulty variants ----------

func c08Corpus(c *Ctx) error {
	r := lib.NewRng(0xC08)
	none := lib.Compressions[0]
	// identical builds, file sizes 0, < 1 block, 1 block, 3 blocks, 5 blocks + tail, old signature read
	// back from the signature file of the previous push (seeded C08-2: ShortSize of the last block of
	// a file of k*64KiB bytes read back as 65536)
	for _, stored := range []string{"push", "sign"} {
		b := &lib.Build{}
		for i, sz := range []int{5*lib.BS + 777, 3 * lib.BS, lib.BS, 99, 0} {
			b.Put(lib.Entry{Path: fmt.Sprintf("%c/f%d.bin", 'a'+i, i), Kind: "file", Data: r.Bytes(sz)})
		}
		cfg := c08Cfg{comp: none, stored: stored, prevComp: none}
		obs, oracle, err := c08CheckPair(c, "c08c-"+stored, b, b.Clone(), cfg, nil)
		if err != nil {
			return err
		}
		c.Out.Emit(&lib.Case{Class: "corpus/identical-stored-signature", Nontrivial: false,
			Input: map[string]interface{}{"old": b.Summary(), "new": b.Summary(), "relations": []string{"identical"}, "compression": none.String(), "oldSignature": cfg.sigName()},
			Obs:   obs, Oracle: oracle})
	}
	// a file with one 100-byte overwrite is diffed first, then an unchanged file, two duplicates and a
	// renamed file (seeded C08-9: every block range written after a data operation carried that
	// operation's payload again - only the messages of the patch show it, the counters do not)
	{
		fa, fb, fc := r.Bytes(5*lib.BS+7), r.Bytes(4*lib.BS+9), r.Bytes(3*lib.BS)
		fa2, intro, how := c08EditAt(r, fa, 0, 2*lib.BS+500, 100)
		old, nw := &lib.Build{}, &lib.Build{}
		for _, e := range []struct {
			b    *lib.Build
			p    string
			data []byte
		}{{old, "a.bin", fa}, {old, "b.bin", fb}, {old, "c.bin", fc},
			{nw, "a.bin", fa2}, {nw, "c.bin", fc}, {nw, "copy-of-b.bin", fb}, {nw, "copy-of-c.bin", fc}, {nw, "renamed.bin", fb}} {
			e.b.Put(lib.Entry{Path: e.p, Kind: "file", Data: e.data})
		}
		exp := &c08Expect{bound: map[string]int64{"a.bin": int64(intro + 4*lib.BS)}, why: map[string]string{"a.bin": "1 edit introducing 100 bytes: " + how}}
		cfg := c08Cfg{comp: none, prevComp: none}
		obs, oracle, err := c08CheckPair(c, "c08c-after-data", old, nw, cfg, exp)
		if err != nil {
			return err
		}
		c.Out.Emit(&lib.Case{Class: "corpus/reused-files-after-an-edited-file", Nontrivial: true,
			Input: map[string]interface{}{"files": []string{"a.bin " + how, "c.bin kept", "b.bin -> copy-of-b.bin, renamed.bin", "c.bin -> copy-of-c.bin"},
				"old": old.Summary(), "new": nw.Summary(), "compression": none.String(), "oldSignature": cfg.sigName()},
			Obs: obs, Oracle: oracle})
	}
	// one 1000-byte insertion at offset 100000 of a file of 24 MiB + 12345 bytes (seeded C08-1: the
	// window was not carried over when the buffer wraps, one more block re-sent per wrap)
	data := r.Bytes(24*c08MiB + 12345)
	nd, intro, how := c08EditAt(r, data, 1, 100000, 1000)
	return c08BigCase(c, "c08c-big", "corpus/big-shifting-insert", data, nd, 1, intro, []string{how}, false, c08Cfg{comp: none, prevComp: none})
}

// ---------- "ops" group: small block sizes, sources derived by edits ----------

// independent weak hash, only to evaluate the hypothesis of the edit bound
func c08Weak(b []byte) uint32 {
	var s1, s2 uint32
	n := uint32(len(b))
	for i, v := range b {
		s1 += uint32(v)
		s2 += (n - uint32(i)) * uint32(v)
	}
	return s1&0xffff | (s2&0xffff)<<16
}

func c08SmallEdits(c *Ctx, r *lib.Rng, n int) error {
	ctxs := map[int]*wsync.Context{}
	for i := 0; i < n; i++ {
		cr := r.Fork()
		bs := cr.Range(4, 16)
		if ctxs[bs] == nil {
			ctxs[bs] = wsync.NewContext(bs)
		}
		nOlds := cr.Range(1, 3)
		in := &c11Input{bs: bs}
		lowEntropy := cr.Chance(1, 4) // 3 letters: equal pushed/popped bytes, equal consecutive weak hashes, repeated blocks
		for k := 0; k < nOlds; k++ {
			sz := []int{0, 1, bs - 1, bs, bs + 1, 3 * bs, 5*bs + 3, cr.Range(0, 12*bs)}[cr.Intn(8)]
			if lowEntropy {
				in.olds = append(in.olds, c11RandString(cr, 3, sz))
			} else {
				in.olds = append(in.olds, cr.Bytes(sz))
			}
		}
		f := cr.Intn(nOlds)
		if cr.Chance(1, 3) {
			// the old build holds the same content twice (a duplicated file): the copy comes first in
			// the signature, so only the preferred-file rule maps the new file to "its" old file
			in.olds = append([][]byte{append([]byte{}, in.olds[f]...)}, in.olds...)
			nOlds++
			f++
		}
		k := []int{0, 0, 1, 1, 2, 3, 4}[cr.Intn(7)]
		src, intro := in.olds[f], 0
		var hows []string
		for e := 0; e < k; e++ {
			var a int
			var how string
			src, a, how = c08Edit(cr, src, bs)
			intro += a
			hows = append(hows, how)
		}
		in.src = src
		in.pref = int64(cr.Range(-1, nOlds-1))
		if cr.Chance(1, 2) {
			in.pref = int64(f)
		}
		ops, oracle, err := c11RunSmall(ctxs[bs], in)
		if err != nil {
			return err
		}
		var fresh int
		for _, o := range ops {
			if !o.Range {
				fresh += len(o.Data)
			}
		}
		if oracle == "" && k == 0 && fresh != 0 {
			oracle = fmt.Sprintf("the source equals old file %d but the operations carry %d data bytes", f, fresh)
		}
		if oracle == "" && !lowEntropy && fresh > intro+(2*k+2)*bs {
			// the bound presupposes that no two consecutive windows of the source share their weak
			// hash (the differ skips the lookup then) and that the old blocks are pairwise distinct
			hyp := true
			for p := 0; p+bs+1 <= len(src) && hyp; p++ {
				if c08Weak(src[p:p+bs]) == c08Weak(src[p+1:p+1+bs]) {
					hyp = false
				}
			}
			if hyp {
				oracle = fmt.Sprintf("%d data bytes exceed introduced %d + (2*%d+2)*%d (edits %s)", fresh, intro, k, bs, strings.Join(hows, ","))
			}
		}
		cls := "smalledit"
		if lowEntropy {
			cls = "smalledit-3letters"
		}
		cs := c11SmallCase(in, ops, oracle, fmt.Sprintf("%s/k%d", cls, k))
		cs.Nontrivial = k > 0 && fresh < len(src)
		c.Out.Emit(cs)
	}
	return nil
}

// ---------- "acct" group: makeOpsWriter's counters ----------

// c08WrittenOps reads back the length-prefixed SyncOp messages makeOpsWriter wrote for ops and
// says how they differ from the operations given ("" = they do not). When the writer stopped
// early (complete == false) the messages written so far are held against the first operations.
func c08WrittenOps(buf []byte, ops []wsync.Operation, complete bool) string {
	k := 0
	for ; len(buf) > 0; k++ {
		l, n := proto.DecodeVarint(buf)
		if n == 0 || uint64(len(buf)-n) < l {
			return fmt.Sprintf("message %d of the operation stream is truncated", k)
		}
		m := &pwr.SyncOp{}
		if err := proto.Unmarshal(buf[n:n+int(l)], m); err != nil {
			return fmt.Sprintf("message %d of the operation stream cannot be decoded", k)
		}
		buf = buf[n+int(l):]
		if k >= len(ops) {
			return fmt.Sprintf("%d operations given, more messages written", len(ops))
		}
		o := ops[k]
		switch o.Type {
		case wsync.OpBlockRange:
			if m.Type != pwr.SyncOp_BLOCK_RANGE || m.FileIndex != o.FileIndex || m.BlockIndex != o.BlockIndex || m.BlockSpan != o.BlockSpan {
				return fmt.Sprintf("operation %d is range file %d blocks %d+%d, written as %s file %d blocks %d+%d", k, o.FileIndex, o.BlockIndex, o.BlockSpan, m.Type, m.FileIndex, m.BlockIndex, m.BlockSpan)
			}
			if len(m.Data) != 0 {
				return fmt.Sprintf("operation %d is a block range, its message carries %d data bytes", k, len(m.Data))
			}
		case wsync.OpData:
			if m.Type != pwr.SyncOp_DATA || !bytes.Equal(m.Data, o.Data) {
				return fmt.Sprintf("operation %d is data of %d bytes, written as %s with %d bytes (equal: %v)", k, len(o.Data), m.Type, len(m.Data), bytes.Equal(m.Data, o.Data))
			}
		}
		if extra := int64(int(l) - len(m.Data)); extra > c08OpOverhead {
			return fmt.Sprintf("operation %d is encoded in %d bytes beyond its %d data bytes (a sync operation has at most %d)", k, extra, len(m.Data), c08OpOverhead)
		}
	}
	if complete && k != len(ops) {
		return fmt.Sprintf("%d operations given, %d messages written", len(ops), k)
	}
	return ""
}

func c08Acct(c *Ctx, r *lib.Rng, n int) error {
	for i := 0; i < n; i++ {
		cr := r.Fork()
		nf := cr.Range(1, 4)
		tc := &tlc.Container{}
		var sizes []int64
		for k := 0; k < nf; k++ {
			sz := int64([]int{0, 1, lib.BS - 1, lib.BS, lib.BS + 1, 2 * lib.BS, 3*lib.BS + 5, 100 * lib.BS, 1<<31 + 7}[cr.Intn(9)])
			if cr.Chance(1, 3) {
				sz = int64(cr.Range(0, 40*lib.BS))
			}
			sizes = append(sizes, sz)
			tc.Files = append(tc.Files, &tlc.File{Path: fmt.Sprintf("f%d", k), Size: sz})
		}
		var ops []wsync.Operation
		var opsCoq []string
		var opsJ []c11OpJ
		nops := cr.Range(0, 7)
		outOfRange := false
		for k := 0; k < nops; k++ {
			if cr.Chance(1, 3) {
				l := cr.Range(0, 300)
				ops = append(ops, wsync.Operation{Type: wsync.OpData, Data: cr.Bytes(l)})
				opsCoq = append(opsCoq, fmt.Sprintf("AD %d", l))
				opsJ = append(opsJ, c11OpJ{Kind: "data", Len: l})
				continue
			}
			f := cr.Intn(nf)
			if cr.Chance(1, 25) {
				f = nf + cr.Intn(2)
				outOfRange = true
			}
			var nb int64
			if f < nf {
				nb = (sizes[f] + lib.BS - 1) / lib.BS
			}
			idx, span := int64(cr.Range(0, int(nb)+1)), int64(cr.Range(0, 3))
			if cr.Chance(3, 4) && nb > 0 {
				idx = int64(cr.Intn(int(nb)))
				span = int64(cr.Range(1, int(nb-idx)))
				if cr.Chance(1, 2) {
					span = nb - idx // reaches the (possibly short) last block
				}
			}
			ops = append(ops, wsync.Operation{Type: wsync.OpBlockRange, FileIndex: int64(f), BlockIndex: idx, BlockSpan: span})
			opsCoq = append(opsCoq, fmt.Sprintf("AR %d %d %d", f, idx, span))
			opsJ = append(opsJ, c11OpJ{Kind: "range", File: int64(f), Index: idx, Span: span})
		}
		dctx := &pwr.DiffContext{TargetContainer: tc}
		var written bytes.Buffer
		cls, msg := lib.Guard(func() error { return pwr.VerifAccountOps(dctx, &written, ops) })
		// oracle: in-bounds op lists account for exactly the bytes they denote
		oracle := ""
		if cls == "panic" && !outOfRange {
			oracle = "makeOpsWriter panic: " + msg
		}
		if cls == "ok" {
			inb := true
			var wantR, wantF int64
			for _, o := range ops {
				if o.Type == wsync.OpData {
					wantF += int64(len(o.Data))
					continue
				}
				sz := sizes[o.FileIndex]
				lo, hi := o.BlockIndex*lib.BS, (o.BlockIndex+o.BlockSpan)*lib.BS
				if o.BlockSpan < 1 || o.BlockIndex+o.BlockSpan > (sz+lib.BS-1)/lib.BS {
					inb = false
					break
				}
				if hi > sz {
					hi = sz
				}
				wantR += hi - lo
			}
			if inb && (wantR != dctx.ReusedBytes || wantF != dctx.FreshBytes) {
				oracle = fmt.Sprintf("counters reused %d fresh %d, the operations denote reused %d fresh %d", dctx.ReusedBytes, dctx.FreshBytes, wantR, wantF)
			}
		}
		// oracle: the messages written are the operations given - a range message names the blocks of
		// its operation and carries no payload, a data message carries the bytes of its operation (the
		// counters above are about these messages: fresh = payload sent, reused = bytes addressed)
		if oracle == "" {
			oracle = c08WrittenOps(written.Bytes(), ops, cls == "ok")
		}
		obsCoq := fmt.Sprintf("Some (%s, %s)", lib.CoqZ(dctx.ReusedBytes), lib.CoqZ(dctx.FreshBytes))
		if cls != "ok" {
			obsCoq = "None"
		}
		szs := make([]string, len(sizes))
		for k, s := range sizes {
			szs[k] = lib.CoqZ(s)
		}
		c.Out.Emit(&lib.Case{Group: "acct", Class: "acct/" + cls, Nontrivial: len(ops) >= 2,
			Input:  map[string]interface{}{"sizes": sizes, "ops": opsJ},
			Obs:    map[string]interface{}{"class": cls, "reused": dctx.ReusedBytes, "fresh": dctx.FreshBytes},
			Oracle: oracle,
			Coq:    fmt.Sprintf("($ID%%N, %s, ([%s]%%N), (%s))", lib.CoqList(szs), strings.Join(opsCoq, "; "), obsCoq)})
	}
	return nil
}

func runC08(c *Ctx) error {
	// the search tier (after a correspondence break) runs three times the quick sizes with another seed
	n := func(quick, thorough int) int {
		if c.Tier == "search" {
			return 3 * quick
		}
		return c.N(quick, thorough)
	}
	if err := c08Corpus(c); err != nil {
		return err
	}
	if err := c08Edits(c, c.Rng.Fork(), n(40, 700)); err != nil {
		return err
	}
	if err := c08Pairs(c, c.Rng.Fork(), n(24, 400)); err != nil {
		return err
	}
	if err := c08SmallEdits(c, c.Rng.Fork(), n(400, 5000)); err != nil {
		return err
	}
	if err := c08Acct(c, c.Rng.Fork(), n(400, 3000)); err != nil {
		return err
	}
	// last: its Rng fork leaves the streams of the other classes as they were
	return c08Big(c, c.Rng.Fork(), n(12, 80))
}
