package main

// C06, group "fsmodel": the filesystem model (coq/theories/FS) against the kernel and Go's os
// package.  A random well-formed tree is materialized in a scratch directory, a random sequence
// of operations (os.Lstat/Stat/Readlink/ReadFile/Mkdir/MkdirAll/Remove/RemoveAll/Symlink/Rename/Truncate,
// OpenFile+Write/WriteAt, syscall.Rename) over a small name space is applied (paths through symlinked directories, ".."
// in link destinations, dangling links, link loops, kind clashes), and the errno class / value
// of every operation plus the final tree are printed for the model to reproduce.

import (
	"errors"
	"fmt"
	"os"
	"path/filepath"
	"strings"
	"syscall"

	"verif/harness/lib"
)

func errnoName(err error) string {
	var en syscall.Errno
	if errors.As(err, &en) {
		switch en {
		case syscall.ENOENT:
			return "ENOENT"
		case syscall.ENOTDIR:
			return "ENOTDIR"
		case syscall.EISDIR:
			return "EISDIR"
		case syscall.ENOTEMPTY:
			return "ENOTEMPTY"
		case syscall.EEXIST:
			return "EEXIST"
		case syscall.EINVAL:
			return "EINVAL"
		case syscall.ELOOP:
			return "ELOOP"
		case syscall.EBUSY:
			return "EBUSY"
		}
		return "E" + fmt.Sprint(int(en))
	}
	return "E?" + err.Error()
}

func fsGenPath(r *lib.Rng) string {
	n := r.Range(1, 3)
	if r.Chance(1, 6) {
		n = 4
	}
	parts := make([]string, n)
	for i := range parts {
		parts[i] = fmt.Sprintf("a%d", r.Intn(3))
	}
	return strings.Join(parts, "/")
}

// fsGenPath2: the second path of a rename: unrelated, an ancestor of p, or below p
func fsGenPath2(r *lib.Rng, p string) string {
	switch r.Intn(6) {
	case 0:
		if i := strings.LastIndex(p, "/"); i > 0 {
			return p[:i]
		}
	case 1:
		if strings.Count(p, "/") < 3 {
			return p + fmt.Sprintf("/a%d", r.Intn(3))
		}
	case 2:
		if i := strings.Index(p, "/"); i > 0 {
			return p[:i]
		}
	}
	return fsGenPath(r)
}

func fsGenDest(r *lib.Rng) string {
	n := r.Range(1, 3)
	parts := make([]string, n)
	for i := range parts {
		if r.Chance(1, 4) && i == 0 {
			parts[i] = ".."
		} else {
			parts[i] = fmt.Sprintf("a%d", r.Intn(3))
		}
	}
	return strings.Join(parts, "/")
}

func fsGenTree(r *lib.Rng) hTree {
	t := hTree{}
	n := r.Range(0, 8)
	for i := 0; i < n; i++ {
		p := fsGenPath(r)
		// parents must be directories
		parts := strings.Split(p, "/")
		ok := true
		for j := 1; j < len(parts); j++ {
			pp := strings.Join(parts[:j], "/")
			if x, has := t[pp]; has && x.Kind != "dir" {
				ok = false
			}
		}
		if _, has := t[p]; has || !ok {
			continue
		}
		for j := 1; j < len(parts); j++ {
			t[strings.Join(parts[:j], "/")] = hNode{Kind: "dir"}
		}
		switch r.Intn(4) {
		case 0:
			t[p] = hNode{Kind: "dir"}
		case 1:
			t[p] = hNode{Kind: "file", Data: []byte(strings.Repeat("x", r.Intn(4)))}
		default:
			t[p] = hNode{Kind: "link", Dest: fsGenDest(r)}
		}
	}
	return t
}

func coqFsData(b []byte) string { return c06CoqRle(b) }

func runFSModel(c *Ctx) error {
	r := c.Rng.Fork()
	n := c.N(240, 3000)
	for i := 0; i < n; i++ {
		cr := r.Fork()
		// the model's root is [top]; the operations work below top/p0/r0, so that a ".." at the top
		// of the working directory stays inside what the model knows (it contains nothing else)
		top := filepath.Join(c.Tmp, fmt.Sprintf("c06fs-%d", i))
		if err := os.MkdirAll(top, 0o755); err != nil {
			return err
		}
		init := hTree{"p0": hNode{Kind: "dir"}, "p0/r0": hNode{Kind: "dir"}}
		for p, n := range fsGenTree(cr) {
			init["p0/r0/"+p] = n
		}
		if err := init.materialize(top); err != nil {
			return err
		}
		abs := func(p string) string { return filepath.Join(top, "p0", "r0", filepath.FromSlash(p)) }
		coqPath := func(p string) string { return coqPath("p0/r0/" + p) }
		nops := cr.Range(1, 8)
		var ops, results, opNames []string
		res := func(err error, okv string) {
			if err != nil {
				results = append(results, "RErr "+errnoName(err))
			} else {
				results = append(results, okv)
			}
		}
		kind := func(fi os.FileInfo) string {
			switch {
			case fi.Mode()&os.ModeSymlink != 0:
				return "RKind 2"
			case fi.IsDir():
				return "RKind 1"
			}
			return "RKind 0"
		}
		for k := 0; k < nops; k++ {
			p := fsGenPath(cr)
			switch op := cr.Intn(17); op {
			case 0:
				fi, err := os.Lstat(abs(p))
				ops = append(ops, "OLstat "+coqPath(p))
				if err != nil {
					res(err, "")
				} else {
					res(nil, kind(fi))
				}
			case 1:
				fi, err := os.Stat(abs(p))
				ops = append(ops, "OStat "+coqPath(p))
				if err != nil {
					res(err, "")
				} else {
					res(nil, kind(fi))
				}
			case 2:
				d, err := os.Readlink(abs(p))
				ops = append(ops, "OReadlink "+coqPath(p))
				res(err, "RDest "+coqDest(d))
			case 3:
				d, err := os.ReadFile(abs(p))
				ops = append(ops, "ORead "+coqPath(p))
				res(err, "RData "+coqFsData(d))
			case 4:
				ops = append(ops, "OMkdir "+coqPath(p))
				res(os.Mkdir(abs(p), 0o755), "RUnit")
			case 5, 6:
				ops = append(ops, "OMkdirAll "+coqPath(p))
				res(os.MkdirAll(abs(p), 0o755), "RUnit")
			case 7:
				ops = append(ops, "ORemove "+coqPath(p))
				res(os.Remove(abs(p)), "RUnit")
			case 8:
				ops = append(ops, "ORemoveAll "+coqPath(p))
				res(os.RemoveAll(abs(p)), "RUnit")
			case 9:
				d := fsGenDest(cr)
				ops = append(ops, "OSymlink "+coqDest(d)+" "+coqPath(p))
				res(os.Symlink(d, abs(p)), "RUnit")
			case 10, 11:
				data := []byte(strings.Repeat("y", cr.Intn(5)))
				ops = append(ops, "OWrite "+coqPath(p)+" "+coqFsData(data))
				f, err := os.OpenFile(abs(p), os.O_WRONLY|os.O_CREATE|os.O_TRUNC, 0o644)
				if err == nil {
					_, err = f.Write(data)
					f.Close()
				}
				res(err, "RUnit")
			case 12:
				q := fsGenPath2(cr, p)
				ops = append(ops, "ORename "+coqPath(p)+" "+coqPath(q))
				res(os.Rename(abs(p), abs(q)), "RUnit")
			case 14:
				data := []byte(strings.Repeat("z", cr.Intn(4)))
				off := cr.Intn(7)
				ops = append(ops, fmt.Sprintf("OWriteAt %s %d %s", coqPath(p), off, coqFsData(data)))
				f, err := os.OpenFile(abs(p), os.O_WRONLY, 0)
				if err == nil {
					_, err = f.WriteAt(data, int64(off))
					f.Close()
				}
				res(err, "RUnit")
			case 15:
				n := cr.Intn(7)
				ops = append(ops, fmt.Sprintf("OTruncate %s %d", coqPath(p), n))
				res(os.Truncate(abs(p), int64(n)), "RUnit")
			default:
				q := fsGenPath2(cr, p)
				ops = append(ops, "ORename2 "+coqPath(p)+" "+coqPath(q))
				res(syscall.Rename(abs(p), abs(q)), "RUnit")
			}
			opNames = append(opNames, strings.SplitN(ops[len(ops)-1], " ", 2)[0])
		}
		final, err := readHTree(top)
		if err != nil {
			return err
		}
		nerr := 0
		for _, x := range results {
			if strings.HasPrefix(x, "RErr") {
				nerr++
			}
		}
		for j := range ops {
			ops[j] = "(" + ops[j] + ")"
			results[j] = "(" + results[j] + ")"
		}
		c.Out.Emit(&lib.Case{Group: "fsmodel", Class: fmt.Sprintf("fsmodel/ops%d", (nops+1)/2*2), Nontrivial: nerr > 0 && nerr < len(ops),
			Input: map[string]interface{}{"init": init.summary(), "ops": ops, "subseed": i},
			Obs:   map[string]interface{}{"results": results, "final": final.summary()},
			Coq:   fmt.Sprintf("(FC $ID %s %s %s %s)", coqTree(init), lib.CoqList(ops), lib.CoqList(results), coqTree(final))})
		removeAll(top)
	}
	return nil
}
