package main

func runFSModel(c *Ctx) error { return nil }
