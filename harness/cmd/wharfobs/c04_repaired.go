package main

// C04 — two correspondence groups that tie Sig/HashInfo.v and Sig/Validate.v to the code on the
// branches the pristine-copy cases never reach (the models were repaired to follow the `fix:`
// commits 6a06397 and ccb6315 of the repo):
//   "hinfo" : pwr.ComputeHashInfo on a container given by its file sizes and ANY number of
//             hashes (exactly enough, too few at every position, too many, none), the hash
//             slice with capacity = length (where the code before the fix panicked) or larger
//   "vfile" : ValidatorContext.Validate of a tree of regular files whose contents are shorter /
//             longer than signed, damaged in place, or pristine: the wounds file, wound for wound
// Oracles restate the property without the model: ComputeHashInfo succeeds exactly when the
// number of hashes is sum max(1, ceil(size/bs)) and never panics, its groups are consecutive
// runs; every wound is a well-formed FILE wound (0 <= start <= end) of an existing file, an
// unchanged file has none, every deviating offset (including the length difference) is covered.

import (
	"context"
	"fmt"
	"path/filepath"
	"time"

	"github.com/itchio/lake/tlc"
	"github.com/itchio/wharf/pwr"
	"github.com/itchio/wharf/wsync"

	"verif/harness/lib"
)

// ---------------------------------------------------------------- group "hinfo"

type c04HinfoIn struct {
	sizes    []int64
	nhashes  int
	extraCap int
}

// fixed cases first: the inputs of the former model/code disagreement and its neighbours
var c04HinfoCorpus = []c04HinfoIn{
	{[]int64{bs64, bs64}, 1, 0},       // second file has no hash left: panic before 6a06397
	{[]int64{2 * bs64}, 1, 0},         // first file needs 2, has 1
	{[]int64{2*bs64 + 1, 0, 1}, 4, 0}, // last file has no hash left
	{[]int64{2*bs64 + 1, 0, 1}, 5, 0}, // exactly enough
	{[]int64{2*bs64 + 1, 0, 1}, 6, 0}, // one too many
	{[]int64{bs64 + 1}, 0, 0},         // no hash at all
	{[]int64{0, 0}, 1, 0},             // empty files consume a hash each: count check only
	{[]int64{bs64, bs64}, 1, 7},       // too few, but spare capacity behind the slice
	{nil, 0, 0}, {nil, 2, 0},          // no file
}

func c04Hinfo(c *Ctx) error {
	r := c.Rng.Fork()
	n := c04N(c, 48, 400, 150)
	sizesPool := []int64{0, 0, 1, bs64 - 1, bs64, bs64 + 1, 2 * bs64, 2*bs64 + 1, 3*bs64 + 7, 10 * bs64}
	for i := 0; i < n; i++ {
		cr := r.Fork()
		var in c04HinfoIn
		class := ""
		need := func(sizes []int64) (int, []int) {
			tot := 0
			var per []int
			for _, s := range sizes {
				nb := int((s + bs64 - 1) / bs64)
				if nb < 1 {
					nb = 1
				}
				per = append(per, nb)
				tot += nb
			}
			return tot, per
		}
		if i < len(c04HinfoCorpus) {
			in = c04HinfoCorpus[i]
			class = "hinfo/corpus"
		} else {
			nf := cr.Range(0, 5)
			for k := 0; k < nf; k++ {
				in.sizes = append(in.sizes, sizesPool[cr.Intn(len(sizesPool))])
			}
			tot, per := need(in.sizes)
			switch cr.Intn(6) {
			case 0, 1:
				in.nhashes = tot
			case 2: // stop in front of / inside file k
				in.nhashes = 0
				if nf > 0 {
					k := cr.Intn(nf)
					for j := 0; j < k; j++ {
						in.nhashes += per[j]
					}
					if per[k] > 1 && cr.Bool() {
						in.nhashes += cr.Range(1, per[k]-1)
					}
				}
			case 3:
				in.nhashes = tot - 1
				if in.nhashes < 0 {
					in.nhashes = 0
				}
			case 4:
				in.nhashes = tot + cr.Range(1, 3)
			default:
				in.nhashes = cr.Range(0, tot+3)
			}
			if cr.Chance(1, 4) {
				in.extraCap = cr.Range(1, 40)
			}
		}
		tot, per := need(in.sizes)
		switch {
		case class != "":
		case in.nhashes == tot:
			class = "hinfo/exact"
		case in.nhashes < tot:
			class = "hinfo/too-few"
		default:
			class = "hinfo/too-many"
		}
		if in.extraCap > 0 && class != "hinfo/corpus" {
			class += "+cap"
		}
		cont := &tlc.Container{}
		for k, s := range in.sizes {
			cont.Files = append(cont.Files, &tlc.File{Path: fmt.Sprintf("f%03d", k), Mode: 0644, Size: s})
			cont.Size += s
		}
		hashes := make([]wsync.BlockHash, in.nhashes, in.nhashes+in.extraCap)
		for k := range hashes {
			hashes[k] = wsync.BlockHash{WeakHash: uint32(k), StrongHash: []byte{byte(k)}}
		}
		// what lies behind the slice must never show up in a group
		for k, spare := 0, hashes[len(hashes):cap(hashes)]; k < len(spare); k++ {
			spare[k] = wsync.BlockHash{WeakHash: 0xffffffff}
		}
		si := &pwr.SignatureInfo{Container: cont, Hashes: hashes}
		var hi *pwr.HashInfo
		cls, msg := lib.Guard(func() error {
			var err error
			hi, err = pwr.ComputeHashInfo(si)
			return err
		})
		oracle := ""
		fail := func(f string, a ...interface{}) {
			if oracle == "" {
				oracle = fmt.Sprintf(f, a...)
			}
		}
		if cls == "panic" {
			fail("ComputeHashInfo panic: %s", msg)
		}
		if (cls == "ok") != (in.nhashes == tot) && cls != "panic" {
			fail("ComputeHashInfo %s with %d hashes for files needing %d", cls, in.nhashes, tot)
		}
		var groups []string
		obsGroups := map[string][]uint32{}
		if cls == "ok" && hi != nil {
			idx := 0
			for k, s := range in.sizes {
				g, ok := hi.Groups[int64(k)]
				if !ok {
					groups = append(groups, "None")
				} else {
					var xs []int64
					var ws []uint32
					for _, h := range g {
						xs = append(xs, int64(h.WeakHash))
						ws = append(ws, h.WeakHash)
					}
					groups = append(groups, "(Some "+lib.CoqNList(xs)+")")
					obsGroups[fmt.Sprint(k)] = ws
				}
				if s == 0 {
					if ok {
						fail("empty file %d has a group of %d hashes", k, len(g))
					}
					idx++
					continue
				}
				if !ok || len(g) != per[k] {
					fail("file %d: group of %d hashes, want %d", k, len(g), per[k])
				} else {
					for j, h := range g {
						if int(h.WeakHash) != idx+j {
							fail("file %d: hash %d of its group is hash %d of the signature, want %d", k, j, h.WeakHash, idx+j)
						}
					}
				}
				idx += per[k]
			}
			if len(hi.Groups) > len(in.sizes) {
				fail("more groups than files")
			}
		}
		code := map[string]int{"ok": 0, "error": 1, "panic": 2, "hang": 3}[cls]
		c.Out.Emit(&lib.Case{Group: "hinfo", Class: class, Nontrivial: len(in.sizes) >= 2 && in.nhashes >= 1,
			Input:  map[string]interface{}{"sizes": in.sizes, "hashes": in.nhashes, "spareCapacity": in.extraCap, "needed": tot},
			Obs:    map[string]interface{}{"class": cls, "groups": obsGroups},
			Oracle: oracle,
			Coq:    fmt.Sprintf("($ID%%N, %s, %d%%N, (%d%%N, %s))", lib.CoqNList(in.sizes), in.nhashes, code, lib.CoqList(groups))})
	}
	return nil
}

// ---------------------------------------------------------------- group "vfile"

type c04VfileIn struct {
	signed []int    // sizes of the signed files
	kinds  []string // what happened to each of them on disk
}

// fixed cases first: a file longer than signed (the size wound had start > end before ccb6315)
var c04VfileCorpus = []c04VfileIn{
	{[]int{bs64}, []string{"longer1"}},
	{[]int{2}, []string{"longer1"}},
	{[]int{bs64 + 1, 100}, []string{"longerBlock", "pristine"}},
	{[]int{bs64 + 5}, []string{"shorter1"}},
	{[]int{0, 3}, []string{"longer1", "damaged"}},
}

var c04VfileKinds = []string{"pristine", "longer1", "longerFew", "longerBlock", "shorter1", "shorterBlock", "empty", "damaged", "longer+damaged", "shorter+damaged"}

// c04Deviate returns the content found on disk for a signed content
func c04Deviate(r *lib.Rng, signed []byte, kind string) []byte {
	d := append([]byte(nil), signed...)
	damage := func() {
		if len(d) > 0 {
			d[r.Intn(len(d))] ^= byte(1 + r.Intn(255))
		}
	}
	tail := func(n int) {
		v := byte(r.Intn(256))
		for j := 0; j < n; j++ {
			d = append(d, v)
		}
	}
	switch kind {
	case "longer1":
		tail(1)
	case "longerFew":
		tail(r.Range(2, 300))
	case "longerBlock":
		tail(bs64 + r.Intn(3) - 1)
	case "shorter1":
		if len(d) > 0 {
			d = d[:len(d)-1]
		}
	case "shorterBlock":
		if len(d) > 0 { // cut at the last block boundary below the end
			d = d[:(len(d)-1)/bs64*bs64]
		}
	case "empty":
		d = d[:0]
	case "damaged":
		damage()
	case "longer+damaged":
		damage()
		tail(r.Range(1, 70000))
	case "shorter+damaged":
		if len(d) > 1 {
			d = d[:r.Range(1, len(d)-1)]
		}
		damage()
	}
	return d
}

func c04Vfile(c *Ctx) error {
	r := c.Rng.Fork()
	n := c04N(c, 14, 90, 40)
	sizesPool := []int{0, 1, 2, 100, bs64 - 1, bs64, bs64 + 1, 2 * bs64, 2*bs64 + 5}
	for i := 0; i < n; i++ {
		cr := r.Fork()
		var in c04VfileIn
		class := "vfile/corpus"
		if i < len(c04VfileCorpus) {
			in = c04VfileCorpus[i]
		} else {
			nf := cr.Range(1, 3)
			budget := 3*bs64 + 10 // the model hashes every byte twice
			for k := 0; k < nf; k++ {
				s := sizesPool[cr.Intn(len(sizesPool))]
				if s > budget {
					s = cr.Range(0, 300)
				}
				budget -= s
				in.signed = append(in.signed, s)
				in.kinds = append(in.kinds, c04VfileKinds[cr.Intn(len(c04VfileKinds))])
			}
			class = "vfile/" + in.kinds[0]
		}
		signed, actual := &lib.Build{}, &lib.Build{}
		var sData, aData [][]byte
		for k, s := range in.signed {
			d := structuredContent(cr, s)
			a := c04Deviate(cr, d, in.kinds[k])
			p := fmt.Sprintf("f%d", k)
			signed.Put(lib.Entry{Path: p, Kind: "file", Data: d})
			actual.Put(lib.Entry{Path: p, Kind: "file", Data: a})
			sData, aData = append(sData, d), append(aData, a)
		}
		base := filepath.Join(c.Tmp, fmt.Sprintf("c04v-%d", i))
		sdir, adir := filepath.Join(base, "signed"), filepath.Join(base, "actual")
		if err := signed.WriteTo(sdir); err != nil {
			return err
		}
		if err := actual.WriteTo(adir); err != nil {
			return err
		}
		sig, err := lib.SignDir(sdir)
		if err != nil {
			return err
		}
		if len(sig.Container.Files) != len(in.signed) {
			return fmt.Errorf("c04 vfile: container has %d files, want %d", len(sig.Container.Files), len(in.signed))
		}
		pww := filepath.Join(base, "w.pww")
		cls, msg := lib.WithDeadline(120*time.Second, func() error {
			vctx := &pwr.ValidatorContext{WoundsPath: pww, Consumer: lib.Quiet}
			return vctx.Validate(context.Background(), adir, sig)
		})
		oracle := ""
		fail := func(f string, a ...interface{}) {
			if oracle == "" {
				oracle = fmt.Sprintf(f, a...)
			}
		}
		var wounds []*pwr.Wound
		if cls != "ok" {
			fail("Validate (wounds file) %s: %s", cls, msg)
		} else {
			wounds, err = readWounds(pww)
			if err != nil {
				return err
			}
			covered := make([][]bool, len(in.signed))
			for k := range covered {
				covered[k] = make([]bool, max(len(sData[k]), len(aData[k])))
			}
			has := make([]bool, len(in.signed))
			for _, w := range wounds {
				if w.Kind != pwr.WoundKind_FILE {
					fail("wound of kind %s in the wounds file of a tree of regular files", w.Kind)
					continue
				}
				if w.Index < 0 || int(w.Index) >= len(in.signed) {
					fail("wound names file %d of %d", w.Index, len(in.signed))
					continue
				}
				if w.Start < 0 || w.Start > w.End {
					fail("malformed wound range [%d,%d) for file %d (signed %d bytes, on disk %d)", w.Start, w.End, w.Index, len(sData[w.Index]), len(aData[w.Index]))
					continue
				}
				has[w.Index] = true
				cv := covered[w.Index]
				for off := w.Start; off < w.End && off < int64(len(cv)); off++ {
					cv[off] = true
				}
			}
			for k := range in.signed {
				s, a := sData[k], aData[k]
				if string(s) == string(a) {
					if has[k] {
						fail("file %d is unchanged but has a wound", k)
					}
					continue
				}
				if !has[k] {
					fail("file %d deviates (signed %d bytes, on disk %d) but has no wound", k, len(s), len(a))
				}
				for off := range covered[k] {
					differs := off >= len(s) || off >= len(a) || s[off] != a[off]
					if differs && !covered[k][off] {
						fail("file %d deviates at offset %d (signed %d bytes, on disk %d) outside every wound", k, off, len(s), len(a))
						break
					}
				}
			}
		}
		sortWounds(wounds)
		var fs, ws []string
		nontrivial := false
		for k := range in.signed {
			fs = append(fs, fmt.Sprintf("(%s, %s)", lib.ToRle(sData[k]).Coq(), lib.ToRle(aData[k]).Coq()))
			if len(aData[k]) != len(sData[k]) {
				nontrivial = true
			}
		}
		for _, w := range wounds {
			ws = append(ws, woundCoq(w))
		}
		code := map[string]int{"ok": 0, "error": 1, "panic": 2, "hang": 3}[cls]
		c.Out.Emit(&lib.Case{Group: "vfile", Class: class, Nontrivial: nontrivial,
			Input:  map[string]interface{}{"signedSizes": in.signed, "onDisk": in.kinds, "subseed": i},
			Obs:    map[string]interface{}{"validate": cls, "wounds": woundsJ(wounds)},
			Oracle: oracle,
			Coq:    fmt.Sprintf("($ID%%N, %s, (%d%%N, %s))", lib.CoqList(fs), code, lib.CoqList(ws))})
		removeAll(base)
		if cls == "hang" {
			return nil
		}
	}
	return nil
}
