package main

// C02, group "fsops": the private filesystem model of the commit proof (coq/theories/Bowl/FSmini.v)
// against the real filesystem. Random short sequences of exactly the operations Commit uses
// (Lstat, Readlink, Remove, RemoveAll, MkdirAll, Symlink, Rename, read, create/truncate) are run
// on a small random tree in a scratch directory; the model must produce the same result class for
// every operation (errno class; for rename only ok/error, which is all Commit looks at) and the
// same final tree. Sequences on which the model declines (a symbolic link would be followed) are
// not compared.

import (
	"errors"
	"fmt"
	"os"
	"path/filepath"
	"strings"
	"syscall"

	"verif/harness/lib"
)

type fsOp struct {
	kind string // lstat readlink remove removeall mkdirall symlink rename read create
	p, q string
	data []byte
}

func errnoClass(err error) int {
	if err == nil {
		return 0
	}
	var en syscall.Errno
	if errors.As(err, &en) {
		switch en {
		case syscall.ENOENT:
			return 1
		case syscall.ENOTDIR:
			return 2
		case syscall.EISDIR:
			return 3
		case syscall.ENOTEMPTY:
			return 4
		case syscall.EEXIST:
			return 5
		case syscall.EINVAL:
			return 6
		}
	}
	return 9
}

var fsNames = []string{"a", "b", "c"}

func fsRandPath(r *lib.Rng) string {
	n := r.Range(1, 3)
	parts := make([]string, n)
	for i := range parts {
		parts[i] = fsNames[r.Intn(len(fsNames))]
	}
	return strings.Join(parts, "/")
}

func runC02FS(c *Ctx, r *lib.Rng) error {
	n := c.N(200, 3000)
	for i := 0; i < n; i++ {
		cr := r.Fork()
		// initial tree: well-formed, a few entries
		b := &lib.Build{}
		for k := cr.Range(0, 5); k > 0; k-- {
			p := fsRandPath(cr)
			switch cr.Intn(4) {
			case 0:
				b.Put(lib.Entry{Path: p, Kind: "dir"})
			case 1:
				b.Put(lib.Entry{Path: p, Kind: "link", Dest: []string{"a", "nowhere", "b/c"}[cr.Intn(3)]})
			default:
				b.Put(lib.Entry{Path: p, Kind: "file", Data: []byte{byte(cr.Intn(5)), byte(cr.Intn(5))}[:cr.Intn(3)]})
			}
		}
		var ops []fsOp
		for k := cr.Range(1, 6); k > 0; k-- {
			kinds := []string{"lstat", "readlink", "remove", "removeall", "mkdirall", "symlink", "rename", "rename", "read", "create"}
			op := fsOp{kind: kinds[cr.Intn(len(kinds))], p: fsRandPath(cr)}
			// bias towards existing paths
			if len(b.Entries) > 0 && cr.Chance(1, 2) {
				op.p = b.Entries[cr.Intn(len(b.Entries))].Path
				if cr.Chance(1, 4) {
					op.p += "/" + fsNames[cr.Intn(len(fsNames))]
				}
			}
			switch op.kind {
			case "rename":
				op.q = fsRandPath(cr)
				if len(b.Entries) > 0 && cr.Chance(1, 3) {
					op.q = b.Entries[cr.Intn(len(b.Entries))].Path
				}
				if cr.Chance(1, 6) {
					op.q = op.p + "/" + fsNames[cr.Intn(len(fsNames))]
				}
			case "symlink":
				op.q = []string{"a", "nowhere"}[cr.Intn(2)]
			case "create":
				op.data = []byte{byte(cr.Intn(5)), 7}[:cr.Range(0, 2)]
			}
			ops = append(ops, op)
		}
		dir := filepath.Join(c.Tmp, fmt.Sprintf("c02fs-%d", i))
		if err := b.WriteTo(dir); err != nil {
			return err
		}
		abs := func(p string) string { return filepath.Join(dir, filepath.FromSlash(p)) }
		names := &c02Names{ids: map[string]int{}}
		var opTerms, obsTerms, opDesc []string
		for _, op := range ops {
			code, extra := 0, "ONone"
			switch op.kind {
			case "lstat":
				st, err := os.Lstat(abs(op.p))
				code = errnoClass(err)
				if err == nil {
					k := 0
					if st.Mode()&os.ModeSymlink != 0 {
						k = 2
					} else if st.IsDir() {
						k = 1
					}
					extra = fmt.Sprintf("OKind %d", k)
				}
				opTerms = append(opTerms, "FLstat "+names.path(op.p))
			case "readlink":
				d, err := os.Readlink(abs(op.p))
				code = errnoClass(err)
				if err == nil {
					extra = fmt.Sprintf("ODest %d", names.id("->"+d))
				}
				opTerms = append(opTerms, "FReadlink "+names.path(op.p))
			case "remove":
				code = errnoClass(os.Remove(abs(op.p)))
				opTerms = append(opTerms, "FRemove "+names.path(op.p))
			case "removeall":
				code = errnoClass(os.RemoveAll(abs(op.p)))
				opTerms = append(opTerms, "FRemoveAll "+names.path(op.p))
			case "mkdirall":
				code = errnoClass(os.MkdirAll(abs(op.p), 0o755))
				opTerms = append(opTerms, "FMkdirAll "+names.path(op.p))
			case "symlink":
				code = errnoClass(os.Symlink(op.q, abs(op.p)))
				opTerms = append(opTerms, fmt.Sprintf("FSymlink %d %s", names.id("->"+op.q), names.path(op.p)))
			case "rename":
				code = errnoClass(os.Rename(abs(op.p), abs(op.q)))
				if code != 0 {
					code = 9 // only ok / error is compared for rename
				}
				opTerms = append(opTerms, fmt.Sprintf("FRename %s %s", names.path(op.p), names.path(op.q)))
			case "read":
				d, err := os.ReadFile(abs(op.p))
				code = errnoClass(err)
				if err == nil {
					extra = "OData " + lib.CoqBytes(d)
				}
				opTerms = append(opTerms, "FRead "+names.path(op.p))
			case "create":
				f, err := os.OpenFile(abs(op.p), os.O_CREATE|os.O_WRONLY|os.O_TRUNC, 0o644)
				code = errnoClass(err)
				if err == nil {
					f.Write(op.data)
					f.Close()
				}
				opTerms = append(opTerms, fmt.Sprintf("FCreate %s %s", names.path(op.p), lib.CoqBytes(op.data)))
			}
			obsTerms = append(obsTerms, fmt.Sprintf("(%d,%s)", code, extra))
			opDesc = append(opDesc, strings.TrimSpace(op.kind+" "+op.p+" "+op.q))
		}
		final, err := lib.ReadBuild(dir)
		removeAll(dir)
		if err != nil {
			return err
		}
		// link destinations of the initial tree must be interned before printing trees
		coq := fmt.Sprintf("($ID%%N, %s, [%s], [%s], %s)", names.tree(b), strings.Join(opTerms, ";"), strings.Join(obsTerms, ";"), names.tree(final))
		c.Out.Emit(&lib.Case{Group: "fsops", Class: "fsops", Nontrivial: len(ops) >= 2,
			Input: map[string]interface{}{"tree": b.Summary(), "ops": opDesc, "subseed": i},
			Obs:   map[string]interface{}{"results": obsTerms, "final": final.Summary()}, Coq: coq})
	}
	return nil
}
