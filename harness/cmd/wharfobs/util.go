package main

import "github.com/itchio/lake/tlc"

type lakeContainer struct{ x tlc.Container }

func (l *lakeContainer) c() *tlc.Container { return &l.x }
