package main

// C16 — validation always terminates and a clean verdict is never caused by interruption.
//
// One case = (build shape, damage, wounds consumer, cancellation instant, GOMAXPROCS).
// pwr.ValidatorContext.Validate is run on the real code under a deadline; the oracle
// restates the property on what came back:
//   - it returned (no "hang"), and no panic escaped,
//   - fail-fast validation returning nil  =>  every entry of the signed build is present
//     and equal in the directory (computed with Lstat/Readlink/ReadFile, before the call).
// Everything schedule dependent (error vs nil when a cancellation races the end of the
// run, when exactly a failing consumer fails) is accepted either way: only a blocked
// caller and a nil on a DAMAGED directory are failures.
//
// Group "proto": the case abstracted to the parameters of coq/theories/Heal/Protocol.v
// (channel capacity and counts scaled down preserving "more wounds than the channel
// holds", which producers send with / without the select on `cancelled`, which file is
// damaged, the consumer class, ctx cancelled before start / possibly later / never) and the
// observed outcome; the model explores its schedules and the outcome must be one of the
// outcomes it can reach (and the model must not get stuck).

import (
	"archive/zip"
	"bytes"
	"context"
	"fmt"
	"os"
	"os/signal"
	"path/filepath"
	"runtime"
	"sort"
	"strings"
	"sync/atomic"
	"syscall"
	"time"

	"github.com/itchio/headway/state"
	"github.com/itchio/wharf/pwr"
	"github.com/itchio/wharf/wire"

	"verif/harness/lib"
)

func init() { register("C16", runC16) }

// ---------- scenario ----------

type c16Scn struct {
	Shape    string `json:"shape"`    // build shape
	N        int    `json:"n"`        // size parameter of the shape
	Damage   string `json:"damage"`   // see c16Damage
	Consumer string `json:"consumer"` // guardian|writer|writer-badpath|writer-limit|printer|printer-slow|healer|healer-noarchive|healer-corrupt
	Cancel   string `json:"cancel"`   // none|before|timer|progress|message|lastprogress
	CancelK  int    `json:"cancelK"`  // microseconds for timer, call count for progress/message
	Procs    int    `json:"procs"`    // GOMAXPROCS
	FailN    int    `json:"failN"`    // writer-limit: the WoundsWriter's n-th write of a wound fails (file size limit)
}

func (s c16Scn) failFast() bool { return s.Consumer == "guardian" }

// c16Shape builds the signed build of a shape.
func c16Shape(shape string, n int) *lib.Build {
	b := &lib.Build{}
	file := func(p string, data []byte) {
		b.Entries = append(b.Entries, lib.Entry{Path: p, Kind: "file", Data: data})
	}
	dir := func(p string) { b.Entries = append(b.Entries, lib.Entry{Path: p, Kind: "dir"}) }
	link := func(p, d string) { b.Entries = append(b.Entries, lib.Entry{Path: p, Kind: "link", Dest: d}) }
	switch shape {
	case "files": // n one-byte files in 10 directories: one block marker / wound per file
		for d := 0; d < 10 && d < n; d++ {
			dir(fmt.Sprintf("d%d", d))
		}
		for i := 0; i < n; i++ {
			file(fmt.Sprintf("d%d/f%05d", i%10, i), []byte{byte(1 + i%200)})
		}
	case "dirs": // n empty directories and three files
		dir("e")
		for i := 0; i < n; i++ {
			dir(fmt.Sprintf("e/d%05d", i))
		}
		for i := 0; i < 3; i++ {
			file(fmt.Sprintf("f%d", i), []byte{byte(7 + i), 2, 3})
		}
	case "links": // n symlinks and three files
		dir("l")
		for i := 0; i < 3; i++ {
			file(fmt.Sprintf("f%d", i), []byte{byte(9 + i), 2, 3})
		}
		for i := 0; i < n; i++ {
			link(fmt.Sprintf("l/s%05d", i), "../f0")
		}
	case "blocks": // n files of several 64 KiB blocks: several markers per file through the relay
		sizes := []int{3*lib.BS + 17, 0, 1, lib.BS, lib.BS + 1, 5 * lib.BS, 2 * lib.BS, 100}
		for i := 0; i < n; i++ {
			sz := sizes[i%len(sizes)]
			data := make([]byte, sz)
			for j := range data {
				data[j] = byte((j/lib.BS)*37 + i*11 + 1)
			}
			file(fmt.Sprintf("b%03d.bin", i), data)
		}
	case "mixed": // n files, n dirs, n links (each below the channel size, together above it when n > 342)
		dir("m")
		dir("m/d")
		dir("m/l")
		for i := 0; i < n; i++ {
			file(fmt.Sprintf("m/f%05d", i), []byte{byte(1 + i%100), byte(i % 7)})
			dir(fmt.Sprintf("m/d/x%05d", i))
			link(fmt.Sprintf("m/l/s%05d", i), "../f00000")
		}
	case "bigfile": // one file of n full 64 KiB blocks + 17 bytes (n > 1024: more block markers from ONE file than
		// the wound channel holds, all of them through the per-file relay), followed by a small file
		data := make([]byte, n*lib.BS+17)
		for blk := 0; blk*lib.BS < len(data); blk++ {
			end := (blk + 1) * lib.BS
			if end > len(data) {
				end = len(data)
			}
			v := byte(blk*37 + 1)
			for j := blk * lib.BS; j < end; j++ {
				data[j] = v
			}
		}
		file("a-big.bin", data)
		file("z-small.bin", bytes.Repeat([]byte{5, 6, 7, 8}, 25))
	case "sizes": // one file per size class around the block size, zero-length files first / middle / last / in a dir
		c16SizesShape(b)
	case "empty":
	}
	sort.Slice(b.Entries, func(i, j int) bool { return b.Entries[i].Path < b.Entries[j].Path })
	return b
}

// c16Damage derives the on-disk tree from the signed build. lastFile / firstFile are the
// paths of the last / first file of the container (validation order), files all of them.
func c16Damage(signed *lib.Build, damage, firstFile, lastFile string, files []string) (tree *lib.Build, writeRoot bool) {
	t := signed.Clone()
	if o, ok := c16ParseOne(damage); ok { // one file damaged, everything else intact (c16_onefile.go)
		if o.idx >= 0 && o.idx < len(files) {
			c16ApplyOne(t, files[o.idx], o)
		}
		return t, true
	}
	mod := func(kind string, f func(e *lib.Entry) *lib.Entry) {
		var out []lib.Entry
		for i := range t.Entries {
			e := t.Entries[i]
			if e.Kind == kind {
				if r := f(&e); r != nil {
					out = append(out, *r)
				}
				continue
			}
			out = append(out, e)
		}
		t.Entries = out
	}
	flip := func(e *lib.Entry) *lib.Entry {
		if len(e.Data) == 0 {
			e.Data = []byte{42}
		} else {
			e.Data[len(e.Data)-1] ^= 0x55
		}
		return e
	}
	only := func(p string, f func(e *lib.Entry) *lib.Entry) func(e *lib.Entry) *lib.Entry {
		return func(e *lib.Entry) *lib.Entry {
			if e.Path == p {
				return f(e)
			}
			return e
		}
	}
	drop := func(e *lib.Entry) *lib.Entry { return nil }
	trunc := func(e *lib.Entry) *lib.Entry {
		if len(e.Data) == 0 {
			e.Data = []byte{1}
		} else {
			e.Data = e.Data[:len(e.Data)/2]
		}
		return e
	}
	grow := func(e *lib.Entry) *lib.Entry { e.Data = append(e.Data, 9); return e }
	leafDir := func(e *lib.Entry) bool { // a directory nothing lives in
		for _, x := range signed.Entries {
			if strings.HasPrefix(x.Path, e.Path+"/") {
				return false
			}
		}
		return true
	}
	switch damage {
	case "none":
	case "files-flip":
		mod("file", flip)
	case "files-missing":
		mod("file", drop)
	case "files-short":
		mod("file", trunc)
	case "files-long":
		mod("file", grow)
	case "files-asdir":
		mod("file", func(e *lib.Entry) *lib.Entry { return &lib.Entry{Path: e.Path, Kind: "dir"} })
	case "last-flip":
		mod("file", only(lastFile, flip))
	case "last-missing":
		mod("file", only(lastFile, drop))
	case "last-short":
		mod("file", only(lastFile, trunc))
	case "first-flip":
		mod("file", only(firstFile, flip))
	case "firstblock-flip": // the FIRST block of the first file: everything after it in that file is healthy
		mod("file", only(firstFile, func(e *lib.Entry) *lib.Entry {
			if len(e.Data) == 0 {
				e.Data = []byte{42}
			} else {
				e.Data[0] ^= 0x55
			}
			return e
		}))
	case "blocks-alternate": // every even block of every file: wounds the aggregator cannot merge, a marker between any two
		mod("file", func(e *lib.Entry) *lib.Entry {
			for off := 0; off < len(e.Data); off += 2 * lib.BS {
				e.Data[off] ^= 0x55
			}
			return e
		})
	case "dirs-missing":
		mod("dir", func(e *lib.Entry) *lib.Entry {
			if leafDir(e) {
				return nil
			}
			return e
		})
	case "dirs-asfile":
		mod("dir", func(e *lib.Entry) *lib.Entry {
			if leafDir(e) {
				return &lib.Entry{Path: e.Path, Kind: "file", Data: []byte("x")}
			}
			return e
		})
	case "links-retarget":
		mod("link", func(e *lib.Entry) *lib.Entry { e.Dest = "elsewhere"; return e })
	case "links-missing":
		mod("link", drop)
	case "links-asfile":
		mod("link", func(e *lib.Entry) *lib.Entry { return &lib.Entry{Path: e.Path, Kind: "file", Data: []byte("y")} })
	case "everything":
		mod("file", flip)
		mod("link", func(e *lib.Entry) *lib.Entry { e.Dest = "elsewhere"; return e })
		mod("dir", func(e *lib.Entry) *lib.Entry {
			if leafDir(e) {
				return nil
			}
			return e
		})
	case "parent-asfile": // a directory with signed children replaced by a regular file (ENOTDIR below it)
		var top string
		for _, e := range signed.Entries {
			if e.Kind == "dir" && !leafDir(&e) {
				top = e.Path
				break
			}
		}
		if top != "" {
			t.Remove(top)
			t.Entries = append(t.Entries, lib.Entry{Path: top, Kind: "file", Data: []byte("z")})
		}
	case "root-missing":
		return t, false
	case "empties-filled", "cut-at-boundary":
		c16ApplyClass(t, damage)
	}
	return t, true
}

// c16Damaged is the independent validity judgement: some entry of the signed build is not
// present and equal in dir (extra entries do not matter to a signature).
func c16Damaged(dir string, signed *lib.Build) (bool, string) {
	for _, e := range signed.Entries {
		p := filepath.Join(dir, filepath.FromSlash(e.Path))
		st, err := os.Lstat(p)
		if err != nil {
			return true, "missing " + e.Path
		}
		switch e.Kind {
		case "dir":
			if !st.IsDir() {
				return true, e.Path + " is not a directory"
			}
		case "link":
			if st.Mode()&os.ModeSymlink == 0 {
				return true, e.Path + " is not a symlink"
			}
			d, err := os.Readlink(p)
			if err != nil || d != e.Dest {
				return true, e.Path + " points elsewhere"
			}
		case "file":
			if !st.Mode().IsRegular() {
				return true, e.Path + " is not a regular file"
			}
			d, err := os.ReadFile(p)
			if err != nil || string(d) != string(e.Data) {
				return true, e.Path + " content differs"
			}
		}
	}
	return false, ""
}

// c16Zip writes the signed build as a zip archive (the healer's source). Entries from index
// corruptFrom on (in file order) get one flipped data byte: reading them fails the CRC.
func c16Zip(path string, b *lib.Build, corruptFrom int) error {
	f, err := os.Create(path)
	if err != nil {
		return err
	}
	zw := zip.NewWriter(f)
	fi := 0
	for _, e := range b.Entries {
		switch e.Kind {
		case "dir":
			h := &zip.FileHeader{Name: e.Path + "/", Method: zip.Store}
			h.SetMode(os.ModeDir | 0o755)
			if _, err := zw.CreateHeader(h); err != nil {
				return err
			}
		case "link":
			h := &zip.FileHeader{Name: e.Path, Method: zip.Store}
			h.SetMode(os.ModeSymlink | 0o777)
			w, err := zw.CreateHeader(h)
			if err != nil {
				return err
			}
			w.Write([]byte(e.Dest))
		case "file":
			h := &zip.FileHeader{Name: e.Path, Method: zip.Store}
			h.SetMode(0o644)
			if corruptFrom >= 0 && fi >= corruptFrom && len(e.Data) > 0 {
				// raw entry whose recorded CRC does not match its bytes
				h.CRC32 = 0xdeadbeef
				h.CompressedSize64 = uint64(len(e.Data))
				h.UncompressedSize64 = uint64(len(e.Data))
				w, err := zw.CreateRaw(h)
				if err != nil {
					return err
				}
				w.Write(e.Data)
			} else {
				w, err := zw.CreateHeader(h)
				if err != nil {
					return err
				}
				w.Write(e.Data)
			}
			fi++
		}
	}
	if err := zw.Close(); err != nil {
		return err
	}
	return f.Close()
}

// ---------- one run ----------

type c16Obs struct {
	Class      string `json:"class"`      // ok | error | panic | hang
	Msg        string `json:"msg"`        // error text (not compared)
	Damaged    bool   `json:"damaged"`    // independent judgement before the call
	Why        string `json:"why"`        // first differing entry
	HasWounds  bool   `json:"hasWounds"`  // consumer saw a non-healthy wound
	Cancelled  bool   `json:"cancelled"`  // cancel() ran before Validate returned
	Leaked     int    `json:"leaked"`     // goroutines above the count before the call, after a grace period
	Progresses int64  `json:"progresses"` // OnProgress calls
	Messages   int64  `json:"messages"`   // OnMessage calls
	Millis     int64  `json:"millis"`
}

type c16Base struct {
	signed    *lib.Build
	sig       *pwr.SignatureInfo
	first     string
	last      string
	zipOK     string
	zipBad    string
	nFiles    int
	nDirs     int
	nLinks    int
	blocksPer []int    // number of 64 KiB blocks per file, container order
	paths     []string // file paths, container order
}

func c16Prepare(c *Ctx, shape string, n int) (*c16Base, error) {
	b := &c16Base{signed: c16Shape(shape, n)}
	dir := filepath.Join(c.Tmp, fmt.Sprintf("c16-base-%s-%d", shape, n))
	os.RemoveAll(dir)
	if err := b.signed.WriteTo(dir); err != nil {
		return nil, err
	}
	sig, err := lib.SignDir(dir)
	if err != nil {
		return nil, err
	}
	os.RemoveAll(dir)
	b.sig = sig
	b.nFiles, b.nDirs, b.nLinks = len(sig.Container.Files), len(sig.Container.Dirs), len(sig.Container.Symlinks)
	for _, f := range sig.Container.Files {
		b.blocksPer = append(b.blocksPer, int((f.Size+lib.BS-1)/lib.BS))
		b.paths = append(b.paths, f.Path)
	}
	if b.nFiles > 0 {
		b.first = sig.Container.Files[0].Path
		b.last = sig.Container.Files[b.nFiles-1].Path
	}
	b.zipOK = filepath.Join(c.Tmp, fmt.Sprintf("c16-%s-%d-ok.zip", shape, n))
	b.zipBad = filepath.Join(c.Tmp, fmt.Sprintf("c16-%s-%d-bad.zip", shape, n))
	return b, nil
}

const c16Deadline = 30 * time.Second

// c16Tree remembers what is on disk at the target so that consecutive cases over the same
// (shape, damage) reuse it; consumers that write into the target (healers) invalidate it.
type c16Tree struct {
	key     string
	damaged bool
	why     string
}

func c16Run(c *Ctx, b *c16Base, s c16Scn, target string, cur *c16Tree) (*c16Obs, error) {
	key := fmt.Sprintf("%s-%d-%s", s.Shape, s.N, s.Damage)
	if cur.key != key {
		tree, writeRoot := c16Damage(b.signed, s.Damage, b.first, b.last, b.paths)
		os.RemoveAll(target)
		if writeRoot {
			if err := tree.WriteTo(target); err != nil {
				return nil, err
			}
		}
		// the independent validity judgement, made before any call
		cur.damaged, cur.why = c16Damaged(target, b.signed)
		cur.key = key
	}
	if strings.HasPrefix(s.Consumer, "healer") {
		cur.key = "" // the healer rewrites the target
	}
	o := &c16Obs{Damaged: cur.damaged, Why: cur.why}

	vctx := &pwr.ValidatorContext{}
	pww := filepath.Join(c.Tmp, "c16-wounds.pww")
	os.Remove(pww)
	switch s.Consumer {
	case "guardian":
		vctx.FailFast = true
	case "writer":
		vctx.WoundsPath = pww
	case "writer-badpath":
		vctx.WoundsPath = filepath.Join(c.Tmp, "c16-no-such-dir", "w.pww")
	case "writer-limit":
		vctx.WoundsPath = pww
	case "healer":
		if _, err := os.Stat(b.zipOK); err != nil {
			if err := c16Zip(b.zipOK, b.signed, -1); err != nil {
				return nil, err
			}
		}
		vctx.HealPath = "archive," + b.zipOK
	case "healer-noarchive":
		vctx.HealPath = "archive," + filepath.Join(c.Tmp, "c16-no-such.zip")
	case "healer-corrupt":
		if _, err := os.Stat(b.zipBad); err != nil {
			if err := c16Zip(b.zipBad, b.signed, 2); err != nil {
				return nil, err
			}
		}
		vctx.HealPath = "archive," + b.zipBad
	}

	ctx, cancel := context.WithCancel(context.Background())
	defer cancel()
	var cancelled, returned int32
	doCancel := func() {
		if atomic.LoadInt32(&returned) == 0 {
			atomic.StoreInt32(&cancelled, 1)
		}
		cancel()
	}
	var nProg, nMsg int64
	vctx.Consumer = &state.Consumer{
		OnProgress: func(p float64) {
			k := atomic.AddInt64(&nProg, 1)
			if s.Cancel == "progress" && k == int64(s.CancelK) {
				doCancel()
			}
			if s.Cancel == "lastprogress" && p >= 1.0 {
				doCancel()
			}
		},
		OnMessage: func(lvl, msg string) {
			k := atomic.AddInt64(&nMsg, 1)
			if s.Cancel == "message" && k == int64(s.CancelK) {
				doCancel()
			}
			if s.Consumer == "printer-slow" { // ~30 microseconds of work per message: the channel fills up
				for t := time.Now(); time.Since(t) < 30*time.Microsecond; {
				}
			}
		},
	}
	if s.Cancel == "before" {
		doCancel()
	}
	old := runtime.GOMAXPROCS(s.Procs)
	defer runtime.GOMAXPROCS(old)
	g0 := runtime.NumGoroutine()
	var timer *time.Timer
	if s.Cancel == "timer" {
		timer = time.AfterFunc(time.Duration(s.CancelK)*time.Microsecond, doCancel)
	}
	if s.Consumer == "writer-limit" {
		// the .pww file may grow to exactly the bytes before the FailN-th wound: that write fails
		// with EFBIG, i.e. the consumer returns an error after FailN-1 wounds were written
		restore, err := c16LimitFileSize(c16WoundsPrefix(b, s))
		if err != nil {
			return nil, err
		}
		defer restore()
	}
	t0 := time.Now()
	o.Class, o.Msg = lib.WithDeadline(c16Deadline, func() error {
		err := vctx.Validate(ctx, target, b.sig)
		atomic.StoreInt32(&returned, 1)
		return err
	})
	o.Millis = time.Since(t0).Milliseconds()
	if timer != nil {
		timer.Stop()
	}
	o.Cancelled = atomic.LoadInt32(&cancelled) == 1
	o.Progresses, o.Messages = atomic.LoadInt64(&nProg), atomic.LoadInt64(&nMsg)
	if len(o.Msg) > 200 {
		o.Msg = o.Msg[:200]
	}
	if o.Class != "hang" {
		if vctx.WoundsConsumer != nil {
			o.HasWounds = vctx.WoundsConsumer.HasWounds()
		}
		// goroutines of this call must be gone (grace period: they may still be unwinding)
		for i := 0; i < 150; i++ {
			if runtime.NumGoroutine() <= g0 {
				break
			}
			time.Sleep(2 * time.Millisecond)
		}
		if n := runtime.NumGoroutine() - g0; n > 0 {
			o.Leaked = n
		}
	}
	os.Remove(pww)
	return o, nil
}

// c16WoundsPrefix is the size of the wounds file up to and excluding the FailN-th wound, for the
// two trees whose wound sequence is known in advance (every one-byte file flipped: FILE wound
// [0,1) of file i, in order; every leaf directory missing: DIR wound i).
func c16WoundsPrefix(b *c16Base, s c16Scn) int64 {
	var buf bytes.Buffer
	wc := wire.NewWriteContext(&buf)
	wc.WriteMagic(pwr.WoundsMagic)
	wc.WriteMessage(&pwr.WoundsHeader{})
	wc.WriteMessage(b.sig.Container)
	k := 0
	emit := func(w *pwr.Wound) bool {
		k++
		if k >= s.FailN {
			return false
		}
		wc.WriteMessage(w)
		return true
	}
	switch s.Damage {
	case "files-flip":
		for i := range b.sig.Container.Files {
			if !emit(&pwr.Wound{Kind: pwr.WoundKind_FILE, Index: int64(i), Start: 0, End: 1}) {
				break
			}
		}
	case "dirs-missing":
		for i, d := range b.sig.Container.Dirs {
			leaf := true
			for _, x := range b.signed.Entries {
				if strings.HasPrefix(x.Path, d.Path+"/") {
					leaf = false
					break
				}
			}
			if leaf && !emit(&pwr.Wound{Kind: pwr.WoundKind_DIR, Index: int64(i)}) {
				break
			}
		}
	}
	return int64(buf.Len())
}

// c16LimitFileSize sets the soft RLIMIT_FSIZE of the process (SIGXFSZ ignored, so writes past
// the limit return EFBIG); the returned function restores it. Nothing else writes files while
// Validate runs.
func c16LimitFileSize(n int64) (func(), error) {
	var old syscall.Rlimit
	if err := syscall.Getrlimit(syscall.RLIMIT_FSIZE, &old); err != nil {
		return nil, err
	}
	signal.Ignore(syscall.SIGXFSZ)
	if err := syscall.Setrlimit(syscall.RLIMIT_FSIZE, &syscall.Rlimit{Cur: uint64(n), Max: old.Max}); err != nil {
		return nil, err
	}
	return func() { syscall.Setrlimit(syscall.RLIMIT_FSIZE, &old) }, nil
}

// c16Oracle restates the property on the observation.
func c16Oracle(s c16Scn, o *c16Obs) string {
	switch {
	case o.Class == "hang":
		return fmt.Sprintf("Validate did not return within %s (caller blocked): %s/%s consumer=%s cancel=%s", c16Deadline, s.Shape, s.Damage, s.Consumer, s.Cancel)
	case o.Class == "panic":
		return "Validate panicked: " + o.Msg
	case s.failFast() && o.Class == "ok" && o.Damaged:
		return fmt.Sprintf("false valid: fail-fast Validate returned nil but the directory does not match the signature (%s; cancel=%s, cancelled before return=%v)", o.Why, s.Cancel, o.Cancelled)
	}
	return ""
}

// ---------- abstraction to the protocol model ----------

// scale maps a Go count to the model's scale (capacity 2 stands for 1024): 0, 1, 2 stay,
// counts up to the channel capacity become 2, counts above it become capacity+2 = 4.
func c16Scale(n int) int {
	switch {
	case n <= 2:
		return n
	case n <= 1024:
		return 2
	default:
		return 4
	}
}

// c16Abstract prints the scenario as a term of type Exec.C16.scen:
// mkscen cap pre startfail files consumer ctx0 maycancel
func c16Abstract(b *c16Base, s c16Scn) string {
	leafDirs := 0
	for _, e := range b.signed.Entries {
		if e.Kind == "dir" {
			leaf := true
			for _, x := range b.signed.Entries {
				if strings.HasPrefix(x.Path, e.Path+"/") {
					leaf = false
					break
				}
			}
			if leaf {
				leafDirs++
			}
		}
	}
	healer := strings.HasPrefix(s.Consumer, "healer")
	// dir/symlink pass: every wound of it is sent before any file is looked at
	pre := 0
	preErr := false
	switch s.Damage {
	case "dirs-missing", "dirs-asfile":
		pre = leafDirs
	case "links-retarget", "links-missing", "links-asfile":
		pre = b.nLinks
	case "everything":
		pre = leafDirs + b.nLinks
	case "root-missing":
		if !healer { // the healer creates the root first
			pre = b.nDirs + b.nLinks
		}
	case "parent-asfile":
		// the directory itself is a wound; since the C06 repairs (ENOTDIR is "missing", a wounded
		// directory hides what is below it) the entries below it are wounds too, not an early return
		pre, preErr = 1, false
		if b.nDirs == 0 {
			pre = 0
		}
	}
	var preItems []string
	for i := 0; i < c16Scale(pre); i++ {
		preItems = append(preItems, "PWound")
	}
	if preErr {
		preItems = append(preItems, "PErr")
	}
	// per-file behaviour of doOne, container order
	one, isOne := c16ParseOne(s.Damage)
	kind := func(i int) string {
		blocks := b.blocksPer[i]
		if isOne && i == one.idx {
			return c16OneModel(blocks, b.sig.Container.Files[i].Size, one)
		}
		first, last := i == 0, i == b.nFiles-1
		hb := blocks
		if hb > 3 {
			hb = 3
		}
		healthy := fmt.Sprintf("(fdata %d false FMNone)", hb)
		bad := func(short bool) string {
			h := blocks - 1
			if h < 0 {
				h = 0
			}
			if h > 2 { // the relay sees "several" markers before the bad one
				h = 2
			}
			mid := "FMNone"
			if short || blocks == 0 {
				mid = "FMShort"
			}
			return fmt.Sprintf("(fdata %d true %s)", h, mid)
		}
		switch s.Damage {
		case "files-flip", "everything":
			return bad(false)
		case "files-short":
			if blocks == 1 && b.sig.Container.Files[i].Size == 1 {
				return "(fdata 0 false FMShort)" // truncated to nothing: only the size wound
			}
			return bad(true)
		case "files-long":
			return bad(true)
		case "files-missing", "files-asdir", "root-missing":
			return "fwhole"
		case "last-flip":
			if last {
				return bad(false)
			}
		case "last-missing":
			if last {
				return "fwhole"
			}
		case "last-short":
			if last {
				if blocks == 1 && b.sig.Container.Files[i].Size == 1 {
					return "(fdata 0 false FMShort)"
				}
				return bad(true)
			}
		case "first-flip":
			if first {
				return bad(false)
			}
		case "firstblock-flip":
			if first {
				if blocks <= 1 {
					return bad(false)
				}
				// the bad block first, then "several" healthy markers (more than the scaled capacity when
				// the file has more blocks than the channel holds)
				ms := []string{"FBad false false"}
				for k := 0; k < hb && k < blocks-1; k++ {
					ms = append(ms, "FHealthy")
				}
				return fmt.Sprintf("(FData %s FMNone [])", lib.CoqList(ms))
			}
		case "blocks-alternate":
			switch {
			case blocks == 0:
				return healthy
			case blocks == 1:
				return bad(false)
			}
			var ms []string
			for k := 0; k < blocks && k < 4; k++ {
				if k%2 == 0 {
					ms = append(ms, "FBad false false")
				} else {
					ms = append(ms, "FHealthy")
				}
			}
			return fmt.Sprintf("(FData %s FMNone [])", lib.CoqList(ms))
		case "empties-filled":
			if blocks == 0 {
				return bad(true)
			}
		case "cut-at-boundary":
			if sz := b.sig.Container.Files[i].Size; sz > lib.BS {
				k := int((sz - 1) / lib.BS)
				if k > 2 {
					k = 2
				}
				return fmt.Sprintf("(fdata %d false FMShort)", k)
			}
		}
		return healthy
	}
	var files []string
	n := b.nFiles
	m := c16Scale(n)
	var idxs []int
	for j := 0; j < m; j++ { // model file j stands for Go file: first, some middle ones, last
		i := j
		if j == m-1 {
			i = n - 1
		} else if i > n-2 {
			i = n - 2
		}
		if i < 0 {
			i = 0
		}
		idxs = append(idxs, i)
	}
	if c16Confined(s.Damage) {
		// damage confined to one file / one class of files: the first damaged file must be one of the
		// model's files (in its place: what matters is whether files come before and after it)
		healthyKind := func(i int) string {
			hb := b.blocksPer[i]
			if hb > 3 {
				hb = 3
			}
			return fmt.Sprintf("(fdata %d false FMNone)", hb)
		}
		has, firstBad := false, -1
		for i := 0; i < n && firstBad < 0; i++ {
			if kind(i) != healthyKind(i) {
				firstBad = i
			}
		}
		for _, i := range idxs {
			if kind(i) != healthyKind(i) {
				has = true
			}
		}
		if !has && firstBad >= 0 {
			idxs = append(idxs, firstBad)
			sort.Ints(idxs)
		}
	}
	for _, i := range idxs {
		files = append(files, kind(i))
	}
	if s.Consumer == "writer-limit" {
		w := b.nFiles // number of wounds of the tree
		if s.Damage == "dirs-missing" {
			w = leafDirs
		}
		n := c16Scale(w) + 1 // never reached
		if s.FailN <= w {
			n = s.FailN
			if n > 2 {
				n = 2
				if s.FailN > 1024 {
					n = 3
				}
			}
			if n > c16Scale(w) || s.FailN == w {
				n = c16Scale(w)
			}
		}
		return fmt.Sprintf("(mkscen 2 %s false %s (CKFailAtBad %d) %s %s)", lib.CoqList(preItems), lib.CoqList(files), n,
			lib.CoqBool(s.Cancel == "before"), lib.CoqBool(s.Cancel != "none" && s.Cancel != "before"))
	}
	cons := map[string]string{"guardian": "CKGuardian", "writer": "CKQuiet", "printer": "CKQuiet", "printer-slow": "CKQuiet",
		"writer-badpath": "CKFailOnBad", "healer": "(CKHealer None)", "healer-noarchive": "(CKHealer (Some 1))", "healer-corrupt": "(CKHealer (Some 1))"}[s.Consumer]
	return fmt.Sprintf("(mkscen 2 %s %s %s %s %s %s)", lib.CoqList(preItems), lib.CoqBool(s.Damage == "root-missing" && !healer),
		lib.CoqList(files), cons, lib.CoqBool(s.Cancel == "before"), lib.CoqBool(s.Cancel != "none" && s.Cancel != "before"))
}

func boolInt(b bool) int {
	if b {
		return 1
	}
	return 0
}

// ---------- generation ----------

func runC16(c *Ctx) error {
	r := c.Rng.Fork()
	bases := map[string]*c16Base{}
	base := func(shape string, n int) (*c16Base, error) {
		k := fmt.Sprintf("%s-%d", shape, n)
		if b, ok := bases[k]; ok {
			return b, nil
		}
		b, err := c16Prepare(c, shape, n)
		if err != nil {
			return nil, err
		}
		bases[k] = b
		return b, nil
	}
	target := filepath.Join(c.Tmp, "c16-target")
	defer func() {
		os.RemoveAll(target)
		for _, b := range bases {
			os.Remove(b.zipOK)
			os.Remove(b.zipBad)
		}
	}()
	hung := false
	cur := &c16Tree{}
	emit := func(s c16Scn, corpus string) error {
		if hung {
			return nil
		}
		b, err := base(s.Shape, s.N)
		if err != nil {
			return err
		}
		o, err := c16Run(c, b, s, target, cur)
		if err != nil {
			return err
		}
		oracle := c16Oracle(s, o)
		if o.Class == "hang" {
			hung = true // leaked goroutines: later measurements would not be trustworthy
		}
		cls := fmt.Sprintf("%s/%s/%s/%s", s.Shape, s.Damage, s.Consumer, s.Cancel)
		if one, ok := c16ParseOne(s.Damage); ok && one.idx < b.nFiles {
			cls = fmt.Sprintf("%s/%s/%s/%s", s.Shape, c16OneClass(one, int(b.sig.Container.Files[one.idx].Size), one.idx, b.nFiles), s.Consumer, s.Cancel)
		}
		if corpus != "" {
			cls = "corpus:" + corpus
		}
		total := b.nFiles + b.nDirs + b.nLinks
		for _, nb := range b.blocksPer {
			total += nb // one channel message (marker or wound) per block at most
		}
		cs := &lib.Case{Group: "proto", Class: cls,
			Nontrivial: (o.Damaged && (s.Cancel != "none" || total > 1024 || strings.HasPrefix(s.Damage, "last") || c16Confined(s.Damage))) ||
				(total > 1024 && s.Cancel != "none"),
			Input: s, Obs: o, Oracle: oracle,
			Coq: fmt.Sprintf("($ID%%N, %s, %s)", c16Abstract(b, s), map[string]string{"ok": "ONil", "error": "OErr", "panic": "OPanic", "hang": "OHang"}[o.Class])}
		c.Out.Emit(cs)
		return nil
	}

	// corpus: inputs that failed before (defect #3 of DESIGN section 7, fixed in the repo) and
	// the inputs that caught the seeded mutants, first on every run
	corpus := []struct {
		name string
		s    c16Scn
	}{
		{"guardian-cancelled-before/files-flip", c16Scn{"files", 40, "files-flip", "guardian", "before", 0, 4, 0}},
		{"guardian-cancelled-before/last-flip", c16Scn{"files", 1100, "last-flip", "guardian", "before", 0, 1, 0}},
		{"last-file-only", c16Scn{"files", 1100, "last-flip", "guardian", "none", 0, 16, 0}},
		{"guardian-cancelled-before/dirs-missing", c16Scn{"dirs", 1200, "dirs-missing", "guardian", "before", 0, 4, 0}},
		{"drain/1200-dir-wounds-guardian", c16Scn{"dirs", 1200, "dirs-missing", "guardian", "none", 0, 1, 0}},
		{"guardian-cancelled-mid/files-missing", c16Scn{"files", 1100, "files-missing", "guardian", "progress", 700, 4, 0}},
		{"drain/1100-wounds-guardian", c16Scn{"files", 1100, "files-flip", "guardian", "none", 0, 4, 0}},
		{"drain/1200-link-wounds-badpath", c16Scn{"links", 1200, "links-retarget", "writer-badpath", "none", 0, 4, 0}},
		{"rearm/worker-error-root-missing", c16Scn{"files", 40, "root-missing", "writer", "none", 0, 4, 0}},
		{"rearm/consumer-error-early", c16Scn{"files", 1100, "first-flip", "guardian", "none", 0, 1, 0}},
		{"writer-fails-after-1024-wounds", c16Scn{Shape: "files", N: 1100, Damage: "files-flip", Consumer: "writer-limit", Cancel: "none", Procs: 4, FailN: 1025}},
		{"writer-fails-at-last-wound", c16Scn{Shape: "files", N: 1100, Damage: "files-flip", Consumer: "writer-limit", Cancel: "none", Procs: 16, FailN: 1100}},
		{"writer-limit-never-reached", c16Scn{Shape: "files", N: 1100, Damage: "files-flip", Consumer: "writer-limit", Cancel: "none", Procs: 4, FailN: 1101}},
		{"writer-limit-never-reached-dirs", c16Scn{Shape: "dirs", N: 1200, Damage: "dirs-missing", Consumer: "writer-limit", Cancel: "none", Procs: 4, FailN: 1201}},
		{"writer-fails-at-last-dir-wound", c16Scn{Shape: "dirs", N: 1200, Damage: "dirs-missing", Consumer: "writer-limit", Cancel: "none", Procs: 4, FailN: 1200}},
		{"writer-fails-at-5th-dir-wound", c16Scn{Shape: "dirs", N: 1200, Damage: "dirs-missing", Consumer: "writer-limit", Cancel: "none", Procs: 1, FailN: 5}},
		{"early-return/parent-asfile", c16Scn{"mixed", 420, "parent-asfile", "writer", "none", 0, 4, 0}},
		{"zero-files/worker-error-after-loop", c16Scn{"empty", 0, "root-missing", "guardian", "none", 0, 4, 0}},
		// seeded C16-1 (drain only after a consumer ERROR): a consumer that returned nil on a cancelled context
		{"nil-early/writer-cancelled-before-1200-dir-wounds", c16Scn{"dirs", 1200, "dirs-missing", "writer", "before", 0, 4, 0}},
		{"nil-early/printer-cancelled-before-1200-link-wounds", c16Scn{"links", 1200, "links-retarget", "printer", "before", 0, 1, 0}},
		{"nil-early/printer-cancelled-at-the-5th-message", c16Scn{"links", 1200, "links-retarget", "printer", "message", 5, 16, 0}},
		// seeded C16-6 (the healer's Do blocks in its own deferred join once the heal goroutine's only error was
		// already received by the FILE-wound select): a healer whose heal goroutine fails at once, many
		// wounded files still to come
		{"healer/archive-missing-40-wounded-files", c16Scn{"files", 40, "files-flip", "healer-noarchive", "none", 0, 4, 0}},
		{"healer/archive-corrupt-40-missing-files", c16Scn{"files", 40, "files-missing", "healer-corrupt", "none", 0, 1, 0}},
		{"healer/archive-missing-1100-wounded-files", c16Scn{"files", 1100, "files-flip", "healer-noarchive", "none", 0, 16, 0}},
	}
	for _, x := range corpus {
		if err := emit(x.s, x.name); err != nil {
			return err
		}
	}
	// seeded C16-8 / C16-9 (a false 'valid' that needs a tree whose ONLY defect is a zero-length file
	// with content / a file cut exactly at a block boundary), then the one-file sweep: every file of
	// the 'sizes' build x every way it can stop matching (c16_onefile.go), fail-fast, nothing else wrong
	if c.Tier != "search" {
		sz, err := base("sizes", 1)
		if err != nil {
			return err
		}
		idxOf := func(p string) int {
			for i, q := range sz.paths {
				if q == p {
					return i
				}
			}
			return 0
		}
		for _, x := range []struct{ name, path, dmg string }{
			{"one-file/zero-length-file-has-content", "m-empty", "grow:1"},
			{"one-file/cut-at-a-block-boundary", "b06", fmt.Sprintf("cut:%d", 2*lib.BS)},
			{"one-file/cut-at-a-block-boundary-of-an-exact-multiple", "n08", fmt.Sprintf("cut:%d", 4*lib.BS)},
		} {
			s := c16Scn{Shape: "sizes", N: 1, Damage: fmt.Sprintf("one:%d:%s", idxOf(x.path), x.dmg), Consumer: "guardian", Cancel: "none", Procs: 4}
			if err := emit(s, x.name); err != nil {
				return err
			}
		}
		k := 0
		for i := range sz.paths {
			for _, d := range c16OneDamages(int(sz.sig.Container.Files[i].Size)) {
				for rep := 0; rep < 1 || (c.Thorough() && rep < 3); rep++ { // thorough: every GOMAXPROCS value
					s := c16Scn{Shape: "sizes", N: 1, Damage: fmt.Sprintf("one:%d:%s", i, d), Consumer: "guardian", Cancel: "none", Procs: []int{4, 1, 16}[(k+rep)%3]}
					if err := emit(s, ""); err != nil {
						return err
					}
				}
				k++
			}
		}
		for _, d := range []string{"empties-filled", "cut-at-boundary"} {
			if err := emit(c16Scn{Shape: "sizes", N: 1, Damage: d, Consumer: "guardian", Cancel: "none", Procs: 4}, ""); err != nil {
				return err
			}
		}
	}

	// nil-early sweep, on every run: a consumer that returns NIL before the channel is closed (the
	// writer and the printer do when they notice a cancelled context) or an error (guardian, writer
	// that cannot write) x a producer that still has more than 1024 messages to send at that moment,
	// for every kind of producer: the directory pass and the symlink pass of the main goroutine
	// (before the worker exists, `cancelled` cannot be closed yet), and the per-file relay of ONE file
	// of more than 1024 blocks (healthy markers, or wounds the aggregator cannot merge) x the
	// cancellation instants that exist there: before the call, at the k-th message (printer: after
	// its k-th wound; symlink pass: main's own Debugf before the k-th wound), at the k-th progress
	// callback inside the big file, timer. Cases of one tree are consecutive (the tree is reused).
	type swRun struct {
		cons, cancel string
		k            int
	}
	type swTree struct {
		shape  string
		n      int
		damage string
		runs   []swRun
	}
	sweep := []swTree{
		{"dirs", 2400, "dirs-missing", []swRun{{"writer", "before", 0}, {"printer", "before", 0}, {"printer-slow", "before", 0},
			{"printer", "message", 1}, {"printer", "message", 5}, {"printer-slow", "message", 1025}, {"writer", "timer", 0},
			{"guardian", "none", 0}, {"writer-badpath", "none", 0}}},
		{"dirs", 2400, "parent-asfile", []swRun{{"writer", "before", 0}, {"printer", "message", 2}}},
		{"dirs", 2400, "root-missing", []swRun{{"printer", "before", 0}, {"printer-slow", "message", 3}}},
		{"dirs", 1025, "dirs-missing", []swRun{{"writer", "before", 0}, {"printer", "before", 0}}},
		{"links", 2200, "links-retarget", []swRun{{"writer", "before", 0}, {"printer", "before", 0}, {"writer", "message", 1},
			{"writer", "message", 1025}, {"printer", "message", 5}, {"writer", "timer", 50}}},
		{"links", 2200, "links-missing", []swRun{{"writer", "before", 0}, {"writer", "message", 2}, {"printer-slow", "message", 100}}},
		{"links", 2200, "links-asfile", []swRun{{"printer", "before", 0}, {"writer", "message", 5}}},
		{"bigfile", 1100, "none", []swRun{{"writer", "progress", 1}, {"printer", "progress", 3}, {"printer-slow", "progress", 2},
			{"writer", "progress", 1000}, {"guardian", "progress", 3}, {"writer", "before", 0}, {"writer", "lastprogress", 0}}},
		{"bigfile", 1100, "firstblock-flip", []swRun{{"guardian", "none", 0}, {"writer-badpath", "none", 0}, {"printer", "progress", 5},
			{"guardian", "before", 0}}},
		{"bigfile", 1100, "blocks-alternate", []swRun{{"writer", "none", 0}, {"writer", "progress", 10}, {"printer", "message", 3},
			{"guardian", "none", 0}}},
	}
	if c.Thorough() {
		sweep = append(sweep,
			swTree{"mixed", 1100, "everything", []swRun{{"writer", "before", 0}, {"printer", "message", 1030}, {"writer", "message", 7}}},
			swTree{"dirs", 1024, "dirs-missing", []swRun{{"writer", "before", 0}, {"printer", "message", 1}}},
			swTree{"dirs", 5000, "dirs-asfile", []swRun{{"writer", "before", 0}, {"printer", "message", 2048}, {"writer", "timer", 200}}},
			swTree{"links", 5000, "everything", []swRun{{"writer", "message", 2049}, {"printer-slow", "message", 1}}},
			swTree{"bigfile", 2100, "blocks-alternate", []swRun{{"writer", "progress", 1}, {"printer", "message", 1}, {"guardian", "none", 0},
				{"writer-badpath", "none", 0}}},
			swTree{"bigfile", 2100, "files-short", []swRun{{"writer", "progress", 7}, {"guardian", "none", 0}}},
		)
	}
	reps := 1
	if c.Thorough() {
		reps = 3 // every GOMAXPROCS value for every case
	}
	if c.Tier != "search" {
		swi := 0
		for _, t := range sweep {
			for _, x := range t.runs {
				for rep := 0; rep < reps; rep++ {
					s := c16Scn{Shape: t.shape, N: t.n, Damage: t.damage, Consumer: x.cons, Cancel: x.cancel, CancelK: x.k,
						Procs: []int{4, 1, 16}[(swi+rep)%3]}
					if err := emit(s, ""); err != nil {
						return err
					}
				}
				swi++
			}
		}
		for k, b := range bases { // 70-140 MB each: do not keep them
			if strings.HasPrefix(k, "bigfile-") && b.nFiles > 0 {
				delete(bases, k)
			}
		}
	}

	type shp struct {
		shape string
		n     int
	}
	shapes := []shp{{"files", 1100}, {"files", 1100}, {"dirs", 1200}, {"links", 1200}, {"mixed", 420}, {"blocks", 8}, {"files", 40}, {"files", 2}, {"files", 1}, {"empty", 0},
		{"dirs", 2400}, {"links", 2200}, {"sizes", 1}, {"sizes", 1}}
	if c.Thorough() { // (a bigfile tree is 70 MB to write and read back: quick runs have it in the sweep only)
		shapes = append(shapes, shp{"bigfile", 1100}, shp{"files", 1500}, shp{"files", 3000}, shp{"mixed", 1100}, shp{"blocks", 40}, shp{"files", 1025}, shp{"dirs", 1024})
	}
	damagesFor := map[string][]string{
		"files":   {"none", "files-flip", "files-missing", "files-short", "files-long", "files-asdir", "last-flip", "last-missing", "last-short", "first-flip", "root-missing", "one-random"},
		"dirs":    {"none", "dirs-missing", "dirs-asfile", "last-flip", "root-missing", "everything", "parent-asfile"},
		"links":   {"none", "links-retarget", "links-missing", "links-asfile", "last-missing", "root-missing", "everything"},
		"mixed":   {"none", "everything", "files-flip", "dirs-missing", "links-retarget", "links-missing", "last-flip", "root-missing", "parent-asfile", "one-random"},
		"blocks":  {"none", "files-flip", "files-short", "files-long", "files-missing", "last-flip", "last-short", "first-flip", "firstblock-flip", "blocks-alternate", "one-random", "one-random", "empties-filled", "cut-at-boundary"},
		"bigfile": {"none", "files-flip", "files-short", "files-long", "files-missing", "last-flip", "first-flip", "firstblock-flip", "blocks-alternate", "one-random", "cut-at-boundary"},
		"sizes":   {"none", "one-random", "one-random", "one-random", "one-random", "empties-filled", "cut-at-boundary", "files-flip", "files-short", "files-long", "last-missing", "root-missing"},
		"empty":   {"none", "root-missing"},
	}
	// consumers that do not write into the target first, so that one tree serves the group
	consumers := []string{"guardian", "guardian", "guardian", "writer", "printer", "printer-slow", "writer-badpath"}
	healers := []string{"healer", "healer-noarchive", "healer-corrupt"}
	cancels := []string{"none", "none", "before", "timer", "progress", "message", "lastprogress"}
	procs := []int{1, 4, 16}
	trees := c.N(20, 300)
	if c.Tier == "search" { // after a correspondence break: a different seed, moderately more cases
		trees = 40
	}
	for t := 0; t < trees && !hung; t++ {
		tr := r.Fork()
		sh := shapes[tr.Intn(len(shapes))]
		ds := damagesFor[sh.shape]
		damage := ds[tr.Intn(len(ds))]
		if damage == "one-random" { // one file of the build, one of the ways it can stop matching
			b, err := base(sh.shape, sh.n)
			if err != nil {
				return err
			}
			idx := tr.Intn(b.nFiles)
			od := c16OneDamages(int(b.sig.Container.Files[idx].Size))
			damage = fmt.Sprintf("one:%d:%s", idx, od[tr.Intn(len(od))])
		}
		per := 5
		for k := 0; k < per && !hung; k++ {
			cr := tr.Fork()
			s := c16Scn{Shape: sh.shape, N: sh.n, Damage: damage}
			if k == per-1 {
				s.Consumer = healers[cr.Intn(len(healers))]
			} else {
				s.Consumer = consumers[cr.Intn(len(consumers))]
			}
			if k == 0 {
				s.Consumer = "guardian"
			}
			if sh.shape == "bigfile" && strings.HasPrefix(s.Consumer, "healer") {
				s.Consumer = "healer-noarchive" // no 70 MB archives
			}
			if k == 1 && ((sh.shape == "files" && damage == "files-flip") || (sh.shape == "dirs" && damage == "dirs-missing")) {
				s.Consumer = "writer-limit"
				w := sh.n
				s.FailN = []int{1, 2, 5, 1024, 1025, w, w + 1}[cr.Intn(7)]
			}
			s.Cancel = cancels[cr.Intn(len(cancels))]
			s.Procs = procs[cr.Intn(len(procs))]
			total := sh.n
			switch s.Cancel {
			case "timer":
				s.CancelK = []int{0, 50, 200, 1000, 5000, 20000}[cr.Intn(6)]
			case "progress":
				s.CancelK = []int{1, 2, 5, total / 2, total - 1, total, 1024, 1025}[cr.Intn(8)]
				if s.CancelK < 1 {
					s.CancelK = 1
				}
			case "message":
				s.CancelK = []int{1, 2, 5, 100, 1024, 1025}[cr.Intn(6)]
			}
			if err := emit(s, ""); err != nil {
				return err
			}
		}
	}
	return nil
}
