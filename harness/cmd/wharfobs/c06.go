package main

// C06 — healing from an archive restores any damaged directory to the signed build; healing a
// valid directory changes nothing.
//
// Groups: "heal"    : pwr.ValidatorContext.Validate with HealPath "archive,<zip>" on a damaged copy,
//                     under GOMAXPROCS 1, 2 and 16; observable = error class + the whole final tree
//                     (target and the directories beside it that damage symlinks point to);
//                     the model (Heal/Validator.v + Heal/Healer.v on FS/Ops.v) is run under several
//                     schedules and channel capacities; every Go outcome must be among the model's.
//         ""        : heal cases judged by the oracle only: symlink destinations the model's names
//                     cannot express ("./x", "x/", "a//b", absolute, ...) and files of more than 4 MiB.
//         "fsmodel" : the filesystem model itself (c06_fs.go).
//
// The filesystem the model sees is the case's base directory: it contains the target "t0" and
// the aside directories "z<n>"; archive and signature live elsewhere.

import (
	"bytes"
	"context"
	"fmt"
	"net/http"
	"net/http/httptest"
	"os"
	"path/filepath"
	"runtime"
	"sort"
	"strconv"
	"strings"
	"sync"
	"syscall"
	"time"

	"github.com/itchio/wharf/archiver"
	"github.com/itchio/wharf/pwr"

	"verif/harness/lib"
)

func init() { register("C06", runC06) }

// ---------- in-memory trees (paths relative to the base directory, slash separated) ----------

type hNode struct {
	Kind string // "file" | "dir" | "link"
	Data []byte
	Dest string
}

type hTree map[string]hNode

func (t hTree) clone() hTree {
	c := hTree{}
	for k, v := range t {
		c[k] = hNode{v.Kind, append([]byte(nil), v.Data...), v.Dest}
	}
	return c
}

func (t hTree) paths() []string {
	ps := make([]string, 0, len(t))
	for p := range t {
		ps = append(ps, p)
	}
	sort.Strings(ps)
	return ps
}

// removeTree deletes p and everything below it
func (t hTree) removeTree(p string) {
	for k := range t {
		if k == p || strings.HasPrefix(k, p+"/") {
			delete(t, k)
		}
	}
}

// moveTree re-roots the subtree at from to to
func (t hTree) moveTree(from, to string) {
	for _, k := range t.paths() {
		if k == from || strings.HasPrefix(k, from+"/") {
			t[to+k[len(from):]] = t[k]
			delete(t, k)
		}
	}
}

func (t hTree) children(p string) []string {
	var out []string
	for _, k := range t.paths() {
		if strings.HasPrefix(k, p+"/") {
			out = append(out, k)
		}
	}
	return out
}

// materialize writes the tree below base (base exists and is empty)
func (t hTree) materialize(base string) error {
	for _, p := range t.paths() { // parents sort before children
		n := t[p]
		fp := filepath.Join(base, filepath.FromSlash(p))
		var err error
		switch n.Kind {
		case "dir":
			err = os.Mkdir(fp, 0o755)
		case "file":
			err = os.WriteFile(fp, n.Data, 0o644)
		case "link":
			err = os.Symlink(n.Dest, fp)
		}
		if err != nil {
			return err
		}
	}
	return nil
}

func readHTree(base string) (hTree, error) {
	b, err := lib.ReadBuild(base)
	if err != nil {
		return nil, err
	}
	t := hTree{}
	for _, e := range b.Entries {
		t[e.Path] = hNode{e.Kind, e.Data, e.Dest}
	}
	return t, nil
}

func (n hNode) equal(m hNode) bool {
	return n.Kind == m.Kind && bytes.Equal(n.Data, m.Data) && n.Dest == m.Dest
}

func (t hTree) summary() []string {
	var out []string
	for _, p := range t.paths() {
		n := t[p]
		switch n.Kind {
		case "dir":
			out = append(out, p+"/")
		case "file":
			out = append(out, fmt.Sprintf("%s [%d %s]", p, len(n.Data), lib.Digest(n.Data)[:6]))
		case "link":
			out = append(out, p+" -> "+n.Dest)
		}
	}
	return out
}

// ---------- names <-> numbers (the model's names are N) ----------

// a path component is one lower-case letter followed by a number < 1000
func compID(s string) (int64, error) {
	if len(s) < 2 || s[0] < 'a' || s[0] > 'z' {
		return 0, fmt.Errorf("unexpected path component %q", s)
	}
	n, err := strconv.Atoi(s[1:])
	if err != nil || n < 0 || n >= 1000 {
		return 0, fmt.Errorf("unexpected path component %q", s)
	}
	return int64(s[0]-'a'+1)*1000 + int64(n), nil
}

func coqPath(p string) string {
	if p == "" || p == "." {
		return "[]"
	}
	parts := strings.Split(p, "/")
	s := make([]string, len(parts))
	for i, c := range parts {
		id, err := compID(c)
		if err != nil {
			panic(err)
		}
		s[i] = fmt.Sprintf("%d", id)
	}
	return "[" + strings.Join(s, ";") + "]"
}

func coqDest(d string) string {
	if d == "" {
		return "[]"
	}
	parts := strings.Split(d, "/")
	s := make([]string, len(parts))
	for i, c := range parts {
		if c == ".." {
			s[i] = "Up"
			continue
		}
		id, err := compID(c)
		if err != nil {
			panic(err)
		}
		s[i] = fmt.Sprintf("Nm %d", id)
	}
	return "[" + strings.Join(s, ";") + "]"
}

// coqRle: run-length encoded content, without scope annotations (the case files open N_scope:
// annotated literals make their elaboration five times slower)
func c06CoqRle(b []byte) string {
	r := lib.ToRle(b)
	s := make([]string, len(r))
	for i, x := range r {
		s[i] = fmt.Sprintf("(R %d %d)", x.V, x.C)
	}
	return "[" + strings.Join(s, ";") + "]"
}

func coqNode(n hNode) string {
	switch n.Kind {
	case "dir":
		return "RDir"
	case "link":
		return "(RLink " + coqDest(n.Dest) + ")"
	}
	return "(RFile " + c06CoqRle(n.Data) + ")"
}

func coqTree(t hTree) string {
	var s []string
	for _, p := range t.paths() {
		s = append(s, "(E "+coqPath(p)+" "+coqNode(t[p])+")")
	}
	return lib.CoqList(s)
}

// ---------- signed builds ----------

const healBS = 65536

var healSmallSizes = []int{0, 0, 1, 2, 17, 100, 300}
var healBlockSizes = []int{healBS - 1, healBS, healBS + 1, 2 * healBS, 2*healBS + 1, 3*healBS + 17, 3 * healBS}

// sizes for the block-wise damage patterns: whole numbers of blocks (the last signed block is a
// full one) / a short last block
var healAlignedSizes = []int{2 * healBS, 3 * healBS, 2 * healBS, 4 * healBS}
var healUnalignedSizes = []int{2*healBS + 1, 3*healBS - 1, healBS + 300, 2*healBS + 17}

type healBuildOpts struct {
	MaxDirs, MaxFiles, MaxLinks int
	Blocky                      int   // number of files with sizes around block multiples
	Sizes                       []int // when set: the sizes of the first len(Sizes) files
	MinLinks                    int
	// OddLinks: symlink destinations that are legal but not in canonical form.
	// 0 = none; 1 = a third of the links, 3 = every link gets a detour through ".."
	// ("n3/../d0/f1", "d0/f1/n3/..": the model can express those); 2 = every link gets one of all
	// the forms ("./x", "x/", "a//b", "a/./b", "a/../b", "x/.", absolute, odd characters:
	// oracle-only cases).
	OddLinks int
}

// oddDest rewrites a canonical relative destination into an equivalent or at least legal
// destination string that filepath.Clean would change (form < 0: a random one of all forms).
func oddDest(r *lib.Rng, dest string, form int) string {
	if form < 0 {
		form = r.Intn(10)
	}
	slash := strings.LastIndex(dest, "/")
	switch form {
	case 0: // a detour through ".." in front of the last component (or of everything)
		det := fmt.Sprintf("n%d/../", r.Intn(10))
		return dest[:slash+1] + det + dest[slash+1:]
	case 1:
		return "./" + dest
	case 2:
		return dest + "/"
	case 3:
		if slash >= 0 {
			return dest[:slash] + "//" + dest[slash+1:]
		}
		return dest + "//"
	case 4:
		if slash >= 0 {
			return dest[:slash] + "/./" + dest[slash+1:]
		}
		return "././" + dest
	case 5:
		return dest + "/."
	case 6: // a detour behind the destination: "d0/.." style endings
		return dest + fmt.Sprintf("/n%d/..", r.Intn(10))
	case 7: // absolute (dangling: nothing of that name exists), not clean
		return "/n0/verif-no-such-dir//" + dest
	case 8: // characters that a path conversion could touch
		return dest + `\x y`
	default:
		return "./" + dest + "//"
	}
}

// destRepresentable: the model's destinations are lists of names (one letter + number) and ".."
func destRepresentable(d string) bool {
	if d == "" {
		return false
	}
	for _, c := range strings.Split(d, "/") {
		if c == ".." {
			continue
		}
		if _, err := compID(c); err != nil {
			return false
		}
	}
	return true
}

// genHealBuild returns a build (paths relative to the target) with nested directories (some
// empty, some nested empty), empty files, files around block multiples, symlinks (to a file, to
// a directory, dangling, with "..").
func genHealBuild(r *lib.Rng, o healBuildOpts) hTree {
	t := hTree{}
	dirs := []string{""}
	nd := r.Range(1, o.MaxDirs)
	for i := 0; i < nd; i++ {
		parent := dirs[r.Intn(len(dirs))]
		if strings.Count(parent, "/") >= 2 && parent != "" {
			parent = dirs[r.Intn(len(dirs))]
		}
		p := fmt.Sprintf("d%d", i)
		if parent != "" {
			p = parent + "/" + p
		}
		t[p] = hNode{Kind: "dir"}
		dirs = append(dirs, p)
	}
	join := func(d, n string) string {
		if d == "" {
			return n
		}
		return d + "/" + n
	}
	nf := r.Range(1, o.MaxFiles)
	if nf < len(o.Sizes) {
		nf = len(o.Sizes)
	}
	var files []string
	for i := 0; i < nf; i++ {
		d := dirs[r.Intn(len(dirs))]
		size := healSmallSizes[r.Intn(len(healSmallSizes))]
		if i < o.Blocky {
			size = healBlockSizes[r.Intn(len(healBlockSizes))]
		}
		if i < len(o.Sizes) {
			size = o.Sizes[i]
		}
		p := join(d, fmt.Sprintf("f%d", i))
		t[p] = hNode{Kind: "file", Data: structuredContent(r, size)}
		files = append(files, p)
	}
	nl := r.Intn(o.MaxLinks + 1)
	if nl < o.MinLinks {
		nl = o.MinLinks
	}
	for i := 0; i < nl; i++ {
		d := dirs[r.Intn(len(dirs))]
		p := join(d, fmt.Sprintf("l%d", i))
		var dest string
		switch r.Intn(4) {
		case 0: // a file, relative to the link's directory through ".."
			dest = relDest(d, files[r.Intn(len(files))])
		case 1: // a directory
			dest = relDest(d, dirs[1+r.Intn(len(dirs)-1)])
		case 2:
			dest = fmt.Sprintf("n%d", r.Intn(10)) // dangling
		default:
			dest = fmt.Sprintf("../n%d/f0", r.Intn(10)) // dangling with ".."
			if d == "" {
				dest = fmt.Sprintf("n%d/f0", r.Intn(10))
			}
		}
		switch {
		case o.OddLinks == 3 || (o.OddLinks == 1 && r.Chance(1, 3)):
			dest = oddDest(r, dest, []int{0, 0, 6}[r.Intn(3)])
		case o.OddLinks == 2:
			dest = oddDest(r, dest, -1)
		}
		t[p] = hNode{Kind: "link", Dest: dest}
	}
	return t
}

// relDest: destination string that leads from directory fromDir to path to (both relative to the
// same root), going up to the root first
func relDest(fromDir, to string) string {
	ups := 0
	if fromDir != "" {
		ups = strings.Count(fromDir, "/") + 1
	}
	return strings.Repeat("../", ups) + to
}

// ---------- damages ----------

type healDamage struct {
	What string
	Hide bool // hides or removes a whole subtree of the build
}

func flipAt(data []byte, at int) []byte {
	out := append([]byte(nil), data...)
	out[at] ^= 0x40
	return out
}

// blockwise applies several damages to the content of one file, block by block: pattern selects
// which signed blocks are modified (0 = the first only, 1 = all but the last, 2 = the last only,
// 3 = a random non-empty set, 4 = none, 5 = all), tail what happens at the end of the file (0 = nothing,
// 1 = a few bytes appended, 2 = appended up to / beyond the next block boundary, 3 = cut at a
// block boundary or inside the last block).  The validator then reports a sequence of wounds and
// healthy-block notices for that one file (damaged block(s), intact last block, size mismatch, ...).
// Returns nil when nothing would change.
func blockwise(r *lib.Rng, d []byte, pattern, tail int) ([]byte, string) {
	if len(d) == 0 {
		return nil, ""
	}
	nb := (len(d) + healBS - 1) / healBS
	mask := make([]bool, nb)
	switch pattern {
	case 0:
		mask[0] = true
	case 1:
		for k := 0; k+1 < nb; k++ {
			mask[k] = true
		}
		if nb == 1 {
			mask[0] = true
		}
	case 2:
		mask[nb-1] = true
	case 3:
		for k := range mask {
			mask[k] = r.Bool()
		}
		mask[r.Intn(nb)] = true
	case 5:
		for k := range mask {
			mask[k] = true
		}
	}
	out := append([]byte(nil), d...)
	var flips []string
	for k, m := range mask {
		if !m {
			continue
		}
		lo, hi := k*healBS, min(len(d), (k+1)*healBS)
		at := []int{lo, hi - 1, lo + r.Intn(hi-lo)}[r.Intn(3)]
		out[at] ^= 0x40
		flips = append(flips, strconv.Itoa(at))
	}
	what := "flips@" + strings.Join(flips, ",")
	if len(flips) > 8 {
		what = fmt.Sprintf("flips@%s,...(%d blocks)", strings.Join(flips[:4], ","), len(flips))
	}
	switch tail {
	case 1:
		by := []int{1, 7, 100}[r.Intn(3)]
		out = append(out, bytes.Repeat([]byte{byte(1 + r.Intn(250))}, by)...)
		what += fmt.Sprintf(" +%d", by)
	case 2:
		toEnd := healBS - len(d)%healBS
		by := []int{toEnd, toEnd + 1, healBS + 3, 2*healBS + 3}[r.Intn(4)]
		out = append(out, bytes.Repeat([]byte{byte(1 + r.Intn(250))}, by)...)
		what += fmt.Sprintf(" +%d", by)
	case 3:
		cands := []int{len(d) - 1, (nb - 1) * healBS, (nb-1)*healBS + 1}
		if nb > 1 {
			cands = append(cands, (nb-1)*healBS-1, r.Range(1, nb-1)*healBS)
		}
		to := cands[r.Intn(len(cands))]
		if to < 0 || to >= len(d) {
			to = len(d) - 1
		}
		out = out[:to]
		what += fmt.Sprintf(" cut->%d", to)
	}
	if bytes.Equal(out, d) {
		return nil, ""
	}
	return out, what
}

// damageOnce applies one damage to cur (a tree below "t0") given the signed build; returns what
// it did ("" when the chosen damage does not apply).
func damageOnce(r *lib.Rng, signed hTree, cur hTree, asideN *int, kind int) healDamage {
	var files, dirs, links []string
	for _, p := range signed.paths() {
		switch signed[p].Kind {
		case "file":
			files = append(files, p)
		case "dir":
			dirs = append(dirs, p)
		case "link":
			links = append(links, p)
		}
	}
	tp := func(p string) string { return "t0/" + p }
	// usable: the path still exists in cur with the signed kind (earlier damages may have hidden it)
	usable := func(p string) bool {
		n, ok := cur[tp(p)]
		return ok && n.Kind == signed[p].Kind
	}
	pick := func(xs []string) string {
		var ok []string
		for _, x := range xs {
			if usable(x) {
				ok = append(ok, x)
			}
		}
		if len(ok) == 0 {
			return ""
		}
		return ok[r.Intn(len(ok))]
	}
	aside := func(inside bool) string {
		*asideN++
		if inside {
			return fmt.Sprintf("t0/x%d", *asideN)
		}
		return fmt.Sprintf("z%d", *asideN)
	}
	parentOf := func(p string) string {
		if i := strings.LastIndex(p, "/"); i >= 0 {
			return p[:i]
		}
		return ""
	}
	switch kind {
	case 0: // bit flip at first/last byte of a block or of the file
		f := pick(files)
		if f == "" || len(cur[tp(f)].Data) == 0 {
			return healDamage{}
		}
		d := cur[tp(f)].Data
		nb := (len(d) + healBS - 1) / healBS
		k := r.Intn(nb)
		at := []int{k * healBS, min(len(d), (k+1)*healBS) - 1, len(d) - 1, r.Intn(len(d))}[r.Intn(4)]
		cur[tp(f)] = hNode{Kind: "file", Data: flipAt(d, at)}
		return healDamage{What: fmt.Sprintf("flip:%s@%d", f, at)}
	case 1: // truncation
		f := pick(files)
		if f == "" || len(cur[tp(f)].Data) == 0 {
			return healDamage{}
		}
		d := cur[tp(f)].Data
		k := len(d) / healBS
		cands := []int{0, 1, len(d) - 1, k*healBS - 1, k * healBS, k*healBS + 1, r.Intn(len(d))}
		to := cands[r.Intn(len(cands))]
		if to < 0 || to >= len(d) {
			to = len(d) - 1
		}
		cur[tp(f)] = hNode{Kind: "file", Data: append([]byte(nil), d[:to]...)}
		return healDamage{What: fmt.Sprintf("truncate:%s->%d", f, to)}
	case 2: // extension (also: non-empty where an empty file is expected)
		f := pick(files)
		if f == "" {
			return healDamage{}
		}
		d := cur[tp(f)].Data
		toEnd := healBS - len(d)%healBS
		by := []int{1, 7, toEnd, toEnd + 1, healBS, 2*healBS + 3}[r.Intn(6)]
		if len(d) < 1000 && r.Chance(2, 3) {
			by = []int{1, 7, 100}[r.Intn(3)]
		}
		cur[tp(f)] = hNode{Kind: "file", Data: append(append([]byte(nil), d...), bytes.Repeat([]byte{byte(1 + r.Intn(250))}, by)...)}
		return healDamage{What: fmt.Sprintf("extend:%s+%d", f, by)}
	case 3: // deleted file
		f := pick(files)
		if f == "" {
			return healDamage{}
		}
		delete(cur, tp(f))
		return healDamage{What: "delete:" + f}
	case 4: // emptied file
		f := pick(files)
		if f == "" {
			return healDamage{}
		}
		cur[tp(f)] = hNode{Kind: "file"}
		return healDamage{What: "emptied:" + f}
	case 5: // retargeted / deleted symlink
		l := pick(links)
		if l == "" {
			return healDamage{}
		}
		if r.Bool() {
			delete(cur, tp(l))
			return healDamage{What: "unlink:" + l}
		}
		cur[tp(l)] = hNode{Kind: "link", Dest: fmt.Sprintf("n%d", 10+r.Intn(10))}
		return healDamage{What: "retarget:" + l}
	case 6: // file -> empty dir / non-empty dir (with nested content) / symlink
		f := pick(files)
		if f == "" {
			return healDamage{}
		}
		old := cur[tp(f)]
		switch r.Intn(4) {
		case 0:
			cur[tp(f)] = hNode{Kind: "dir"}
			return healDamage{What: "file->emptydir:" + f}
		case 1:
			cur[tp(f)] = hNode{Kind: "dir"}
			cur[tp(f)+"/x1"] = hNode{Kind: "file", Data: old.Data}
			cur[tp(f)+"/x2"] = hNode{Kind: "dir"}
			cur[tp(f)+"/x2/x3"] = hNode{Kind: "link", Dest: "../x1"}
			return healDamage{What: "file->dir:" + f}
		case 2: // symlink to a copy of the right content
			a := aside(r.Bool())
			cur[a] = old
			cur[tp(f)] = hNode{Kind: "link", Dest: relDest(parentOf(tp(f)), a)}
			return healDamage{What: "file->link-to-equal:" + f}
		default:
			cur[tp(f)] = hNode{Kind: "link", Dest: "n77"}
			return healDamage{What: "file->dangling-link:" + f}
		}
	case 7: // symlink -> file / dir (non-empty)
		l := pick(links)
		if l == "" {
			return healDamage{}
		}
		if r.Bool() {
			cur[tp(l)] = hNode{Kind: "file", Data: []byte("was a link")}
			return healDamage{What: "link->file:" + l}
		}
		cur[tp(l)] = hNode{Kind: "dir"}
		cur[tp(l)+"/x1"] = hNode{Kind: "file", Data: []byte("y")}
		cur[tp(l)+"/x2"] = hNode{Kind: "dir"}
		return healDamage{What: "link->dir:" + l}
	case 8: // directory -> file (the subtree is gone)
		d := pick(dirs)
		if d == "" {
			return healDamage{}
		}
		cur.removeTree(tp(d))
		data := []byte("was a directory")
		if r.Chance(1, 3) {
			data = nil
		}
		cur[tp(d)] = hNode{Kind: "file", Data: data}
		return healDamage{What: "dir->file:" + d, Hide: true}
	case 9: // directory -> symlink to a directory holding the (equal or further damaged) children
		d := pick(dirs)
		if d == "" {
			return healDamage{}
		}
		a := aside(r.Bool())
		cur.moveTree(tp(d), a)
		cur[tp(d)] = hNode{Kind: "link", Dest: relDest(parentOf(tp(d)), a)}
		return healDamage{What: "dir->link-to-dir:" + d, Hide: true}
	case 10: // directory -> other symlinks
		d := pick(dirs)
		if d == "" {
			return healDamage{}
		}
		cur.removeTree(tp(d))
		switch r.Intn(3) {
		case 0:
			cur[tp(d)] = hNode{Kind: "link", Dest: "n78"}
			return healDamage{What: "dir->dangling-link:" + d, Hide: true}
		case 1:
			a := aside(false)
			cur[a] = hNode{Kind: "file", Data: []byte("aside")}
			cur[tp(d)] = hNode{Kind: "link", Dest: relDest(parentOf(tp(d)), a)}
			return healDamage{What: "dir->link-to-file:" + d, Hide: true}
		default:
			a := aside(false)
			cur[a] = hNode{Kind: "dir"}
			cur[tp(d)] = hNode{Kind: "link", Dest: relDest(parentOf(tp(d)), a)}
			return healDamage{What: "dir->link-to-emptydir:" + d, Hide: true}
		}
	case 11: // directory deleted with everything below
		d := pick(dirs)
		if d == "" {
			return healDamage{}
		}
		cur.removeTree(tp(d))
		return healDamage{What: "rmdir:" + d, Hide: true}
	case 12: // extra entries (allowed to stay)
		d := pick(dirs)
		base := "t0"
		if d != "" {
			base = tp(d)
		}
		*asideN++
		p := fmt.Sprintf("%s/x%d", base, *asideN)
		switch r.Intn(3) {
		case 0:
			cur[p] = hNode{Kind: "file", Data: []byte("extra")}
		case 1:
			cur[p] = hNode{Kind: "dir"}
			cur[p+"/x1"] = hNode{Kind: "file"}
		default:
			cur[p] = hNode{Kind: "link", Dest: "n79"}
		}
		return healDamage{What: "extra:" + p}
	case 13: // several damages inside one file (block-wise pattern + end of file), larger files preferred
		var big []string
		for _, f := range files {
			if usable(f) && len(cur[tp(f)].Data) > healBS {
				big = append(big, f)
			}
		}
		f := pick(files)
		if len(big) > 0 && r.Chance(3, 4) {
			f = big[r.Intn(len(big))]
		}
		if f == "" {
			return healDamage{}
		}
		data, what := blockwise(r, cur[tp(f)].Data, r.Intn(6), r.Intn(4))
		if data == nil {
			return healDamage{}
		}
		cur[tp(f)] = hNode{Kind: "file", Data: data}
		return healDamage{What: fmt.Sprintf("blockwise:%s %s", f, what)}
	}
	return healDamage{}
}

const healDamageKinds = 14

// ---------- one case ----------

type healCase struct {
	OracleOnly bool // too large for the model
	// Where: location of the archive below the case's work directory ("" = "build.zip"); the
	// first component is also appended to the name of the directory that holds the target.
	// Legal file names that a parser of the healer spec "archive,<location>" or of the location
	// itself could trip over (commas, blanks, '?', '#', ...).
	Where string
	// Loc: how the healer spec names the archive: "" = absolute path, "rel" = path relative to the
	// working directory, "http" = URL of a loopback HTTP server (with commas in path and query)
	Loc     string
	Shape   string // generator parameters of a build too large to list in full
	Hung    bool   // set by runHealCase: Validate did not return
	Class   string
	Signed  hTree // relative to the target
	Damaged hTree // relative to base ("t0/..." and aside dirs); no "t0" key = target missing
	Damages []string
	Procs   []int
}

func validTree(signed hTree) hTree {
	t := hTree{"t0": hNode{Kind: "dir"}}
	for p, n := range signed {
		t["t0/"+p] = n
	}
	return t
}

type statKey struct {
	Ino   uint64
	Mtime int64
	Ctime int64
	Size  int64
	Mode  uint32
}

func statTree(base string) (map[string]statKey, error) {
	out := map[string]statKey{}
	err := filepath.Walk(base, func(p string, info os.FileInfo, err error) error {
		if err != nil {
			return err
		}
		st, ok := info.Sys().(*syscall.Stat_t)
		if !ok {
			return fmt.Errorf("no stat_t")
		}
		out[p] = statKey{st.Ino, st.Mtim.Nano(), st.Ctim.Nano(), st.Size, st.Mode}
		return nil
	})
	return out, err
}

type healRun struct {
	Procs  int
	Class  string // ok | error | panic | hang
	Msg    string
	Final  hTree
	Oracle string
}

// runHealCase signs the build, builds the archive, then for every GOMAXPROCS value recreates
// the damaged tree, heals it, and judges the outcome.
func runHealCase(c *Ctx, hc *healCase, idx int) error {
	work, err := filepath.Abs(filepath.Join(c.Tmp, fmt.Sprintf("c06-%d", idx)))
	if err != nil {
		return err
	}
	defer removeAll(work)
	validDir := filepath.Join(work, "valid")
	if err := os.MkdirAll(validDir, 0o755); err != nil {
		return err
	}
	if err := hc.Signed.materialize(validDir); err != nil {
		return err
	}
	sig, err := lib.SignDir(validDir)
	if err != nil {
		return err
	}
	zipPath := filepath.Join(work, "build.zip")
	baseSuffix, archShown := "", "<work>/build.zip"
	if hc.Where != "" {
		archShown = "<work>/ar/" + hc.Where
		zipPath = filepath.Join(work, "ar", filepath.FromSlash(hc.Where))
		if err := os.MkdirAll(filepath.Dir(zipPath), 0o755); err != nil {
			return err
		}
		baseSuffix = "-" + strings.SplitN(hc.Where, "/", 2)[0]
	}
	fw, err := os.Create(zipPath)
	if err != nil {
		return err
	}
	if _, err := archiver.CompressZip(fw, validDir, nil); err != nil {
		fw.Close()
		return err
	}
	if err := fw.Close(); err != nil {
		return err
	}
	location := zipPath
	switch hc.Loc {
	case "rel":
		cwd, err := os.Getwd()
		if err != nil {
			return err
		}
		if location, err = filepath.Rel(cwd, zipPath); err != nil {
			return err
		}
		archShown += " (relative to the working directory)"
	case "http":
		var done func()
		if location, done, err = healServe(zipPath, idx); err != nil {
			return err
		}
		defer done()
		archShown += " served as " + location[strings.Index(location, "/c06-"):]
	}
	valid := validTree(hc.Signed)
	isValid := len(hc.Damages) == 0

	var runs []healRun
	oracle := ""
	for _, procs := range hc.Procs {
		base := filepath.Join(work, fmt.Sprintf("base-%d%s", procs, baseSuffix))
		if err := os.MkdirAll(base, 0o755); err != nil {
			return err
		}
		if err := hc.Damaged.materialize(base); err != nil {
			return err
		}
		target := filepath.Join(base, "t0")
		var before map[string]statKey
		if isValid {
			if before, err = statTree(base); err != nil {
				return err
			}
		}
		prev := runtime.GOMAXPROCS(procs)
		cls, msg := lib.WithDeadline(60*time.Second, func() error {
			vc := &pwr.ValidatorContext{Consumer: lib.Quiet, HealPath: "archive," + location}
			return vc.Validate(context.Background(), target, sig)
		})
		runtime.GOMAXPROCS(prev)
		run := healRun{Procs: procs, Class: cls, Msg: msg}
		if cls == "hang" {
			hc.Hung = true
			run.Oracle = "Validate with an archive healer did not return within 60s"
		} else {
			if cls != "ok" {
				// after an error return the healer goroutine may still be running (it is abandoned by
				// Validate): give it a moment so that the tree can be listed
				time.Sleep(50 * time.Millisecond)
			}
			final, err := readHTree(base)
			for tries := 0; err != nil && tries < 20; tries++ {
				time.Sleep(50 * time.Millisecond)
				final, err = readHTree(base)
			}
			if err != nil {
				return err
			}
			run.Final = final
			switch {
			case cls != "ok":
				run.Oracle = fmt.Sprintf("Validate with an archive healer returned %s: %s", cls, c06FirstLine(msg))
			default:
				// every entry of the signed build is present with the signed content (extra entries may stay)
				var miss []string
				for _, p := range valid.paths() {
					g, ok := final[p]
					w := valid[p]
					switch {
					case !ok:
						miss = append(miss, fmt.Sprintf("missing %s %s", w.Kind, p))
					case !g.equal(w):
						miss = append(miss, fmt.Sprintf("%s is %s, want %s", p, describe(g), describe(w)))
					}
				}
				if len(miss) > 0 {
					if len(miss) > 5 {
						miss = append(miss[:5], fmt.Sprintf("... %d more", len(miss)-5))
					}
					run.Oracle = "healing returned nil but the build is not restored: " + strings.Join(miss, "; ")
				} else if cls2, msg2 := lib.WithDeadline(60*time.Second, func() error { return pwr.AssertValid(target, sig) }); cls2 != "ok" {
					run.Oracle = fmt.Sprintf("AssertValid after healing: %s: %s", cls2, c06FirstLine(msg2))
				}
			}
			if run.Oracle == "" && isValid {
				// healing a valid directory changes nothing: same tree, and no inode was replaced or rewritten
				after, err := statTree(base)
				if err != nil {
					return err
				}
				if len(after) != len(before) {
					run.Oracle = fmt.Sprintf("healing a valid directory changed the number of entries: %d -> %d", len(before), len(after))
				}
				for p, b := range before {
					if a, ok := after[p]; !ok || a != b {
						run.Oracle = fmt.Sprintf("healing a valid directory touched %s (inode/mtime/ctime/size %v -> %v)", strings.TrimPrefix(p, base), b, a)
						break
					}
				}
				for p, n := range hc.Damaged {
					if m, ok := final[p]; !ok || !m.equal(n) {
						run.Oracle = "healing a valid directory changed " + p
					}
				}
			}
		}
		if run.Oracle != "" && oracle == "" {
			oracle = fmt.Sprintf("GOMAXPROCS=%d: %s", procs, run.Oracle)
		}
		runs = append(runs, run)
		removeAll(base)
		if cls == "hang" {
			break
		}
	}

	obsRuns := []map[string]interface{}{}
	for _, ru := range runs {
		m := map[string]interface{}{"procs": ru.Procs, "class": ru.Class}
		if ru.Final != nil {
			m["final"] = lib.Digest([]byte(strings.Join(ru.Final.summary(), "\n")))
		}
		obsRuns = append(obsRuns, m)
	}
	hide := false
	for _, d := range hc.Damages {
		if strings.HasPrefix(d, "dir->") || strings.HasPrefix(d, "rmdir") || strings.HasPrefix(d, "root-") {
			hide = true
		}
	}
	// a symlink destination the model's names cannot express ("./x", "x/", "a//b", absolute, ...):
	// the case is judged by the oracle only
	group := "heal"
	if hc.OracleOnly {
		group = ""
	}
	for _, n := range hc.Signed {
		if n.Kind == "link" && !destRepresentable(n.Dest) {
			group = ""
		}
	}
	cs := &lib.Case{Group: group, Class: hc.Class, Nontrivial: len(hc.Damages) >= 2 || hide,
		Input: map[string]interface{}{"signed": clipList(hc.Signed.summary()), "damaged": clipList(hc.Damaged.summary()), "damages": clipList(hc.Damages),
			"container": containerSummary(sig), "archive": archShown,
			"target": fmt.Sprintf("<work>/base-<procs>%s/t0", baseSuffix)},
		Obs: obsRuns, Oracle: oracle}
	if hc.Shape != "" {
		cs.Input.(map[string]interface{})["shape"] = hc.Shape
	}
	cs.Finding = healFinding(hc, oracle)
	if group != "" {
		cs.Coq = healCoq(hc, sig, runs)
	}
	c.Out.Emit(cs)
	return nil
}

func c06FirstLine(s string) string {
	if i := strings.Index(s, "\n"); i >= 0 {
		s = s[:i]
	}
	if len(s) > 200 {
		s = s[:200]
	}
	return s
}

func describe(n hNode) string {
	switch n.Kind {
	case "file":
		return fmt.Sprintf("file[%d %s]", len(n.Data), lib.Digest(n.Data)[:6])
	case "link":
		return "link->" + n.Dest
	}
	return n.Kind
}

// clipList keeps the JSON line of a case with thousands of entries readable: the first entries
// and the count (such a case is regenerated from its seed and its "shape")
func clipList(xs []string) []string {
	const keep = 60
	if len(xs) <= keep {
		return xs
	}
	return append(append([]string(nil), xs[:keep]...), fmt.Sprintf("... %d more (%d in all)", len(xs)-keep, len(xs)))
}

func containerSummary(sig *pwr.SignatureInfo) map[string]interface{} {
	var d, l, f []string
	for _, x := range sig.Container.Dirs {
		d = append(d, x.Path)
	}
	for _, x := range sig.Container.Symlinks {
		l = append(l, x.Path+"->"+x.Dest)
	}
	for _, x := range sig.Container.Files {
		f = append(f, x.Path)
	}
	return map[string]interface{}{"dirs": clipList(d), "symlinks": clipList(l), "files": clipList(f),
		"counts": []int{len(d), len(l), len(f)}}
}

// healFinding: matchers of known findings (none at present: both defects found here were fixed)
func healFinding(hc *healCase, oracle string) string { return "" }

// healCoq prints the case as a term of type heal_case:
// HC id target (RB dirs links files) damaged-tree [OUT class final-tree; ...]
func healCoq(hc *healCase, sig *pwr.SignatureInfo, runs []healRun) string {
	var d, l, f []string
	for _, x := range sig.Container.Dirs {
		d = append(d, coqPath(x.Path))
	}
	for _, x := range sig.Container.Symlinks {
		l = append(l, "(LK "+coqPath(x.Path)+" "+coqDest(x.Dest)+")")
	}
	for _, x := range sig.Container.Files {
		f = append(f, "(FL "+coqPath(x.Path)+" "+c06CoqRle(hc.Signed[x.Path].Data)+")")
	}
	var outs []string
	seen := map[string]bool{}
	for _, ru := range runs {
		if ru.Final == nil {
			continue // a hang has no final tree; the oracle has flagged it
		}
		cl := map[string]int64{"ok": 0, "error": 1, "panic": 2}[ru.Class]
		o := fmt.Sprintf("(OUT %d %s)", cl, coqTree(ru.Final))
		if !seen[o] { // the distinct outcomes of the GOMAXPROCS runs
			seen[o] = true
			outs = append(outs, o)
		}
	}
	return fmt.Sprintf("(HC $ID %s (RB %s %s %s) %s %s)", coqPath("t0"), lib.CoqList(d), lib.CoqList(l), lib.CoqList(f),
		coqTree(hc.Damaged), lib.CoqList(outs))
}

// ---------- corpus + generator ----------

func healCorpus() []*healCase {
	file := func(s string) hNode { return hNode{Kind: "file", Data: []byte(s)} }
	dir := hNode{Kind: "dir"}
	var out []*healCase
	// defect #11: a directory with a nested directory replaced by a regular file
	s1 := hTree{"d0": dir, "d0/d1": dir, "d0/d1/f0": file("hello"), "f1": file("x")}
	out = append(out, &healCase{Class: "corpus/dir->file-nested", Signed: s1, Damages: []string{"dir->file:d0"},
		Damaged: hTree{"t0": dir, "t0/d0": file("was a directory"), "t0/f1": file("x")}})
	// same with a symlink below the replaced directory
	s2 := hTree{"d0": dir, "d0/l0": hNode{Kind: "link", Dest: "n1"}, "f1": file("x")}
	out = append(out, &healCase{Class: "corpus/dir->file-link-below", Signed: s2, Damages: []string{"dir->file:d0"},
		Damaged: hTree{"t0": dir, "t0/d0": file(""), "t0/f1": file("x")}})
	// a directory replaced by a symlink to a directory with equal children, one of them an empty directory
	s3 := hTree{"d0": dir, "d0/d1": dir, "d0/d2": dir, "d0/d2/f0": file("hello"), "f1": file("x")}
	out = append(out, &healCase{Class: "corpus/dir->link-to-equal-dir", Signed: s3, Damages: []string{"dir->link-to-dir:d0"},
		Damaged: hTree{"t0": dir, "t0/d0": hNode{Kind: "link", Dest: "../z1"}, "t0/f1": file("x"),
			"z1": dir, "z1/d1": dir, "z1/d2": dir, "z1/d2/f0": file("hello")}})
	// same, the link points inside the target, children include a symlink and an empty file
	s4 := hTree{"d0": dir, "d0/d1": dir, "d0/d1/d2": dir, "d0/l0": hNode{Kind: "link", Dest: "d1"}, "d0/f0": file("")}
	out = append(out, &healCase{Class: "corpus/dir->link-to-equal-dir-inside", Signed: s4, Damages: []string{"dir->link-to-dir:d0"},
		Damaged: hTree{"t0": dir, "t0/d0": hNode{Kind: "link", Dest: "x1"},
			"t0/x1": dir, "t0/x1/d1": dir, "t0/x1/d1/d2": dir, "t0/x1/l0": hNode{Kind: "link", Dest: "d1"}, "t0/x1/f0": file("")}})
	// a symlink replaced by a non-empty directory (the healer must remove it recursively), a
	// retargeted symlink, an emptied and a deleted file
	s5 := hTree{"d0": dir, "d0/l0": hNode{Kind: "link", Dest: "../f1"}, "l1": hNode{Kind: "link", Dest: "n1"}, "f1": file("x"), "d0/f2": file("yy"), "f3": file("")}
	out = append(out, &healCase{Class: "corpus/link->dir+retarget+emptied", Signed: s5,
		Damages: []string{"link->dir:d0/l0", "retarget:l1", "emptied:d0/f2", "delete:f1"},
		Damaged: hTree{"t0": dir, "t0/d0": dir, "t0/d0/l0": dir, "t0/d0/l0/x1": file("y"), "t0/d0/l0/x2": dir,
			"t0/l1": hNode{Kind: "link", Dest: "n2"}, "t0/d0/f2": file(""), "t0/f3": file("")}})
	// a valid directory: nothing may be touched
	out = append(out, &healCase{Class: "corpus/valid", Signed: s5, Damaged: validTree(s5)})
	// several damages inside one file of exactly two blocks: first block modified, last signed
	// block intact, a few bytes appended (wound, healthy-block notice for the last signed block,
	// then further wounds for the same file)
	two := make([]byte, 2*healBS)
	for i := range two {
		two[i] = byte('a' + i/healBS)
	}
	two[0], two[healBS-1], two[healBS], two[2*healBS-1] = 1, 2, 3, 4
	s6 := hTree{"d0": dir, "d0/f0": hNode{Kind: "file", Data: two}, "f1": file("x")}
	bad := append(flipAt(two, 10), bytes.Repeat([]byte("tail"), 2)...)
	out = append(out, &healCase{Class: "corpus/blockwise-first+appended", Signed: s6,
		Damages: []string{"blockwise:d0/f0 flips@10 +8"},
		Damaged: hTree{"t0": dir, "t0/d0": dir, "t0/d0/f0": hNode{Kind: "file", Data: bad}, "t0/f1": file("x")}})
	// symlinks whose signed destination is not in canonical form, lost: with detours through ".."
	// (model and oracle), and with "./", a trailing slash, a double slash (oracle only)
	s7 := hTree{"d0": dir, "d0/f0": file("hello"), "d0/l0": hNode{Kind: "link", Dest: "n1/../f0"}, "l1": hNode{Kind: "link", Dest: "d0/n2/.."}}
	out = append(out, &healCase{Class: "corpus/oddlink-unlink", Signed: s7, Damages: []string{"unlink:d0/l0", "unlink:l1"},
		Damaged: hTree{"t0": dir, "t0/d0": dir, "t0/d0/f0": file("hello")}})
	s8 := hTree{"d0": dir, "d0/f0": file("hello"), "d0/l0": hNode{Kind: "link", Dest: "./f0"}, "l1": hNode{Kind: "link", Dest: "d0/"},
		"l2": hNode{Kind: "link", Dest: "d0//f0"}}
	out = append(out, &healCase{Class: "corpus/oddlink-oracle-only-root-missing", Signed: s8, Damages: []string{"root-missing"}, Damaged: hTree{}})
	out = append(out, &healCase{Class: "corpus/oddlink-oracle-only-valid", Signed: s8, Damaged: validTree(s8)})
	// the archive at a location with commas in it (the healer spec is "archive,<location>"): files
	// to rewrite (the archive is opened when the first file is), a valid build, links and dirs only
	out = append(out, &healCase{Class: "corpus/archive-path-with-commas", Signed: s5, Where: "game,linux,v2/build.zip",
		Damages: []string{"retarget:l1", "emptied:d0/f2", "delete:f1"},
		Damaged: hTree{"t0": dir, "t0/d0": dir, "t0/d0/l0": hNode{Kind: "link", Dest: "../f1"},
			"t0/l1": hNode{Kind: "link", Dest: "n2"}, "t0/d0/f2": file(""), "t0/f3": file("")}})
	out = append(out, &healCase{Class: "corpus/archive-path-with-commas-valid", Signed: s5, Where: "q?v=1,2&w=3/ ,a/b.zip,", Damaged: validTree(s5)})
	out = append(out, &healCase{Class: "corpus/archive-path-with-commas-root-missing", Signed: s1, Where: ",/archive,build.zip",
		Damages: []string{"root-missing"}, Damaged: hTree{}})
	out = append(out, &healCase{Class: "corpus/archive-url-with-commas", Signed: s6, Loc: "http",
		Damages: []string{"blockwise:d0/f0 flips@10 +8", "delete:f1"},
		Damaged: hTree{"t0": dir, "t0/d0": dir, "t0/d0/f0": hNode{Kind: "file", Data: bad}}})
	out = append(out, &healCase{Class: "corpus/archive-relative-path-with-commas", Signed: s1, Where: "a,b/build,v2.zip", Loc: "rel",
		Damages: []string{"dir->file:d0"},
		Damaged: hTree{"t0": dir, "t0/d0": file("was a directory"), "t0/f1": file("x")}})
	for _, hc := range out {
		hc.Procs = []int{1, 2, 16}
	}
	// more directories and symlinks than the wound channel has slots, target missing
	out = append(out, genManyCase(lib.NewRng(6008), 0))
	out[len(out)-1].Class = "corpus/" + out[len(out)-1].Class
	return out
}

func genHealCase(r *lib.Rng, i int) *healCase {
	opts := healBuildOpts{MaxDirs: 6, MaxFiles: 6, MaxLinks: 3, OddLinks: 1}
	class := "small"
	switch {
	case i%6 == 5:
		opts = healBuildOpts{MaxDirs: 4, MaxFiles: 3, MaxLinks: 1, Blocky: 2, OddLinks: 1}
		class = "blocky"
	case i%40 == 7:
		// many entries: the healer lags behind the validator, the wound channel fills up
		opts = healBuildOpts{MaxDirs: 30, MaxFiles: 120, MaxLinks: 20, OddLinks: 1}
		class = "wide"
	}
	signed := genHealBuild(r, opts)
	if class == "wide" {
		for len(signed) < 100 { // the ranges above are upper bounds: insist on many entries
			signed = genHealBuild(r, opts)
		}
	}
	hc := &healCase{Signed: signed, Procs: []int{1, 2, 16}}
	cur := validTree(signed)
	asideN := 0
	mode := i % 12
	if class == "wide" {
		mode = []int{2, 6, 9, 1}[(i/40)%4]
	}
	switch {
	case mode == 0:
		class += "/valid"
	case mode == 1:
		class += "/root-missing"
		cur = hTree{}
		hc.Damages = []string{"root-missing"}
	case mode == 2:
		class += "/root-empty"
		cur = hTree{"t0": hNode{Kind: "dir"}}
		hc.Damages = []string{"root-empty"}
	default:
		n := 1
		if mode >= 6 {
			n = r.Range(2, 4)
		}
		if class == "wide" {
			n = r.Range(10, 40)
		}
		kinds := map[string]bool{}
		for k := 0; k < n; k++ {
			kind := r.Intn(healDamageKinds)
			if mode < 6 {
				kind = ((i/12)*3 + mode - 3) % healDamageKinds // every damage kind on its own, in turn
			} else if mode%3 == 0 && k == 0 {
				kind = 8 + r.Intn(4) // subtree-hiding swap first
			}
			d := damageOnce(r, signed, cur, &asideN, kind)
			for tries := 0; d.What == "" && tries < 20; tries++ {
				d = damageOnce(r, signed, cur, &asideN, r.Intn(healDamageKinds))
			}
			if d.What != "" {
				hc.Damages = append(hc.Damages, d.What)
				kinds[strings.SplitN(d.What, ":", 2)[0]] = true
			}
		}
		var ks []string
		for k := range kinds {
			ks = append(ks, k)
		}
		sort.Strings(ks)
		switch {
		case len(hc.Damages) == 0:
			class += "/valid"
		case len(hc.Damages) == 1:
			class += "/" + ks[0]
		case class == "wide":
			class += "/combo-many"
		default:
			class += fmt.Sprintf("/combo%d", len(hc.Damages))
		}
	}
	hc.Class = class
	hc.Damaged = cur
	return hc
}

// genBlockwiseCase: three files of two to four blocks, each with a different combination of
// (which signed blocks are modified) x (what happens at the end of the file), enumerated in turn:
// slot s = 3j+k has pattern s%4 and tail (s/4)%4; slots 0-15, 32-47, ... use files that are a
// whole number of blocks long, the others files with a short last block.  From the third round
// on, other random damages are added.
func genBlockwiseCase(r *lib.Rng, j int) *healCase {
	sizes := make([]int, 3)
	for k := range sizes {
		if ((3*j+k)/16)%2 == 0 {
			sizes[k] = healAlignedSizes[r.Intn(len(healAlignedSizes))]
		} else {
			sizes[k] = healUnalignedSizes[r.Intn(len(healUnalignedSizes))]
		}
	}
	signed := genHealBuild(r, healBuildOpts{MaxDirs: 3, MaxFiles: 4, MaxLinks: 1, Sizes: sizes})
	hc := &healCase{Signed: signed, Procs: []int{1, 2, 16}, Class: "blockwise"}
	cur := validTree(signed)
	for k := range sizes {
		s := 3*j + k
		for _, p := range signed.paths() {
			if signed[p].Kind != "file" || p[strings.LastIndex(p, "/")+1:] != fmt.Sprintf("f%d", k) {
				continue
			}
			data, what := blockwise(r, signed[p].Data, s%4, (s/4)%4)
			if data != nil {
				cur["t0/"+p] = hNode{Kind: "file", Data: data}
				hc.Damages = append(hc.Damages, fmt.Sprintf("blockwise:%s %s", p, what))
			}
		}
	}
	if 3*j >= 32 {
		asideN := 0
		for n := r.Intn(3); n > 0; n-- {
			if d := damageOnce(r, signed, cur, &asideN, r.Intn(healDamageKinds)); d.What != "" {
				hc.Damages = append(hc.Damages, d.What)
			}
		}
		hc.Class = "blockwise+other"
	}
	hc.Damaged = cur
	return hc
}

// genBigFileCase: one file of more than 4 MiB (pwr.MaxWoundSize: a longer run of damaged blocks
// reaches the healer as several wounds for the same file) with block-wise damage, beside a small
// one.  Oracle only: the content is too long for the model.
func genBigFileCase(r *lib.Rng, j int) *healCase {
	const maxWound = 4 * 1024 * 1024
	size := maxWound + []int{2 * healBS, healBS + 5, 0, 3*healBS - 1}[j%4]
	signed := hTree{"d0": hNode{Kind: "dir"}, "d0/f0": hNode{Kind: "file", Data: structuredContent(r, size)},
		"f1": hNode{Kind: "file", Data: structuredContent(r, 100)}}
	hc := &healCase{Signed: signed, Procs: []int{1, 2, 16}, Class: "bigfile-oracle-only", OracleOnly: true}
	cur := validTree(signed)
	pattern := []int{5, 1, 3, 0, 2}[j%5]
	data, what := blockwise(r, signed["d0/f0"].Data, pattern, (j+1)%4)
	if data != nil {
		cur["t0/d0/f0"] = hNode{Kind: "file", Data: data}
		hc.Damages = append(hc.Damages, "blockwise:d0/f0 "+what)
	}
	if j%3 == 1 {
		cur["t0/f1"] = hNode{Kind: "file", Data: flipAt(signed["f1"].Data, 0)}
		hc.Damages = append(hc.Damages, "flip:f1@0")
	}
	hc.Damaged = cur
	return hc
}

// genOddLinkCase: builds whose symlinks have legal destinations that are not in canonical form
// (made by hand: "./libfoo.so.1", "Versions/A/Resources/", "a//b", "a/../b", ...).  Even j: only
// the forms the model can express (detours through ".."), odd j: all forms, oracle-only.  The
// damages go through: nothing (a valid build stays untouched), target missing, every link
// deleted or retargeted, links replaced by files / directories, subtree-hiding swaps of their
// parents, random combinations.
func genOddLinkCase(r *lib.Rng, j int) *healCase {
	opts := healBuildOpts{MaxDirs: 4, MaxFiles: 4, MaxLinks: 4, MinLinks: 2, OddLinks: 3}
	class := "oddlink"
	if j%2 == 1 {
		opts.OddLinks = 2
		class = "oddlink-oracle-only"
	}
	signed := genHealBuild(r, opts)
	hc := &healCase{Signed: signed, Procs: []int{1, 2, 16}}
	cur := validTree(signed)
	asideN := 0
	add := func(kind int) {
		if d := damageOnce(r, signed, cur, &asideN, kind); d.What != "" {
			hc.Damages = append(hc.Damages, d.What)
		}
	}
	nl := 0
	for _, n := range signed {
		if n.Kind == "link" {
			nl++
		}
	}
	switch (j / 2) % 6 {
	case 0:
		class += "/valid"
	case 1:
		class += "/root-missing"
		cur = hTree{}
		hc.Damages = []string{"root-missing"}
	case 2:
		class += "/unlink-retarget"
		for k := 0; k < 2*nl; k++ { // retargeted links stay usable: most links are hit
			add(5)
		}
	case 3:
		class += "/link->other"
		for k := 0; k < nl; k++ {
			add(7)
		}
		add(r.Intn(healDamageKinds))
	case 4:
		class += "/hidden-parents"
		add(8 + r.Intn(4))
		add(5)
		add(r.Intn(healDamageKinds))
	default:
		class += "/combo"
		for n := r.Range(2, 4); n > 0; n-- {
			add(r.Intn(healDamageKinds))
		}
		add(5)
	}
	if len(hc.Damages) == 0 && (j/2)%6 != 0 {
		class += "-none"
	}
	hc.Class = class
	hc.Damaged = cur
	return hc
}

// ---------- where the archive lives ----------

// Directory names that are legal on the filesystem and harmless in an eos location (httpkit's
// eos.Open passes the location through url.Parse before falling back to os.Open: an invalid
// '%' escape or a control character is refused there, so those are left out), but that a parser
// of the spec "archive,<location>" - or of the location - could mangle.
var healOddDirs = []string{
	"game,linux,v2", "a,b", ",", "x,", ",x", "a,,b", "archive,", "manifest,archive,", "UPPER,lower",
	"with space", " lead", "trail ", "q?v=1,2&w=3", "frag#1,2", "semi;colon", "col:on", "eq=,=",
	"ünï,cødé", "%20,%2C", "plus+,", "[br],(ack)", "back\\slash,", "dot.,.d", "..,", "~,'\"",
}

var healOddZips = []string{"build.zip", "build.zip", "build,v2.zip", "b.zip,", ",.zip", "archive,build.zip", "b u,i l d", "build.zip?x=1,2#y"}

// healServe makes the archive available on a loopback HTTP server (range requests supported) at a
// URL with commas in a path segment and in the query values, as signed download URLs have.
var healHTTP struct {
	sync.Mutex
	srv   *httptest.Server
	files map[string]string
}

func healServe(zipPath string, idx int) (string, func(), error) {
	h := &healHTTP
	h.Lock()
	defer h.Unlock()
	if h.srv == nil {
		h.files = map[string]string{}
		h.srv = httptest.NewServer(http.HandlerFunc(func(w http.ResponseWriter, req *http.Request) {
			parts := strings.SplitN(strings.TrimPrefix(req.URL.Path, "/"), "/", 2)
			h.Lock()
			p, ok := h.files[parts[0]]
			h.Unlock()
			f, err := os.Open(p)
			if !ok || err != nil {
				http.NotFound(w, req)
				return
			}
			defer f.Close()
			http.ServeContent(w, req, "build.zip", time.Time{}, f)
		}))
	}
	key := fmt.Sprintf("c06-%d", idx)
	h.files[key] = zipPath
	forms := []string{"game,linux,v2/build.zip?sig=a,b&exp=1,2", "build,v2.zip", "b/a,,b/c.zip?k=,", "build.zip?parts=1,2,3"}
	url := fmt.Sprintf("%s/%s/%s", h.srv.URL, key, forms[idx%len(forms)])
	return url, func() { h.Lock(); delete(h.files, key); h.Unlock() }, nil
}

// oddWhere: a location for the archive with one or two odd directory names and an odd file name
func oddWhere(r *lib.Rng) string {
	w := healOddDirs[r.Intn(len(healOddDirs))]
	if r.Chance(1, 3) {
		w += "/" + healOddDirs[r.Intn(len(healOddDirs))]
	}
	return w + "/" + healOddZips[r.Intn(len(healOddZips))]
}

// ---------- builds with more entries than the wound channel has slots ----------

// woundSlots: capacity of ValidatorContext.Wounds (pwr/validator.go)
const woundSlots = 1024

type manyOpts struct {
	Dirs, Links, Files int
	Tops               int // number of top-level directories (everything else is below them)
	Depth              int // largest nesting depth
}

// genManyBuild: Dirs directories (Tops of them at top level, the others below, up to Depth
// levels), Links symlinks and Files small files spread over them.
func genManyBuild(r *lib.Rng, o manyOpts) hTree {
	t := hTree{}
	type dd struct {
		p     string
		depth int
	}
	var dirs []dd
	for i := 0; i < o.Dirs; i++ {
		if i < o.Tops || len(dirs) == 0 {
			p := fmt.Sprintf("d%d", i)
			t[p] = hNode{Kind: "dir"}
			dirs = append(dirs, dd{p, 1})
			continue
		}
		par := dirs[r.Intn(len(dirs))]
		for tries := 0; par.depth >= o.Depth && tries < 50; tries++ {
			par = dirs[r.Intn(len(dirs))]
		}
		p := fmt.Sprintf("%s/d%d", par.p, i)
		t[p] = hNode{Kind: "dir"}
		dirs = append(dirs, dd{p, par.depth + 1})
	}
	where := func() string {
		if len(dirs) == 0 {
			return ""
		}
		return dirs[r.Intn(len(dirs))].p
	}
	join := func(d, n string) string {
		if d == "" {
			return n
		}
		return d + "/" + n
	}
	var files []string
	for i := 0; i < o.Files; i++ {
		p := join(where(), fmt.Sprintf("f%d", i))
		size := []int{0, 1, 17, 100}[r.Intn(4)]
		if i == 0 {
			size = healBS + 1
		}
		t[p] = hNode{Kind: "file", Data: structuredContent(r, size)}
		files = append(files, p)
	}
	for i := 0; i < o.Links; i++ {
		d := where()
		var dest string
		switch k := r.Intn(3); {
		case k == 0 && len(files) > 0:
			dest = relDest(d, files[r.Intn(len(files))])
		case k == 1 && len(dirs) > 0:
			dest = relDest(d, dirs[r.Intn(len(dirs))].p)
		default:
			dest = fmt.Sprintf("n%d", r.Intn(10))
		}
		t[join(d, fmt.Sprintf("l%d", i))] = hNode{Kind: "link", Dest: dest}
	}
	return t
}

// genManyCase: the number of wounds of one kind against the 1024 slots of the wound channel
// (validator.go) - the directory and symlink passes of the validator send all their wounds before
// the first file is looked at, the file pass sends its wounds while the healer is already
// rewriting files.  Shapes in turn: (0) directories + symlinks = slots + 1 .. slots + 300, target
// missing; (1) everything below ONE top-level directory that is replaced by a file / symlink /
// removed (one swap hides more than 1024 entries); (2) more than 1024 files, target empty;
// (3) more than 1024 symlinks in a few directories, every one deleted or retargeted; (4) more
// than 1024 directories, every leaf directory removed and every top-level directory swapped;
// (5) exactly slots / slots + 1 directory and symlink wounds; (6) more than 1024 of each kind,
// target missing; (7) more than 1024 files, every one deleted / emptied / extended / flipped.
// Oracle only: thousands of entries under 24 schedules are out of reach of the model.
func genManyCase(r *lib.Rng, j int) *healCase {
	over := func() int { return woundSlots + []int{1, 2, 7, 76, 300}[r.Intn(5)] }
	var o manyOpts
	shape := j % 8
	switch shape {
	case 0:
		nl := r.Range(0, 60)
		o = manyOpts{Dirs: over() - nl, Links: nl, Files: r.Range(1, 40), Tops: r.Range(1, 40), Depth: 4}
	case 1:
		o = manyOpts{Dirs: over(), Links: r.Range(0, 40), Files: r.Range(1, 40), Tops: 1, Depth: 5}
	case 2:
		o = manyOpts{Dirs: r.Range(0, 20), Links: r.Range(0, 5), Files: over(), Tops: 3, Depth: 3}
	case 3:
		o = manyOpts{Dirs: r.Range(1, 20), Links: over(), Files: r.Range(1, 10), Tops: 3, Depth: 3}
	case 4:
		o = manyOpts{Dirs: over(), Links: r.Range(0, 10), Files: r.Range(1, 40), Tops: r.Range(2, 30), Depth: 3}
	case 5:
		nl := r.Range(0, 30)
		o = manyOpts{Dirs: woundSlots + r.Intn(2) - nl, Links: nl, Files: r.Range(1, 20), Tops: r.Range(1, 40), Depth: 4}
	case 6:
		o = manyOpts{Dirs: over(), Links: over(), Files: over(), Tops: r.Range(1, 40), Depth: 4}
	default:
		o = manyOpts{Dirs: r.Range(1, 30), Links: r.Range(0, 5), Files: over(), Tops: 4, Depth: 3}
	}
	signed := genManyBuild(r, o)
	hc := &healCase{Signed: signed, Procs: []int{1, 2, 16}, OracleOnly: true,
		Shape: fmt.Sprintf("genManyCase j=%d: %d dirs (%d at top level, depth <= %d), %d symlinks, %d files", j, o.Dirs, o.Tops, o.Depth, o.Links, o.Files)}
	cur := validTree(signed)
	asideN := 0
	// every: one damage of the given kinds to every (still usable) entry of the given kind
	every := func(kind string, dmg func(p string)) {
		for _, p := range signed.paths() {
			if n, ok := cur["t0/"+p]; ok && signed[p].Kind == kind && n.Kind == kind {
				dmg(p)
			}
		}
	}
	swapDir := func(p string) {
		tp := "t0/" + p
		switch r.Intn(4) {
		case 0:
			cur.removeTree(tp)
			cur[tp] = hNode{Kind: "file", Data: []byte("was a directory")}
		case 1:
			cur.removeTree(tp)
			cur[tp] = hNode{Kind: "link", Dest: "n78"}
		case 2:
			asideN++
			a := fmt.Sprintf("z%d", asideN)
			cur.moveTree(tp, a)
			cur[tp] = hNode{Kind: "link", Dest: relDest(tp[:strings.LastIndex(tp, "/")], a)}
		default:
			cur.removeTree(tp)
		}
	}
	switch shape {
	case 0, 6:
		hc.Class = "many-oracle-only/dirs+links>slots/root-missing"
		if shape == 6 {
			hc.Class = "many-oracle-only/all-kinds>slots/root-missing"
		}
		cur = hTree{}
		hc.Damages = []string{"root-missing"}
	case 1:
		hc.Class = "many-oracle-only/one-swap-hides>slots"
		swapDir("d0")
		hc.Damages = []string{"dir->other:d0 (everything is below it)"}
	case 2:
		hc.Class = "many-oracle-only/files>slots/root-empty"
		cur = hTree{"t0": hNode{Kind: "dir"}}
		hc.Damages = []string{"root-empty"}
	case 3:
		hc.Class = "many-oracle-only/links>slots/every-link"
		every("link", func(p string) {
			if r.Bool() {
				delete(cur, "t0/"+p)
				hc.Damages = append(hc.Damages, "unlink:"+p)
			} else {
				cur["t0/"+p] = hNode{Kind: "link", Dest: fmt.Sprintf("n%d", 10+r.Intn(10))}
				hc.Damages = append(hc.Damages, "retarget:"+p)
			}
		})
	case 4:
		hc.Class = "many-oracle-only/dirs>slots/leaves+tops"
		hasChild := map[string]bool{}
		for p := range signed {
			if i := strings.LastIndex(p, "/"); i >= 0 {
				hasChild[p[:i]] = true
			}
		}
		every("dir", func(p string) {
			switch {
			case !hasChild[p]:
				delete(cur, "t0/"+p)
				hc.Damages = append(hc.Damages, "rmdir:"+p)
			case !strings.Contains(p, "/") && r.Bool():
				swapDir(p)
				hc.Damages = append(hc.Damages, "dir->other:"+p)
			}
		})
	case 5:
		hc.Class = fmt.Sprintf("many-oracle-only/dirs+links=slots%+d/root-missing", o.Dirs+o.Links-woundSlots)
		cur = hTree{}
		hc.Damages = []string{"root-missing"}
	default:
		hc.Class = "many-oracle-only/files>slots/every-file"
		every("file", func(p string) {
			d := cur["t0/"+p].Data
			switch k := r.Intn(4); {
			case k == 0:
				delete(cur, "t0/"+p)
				hc.Damages = append(hc.Damages, "delete:"+p)
			case k == 1 && len(d) > 0:
				cur["t0/"+p] = hNode{Kind: "file"}
				hc.Damages = append(hc.Damages, "emptied:"+p)
			case k == 2 && len(d) > 0:
				cur["t0/"+p] = hNode{Kind: "file", Data: flipAt(d, r.Intn(len(d)))}
				hc.Damages = append(hc.Damages, "flip:"+p)
			default:
				cur["t0/"+p] = hNode{Kind: "file", Data: append(append([]byte(nil), d...), 'x')}
				hc.Damages = append(hc.Damages, "extend:"+p+"+1")
			}
		})
	}
	hc.Damaged = cur
	return hc
}

func runC06(c *Ctx) error {
	if os.Getenv("WHARFOBS_C06_ONLY") == "fsmodel" { // debugging aid
		return runFSModel(c)
	}
	idx := 0
	hung := false
	run := func(hc *healCase) error {
		err := runHealCase(c, hc, idx)
		idx++
		hung = hung || hc.Hung
		return err
	}
	// place: half of the generated cases keep their archive at a location with commas, blanks, '?', ...;
	// a quarter name it by a relative path, an eighth by a URL
	place := func(hc *healCase, r *lib.Rng) *healCase {
		if r.Chance(1, 2) {
			hc.Where = oddWhere(r)
		}
		switch r.Intn(8) {
		case 0, 1:
			hc.Loc = "rel"
		case 2:
			hc.Loc = "http"
		}
		return hc
	}
	for _, hc := range healCorpus() {
		if err := run(hc); err != nil {
			return err
		}
	}
	r := c.Rng.Fork()
	n := c.N(108, 800)
	for i := 0; i < n; i++ {
		cr := r.Fork()
		if err := run(place(genHealCase(cr, i), cr)); err != nil {
			return err
		}
	}
	// block-wise damage patterns inside multi-block files
	rb := c.Rng.Fork()
	for j, m := 0, c.N(11, 96); j < m; j++ {
		cr := rb.Fork()
		if err := run(place(genBlockwiseCase(cr, j), cr)); err != nil {
			return err
		}
	}
	// runs of damaged blocks longer than the largest wound
	rg := c.Rng.Fork()
	for j, m := 0, c.N(2, 12); j < m; j++ {
		cr := rg.Fork()
		if err := run(place(genBigFileCase(cr, j), cr)); err != nil {
			return err
		}
	}
	// symlinks whose signed destination is not in canonical form
	rl := c.Rng.Fork()
	for j, m := 0, c.N(12, 96); j < m; j++ {
		cr := rl.Fork()
		if err := run(place(genOddLinkCase(cr, j), cr)); err != nil {
			return err
		}
	}
	// more wounds of one kind than the wound channel has slots (shape 0 is also a corpus case).
	// Every hang costs the 60 s deadline and leaves goroutines of the implementation behind: after
	// the first one the rest of this stream is skipped.
	rm := c.Rng.Fork()
	for j, m := 1, c.N(4, 32); j <= m && !hung; j++ {
		cr := rm.Fork()
		if err := run(place(genManyCase(cr, j), cr)); err != nil {
			return err
		}
	}
	return runFSModel(c)
}
