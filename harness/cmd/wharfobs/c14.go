package main

// C14 — an overlay turns the old file into the new file, whatever the write pattern.
//
// Groups (both compared with the same Gallina model, Overlay/Writer.v + Overlay/Patch.v):
//   "ow"   : overlay.NewOverlayWriter on os.Files, sessions resumed from the offsets reported
//            after Flush, overlay.Patch + truncate exactly as bowl_overlay.go:applyOverlays does
//   "bowl" : the same schedules driven through bowl.NewOverlayBowl (GetWriter / Resume / Save /
//            Finalize / Commit), i.e. the resume and truncate code of pwr/bowl/bowl_overlay.go
//
// The window size (128 KiB) and skip threshold (8 KiB) are unexported constants of
// pwr/overlay, so the implementation always runs at the real constants; contents are
// piecewise constant so that the case files stay small (run-length encoded).

import (
	"bytes"
	"fmt"
	"io"
	"os"
	"path/filepath"
	"sort"
	"strings"
	"time"

	"github.com/itchio/lake/tlc"
	"github.com/itchio/savior/seeksource"
	"github.com/itchio/wharf/pwr/bowl"
	"github.com/itchio/wharf/pwr/overlay"
	"github.com/itchio/wharf/wire"

	"verif/harness/lib"
)

func init() { register("C14", runC14) }

const (
	ovBuf = 128 * 1024 // pwr/overlay: overlayBufSize
	ovThr = 8 * 1024   // pwr/overlay: overlaySameThreshold
)

// ---------------------------------------------------------------- plans

// c14Ev is one step of a writer session: a Write of W bytes (F false) or a Flush (F true).
type c14Ev struct {
	W int
	F bool
}

// c14Sess is one writer session. Every session but the last ends with a Flush whose reported
// offsets are the resume point of the next one; what follows describes how the process
// "dies": more data may be written through the same writer (lost, re-fed by the next
// session), the overlay file may be cut at the saved offset, junk may be appended.
type c14Sess struct {
	Evs       []c14Ev
	ContBytes int    // bytes of new content written after the save (then lost)
	ContChunk int    // in writes of this size
	ContEnd   string // "none" | "flush" | "finalize"
	Trunc     bool   // cut the overlay file at the saved overlay offset
	Junk      []byte // appended to the overlay file afterwards
}

type c14Plan struct {
	Old, New []byte
	Sess     []c14Sess
	Tags     []string // generator classes hit by this case
	Recipe   map[string]interface{}
}

func (p *c14Plan) tag(s string) {
	for _, t := range p.Tags {
		if t == s {
			return
		}
	}
	p.Tags = append(p.Tags, s)
}

// windows re-enacts the documented bufio.Writer protocol to find where the processing
// windows of the overlay writer fall (as [start,end) offsets in the new content). It is
// used by the generator only, to aim equal runs at window boundaries.
func c14Windows(sess []c14Sess) [][2]int {
	var out [][2]int
	pos, buffered := 0, 0
	emit := func(a, b int) {
		if b > a {
			out = append(out, [2]int{a, b})
		}
	}
	for _, s := range sess {
		for _, e := range s.Evs {
			if e.F {
				emit(pos-buffered, pos)
				buffered = 0
				continue
			}
			n := e.W
			for n > ovBuf-buffered {
				if buffered == 0 {
					// direct write: overlayProcessor.Write stops as soon as the bytes written
					// reach the length of what is left, and bufio goes round again
					written := 0
					for written < n {
						k := n
						if k > ovBuf {
							k = ovBuf
						}
						emit(pos, pos+k)
						pos += k
						n -= k
						written += k
					}
				} else {
					k := ovBuf - buffered
					pos += k
					n -= k
					emit(pos-ovBuf, pos)
					buffered = 0
				}
			}
			buffered += n
			pos += n
		}
		emit(pos-buffered, pos) // save / finalize flushes
		buffered = 0
	}
	return out
}

var c14NewLens = []int{0, 1, 2, 77, ovThr - 1, ovThr, ovThr + 1, ovThr + 2, 2*ovThr + 1, 70000, ovBuf - 1, ovBuf, ovBuf + 1,
	ovBuf + ovThr, ovBuf + ovThr + 1, 2*ovBuf - 1, 2 * ovBuf, 2*ovBuf + 1, 3*ovBuf + 5, 4*ovBuf + ovThr + 1, 5 * ovBuf}

var c14Chunks = []int{1, 2, 7, 100, 4096, ovThr, ovThr + 1, 65536, ovBuf - 1, ovBuf, ovBuf + 1, 2 * ovBuf, 2*ovBuf + 1, 300000, 3*ovBuf + 17}

func c14Partition(r *lib.Rng, n int, p *c14Plan) []int {
	var out []int
	fixed := func(c int) {
		for rem := n; rem > 0; rem -= c {
			if rem < c {
				out = append(out, rem)
				break
			}
			out = append(out, c)
		}
	}
	switch k := r.Intn(10); {
	case k == 0:
		p.tag("part:one")
		if n > 0 || r.Bool() {
			out = []int{n}
		}
	case k <= 4:
		c := c14Chunks[r.Intn(len(c14Chunks))]
		p.tag(fmt.Sprintf("part:fixed%d", c))
		fixed(c)
	case k <= 6:
		// hug the multiples of the window size: land exactly on them, one before, one after
		p.tag("part:hug")
		pos := 0
		for pos < n {
			next := (pos/ovBuf + 1) * ovBuf
			d := []int{next - pos - 1, next - pos, next - pos + 1, 1, 1, ovBuf, ovBuf + 1}[r.Intn(7)]
			if d <= 0 {
				d = 1
			}
			if pos+d > n {
				d = n - pos
			}
			out = append(out, d)
			pos += d
		}
	default:
		p.tag("part:mixed")
		pos := 0
		for pos < n {
			d := []int{1, 3, 100, 4096, ovThr + 1, 65535, ovBuf - 1, ovBuf, ovBuf + 1, 140000, 2*ovBuf + 1, 300001}[r.Intn(12)]
			if r.Chance(1, 3) {
				d = r.Range(1, 200000)
			}
			if d < 50 && r.Chance(2, 3) { // a burst of small writes
				for j := r.Range(1, 400); j > 0 && pos < n; j-- {
					dd := d
					if pos+dd > n {
						dd = n - pos
					}
					out = append(out, dd)
					pos += dd
				}
				continue
			}
			if pos+d > n {
				d = n - pos
			}
			out = append(out, d)
			pos += d
		}
	}
	if len(out) > 0 && r.Chance(1, 6) { // empty writes are legal too
		at := r.Intn(len(out) + 1)
		out = append(out[:at:at], append([]int{0}, out[at:]...)...)
		p.tag("part:+empty")
	}
	return out
}

// c14Schedule cuts the writes into sessions and sprinkles flushes.
func c14Schedule(r *lib.Rng, writes []int, p *c14Plan) []c14Sess {
	nw := len(writes)
	pick := func(k int) map[int]int { // write index -> count, "after write i"
		m := map[int]int{}
		for ; k > 0 && nw > 0; k-- {
			m[r.Intn(nw)]++
		}
		return m
	}
	nFlush := []int{0, 0, 1, 3, 10, 30}[r.Intn(6)]
	flushAfter := pick(nFlush)
	if nw > 0 && nw <= 40 && r.Chance(1, 5) {
		p.tag("flush:every")
		for i := 0; i < nw; i++ {
			flushAfter[i] = 1 + r.Intn(5)/4 // now and then twice in a row
		}
	}
	nSplit := []int{0, 0, 0, 1, 1, 2, 3}[r.Intn(7)]
	splitAfter := pick(nSplit)
	if nFlush > 0 {
		p.tag("flush:some")
	}
	var sess []c14Sess
	cur := c14Sess{}
	pos := 0
	total := 0
	for _, w := range writes {
		total += w
	}
	// die closes the current session at the present position: its final save is the resume
	// point of the next one; what the dying process still does to the overlay file is drawn here
	die := func() {
		switch r.Intn(5) {
		case 0: // clean: nothing after the save
			p.tag("stale:none")
		case 1, 2: // the writer went on for a while
			cur.ContBytes = []int{1, 100, ovThr + 5, ovBuf, ovBuf + 1, 2*ovBuf + 100}[r.Intn(6)]
			if cur.ContBytes > total-pos {
				cur.ContBytes = total - pos
			}
			cur.ContChunk = []int{1, 4096, ovBuf, 3 * ovBuf}[r.Intn(4)]
			cur.ContEnd = []string{"none", "flush", "finalize"}[r.Intn(3)]
			p.tag("stale:cont-" + cur.ContEnd)
		case 3: // went on, then the file was cut back and junk appended
			cur.ContBytes = r.Range(0, 3000)
			if cur.ContBytes > total-pos {
				cur.ContBytes = total - pos
			}
			cur.ContChunk = 512
			cur.ContEnd = "flush"
			cur.Trunc = true
			cur.Junk = c14Junk(r)
			p.tag("stale:cut+junk")
		default: // junk after whatever is there
			cur.ContBytes = []int{0, 50, 20000}[r.Intn(3)]
			if cur.ContBytes > total-pos {
				cur.ContBytes = total - pos
			}
			cur.ContChunk = 4096
			cur.ContEnd = []string{"none", "flush", "finalize"}[r.Intn(3)]
			cur.Junk = c14Junk(r)
			p.tag("stale:cont+junk")
		}
		sess = append(sess, cur)
		cur = c14Sess{}
	}
	// idle adds, now and then, a resumed session that consumes nothing: it is opened at the
	// saved offsets, (flushes,) saves again and dies - the next one resumes from *its* report
	idle := func() {
		for k := 0; k < 2 && r.Chance(1, 5); k++ {
			if r.Chance(1, 3) {
				cur.Evs = append(cur.Evs, c14Ev{F: true})
			}
			p.tag("resume:idle-session")
			die()
		}
	}
	if r.Chance(1, 8) {
		cur.Evs = append(cur.Evs, c14Ev{F: true}) // flush before anything was written
		p.tag("flush:first")
	}
	if r.Chance(1, 5) {
		// the save point lies before the first byte of new content (the patcher asks "should I
		// save?" before it relays the first operation of a file): read offset 0, overlay offset
		// just past magic + header
		p.tag("resume:at-zero")
		die()
		idle()
	}
	for i, w := range writes {
		cur.Evs = append(cur.Evs, c14Ev{W: w})
		pos += w
		for k := flushAfter[i]; k > 0; k-- {
			cur.Evs = append(cur.Evs, c14Ev{F: true})
		}
		if splitAfter[i] > 0 {
			if pos == 0 {
				p.tag("resume:at-zero") // only empty writes so far
			}
			if pos == total {
				p.tag("resume:at-end") // the last session has nothing left to write
			}
			die()
			idle()
		}
	}
	sess = append(sess, cur)
	if len(sess) > 4 {
		p.tag("sessions:5+")
	} else {
		p.tag(fmt.Sprintf("sessions:%d", len(sess)))
	}
	return sess
}

func c14Junk(r *lib.Rng) []byte {
	switch r.Intn(4) {
	case 0:
		return bytes.Repeat([]byte{0}, r.Range(1, 300)) // decodes as empty messages
	case 1:
		return bytes.Repeat([]byte{0xff}, r.Range(1, 300))
	case 2: // a well-formed end marker: "\x03\x08\xf8\x0f"
		return []byte{3, 8, 0xf8, 0x0f}
	default:
		return r.Bytes(r.Range(1, 40))
	}
}

// c14Contents builds old/new: a mask of equal/different stretches aimed at the windows, then
// piecewise-constant old bytes and new = old where equal, old+1.. where different.
func c14Contents(r *lib.Rng, lenNew int, wins [][2]int, p *c14Plan) {
	// length relation
	lenOld := lenNew
	switch r.Intn(12) {
	case 0:
		lenOld = 0
		p.tag("len:old-empty")
	case 1, 2:
		d := []int{1, 100, ovThr, ovThr + 1, ovBuf, ovBuf + 3, 2*ovBuf + 1}[r.Intn(7)]
		lenOld = lenNew + d
		p.tag("len:new-shorter")
	case 3, 4:
		d := []int{1, 100, ovThr, ovThr + 1, ovBuf, ovBuf + 3, 2*ovBuf + 1}[r.Intn(7)]
		if r.Chance(1, 3) && lenNew > 0 {
			d = r.Range(1, lenNew)
		}
		lenOld = lenNew - d
		if lenOld < 0 {
			lenOld = 0
		}
		p.tag("len:new-longer")
	default:
		p.tag("len:same")
	}
	if lenNew == 0 {
		p.tag("len:new-empty")
	}
	common := lenNew
	if lenOld < common {
		common = lenOld
	}
	eq := make([]bool, common)
	// base fill
	switch r.Intn(8) {
	case 0:
		p.tag("mask:all-different")
	case 1:
		p.tag("mask:all-equal")
		for i := range eq {
			eq[i] = true
		}
	default:
		p.tag("mask:segments")
		eqLens := []int{1, 5, 100, 4000, ovThr - 1, ovThr, ovThr + 1, ovThr + 2, 9000, 20000, 70000, ovBuf, ovBuf + 5, 200000}
		neLens := []int{1, 1, 2, 50, 3000, 10000}
		on := r.Bool()
		for pos := 0; pos < common; {
			var l int
			if on {
				l = eqLens[r.Intn(len(eqLens))]
			} else {
				l = neLens[r.Intn(len(neLens))]
			}
			for j := pos; j < pos+l && j < common; j++ {
				eq[j] = on
			}
			pos += l
			on = !on
		}
	}
	// equal runs of exactly L bytes aimed at the windows
	stamp := func(a, l int, what string) {
		if a < 0 || a+l > common || l <= 0 {
			return
		}
		if a > 0 {
			eq[a-1] = false
		}
		for j := a; j < a+l; j++ {
			eq[j] = true
		}
		if a+l < common {
			eq[a+l] = false
		}
		p.tag(what)
	}
	if len(wins) > 0 {
		for k := r.Range(1, 6); k > 0; k-- {
			wi := r.Intn(len(wins))
			s, e := wins[wi][0], wins[wi][1]
			l := []int{ovThr - 1, ovThr, ovThr + 1, ovThr + 2}[r.Intn(4)]
			name := fmt.Sprintf("run%+d", l-ovThr)
			switch r.Intn(6) {
			case 0:
				if e-s >= l {
					stamp(s, l, name+"@win-start")
				}
			case 1:
				if e-s >= l {
					stamp(e-l, l, name+"@win-end")
				}
			case 2:
				if e-s >= l+2 {
					stamp(s+(e-s-l)/2, l, name+"@win-middle")
				}
			case 3: // across the boundary at e: k bytes before it
				kk := []int{1, 2, l / 2, l - 2, l - 1}[r.Intn(5)]
				if e-s >= kk {
					stamp(e-kk, l, name+"@across")
				}
			case 4: // two threshold-sized halves around the boundary: long in total, short in each window
				if e-s >= ovThr {
					stamp(e-ovThr, 2*ovThr, "run2x8192@across")
				}
			default: // whole window equal, neighbours different
				stamp(s, e-s, "run=window")
			}
		}
	}
	// old: piecewise constant
	old := make([]byte, lenOld)
	for pos := 0; pos < lenOld; {
		l := r.Range(200, 40000)
		if r.Chance(1, 10) {
			l = r.Range(1, 3)
		}
		v := byte(r.Intn(250))
		for j := pos; j < pos+l && j < lenOld; j++ {
			old[j] = v
		}
		pos += l
	}
	nw := make([]byte, lenNew)
	for pos := common; pos < lenNew; {
		l := r.Range(200, 40000)
		v := byte(r.Intn(250))
		for j := pos; j < pos+l && j < lenNew; j++ {
			nw[j] = v
		}
		pos += l
	}
	d := byte(1)
	for i := 0; i < common; i++ {
		if eq[i] {
			nw[i] = old[i]
		} else {
			if i > 0 && eq[i-1] {
				d = byte(r.Range(1, 5))
			}
			nw[i] = old[i] + d
		}
	}
	// a later part of the new file repeats the *beginning* of the old file while the old file
	// differs there: a session resumed with its old-file reader at the wrong place (offset 0
	// instead of the saved read offset) would take it for unchanged
	if len(p.Sess) > 1 && r.Chance(1, 2) {
		x := 0
		k := r.Intn(len(p.Sess) - 1)
		for i := 0; i <= k; i++ {
			for _, e := range p.Sess[i].Evs {
				if !e.F {
					x += e.W
				}
			}
		}
		l := x
		if lenNew-x < l {
			l = lenNew - x
		}
		if lenOld < l {
			l = lenOld
		}
		if l > 30000 {
			l = 30000
		}
		if x > 0 && l > 0 {
			for j := 0; j < l; j++ {
				nw[x+j] = old[j]
				if x+j < lenOld {
					old[x+j] = old[j] + 3
				}
			}
			p.tag("selfsimilar@resume")
		}
	}
	p.Old, p.New = old, nw
}

func c14Gen(r *lib.Rng, thorough bool) *c14Plan {
	p := &c14Plan{Recipe: map[string]interface{}{}}
	lenNew := c14NewLens[r.Intn(len(c14NewLens))]
	if r.Chance(1, 3) {
		lenNew = r.Range(0, 4*ovBuf)
	}
	if thorough && r.Chance(1, 6) {
		lenNew = r.Range(5*ovBuf, 9*ovBuf)
	}
	if !thorough && lenNew > 2*ovBuf+1 && r.Chance(2, 3) {
		// the quick tier keeps a few multi-window cases and draws most lengths below 2 windows
		// (the model evaluates every byte inside Coq)
		lenNew = []int{ovThr + 1, 70000, ovBuf - 1, ovBuf, ovBuf + 1, ovBuf + ovThr + 1, 2*ovBuf - 1, 2 * ovBuf, 2*ovBuf + 1}[r.Intn(9)]
	}
	writes := c14Partition(r, lenNew, p)
	p.Sess = c14Schedule(r, writes, p)
	c14Contents(r, lenNew, c14Windows(p.Sess), p)
	return p
}

// ---------------------------------------------------------------- running the implementation

type c14Obs struct {
	Class   string // ok | error | panic | hang
	Msg     string
	Oracle  string
	Ops     [][2]int64 // decoded overlay messages (type, length) up to the end marker
	Offsets [][2]int64 // (ReadOffset, OverlayOffset) after every Flush and every save
	Final   []byte     // file content after patch + truncate
	Stale   [][]byte   // per non-final session: bytes of the overlay file after the saved offset when the next session starts
}

// c14Writer abstracts the two ways of driving the overlay writer.
type c14Writer interface {
	Write(b []byte) (int, error)
	Flush() (ro, oo int64, err error) // flush, then report the offsets
	Finalize() error
	Close() error
}

type c14Driver interface {
	Open(ro, oo int64, first bool, consumed int64) (c14Writer, error)
	OverlayPath() string
	Freeze()                // the offsets of the last Flush are the resume point of the next session
	Apply() ([]byte, error) // patch + truncate; returns the resulting file
}

// --- direct driver: overlay package on os.Files

type c14Direct struct {
	dir string
	old []byte
}

type c14DirectW struct {
	ow  overlay.OverlayWriter
	f   *os.File
	r   *os.File
	pos *c14CountW
}

// c14CountW measures independently how far the overlay file has been written.
type c14CountW struct {
	f   *os.File
	pos int64
}

func (c *c14CountW) Write(b []byte) (int, error) {
	n, err := c.f.Write(b)
	c.pos += int64(n)
	return n, err
}

func (d *c14Direct) OverlayPath() string { return filepath.Join(d.dir, "overlay") }
func (d *c14Direct) Freeze()             {}

func (d *c14Direct) Open(ro, oo int64, first bool, consumed int64) (c14Writer, error) {
	r, err := os.Open(filepath.Join(d.dir, "old"))
	if err != nil {
		return nil, err
	}
	flags := os.O_RDWR | os.O_CREATE
	f, err := os.OpenFile(d.OverlayPath(), flags, 0o644)
	if err != nil {
		return nil, err
	}
	if _, err := r.Seek(ro, io.SeekStart); err != nil {
		return nil, err
	}
	if _, err := f.Seek(oo, io.SeekStart); err != nil {
		return nil, err
	}
	cw := &c14CountW{f: f, pos: oo}
	ow, err := overlay.NewOverlayWriter(r, ro, cw, oo)
	if err != nil {
		return nil, err
	}
	return &c14DirectW{ow: ow, f: f, r: r, pos: cw}, nil
}

func (w *c14DirectW) Write(b []byte) (int, error) { return w.ow.Write(b) }
func (w *c14DirectW) Flush() (int64, int64, error) {
	if err := w.ow.Flush(); err != nil {
		return 0, 0, err
	}
	ro, oo := w.ow.ReadOffset(), w.ow.OverlayOffset()
	if oo != w.pos.pos {
		return ro, oo, fmt.Errorf("oracle: OverlayOffset() = %d after Flush but %d bytes of overlay have been written", oo, w.pos.pos)
	}
	return ro, oo, nil
}
func (w *c14DirectW) Finalize() error { return w.ow.Finalize() }
func (w *c14DirectW) Close() error {
	w.r.Close()
	return w.f.Close()
}

// Apply mirrors bowl_overlay.go:applyOverlays on a copy of the old file.
func (d *c14Direct) Apply() ([]byte, error) {
	target := filepath.Join(d.dir, "target")
	if err := os.WriteFile(target, d.old, 0o644); err != nil {
		return nil, err
	}
	ov, err := os.ReadFile(d.OverlayPath())
	if err != nil {
		return nil, err
	}
	return c14PatchFile(target, ov)
}

func c14PatchFile(target string, ov []byte) ([]byte, error) {
	w, err := os.OpenFile(target, os.O_WRONLY, 0o644)
	if err != nil {
		return nil, err
	}
	defer w.Close()
	src := seeksource.FromBytes(ov)
	if _, err := src.Resume(nil); err != nil {
		return nil, err
	}
	ctx := &overlay.OverlayPatchContext{}
	if err := ctx.Patch(src, w); err != nil {
		return nil, err
	}
	finalSize, err := w.Seek(0, io.SeekCurrent)
	if err != nil {
		return nil, err
	}
	if err := w.Truncate(finalSize); err != nil {
		return nil, err
	}
	w.Close()
	return os.ReadFile(target)
}

// --- bowl driver: the overlay bowl of pwr/bowl

type c14Bowl struct {
	dir     string
	old     []byte
	newSize int64
	b       bowl.Bowl
	bcp     *bowl.BowlCheckpoint
	wcp     *bowl.WriterCheckpoint
	frozen  bool
}

type c14BowlW struct {
	d  *c14Bowl
	ew bowl.EntryWriter
}

func (d *c14Bowl) OverlayPath() string { return filepath.Join(d.dir, "stage", "f") }
func (d *c14Bowl) Freeze()             { d.frozen = true }

func (d *c14Bowl) containers() (*tlc.Container, *tlc.Container) {
	tc := &tlc.Container{Size: int64(len(d.old)), Files: []*tlc.File{{Path: "f", Mode: 0o644, Size: int64(len(d.old))}}}
	sc := &tlc.Container{Size: d.newSize, Files: []*tlc.File{{Path: "f", Mode: 0o644, Size: d.newSize}}}
	return tc, sc
}

func (d *c14Bowl) Open(ro, oo int64, first bool, consumed int64) (c14Writer, error) {
	if d.b != nil { // the previous process is gone
		d.b.Close()
	}
	d.frozen = false
	tc, sc := d.containers()
	b, err := bowl.NewOverlayBowl(bowl.OverlayBowlParams{TargetContainer: tc, SourceContainer: sc,
		OutputFolder: filepath.Join(d.dir, "out"), StageFolder: filepath.Join(d.dir, "stage"), Consumer: lib.Quiet})
	if err != nil {
		return nil, err
	}
	d.b = b
	if !first {
		if err := b.Resume(d.bcp); err != nil {
			return nil, err
		}
	}
	ew, err := b.GetWriter(0)
	if err != nil {
		return nil, err
	}
	var cp *bowl.WriterCheckpoint
	if !first {
		cp = d.wcp
		cc, ok := cp.Data.(*bowl.OverlayEntryWriterCheckpoint)
		if !ok || cc.ReadOffset != ro || cc.OverlayOffset != oo {
			return nil, fmt.Errorf("harness: checkpoint does not carry the saved offsets")
		}
	}
	off, err := ew.Resume(cp)
	if err != nil {
		return nil, err
	}
	if off != consumed {
		return nil, fmt.Errorf("oracle: entry writer resumed at source offset %d, %d bytes had been consumed at the save", off, consumed)
	}
	return &c14BowlW{d: d, ew: ew}, nil
}

func (w *c14BowlW) Write(b []byte) (int, error) { return w.ew.Write(b) }
func (w *c14BowlW) Flush() (int64, int64, error) {
	cp, err := w.ew.Save()
	if err != nil {
		return 0, 0, err
	}
	cc, ok := cp.Data.(*bowl.OverlayEntryWriterCheckpoint)
	if !ok {
		return 0, 0, fmt.Errorf("oracle: Save() returned a checkpoint of type %T", cp.Data)
	}
	bcp, err := w.d.b.Save()
	if err != nil {
		return 0, 0, err
	}
	if !w.d.frozen {
		w.d.wcp, w.d.bcp = cp, bcp
	}
	if cp.Offset != w.ew.Tell() {
		return cc.ReadOffset, cc.OverlayOffset, fmt.Errorf("oracle: checkpoint source offset %d differs from Tell() %d", cp.Offset, w.ew.Tell())
	}
	return cc.ReadOffset, cc.OverlayOffset, nil
}
func (w *c14BowlW) Finalize() error { return w.ew.Finalize() }
func (w *c14BowlW) Close() error    { return w.ew.Close() }

func (d *c14Bowl) Apply() ([]byte, error) {
	// the last bowl is still the current one: commit it
	if err := d.b.Commit(); err != nil {
		return nil, err
	}
	d.b.Close()
	return os.ReadFile(filepath.Join(d.dir, "out", "f"))
}

// --- shared

var c14EndMarker = func() []byte {
	var b bytes.Buffer
	wc := wire.NewWriteContext(&b)
	if err := wc.WriteMessage(&overlay.OverlayOp{Type: overlay.OverlayOp_HEY_YOU_DID_IT}); err != nil {
		panic(err)
	}
	return b.Bytes()
}()

// c14Decode reads the overlay the way Patch does: magic, then messages (the header is an
// empty message and reads as SKIP 0) up to the end marker.
func c14Decode(ov []byte) ([][2]int64, error) {
	src := seeksource.FromBytes(ov)
	if _, err := src.Resume(nil); err != nil {
		return nil, err
	}
	rc := wire.NewReadContext(src)
	if err := rc.ExpectMagic(overlay.OverlayMagic); err != nil {
		return nil, err
	}
	var ops [][2]int64
	op := &overlay.OverlayOp{}
	for {
		op.Reset()
		if err := rc.ReadMessage(op); err != nil {
			return ops, err
		}
		switch op.Type {
		case overlay.OverlayOp_FRESH:
			ops = append(ops, [2]int64{1, int64(len(op.Data))})
		case overlay.OverlayOp_SKIP:
			ops = append(ops, [2]int64{0, op.Len})
		default:
			ops = append(ops, [2]int64{int64(op.Type), 0})
		}
		if op.Type == overlay.OverlayOp_HEY_YOU_DID_IT {
			return ops, nil
		}
	}
}

// prefixCheck: the overlay cut at the reported overlay offset, closed with an end marker and
// applied to the old file must give exactly the bytes consumed so far.
func c14PrefixCheck(dir string, old, newc []byte, ovPath string, ro, oo, consumed int64) string {
	ov, err := os.ReadFile(ovPath)
	if err != nil {
		return "harness: " + err.Error()
	}
	if int64(len(ov)) < oo {
		return fmt.Sprintf("OverlayOffset() = %d after Flush but the overlay file has only %d bytes", oo, len(ov))
	}
	cut := append(append([]byte(nil), ov[:oo]...), c14EndMarker...)
	target := filepath.Join(dir, "prefix-target")
	if err := os.WriteFile(target, old, 0o644); err != nil {
		return "harness: " + err.Error()
	}
	defer os.Remove(target)
	var got []byte
	cls, msg := lib.Guard(func() error {
		var err error
		got, err = c14PatchFile(target, cut)
		return err
	})
	if cls != "ok" {
		return fmt.Sprintf("overlay cut at the reported overlay offset %d does not apply (%s: %s)", oo, cls, c14Short(msg))
	}
	if !bytes.Equal(got, newc[:consumed]) {
		return fmt.Sprintf("overlay cut at the reported offsets (read %d, overlay %d) yields %d bytes, first difference at %d; want the %d bytes consumed so far",
			ro, oo, len(got), c14FirstDiff(got, newc[:consumed]), consumed)
	}
	return ""
}

func c14Short(s string) string {
	if i := strings.IndexByte(s, '\n'); i >= 0 {
		s = s[:i]
	}
	if len(s) > 160 {
		s = s[:160]
	}
	return s
}

func c14FirstDiff(a, b []byte) int {
	n := len(a)
	if len(b) < n {
		n = len(b)
	}
	for i := 0; i < n; i++ {
		if a[i] != b[i] {
			return i
		}
	}
	return n
}

func c14Run(dir string, p *c14Plan, drv c14Driver, r *lib.Rng) *c14Obs {
	o := &c14Obs{}
	fail := func(s string) {
		if o.Oracle == "" {
			o.Oracle = s
		}
	}
	cls, msg := lib.WithDeadline(120*time.Second, func() error {
		consumed := int64(0)
		var ro, oo int64
		prefixBudget := 6
		for si := range p.Sess {
			s := &p.Sess[si]
			last := si == len(p.Sess)-1
			w, err := drv.Open(ro, oo, si == 0, consumed)
			if err != nil {
				return err
			}
			flush := func(save bool) error {
				a, b, err := w.Flush()
				if err != nil && !strings.HasPrefix(err.Error(), "oracle: ") {
					return err
				}
				if err != nil {
					fail(strings.TrimPrefix(err.Error(), "oracle: "))
				}
				o.Offsets = append(o.Offsets, [2]int64{a, b})
				if a != consumed {
					fail(fmt.Sprintf("ReadOffset() = %d after Flush, %d bytes have been consumed", a, consumed))
				}
				if save || (prefixBudget > 0 && r.Chance(1, 3)) {
					if !save {
						prefixBudget--
					}
					if msg := c14PrefixCheck(dir, p.Old, p.New, drv.OverlayPath(), a, b, consumed); msg != "" {
						fail(msg)
					}
				}
				ro, oo = a, b
				return nil
			}
			for _, e := range s.Evs {
				if e.F {
					if err := flush(false); err != nil {
						w.Close()
						return err
					}
					continue
				}
				n, err := w.Write(p.New[consumed : consumed+int64(e.W)])
				if err != nil {
					w.Close()
					return err
				}
				if n != e.W {
					w.Close()
					return fmt.Errorf("short write: %d of %d", n, e.W)
				}
				consumed += int64(e.W)
			}
			if last {
				if err := w.Finalize(); err != nil {
					w.Close()
					return err
				}
				if err := w.Close(); err != nil {
					return err
				}
				break
			}
			if err := flush(true); err != nil {
				w.Close()
				return err
			}
			drv.Freeze()
			// the process goes on for a while, then dies
			lost := consumed
			for rem := s.ContBytes; rem > 0; {
				k := s.ContChunk
				if k > rem {
					k = rem
				}
				if _, err := w.Write(p.New[lost : lost+int64(k)]); err != nil {
					w.Close()
					return err
				}
				lost += int64(k)
				rem -= k
			}
			switch s.ContEnd {
			case "flush":
				if _, _, err := w.Flush(); err != nil && !strings.HasPrefix(err.Error(), "oracle: ") {
					w.Close()
					return err
				}
			case "finalize":
				if err := w.Finalize(); err != nil {
					w.Close()
					return err
				}
			}
			if err := w.Close(); err != nil {
				return err
			}
			if s.Trunc {
				if err := os.Truncate(drv.OverlayPath(), oo); err != nil {
					return err
				}
			}
			if len(s.Junk) > 0 {
				f, err := os.OpenFile(drv.OverlayPath(), os.O_WRONLY|os.O_APPEND, 0o644)
				if err != nil {
					return err
				}
				f.Write(s.Junk)
				f.Close()
			}
			ov, err := os.ReadFile(drv.OverlayPath())
			if err != nil {
				return err
			}
			if int64(len(ov)) < oo {
				fail(fmt.Sprintf("overlay file has %d bytes, saved overlay offset is %d", len(ov), oo))
				o.Stale = append(o.Stale, nil)
			} else {
				o.Stale = append(o.Stale, ov[oo:])
			}
		}
		ov, err := os.ReadFile(drv.OverlayPath())
		if err != nil {
			return err
		}
		ops, derr := c14Decode(ov)
		o.Ops = ops
		if derr != nil {
			fail("the finished overlay does not decode up to an end marker: " + c14Short(derr.Error()))
		}
		final, err := drv.Apply()
		if err != nil {
			return err
		}
		o.Final = final
		return nil
	})
	o.Class, o.Msg = cls, c14Short(msg)
	if cls != "ok" {
		fail(fmt.Sprintf("writing or applying the overlay ended with %s: %s", cls, c14Short(msg)))
	} else if !bytes.Equal(o.Final, p.New) {
		fail(fmt.Sprintf("patched+truncated file has %d bytes, first difference from the new content (%d bytes) at offset %d",
			len(o.Final), len(p.New), c14FirstDiff(o.Final, p.New)))
	}
	return o
}

// ---------------------------------------------------------------- printing

func c14EvsCoq(evs []c14Ev) string {
	var items []string
	for i := 0; i < len(evs); {
		if evs[i].F {
			items = append(items, "F")
			i++
			continue
		}
		j := i
		for j < len(evs) && !evs[j].F && evs[j].W == evs[i].W {
			j++
		}
		items = append(items, fmt.Sprintf("W %d %d", evs[i].W, j-i))
		i = j
	}
	return "[" + strings.Join(items, "; ") + "]"
}

func c14PairsCoq(xs [][2]int64) string {
	s := make([]string, len(xs))
	for i, x := range xs {
		s[i] = fmt.Sprintf("(%d,%d)", x[0], x[1])
	}
	return "([" + strings.Join(s, ";") + "]%N)"
}

func c14Coq(p *c14Plan, o *c14Obs) string {
	var ss []string
	for i, s := range p.Sess {
		stale := "[]"
		if i < len(o.Stale) {
			stale = lib.ToRle(o.Stale[i]).Coq()
		}
		ss = append(ss, fmt.Sprintf("(%s, %s)", c14EvsCoq(s.Evs), stale))
	}
	return fmt.Sprintf("($ID%%N, %s, %s, [%s], (%s, %s, %s))", lib.ToRle(p.Old).Coq(), lib.ToRle(p.New).Coq(), strings.Join(ss, "; "),
		c14PairsCoq(o.Ops), c14PairsCoq(o.Offsets), lib.ToRle(o.Final).Coq())
}

func c14SessJ(p *c14Plan) []map[string]interface{} {
	var out []map[string]interface{}
	for _, s := range p.Sess {
		m := map[string]interface{}{"events": c14EvsCoq(s.Evs)}
		if s.ContBytes > 0 || s.ContEnd != "" {
			m["then"] = fmt.Sprintf("%d more bytes in writes of %d, %s", s.ContBytes, s.ContChunk, s.ContEnd)
		}
		if s.Trunc {
			m["cut"] = true
		}
		if len(s.Junk) > 0 {
			m["junk"] = lib.ToRle(s.Junk).String()
		}
		out = append(out, m)
	}
	return out
}

func c14Emit(c *Ctx, group string, p *c14Plan, o *c14Obs, corpus string) {
	sort.Strings(p.Tags)
	class := group
	if corpus != "" {
		class += "/corpus:" + corpus
	} else {
		var keep []string
		for _, t := range p.Tags {
			if strings.HasPrefix(t, "len:") || strings.HasPrefix(t, "sessions:") || strings.HasPrefix(t, "resume:") {
				keep = append(keep, t)
			}
		}
		class += "/" + strings.Join(keep, ",")
	}
	nSkip, nFresh := 0, 0
	for _, x := range o.Ops {
		if x[0] == 0 && x[1] > 0 {
			nSkip++
		}
		if x[0] == 1 {
			nFresh++
		}
	}
	input := map[string]interface{}{"old": lib.ToRle(p.Old).String(), "new": lib.ToRle(p.New).String(), "oldLen": len(p.Old), "newLen": len(p.New),
		"sessions": c14SessJ(p), "tags": p.Tags}
	obs := map[string]interface{}{"class": o.Class, "ops": o.Ops, "offsets": o.Offsets, "finalLen": len(o.Final)}
	if len(o.Ops) > 200 {
		obs["ops"] = fmt.Sprintf("%d messages (%d skip, %d fresh)", len(o.Ops), nSkip, nFresh)
	}
	if o.Msg != "" {
		obs["msg"] = o.Msg
	}
	cs := &lib.Case{Group: group, Class: class, Nontrivial: nSkip > 0 && nFresh > 0,
		Input: input, Obs: obs, Oracle: o.Oracle}
	if o.Class == "ok" {
		cs.Coq = c14Coq(p, o)
	}
	c.Out.Emit(cs)
}

// ---------------------------------------------------------------- main

func c14Case(c *Ctx, idx int, group string, p *c14Plan, r *lib.Rng, corpus string) error {
	dir := filepath.Join(c.Tmp, fmt.Sprintf("c14-%d", idx))
	defer os.RemoveAll(dir)
	if err := os.MkdirAll(dir, 0o755); err != nil {
		return err
	}
	var drv c14Driver
	if group == "ow" {
		if err := os.WriteFile(filepath.Join(dir, "old"), p.Old, 0o644); err != nil {
			return err
		}
		drv = &c14Direct{dir: dir, old: p.Old}
	} else {
		if err := os.MkdirAll(filepath.Join(dir, "out"), 0o755); err != nil {
			return err
		}
		if err := os.WriteFile(filepath.Join(dir, "out", "f"), p.Old, 0o644); err != nil {
			return err
		}
		drv = &c14Bowl{dir: dir, old: p.Old, newSize: int64(len(p.New))}
	}
	o := c14Run(dir, p, drv, r)
	c14Emit(c, group, p, o, corpus)
	return nil
}

// fixed cases that run first on every run (inputs that caught seeded mutants, and the
// smallest shapes of every boundary class)
func c14Corpus() []*c14Plan {
	mk := func(old, nw []byte, sess ...c14Sess) *c14Plan {
		return &c14Plan{Old: old, New: nw, Sess: sess, Recipe: map[string]interface{}{}}
	}
	rep := func(v byte, n int) []byte { return bytes.Repeat([]byte{v}, n) }
	cat := func(bs ...[]byte) []byte { return bytes.Join(bs, nil) }
	one := func(n int) c14Sess { return c14Sess{Evs: []c14Ev{{W: n}}} }
	var out []*c14Plan
	// equal run of threshold / threshold+1 bytes between different bytes, one write
	for _, l := range []int{ovThr, ovThr + 1} {
		old := cat(rep(1, 10), rep(2, l), rep(3, 10))
		nw := cat(rep(9, 10), rep(2, l), rep(8, 10))
		out = append(out, mk(old, nw, one(len(nw))))
	}
	// two skips in one window with fresh data before, between and after (lastOp bookkeeping)
	{
		old := cat(rep(1, 100), rep(2, 9000), rep(3, 100), rep(4, 9000), rep(5, 100))
		nw := cat(rep(7, 100), rep(2, 9000), rep(6, 100), rep(4, 9000), rep(9, 100))
		out = append(out, mk(old, nw, one(len(nw))))
	}
	// identical files of 2 windows + 1 byte, resumed after the first window and a half
	{
		old := rep(5, 2*ovBuf+1)
		s1 := c14Sess{Evs: []c14Ev{{W: ovBuf}, {W: ovBuf / 2}}, ContBytes: 5000, ContChunk: 5000, ContEnd: "finalize"}
		s2 := c14Sess{Evs: []c14Ev{{W: ovBuf/2 + 1}}}
		out = append(out, mk(old, append([]byte(nil), old...), s1, s2))
	}
	// new longer than old, new empty, old empty
	out = append(out, mk(rep(1, 9000), cat(rep(1, 9000), rep(2, 500)), one(9500)))
	out = append(out, mk(rep(1, 9000), nil, c14Sess{}))
	out = append(out, mk(nil, rep(1, 9000), one(9000)))
	// new shorter than old and not empty: the tail of the old file must be cut off
	out = append(out, mk(cat(rep(1, 9000), rep(2, 9000), rep(3, 2000)), cat(rep(1, 9000), rep(7, 500)), one(9500)))
	// the second session's data equals the *start* of the old file, not the old bytes at its
	// own offset: only a reader positioned at the saved read offset gets this right
	{
		old := cat(rep(1, 10000), rep(2, 10000))
		nw := cat(rep(1, 10000), rep(1, 10000))
		out = append(out, mk(old, nw, c14Sess{Evs: []c14Ev{{W: 10000}}}, one(10000)))
	}
	// a direct write of two windows + 100 bytes followed by a small write: the processor
	// returns early from the big write, its last 100 bytes are buffered and share a window
	// with the next write
	{
		old := rep(5, 2*ovBuf+300)
		out = append(out, mk(old, append([]byte(nil), old...), c14Sess{Evs: []c14Ev{{W: 2*ovBuf + 100}, {W: 200}}}))
	}
	// resume points at which nothing has been consumed yet (read offset 0, overlay offset just
	// past magic + header): the first session is opened and saved before its first write
	{
		old := cat(rep(1, 100), rep(2, 9000), rep(3, 100))
		nw := cat(rep(7, 100), rep(2, 9000), rep(9, 100))
		out = append(out, mk(old, nw, c14Sess{}, one(len(nw))))
		// ... with a flush and an empty write before the save, an end marker left behind by the
		// dead process, idle resumed sessions (no write between resume and save) at offset zero,
		// in the middle and at the very end
		out = append(out, mk(old, nw,
			c14Sess{Evs: []c14Ev{{F: true}, {W: 0}}, ContBytes: 50, ContChunk: 50, ContEnd: "finalize"},
			c14Sess{},
			c14Sess{Evs: []c14Ev{{W: 5000}}, Junk: []byte{3, 8, 0xf8, 0x0f}},
			c14Sess{Evs: []c14Ev{{F: true}}},
			one(len(nw)-5000),
			c14Sess{}, c14Sess{}))
	}
	return out
}

func runC14(c *Ctx) error {
	r := c.Rng.Fork()
	idx := 0
	for i, p := range c14Corpus() {
		for _, g := range []string{"ow", "bowl"} {
			if err := c14Case(c, idx, g, p, r.Fork(), fmt.Sprint(i)); err != nil {
				return err
			}
			idx++
		}
	}
	n := c.N(32, 450)
	if c.Tier == "search" {
		n = 500
	}
	for i := 0; i < n; i++ {
		cr := r.Fork()
		p := c14Gen(cr, c.Thorough())
		group := "ow"
		if i%3 == 2 {
			group = "bowl"
		}
		if err := c14Case(c, idx, group, p, cr, ""); err != nil {
			return err
		}
		idx++
	}
	return nil
}
