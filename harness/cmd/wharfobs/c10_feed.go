package main

// C10 — feeders.  Every mutated stream is fed to the real readers inside a CHILD process
// (wharfobs C10child -replay <jobs> -out <results> -seed <first job>), because a panic in a
// goroutine started by the code under test, or a spinning loop, would otherwise take the harness
// down with it.  The child runs job after job under a recover() and a deadline and appends one
// result line per job; when it dies or reports a hang the parent turns that into the
// observation "panic" / "hang" for the job that was running and restarts the child on the next.

import (
	"bufio"
	"bytes"
	"context"
	"encoding/json"
	"fmt"
	"io"
	"os"
	"os/exec"
	"path/filepath"
	"runtime/debug"
	"strconv"
	"strings"
	"sync"
	"time"

	"github.com/itchio/lake/pools/fspool"
	"github.com/itchio/savior/seeksource"

	"github.com/itchio/wharf/pwr"
	"github.com/itchio/wharf/pwr/bowl"
	"github.com/itchio/wharf/pwr/overlay"
	"github.com/itchio/wharf/pwr/patcher"
	"github.com/itchio/wharf/pwr/rediff"

	"verif/harness/lib"
)

func init() { register("C10child", runC10Child) }

const (
	c10FPatFresh   = "pat-fresh"
	c10FPatOverlay = "pat-overlay"
	c10FRediff     = "rediff"
	c10FSig        = "sig"
	c10FOverlay    = "ovl"
	c10FOptBase    = "opt-base" // lib.Optimize of a VALID patch (produces the bsdiff base streams)
)

type c10Job struct {
	Feeder      string  `json:"f"`
	Stream      []byte  `json:"s"`
	Old         string  `json:"old,omitempty"` // old build directory (patch feeders), old file (overlay applier)
	New         string  `json:"new,omitempty"` // new build directory (optimizer's source pool)
	HasWL       bool    `json:"haswl,omitempty"`
	WL          []int64 `json:"wl,omitempty"`
	ForceMapAll bool    `json:"fma,omitempty"`
	Out         string  `json:"out,omitempty"` // opt-base: where the optimized patch goes
	// Work is a per-scenario work directory that is REUSED from job to job (output folder of the
	// fresh bowl, stage folder of the overlay bowl, target file of the overlay applier): wharf
	// prepares an existing output folder the same way as an empty one (tlc.Container.Prepare is
	// written for resumed runs), and deleting a tree per job costs more than the job itself.
	Work string `json:"work,omitempty"`
}

type c10Res struct {
	Class  string `json:"class"`            // ok | error | panic | hang
	Stage  string `json:"stage,omitempty"`  // which call produced the class (new / resume / analyze / optimize / read / hashinfo / use)
	Msg    string `json:"msg,omitempty"`    // error / panic text (never compared)
	Top    string `json:"top,omitempty"`    // first non-runtime frame of the panic stack
	Wharf  string `json:"wharf,omitempty"`  // first itchio/wharf frame of the panic stack (call site)
	Len    int    `json:"len,omitempty"`    // sig: hashes read
	Cap    int    `json:"cap,omitempty"`    // sig: capacity of the hash slice
	OutLen int64  `json:"outlen,omitempty"` // ovl: final file size
	Ms     int64  `json:"ms,omitempty"`     // wall time of the job (evidence only)
}

// c10Deadline: first-pass deadline per job.  Expiry is only a SUSPICION (the machine may be
// overloaded): the parent re-runs the job alone in a fresh child with c10ConfirmDeadline, and
// only a second expiry is the observation "hang".  Likewise a child that dies is re-run once: a
// crash of the code under test repeats, a child killed from outside does not.
const c10Deadline = 12 * time.Second
const c10ConfirmDeadline = 75 * time.Second
const c10MaxHangs = 3

func c10JobDeadline() time.Duration {
	if v := os.Getenv("C10_DEADLINE_S"); v != "" {
		if n, err := strconv.Atoi(v); err == nil && n > 0 {
			return time.Duration(n) * time.Second
		}
	}
	return c10Deadline
}

// c10Sites extracts the first non-runtime frame and the first itchio/wharf frame of a Go stack
// dump (frames before the innermost "panic(" line are ignored): "pkg.func @ file.go:line".
func c10Sites(stack string) (top, wharf string) {
	lines := strings.Split(stack, "\n")
	start := 0
	for i, l := range lines {
		if strings.HasPrefix(l, "panic(") {
			start = i + 1
		}
	}
	for i := start; i < len(lines); i++ {
		l := lines[i]
		if l == "" || strings.HasPrefix(l, "\t") || strings.HasPrefix(l, "goroutine ") || strings.HasPrefix(l, "created by") {
			continue
		}
		k := strings.LastIndex(l, "(")
		if k <= 0 {
			continue
		}
		fn := l[:k]
		if strings.HasPrefix(fn, "runtime.") || strings.HasPrefix(fn, "runtime/") || strings.HasPrefix(fn, "main.") || strings.HasPrefix(fn, "verif/") {
			continue
		}
		loc := ""
		if i+1 < len(lines) && strings.HasPrefix(lines[i+1], "\t") {
			loc = strings.TrimSpace(lines[i+1])
			if j := strings.Index(loc, " +0x"); j >= 0 {
				loc = loc[:j]
			}
			if j := strings.Index(loc, "/repo/"); j >= 0 {
				loc = "wharf/" + loc[j+len("/repo/"):]
			} else if j := strings.Index(loc, "/itchio/"); j >= 0 {
				loc = loc[j+len("/itchio/"):]
			} else {
				loc = filepath.Base(loc)
			}
		}
		fn = strings.TrimPrefix(fn, "github.com/itchio/")
		site := fn + " @ " + loc
		if top == "" {
			top = site
		}
		if wharf == "" && strings.HasPrefix(fn, "wharf/") {
			wharf = site
		}
		if top != "" && wharf != "" {
			break
		}
	}
	return
}

// c10Run runs f under recover() and a deadline.
func c10Run(f func(r *c10Res) error) *c10Res {
	type done struct{ r *c10Res }
	ch := make(chan done, 1)
	r := &c10Res{}
	go func() {
		defer func() {
			if p := recover(); p != nil {
				r.Class = "panic"
				r.Msg = fmt.Sprint(p)
				r.Top, r.Wharf = c10Sites("panic(\n" + string(debug.Stack()))
				ch <- done{r}
			}
		}()
		err := f(r)
		if err != nil {
			r.Class = "error"
			r.Msg = err.Error()
			if len(r.Msg) > 300 {
				r.Msg = r.Msg[:300]
			}
		} else {
			r.Class = "ok"
		}
		ch <- done{r}
	}()
	select {
	case d := <-ch:
		return d.r
	case <-time.After(c10JobDeadline()):
		// (r.Stage is read while the stuck goroutine may still own r: it only ever holds a constant)
		return &c10Res{Class: "hang", Stage: r.Stage, Msg: fmt.Sprintf("no return within %s", c10JobDeadline())}
	}
}

func c10FeedPatcher(j *c10Job, scratch string, overlayBowl bool) *c10Res {
	if j.Work != "" {
		scratch = j.Work
		os.MkdirAll(scratch, 0o755)
	}
	out := filepath.Join(scratch, "out")
	stage := filepath.Join(scratch, "stage")
	return c10Run(func(r *c10Res) error {
		r.Stage = "new"
		src := seeksource.FromBytes(j.Stream)
		p, err := patcher.New(src, lib.Quiet)
		if err != nil {
			return err
		}
		if j.HasWL {
			wl := map[int64]bool{}
			for _, i := range j.WL {
				wl[i] = true
			}
			p.SetSourceIndexWhitelist(wl)
		}
		r.Stage = "bowl"
		tp := fspool.New(p.GetTargetContainer(), j.Old)
		var b bowl.Bowl
		if overlayBowl {
			// the bowl only reads the old build until Commit, which is not called here
			if err := os.MkdirAll(stage, 0o755); err != nil {
				return err
			}
			b, err = bowl.NewOverlayBowl(bowl.OverlayBowlParams{SourceContainer: p.GetSourceContainer(), TargetContainer: p.GetTargetContainer(),
				StageFolder: stage, OutputFolder: j.Old, Consumer: lib.Quiet})
		} else {
			if err := os.MkdirAll(out, 0o755); err != nil {
				return err
			}
			b, err = bowl.NewFreshBowl(bowl.FreshBowlParams{SourceContainer: p.GetSourceContainer(), TargetContainer: p.GetTargetContainer(), TargetPool: tp, OutputFolder: out})
		}
		if err != nil {
			return err
		}
		defer b.Close()
		r.Stage = "resume"
		if err := p.Resume(nil, tp, b); err != nil {
			return err
		}
		if !overlayBowl {
			r.Stage = "commit"
			return b.Commit()
		}
		return nil
	})
}

func c10FeedRediff(j *c10Job) *c10Res {
	return c10Run(func(r *c10Res) error {
		r.Stage = "analyze"
		rc, err := rediff.NewContext(rediff.Params{PatchReader: seeksource.FromBytes(j.Stream), Consumer: lib.Quiet,
			Compression: &pwr.CompressionSettings{Algorithm: pwr.CompressionAlgorithm_NONE}, SuffixSortConcurrency: 1, Partitions: 0, ForceMapAll: j.ForceMapAll})
		if err != nil {
			return err
		}
		r.Stage = "optimize"
		var out bytes.Buffer
		return rc.Optimize(rediff.OptimizeParams{TargetPool: fspool.New(rc.GetTargetContainer(), j.Old), SourcePool: fspool.New(rc.GetSourceContainer(), j.New), PatchWriter: &out})
	})
}

func c10FeedSig(j *c10Job) *c10Res {
	return c10Run(func(r *c10Res) error {
		r.Stage = "read"
		src := seeksource.FromBytes(j.Stream)
		if _, err := src.Resume(nil); err != nil {
			return err
		}
		si, err := pwr.ReadSignature(context.Background(), src)
		if err != nil {
			return err
		}
		r.Len, r.Cap = len(si.Hashes), cap(si.Hashes)
		r.Stage = "hashinfo"
		hi, err := pwr.ComputeHashInfo(si)
		if err != nil {
			return err
		}
		// use the grouping: write every file's worth of zero bytes through a validating pool in
		// wound mode (never fails by itself; it indexes the groups built above)
		r.Stage = "use"
		files := make([][]byte, len(si.Container.Files))
		for i, f := range si.Container.Files {
			if f.Size > 8<<20 {
				return nil
			}
			files[i] = make([]byte, f.Size)
		}
		inner := lib.NewMemPool(files)
		inner.Container = si.Container
		wounds := make(chan *pwr.Wound, 4096)
		done := make(chan bool)
		go func() {
			for range wounds {
			}
			done <- true
		}()
		vp := &pwr.ValidatingPool{Pool: inner, Container: si.Container, Signature: si, Wounds: wounds}
		_ = hi
		var werr error
		for i := range si.Container.Files {
			w, err := vp.GetWriter(int64(i))
			if err != nil {
				werr = err
				break
			}
			if _, err := w.Write(files[i]); err != nil {
				werr = err
				w.Close()
				break
			}
			if err := w.Close(); err != nil {
				werr = err
				break
			}
		}
		close(wounds)
		<-done
		return werr
	})
}

func c10FeedOverlay(j *c10Job, scratch string) *c10Res {
	if j.Work != "" {
		scratch = j.Work
		os.MkdirAll(scratch, 0o755)
	}
	target := filepath.Join(scratch, "ovl-target")
	return c10Run(func(r *c10Res) error {
		r.Stage = "setup"
		old, err := os.ReadFile(j.Old)
		if err != nil {
			return err
		}
		if err := os.WriteFile(target, old, 0o644); err != nil {
			return err
		}
		f, err := os.OpenFile(target, os.O_RDWR, 0o644)
		if err != nil {
			return err
		}
		defer f.Close()
		src := seeksource.FromBytes(j.Stream)
		if _, err := src.Resume(nil); err != nil {
			return err
		}
		r.Stage = "patch"
		ctx := &overlay.OverlayPatchContext{}
		err = ctx.Patch(src, f)
		if st, serr := f.Stat(); serr == nil {
			r.OutLen = st.Size()
		}
		return err
	})
}

func c10Feed(j *c10Job, scratch string) *c10Res {
	switch j.Feeder {
	case c10FPatFresh:
		return c10FeedPatcher(j, scratch, false)
	case c10FPatOverlay:
		return c10FeedPatcher(j, scratch, true)
	case c10FRediff:
		return c10FeedRediff(j)
	case c10FSig:
		return c10FeedSig(j)
	case c10FOverlay:
		return c10FeedOverlay(j, scratch)
	case c10FOptBase:
		return c10Run(func(r *c10Res) error {
			r.Stage = "optimize"
			out, err := lib.Optimize(j.Stream, j.Old, j.New, lib.OptParams{Concurrency: 1, ForceMapAll: j.ForceMapAll, Comp: lib.Compression{Algo: pwr.CompressionAlgorithm_NONE}})
			if err != nil {
				return err
			}
			return os.WriteFile(j.Out, out, 0o644)
		})
	}
	return &c10Res{Class: "error", Msg: "unknown feeder " + j.Feeder, Stage: "harness"}
}

// runC10Child: -replay = job file (one JSON job per line), -seed = index of the first job to run,
// -tmp = scratch directory; results are appended to <tmp>.res (the -out file stays empty).
func runC10Child(c *Ctx) error {
	f, err := os.Open(c.Replay)
	if err != nil {
		return err
	}
	defer f.Close()
	outf, err := os.OpenFile(c.Tmp+".res", os.O_CREATE|os.O_WRONLY|os.O_APPEND, 0o644)
	if err != nil {
		return err
	}
	defer outf.Close()
	rd := bufio.NewReaderSize(f, 1<<20)
	idx := uint64(0)
	for {
		line, err := rd.ReadBytes('\n')
		if len(line) > 0 && idx >= c.Seed {
			var j c10Job
			if jerr := json.Unmarshal(line, &j); jerr != nil {
				return jerr
			}
			t0 := time.Now()
			res := c10Feed(&j, c.Tmp)
			res.Ms = time.Since(t0).Milliseconds()
			if os.Getenv("C10_ONLY_ONE") != "" {
				b, _ := json.Marshal(res)
				outf.Write(append(b, '\n'))
				outf.Close()
				os.Exit(0)
			}
			b, _ := json.Marshal(res)
			outf.Write(append(b, '\n'))
			if res.Class == "hang" {
				// the stuck goroutine cannot be stopped: leave, the parent restarts after this job
				outf.Close()
				os.Exit(0)
			}
		}
		if len(line) > 0 {
			idx++
		}
		if err == io.EOF {
			break
		}
		if err != nil {
			return err
		}
	}
	return nil
}

// c10RunJobs feeds all jobs through child processes and returns one result per job.
func c10RunJobs(c *Ctx, jobs []*c10Job) ([]*c10Res, error) {
	const shards = 3
	if len(jobs) < 30 {
		return c10RunShard(c, jobs, 0)
	}
	type part struct {
		res []*c10Res
		err error
	}
	parts := make([]part, shards)
	var wg sync.WaitGroup
	for k := 0; k < shards; k++ {
		k := k
		lo, hi := k*len(jobs)/shards, (k+1)*len(jobs)/shards
		wg.Add(1)
		go func() {
			defer wg.Done()
			parts[k].res, parts[k].err = c10RunShard(c, jobs[lo:hi], k)
		}()
	}
	wg.Wait()
	var out []*c10Res
	for _, p := range parts {
		if p.err != nil {
			return nil, p.err
		}
		out = append(out, p.res...)
	}
	return out, nil
}

// c10Confirm runs job idx of jobFile alone in a fresh child with the long deadline (up to three
// attempts when the child disappears without any output, i.e. was killed from outside).
func c10Confirm(jobFile string, idx int, dir string) (*c10Res, error) {
	scratch := filepath.Join(dir, "confirm")
	resFile := scratch + ".res"
	var last *c10Res
	for attempt := 0; attempt < 3; attempt++ {
		os.RemoveAll(scratch)
		os.Remove(resFile)
		if err := os.MkdirAll(scratch, 0o755); err != nil {
			return nil, err
		}
		cmd := exec.Command(os.Args[0], "C10child", "-replay", jobFile, "-out", os.DevNull, "-seed", fmt.Sprint(idx), "-tmp", scratch)
		cmd.Env = append(os.Environ(), fmt.Sprintf("C10_DEADLINE_S=%d", int(c10ConfirmDeadline/time.Second)), "C10_ONLY_ONE=1")
		var stderr bytes.Buffer
		cmd.Stderr = &stderr
		cmd.Stdout = io.Discard
		if err := cmd.Start(); err != nil {
			return nil, err
		}
		waitCh := make(chan error, 1)
		go func() { waitCh <- cmd.Wait() }()
		killed := false
		select {
		case <-waitCh:
		case <-time.After(c10ConfirmDeadline + 30*time.Second):
			cmd.Process.Kill()
			killed = true
			<-waitCh
		}
		b, _ := os.ReadFile(resFile)
		os.RemoveAll(scratch)
		os.Remove(resFile)
		if line := bytes.TrimSpace(bytes.SplitN(b, []byte("\n"), 2)[0]); len(line) > 0 {
			r := &c10Res{}
			if err := json.Unmarshal(line, r); err == nil {
				return r, nil
			}
		}
		if killed {
			return &c10Res{Class: "hang", Stage: "child", Msg: "child made no progress (confirmed alone) and was killed"}, nil
		}
		st := stderr.String()
		if strings.Contains(st, "panic:") || strings.Contains(st, "fatal error:") || strings.Contains(st, "[running]") {
			r := &c10Res{Class: "panic", Stage: "child", Msg: c10FirstLine(st)}
			if i := strings.Index(st, "[running]"); i >= 0 {
				r.Top, r.Wharf = c10Sites("panic(\n" + st[i:])
			}
			return r, nil
		}
		last = &c10Res{Class: "panic", Stage: "child-vanished", Msg: fmt.Sprintf("child exited without output (%v)", cmd.ProcessState)}
	}
	return last, nil
}

// c10RunShard runs a contiguous slice of the jobs in one child at a time; shard k uses the work
// directories "<Work>-k" so that concurrent children never share an output folder.
func c10RunShard(c *Ctx, jobs []*c10Job, shard int) ([]*c10Res, error) {
	if len(jobs) == 0 {
		return nil, nil
	}
	dir, err := os.MkdirTemp(c.Tmp, "c10jobs")
	if err != nil {
		return nil, err
	}
	defer os.RemoveAll(dir)
	jobFile := filepath.Join(dir, "jobs.jsonl")
	scratch := filepath.Join(dir, "scratch")
	resFile := scratch + ".res"
	jf, err := os.Create(jobFile)
	if err != nil {
		return nil, err
	}
	bw := bufio.NewWriterSize(jf, 1<<20)
	for _, j := range jobs {
		jj := *j
		if jj.Work != "" {
			jj.Work = fmt.Sprintf("%s-%d", jj.Work, shard)
		}
		b, err := json.Marshal(&jj)
		if err != nil {
			return nil, err
		}
		bw.Write(b)
		bw.WriteByte('\n')
	}
	bw.Flush()
	jf.Close()
	os.WriteFile(resFile, nil, 0o644)

	results := make([]*c10Res, 0, len(jobs))
	readResults := func() error {
		b, err := os.ReadFile(resFile)
		if err != nil {
			return err
		}
		results = results[:0]
		for _, line := range bytes.Split(b, []byte("\n")) {
			if len(bytes.TrimSpace(line)) == 0 {
				continue
			}
			r := &c10Res{}
			if err := json.Unmarshal(line, r); err != nil {
				break // torn last line of a killed child
			}
			results = append(results, r)
		}
		return nil
	}
	rewrite := func() error {
		var buf bytes.Buffer
		for _, r := range results {
			b, _ := json.Marshal(r)
			buf.Write(b)
			buf.WriteByte('\n')
		}
		return os.WriteFile(resFile, buf.Bytes(), 0o644)
	}
	restarts := 0
	for len(results) < len(jobs) {
		os.RemoveAll(scratch)
		if err := os.MkdirAll(scratch, 0o755); err != nil {
			return nil, err
		}
		cmd := exec.Command(os.Args[0], "C10child", "-replay", jobFile, "-out", os.DevNull, "-seed", fmt.Sprint(len(results)), "-tmp", scratch)
		var stderr bytes.Buffer
		cmd.Stderr = &stderr
		cmd.Stdout = io.Discard
		if err := cmd.Start(); err != nil {
			return nil, err
		}
		waitCh := make(chan error, 1)
		go func() { waitCh <- cmd.Wait() }()
		// watchdog: the child must finish a job at least every c10Deadline + 15 s
		killed := false
		lastN, lastT := -1, time.Now()
	wait:
		for {
			select {
			case <-waitCh:
				break wait
			case <-time.After(500 * time.Millisecond):
				st, _ := os.Stat(resFile)
				n := 0
				if st != nil {
					n = int(st.Size())
				}
				if n != lastN {
					lastN, lastT = n, time.Now()
				} else if time.Since(lastT) > c10Deadline+15*time.Second {
					cmd.Process.Kill()
					killed = true
					<-waitCh
					break wait
				}
			}
		}
		os.RemoveAll(scratch)
		before := len(results)
		if err := readResults(); err != nil {
			return nil, err
		}
		if len(results) >= len(jobs) {
			break
		}
		// job len(results) (or the last one, if the child reported a deadline expiry itself) did not
		// end normally: suspicion only, settled by running that job alone with a long deadline
		idx := len(results)
		if n := len(results); n > before && results[n-1].Class == "hang" {
			idx = n - 1
			results = results[:idx]
		}
		first := &c10Res{Class: "panic", Stage: "child", Msg: c10FirstLine(stderr.String())}
		if killed {
			first = &c10Res{Class: "hang", Stage: "child", Msg: "child made no progress and was killed"}
		}
		conf, err := c10Confirm(jobFile, idx, dir)
		if err != nil {
			return nil, err
		}
		if conf.Stage == "child-vanished" {
			conf = first // died twice without a trace
		}
		results = append(results, conf)
		if err := rewrite(); err != nil {
			return nil, err
		}
		// every hang costs a full deadline: after a few of them the verdict is settled, the rest
		// of this shard is not run (reported as "skipped", never compared)
		hangs := 0
		for _, r := range results {
			if r.Class == "hang" {
				hangs++
			}
		}
		if hangs >= c10MaxHangs {
			for len(results) < len(jobs) {
				results = append(results, &c10Res{Class: "skipped", Stage: "harness-skip", Msg: "not run: too many hangs before"})
			}
			break
		}
		restarts++
		if restarts > len(jobs)+5 {
			return nil, fmt.Errorf("C10: child restarted too often")
		}
	}
	return results, nil
}

func c10FirstLine(s string) string {
	for _, l := range strings.Split(s, "\n") {
		l = strings.TrimSpace(l)
		if l != "" {
			if len(l) > 300 {
				l = l[:300]
			}
			return l
		}
	}
	return ""
}
