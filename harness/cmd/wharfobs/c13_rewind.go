package main

// C13 - readers that are used again: Resume called on a reader that has already read, asked
// for saves and popped checkpoints (a rewind to a checkpoint it popped earlier, a jump forward
// to one it popped before a rewind, or Resume(nil) = start over).  Whatever state the reader
// was in when it was resumed - idle, a save requested, a save in flight (the source has handed
// over its checkpoint, nobody has popped it) - every checkpoint it pops afterwards is a
// checkpoint like any other: gob-serialized and handed to a new reader over the same bytes it
// must resume at exactly the next unread message.
//
// 'Z' operations are drawn while the run proceeds (their target is one of the checkpoints the
// run has popped so far); the operations actually performed are recorded in the trace, which
// is what the oracle (c13Judge) and the model (Wire/Rewind.v, group "ckpt") are given.

import (
	"fmt"

	"github.com/itchio/wharf/pwr"
	"github.com/itchio/wharf/wire"

	"verif/harness/lib"
)

// reader state aimed at when Resume is called on the used reader
const (
	c13AsIs     = iota // whatever the schedule left
	c13Idle            // popped right before
	c13Waiting         // a save requested, no read since
	c13InFlight        // a save requested, then 1-2 messages read, no pop
)

var c13StateName = []string{"as-is", "after-pop", "save-requested", "save-in-flight"}

type c13Episode struct {
	at    int  // begins once this many messages have been read over the whole run
	state int  // c13AsIs ..
	reads int  // c13InFlight: messages read between the request and the Resume
	start bool // Resume(nil): start over
	early bool // prefer a checkpoint popped before the current position (a rewind)
	sel   int  // which of the candidates
}

// c13Episodes draws `count` episodes for a stream of n messages
func c13Episodes(r *lib.Rng, n, count int) []c13Episode {
	var eps []c13Episode
	at := 0
	for i := 0; i < count; i++ {
		at += r.Range(0, n+1)
		if i == 0 && n > 0 && at == 0 {
			at = r.Range(1, n) // the first one on a reader that has been used
		}
		e := c13Episode{at: at, state: []int{c13AsIs, c13Idle, c13Waiting, c13InFlight, c13InFlight, c13InFlight}[r.Intn(6)],
			reads: r.Range(1, 2), start: r.Chance(1, 5), early: r.Chance(3, 4), sel: r.Intn(1 << 16)}
		eps = append(eps, e)
	}
	return eps
}

// c13Drive runs the schedule `sched` over a stream of n messages like c13Ops/c13Run do (its
// W / P operations before every read, reads up to the end of the stream, one more read, a last
// pop) and interleaves the episodes. After a rewind the schedule simply goes on from the new
// position, so messages are read again. The run ends at the end of the stream once all
// episodes have been played (episodes left over when the end is reached are played there).
func c13Drive(rc *wire.ReadContext, r *lib.Rng, n int, sched string, mode int, eps []c13Episode) []c13Ev {
	x := &c13Exec{rc: rc, tg: &c13Target{mode: mode}}
	once := r.Intn(n + 1)
	maxOps := (len(eps) + 1) * (4*n + 12)
	episode := func(e c13Episode) {
		switch e.state {
		case c13Idle:
			x.do('P', -1)
		case c13Waiting:
			x.do('P', -1)
			x.do('W', -1)
		case c13InFlight:
			x.do('P', -1)
			x.do('W', -1)
			for j := 0; j < e.reads && !x.dead; j++ {
				if ev := x.do('R', -1); ev.cls != "ok" {
					break
				}
			}
		}
		if x.dead {
			return
		}
		target := -1
		if !e.start {
			var all, earlier []int
			for j, ev := range x.evs {
				if ev.op == 'P' && ev.ck != nil {
					all = append(all, j)
					if ev.k < x.k {
						earlier = append(earlier, j)
					}
				}
			}
			if e.early && len(earlier) > 0 {
				all = earlier
			}
			if len(all) > 0 {
				target = all[e.sel%len(all)]
			}
		}
		x.do('Z', target)
	}
	for len(x.evs) < maxOps && !x.dead {
		if len(eps) > 0 && x.reads >= eps[0].at {
			e := eps[0]
			eps = eps[1:]
			episode(e)
			continue
		}
		for _, op := range c13BoundaryOps(r, sched, x.k, n, once) {
			x.do(op, -1)
		}
		if x.dead {
			break
		}
		if ev := x.do('R', -1); ev.cls != "ok" {
			// the end of the stream (or a failure): end of stream is sticky, a last pop
			x.do('R', -1)
			x.do('P', -1)
			if len(eps) == 0 || ev.cls != "eof" {
				break
			}
			e := eps[0]
			eps = eps[1:]
			episode(e)
		}
	}
	return x.evs
}

func c13CountOp(evs []c13Ev, op byte) int {
	n := 0
	for _, ev := range evs {
		if ev.op == op {
			n++
		}
	}
	return n
}

// c13EpisodesDone words the Resume calls of a trace for the replay file
func c13EpisodesDone(evs []c13Ev) []string {
	var out []string
	for i, ev := range evs {
		if ev.op != 'Z' {
			continue
		}
		// the state the reader should be in, from the operations since the last pop / resume
		wanted, reads := false, 0
		for j := i - 1; j >= 0; j-- {
			if evs[j].op == 'P' && evs[j].ck != nil || evs[j].op == 'Z' {
				break
			}
			if evs[j].op == 'R' && evs[j].msg != nil && !wanted {
				reads++
			}
			if evs[j].op == 'W' {
				wanted = true
				break
			}
		}
		st := "no save requested"
		if wanted {
			st = fmt.Sprintf("save requested %d messages earlier and not popped", reads)
		}
		to := "Resume(nil)"
		if ev.target >= 0 {
			to = fmt.Sprintf("Resume(checkpoint of op %d, popped after %d messages, gob-decoded)", ev.target, ev.kTo)
		}
		out = append(out, fmt.Sprintf("op %d, after %d messages, %s: %s", i, ev.k, st, to))
	}
	return out
}

// ---------- cases ----------

// c13RewindCorpus: the shape that the first version of this check could not see (seeded
// variant C13-6: Resume forgot the save in flight only when starting over): saves requested at
// every boundary, a save left in flight, a rewind to the first checkpoint, pops right after.
func c13RewindCorpus(c *Ctx) {
	r := lib.NewRng(1306)
	sizes := []int{100, 2, 0, 300, 40000, 5, 127, 3}
	for i, comp := range []lib.Compression{lib.Compressions[0], {Algo: pwr.CompressionAlgorithm_GZIP, Quality: 1}, {Algo: pwr.CompressionAlgorithm_BROTLI, Quality: 1}} {
		sq := c13Seq{name: "corpus-rewind", sizes: sizes}
		eps := []c13Episode{
			{at: 4, state: c13InFlight, reads: 2, early: true, sel: 0},
			{at: 9, state: c13Waiting, early: true, sel: 1},
			{at: 12, state: c13InFlight, reads: 1, start: true},
		}
		c13StreamCaseRew(c, r.Fork(), "corpus", sq, c13Msgs(r.Fork(), sq), comp, "all", 1<<40, false, c13HowOf(i), eps)
	}
}

// c13Rewinds: the generated cases. Group "ckpt" (state after every operation compared with
// the model) on small streams, and oracle-only stream cases over every codec of the shared
// list on the sequences with many boundaries.
func c13Rewinds(c *Ctx) error {
	r := c.Rng.Fork()
	codecs := c13Codecs(c13Deep(c))
	n := c13N(c, 30, 240)
	for i := 0; i < n; i++ {
		c13CkptCase(c, r.Fork(), i, codecs, true)
	}
	maxMsgs := 24
	if c13Deep(c) {
		maxMsgs = 120
	}
	var seqs []c13Seq
	seqs = append(seqs, c13Seq{name: "empties", sizes: []int{5, 0, 300, 0, 0, 2, 40000, 0, 127, 3, 0}, kind: 1})
	seqs = append(seqs, c13Seq{name: "big-then-small", sizes: []int{32769, 0, 2, 127, 1 << 20, 128, 0, 3, 16384, 65537, 2, 32768, 0}, kind: 1})
	var small, blocks []int
	for i := 0; i < maxMsgs; i++ {
		small = append(small, []int{0, 2, 3, 5, 60, 127, 128, 129, 300}[r.Intn(9)])
		blocks = append(blocks, []int{r.Range(1000, 20000), r.Range(20000, 70000), r.Range(100000, 300000), c13Small[r.Intn(len(c13Small))], c13Mid[r.Intn(len(c13Mid))]}[r.Intn(5)])
	}
	seqs = append(seqs, c13Seq{name: "many-small", sizes: small, kind: 1})
	// incompressible and text blocks: decompressor checkpoints fall everywhere, and lag
	seqs = append(seqs, c13Seq{name: "blocks-random", sizes: blocks[:maxMsgs/2], kind: 1})
	seqs = append(seqs, c13Seq{name: "blocks-text", sizes: blocks[maxMsgs/2:], kind: 2})
	budget := int64(2 << 20)
	if c13Deep(c) {
		budget = 12 << 20
	}
	for si, sq := range seqs {
		msgs := c13Msgs(r.Fork(), sq)
		for ci, comp := range codecs {
			cr := r.Fork()
			if ci >= len(lib.Compressions) && (si+ci)%3 != 0 {
				continue
			}
			sched := c13Scheds[(si+2*ci+int(c.Seed))%len(c13Scheds)]
			if ci < len(lib.Compressions) && (si+ci)%2 == 0 {
				sched = "all"
			}
			b := budget
			if comp.Algo == pwr.CompressionAlgorithm_BROTLI {
				b /= 2
			}
			eps := c13Episodes(cr, len(msgs), cr.Range(1, 3))
			c13StreamCaseRew(c, cr, "rewind", sq, msgs, comp, sched, b, false, c13HowOf(si+ci+int(c.Seed)), eps)
		}
	}
	return nil
}
