package main

// C04 — a build validates against its own signature, however that was produced.
//
// Groups (each one is compared with the Gallina model by Exec/C04.v):
//   "scan" : bufio.Scanner + splitfunc.New(sb) with a caller buffer of cap bytes and max token
//            size 0 (exactly what wsync.CreateSignature sets up) over a reader that delivers an
//            arbitrary chunking (short reads, (0,nil) reads, data together with io.EOF)
//   "csig" : wsync.Context.CreateSignature at small and medium block sizes over such a reader
//   "fan"  : multiread fan-out: what each pipe reader is handed, for given request sizes
//   "sig"  : small structured builds at the real 64 KiB block size: the hashes read back from the
//            diff-time signature stream and the groups of pwr.ComputeHashInfo
//   "hinfo", "vfile" (c04_repaired.go): ComputeHashInfo on signatures with too few / too many
//            hashes; validation of files shorter / longer than signed or damaged, wound for wound
// plus oracle-only build cases ("build") for everything too large to spell out in a case file, and
// oracle-only sessions (c04_sessions.go): several validations through one ValidatorContext, several
// signings / validations running at the same time.
// The oracle recomputes every hash from the build's bytes with its own weak hash and crypto/md5.

import (
	"bufio"
	"bytes"
	"context"
	"crypto/md5"
	"errors"
	"fmt"
	"io"
	"os"
	"path/filepath"
	"strings"
	"sync"
	"time"

	"github.com/itchio/lake"
	"github.com/itchio/lake/pools/fspool"
	"github.com/itchio/lake/tlc"
	"github.com/itchio/wharf/multiread"
	"github.com/itchio/wharf/pwr"
	"github.com/itchio/wharf/splitfunc"
	"github.com/itchio/wharf/wire"
	"github.com/itchio/wharf/wsync"

	"verif/harness/lib"
)

func init() { register("C04", runC04) }

// c04N: case count by tier; a search after a correspondence break uses a moderate count
func c04N(c *Ctx, quick, thorough, search int) int {
	if c.Tier == "search" {
		return search
	}
	return c.N(quick, thorough)
}

func runC04(c *Ctx) error {
	if err := c04Builds(c); err != nil {
		return err
	}
	if err := c04Scan(c); err != nil {
		return err
	}
	if err := c04Csig(c); err != nil {
		return err
	}
	if err := c04Fan(c); err != nil {
		return err
	}
	if err := c04Hinfo(c); err != nil { // c04_repaired.go
		return err
	}
	if err := c04Vfile(c); err != nil { // c04_repaired.go
		return err
	}
	return c04Sessions(c) // c04_sessions.go
}

// ---------------------------------------------------------------- chunky readers

// c04Reader hands out its chunks front to back: a Read never crosses a chunk border, an empty
// chunk is a (0, nil) read, a chunk larger than the caller's buffer is delivered in pieces, and
// the read that delivers the last byte also returns io.EOF when eofWithLast is set.
type c04Reader struct {
	chunks      [][]byte
	eofWithLast bool
}

func (cr *c04Reader) Read(p []byte) (int, error) {
	if len(cr.chunks) == 0 {
		return 0, io.EOF
	}
	ch := cr.chunks[0]
	if len(ch) == 0 {
		cr.chunks = cr.chunks[1:]
		return 0, nil
	}
	n := copy(p, ch)
	if n == len(ch) {
		cr.chunks = cr.chunks[1:]
		if len(cr.chunks) == 0 && cr.eofWithLast {
			return n, io.EOF
		}
	} else {
		cr.chunks[0] = ch[n:]
	}
	return n, nil
}

// c04Cut cuts data at the given sizes (a size 0 is an empty chunk).
func c04Cut(data []byte, sizes []int) [][]byte {
	var out [][]byte
	pos := 0
	for _, s := range sizes {
		out = append(out, data[pos:pos+s])
		pos += s
	}
	if pos != len(data) {
		panic("c04Cut: sizes do not add up")
	}
	return out
}

// c04SmallChunking: an arbitrary composition of n with occasional empty chunks
func c04SmallChunking(r *lib.Rng, n, hint int) []int {
	var sizes []int
	mode := r.Intn(5)
	for rem := n; rem > 0; {
		var d int
		switch mode {
		case 0:
			d = 1
		case 1:
			d = rem
		case 2:
			d = r.Range(1, min(rem, hint+1))
		case 3:
			d = []int{hint - 1, hint, hint + 1, 2 * hint}[r.Intn(4)]
		default:
			d = r.Range(1, rem)
		}
		if d < 1 {
			d = 1
		}
		if d > rem {
			d = rem
		}
		if r.Chance(1, 6) {
			sizes = append(sizes, 0)
		}
		sizes = append(sizes, d)
		rem -= d
	}
	if r.Chance(1, 4) {
		sizes = append(sizes, 0)
	}
	return sizes
}

func c04ChunksCoq(chunks [][]byte) string {
	s := make([]string, len(chunks))
	for i, ch := range chunks {
		s[i] = lib.CoqBytes(ch)
	}
	return lib.CoqList(s)
}

func c04ChunksRleCoq(chunks [][]byte) string {
	s := make([]string, len(chunks))
	for i, ch := range chunks {
		s[i] = lib.ToRle(ch).Coq()
	}
	return lib.CoqList(s)
}

func c04Sizes(chunks [][]byte) []int {
	out := make([]int, len(chunks))
	for i, ch := range chunks {
		out[i] = len(ch)
	}
	return out
}

// longest run of consecutive (0,nil) reads the reader will produce
func c04MaxEmptyRun(sizes []int) int {
	best, cur := 0, 0
	for _, s := range sizes {
		if s == 0 {
			cur++
			if cur > best {
				best = cur
			}
		} else {
			cur = 0
		}
	}
	return best
}

// ---------------------------------------------------------------- independent hashing

func c04Weak(b []byte) uint32 {
	var a, s uint64
	n := len(b)
	for i, v := range b {
		a += uint64(v)
		s += uint64(n-i) * uint64(v)
	}
	return uint32(a&0xffff) | uint32(s&0xffff)<<16
}

type c04Hash struct {
	File, Block int64
	Weak        uint32
	Strong      [16]byte
	Short       int32
}

func (h c04Hash) String() string {
	return fmt.Sprintf("{file %d block %d weak %08x strong %x short %d}", h.File, h.Block, h.Weak, h.Strong[:4], h.Short)
}

// c04Expect: the signature of one file as the property states it
func c04Expect(fileIndex int64, data []byte, bs int) []c04Hash {
	if len(data) == 0 {
		return []c04Hash{{fileIndex, 0, 0, md5.Sum(nil), 0}}
	}
	var out []c04Hash
	for j, b := range blocksOf(data, bs) {
		h := c04Hash{File: fileIndex, Block: int64(j), Weak: c04Weak(b), Strong: md5.Sum(b)}
		if len(b) < bs {
			h.Short = int32(len(b))
		}
		out = append(out, h)
	}
	return out
}

func c04FromWsync(hs []wsync.BlockHash) ([]c04Hash, string) {
	out := make([]c04Hash, len(hs))
	for i, h := range hs {
		if len(h.StrongHash) != 16 {
			return nil, fmt.Sprintf("hash %d has a strong hash of %d bytes", i, len(h.StrongHash))
		}
		out[i] = c04Hash{File: h.FileIndex, Block: h.BlockIndex, Weak: h.WeakHash, Short: h.ShortSize}
		copy(out[i].Strong[:], h.StrongHash)
	}
	return out, ""
}

func c04Compare(what string, got, want []c04Hash) string {
	if len(got) != len(want) {
		return fmt.Sprintf("%s: %d hashes, want %d", what, len(got), len(want))
	}
	for i := range want {
		if got[i] != want[i] {
			return fmt.Sprintf("%s: hash %d is %s, want %s", what, i, got[i], want[i])
		}
	}
	return ""
}

// strong-hash equality pattern: index of the first hash with the same strong hash
func c04Labels(hs []c04Hash) []int {
	first := map[[16]byte]int{}
	out := make([]int, len(hs))
	for i, h := range hs {
		if j, ok := first[h.Strong]; ok {
			out[i] = j
		} else {
			first[h.Strong] = i
			out[i] = i
		}
	}
	return out
}

func c04HashesCoq(hs []c04Hash) string {
	lb := c04Labels(hs)
	s := make([]string, len(hs))
	for i, h := range hs {
		s[i] = fmt.Sprintf("(%d,%d,%d,%d,%d)", h.File, h.Block, h.Weak, lb[i], h.Short)
	}
	return "([" + strings.Join(s, ";") + "]%N)"
}

type c04HashJ struct {
	File, Block int64
	Weak        uint32
	Label       int
	Short       int32
}

func c04HashesJ(hs []c04Hash) []c04HashJ {
	lb := c04Labels(hs)
	out := make([]c04HashJ, len(hs))
	for i, h := range hs {
		out[i] = c04HashJ{h.File, h.Block, h.Weak, lb[i], h.Short}
	}
	if len(out) > 40 {
		out = out[:40]
	}
	return out
}

// ---------------------------------------------------------------- group "scan"

func c04ErrClass(err error) string {
	switch {
	case err == nil:
		return "SEof"
	case errors.Is(err, bufio.ErrTooLong):
		return "(SErr ErrTooLong)"
	case errors.Is(err, io.ErrNoProgress):
		return "(SErr ErrNoProgress)"
	case errors.Is(err, bufio.ErrAdvanceTooFar):
		return "(SErr ErrAdvanceTooFar)"
	case errors.Is(err, context.Canceled):
		return "SOutOfFuel"
	default:
		return "(SErr ErrOther)"
	}
}

func c04Scan(c *Ctx) error {
	r := c.Rng.Fork()
	n := c04N(c, 240, 3000, 1500)
	for i := 0; i < n; i++ {
		cr := r.Fork()
		sb := cr.Range(1, 6)
		bufCap := sb
		if cr.Chance(1, 4) { // the scanner model is also checked off the configuration the signer uses
			bufCap = []int{sb - 1, sb + 1, 2 * sb, 2*sb + 1, 1}[cr.Intn(5)]
		}
		total := cr.Range(0, 4*sb+2)
		if cr.Chance(1, 10) {
			total = cr.Intn(3) * sb
		}
		data := make([]byte, total)
		for j := range data {
			data[j] = byte(cr.Intn(3))
		}
		sizes := c04SmallChunking(cr, total, sb)
		class := "scan/plain"
		if cr.Chance(1, 25) { // a reader that makes no progress: 100 empty reads are tolerated, 101 are not
			k := []int{99, 100, 101, 150}[cr.Intn(4)]
			at := cr.Intn(len(sizes) + 1)
			var z []int
			z = append(z, sizes[:at]...)
			for j := 0; j < k; j++ {
				z = append(z, 0)
			}
			sizes = append(z, sizes[at:]...)
			class = "scan/empties"
		}
		if bufCap != sb {
			class = "scan/othercap"
		}
		eofWithLast := cr.Bool()
		chunks := c04Cut(data, sizes)
		rd := &c04Reader{chunks: append([][]byte(nil), chunks...), eofWithLast: eofWithLast}
		var tokens [][]byte
		var serr error
		cls, msg := lib.Guard(func() error {
			s := bufio.NewScanner(rd)
			s.Buffer(make([]byte, bufCap), 0)
			s.Split(splitfunc.New(sb))
			for s.Scan() {
				tokens = append(tokens, append([]byte(nil), s.Bytes()...))
			}
			serr = s.Err()
			return nil
		})
		end := c04ErrClass(serr)
		if cls == "panic" {
			end = "SPanic"
		}
		oracle := ""
		if bufCap == sb && c04MaxEmptyRun(sizes) <= 100 {
			// the configuration of CreateSignature: tokens must be the blocks of the data
			want := blocksOf(data, sb)
			if cls != "ok" {
				oracle = "scanner " + cls + ": " + msg
			} else if serr != nil {
				oracle = "scanner error: " + serr.Error()
			} else if len(tokens) != len(want) {
				oracle = fmt.Sprintf("%d tokens, want %d blocks", len(tokens), len(want))
			} else {
				for j := range want {
					if !bytes.Equal(tokens[j], want[j]) {
						oracle = fmt.Sprintf("token %d is %v, want %v", j, tokens[j], want[j])
						break
					}
				}
			}
		}
		c.Out.Emit(&lib.Case{Group: "scan", Class: class, Nontrivial: len(sizes) >= 2 && total > sb,
			Input:  map[string]interface{}{"split": sb, "cap": bufCap, "data": lib.Ints(data), "chunks": sizes, "eofWithLast": eofWithLast},
			Obs:    map[string]interface{}{"tokens": lib.IntsL(tokens), "end": end},
			Oracle: oracle,
			Coq: fmt.Sprintf("($ID%%N, %d%%nat, %d%%nat, %s, %s, (%s, %s))", bufCap, sb, c04ChunksCoq(chunks), lib.CoqBool(eofWithLast),
				c04ChunksCoq(tokens), end)})
	}
	return nil
}

// ---------------------------------------------------------------- group "csig"

// c04CancelPeriod: CreateSignature looks at its context once every 129 blocks (a counter that is
// reset when it exceeds 128); a signature must not depend on where those resets fall.
const c04CancelPeriod = 129

// block counts of the csig/long class and of the build/period class: on and around one, two and
// three periods, and around 128 / 256 (the neighbouring off-by-one choices of such a counter)
var c04LongCounts = []int{c04CancelPeriod, c04CancelPeriod - 1, 2 * c04CancelPeriod, c04CancelPeriod + 1, c04CancelPeriod - 2,
	2*c04CancelPeriod - 1, 3 * c04CancelPeriod, 2*c04CancelPeriod + 1, 255, 256, 3*c04CancelPeriod - 1, 3*c04CancelPeriod + 1}

func c04Csig(c *Ctx) error {
	r := c.Rng.Fork()
	n := c04N(c, 120, 1600, 800)
	for i := 0; i < n; i++ {
		cr := r.Fork()
		var bs, total int
		var data []byte
		class := "csig/small"
		switch {
		case i%8 == 3: // many blocks: block counts on and around the multiples of the period (129 blocks)
			// at which CreateSignature polls for cancellation, and around powers of two
			bs = cr.Range(1, 3)
			nb := c04LongCounts[(i/8+int(c.Seed))%len(c04LongCounts)]
			if i/8 >= len(c04LongCounts) && cr.Bool() {
				nb = cr.Range(100, 2*c04CancelPeriod+2)
			}
			total = nb * bs
			if bs > 1 && cr.Bool() { // the last of the nb blocks is short
				total -= cr.Range(1, bs-1)
			}
			data = make([]byte, total)
			for j := range data {
				data[j] = byte(cr.Intn(3))
			}
			class = "csig/long"
		case i%8 == 7: // medium blocks, byte values that overflow the 16-bit halves of the weak hash
			bs = []int{255, 256, 257, 1000, 4096}[cr.Intn(5)]
			total = []int{0, 1, bs - 1, bs, bs + 1, 2*bs - 1, 2 * bs, 2*bs + 1, 3*bs + 7}[cr.Intn(9)]
			data = make([]byte, total)
			for off := 0; off < total; {
				l := cr.Range(1, bs)
				v := []byte{255, 254, 0, 1, 128}[cr.Intn(5)]
				for j := 0; j < l && off < total; j++ {
					data[off] = v
					off++
				}
			}
			class = "csig/medium"
		default:
			bs = cr.Range(1, 8)
			total = cr.Range(0, 4*bs+2)
			if cr.Chance(1, 8) {
				total = cr.Intn(4) * bs
			}
			data = make([]byte, total)
			for j := range data {
				data[j] = byte(cr.Intn(3))
			}
			if cr.Chance(1, 3) && total >= 2*bs { // repeat the first block so that strong hashes coincide
				copy(data[bs:2*bs], data[:bs])
			}
		}
		var sizes []int
		if class == "csig/medium" {
			for rem := total; rem > 0; {
				d := []int{1, bs - 1, bs, bs + 1, 100, rem}[cr.Intn(6)]
				if d < 1 {
					d = 1
				}
				if d > rem {
					d = rem
				}
				sizes = append(sizes, d)
				rem -= d
			}
			if len(sizes) > 40 {
				sizes = []int{total}
			}
			if cr.Chance(1, 3) {
				sizes = append(sizes, 0)
			}
		} else {
			sizes = c04SmallChunking(cr, total, bs)
		}
		if class == "csig/long" { // keep the case term small: at most 64 chunks, adjacent ones merged
			for len(sizes) > 64 {
				var m []int
				for j := 0; j < len(sizes); j += 2 {
					if j+1 < len(sizes) {
						m = append(m, sizes[j]+sizes[j+1])
					} else {
						m = append(m, sizes[j])
					}
				}
				sizes = m
			}
		}
		eofWithLast := cr.Bool()
		fileIndex := int64(cr.Intn(6))
		chunks := c04Cut(data, sizes)
		rd := &c04Reader{chunks: append([][]byte(nil), chunks...), eofWithLast: eofWithLast}
		var got []wsync.BlockHash
		var cerr error
		cls, msg := lib.Guard(func() error {
			cerr = wsync.NewContext(bs).CreateSignature(context.Background(), fileIndex, rd, func(h wsync.BlockHash) error {
				h.StrongHash = append([]byte(nil), h.StrongHash...)
				got = append(got, h)
				return nil
			})
			return cerr
		})
		oracle := ""
		want := c04Expect(fileIndex, data, bs)
		gh, bad := c04FromWsync(got)
		if cls != "ok" {
			oracle = "CreateSignature " + cls + ": " + msg
		} else if bad != "" {
			oracle = bad
		} else {
			oracle = c04Compare("CreateSignature", gh, want)
		}
		end := c04ErrClass(cerr)
		if cls == "panic" {
			end = "SPanic"
		}
		c.Out.Emit(&lib.Case{Group: "csig", Class: class, Nontrivial: len(sizes) >= 2 && total > bs,
			Input:  map[string]interface{}{"bs": bs, "size": total, "chunks": sizes, "eofWithLast": eofWithLast, "fileIndex": fileIndex, "data": lib.ToRle(data).String()},
			Obs:    map[string]interface{}{"class": cls, "hashes": c04HashesJ(gh)},
			Oracle: oracle,
			Coq: fmt.Sprintf("($ID%%N, %d%%N, %d%%N, %s, %s, (%s, %s))", bs, fileIndex, c04ChunksRleCoq(chunks), lib.CoqBool(eofWithLast),
				c04HashesCoq(gh), end)})
	}
	return nil
}

// ---------------------------------------------------------------- group "fan"

// c04FanSlice is the buffer size of ctxcopy.Do, which multiread uses to read upstream.
const c04FanSlice = 16384

func c04Fan(c *Ctx) error {
	r := c.Rng.Fork()
	n := c04N(c, 40, 600, 200)
	for i := 0; i < n; i++ {
		cr := r.Fork()
		total := []int{0, 1, c04FanSlice - 1, c04FanSlice, c04FanSlice + 1, 3 * c04FanSlice, 65536, 65537, 100000}[cr.Intn(9)]
		if cr.Chance(1, 3) {
			total = cr.Range(0, 120000)
		}
		data := cr.Bytes(total)
		var sizes []int
		for rem := total; rem > 0; {
			d := []int{1, 5, 4096, c04FanSlice - 1, c04FanSlice, c04FanSlice + 1, 2 * c04FanSlice, 40000, rem}[cr.Intn(9)]
			if len(sizes) > 30 {
				d = rem
			}
			if d > rem {
				d = rem
			}
			if cr.Chance(1, 10) {
				sizes = append(sizes, 0)
			}
			sizes = append(sizes, d)
			rem -= d
		}
		eofWithLast := cr.Bool()
		// request sizes of the two readers (cycled); reader 0 behaves like the signer's scanner
		// (asks for what is left of a 64 KiB buffer), reader 1 uses arbitrary sizes
		reqs := [2][]int{{65536}, nil}
		for k := cr.Range(1, 4); k > 0; k-- {
			reqs[1] = append(reqs[1], []int{1, 100, 4096, 16383, 16384, 16385, 65536, 200000}[cr.Intn(8)])
		}
		if total > 20000 { // keep the number of pipe hand-offs bounded
			for j, q := range reqs[1] {
				if q < 4096 {
					reqs[1][j] = 4096
				}
			}
		}
		up := &c04Reader{chunks: c04Cut(data, sizes), eofWithLast: eofWithLast}
		mr := multiread.New(up)
		readers := []io.Reader{mr.Reader(), mr.Reader()}
		var gotN [2][]int
		var gotB [2][]byte
		var rerr [2]error
		cls, msg := lib.WithDeadline(60*time.Second, func() error {
			var wg sync.WaitGroup
			for k := 0; k < 2; k++ {
				wg.Add(1)
				go func(k int) {
					defer wg.Done()
					for j := 0; ; j++ {
						buf := make([]byte, reqs[k][j%len(reqs[k])])
						m, err := readers[k].Read(buf)
						gotB[k] = append(gotB[k], buf[:m]...)
						if err != nil {
							if err != io.EOF {
								rerr[k] = err
							}
							if m > 0 {
								gotN[k] = append(gotN[k], m)
							}
							return
						}
						gotN[k] = append(gotN[k], m)
					}
				}(k)
			}
			err := mr.Do(context.Background())
			wg.Wait()
			return err
		})
		oracle := ""
		if cls != "ok" {
			oracle = "multiread " + cls + ": " + msg
			if cls == "hang" {
				c.Out.Emit(&lib.Case{Class: "fan/hang", Input: map[string]interface{}{"chunks": sizes, "reqs": reqs}, Oracle: oracle})
				return nil
			}
		} else {
			for k := 0; k < 2; k++ {
				if rerr[k] != nil {
					oracle = fmt.Sprintf("reader %d: %v", k, rerr[k])
				} else if !bytes.Equal(gotB[k], data) {
					oracle = fmt.Sprintf("reader %d received %d bytes that differ from the %d upstream bytes", k, len(gotB[k]), len(data))
				}
			}
		}
		for k := 0; k < 2; k++ {
			c.Out.Emit(&lib.Case{Group: "fan", Class: fmt.Sprintf("fan/reader%d", k), Nontrivial: total > c04FanSlice && len(sizes) >= 2,
				Input:  map[string]interface{}{"chunks": sizes, "eofWithLast": eofWithLast, "reqs": reqs[k], "reader": k},
				Obs:    map[string]interface{}{"reads": gotN[k]},
				Oracle: oracle,
				Coq: fmt.Sprintf("($ID%%N, %d%%N, %s, %s, %s, %s)", c04FanSlice, coqWrites(sizes), lib.CoqBool(eofWithLast), coqWrites(reqs[k]),
					coqWrites(gotN[k]))})
		}
	}
	return nil
}

// ---------------------------------------------------------------- builds

// c04Pool serves a build's files through readers with short reads of random sizes.
type c04Pool struct {
	container *tlc.Container
	data      map[string][]byte
	rng       *lib.Rng
	tiny      bool
}

var _ lake.Pool = (*c04Pool)(nil)

func (p *c04Pool) GetSize(i int64) int64 { return p.container.Files[i].Size }
func (p *c04Pool) Close() error          { return nil }
func (p *c04Pool) GetReadSeeker(i int64) (io.ReadSeeker, error) {
	return bytes.NewReader(p.data[p.container.Files[i].Path]), nil
}
func (p *c04Pool) GetReader(i int64) (io.Reader, error) {
	d, ok := p.data[p.container.Files[i].Path]
	if !ok {
		return nil, fmt.Errorf("c04Pool: no file %d", i)
	}
	r := p.rng
	var sizes []int
	cands := []int{4096, 16383, 16384, 16385, 32768, 65535, 65536, 65537, 100000}
	for rem := len(d); rem > 0; {
		s := cands[r.Intn(len(cands))]
		if r.Chance(1, 3) {
			s = r.Range(1, 70000)
		}
		if p.tiny && len(sizes) < 150 && r.Chance(1, 2) {
			s = []int{1, 2, 7, 100}[r.Intn(4)]
		}
		if s > rem {
			s = rem
		}
		if r.Chance(1, 12) {
			sizes = append(sizes, 0)
		}
		sizes = append(sizes, s)
		rem -= s
	}
	if r.Chance(1, 4) {
		sizes = append(sizes, 0)
	}
	return &c04Reader{chunks: c04Cut(d, sizes), eofWithLast: r.Bool()}, nil
}

const c04K16 = 16384

var c04SweepSizes = []int{0, bs64 + 1, c04K16 - 1, 1, 2*bs64 - 1, c04K16, bs64 - 1, 2 * bs64, c04K16 + 1, bs64, 2*bs64 + 1, 2*c04K16 - 1,
	3*bs64 - 1, 2 * c04K16, 2*c04K16 + 1, 3 * bs64, 3*c04K16 - 1, 3 * c04K16, 3*bs64 + 1, 3*c04K16 + 1, 5*c04K16 - 1,
	9*c04K16 - 1, 5 * c04K16, 5*c04K16 + 1, 9 * c04K16, 7*c04K16 - 1, 7*c04K16 + 1, 9*c04K16 + 1}

func c04Content(r *lib.Rng, size int, structured bool) []byte {
	if structured {
		return structuredContent(r, size)
	}
	switch r.Intn(6) {
	case 0:
		return bytes.Repeat([]byte{0xff}, size)
	case 1:
		return make([]byte, size)
	case 2:
		return structuredContent(r, size)
	default:
		return lib.GenContent(r, size)
	}
}

// c04GenBuild returns a build, its class and whether it is small and structured enough for the
// "sig" correspondence group.
func c04GenBuild(r *lib.Rng, i int, thorough bool, off int) (*lib.Build, string, bool) {
	b := &lib.Build{}
	put := func(p string, d []byte) { b.Put(lib.Entry{Path: p, Kind: "file", Data: d}) }
	switch i % 10 {
	case 0, 1: // size sweep: one to four files with sizes on and around the block and pipe-slice multiples
		// four consecutive sizes of the sweep list per build: a quick run (10 sweep builds, two of
		// them replaced by corpus builds) goes through the whole list, whatever the seed
		sweepIdx := (i/10)*2 + i%10
		for k := 0; k < 4; k++ {
			s := c04SweepSizes[(4*sweepIdx+k+off)%len(c04SweepSizes)]
			put(fmt.Sprintf("%sf%d.bin", []string{"", "d/", "d/e/"}[r.Intn(3)], k), c04Content(r, s, true))
		}
		return b, "build/sweep", true
	case 2: // empty files first / last / adjacent / alone
		kind := (i / 10) % 5
		mid := c04Content(r, []int{1, bs64, bs64 + 1, 2 * bs64, 100}[r.Intn(5)], true)
		switch kind {
		case 0:
			put("a0", nil)
			put("m", mid)
		case 1:
			put("m", mid)
			put("z0", nil)
		case 2:
			put("a0", nil)
			put("a1", nil)
			put("m", mid)
			put("z0", nil)
			put("z1", nil)
		case 3:
			put("only-empty", nil)
		default:
			put("a0", nil)
			put("b/m", mid)
			put("b/n", nil)
			put("b/o", nil)
			put("c", c04Content(r, 3, true))
			put("d", nil)
		}
		return b, fmt.Sprintf("build/empties%d", kind), true
	case 3: // many small files
		nf := r.Range(40, 160)
		if thorough {
			nf = r.Range(100, 600)
		}
		for k := 0; k < nf; k++ {
			s := r.Range(0, 200)
			if r.Chance(1, 5) {
				s = 0
			}
			put(fmt.Sprintf("%s%03d.dat", []string{"", "x/", "x/y/", "z/"}[r.Intn(4)], k), r.Bytes(s))
		}
		return b, "build/manysmall", false
	case 4: // symlinks and empty directories
		put("bin/tool", c04Content(r, c04SweepSizes[r.Intn(len(c04SweepSizes))], true))
		put("data/empty", nil)
		b.Put(lib.Entry{Path: "emptydir", Kind: "dir"})
		b.Put(lib.Entry{Path: "nested/deeper/empty", Kind: "dir"})
		b.Put(lib.Entry{Path: "link-to-file", Kind: "link", Dest: "bin/tool"})
		b.Put(lib.Entry{Path: "nested/dangling", Kind: "link", Dest: "../nowhere"})
		b.Put(lib.Entry{Path: "link-to-dir", Kind: "link", Dest: "emptydir"})
		if r.Bool() {
			b.Put(lib.Entry{Path: "data/link-to-empty", Kind: "link", Dest: "empty"})
		}
		// destinations that are legal but not in lexically clean form, absolute, looping, odd bytes:
		// a symlink's destination is an opaque string that signing and validation must carry as is
		for k, at := r.Range(2, 5), r.Intn(len(c04LinkDests)); k > 0; k-- {
			d := c04LinkDests[(at+k)%len(c04LinkDests)]
			b.Put(lib.Entry{Path: []string{"", "nested/", "bin/"}[r.Intn(3)] + "ln-" + d.name, Kind: "link", Dest: d.dest})
		}
		return b, "build/links", true
	case 5: // no file at all
		if r.Bool() {
			b.Put(lib.Entry{Path: "just/dirs", Kind: "dir"})
			b.Put(lib.Entry{Path: "l", Kind: "link", Dest: "just"})
		}
		return b, "build/nofiles", true
	case 6: // a larger file (several pipe slices per block, many blocks), arbitrary contents
		if (i/10+off)%5 == 2 {
			// one of five of these builds (one per quick run) has a file whose block count is on or
			// next to a multiple of the 129 blocks after which CreateSignature polls its context
			// (> 8 MiB: oracle only); a small file follows so that a surplus or missing hash shifts it
			nb := c04LongCounts[r.Intn(4)]
			if thorough {
				nb = c04LongCounts[r.Intn(8)]
			}
			s := (nb-1)*bs64 + []int{1, bs64, bs64 - 1, c04K16, r.Range(1, bs64)}[r.Intn(5)]
			put("big.bin", structuredContent(r, s))
			put("small.txt", r.Bytes(r.Range(0, 50)))
			return b, "build/period", false
		}
		s := r.Range(4, 20)*bs64 + []int{-1, 0, 1, 777, c04K16, c04K16 + 1}[r.Intn(6)]
		if thorough && r.Chance(1, 4) {
			s = 4<<20 + r.Range(-2, 70000)
		}
		put("big.bin", c04Content(r, s, false))
		put("small.txt", r.Bytes(r.Range(0, 50)))
		return b, "build/big", false
	case 7: // equal blocks within and across files (strong-hash equality pattern), short tails equal to heads
		blk := structuredContent(r, bs64)
		tail := blk[:r.Range(1, bs64-1)]
		put("p/a", append(append(append([]byte(nil), blk...), blk...), tail...))
		put("p/b", append([]byte(nil), blk...))
		put("p/c", append([]byte(nil), tail...))
		put("p/d", nil)
		put("q", nil)
		return b, "build/equalblocks", true
	default: // random pairs' new build from the shared generator
		_, nw, _ := lib.GenPair(r, lib.PairOpts{MaxFiles: 5, MaxSize: 3 * bs64, Links: true})
		return nw, "build/genpair", false
	}
}

// c04Corpus: fixed builds that run first on every check; each one is the smallest build on which
// one of the seeded changes of seeded/C04/NOTES.md showed (empty file before a non-empty one,
// one byte more than a block, a short tail after full blocks, an empty file between files).
var c04Corpus = []func(r *lib.Rng) *lib.Build{
	func(r *lib.Rng) *lib.Build {
		b := &lib.Build{}
		b.Put(lib.Entry{Path: "a-empty", Kind: "file"})
		b.Put(lib.Entry{Path: "b-data", Kind: "file", Data: structuredContent(r, bs64+1)})
		return b
	},
	func(r *lib.Rng) *lib.Build {
		b := &lib.Build{}
		b.Put(lib.Entry{Path: "x", Kind: "file", Data: structuredContent(r, 2*bs64+5)})
		b.Put(lib.Entry{Path: "y", Kind: "file"})
		b.Put(lib.Entry{Path: "z", Kind: "file", Data: structuredContent(r, bs64)})
		return b
	},
	func(r *lib.Rng) *lib.Build {
		b := &lib.Build{}
		b.Put(lib.Entry{Path: "only", Kind: "file"})
		return b
	},
	// exactly one cancellation-poll period of blocks (128 full ones and a 1-byte tail), then a small file
	func(r *lib.Rng) *lib.Build {
		b := &lib.Build{}
		b.Put(lib.Entry{Path: "big.bin", Kind: "file", Data: structuredContent(r, (c04CancelPeriod-1)*bs64+1)})
		b.Put(lib.Entry{Path: "small.txt", Kind: "file", Data: []byte("hello")})
		return b
	},
	// every symlink destination form of c04LinkDests at once
	func(r *lib.Rng) *lib.Build {
		b := &lib.Build{}
		b.Put(lib.Entry{Path: "bin/tool", Kind: "file", Data: structuredContent(r, 100)})
		b.Put(lib.Entry{Path: "emptydir", Kind: "dir"})
		b.Put(lib.Entry{Path: "nested/deeper", Kind: "dir"})
		for k, d := range c04LinkDests {
			b.Put(lib.Entry{Path: []string{"", "nested/", "bin/"}[k%3] + "ln-" + d.name, Kind: "link", Dest: d.dest})
		}
		return b
	},
}

// c04LinkDests: symlink destinations beyond the plain relative path.  None of them is followed by
// signing or validation; each must be stored, read back and compared as the string readlink returns.
var c04LinkDests = []struct{ name, dest string }{
	{"dotslash", "./bin/tool"},
	{"updown", "bin/../bin/tool"},
	{"dslash", "bin//tool"},
	{"innerdot", "bin/./tool"},
	{"trailing", "emptydir/"},
	{"dot", "."},
	{"dotdot", ".."},
	{"updown-trailing", "nested/../"},
	{"up-out", "../../outside/of/the/build"},
	{"abs", "/nonexistent/c04/target"},
	{"abs-unclean", "/nonexistent//c04/../x/"},
	{"root", "/"},
	{"self", "ln-self"},
	{"spaces", " bin/tool with spaces "},
	{"backslash", "bin\\tool"},
	{"utf8", "bin/t\u00f6\u00f6l-\u65e5\u672c"},
	{"long", strings.Repeat("d/../", 60) + "bin/tool"},
	{"plain", "bin/tool"},
}

// c04StandaloneStream writes a signature file the way the stand-alone signer does: header,
// container, then the hashes of pwr.ComputeSignatureToWriter.
func c04StandaloneStream(container *tlc.Container, pool lake.Pool, comp lib.Compression) ([]byte, error) {
	var buf bytes.Buffer
	raw := wire.NewWriteContext(&buf)
	if err := raw.WriteMagic(pwr.SignatureMagic); err != nil {
		return nil, err
	}
	if err := raw.WriteMessage(&pwr.SignatureHeader{Compression: comp.Settings()}); err != nil {
		return nil, err
	}
	sw, err := pwr.CompressWire(raw, comp.Settings())
	if err != nil {
		return nil, err
	}
	if err := sw.WriteMessage(container); err != nil {
		return nil, err
	}
	err = pwr.ComputeSignatureToWriter(context.Background(), container, pool, lib.Quiet, func(h wsync.BlockHash) error {
		return sw.WriteMessage(&pwr.BlockHash{WeakHash: h.WeakHash, StrongHash: h.StrongHash})
	})
	if err != nil {
		return nil, err
	}
	if err := sw.Close(); err != nil {
		return nil, err
	}
	return buf.Bytes(), nil
}

// c04ContainerVsBuild: the container describes exactly the build (independent of tlc's walk)
func c04ContainerVsBuild(cn *tlc.Container, b *lib.Build) string {
	files, dirs, links := map[string]int{}, map[string]bool{}, map[string]string{}
	for _, e := range b.Entries {
		switch e.Kind {
		case "file":
			files[e.Path] = len(e.Data)
		case "dir":
			dirs[e.Path] = true
		case "link":
			links[e.Path] = e.Dest
		}
	}
	if len(cn.Files) != len(files) || len(cn.Dirs) != len(dirs) || len(cn.Symlinks) != len(links) {
		return fmt.Sprintf("container has %d files %d dirs %d symlinks, the build %d/%d/%d", len(cn.Files), len(cn.Dirs), len(cn.Symlinks), len(files), len(dirs), len(links))
	}
	seen := map[string]bool{}
	off := int64(0)
	for i, f := range cn.Files {
		s, ok := files[f.Path]
		if !ok || seen[f.Path] {
			return fmt.Sprintf("container file %d (%s) is not a file of the build (or listed twice)", i, f.Path)
		}
		seen[f.Path] = true
		if int64(s) != f.Size {
			return fmt.Sprintf("container file %s has size %d, the build's has %d", f.Path, f.Size, s)
		}
		if f.Offset != off {
			return fmt.Sprintf("container file %s has offset %d, want %d", f.Path, f.Offset, off)
		}
		off += f.Size
	}
	if cn.Size != off {
		return fmt.Sprintf("container size %d, sum of file sizes %d", cn.Size, off)
	}
	for _, d := range cn.Dirs {
		if !dirs[d.Path] {
			return "container dir " + d.Path + " is not a dir of the build"
		}
	}
	for _, l := range cn.Symlinks {
		if d, ok := links[l.Path]; !ok || d != l.Dest {
			return fmt.Sprintf("container symlink %s -> %s, build has %q", l.Path, l.Dest, d)
		}
	}
	return ""
}

func c04SameContainer(a, b *tlc.Container) string {
	if a.Size != b.Size || len(a.Files) != len(b.Files) || len(a.Dirs) != len(b.Dirs) || len(a.Symlinks) != len(b.Symlinks) {
		return fmt.Sprintf("size %d/%d files %d/%d dirs %d/%d symlinks %d/%d", a.Size, b.Size, len(a.Files), len(b.Files), len(a.Dirs), len(b.Dirs), len(a.Symlinks), len(b.Symlinks))
	}
	for i := range a.Files {
		x, y := a.Files[i], b.Files[i]
		if x.Path != y.Path || x.Size != y.Size || x.Offset != y.Offset || x.Mode != y.Mode {
			return fmt.Sprintf("file %d: %v vs %v", i, x, y)
		}
	}
	for i := range a.Dirs {
		if a.Dirs[i].Path != b.Dirs[i].Path || a.Dirs[i].Mode != b.Dirs[i].Mode {
			return fmt.Sprintf("dir %d: %v vs %v", i, a.Dirs[i], b.Dirs[i])
		}
	}
	for i := range a.Symlinks {
		x, y := a.Symlinks[i], b.Symlinks[i]
		if x.Path != y.Path || x.Dest != y.Dest || x.Mode != y.Mode {
			return fmt.Sprintf("symlink %d: %v vs %v", i, x, y)
		}
	}
	return ""
}

// c04CheckStream: a signature stream read back equals the walked container and the expected hashes
func c04CheckStream(what string, sig []byte, walked *tlc.Container, want []c04Hash) (*pwr.SignatureInfo, string) {
	var si *pwr.SignatureInfo
	cls, msg := lib.Guard(func() error {
		var err error
		si, err = lib.ReadSig(sig)
		return err
	})
	if cls != "ok" {
		return nil, what + ": ReadSignature " + cls + ": " + msg
	}
	if d := c04SameContainer(si.Container, walked); d != "" {
		return si, what + ": container read back differs from the walked one: " + d
	}
	gh, bad := c04FromWsync(si.Hashes)
	if bad != "" {
		return si, what + ": " + bad
	}
	return si, c04Compare(what+" read back", gh, want)
}

// c04Groups: oracle verdict on pwr.ComputeHashInfo, the groups as a Coq term, and whether the call
// itself returned normally
func c04Groups(si *pwr.SignatureInfo, want []c04Hash) (string, string, bool) {
	var hi *pwr.HashInfo
	cls, msg := lib.Guard(func() error {
		var err error
		hi, err = pwr.ComputeHashInfo(si)
		return err
	})
	if cls != "ok" {
		return "ComputeHashInfo " + cls + ": " + msg, "", false
	}
	byFile := map[int64][]c04Hash{}
	for _, h := range want {
		byFile[h.File] = append(byFile[h.File], h)
	}
	var coq []string
	oracle := ""
	for i, f := range si.Container.Files {
		g, ok := hi.Groups[int64(i)]
		if f.Size == 0 {
			if ok && oracle == "" {
				oracle = fmt.Sprintf("ComputeHashInfo: empty file %d has a group of %d hashes", i, len(g))
			}
		} else if !ok && oracle == "" {
			oracle = fmt.Sprintf("ComputeHashInfo: no group for non-empty file %d", i)
		}
		if !ok {
			coq = append(coq, "None")
			continue
		}
		gh, bad := c04FromWsync(g)
		if bad != "" {
			return "ComputeHashInfo: " + bad, "", true
		}
		if d := c04Compare(fmt.Sprintf("ComputeHashInfo group of file %d", i), gh, byFile[int64(i)]); d != "" && oracle == "" {
			oracle = d
		}
		// labels must refer to the whole signature: print (file, block) only, the model compares positions
		s := make([]string, len(gh))
		for j, h := range gh {
			s[j] = fmt.Sprintf("(%d,%d)", h.File, h.Block)
		}
		coq = append(coq, "(Some ["+strings.Join(s, ";")+"]%N)")
	}
	if len(hi.Groups) > len(si.Container.Files) && oracle == "" {
		oracle = "ComputeHashInfo: more groups than files"
	}
	return oracle, lib.CoqList(coq), true
}

func c04Builds(c *Ctx) error {
	r := c.Rng.Fork()
	n := c04N(c, 50, 400, 150)
	thorough := c.Tier == "thorough"
	for i := 0; i < n; i++ {
		cr := r.Fork()
		b, class, small := c04GenBuild(cr, i, thorough, int(c.Seed%1000))
		if i < len(c04Corpus) {
			b, class, small = c04Corpus[i](cr), fmt.Sprintf("corpus/%d", i), true
		}
		comp1 := lib.Compressions[(i+int(c.Seed))%len(lib.Compressions)]
		comp2 := lib.Compressions[(i/len(lib.Compressions)+3*i+int(c.Seed)+2)%len(lib.Compressions)]
		base := filepath.Join(c.Tmp, fmt.Sprintf("c04-%d", i))
		newDir, oldDir, copyDir := filepath.Join(base, "new"), filepath.Join(base, "old"), filepath.Join(base, "copy")
		// the old build the patch is made against: nothing, the same build, or an edited subset
		old := &lib.Build{}
		oldKind := []string{"empty", "same", "edited"}[cr.Intn(3)]
		switch oldKind {
		case "same":
			old = b.Clone()
		case "edited":
			for _, e := range b.Clone().Entries {
				if e.Kind == "file" && cr.Chance(1, 3) {
					continue
				}
				if e.Kind == "file" && len(e.Data) > 0 && cr.Bool() {
					e.Data, _ = lib.Edit(cr, e.Data)
				}
				old.Put(e)
			}
		}
		for _, x := range []struct {
			b *lib.Build
			d string
		}{{b, newDir}, {old, oldDir}, {b, copyDir}} {
			if err := x.b.WriteTo(x.d); err != nil {
				return err
			}
		}
		walked, err := lib.Walk(newDir)
		if err != nil {
			return err
		}
		data := map[string][]byte{}
		for _, e := range b.Files() {
			data[e.Path] = e.Data
		}
		oracle := c04ContainerVsBuild(walked, b)
		fail := func(s string) {
			if oracle == "" && s != "" {
				oracle = s
			}
		}
		// what the property says the signature is
		var want []c04Hash
		count := 0
		for fi, f := range walked.Files {
			want = append(want, c04Expect(int64(fi), data[f.Path], bs64)...)
			nb := (len(data[f.Path]) + bs64 - 1) / bs64
			if nb < 1 {
				nb = 1
			}
			count += nb
		}
		if len(want) != count {
			return fmt.Errorf("c04: expectation has %d hashes, count formula %d", len(want), count)
		}
		obs := map[string]interface{}{"count": count}

		// producer 1: the signature written alongside a patch (source read once, fanned out), with
		// the plain file pool or a pool whose readers return short reads
		poolKind := []string{"fs", "chunky", "chunky-tiny"}[cr.Intn(3)]
		var pool lake.Pool
		if poolKind != "fs" {
			pool = &c04Pool{container: walked, data: data, rng: cr.Fork(), tiny: poolKind == "chunky-tiny"}
		}
		var dr *lib.DiffResult
		cls, msg := lib.WithDeadline(120*time.Second, func() error {
			var err error
			dr, err = lib.Diff(oldDir, newDir, comp1, pool)
			return err
		})
		obs["diff"] = cls
		if cls == "hang" {
			c.Out.Emit(&lib.Case{Class: class, Input: map[string]interface{}{"new": b.Summary(), "subseed": i}, Oracle: "WritePatch hang: " + msg})
			return nil
		}
		var si *pwr.SignatureInfo
		groupsCoq := ""
		if cls != "ok" {
			fail("WritePatch " + cls + ": " + msg)
		} else {
			var d string
			si, d = c04CheckStream("diff-time signature ("+comp1.String()+", pool "+poolKind+")", dr.Sig, walked, want)
			fail(d)
		}

		// producer 2: stand-alone signing, as a list and as a stream under another compression
		var sa []wsync.BlockHash
		cls, msg = lib.Guard(func() error {
			var err error
			sa, err = pwr.ComputeSignature(context.Background(), walked, fspool.New(walked, newDir), lib.Quiet)
			return err
		})
		if cls != "ok" {
			fail("ComputeSignature " + cls + ": " + msg)
		} else {
			gh, bad := c04FromWsync(sa)
			fail(bad)
			if bad == "" {
				fail(c04Compare("ComputeSignature (file pool)", gh, want))
			}
		}
		cls, msg = lib.Guard(func() error {
			var err error
			sa, err = pwr.ComputeSignature(context.Background(), walked, &c04Pool{container: walked, data: data, rng: cr.Fork(), tiny: cr.Bool()}, lib.Quiet)
			return err
		})
		if cls != "ok" {
			fail("ComputeSignature over short reads " + cls + ": " + msg)
		} else {
			gh, bad := c04FromWsync(sa)
			fail(bad)
			if bad == "" {
				fail(c04Compare("ComputeSignature (short reads)", gh, want))
			}
		}
		var saStream []byte
		cls, msg = lib.Guard(func() error {
			var err error
			saStream, err = c04StandaloneStream(walked, fspool.New(walked, newDir), comp2)
			return err
		})
		var si2 *pwr.SignatureInfo
		if cls != "ok" {
			fail("stand-alone signature stream " + cls + ": " + msg)
		} else {
			var d string
			si2, d = c04CheckStream("stand-alone signature ("+comp2.String()+")", saStream, walked, want)
			fail(d)
		}
		// every compression setting for both producers on a rotating subset (all of them in thorough runs)
		if thorough && i%5 == 0 || !thorough && i%13 == 0 {
			for _, cp := range lib.Compressions {
				cls, msg = lib.Guard(func() error {
					d2, err := lib.Diff(oldDir, newDir, cp, nil)
					if err != nil {
						return err
					}
					if _, d := c04CheckStream("diff-time signature ("+cp.String()+")", d2.Sig, walked, want); d != "" {
						fail(d)
					}
					s2, err := c04StandaloneStream(walked, fspool.New(walked, newDir), cp)
					if err != nil {
						return err
					}
					if _, d := c04CheckStream("stand-alone signature ("+cp.String()+")", s2, walked, want); d != "" {
						fail(d)
					}
					return nil
				})
				if cls != "ok" {
					fail("signing under " + cp.String() + " " + cls + ": " + msg)
				}
			}
			obs["allCompressions"] = true
		}

		// hash groups and validation of an undamaged copy
		var hashInfoOK [2]bool
		for k, s := range []*pwr.SignatureInfo{si, si2} {
			if s == nil {
				continue
			}
			who := []string{"diff-time", "stand-alone"}[k]
			d, gc, callOK := c04Groups(s, want)
			if d != "" {
				fail(who + " signature: " + d)
			}
			hashInfoOK[k] = callOK
			if !callOK {
				// Validate would call ComputeHashInfo on the same input from a goroutine of its own,
				// where a panic cannot be intercepted: the failure is reported, validation skipped
				continue
			}
			if k == 0 && d == "" {
				groupsCoq = gc
			}
			cls, msg = lib.WithDeadline(120*time.Second, func() error { return pwr.AssertValid(copyDir, s) })
			if cls == "hang" {
				c.Out.Emit(&lib.Case{Class: class, Input: map[string]interface{}{"new": b.Summary(), "subseed": i}, Oracle: "AssertValid hang: " + msg})
				return nil
			}
			if cls != "ok" {
				fail("AssertValid of an undamaged copy against the " + who + " signature " + cls + ": " + msg)
			}
			obs["assertValid-"+who] = cls
		}
		if si != nil && hashInfoOK[0] {
			wp := filepath.Join(base, "wounds.pww")
			vctx := &pwr.ValidatorContext{WoundsPath: wp, Consumer: lib.Quiet}
			cls, msg = lib.WithDeadline(120*time.Second, func() error { return vctx.Validate(context.Background(), copyDir, si) })
			if cls == "hang" {
				c.Out.Emit(&lib.Case{Class: class, Input: map[string]interface{}{"new": b.Summary(), "subseed": i}, Oracle: "Validate hang: " + msg})
				return nil
			}
			if cls != "ok" {
				fail("Validate (wounds file) of an undamaged copy " + cls + ": " + msg)
			} else {
				if _, err := os.Stat(wp); err == nil {
					fail("Validate wrote a wounds file for an undamaged copy")
				}
				if vctx.WoundsConsumer != nil && (vctx.WoundsConsumer.HasWounds() || vctx.WoundsConsumer.TotalCorrupted() != 0) {
					fail(fmt.Sprintf("wounds consumer reports wounds (%d bytes) for an undamaged copy", vctx.WoundsConsumer.TotalCorrupted()))
				}
			}
			obs["validate"] = cls
			if err := pwr.AssertNoGhosts(copyDir, si); err != nil {
				fail("signature container does not match the tree: " + err.Error())
			}
		}
		// the validated copy must not have been modified by validation
		if got, err := lib.ReadBuild(copyDir); err != nil {
			return err
		} else if d := lib.DiffBuilds(got, b); d != "" {
			fail("validation modified the validated tree: " + d)
		}

		cs := &lib.Case{Class: class + "/" + oldKind, Nontrivial: count >= 2,
			Input: map[string]interface{}{"new": b.Summary(), "oldKind": oldKind, "compDiff": comp1.String(), "compStandalone": comp2.String(), "pool": poolKind, "subseed": i},
			Obs:   obs, Oracle: oracle}
		if small && si != nil && groupsCoq != "" && oracle == "" {
			// correspondence: the files in container order, the hashes read back from the
			// diff-time stream, the groups
			var fs []string
			tot := 0
			for _, f := range walked.Files {
				rle := lib.ToRle(data[f.Path])
				tot += len(rle)
				fs = append(fs, rle.Coq())
			}
			limit := int64(3*bs64 + 2) // model evaluation cost grows with the bytes hashed
			if thorough {
				limit = 7*bs64 + 2
			}
			if tot < 400 && walked.Size <= limit {
				gh, _ := c04FromWsync(si.Hashes)
				cs.Group = "sig"
				cs.Coq = fmt.Sprintf("($ID%%N, %s, %s, %s)", lib.CoqList(fs), c04HashesCoq(gh), groupsCoq)
				obs["hashes"] = c04HashesJ(gh)
			}
		}
		c.Out.Emit(cs)
		removeAll(base)
	}
	return nil
}
