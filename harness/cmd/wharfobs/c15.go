package main

// C15 — diffing is deterministic and free of data races.
//
// Groups:
//   "fanout"    : multiread.New + two pipe readers + taskgroup.Do (the per-file structure of
//                 pwr/diff.go) with an upstream that returns arbitrary short reads and two
//                 recording consumers reading with their own buffer sizes; observables: what each
//                 consumer received, the error class, whether Do returned after both finished
//   "collector" : bsdiff.DiffContext.Do (dispatcher / workers / collector); the forwarded matches
//                 are reconstructed from the Control messages and attributed to scan blocks;
//                 observables: the order in which (block, index) pairs were forwarded
// Oracle-only classes: "diff/..." (same pair diffed N times under GOMAXPROCS 1,2,8,16 with a
// source pool that returns short reads and yields: patch and signature bytes identical; after an
// abandoned diff and beside other diffs of the same process: c15_seq.go),
// "optimize/..." (rediff N times, fixed parameters, plus many repetitions of its analysis pass),
// "bsdiff/..." (message stream identical, and replaying it on old gives new), "race/..." (the
// pipelines in a `go build -race` child).
// Every slicing reader ends its stream in one of the two ways an io.Reader may: (0, io.EOF) on a
// read of its own, or io.EOF together with the last bytes (chunkyReader.eofData, c15Upstream.eofData).

import (
	"bytes"
	"context"
	"encoding/json"
	"fmt"
	"io"
	"os"
	"path/filepath"
	"regexp"
	"runtime"
	"strconv"
	"strings"
	"sync"
	"time"

	"github.com/golang/protobuf/proto"
	"github.com/itchio/headway/state"
	"github.com/itchio/lake"
	"github.com/itchio/lake/pools/fspool"
	"github.com/itchio/wharf/bsdiff"
	"github.com/itchio/wharf/multiread"
	"github.com/itchio/wharf/pwr/rediff"
	"github.com/itchio/wharf/taskgroup"

	"verif/harness/lib"
)

func init() {
	register("C15", runC15)
	register("C15race", runC15Race)
}

var c15Procs = []int{1, 2, 8, 16}

// ---------------------------------------------------------------- readers that slice and yield

type chunkyReader struct {
	r       io.Reader
	rng     *lib.Rng
	burst   int   // remaining 1-byte reads of a burst
	left    int64 // bytes the underlying reader still has (-1: unknown)
	eofData bool  // hand out the last bytes together with io.EOF (n > 0, err == io.EOF: legal for an io.Reader)
	done    bool
}

func (c *chunkyReader) Read(p []byte) (int, error) {
	if c.rng.Chance(1, 3) {
		runtime.Gosched()
	}
	k := len(p)
	if k > 1 {
		switch {
		case c.burst > 0:
			c.burst--
			k = 1
		case c.rng.Chance(1, 40):
			c.burst = c.rng.Range(3, 40)
			k = 1
		default:
			k = []int{1, 2, 7, 100, 1000, 4095, 4096, 4097, 16383, len(p)}[c.rng.Intn(10)]
			if c.rng.Chance(1, 3) {
				k = c.rng.Range(1, len(p))
			}
		}
		if k > len(p) {
			k = len(p)
		}
	}
	if c.done {
		return 0, io.EOF
	}
	n, err := c.r.Read(p[:k])
	if c.left >= 0 {
		c.left -= int64(n)
		if c.eofData && c.left == 0 && n > 0 && err == nil {
			c.done = true
			err = io.EOF
		}
	}
	if c.rng.Chance(1, 4) {
		runtime.Gosched()
	}
	return n, err
}

// how the readers of a slicing pool report the end of a file
const (
	eofRandom   = iota // each reader tosses a coin
	eofWithData        // every reader returns its last bytes together with io.EOF
	eofSeparate        // every reader returns (0, io.EOF) after its last bytes, like os.File
)

var c15EOFModes = []string{"random", "with-data", "separate"}

func newChunky(r io.Reader, size int64, rng *lib.Rng, mode int) *chunkyReader {
	c := &chunkyReader{r: r, rng: rng, left: size}
	switch mode {
	case eofWithData:
		c.eofData = true
	case eofRandom:
		c.eofData = rng.Bool()
	}
	return c
}

// chunkyPool wraps the source pool of a diff
type chunkyPool struct {
	lake.Pool
	mu   sync.Mutex
	rng  *lib.Rng
	mode int // eofRandom | eofWithData | eofSeparate
}

func (p *chunkyPool) GetReader(i int64) (io.Reader, error) {
	r, err := p.Pool.GetReader(i)
	if err != nil {
		return nil, err
	}
	p.mu.Lock()
	defer p.mu.Unlock()
	return newChunky(r, p.Pool.GetSize(i), p.rng.Fork(), p.mode), nil
}

// the optimizer takes read-seekers: same slicing, Seek passed through and the number of bytes
// left recomputed from the position reached
type chunkySeeker struct {
	*chunkyReader
	s    io.Seeker
	size int64
}

func (c *chunkySeeker) Seek(off int64, whence int) (int64, error) {
	pos, err := c.s.Seek(off, whence)
	c.done = false
	if err != nil || pos > c.size {
		c.left = -1
	} else {
		c.left = c.size - pos
	}
	return pos, err
}

func (p *chunkyPool) GetReadSeeker(i int64) (io.ReadSeeker, error) {
	r, err := p.Pool.GetReadSeeker(i)
	if err != nil {
		return nil, err
	}
	p.mu.Lock()
	defer p.mu.Unlock()
	size := p.Pool.GetSize(i)
	return &chunkySeeker{newChunky(r, size, p.rng.Fork(), p.mode), r, size}, nil
}

func withProcs(n int, f func()) {
	old := runtime.GOMAXPROCS(n)
	defer runtime.GOMAXPROCS(old)
	f()
}

// ---------------------------------------------------------------- the check

func runC15(c0 *Ctx) error {
	cc := *c0
	c := &cc
	if tmp := shmScratch("c15"); tmp != "" {
		defer os.RemoveAll(tmp)
		c.Tmp = tmp
	}
	t0 := time.Now()
	phase := func(name string) {
		if os.Getenv("VERIF_TIMING") != "" {
			fmt.Fprintf(os.Stderr, "C15 %-14s %6.1fs\n", name, time.Since(t0).Seconds())
		}
		t0 = time.Now()
	}
	// VERIF_C15_ONLY=<phase> (development aid): run that phase alone
	only := os.Getenv("VERIF_C15_ONLY")
	for _, ph := range []struct {
		name string
		run  func(*Ctx) error
	}{
		{"corpus", c15OptimizeCorpus}, {"fanout", c15Fanout}, {"diff", c15DiffCases}, {"sequences", c15SeqCases},
		{"optimize", c15OptimizeCases}, {"bsdiff", c15Bsdiff}, {"reused-context", c15ReuseCases}, {"race", c15RaceCases},
	} {
		if only != "" && only != ph.name {
			continue
		}
		if err := ph.run(c); err != nil {
			return err
		}
		phase(ph.name)
	}
	return nil
}

// ---------------------------------------------------------------- fan-out (multiread + taskgroup)

type c15Upstream struct {
	data    []byte
	chunks  []int // sizes of successive reads (0 allowed: a read that returns nothing)
	pos     int
	yield   *lib.Rng
	eofData bool // the last read of the list returns its bytes together with io.EOF
}

func (u *c15Upstream) Read(p []byte) (int, error) {
	if u.yield.Chance(1, 2) {
		runtime.Gosched()
	}
	if len(u.chunks) == 0 {
		return 0, io.EOF
	}
	k := u.chunks[0]
	if k > len(p) {
		k = len(p)
		u.chunks[0] -= k
	} else {
		u.chunks = u.chunks[1:]
	}
	n := copy(p[:k], u.data[u.pos:])
	u.pos += n
	if u.eofData && len(u.chunks) == 0 {
		return n, io.EOF
	}
	return n, nil
}

type c15Consumer struct {
	buf    int
	got    []byte
	reads  int
	yield  *lib.Rng
	doneAt time.Time
}

func (k *c15Consumer) run(r io.Reader) error {
	b := make([]byte, k.buf)
	for {
		if k.yield.Chance(1, 3) {
			runtime.Gosched()
		}
		n, err := r.Read(b)
		k.reads++
		k.got = append(k.got, b[:n]...)
		if err == io.EOF {
			k.doneAt = time.Now()
			return nil
		}
		if err != nil {
			return err
		}
	}
}

func c15Fanout(c *Ctx) error {
	r := c.Rng.Fork()
	n := c.N(60, 600)
	for i := 0; i < n; i++ {
		cr := r.Fork()
		size := []int{0, 1, 2, 5, 17, 64, 200}[cr.Intn(7)]
		if cr.Chance(1, 3) {
			size = cr.Range(0, 300)
		}
		data := make([]byte, size)
		for j := range data {
			data[j] = byte(cr.Intn(250))
		}
		// upstream chunking: any composition, with empty reads here and there
		var chunks []int
		for rem := size; rem > 0; {
			d := cr.Range(1, rem)
			if cr.Chance(2, 3) {
				d = cr.Range(1, min(rem, 9))
			}
			chunks = append(chunks, d)
			rem -= d
			if cr.Chance(1, 8) {
				chunks = append(chunks, 0)
			}
		}
		if cr.Chance(1, 6) {
			chunks = append([]int{0}, chunks...)
		}
		procs := c15Procs[i%len(c15Procs)]
		// one case in three: the source returns its last read together with io.EOF
		eofData := (i/len(c15Procs))%3 == 1
		b1, b2 := []int{1, 2, 3, 8, 64, 1024}[cr.Intn(6)], []int{1, 2, 5, 16, 4096}[cr.Intn(5)]
		k1 := &c15Consumer{buf: b1, yield: cr.Fork()}
		k2 := &c15Consumer{buf: b2, yield: cr.Fork()}
		var cls, msg string
		var returned time.Time
		withProcs(procs, func() {
			cls, msg = lib.WithDeadline(20*time.Second, func() error {
				mr := multiread.New(&c15Upstream{data: data, chunks: append([]int(nil), chunks...), yield: cr.Fork(), eofData: eofData})
				r1, r2 := mr.Reader(), mr.Reader()
				err := taskgroup.Do(context.Background(),
					func() error { return k1.run(r1) },
					func() error { return k2.run(r2) },
					func() error { return mr.Do(context.Background()) })
				returned = time.Now()
				return err
			})
		})
		oracle := ""
		switch {
		case cls != "ok":
			oracle = "fan-out " + cls + ": " + msg
		case !bytes.Equal(k1.got, data):
			oracle = fmt.Sprintf("consumer 1 received %d bytes that differ from the %d upstream bytes", len(k1.got), len(data))
		case !bytes.Equal(k2.got, data):
			oracle = fmt.Sprintf("consumer 2 received %d bytes that differ from the %d upstream bytes", len(k2.got), len(data))
		case k1.doneAt.After(returned) || k2.doneAt.After(returned) || k1.doneAt.IsZero() || k2.doneAt.IsZero():
			oracle = "taskgroup.Do returned before both consumers had finished"
		}
		ch := make([]string, len(chunks))
		for j, x := range chunks {
			ch[j] = strconv.Itoa(x)
		}
		ok := "false"
		if cls == "ok" {
			ok = "true"
		}
		cl := fmt.Sprintf("fanout/procs%d", procs)
		if eofData {
			cl += "/eof-with-data"
		}
		c.Out.Emit(&lib.Case{Group: "fanout", Class: cl, Nontrivial: len(chunks) >= 2 && size >= 2,
			Input:  map[string]interface{}{"data": lib.Ints(data), "chunks": chunks, "eofWithLastRead": eofData, "buf1": b1, "buf2": b2, "procs": procs},
			Obs:    map[string]interface{}{"class": cls, "got1": len(k1.got), "got2": len(k2.got), "reads1": k1.reads, "reads2": k2.reads},
			Oracle: oracle,
			Coq: fmt.Sprintf("($ID%%N, %s, ([%s]%%nat), %s, %d%%nat, %d%%nat, %d%%N, (%s, %s, %s))", lib.CoqBytes(data), strings.Join(ch, ";"), lib.CoqBool(eofData), b1, b2,
				cr.U64()%(1<<31), ok, lib.CoqBytes(k1.got), lib.CoqBytes(k2.got))})
	}
	return nil
}

// ---------------------------------------------------------------- diff + sign determinism

type c15Pair struct {
	base, oldDir, newDir string
	old, nw              *lib.Build
	rel                  []string
}

func c15WritePair(c *Ctx, name string, old, nw *lib.Build, rel []string) (*c15Pair, error) {
	p := &c15Pair{base: filepath.Join(c.Tmp, name), old: old, nw: nw, rel: rel}
	os.RemoveAll(p.base)
	p.oldDir, p.newDir = filepath.Join(p.base, "old"), filepath.Join(p.base, "new")
	if err := old.WriteTo(p.oldDir); err != nil {
		return nil, err
	}
	if err := nw.WriteTo(p.newDir); err != nil {
		return nil, err
	}
	return p, nil
}

// one diff with a slicing, yielding source pool under the given GOMAXPROCS; mode says how its
// readers report the end of a file (rng == nil: plain fspool, GOMAXPROCS as given)
func c15DiffOnce(p *c15Pair, comp lib.Compression, procs int, rng *lib.Rng, mode int) (res *lib.DiffResult, cls, msg string) {
	withProcs(procs, func() {
		cls, msg = lib.WithDeadline(120*time.Second, func() error {
			var pool lake.Pool
			if rng != nil {
				nc, err := lib.Walk(p.newDir)
				if err != nil {
					return err
				}
				pool = &chunkyPool{Pool: fspool.New(nc, p.newDir), rng: rng, mode: mode}
			}
			var err error
			res, err = lib.Diff(p.oldDir, p.newDir, comp, pool)
			return err
		})
	})
	return
}

func c15DiffCases(c *Ctx) error {
	r := c.Rng.Fork()
	n := c.N(10, 120)
	runs := c.N(4, 16)
	for i := 0; i < n; i++ {
		cr := r.Fork()
		opts := lib.PairOpts{MaxFiles: 4, MaxSize: 3 * lib.BS, Links: true}
		if c.Thorough() && i%6 == 5 {
			opts = lib.PairOpts{MaxFiles: 2, MaxSize: 5<<20 + 333}
		}
		old, nw, rel := lib.GenPair(cr, opts)
		p, err := c15WritePair(c, "c15d", old, nw, rel)
		if err != nil {
			return err
		}
		comp := lib.Compressions[(i+int(c.Seed))%len(lib.Compressions)]
		if err := c15DiffDeterminism(c, cr, p, comp, runs, ""); err != nil {
			return err
		}
		os.RemoveAll(p.base)
	}
	return nil
}

func c15DiffDeterminism(c *Ctx, cr *lib.Rng, p *c15Pair, comp lib.Compression, runs int, corpus string) error {
	// reference: plain pool, default GOMAXPROCS
	ref, cls, msg := c15DiffOnce(p, comp, runtime.NumCPU(), nil, eofSeparate)
	oracle := ""
	var procsUsed []int
	var eofUsed []string
	if cls != "ok" {
		oracle = "reference diff " + cls + ": " + msg
	}
	for k := 0; k < runs && oracle == ""; k++ {
		procs := c15Procs[k%len(c15Procs)]
		// how the readers end a file rotates independently of GOMAXPROCS (3 and 4 are coprime)
		mode := (k + 1) % 3
		procsUsed = append(procsUsed, procs)
		eofUsed = append(eofUsed, c15EOFModes[mode])
		got, cls, msg := c15DiffOnce(p, comp, procs, cr.Fork(), mode)
		how := fmt.Sprintf("run %d (GOMAXPROCS %d, slicing source pool, EOF %s)", k, procs, c15EOFModes[mode])
		switch {
		case cls != "ok":
			oracle = fmt.Sprintf("%s diff %s: %s", how, cls, msg)
		case !bytes.Equal(got.Patch, ref.Patch):
			oracle = fmt.Sprintf("%s: patch bytes differ from the reference run (len %d vs %d, first difference at %d)", how, len(got.Patch), len(ref.Patch), firstDiffAt(got.Patch, ref.Patch))
		case !bytes.Equal(got.Sig, ref.Sig):
			oracle = fmt.Sprintf("%s: signature bytes differ from the reference run (len %d vs %d, first difference at %d)", how, len(got.Sig), len(ref.Sig), firstDiffAt(got.Sig, ref.Sig))
		}
	}
	cl := "diff/" + comp.String()
	if corpus != "" {
		cl = "corpus/" + corpus
	}
	obs := map[string]interface{}{"runs": len(procsUsed), "procs": procsUsed, "eof": eofUsed}
	if ref != nil {
		obs["patchLen"], obs["sigLen"] = len(ref.Patch), len(ref.Sig)
	}
	c.Out.Emit(&lib.Case{Class: cl, Nontrivial: len(p.nw.Files()) >= 1 && len(procsUsed) >= 2,
		Input: map[string]interface{}{"old": p.old.Summary(), "new": p.nw.Summary(), "relations": p.rel, "compression": comp.String()},
		Obs:   obs, Oracle: oracle})
	return nil
}

func firstDiffAt(a, b []byte) int {
	n := min(len(a), len(b))
	for i := 0; i < n; i++ {
		if a[i] != b[i] {
			return i
		}
	}
	return n
}

// ---------------------------------------------------------------- optimizer determinism

// pairs for the optimizer: every file of both builds has at least 1 KiB (bsdiff on empty or
// tiny inputs is the subject of C07/C12, not of this property); mosaic: see c15Mosaic
func c15GenOptPair(r *lib.Rng, big, mosaic bool) (*lib.Build, *lib.Build, []string) {
	old, nw := &lib.Build{}, &lib.Build{}
	var rel []string
	nf := r.Range(1, 3)
	for i := 0; i < nf; i++ {
		size := []int{1500, 20000, lib.BS, lib.BS + 1, 2*lib.BS + 77, 3 * lib.BS}[r.Intn(6)]
		if big && i == 0 {
			size = r.Range(6, 9) * 128 * 1024 // several bsdiff scan blocks
		}
		d := lib.GenContent(r, size)
		p := fmt.Sprintf("f%d.bin", i)
		old.Put(lib.Entry{Path: p, Kind: "file", Data: d})
		e := d
		for k := r.Range(1, 4); k > 0; k-- {
			var how string
			e, how = lib.Edit(r, e)
			rel = append(rel, p+":"+how)
		}
		if len(e) < 1024 {
			e = append(e, r.Bytes(1024)...)
		}
		np := p
		if r.Chance(1, 4) {
			np = fmt.Sprintf("moved%d.bin", i)
			rel = append(rel, "renamed:"+p)
		}
		nw.Put(lib.Entry{Path: np, Kind: "file", Data: e})
	}
	if r.Chance(1, 2) { // a new file made of equal shares of two old files: equal claims on it
		a, b := r.Bytes(2*lib.BS), r.Bytes(2*lib.BS)
		old.Put(lib.Entry{Path: "share-a.bin", Kind: "file", Data: a})
		old.Put(lib.Entry{Path: "share-b.bin", Kind: "file", Data: b})
		nw.Put(lib.Entry{Path: "shared.bin", Kind: "file", Data: append(append(append([]byte(nil), a...), r.Bytes(300)...), b...)})
		rel = append(rel, "shared:two old files contribute the same number of blocks")
	}
	if mosaic {
		for m, n := 0, r.Range(1, 2); m < n; m++ {
			rel = append(rel, c15Mosaic(r, old, nw, m)...)
		}
	}
	return old, nw, rel
}

// c15Mosaic adds a new file assembled from block ranges of 2..4 old "donor" files in unequal
// shares: several old files have a claim on it, and which of them rank first, tie, or pass any
// threshold on the reused bytes depends on the spans taken, on whether a donor goes on after the
// range taken from it (rediff credits a range with span*64 KiB - 1 plus the size of the block
// after it) and on its tail.  The new file has a name of its own, or that of a donor.
func c15Mosaic(r *lib.Rng, old, nw *lib.Build, m int) []string {
	k := []int{2, 2, 2, 3, 3, 4}[r.Intn(6)]
	donors := make([][]byte, k)
	names := make([]string, k)
	for j := range donors {
		donors[j] = r.Bytes(r.Range(1, 4)*lib.BS + []int{0, 0, 1, 777, lib.BS - 1}[r.Intn(5)])
		names[j] = fmt.Sprintf("donor-%d-%d.bin", m, j)
		old.Put(lib.Entry{Path: names[j], Kind: "file", Data: donors[j]})
	}
	// donors in random order
	order := make([]int, k)
	for j := range order {
		order[j] = j
	}
	for j := k - 1; j > 0; j-- {
		x := r.Intn(j + 1)
		order[j], order[x] = order[x], order[j]
	}
	var data []byte
	var parts []string
	for _, j := range order {
		nb := len(donors[j]) / lib.BS
		span := r.Range(1, nb)
		if r.Chance(1, 2) {
			span = 1
		}
		start := r.Range(0, nb-span)
		if r.Chance(1, 2) {
			start = 0
		}
		data = append(data, donors[j][start*lib.BS:(start+span)*lib.BS]...)
		parts = append(parts, fmt.Sprintf("%s[%d+%d of %d blocks, %d bytes]", names[j], start, span, nb, len(donors[j])))
		if r.Chance(1, 5) { // fresh bytes in between: what follows is no longer block-aligned in the new file
			ins := r.Range(1, 500)
			data = append(data, r.Bytes(ins)...)
			parts = append(parts, fmt.Sprintf("fresh[%d]", ins))
		}
	}
	name := fmt.Sprintf("mosaic-%d.bin", m)
	if r.Chance(1, 4) {
		name = names[r.Intn(k)]
	}
	for j := range donors { // some donors stay as they are
		if names[j] != name && r.Chance(1, 2) {
			nw.Put(lib.Entry{Path: names[j], Kind: "file", Data: donors[j]})
		}
	}
	nw.Put(lib.Entry{Path: name, Kind: "file", Data: data})
	return []string{"mosaic:" + name + " = " + strings.Join(parts, " + ")}
}

// one Optimize of an analysed context; rng != nil: both pools slice their reads, yield, and end
// their files as mode says
func c15OptimizeOnce(rc rediff.Context, p *c15Pair, procs int, rng *lib.Rng, mode int) (out []byte, cls, msg string) {
	withProcs(procs, func() {
		cls, msg = lib.WithDeadline(180*time.Second, func() error {
			var tp, sp lake.Pool = fspool.New(rc.GetTargetContainer(), p.oldDir), fspool.New(rc.GetSourceContainer(), p.newDir)
			if rng != nil {
				tp, sp = &chunkyPool{Pool: tp, rng: rng.Fork(), mode: mode}, &chunkyPool{Pool: sp, rng: rng.Fork(), mode: mode}
			}
			defer tp.Close()
			defer sp.Close()
			var buf bytes.Buffer
			err := rc.Optimize(rediff.OptimizeParams{TargetPool: tp, SourcePool: sp, PatchWriter: &buf})
			out = buf.Bytes()
			return err
		})
	})
	return
}

func c15MappingNames(rc rediff.Context, ms []rdMapping) []string {
	var out []string
	for _, m := range ms {
		out = append(out, fmt.Sprintf("%s<-%s(%d)", rc.GetSourceContainer().Files[m.Source].Path, rc.GetTargetContainer().Files[m.Target].Path, m.NumBytes))
	}
	return out
}

// The optimizer twice over:
//   - `runs` complete optimizations of the same patch with the same parameters, under GOMAXPROCS
//     1,2,8,16; run 0 reads both builds through plain pools, the others through pools that slice,
//     yield and end their files in the three ways: identical bytes;
//   - `analyses` repetitions of the (cheap) analysis pass alone: whenever one of them chooses
//     other bsdiff targets than analysis 0, that context is optimized too and its bytes compared
//     with run 0.  A choice that follows Go map iteration order flips about once in eight
//     analyses: a handful of complete runs sees it too rarely.
func c15OptimizeDeterminism(c *Ctx, cr *lib.Rng, p *c15Pair, o lib.OptParams, runs, analyses int, corpus string) error {
	oracle := ""
	dr, cls, msg := c15DiffOnce(p, lib.Compressions[0], runtime.NumCPU(), nil, eofSeparate)
	if cls != "ok" {
		return fmt.Errorf("c15: diff for the optimizer failed: %s %s", cls, msg)
	}
	var ref []byte
	var refMap []rdMapping
	var refNames []string
	var procsUsed []int
	analyze := func() (rc rediff.Context, ms []rdMapping, cls, msg string) {
		cls, msg = lib.WithDeadline(60*time.Second, func() error {
			var err error
			rc, ms, err = rdAnalyze(dr.Patch, o)
			return err
		})
		return
	}
	for k := 0; k < runs && oracle == ""; k++ {
		procs := c15Procs[k%len(c15Procs)]
		procsUsed = append(procsUsed, procs)
		rc, ms, cls, msg := analyze()
		var got []byte
		how := fmt.Sprintf("run %d (GOMAXPROCS %d)", k, procs)
		if cls == "ok" {
			var rng *lib.Rng
			if k > 0 {
				rng = cr.Fork()
				how = fmt.Sprintf("run %d (GOMAXPROCS %d, slicing pools, EOF %s)", k, procs, c15EOFModes[k%3])
			}
			got, cls, msg = c15OptimizeOnce(rc, p, procs, rng, k%3)
		}
		switch {
		case cls != "ok":
			oracle = fmt.Sprintf("%s optimize %s: %s", how, cls, msg)
		case k == 0:
			ref, refMap, refNames = got, ms, c15MappingNames(rc, ms)
		case !bytes.Equal(got, ref):
			oracle = fmt.Sprintf("%s: optimized patch differs from run 0 with the same parameters (len %d vs %d, first difference at %d; bsdiff targets %v vs %v)", how, len(got), len(ref), firstDiffAt(got, ref), c15MappingNames(rc, ms), refNames)
		}
		if cls == "hang" {
			break
		}
	}
	done := 0
	for k := 0; k < analyses && oracle == "" && ref != nil; k++ {
		rc, ms, cls, msg := analyze()
		done++
		if cls != "ok" {
			oracle = fmt.Sprintf("analysis %d: %s: %s", k, cls, msg)
			break
		}
		if fmt.Sprint(ms) == fmt.Sprint(refMap) {
			continue
		}
		got, cls, msg := c15OptimizeOnce(rc, p, runtime.NumCPU(), nil, eofSeparate)
		switch {
		case cls != "ok":
			oracle = fmt.Sprintf("analysis %d chose the bsdiff targets %v (run 0: %v) and its optimize %s: %s", k, c15MappingNames(rc, ms), refNames, cls, msg)
		case !bytes.Equal(got, ref):
			oracle = fmt.Sprintf("analysis %d of the same patch with the same parameters chose the bsdiff targets %v, run 0 chose %v: optimized patch differs from run 0 (len %d vs %d, first difference at %d)", k, c15MappingNames(rc, ms), refNames, len(got), len(ref), firstDiffAt(got, ref))
		}
	}
	cl := fmt.Sprintf("optimize/p%d/c%d", o.Partitions, o.Concurrency)
	if corpus != "" {
		cl = "corpus/" + corpus
	}
	c.Out.Emit(&lib.Case{Class: cl, Nontrivial: len(procsUsed) >= 2,
		Input: map[string]interface{}{"old": p.old.Summary(), "new": p.nw.Summary(), "relations": p.rel,
			"partitions": o.Partitions, "concurrency": o.Concurrency, "forceMapAll": o.ForceMapAll, "sizeLimit": o.SizeLimit, "compression": o.Comp.String()},
		Obs: map[string]interface{}{"runs": len(procsUsed), "procs": procsUsed, "analyses": done, "bsdiffTargets": refNames, "optimizedLen": len(ref)}, Oracle: oracle})
	return nil
}

func c15OptParams(r *lib.Rng, i int) lib.OptParams {
	return lib.OptParams{Partitions: []int{0, 1, 2, 4}[i%4], Concurrency: []int{0, 2, -1}[i%3], ForceMapAll: r.Chance(1, 3),
		SizeLimit: 64 << 20, Comp: lib.Compressions[[]int{0, 1, 4}[i%3]]}
}

// the input that showed scheduling-independent but run-dependent output on the unchanged tree:
// two old files with equal claims on a new file of another name (Go map iteration order)
func c15OptimizeCorpus(c *Ctx) error {
	r := lib.NewRng(1507)
	old, nw := &lib.Build{}, &lib.Build{}
	a, b := r.Bytes(2*lib.BS), r.Bytes(2*lib.BS)
	old.Put(lib.Entry{Path: "share-a.bin", Kind: "file", Data: a})
	old.Put(lib.Entry{Path: "share-b.bin", Kind: "file", Data: b})
	nw.Put(lib.Entry{Path: "shared.bin", Kind: "file", Data: append(append(append([]byte(nil), a...), r.Bytes(300)...), b...)})
	p, err := c15WritePair(c, "c15oc", old, nw, []string{"shared:two old files contribute the same number of blocks"})
	if err != nil {
		return err
	}
	defer os.RemoveAll(p.base)
	if err := c15OptimizeDeterminism(c, r, p, lib.OptParams{Partitions: 1, SizeLimit: 64 << 20, Comp: lib.Compressions[0]}, c.N(4, 12), c.N(150, 600), "optimize-tie"); err != nil {
		return err
	}
	// unequal claims: two blocks of one old file, then one block of another that goes on after
	// it.  rediff credits them 3*64 KiB - 1 and 2*64 KiB - 1: no tie, yet both exceed half of
	// the new file (found by a seeded change that short-cuts on "more than half")
	old, nw = &lib.Build{}, &lib.Build{}
	a, b = r.Bytes(3*lib.BS), r.Bytes(3*lib.BS)
	old.Put(lib.Entry{Path: "a.bin", Kind: "file", Data: a})
	old.Put(lib.Entry{Path: "b.bin", Kind: "file", Data: b})
	nw.Put(lib.Entry{Path: "c.bin", Kind: "file", Data: append(append([]byte(nil), a[:2*lib.BS]...), b[:lib.BS]...)})
	p2, err := c15WritePair(c, "c15om", old, nw, []string{"mosaic:c.bin = a.bin[0+2 of 3 blocks] + b.bin[0+1 of 3 blocks]"})
	if err != nil {
		return err
	}
	defer os.RemoveAll(p2.base)
	return c15OptimizeDeterminism(c, r, p2, lib.OptParams{Partitions: 1, SizeLimit: 64 << 20, Comp: lib.Compressions[0]}, c.N(2, 4), c.N(150, 600), "optimize-unequal-claims")
}

func c15OptimizeCases(c *Ctx) error {
	r := c.Rng.Fork()
	n := c.N(8, 48)
	runs := c.N(4, 12)
	for i := 0; i < n; i++ {
		cr := r.Fork()
		old, nw, rel := c15GenOptPair(cr, i%5 == 4, i%2 == 0)
		p, err := c15WritePair(c, "c15o", old, nw, rel)
		if err != nil {
			return err
		}
		if err := c15OptimizeDeterminism(c, cr, p, c15OptParams(cr, i+int(c.Seed)), runs, c.N(100, 300), ""); err != nil {
			return err
		}
		os.RemoveAll(p.base)
	}
	return nil
}

// ---------------------------------------------------------------- bsdiff: dispatcher / workers / collector

type c15Match struct{ oldStart, newStart, addLen, copyEnd int }

var c15ScanLabel = regexp.MustCompile(`\((\d+) blocks of `)

// c15Lag makes the two callbacks a caller of bsdiff hands over take their time, which holds back
// the goroutine that runs them while the scan workers go on: the progress callback runs on the
// collector goroutine right before it drains a scan block (a slow UI), the message writer on the
// goroutine that turns matches into control messages (a slow or compressing patch writer).  The
// pauses are drawn from the case's PRNG (one stream per callback) and bounded by a budget.
type c15Lag struct {
	mu         sync.Mutex
	prog, msg  *lib.Rng
	progBudget time.Duration // what the progress callback may still sleep
	msgBudget  time.Duration // what the message writer may still sleep
	msgEvery   int           // one message in msgEvery pauses
	pauses     int
}

func newC15Lag(r *lib.Rng) *c15Lag {
	return &c15Lag{prog: r.Fork(), msg: r.Fork(), progBudget: 120 * time.Millisecond, msgBudget: 60 * time.Millisecond,
		msgEvery: []int{40, 150, 600, 1 << 30}[r.Intn(4)]}
}

// pause sleeps 1..maxMs ms in num calls out of den while the budget lasts, and yields in one of
// three of the others
func (l *c15Lag) pause(budget *time.Duration, r *lib.Rng, num, den, maxMs int) {
	l.mu.Lock()
	var d time.Duration
	if r.Chance(num, den) {
		d = time.Duration(r.Range(1, maxMs)) * time.Millisecond
		if d > *budget {
			d = *budget
		}
		*budget -= d
		if d > 0 {
			l.pauses++
		}
	}
	yield := r.Chance(1, 3)
	l.mu.Unlock()
	if d > 0 {
		time.Sleep(d)
	} else if yield {
		runtime.Gosched()
	}
}

func (l *c15Lag) onProgress() {
	if l != nil {
		l.pause(&l.progBudget, l.prog, 2, 3, 40)
	}
}

func (l *c15Lag) onMessage() {
	if l != nil {
		l.pause(&l.msgBudget, l.msg, 1, l.msgEvery, 3)
	}
}

// c15RunBsdiff runs DiffContext.Do and returns the message stream (marshalled), the matches
// reconstructed from it, what the stream produces when replayed on old, and the number of scan
// blocks the implementation announced
// rng != nil: both inputs are handed over by readers that slice, yield and end as mode says
// lag != nil: the consumer's callbacks take their time (see c15Lag)
func c15RunBsdiff(old, nw []byte, partitions, conc int, rng *lib.Rng, mode int, lag *c15Lag) (stream []byte, ms []c15Match, replay []byte, blocks int, progress []float64, err error) {
	return c15RunBsdiffOn(&bsdiff.DiffContext{Partitions: partitions, SuffixSortConcurrency: conc}, old, nw, rng, mode, lag)
}

// the same on a context the caller hands over (a fresh one, or one that has diffed before: c15_reuse.go)
func c15RunBsdiffOn(dc *bsdiff.DiffContext, old, nw []byte, rng *lib.Rng, mode int, lag *c15Lag) (stream []byte, ms []c15Match, replay []byte, blocks int, progress []float64, err error) {
	var mu sync.Mutex
	scanning := false
	cons := &state.Consumer{
		OnProgressLabel: func(l string) {
			if m := c15ScanLabel.FindStringSubmatch(l); m != nil {
				mu.Lock()
				blocks, _ = strconv.Atoi(m[1])
				progress = nil
				scanning = true
				mu.Unlock()
			}
		},
		OnProgress: func(f float64) {
			mu.Lock()
			progress = append(progress, f)
			sc := scanning
			mu.Unlock()
			if sc { // reported by the collector goroutine before it drains a scan block
				lag.onProgress()
			}
		},
	}
	oldPos, newPos, nmsg := 0, 0, 0
	var inconsistent error
	var buf bytes.Buffer
	var oldR, newR io.Reader = bytes.NewReader(old), bytes.NewReader(nw)
	if rng != nil {
		oldR, newR = newChunky(oldR, int64(len(old)), rng.Fork(), mode), newChunky(newR, int64(len(nw)), rng.Fork(), mode)
	}
	err = dc.Do(oldR, newR, func(m proto.Message) error {
		lag.onMessage()
		ctl := m.(*bsdiff.Control)
		b, err := proto.Marshal(ctl)
		if err != nil {
			return err
		}
		fmt.Fprintf(&buf, "%d:", len(b))
		buf.Write(b)
		nmsg++
		if ctl.Eof || inconsistent != nil {
			return nil
		}
		if oldPos < 0 || oldPos+len(ctl.Add) > len(old) {
			// not handed back to bsdiff (which would stop there): the scan runs to its end
			inconsistent = fmt.Errorf("the control messages do not apply to old: message %d adds %d bytes at old offset %d of %d", nmsg, len(ctl.Add), oldPos, len(old))
			return nil
		}
		ms = append(ms, c15Match{oldPos, newPos, len(ctl.Add), newPos + len(ctl.Add) + len(ctl.Copy)})
		for i, a := range ctl.Add {
			replay = append(replay, a+old[oldPos+i])
		}
		replay = append(replay, ctl.Copy...)
		newPos += len(ctl.Add) + len(ctl.Copy)
		oldPos += len(ctl.Add) + int(ctl.Seek)
		return nil
	}, cons)
	if err == nil {
		err = inconsistent
	}
	mu.Lock()
	defer mu.Unlock()
	return buf.Bytes(), ms, replay, blocks, append([]float64(nil), progress...), err
}

// geometry of the scan as bsdiff/diff.go computes it
func c15Geometry(newLen, partitions, oldLen int) (blockSize, numBlocks, numWorkers int) {
	if partitions == 0 || partitions >= oldLen-1 {
		partitions = 1
	}
	blockSize = 128 * 1024
	numBlocks = (newLen + blockSize - 1) / blockSize
	if numBlocks < partitions {
		blockSize = newLen / partitions
		numBlocks = (newLen + blockSize - 1) / blockSize
	}
	numWorkers = partitions * 12
	if numWorkers > numBlocks {
		numWorkers = numBlocks
	}
	return
}

// c15Shuffle assembles n bytes from pieces of old (base..base+100 bytes each) taken at random
// offsets, with a few fresh bytes between two pieces here and there
func c15Shuffle(r *lib.Rng, old []byte, n, base int) (nw []byte) {
	for len(nw) < n {
		l := min(r.Range(base, base+100), len(old)-1)
		at := r.Intn(len(old) - l)
		nw = append(nw, old[at:at+l]...)
		if r.Chance(1, 6) {
			nw = append(nw, r.Bytes(r.Range(1, 30))...)
		}
	}
	return nw[:n]
}

func c15GenBsdiffPair(r *lib.Rng, class string, thorough bool, partitions int) (old, nw []byte) {
	blk := 128 * 1024
	switch class {
	case "dense": // one byte in 150..400 flipped: dense edits, but bsdiff absorbs them into a handful of long
		// approximate matches (2-3 per scan block, not hundreds: the per-worker channel never fills up —
		// "shuffled" is the class that fills it)
		n := r.Range(1, 3)*blk + r.Range(0, 5000)
		old = r.Bytes(n)
		nw = append([]byte(nil), old...)
		for p := r.Range(20, 200); p < len(nw); p += r.Range(150, 400) {
			nw[p] ^= byte(1 + r.Intn(255))
		}
	case "shuffled": // new = short pieces of old in random order: every piece is a match of its own, several hundred per scan block
		old = r.Bytes(r.Range(2, 4)*blk + r.Range(0, 5000))
		n := []int{blk - r.Range(0, 3000), blk, r.Range(1, 3)*blk + r.Range(0, 5000)}[r.Intn(3)]
		// piece lengths base..base+100; three cases in four: short enough for more than 300 pieces
		// in every scan block of the geometry bsdiff is going to use (the per-worker channel holds 256)
		bases := []int{40, 120, 250, 400}
		base := bases[r.Intn(4)]
		if bs, _, _ := c15Geometry(n, partitions, len(old)); r.Chance(3, 4) {
			for base > 40 && bs/(base+50) < 300 {
				base = bases[r.Intn(4)]
			}
		}
		nw = c15Shuffle(r, old, n, base)
	case "twins": // the same content at several places of old, in different suffix-sort partitions: for a
		// position of new the longest match is equally long in two or more partitions (a tie)
		p := max(partitions, 2)
		seg := r.Range(30000, 70000) // old = p segments of this length: partition i of the suffix sort is segment i
		pool := make([][]byte, r.Range(1, 3))
		for j := range pool {
			pool[j] = r.Bytes(r.Range(seg/3, seg))
		}
		aligned := r.Chance(2, 3) // whole copies inside the partitions; else copies laid end to end across the boundaries
		for i := 0; i < p; i++ {
			j := r.Intn(len(pool))
			if i < 2 { // the first two partitions hold the same block, which new takes up
				j = 0
			}
			old = append(old, pool[j]...)
			if aligned {
				old = append(old, r.Bytes((i+1)*seg-len(old))...)
			} else if r.Chance(1, 3) {
				old = append(old, r.Bytes(r.Range(1, 3000))...)
			}
		}
		for k := r.Range(2, 5); k > 0; k-- {
			b := append([]byte(nil), pool[(k+1)%len(pool)]...)
			for e := r.Range(0, 6); e > 0; e-- {
				b[r.Intn(len(b))] ^= byte(1 + r.Intn(255))
			}
			if r.Chance(1, 3) {
				at := r.Intn(len(b))
				b = append(append(append([]byte(nil), b[:at]...), r.Bytes(r.Range(1, 200))...), b[at:]...)
			}
			nw = append(nw, b...)
		}
	case "manyblocks": // more scan blocks than workers: workers are handed a second block
		n := 13*blk + r.Range(1, 3*blk)
		if thorough {
			n = r.Range(14, 30) * blk
		}
		old = lib.GenContent(r, n)
		nw = append([]byte(nil), old...)
		for k := 0; k < 40; k++ {
			p := r.Intn(len(nw))
			nw[p] ^= 0x55
		}
		nw = append(nw[:blk/2], nw[blk/2+r.Range(1, 999):]...)
	default: // a few edits
		n := r.Range(2000, 4*blk)
		old = lib.GenContent(r, n)
		nw = old
		for k := r.Range(1, 5); k > 0; k-- {
			nw, _ = lib.Edit(r, nw)
		}
		if len(nw) < 1024 {
			nw = append(append([]byte(nil), nw...), r.Bytes(1500)...)
		}
	}
	return
}

func c15Bsdiff(c *Ctx) error {
	r := c.Rng.Fork()
	n := c.N(9, 60)
	runs := c.N(3, 8)
	for i := 0; i < n; i++ {
		cr := r.Fork()
		class := []string{"shuffled", "edits", "manyblocks", "twins", "shuffled", "dense", "twins", "edits"}[i%8]
		partitions := []int{1, 2, 4, 0, 3}[(i+int(c.Seed))%5]
		if class == "manyblocks" {
			partitions = 1
		}
		if class == "twins" { // ties between partitions need several of them
			partitions = 2 + (i+int(c.Seed))%3
		}
		old, nw := c15GenBsdiffPair(cr, class, c.Thorough(), partitions)
		conc := []int{0, 2}[i%2]
		oracle := ""
		var refStream []byte
		var ms []c15Match
		var blocks int
		var procsUsed []int
		caseRuns := runs
		if class == "twins" { // small inputs; which partition finishes sorting first varies from run to run
			caseRuns = 2 * runs
		}
		for k := 0; k < caseRuns && oracle == ""; k++ {
			procs := c15Procs[(k+i)%len(c15Procs)]
			procsUsed = append(procsUsed, procs)
			var stream, replay []byte
			var m []c15Match
			var b int
			var prog []float64
			var cls, msg string
			withProcs(procs, func() {
				cls, msg = lib.WithDeadline(120*time.Second, func() error {
					var err error
					var rng *lib.Rng
					var lag *c15Lag
					if k > 0 { // run 0 hands over plain readers and callbacks that return at once
						rng = cr.Fork()
						lag = newC15Lag(cr)
					}
					stream, m, replay, b, prog, err = c15RunBsdiff(old, nw, partitions, conc, rng, k%3, lag)
					return err
				})
			})
			switch {
			case cls != "ok":
				oracle = fmt.Sprintf("run %d (GOMAXPROCS %d) bsdiff %s: %s", k, procs, cls, msg)
				blocks = max(blocks, b)
			case !bytes.Equal(replay, nw):
				oracle = fmt.Sprintf("run %d (GOMAXPROCS %d): replaying the control messages on old gives %d bytes that differ from new (%d bytes) at %d", k, procs, len(replay), len(nw), firstDiffAt(replay, nw))
			case k == 0:
				refStream, ms, blocks = stream, m, b
				for j, f := range prog { // the collector reports block j of n before it drains it
					if want := float64(j) / float64(b); f != want {
						oracle = fmt.Sprintf("collector progress %d is %v, want %v (blocks taken out of order?)", j, f, want)
						break
					}
				}
				if oracle == "" && len(prog) != b {
					oracle = fmt.Sprintf("collector visited %d blocks, the scan has %d", len(prog), b)
				}
			case !bytes.Equal(stream, refStream):
				oracle = fmt.Sprintf("run %d (GOMAXPROCS %d): control message stream differs from run 0 (len %d vs %d, first difference at %d)", k, procs, len(stream), len(refStream), firstDiffAt(stream, refStream))
			}
			if cls == "hang" {
				break
			}
		}
		bs, nb, nwk := c15Geometry(len(nw), partitions, len(old))
		if oracle == "" && nb != blocks {
			return fmt.Errorf("c15: scan geometry: harness computes %d blocks, bsdiff announced %d", nb, blocks)
		}
		// attribute every forwarded match to its scan block; runs of consecutive indices
		group := ""
		coq := ""
		maxPerBlock := 0
		if oracle == "" {
			counts := make([]int, nb)
			var runsS []string
			curB, curStart, curLen := -1, 0, 0
			flush := func() {
				if curLen > 0 {
					runsS = append(runsS, fmt.Sprintf("(%d,%d,%d)", curB, curStart, curLen))
				}
			}
			for _, m := range ms {
				b := m.newStart / bs
				if b >= nb {
					b = nb - 1
				}
				idx := counts[b]
				counts[b]++
				if b == curB && idx == curStart+curLen {
					curLen++
				} else {
					flush()
					curB, curStart, curLen = b, idx, 1
				}
			}
			flush()
			cs := make([]string, nb)
			for j, x := range counts {
				cs[j] = strconv.Itoa(x)
				maxPerBlock = max(maxPerBlock, x)
			}
			group = "collector"
			coq = fmt.Sprintf("($ID%%N, %d%%nat, 256%%nat, ([%s]%%nat), %d%%N, ([%s]%%nat))", nwk, strings.Join(cs, ";"), cr.U64()%(1<<31), strings.Join(runsS, ";"))
		}
		cl := fmt.Sprintf("bsdiff/%s/p%d", class, partitions)
		if maxPerBlock > 256 { // a scan block with more matches than the worker's channel holds
			cl += "/over256"
		}
		c.Out.Emit(&lib.Case{Group: group, Class: cl, Nontrivial: nb >= 2 && len(ms) >= 2,
			Input:  map[string]interface{}{"oldLen": len(old), "newLen": len(nw), "oldSha": lib.Digest(old), "newSha": lib.Digest(nw), "class": class, "partitions": partitions, "suffixSortConcurrency": conc},
			Obs:    map[string]interface{}{"runs": len(procsUsed), "procs": procsUsed, "blocks": blocks, "blockSize": bs, "workers": nwk, "matches": len(ms), "maxMatchesPerBlock": maxPerBlock, "streamLen": len(refStream)},
			Oracle: oracle, Coq: coq})
	}
	return nil
}

// ---------------------------------------------------------------- race detector runs

type c15RaceParams struct {
	Seed uint64
	Kind string // diff | optimize | bsdiff | sequence
	I    int
}

// inside the -race build: one pipeline, once, with slicing readers and GOMAXPROCS 8
func runC15Race(c *Ctx) error {
	var p c15RaceParams
	b, err := os.ReadFile(c.Replay)
	if err != nil {
		return err
	}
	if err := json.Unmarshal(b, &p); err != nil {
		return err
	}
	r := lib.NewRng(p.Seed)
	switch p.Kind {
	case "diff":
		old, nw, rel := lib.GenPair(r, lib.PairOpts{MaxFiles: 3, MaxSize: 2 * lib.BS, Links: true})
		pr, err := c15WritePair(c, "c15rd", old, nw, rel)
		if err != nil {
			return err
		}
		defer os.RemoveAll(pr.base)
		return c15DiffDeterminism(c, r, pr, lib.Compressions[p.I%len(lib.Compressions)], 2, "")
	case "sequence": // a diff after an abandoned one, then diffs side by side
		if err := c15SeqCase(c, r.Fork(), []int{0, 2, 0, 4}[p.I%4], lib.Compressions[p.I%len(lib.Compressions)], true); err != nil {
			return err
		}
		return c15ConcurrentCase(c, r.Fork(), 2, p.I, true)
	case "optimize":
		old, nw, rel := c15GenOptPair(r, false, p.I%2 == 1)
		pr, err := c15WritePair(c, "c15ro", old, nw, rel)
		if err != nil {
			return err
		}
		defer os.RemoveAll(pr.base)
		o := c15OptParams(r, p.I)
		if o.Partitions < 2 {
			o.Partitions = 2
		}
		return c15OptimizeDeterminism(c, r, pr, o, 2, 8, "")
	case "bsdiff":
		// two inputs: one whose scan blocks yield more matches than a worker's channel holds,
		// one with dense or few edits
		oracle := ""
		streamLen := 0
		var inputs []map[string]interface{}
		for j := 0; j < 2 && oracle == ""; j++ {
			var old, nw []byte
			class := "shuffled"
			partitions := 1 + (p.I+j)%2
			if j == 0 {
				old = r.Bytes(r.Range(60000, 100000))
				nw = c15Shuffle(r, old, 128*1024+r.Range(0, 8000), []int{40, 120}[r.Intn(2)])
			} else {
				class = []string{"dense", "edits"}[p.I%2]
				partitions = 2 + p.I%3
				old, nw = c15GenBsdiffPair(r, class, false, partitions)
				if len(old) > 140000 {
					old, nw = old[:140000], nw[:min(len(nw), 140000)]
				}
			}
			var s0 []byte
			matches := 0
			for k := 0; k < 2-j && oracle == ""; k++ { // the second input once: the parent compares runs
				var s, replay []byte
				var ms []c15Match
				var e error
				withProcs(8, func() { s, ms, replay, _, _, e = c15RunBsdiff(old, nw, partitions, 2, r.Fork(), 1+k, newC15Lag(r)) })
				if e != nil {
					oracle = class + ": bsdiff error: " + e.Error()
				} else if !bytes.Equal(replay, nw) {
					oracle = class + ": replaying the control messages on old does not give new"
				} else if k == 1 && !bytes.Equal(s, s0) {
					oracle = class + ": control message stream differs between two runs"
				}
				s0, matches = s, len(ms)
			}
			streamLen += len(s0)
			inputs = append(inputs, map[string]interface{}{"class": class, "oldLen": len(old), "newLen": len(nw), "oldSha": lib.Digest(old), "newSha": lib.Digest(nw), "partitions": partitions, "matches": matches})
		}
		c.Out.Emit(&lib.Case{Class: "bsdiff", Input: inputs, Obs: map[string]interface{}{"streamLen": streamLen}, Oracle: oracle})
		return nil
	}
	return fmt.Errorf("unknown kind %q", p.Kind)
}

func c15RaceCases(c *Ctx) error {
	bin, err := raceBinary(c)
	if err != nil {
		return err
	}
	r := c.Rng.Fork()
	n := c.N(4, 20)
	for i := 0; i < n; i++ {
		p := c15RaceParams{Seed: r.U64(), Kind: []string{"diff", "optimize", "bsdiff", "sequence"}[i%4], I: i/4 + int(c.Seed)}
		result := filepath.Join(c.Tmp, "c15race.jsonl")
		tc := time.Now()
		cr, err := runChild(bin, "C15race", p, result, c.Tmp, 600*time.Second, raceEnv)
		if err != nil {
			return err
		}
		if os.Getenv("VERIF_TIMING") != "" {
			fmt.Fprintf(os.Stderr, "C15 race child %-9s %6.1fs\n", p.Kind, time.Since(tc).Seconds())
		}
		oracle := ""
		// the child writes one line per case it ran (the sequence kind runs two)
		var child struct {
			Oracle string
			Obs    map[string]interface{}
			Input  interface{}
		}
		if b, err := os.ReadFile(result); err == nil {
			var inputs []interface{}
			for _, line := range bytes.Split(bytes.TrimSpace(b), []byte("\n")) {
				var one struct {
					Class, Oracle string
					Obs           map[string]interface{}
					Input         interface{}
				}
				if json.Unmarshal(bytes.TrimSpace(line), &one) != nil {
					continue
				}
				inputs = append(inputs, one.Input)
				if child.Obs == nil {
					child.Obs = map[string]interface{}{}
				}
				child.Obs[one.Class] = one.Obs
				if child.Oracle == "" && one.Oracle != "" {
					child.Oracle = one.Class + ": " + one.Oracle
				}
			}
			if len(inputs) == 1 {
				child.Input = inputs[0]
			} else if len(inputs) > 1 {
				child.Input = inputs
			}
		}
		os.Remove(result)
		switch {
		case len(cr.Races) > 0:
			oracle = fmt.Sprintf("the race detector reported %d data race(s): %s", len(cr.Races), strings.Join(uniq(cr.Races), " ;; "))
		case cr.TimedOut:
			oracle = "the pipeline did not finish under the race detector in 600 s"
		case cr.Exit != 0:
			oracle = fmt.Sprintf("race-detector child exited with status %d: %s", cr.Exit, tail(cr.Stderr, 600))
		case child.Oracle != "":
			oracle = "under the race detector: " + child.Oracle
		case child.Obs == nil:
			return fmt.Errorf("race-detector child produced no result: %s", tail(cr.Stderr, 600))
		}
		// the parameters regenerate the child's case; what it was goes along (readable replay)
		c.Out.Emit(&lib.Case{Class: "race/" + p.Kind, Nontrivial: true, Input: map[string]interface{}{"Seed": p.Seed, "Kind": p.Kind, "I": p.I, "case": child.Input},
			Obs: map[string]interface{}{"races": cr.Races, "exit": cr.Exit, "child": child.Obs}, Oracle: oracle})
	}
	return nil
}
