package main

// C07 — the ways a patch is applied besides the two uninterrupted ones of c07.go: application
// with a save consumer (checkpoints offered, none taken) and application with interruptions
// (stop at a checkpoint, serialize it, brand-new patcher and bowl, resume), fresh and in place;
// and the generators of the two classes of pairs that reach state no single small series
// reaches: several bsdiff series in one patch, and an old file larger than the patcher's
// 32 KiB x 1024 read cache.

import (
	"bytes"
	"encoding/gob"
	"fmt"
	"os"
	"path/filepath"

	"github.com/itchio/lake/pools/fspool"

	"github.com/itchio/wharf/pwr/bowl"
	"github.com/itchio/wharf/pwr/patcher"

	"verif/harness/lib"
)

// c07Offer is what the harness keeps of a checkpoint offered to the save consumer.
type c07Offer struct {
	File   int64 // series (new file) being applied
	Bsdiff bool  // inside a bsdiff series
}

// c07Saver always asks to save; it lets `pass` offers go by and stops at the next one
// (pass < 0: never stops).
type c07Saver struct {
	pass   int
	offers []c07Offer
	gob    []byte // the checkpoint this life stopped at, serialized
}

func (s *c07Saver) ShouldSave() bool { return true }

func (s *c07Saver) Save(c *patcher.Checkpoint) (patcher.AfterSaveAction, error) {
	s.offers = append(s.offers, c07Offer{File: c.FileIndex, Bsdiff: c.BsdiffCheckpoint != nil})
	if s.pass >= 0 && len(s.offers) == s.pass+1 {
		var buf bytes.Buffer
		if err := gob.NewEncoder(&buf).Encode(c); err != nil {
			return patcher.AfterSaveStop, fmt.Errorf("gob-encoding the checkpoint: %v", err)
		}
		s.gob = buf.Bytes()
		return patcher.AfterSaveStop, nil
	}
	return patcher.AfterSaveContinue, nil
}

// c07Leg is one patcher life: a brand-new patcher over the patch bytes and a brand-new bowl over
// what is on disk, Resume(checkpoint). done = patched to the end and committed.
func c07Leg(patch []byte, oldDir, outDir, stageDir string, inplace bool, ckGob []byte, s *c07Saver) (done bool, err error) {
	var ck *patcher.Checkpoint
	if ckGob != nil {
		ck = &patcher.Checkpoint{}
		if err := gob.NewDecoder(bytes.NewReader(ckGob)).Decode(ck); err != nil {
			return false, fmt.Errorf("gob-decoding the checkpoint: %v", err)
		}
	}
	p, err := lib.NewPatcher(patch)
	if err != nil {
		return false, err
	}
	var b bowl.Bowl
	poolDir := oldDir
	if inplace {
		poolDir = outDir
		b, err = bowl.NewOverlayBowl(bowl.OverlayBowlParams{SourceContainer: p.GetSourceContainer(), TargetContainer: p.GetTargetContainer(),
			StageFolder: stageDir, OutputFolder: outDir, Consumer: lib.Quiet})
	} else {
		b, err = bowl.NewFreshBowl(bowl.FreshBowlParams{SourceContainer: p.GetSourceContainer(), TargetContainer: p.GetTargetContainer(),
			TargetPool: fspool.New(p.GetTargetContainer(), oldDir), OutputFolder: outDir})
	}
	if err != nil {
		return false, fmt.Errorf("creating the bowl: %v", err)
	}
	defer b.Close()
	p.SetSaveConsumer(s)
	err = p.Resume(ck, fspool.New(p.GetTargetContainer(), poolDir), b)
	if c03Cause(err) == patcher.ErrStop {
		if s.gob == nil {
			return false, fmt.Errorf("ErrStop although the consumer did not ask to stop")
		}
		return false, nil
	}
	if err != nil {
		return false, err
	}
	if s.gob != nil {
		return false, fmt.Errorf("Resume returned nil although the consumer asked to stop")
	}
	return true, b.Commit()
}

// c07ApplyLegs applies patch to the old build with the interruptions of plan: life i lets
// plan[i] offers go by and stops at the next one; the lives after the plan run to the end. The
// result is in base/out. Returns the offers of every life.
func c07ApplyLegs(patch []byte, old *lib.Build, oldDir, base string, inplace bool, plan []int) (lives [][]c07Offer, err error) {
	outDir, stageDir := filepath.Join(base, "out"), filepath.Join(base, "stage")
	removeAll(outDir)
	removeAll(stageDir)
	defer removeAll(stageDir)
	if inplace {
		if err := old.WriteTo(outDir); err != nil {
			return nil, err
		}
		if err := os.MkdirAll(stageDir, 0o755); err != nil {
			return nil, err
		}
	} else if err := os.MkdirAll(outDir, 0o755); err != nil {
		return nil, err
	}
	var ck []byte
	for i := 0; ; i++ {
		s := &c07Saver{pass: -1}
		if i < len(plan) {
			s.pass = plan[i]
		}
		done, err := c07Leg(patch, oldDir, outDir, stageDir, inplace, ck, s)
		lives = append(lives, s.offers)
		if err != nil {
			return lives, fmt.Errorf("life %d: %v", i, err)
		}
		if done {
			return lives, nil
		}
		ck = s.gob
	}
}

// c07Plan picks where to interrupt, given the offers of an uninterrupted life (the first life of
// an interrupted application is offered the same checkpoints).
//
//	kind 0: one stop inside a bsdiff series - the series uniform among those that are offered a
//	        checkpoint, the checkpoint uniform inside it - then to the end through all later series
//	kind 1: one stop at any offer (rsync series included)
//	kind 2: a chain: a stop in the first half, then 1-3 more lives that stop after 0-3 offers
func c07Plan(r *lib.Rng, offs []c07Offer, kind int) ([]int, string) {
	if len(offs) == 0 {
		return nil, "no-offer"
	}
	if kind == 0 {
		var files []int64
		at := map[int64][]int{}
		for i, o := range offs {
			if o.Bsdiff {
				if at[o.File] == nil {
					files = append(files, o.File)
				}
				at[o.File] = append(at[o.File], i)
			}
		}
		if len(files) > 0 {
			f := files[r.Intn(len(files))]
			i := at[f][r.Intn(len(at[f]))]
			return []int{i}, fmt.Sprintf("stop@%d(in bsdiff series %d)", i, f)
		}
		kind = 1
	}
	if kind == 1 {
		i := r.Intn(len(offs))
		return []int{i}, fmt.Sprintf("stop@%d(series %d)", i, offs[i].File)
	}
	plan := []int{r.Intn((len(offs) + 1) / 2)}
	desc := fmt.Sprintf("chain@%d", plan[0])
	for n := r.Range(1, 3); n > 0; n-- {
		k := r.Range(0, 3)
		plan = append(plan, k)
		desc += fmt.Sprintf("+%d", k)
	}
	return plan, desc
}

// ---------------------------------------------------------------- pairs

// c07PointEdits makes n small edits (overwrite / insert / delete of 1..40 bytes) spread over data:
// a bsdiff series of many controls.
func c07PointEdits(r *lib.Rng, data []byte, n int) []byte {
	out := append([]byte(nil), data...)
	for ; n > 0 && len(out) > 0; n-- {
		at := r.Intn(len(out))
		l := r.Range(1, 40)
		switch r.Intn(4) {
		case 0:
			out = append(append(append([]byte(nil), out[:at]...), r.Bytes(l)...), out[at:]...)
		case 1:
			end := at + l
			if end > len(out) {
				end = len(out)
			}
			out = append(append([]byte(nil), out[:at]...), out[end:]...)
		default:
			for i := at; i < at+l && i < len(out); i++ {
				out[i] ^= byte(1 + r.Intn(255))
			}
		}
	}
	return out
}

// c07MultiPair: 2-4 files of 1-6 blocks each edited in several places (same path, or moved to
// another name) and exchanging runs of data, so that the optimized patch carries several bsdiff
// series of several controls, among unchanged, brand-new and removed files whose (rsync) series fall between them in
// container order.
func c07MultiPair(r *lib.Rng) (*lib.Build, *lib.Build, []string) {
	old, nw := &lib.Build{}, &lib.Build{}
	var rel []string
	dir := func() byte { return 'a' + byte(r.Intn(4)) }
	type edited struct {
		op, np string
		od, nd []byte
	}
	var es []edited
	k := r.Range(2, 4)
	for j := 0; j < k; j++ {
		p := fmt.Sprintf("%c/e%d.bin", dir(), j)
		size := r.Range(1, 5)*lib.BS + r.Range(0, lib.BS)
		var od []byte
		if r.Chance(1, 4) {
			od = lib.GenContent(r, size)
		} else {
			od = r.Bytes(size)
		}
		ne := r.Range(2, 8)
		nd := c07PointEdits(r, od, ne)
		np := p
		if r.Chance(1, 4) {
			np = fmt.Sprintf("%c/moved%d.bin", dir(), j)
		}
		es = append(es, edited{p, np, od, nd})
		rel = append(rel, fmt.Sprintf("edited-x%d:%s(%d)->%s(%d)", ne, p, len(od), np, len(nd)))
	}
	// data moved between files: a run of one old file turns up in the new version of another one.
	// Half of the runs come from the last quarter of their file, and a donor that is longer than
	// the receiver's old file and precedes it in container order is preferred (2 in 3): what the
	// optimizer keeps from the series of one file (buffers, suffix array) is longer than what
	// the next one needs.
	for n := r.Range(1, 2); n > 0; n-- {
		to, from := r.Intn(k), r.Intn(k)
		if r.Chance(2, 3) {
			var pairs [][2]int
			for a := range es {
				for b := range es {
					if es[a].np < es[b].np && len(es[a].od) > len(es[b].od) {
						pairs = append(pairs, [2]int{a, b})
					}
				}
			}
			if len(pairs) > 0 {
				pr := pairs[r.Intn(len(pairs))]
				from, to = pr[0], pr[1]
			}
		}
		if from == to {
			continue
		}
		d := es[from].od
		l := r.Range(16, 4000)
		if l > len(d) {
			l = len(d)
		}
		off := r.Intn(len(d) - l + 1)
		if r.Bool() {
			off = len(d) - l - r.Intn(len(d)/4-l+1)
		}
		at := r.Intn(len(es[to].nd) + 1)
		es[to].nd = append(append(append([]byte(nil), es[to].nd[:at]...), d[off:off+l]...), es[to].nd[at:]...)
		rel = append(rel, fmt.Sprintf("moved-data:%s@%d+%d->%s@%d", es[from].op, off, l, es[to].np, at))
	}
	for _, e := range es {
		old.Put(lib.Entry{Path: e.op, Kind: "file", Data: e.od})
		nw.Put(lib.Entry{Path: e.np, Kind: "file", Data: e.nd})
	}
	for j, n := 0, r.Range(0, 2); j < n; j++ {
		p := fmt.Sprintf("%c/same%d.bin", dir(), j)
		d := r.Bytes(lib.GenSize(r, 2*lib.BS+100))
		old.Put(lib.Entry{Path: p, Kind: "file", Data: d})
		nw.Put(lib.Entry{Path: p, Kind: "file", Data: d})
		rel = append(rel, "unchanged:"+p)
	}
	if r.Bool() {
		p := fmt.Sprintf("%c/added.bin", dir())
		nw.Put(lib.Entry{Path: p, Kind: "file", Data: r.Bytes(lib.GenSize(r, 2*lib.BS+100))})
		rel = append(rel, "added:"+p)
	}
	if r.Chance(1, 3) {
		p := fmt.Sprintf("%c/removed.bin", dir())
		old.Put(lib.Entry{Path: p, Kind: "file", Data: r.Bytes(lib.GenSize(r, lib.BS+100))})
		rel = append(rel, "removed:"+p)
	}
	return old, nw, rel
}

// the geometry of the read cache the patcher puts in front of the old file of a bsdiff series
// (bsdiff.PatchContext.NewIndividualPatchContext)
const (
	c07CacheChunk   = 32 * 1024
	c07CacheEntries = 1024
)

// c07BigPair: one old file that spans more chunks than the patcher's read cache holds (1024 x
// 32 KiB = 32 MiB), edited in a few dozen places spread over its whole length - the series reads
// every chunk of it, front to back - and, for `moved`, with a region from its last quarter moved
// to the front (the series seeks far forward, back, and forward again), next to a small
// bystander file.
func c07BigPair(r *lib.Rng, extraChunks int, moved bool) (*lib.Build, *lib.Build, []string) {
	size := c07CacheChunk*(c07CacheEntries+extraChunks) + r.Range(0, c07CacheChunk-1)
	od := r.Bytes(size)
	nd := append([]byte(nil), od...)
	rel := []string{fmt.Sprintf("big-old-%d(=%d cache chunks + %d)", size, size/c07CacheChunk, size%c07CacheChunk)}
	if moved {
		l := r.Range(1, 4) * lib.BS
		from := size - size/4 + r.Intn(size/8)
		region := append([]byte(nil), nd[from:from+l]...)
		copy(nd[l:from+l], od[:from])
		copy(nd[:l], region)
		rel = append(rel, fmt.Sprintf("region@%d+%d moved to the front", from, l))
	}
	ne := 0
	for at := r.Range(0, 2*lib.BS); at < size; at += r.Range(8*lib.BS, 24*lib.BS) {
		for i := at; i < at+r.Range(1, 24) && i < size; i++ {
			nd[i] ^= byte(1 + r.Intn(255))
		}
		ne++
	}
	rel = append(rel, fmt.Sprintf("%d point edits, 0.5-1.5 MiB apart", ne))
	old, nw := &lib.Build{}, &lib.Build{}
	old.Put(lib.Entry{Path: "data/big.bin", Kind: "file", Data: od})
	nw.Put(lib.Entry{Path: "data/big.bin", Kind: "file", Data: nd})
	side := r.Bytes(r.Range(100, lib.BS))
	old.Put(lib.Entry{Path: "side.bin", Kind: "file", Data: side})
	nw.Put(lib.Entry{Path: "side.bin", Kind: "file", Data: c07PointEdits(r, side, 2)})
	return old, nw, rel
}
