package main

// C05 — validation reports every deviation from the signed build and locates it.

import (
	"bytes"
	"context"
	"fmt"
	"io"
	"os"
	"path/filepath"
	"sort"
	"strings"
	"syscall"

	"github.com/itchio/savior/seeksource"
	"github.com/itchio/wharf/pwr"
	"github.com/itchio/wharf/wire"
	"github.com/pkg/errors"

	"verif/harness/lib"
)

func init() { register("C05", runC05) }

// readWounds decodes a .pww file (absent file = no wound).
func readWounds(path string) ([]*pwr.Wound, error) {
	b, err := os.ReadFile(path)
	if err != nil {
		if os.IsNotExist(err) {
			return nil, nil
		}
		return nil, err
	}
	src := seeksource.FromBytes(b)
	if _, err := src.Resume(nil); err != nil {
		return nil, err
	}
	rc := wire.NewReadContext(src)
	if err := rc.ExpectMagic(pwr.WoundsMagic); err != nil {
		return nil, err
	}
	if err := rc.ReadMessage(&pwr.WoundsHeader{}); err != nil {
		return nil, err
	}
	c := &pwr.SignatureInfo{}
	_ = c
	cont := &lakeContainer{}
	if err := rc.ReadMessage(cont.c()); err != nil {
		return nil, err
	}
	var out []*pwr.Wound
	for {
		w := &pwr.Wound{}
		err := rc.ReadMessage(w)
		if err != nil {
			if errors.Cause(err) == io.EOF {
				return out, nil
			}
			return out, err
		}
		out = append(out, w)
	}
}

func sortWounds(ws []*pwr.Wound) {
	sort.SliceStable(ws, func(i, j int) bool {
		a, b := ws[i], ws[j]
		if a.Kind != b.Kind {
			return a.Kind < b.Kind
		}
		if a.Index != b.Index {
			return a.Index < b.Index
		}
		if a.Start != b.Start {
			return a.Start < b.Start
		}
		return a.End < b.End
	})
}

// genSignedBuild: nested dirs, symlinks (to files, to directories, dangling, through another
// symlink; destinations spelled cleanly or not: "./x", "x/", "x/.", "d/../x"), empty files,
// duplicated files (what a deduplicating tool would link together), sizes around block multiples.
// rich = every optional feature present and small files (used by the fixed corpus cases).
func genSignedBuild(r *lib.Rng, rich bool) *lib.Build {
	b := &lib.Build{}
	dirs := []string{"", "a/", "a/b/", "c/"}
	nf := r.Range(1, 5)
	for i := 0; i < nf; i++ {
		sz := c18Sizes[r.Intn(len(c18Sizes))]
		if r.Chance(1, 4) {
			sz = r.Range(0, 3*bs64)
		}
		if rich {
			sz = []int{0, 1, 100, 700, 3000}[r.Intn(5)]
		}
		b.Put(lib.Entry{Path: fmt.Sprintf("%sf%d", dirs[r.Intn(len(dirs))], i), Kind: "file", Data: structuredContent(r, sz)})
	}
	if rich || r.Chance(2, 3) {
		b.Put(lib.Entry{Path: "empty", Kind: "file"})
	}
	if rich || r.Chance(2, 3) {
		b.Put(lib.Entry{Path: "d/e", Kind: "dir"})
	}
	if rich || r.Chance(1, 2) {
		b.Put(lib.Entry{Path: "a/sub/deep", Kind: "dir"})
		b.Put(lib.Entry{Path: "a/sub/deep/x", Kind: "file", Data: structuredContent(r, r.Range(1, 300))})
	}
	if rich || r.Chance(1, 3) { // two files with the same bytes
		src := b.Files()[r.Intn(len(b.Files()))]
		for _, f := range b.Files() { // rather a non-empty one
			if len(src.Data) == 0 && len(f.Data) > 0 {
				src = f
			}
		}
		b.Put(lib.Entry{Path: []string{"dup", "a/dup", "c/dup"}[r.Intn(3)], Kind: "file", Data: append([]byte(nil), src.Data...)})
	}
	if rich || r.Chance(2, 3) {
		t := b.Files()[0].Path
		b.Put(lib.Entry{Path: "ln", Kind: "link", Dest: []string{t, t, "./" + t, "d/../" + t}[r.Intn(4)]})
	}
	if rich || r.Chance(1, 3) {
		b.Put(lib.Entry{Path: "a/dangling", Kind: "link", Dest: "nowhere"})
	}
	if rich || r.Chance(1, 2) { // symlink to a directory
		b.Put(lib.Entry{Path: "a/.keep", Kind: "file"})
		b.Put(lib.Entry{Path: "lnd", Kind: "link", Dest: []string{"a", "a/", "a/.", "./a"}[r.Intn(4)]})
		if rich || r.Bool() { // and one that goes through it: "lnd/../c" is not "c" for the OS in general
			b.Put(lib.Entry{Path: "c/.keep", Kind: "file"})
			b.Put(lib.Entry{Path: "via", Kind: "link", Dest: "lnd/../c"})
		}
	}
	return b
}

// c05Shapes: signed builds whose container lacks a whole kind of entry (or has nothing to hash):
// no regular file at all (only directories, only symlinks, both), regular files that are all
// empty (total size 0), exactly one file and nothing else, nothing at all.  Validation has one
// pass per kind of entry and one worker for the files; a build that leaves a pass without work is
// where a shortcut ("nothing to hash") would sit.
var c05Shapes = []string{"nofiles/dirs", "nofiles/links", "nofiles/dirs+links", "emptyfiles", "onefile", "nothing"}

// genShapedBuild: rich = every optional entry of the shape present (fixed corpus cases)
func genShapedBuild(r *lib.Rng, shape string, rich bool) *lib.Build {
	b := &lib.Build{}
	opt := func(num, den int) bool { return r.Chance(num, den) || rich }
	putDirs := func() {
		b.Put(lib.Entry{Path: "logs", Kind: "dir"})
		if opt(2, 3) {
			b.Put(lib.Entry{Path: "d/e", Kind: "dir"})
		}
		if opt(1, 2) {
			b.Put(lib.Entry{Path: "a/sub/deep", Kind: "dir"})
		}
		if opt(1, 2) {
			b.Put(lib.Entry{Path: "c", Kind: "dir"})
		}
	}
	switch shape {
	case "nofiles/dirs":
		putDirs()
	case "nofiles/links": // no directory either: links to nothing, to another link, to the root, to themselves
		b.Put(lib.Entry{Path: "ln", Kind: "link", Dest: "nowhere"})
		if opt(1, 2) {
			b.Put(lib.Entry{Path: "ln2", Kind: "link", Dest: []string{"ln", "./ln"}[r.Intn(2)]})
		}
		if opt(1, 2) {
			b.Put(lib.Entry{Path: "root", Kind: "link", Dest: "."})
		}
		if opt(1, 3) {
			b.Put(lib.Entry{Path: "self", Kind: "link", Dest: "self"})
		}
	case "nofiles/dirs+links":
		putDirs()
		b.Put(lib.Entry{Path: "current", Kind: "link", Dest: []string{"logs", "logs/", "./logs", "logs/."}[r.Intn(4)]})
		if opt(1, 2) {
			b.Put(lib.Entry{Path: "logs/dangling", Kind: "link", Dest: "nowhere"})
		}
		if opt(1, 2) {
			b.Put(lib.Entry{Path: "logs/up", Kind: "link", Dest: ".."})
		}
		if opt(1, 2) {
			b.Put(lib.Entry{Path: "via", Kind: "link", Dest: "current/../logs"})
		}
	case "emptyfiles": // files, but not one byte to hash
		n := r.Range(1, 3)
		if rich {
			n = 3
		}
		for i := 0; i < n; i++ {
			b.Put(lib.Entry{Path: fmt.Sprintf("%se%d", []string{"", "a/", "a/b/"}[i], i), Kind: "file"})
		}
		if opt(1, 2) {
			b.Put(lib.Entry{Path: "d/e", Kind: "dir"})
		}
		if opt(1, 2) {
			b.Put(lib.Entry{Path: "ln", Kind: "link", Dest: "e0"})
		}
	case "onefile": // one file at the root, no directory, no symlink
		sz := append([]int{0, 1}, c18Sizes...)[r.Intn(2+len(c18Sizes))]
		if rich {
			sz = 700
		}
		b.Put(lib.Entry{Path: "only", Kind: "file", Data: structuredContent(r, sz)})
	case "nothing":
	}
	return b
}

// the fixed corpus of shaped builds: each with no damage and with one damage of every kind that
// applies to an entry the shape has
var c05ShapeCorpus = []struct {
	shape string
	force c05Force
}{
	{"nofiles/dirs", c05Force{"none", ""}}, {"nofiles/dirs", c05Force{"deldir", ""}}, {"nofiles/dirs", c05Force{"dir->file", ""}},
	{"nofiles/dirs", c05Force{"dir->link", "dangling"}}, {"nofiles/dirs", c05Force{"dir->link", "todir"}},
	{"nofiles/links", c05Force{"none", ""}}, {"nofiles/links", c05Force{"dellink", ""}}, {"nofiles/links", c05Force{"link->file", ""}},
	{"nofiles/links", c05Force{"link->dir", ""}}, {"nofiles/links", c05Force{"retarget", "other"}}, {"nofiles/links", c05Force{"retarget", "dotslash"}},
	{"nofiles/dirs+links", c05Force{"none", ""}}, {"nofiles/dirs+links", c05Force{"deldir", ""}}, {"nofiles/dirs+links", c05Force{"dir->file", ""}},
	{"nofiles/dirs+links", c05Force{"dir->link", "loop"}}, {"nofiles/dirs+links", c05Force{"dellink", ""}}, {"nofiles/dirs+links", c05Force{"link->file", ""}},
	{"nofiles/dirs+links", c05Force{"link->dir", ""}}, {"nofiles/dirs+links", c05Force{"retarget", "other"}}, {"nofiles/dirs+links", c05Force{"retarget", "prefix"}},
	{"emptyfiles", c05Force{"none", ""}}, {"emptyfiles", c05Force{"del", ""}}, {"emptyfiles", c05Force{"nonempty", ""}}, {"emptyfiles", c05Force{"file->dir", ""}},
	{"emptyfiles", c05Force{"file->link", "sameoutside"}}, {"emptyfiles", c05Force{"file->link", "dangling"}}, {"emptyfiles", c05Force{"deldir", ""}},
	{"emptyfiles", c05Force{"dellink", ""}}, {"emptyfiles", c05Force{"retarget", "other"}},
	{"onefile", c05Force{"none", ""}}, {"onefile", c05Force{"del", ""}}, {"onefile", c05Force{"emptied", ""}}, {"onefile", c05Force{"file->dir", ""}},
	{"nothing", c05Force{"none", ""}},
}

// c05Simple applies a damage that needs no parameter to entry e of a; "" if op does not apply to e
func c05Simple(a *lib.Build, e lib.Entry, op string) string {
	switch {
	case op == "del" && e.Kind == "file", op == "deldir" && e.Kind == "dir", op == "dellink" && e.Kind == "link":
		a.Remove(e.Path)
	case op == "nonempty" && e.Kind == "file" && len(e.Data) == 0:
		a.Put(lib.Entry{Path: e.Path, Kind: "file", Data: []byte{1, 2, 3}})
	case op == "emptied" && e.Kind == "file" && len(e.Data) > 0:
		a.Put(lib.Entry{Path: e.Path, Kind: "file"})
	case op == "file->dir" && e.Kind == "file", op == "link->dir" && e.Kind == "link":
		a.Remove(e.Path)
		a.Put(lib.Entry{Path: e.Path, Kind: "dir"})
	case op == "dir->file" && e.Kind == "dir":
		a.Remove(e.Path)
		a.Put(lib.Entry{Path: e.Path, Kind: "file", Data: []byte("was a dir")})
	case op == "link->file" && e.Kind == "link":
		a.Remove(e.Path)
		a.Put(lib.Entry{Path: e.Path, Kind: "file", Data: []byte("not a link")})
	default:
		return ""
	}
	return op + ":" + e.Path
}

// outsideDest is the destination string that leads from the entry at path `from` of the actual
// tree to `name` in the directory "outside" that sits beside the actual tree.
func outsideDest(from, name string) string {
	return strings.Repeat("../", strings.Count(from, "/")+1) + "outside/" + name
}

func toggleCase(s string) string {
	b := []byte(s)
	for i, c := range b {
		if c >= 'a' && c <= 'z' {
			b[i] = c - 32
			return string(b)
		}
		if c >= 'A' && c <= 'Z' {
			b[i] = c + 32
			return string(b)
		}
	}
	return s
}

// retargetVariants: destination strings that differ from the signed one d (link at path p) -
// lexically unrelated, or equal after filepath.Clean, or equal up to case / a prefix / one byte,
// or another spelling of the same place
func retargetVariants(p, d string) [][2]string {
	var out [][2]string
	add := func(name, nd string) {
		if nd != d && nd != "" {
			out = append(out, [2]string{name, nd})
		}
	}
	add("other", d+".other")
	add("dotslash", "./"+d)
	add("trailslash", d+"/")
	add("traildot", d+"/.")
	add("dblslash", strings.Replace(d, "/", "//", 1))
	add("detour", "zz/../"+d)
	add("cleaned", pathClean(d))
	add("case", toggleCase(d))
	add("prefix", d[:len(d)-1])
	add("lastbyte", d[:len(d)-1]+string([]byte{d[len(d)-1] ^ 1}))
	if j := strings.LastIndexByte(p, '/'); j >= 0 { // down from the root again: same place for a relative d
		add("sameplace", strings.Repeat("../", strings.Count(p, "/"))+p[:j]+"/"+d)
	}
	return out
}

func pathClean(d string) string { return filepath.ToSlash(filepath.Clean(filepath.FromSlash(d))) }

var (
	c05FileLinkVariants = []string{"dangling", "samesibling", "sameoutside", "nearoutside", "todir", "loop"}
	c05DirLinkVariants  = []string{"dangling", "outsidecopy", "todir", "loop"}
)

func c05Perm(r *lib.Rng, n int) []int {
	p := make([]int, n)
	for i := range p {
		p[i] = i
	}
	for i := n - 1; i > 0; i-- {
		j := r.Intn(i + 1)
		p[i], p[j] = p[j], p[i]
	}
	return p
}

// c05Force asks damageBuild for exactly one damage of the given kind and variant
type c05Force struct{ kind, variant string }

// the fixed corpus of wrong-kind / wrong-destination shapes, one damage each, run at the start
var c05ForcedCorpus = []c05Force{
	{"file->link", "samesibling"}, {"file->link", "sameoutside"}, {"file->link", "nearoutside"}, {"file->link", "todir"}, {"file->link", "loop"},
	{"dir->link", "outsidecopy"}, {"dir->link", "todir"}, {"dir->link", "loop"},
	{"retarget", "dotslash"}, {"retarget", "trailslash"}, {"retarget", "traildot"}, {"retarget", "dblslash"}, {"retarget", "detour"},
	{"retarget", "cleaned"}, {"retarget", "case"}, {"retarget", "prefix"}, {"retarget", "lastbyte"}, {"retarget", "sameplace"},
}

// fileToLink replaces the file e of a by a symlink; what the link leads to is the variant
func fileToLink(r *lib.Rng, a, outside *lib.Build, e lib.Entry, variant string) string {
	dest := ""
	switch variant {
	case "samesibling": // another file of the tree that still has exactly the signed bytes of e
		for _, x := range a.Entries {
			if x.Kind == "file" && x.Path != e.Path && bytes.Equal(x.Data, e.Data) {
				rel, err := filepath.Rel(filepath.FromSlash("/"+e.Path+"/.."), filepath.FromSlash("/"+x.Path))
				if err == nil {
					dest = filepath.ToSlash(rel)
					break
				}
			}
		}
		if dest != "" {
			break
		}
		variant = "sameoutside"
		fallthrough
	case "sameoutside": // a file outside of the tree with exactly the signed bytes
		name := fmt.Sprintf("o%d", len(outside.Entries))
		outside.Put(lib.Entry{Path: name, Kind: "file", Data: append([]byte(nil), e.Data...)})
		dest = outsideDest(e.Path, name)
	case "nearoutside": // same length, one byte differs (one byte long where empty is expected)
		d := append([]byte(nil), e.Data...)
		if len(d) == 0 {
			d = []byte{9}
		} else {
			d[[]int{0, len(d) - 1, r.Intn(len(d))}[r.Intn(3)]] ^= 4
		}
		name := fmt.Sprintf("o%d", len(outside.Entries))
		outside.Put(lib.Entry{Path: name, Kind: "file", Data: d})
		dest = outsideDest(e.Path, name)
	case "todir":
		dest = "."
	case "loop":
		dest = e.Path[strings.LastIndexByte(e.Path, '/')+1:]
	default:
		variant = "dangling"
		dest = "ln-target"
	}
	a.Remove(e.Path)
	a.Put(lib.Entry{Path: e.Path, Kind: "link", Dest: dest})
	return fmt.Sprintf("file->link/%s:%s->%s", variant, e.Path, dest)
}

// dirToLink replaces the directory e of a (and what is below it) by a symlink
func dirToLink(a, outside, signed *lib.Build, e lib.Entry, variant string) string {
	dest := ""
	switch variant {
	case "outsidecopy": // a directory outside of the tree that holds a copy of the signed subtree
		name := fmt.Sprintf("o%d", len(outside.Entries))
		outside.Put(lib.Entry{Path: name, Kind: "dir"})
		for _, x := range signed.Entries {
			if strings.HasPrefix(x.Path, e.Path+"/") {
				y := x
				y.Path = name + x.Path[len(e.Path):]
				outside.Put(y)
			}
		}
		dest = outsideDest(e.Path, name)
	case "todir":
		dest = "."
	case "loop":
		dest = e.Path[strings.LastIndexByte(e.Path, '/')+1:]
	default:
		variant = "dangling"
		dest = "nowhere-dir"
	}
	a.Remove(e.Path)
	a.Put(lib.Entry{Path: e.Path, Kind: "link", Dest: dest})
	return fmt.Sprintf("dir->link/%s:%s->%s", variant, e.Path, dest)
}

// damageBuild applies 0..4 damages (exactly the forced one if force != nil); returns the damaged
// tree, what has to exist beside it (directory "outside": link targets) and the damage labels
func damageBuild(r *lib.Rng, signed *lib.Build, allowHiding bool, force *c05Force) (*lib.Build, *lib.Build, []string) {
	a := signed.Clone()
	outside := &lib.Build{}
	var tags []string
	if force != nil {
		nonEmpty := len(signed.Entries)
		order := c05Perm(r, len(signed.Entries))
		for _, k := range append(order, order...) { // first round: non-empty files only
			e := signed.Entries[k]
			if nonEmpty--; nonEmpty >= 0 && e.Kind == "file" && len(e.Data) == 0 {
				continue
			}
			if t := c05Simple(a, e, force.kind); t != "" {
				return a, outside, []string{t}
			}
			switch {
			case force.kind == "file->link" && e.Kind == "file":
				if force.variant == "samesibling" {
					n := 0
					for _, x := range signed.Entries {
						if x.Kind == "file" && bytes.Equal(x.Data, e.Data) {
							n++
						}
					}
					if n < 2 {
						continue
					}
				}
				return a, outside, []string{fileToLink(r, a, outside, e, force.variant)}
			case force.kind == "dir->link" && e.Kind == "dir":
				if force.variant == "outsidecopy" && signed.Get(e.Path+"/x") == nil && signed.Get(e.Path+"/.keep") == nil {
					continue // take a directory with something below it
				}
				return a, outside, []string{dirToLink(a, outside, signed, e, force.variant)}
			case force.kind == "retarget" && e.Kind == "link":
				for _, v := range retargetVariants(e.Path, e.Dest) {
					if v[0] == force.variant {
						a.Put(lib.Entry{Path: e.Path, Kind: "link", Dest: v[1]})
						return a, outside, []string{fmt.Sprintf("retarget/%s:%s:%s->%s", v[0], e.Path, e.Dest, v[1])}
					}
				}
			}
		}
		return a, outside, nil
	}
	n := r.Range(0, 4)
	if r.Chance(1, 8) || len(signed.Entries) == 0 {
		n = 0
	}
	for k := 0; k < n; k++ {
		e := signed.Entries[r.Intn(len(signed.Entries))]
		cur := a.Get(e.Path)
		switch e.Kind {
		case "file":
			if cur == nil || cur.Kind != "file" {
				continue
			}
			d := append([]byte(nil), cur.Data...)
			sz := len(d)
			switch r.Intn(11) {
			case 0, 1: // flip
				if sz == 0 {
					continue
				}
				nb := (sz + bs64 - 1) / bs64
				j := r.Intn(nb)
				lo, hi := j*bs64, (j+1)*bs64
				if hi > sz {
					hi = sz
				}
				p := []int{lo, hi - 1, sz - 1, lo + (hi-lo)/2}[r.Intn(4)]
				d[p] ^= byte(1 << uint(r.Intn(8)))
				a.Put(lib.Entry{Path: e.Path, Kind: "file", Data: d})
				tags = append(tags, fmt.Sprintf("flip:%s@%d", e.Path, p))
			case 2, 3: // truncate
				if sz == 0 {
					continue
				}
				cands := []int{0, 1, sz - 1, (sz / bs64) * bs64, (sz/bs64)*bs64 - 1, (sz/bs64)*bs64 + 1, r.Intn(sz)}
				t := cands[r.Intn(len(cands))]
				if t < 0 {
					t = 0
				}
				if t >= sz {
					t = sz - 1
				}
				a.Put(lib.Entry{Path: e.Path, Kind: "file", Data: d[:t]})
				tags = append(tags, fmt.Sprintf("trunc:%s:%d->%d", e.Path, sz, t))
			case 4, 5: // extend
				ext := []int{1, 5, bs64 - sz%bs64, bs64 - sz%bs64 - 1, bs64 - sz%bs64 + 1, bs64, 2*bs64 + 7}[r.Intn(7)]
				if ext <= 0 {
					ext = 1
				}
				v := byte(r.Intn(256))
				for i := 0; i < ext; i++ {
					d = append(d, v)
				}
				a.Put(lib.Entry{Path: e.Path, Kind: "file", Data: d})
				tags = append(tags, fmt.Sprintf("ext:%s:%d+%d", e.Path, sz, ext))
			case 6: // delete
				a.Remove(e.Path)
				tags = append(tags, "del:"+e.Path)
			case 7: // emptied / non-empty where empty expected
				if sz == 0 {
					a.Put(lib.Entry{Path: e.Path, Kind: "file", Data: []byte{1, 2, 3}})
					tags = append(tags, "nonempty:"+e.Path)
				} else {
					a.Put(lib.Entry{Path: e.Path, Kind: "file"})
					tags = append(tags, "emptied:"+e.Path)
				}
			case 8: // file -> dir (maybe non-empty)
				a.Remove(e.Path)
				a.Put(lib.Entry{Path: e.Path, Kind: "dir"})
				if r.Bool() {
					a.Put(lib.Entry{Path: e.Path + "/inner", Kind: "file", Data: []byte("x")})
				}
				tags = append(tags, "file->dir:"+e.Path)
			default: // file -> symlink (to nothing, to the same bytes elsewhere, to other bytes, to a directory, to itself)
				tags = append(tags, fileToLink(r, a, outside, e, c05FileLinkVariants[r.Intn(len(c05FileLinkVariants))]))
			}
		case "dir":
			if cur == nil || cur.Kind != "dir" {
				continue
			}
			hasChildren := false
			for _, x := range signed.Entries {
				if strings.HasPrefix(x.Path, e.Path+"/") {
					hasChildren = true
				}
			}
			if hasChildren && !allowHiding {
				continue
			}
			switch r.Intn(4) {
			case 0:
				a.Remove(e.Path)
				tags = append(tags, "deldir:"+e.Path)
			case 1:
				a.Remove(e.Path)
				a.Put(lib.Entry{Path: e.Path, Kind: "file", Data: []byte("was a dir")})
				tags = append(tags, "dir->file:"+e.Path)
			default: // dir -> symlink (to nothing, to a copy of the subtree elsewhere, to another directory, to itself)
				tags = append(tags, dirToLink(a, outside, signed, e, c05DirLinkVariants[r.Intn(len(c05DirLinkVariants))]))
			}
		case "link":
			if cur == nil || cur.Kind != "link" {
				continue
			}
			switch r.Intn(6) {
			case 0, 1, 2:
				vs := retargetVariants(e.Path, e.Dest)
				v := vs[r.Intn(len(vs))]
				a.Put(lib.Entry{Path: e.Path, Kind: "link", Dest: v[1]})
				tags = append(tags, fmt.Sprintf("retarget/%s:%s:%s->%s", v[0], e.Path, e.Dest, v[1]))
			case 3:
				a.Remove(e.Path)
				tags = append(tags, "dellink:"+e.Path)
			case 4:
				a.Remove(e.Path)
				a.Put(lib.Entry{Path: e.Path, Kind: "file", Data: []byte("not a link")})
				tags = append(tags, "link->file:"+e.Path)
			default:
				a.Remove(e.Path)
				a.Put(lib.Entry{Path: e.Path, Kind: "dir"})
				tags = append(tags, "link->dir:"+e.Path)
			}
		}
	}
	return a, outside, tags
}

// observe what is at path with the same system calls a user would use
type fsObs struct {
	Class string // missing | dir | link | file | err
	Data  []byte
	Dest  string
}

func observe(p string) fsObs {
	st, err := os.Lstat(p)
	if err != nil {
		if os.IsNotExist(err) {
			return fsObs{Class: "missing"}
		}
		if errors.Is(err, syscall.ENOTDIR) {
			return fsObs{Class: "notdir"}
		}
		return fsObs{Class: "err"}
	}
	switch {
	case st.Mode()&os.ModeSymlink != 0:
		d, _ := os.Readlink(p)
		return fsObs{Class: "link", Dest: d}
	case st.IsDir():
		return fsObs{Class: "dir"}
	default:
		b, err := os.ReadFile(p)
		if err != nil {
			return fsObs{Class: "err"}
		}
		return fsObs{Class: "file", Data: b}
	}
}

func coqObs(o fsObs) string {
	switch o.Class {
	case "missing":
		return "XMissing"
	case "notdir":
		return "XNotDir"
	case "dir":
		return "XDir"
	case "link":
		return fmt.Sprintf("(XLink %d%%N)", destCode(o.Dest))
	case "file":
		return "(XFile " + lib.ToRle(o.Data).Coq() + ")"
	}
	return "XErr"
}

var destCodes = map[string]int{}

func destCode(s string) int {
	if v, ok := destCodes[s]; ok {
		return v
	}
	destCodes[s] = len(destCodes) + 1
	return destCodes[s]
}

// c05Aggregate drives pwr.AggregateWounds directly with synthetic marker sequences and small
// maxSize values, so that the flush-at-maxSize path (4 MiB of contiguous damage at the real
// constant) is reached with a handful of markers.
func c05Aggregate(c *Ctx) error {
	r := c.Rng.Fork()
	n := c.N(120, 1500)
	for i := 0; i < n; i++ {
		unit := int64([]int{1, 10, 65536}[r.Intn(3)])
		maxSize := unit * int64(r.Range(1, 5))
		if r.Chance(1, 5) {
			maxSize = unit*int64(r.Range(1, 5)) - 1
		}
		cnt := r.Range(0, 12)
		var in []*pwr.Wound
		pos := int64(0)
		for k := 0; k < cnt; k++ {
			kind := pwr.WoundKind_FILE
			if r.Chance(1, 4) {
				kind = pwr.WoundKind_CLOSED_FILE
			}
			if r.Chance(1, 12) {
				pos += unit * int64(r.Range(1, 3)) // a gap
			}
			sz := unit
			if r.Chance(1, 6) {
				sz = unit * int64(r.Range(0, 3))
			}
			in = append(in, &pwr.Wound{Kind: kind, Index: 3, Start: pos, End: pos + sz})
			pos += sz
		}
		out := make(chan *pwr.Wound, 64)
		inCh := pwr.AggregateWounds(out, maxSize)
		var got []*pwr.Wound
		cls, msg := lib.WithDeadline(20e9, func() error {
			for _, w := range in {
				inCh <- &pwr.Wound{Kind: w.Kind, Index: w.Index, Start: w.Start, End: w.End}
			}
			close(inCh)
			for w := range out {
				got = append(got, w)
			}
			return nil
		})
		oracle := ""
		if cls != "ok" {
			oracle = "AggregateWounds " + cls + ": " + msg
		}
		// oracle: every offset inside an input FILE wound is inside an output FILE wound; healthy markers relayed
		if oracle == "" {
			for _, w := range in {
				if w.Kind == pwr.WoundKind_FILE {
					for off := w.Start; off < w.End; off += unit {
						ok := false
						for _, g := range got {
							if g.Kind == pwr.WoundKind_FILE && g.Start <= off && off < g.End {
								ok = true
							}
						}
						if !ok {
							oracle = fmt.Sprintf("offset %d of input wound [%d,%d) is in no output wound (maxSize %d)", off, w.Start, w.End, maxSize)
							break
						}
					}
				} else {
					ok := false
					for _, g := range got {
						if g.Kind == w.Kind && g.Start == w.Start && g.End == w.End {
							ok = true
						}
					}
					if !ok {
						oracle = fmt.Sprintf("healthy marker [%d,%d) not relayed", w.Start, w.End)
					}
				}
				if oracle != "" {
					break
				}
			}
		}
		var is, gs []string
		for _, w := range in {
			is = append(is, woundCoq(w))
		}
		for _, w := range got {
			gs = append(gs, woundCoq(w))
		}
		c.Out.Emit(&lib.Case{Group: "agg", Class: fmt.Sprintf("agg/unit%d", unit), Nontrivial: cnt >= 3,
			Input: map[string]interface{}{"maxSize": maxSize, "in": woundsJ(in)}, Obs: map[string]interface{}{"out": woundsJ(got)}, Oracle: oracle,
			Coq: fmt.Sprintf("($ID%%N, %s, %s, %s)", lib.CoqZ(maxSize), lib.CoqList(is), lib.CoqList(gs))})
	}
	return nil
}

// c05Big: > 4 MiB of contiguous damage in one file at the real constants (oracle only: the
// model is not evaluated on 5 MiB lists; the aggregation logic itself is compared in group agg).
func c05Big(c *Ctx) error {
	r := c.Rng.Fork()
	n := c.N(1, 4)
	for i := 0; i < n; i++ {
		nb := 66 + r.Intn(70)
		size := nb*bs64 + []int{0, 1, 777}[r.Intn(3)]
		signed := &lib.Build{}
		data := r.Bytes(size)
		signed.Put(lib.Entry{Path: "big", Kind: "file", Data: data})
		dmg := append([]byte(nil), data...)
		from := r.Intn(3)
		for b := from; b*bs64 < size; b++ {
			if i%2 == 1 && b == from+65+r.Intn(3) {
				continue // one healthy block inside the run
			}
			dmg[b*bs64+r.Intn(min(bs64, size-b*bs64))] ^= 0x10
		}
		actual := &lib.Build{}
		actual.Put(lib.Entry{Path: "big", Kind: "file", Data: dmg})
		base := filepath.Join(c.Tmp, fmt.Sprintf("c05big-%d", i))
		sdir, adir := filepath.Join(base, "signed"), filepath.Join(base, "actual")
		if err := signed.WriteTo(sdir); err != nil {
			return err
		}
		if err := actual.WriteTo(adir); err != nil {
			return err
		}
		sig, err := lib.SignDir(sdir)
		if err != nil {
			return err
		}
		pww := filepath.Join(base, "w.pww")
		var wounds []*pwr.Wound
		cls, msg := lib.WithDeadline(120e9, func() error {
			vctx := &pwr.ValidatorContext{WoundsPath: pww, Consumer: lib.Quiet}
			return vctx.Validate(context.Background(), adir, sig)
		})
		oracle := ""
		if cls != "ok" {
			oracle = "validation " + cls + ": " + msg
		} else {
			wounds, err = readWounds(pww)
			if err != nil {
				return err
			}
			for off := 0; off < size && oracle == ""; off++ {
				if dmg[off] != data[off] {
					ok := false
					for _, w := range wounds {
						if w.Kind == pwr.WoundKind_FILE && w.Index == 0 && w.Start <= int64(off) && int64(off) < w.End {
							ok = true
						}
					}
					if !ok {
						oracle = fmt.Sprintf("file differs at offset %d (block %d of %d damaged blocks in a row) outside every wound", off, off/bs64, nb)
					}
				}
			}
			for _, w := range wounds {
				if w.Start < 0 || w.Start > w.End {
					oracle = fmt.Sprintf("malformed wound [%d,%d)", w.Start, w.End)
				}
			}
		}
		sortWounds(wounds)
		c.Out.Emit(&lib.Case{Class: "big-contiguous-damage", Nontrivial: true,
			Input: map[string]interface{}{"size": size, "blocks": nb, "firstDamaged": from, "subseed": i},
			Obs:   map[string]interface{}{"validate": cls, "wounds": woundsJ(wounds)}, Oracle: oracle})
		removeAll(base)
	}
	return nil
}

func runC05(c *Ctx) error {
	if err := c05Aggregate(c); err != nil {
		return err
	}
	if err := c05Big(c); err != nil {
		return err
	}
	r := c.Rng.Fork()
	// corpus of combined damages inside one block: {signed size, cut to (-1 = not cut), offset of a flipped byte}
	located := [][3]int{{2*bs64 + 10, -1, 2*bs64 + 9}, {bs64 + 100, bs64 + 50, bs64 + 10}, {700, 500, 10}, {3 * bs64, 2*bs64 + 1, 2 * bs64}, {2*bs64 + 10, 2*bs64 + 5, 3}}
	nOld, nForced, nShaped := 6+len(located), len(c05ForcedCorpus), len(c05ShapeCorpus)
	n := nOld + nForced + nShaped + c.N(36, 560)
	for i := 0; i < n; i++ {
		cr := r.Fork()
		var signed, actual, outside *lib.Build
		var tags []string
		shape := ""
		switch {
		case i >= 6 && i < nOld: // corpus: a cut inside a block and/or a flipped byte below the cut (same block, earlier block)
			l := located[i-6]
			signed = &lib.Build{}
			signed.Put(lib.Entry{Path: "f", Kind: "file", Data: structuredContent(cr, l[0])})
			actual, outside = signed.Clone(), &lib.Build{}
			d := append([]byte(nil), signed.Get("f").Data...)
			if l[1] >= 0 {
				d = d[:l[1]]
				tags = append(tags, fmt.Sprintf("trunc:f:%d->%d", l[0], l[1]))
			}
			d[l[2]] ^= 0x20
			tags = append(tags, fmt.Sprintf("flip:f@%d", l[2]))
			actual.Put(lib.Entry{Path: "f", Kind: "file", Data: d})
		case i < nOld: // corpus: shapes that failed before (fixed defects), always first
			signed = &lib.Build{}
			sz := []int{100, bs64, 5, 2*bs64 + 10, bs64 - 1, 3 * bs64}[i]
			signed.Put(lib.Entry{Path: "f", Kind: "file", Data: structuredContent(cr, sz)})
			actual = signed.Clone()
			ext := []int{50, 10, 70000, 1, 1, bs64}[i]
			d := append([]byte(nil), signed.Get("f").Data...)
			for k := 0; k < ext; k++ {
				d = append(d, 7)
			}
			actual.Put(lib.Entry{Path: "f", Kind: "file", Data: d})
			outside = &lib.Build{}
			tags = []string{fmt.Sprintf("corpus-longer:%d+%d", sz, ext)}
		case i < nOld+nForced: // corpus: one wrong-kind / wrong-destination damage of each shape on a small build with every feature
			signed = genSignedBuild(cr, true)
			actual, outside, tags = damageBuild(cr, signed, true, &c05ForcedCorpus[i-nOld])
		case i < nOld+nForced+nShaped: // corpus: builds that lack a kind of entry, pristine and with one damage of each kind
			sc := &c05ShapeCorpus[i-nOld-nForced]
			shape = sc.shape
			signed = genShapedBuild(cr, shape, true)
			actual, outside, tags = damageBuild(cr, signed, true, &sc.force)
		case i%4 == 1: // random: a shaped build with 0-4 damages
			shape = c05Shapes[cr.Intn(len(c05Shapes)-1)] // "nothing" cannot be damaged: corpus only
			signed = genShapedBuild(cr, shape, false)
			actual, outside, tags = damageBuild(cr, signed, i%3 != 0, nil)
		default:
			signed = genSignedBuild(cr, false)
			actual, outside, tags = damageBuild(cr, signed, i%3 != 0, nil)
		}
		base := filepath.Join(c.Tmp, fmt.Sprintf("c05-%d", i))
		sdir, adir := filepath.Join(base, "signed"), filepath.Join(base, "actual")
		if err := signed.WriteTo(sdir); err != nil {
			return err
		}
		if err := actual.WriteTo(adir); err != nil {
			return err
		}
		if err := outside.WriteTo(filepath.Join(base, "outside")); err != nil {
			return err
		}
		sig, err := lib.SignDir(sdir)
		if err != nil {
			return err
		}
		cont := sig.Container
		// observations of the actual tree, per signed entry, in container order
		var dObs, lObs, fObs []fsObs
		for _, d := range cont.Dirs {
			dObs = append(dObs, observe(filepath.Join(adir, filepath.FromSlash(d.Path))))
		}
		for _, l := range cont.Symlinks {
			lObs = append(lObs, observe(filepath.Join(adir, filepath.FromSlash(l.Path))))
		}
		for _, f := range cont.Files {
			fObs = append(fObs, observe(filepath.Join(adir, filepath.FromSlash(f.Path))))
		}

		// run: wounds-writer mode, then fail-fast mode
		pww := filepath.Join(base, "wounds.pww")
		var wounds []*pwr.Wound
		wcls, wmsg := lib.WithDeadline(60e9, func() error {
			vctx := &pwr.ValidatorContext{WoundsPath: pww, Consumer: lib.Quiet}
			return vctx.Validate(context.Background(), adir, sig)
		})
		if wcls == "ok" {
			wounds, err = readWounds(pww)
			if err != nil {
				return err
			}
		}
		fcls, _ := lib.WithDeadline(60e9, func() error { return pwr.AssertValid(adir, sig) })
		sortWounds(wounds)

		// ---- oracle ----
		oracle := ""
		fail := func(f string, a ...interface{}) {
			if oracle == "" {
				oracle = fmt.Sprintf(f, a...)
			}
		}
		deviates := false
		signedFiles := map[string][]byte{}
		for _, e := range signed.Entries {
			if e.Kind == "file" {
				signedFiles[e.Path] = e.Data
			}
		}
		if wcls == "panic" || wcls == "hang" {
			fail("validation %s: %s", wcls, wmsg)
		}
		if fcls == "panic" || fcls == "hang" {
			fail("fail-fast validation %s", fcls)
		}
		has := func(kind pwr.WoundKind, idx int) bool {
			for _, w := range wounds {
				if w.Kind == kind && w.Index == int64(idx) {
					return true
				}
			}
			return false
		}
		for _, w := range wounds {
			lim := 0
			switch w.Kind {
			case pwr.WoundKind_FILE:
				lim = len(cont.Files)
			case pwr.WoundKind_DIR:
				lim = len(cont.Dirs)
			case pwr.WoundKind_SYMLINK:
				lim = len(cont.Symlinks)
			default:
				fail("wound of kind %s written to the wounds file", w.Kind)
			}
			if w.Index < 0 || int(w.Index) >= lim {
				fail("wound names entry %d of %d", w.Index, lim)
			}
			if w.Start < 0 || w.Start > w.End {
				fail("malformed wound range [%d,%d) for %s #%d", w.Start, w.End, w.Kind, w.Index)
			}
		}
		for i, d := range cont.Dirs {
			if dObs[i].Class != "dir" {
				deviates = true
				if wcls == "ok" && !has(pwr.WoundKind_DIR, i) {
					fail("dir %s is %s but has no wound", d.Path, dObs[i].Class)
				}
			}
		}
		for i, l := range cont.Symlinks {
			if lObs[i].Class != "link" || lObs[i].Dest != l.Dest {
				deviates = true
				if wcls == "ok" && !has(pwr.WoundKind_SYMLINK, i) {
					fail("symlink %s is %s(%s) but has no wound", l.Path, lObs[i].Class, lObs[i].Dest)
				}
			}
		}
		for i, f := range cont.Files {
			want := signedFiles[f.Path]
			o := fObs[i]
			if o.Class != "file" {
				deviates = true
				if wcls == "ok" && !has(pwr.WoundKind_FILE, i) {
					fail("file %s is %s but has no wound", f.Path, o.Class)
				}
				continue
			}
			if bytes.Equal(o.Data, want) {
				continue
			}
			deviates = true
			if wcls != "ok" {
				continue
			}
			if !has(pwr.WoundKind_FILE, i) {
				fail("file %s differs (len %d, signed %d) but has no wound", f.Path, len(o.Data), len(want))
				continue
			}
			// every offset below the signed length at which the file differs lies inside a wound
			covered := func(off int64) bool {
				for _, w := range wounds {
					if w.Kind == pwr.WoundKind_FILE && w.Index == int64(i) && w.Start <= off && off < w.End {
						return true
					}
				}
				return false
			}
			for off := 0; off < len(want); off++ {
				differs := off >= len(o.Data) || o.Data[off] != want[off]
				if differs && !covered(int64(off)) {
					fail("file %s differs at offset %d (actual len %d, signed %d) outside every wound", f.Path, off, len(o.Data), len(want))
					break
				}
				if !differs && off+4096 < len(want) && off+4096 < len(o.Data) && bytes.Equal(o.Data[off:off+4096], want[off:off+4096]) {
					off += 4095 // skip equal stretches quickly
				}
			}
		}
		if deviates {
			if wcls == "ok" && len(wounds) == 0 {
				fail("directory deviates from the signed build but validation reported no wound")
			}
			if fcls == "ok" {
				fail("directory deviates from the signed build but fail-fast validation returned nil")
			}
		} else {
			if wcls != "ok" || len(wounds) != 0 {
				fail("valid directory: validation %s with %d wounds", wcls, len(wounds))
			}
			if fcls != "ok" {
				fail("valid directory rejected by fail-fast validation")
			}
		}

		// ---- Coq term ----
		var ds, ls, fs, ws []string
		dirIdx := map[string]int{}
		for i, d := range cont.Dirs {
			dirIdx[d.Path] = i
		}
		anc := func(p string) string { // indices of the ancestor directories of p present in the container
			var out []string
			for {
				j := strings.LastIndexByte(p, '/')
				if j < 0 {
					break
				}
				p = p[:j]
				if k, ok := dirIdx[p]; ok {
					out = append(out, fmt.Sprintf("%d%%nat", k))
				}
			}
			return lib.CoqList(out)
		}
		for i, o := range dObs {
			ds = append(ds, fmt.Sprintf("(%s, %s)", anc(cont.Dirs[i].Path), coqObs(o)))
		}
		for i, o := range lObs {
			ls = append(ls, fmt.Sprintf("(%s, %d%%N, %s)", anc(cont.Symlinks[i].Path), destCode(cont.Symlinks[i].Dest), coqObs(o)))
		}
		for i, o := range fObs {
			fs = append(fs, fmt.Sprintf("(%s, %s, %s)", anc(cont.Files[i].Path), lib.ToRle(signedFiles[cont.Files[i].Path]).Coq(), coqObs(o)))
		}
		for _, w := range wounds {
			ws = append(ws, woundCoq(w))
		}
		kinds := map[string]bool{}
		for _, t := range tags {
			kinds[strings.SplitN(t, ":", 2)[0]] = true
		}
		var ks []string
		for k := range kinds {
			ks = append(ks, k)
		}
		sort.Strings(ks)
		cls := strings.Join(ks, "+")
		if cls == "" {
			cls = "pristine"
		}
		if shape != "" {
			cls = shape + ":" + cls
		}
		c.Out.Emit(&lib.Case{Group: "val", Class: cls, Nontrivial: len(tags) > 0,
			Input: map[string]interface{}{"shape": shape, "signed": signed.Summary(), "damage": tags, "outside": outside.Summary()},
			Obs:   map[string]interface{}{"validate": wcls, "failfast": fcls, "wounds": woundsJ(wounds)}, Oracle: oracle,
			Coq: fmt.Sprintf("($ID%%N, %s, %s, %s, (%s, %s, %s))", lib.CoqList(ds), lib.CoqList(ls), lib.CoqList(fs),
				map[string]string{"ok": "ROk", "error": "RErr", "panic": "RPanic", "hang": "RHang"}[wcls],
				map[string]string{"ok": "ROk", "error": "RErr", "panic": "RPanic", "hang": "RHang"}[fcls], lib.CoqList(ws))})
		removeAll(base)
	}
	return nil
}
