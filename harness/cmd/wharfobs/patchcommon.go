package main

// helpers shared by the patcher-level sub-commands (C01, C17)

import (
	"bytes"
	"fmt"
	"os"
	"path/filepath"

	"github.com/itchio/lake"
	"github.com/itchio/lake/pools/fspool"
	"github.com/itchio/lake/tlc"

	"github.com/itchio/wharf/pwr/bowl"

	"verif/harness/lib"
)

// nFor picks a case count by tier; the search tier (run after a model/implementation
// disagreement that no oracle explains) concentrates on the cheap hand-made cases.
func nFor(c *Ctx, quick, thorough, search int) int {
	switch c.Tier {
	case "quick":
		return quick
	case "search":
		return search
	}
	return thorough
}

func classCode(cls string) int64 {
	switch cls {
	case "ok":
		return 0
	case "error":
		return 1
	case "panic":
		return 2
	}
	return 3
}

// coqBuildInContainerOrder prints the build b as the model's [rbuild], entries in the order
// dirs, files, symlinks of the container c that a walk of b's directory produced, so that the
// model's [container_of] can be compared with c.
func coqBuildInContainerOrder(c *tlc.Container, b *lib.Build, d *lib.PathDict) string {
	var s []string
	for _, x := range c.Dirs {
		s = append(s, fmt.Sprintf("(%s, RDir)", d.Path(x.Path)))
	}
	for _, f := range c.Files {
		var data []byte
		if e := b.Get(filepath.ToSlash(f.Path)); e != nil {
			data = e.Data
		}
		s = append(s, fmt.Sprintf("(%s, RFile %s)", d.Path(f.Path), lib.CoqRle(data)))
	}
	for _, l := range c.Symlinks {
		dest := l.Dest
		if e := b.Get(filepath.ToSlash(l.Path)); e != nil {
			dest = e.Dest
		}
		s = append(s, fmt.Sprintf("(%s, RLink %s)", d.Path(l.Path), lib.CoqDest(dest)))
	}
	return lib.CoqList(s)
}

// oldContents returns the contents of the old build's files in the order of container c.
func oldContents(c *tlc.Container, b *lib.Build) [][]byte {
	out := make([][]byte, len(c.Files))
	for i, f := range c.Files {
		if e := b.Get(filepath.ToSlash(f.Path)); e != nil {
			out[i] = e.Data
		}
	}
	return out
}

func coqRleList(bs [][]byte) string {
	s := make([]string, len(bs))
	for i, b := range bs {
		s[i] = lib.CoqRle(b)
	}
	return lib.CoqList(s)
}

// replayOps is the harness's own reading of what a series of rsync ops stands for:
// BLOCK_RANGE(f,i,s) = bytes [i*BS, min((i+s)*BS, len)) of old file f; DATA = its payload.
// It returns the bytes and "" or what is wrong with the ops (a range out of bounds).
func replayOps(olds [][]byte, ops []lib.PMsg) ([]byte, string) {
	var out []byte
	for k, o := range ops {
		switch o.Type {
		case 0:
			if o.FileIndex < 0 || int(o.FileIndex) >= len(olds) {
				return out, fmt.Sprintf("op %d: old file index %d out of range", k, o.FileIndex)
			}
			d := olds[o.FileIndex]
			nb := (int64(len(d)) + lib.BS - 1) / lib.BS
			if o.BlockIndex < 0 || o.BlockSpan < 1 || o.BlockIndex+o.BlockSpan > nb {
				return out, fmt.Sprintf("op %d: blocks [%d,+%d) of an old file with %d blocks", k, o.BlockIndex, o.BlockSpan, nb)
			}
			from, to := o.BlockIndex*lib.BS, (o.BlockIndex+o.BlockSpan)*lib.BS
			if to > int64(len(d)) {
				to = int64(len(d))
			}
			out = append(out, d[from:to]...)
		case 1:
			out = append(out, o.Data...)
		default:
			return out, fmt.Sprintf("op %d: unexpected op type %d", k, o.Type)
		}
	}
	return out, ""
}

// checkPlainStream is the independent oracle on the decoded output of WritePatch: header
// carries the requested compression, the containers are those of the two directories, one
// RSYNC series per new file in index order closed by the end marker, the ops of every series
// replay to the new file against the old files with every range in bounds.
func checkPlainStream(dp *lib.DecodedPatch, comp lib.Compression, oldC, newC *tlc.Container, old, nw *lib.Build) string {
	if dp.Algo != comp.Algo || dp.Quality != comp.Quality {
		return fmt.Sprintf("header says %s-q%d, asked for %s", dp.Algo, dp.Quality, comp)
	}
	if d := diffContainers(dp.Target, oldC); d != "" {
		return "target container of the patch is not the old build's: " + d
	}
	if d := diffContainers(dp.Source, newC); d != "" {
		return "source container of the patch is not the new build's: " + d
	}
	if len(dp.Series) != len(newC.Files) {
		return fmt.Sprintf("%d series for %d new files", len(dp.Series), len(newC.Files))
	}
	olds := oldContents(oldC, old)
	for i, se := range dp.Series {
		ms := dp.Msgs[se[0]:se[1]]
		if ms[0].Type != 0 || ms[0].FileIndex != int64(i) {
			return fmt.Sprintf("series %d starts with SyncHeader{type %d, fileIndex %d}", i, ms[0].Type, ms[0].FileIndex)
		}
		ops := ms[1 : len(ms)-1]
		if len(ops) == 0 {
			return fmt.Sprintf("series %d has no op before the end marker", i)
		}
		got, bad := replayOps(olds, ops)
		if bad != "" {
			return fmt.Sprintf("series %d: %s", i, bad)
		}
		e := nw.Get(filepath.ToSlash(newC.Files[i].Path))
		if e == nil || !bytes.Equal(got, e.Data) {
			return fmt.Sprintf("series %d: the ops do not replay to new file %s", i, newC.Files[i].Path)
		}
	}
	return ""
}

func diffContainers(a, b *tlc.Container) string {
	if len(a.Files) != len(b.Files) || len(a.Dirs) != len(b.Dirs) || len(a.Symlinks) != len(b.Symlinks) {
		return fmt.Sprintf("%d/%d/%d files/dirs/links vs %d/%d/%d", len(a.Files), len(a.Dirs), len(a.Symlinks), len(b.Files), len(b.Dirs), len(b.Symlinks))
	}
	for i := range a.Files {
		if a.Files[i].Path != b.Files[i].Path || a.Files[i].Size != b.Files[i].Size {
			return fmt.Sprintf("file %d: %s(%d) vs %s(%d)", i, a.Files[i].Path, a.Files[i].Size, b.Files[i].Path, b.Files[i].Size)
		}
	}
	for i := range a.Dirs {
		if a.Dirs[i].Path != b.Dirs[i].Path {
			return fmt.Sprintf("dir %d: %s vs %s", i, a.Dirs[i].Path, b.Dirs[i].Path)
		}
	}
	for i := range a.Symlinks {
		if a.Symlinks[i].Path != b.Symlinks[i].Path || a.Symlinks[i].Dest != b.Symlinks[i].Dest {
			return fmt.Sprintf("symlink %d: %s vs %s", i, a.Symlinks[i].Path, b.Symlinks[i].Path)
		}
	}
	return ""
}

// applyRecorded applies patch to oldDir into outDir (fresh bowl) with a recording bowl and a
// recording old-build pool; whitelist may be nil.
func applyRecorded(patch []byte, oldDir, outDir string, whitelist map[int64]bool) (rec *lib.Recorder, touched int64, src *tlc.Container, err error) {
	rec = &lib.Recorder{}
	os.RemoveAll(outDir)
	if err = os.MkdirAll(outDir, 0o755); err != nil {
		return
	}
	p, err := lib.NewPatcher(patch)
	if err != nil {
		return
	}
	src = p.GetSourceContainer()
	if whitelist != nil {
		p.SetSourceIndexWhitelist(whitelist)
	}
	var tp lake.Pool = &lib.RecPool{Inner: fspool.New(p.GetTargetContainer(), oldDir), Rec: rec}
	fb, err := bowl.NewFreshBowl(bowl.FreshBowlParams{SourceContainer: p.GetSourceContainer(), TargetContainer: p.GetTargetContainer(), TargetPool: tp, OutputFolder: outDir})
	if err != nil {
		return
	}
	rb := &lib.RecBowl{Inner: fb, Rec: rec}
	defer rb.Close()
	err = p.Resume(nil, tp, rb)
	touched = p.GetTouchedFiles()
	if err != nil {
		return
	}
	err = rb.Commit()
	return
}

func seriesOps(dp *lib.DecodedPatch, i int) []lib.PMsg {
	se := dp.Series[i]
	return dp.Msgs[se[0]+1 : se[1]-1]
}
