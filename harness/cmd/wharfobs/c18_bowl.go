package main

// C18 — the ROUTES by which bytes reach the writer of a validating pool.
//
// The property is about "the write or close that completes a block": somebody has to look at the
// error of that Close.  Besides a caller that holds the pool's writer itself (route "writer"), the
// code base reaches it through the pool bowl (pwr/bowl/bowl_pool.go, the bowl used whenever a patch
// is applied into a writable pool - here: OutputPool = the validating pool):
//
//	"entry"        poolBowl.GetWriter -> EntryWriter: Resume(nil), Write per slice, Finalize, Close
//	"transpose-wt" poolBowl.Transpose, the reader of the target pool implements io.WriterTo (as
//	               *bytes.Reader and *os.File do) and issues the Write calls itself, one per slice
//	"transpose-rd" poolBowl.Transpose, a plain io.Reader that serves one slice per Read (cut to the
//	               bowl's copy buffer), i.e. the bowl's own copy loop does the writes
//
// Through a transposition the only observable of the whole write-and-close sequence is the single
// error Transpose returns; the feed below records how many Write calls the copy got through.

import (
	"bytes"
	"fmt"
	"io"
	"strings"

	"github.com/itchio/lake"
	"github.com/itchio/lake/tlc"
	"github.com/itchio/wharf/pwr"
	"github.com/itchio/wharf/pwr/bowl"

	"verif/harness/lib"
)

const (
	c18RouteWriter = iota
	c18RouteEntry
	c18RouteTransposeWT
	c18RouteTransposeRD
)

var c18RouteNames = []string{"writer", "entry", "transpose-wt", "transpose-rd"}

// c18Feed hands the written content to a copy loop, slice by slice
type c18Feed struct {
	data  []byte
	sizes []int

	pos, next, rem int   // read position, next slice, rest of the slice being served
	bufLen         int   // len(p) of the last Read
	served         []int // rd: sizes of the chunks handed out
	okWrites       int   // wt: Write calls that took everything without error
	sawEOF, short  bool
}

func (f *c18Feed) advance() bool { // move to a slice with bytes left
	for f.rem == 0 {
		if f.next >= len(f.sizes) {
			return false
		}
		f.rem = f.sizes[f.next]
		f.next++
	}
	return true
}

func (f *c18Feed) Read(p []byte) (int, error) {
	f.bufLen = len(p)
	if len(p) == 0 {
		return 0, nil
	}
	if !f.advance() {
		f.sawEOF = true
		return 0, io.EOF
	}
	n := min(f.rem, len(p))
	copy(p, f.data[f.pos:f.pos+n])
	f.pos += n
	f.rem -= n
	f.served = append(f.served, n)
	return n, nil
}

// plan: the chunks served so far plus those the rest of the slices would be served in
func (f *c18Feed) plan() []int {
	out := append([]int(nil), f.served...)
	g := *f
	capLen := g.bufLen
	if capLen <= 0 {
		capLen = 32 * 1024
	}
	for g.advance() {
		n := min(g.rem, capLen)
		g.rem -= n
		out = append(out, n)
	}
	return out
}

// c18FeedWT is a feed that does the writing itself, as io.Copy lets a reader do
type c18FeedWT struct{ *c18Feed }

func (f c18FeedWT) WriteTo(w io.Writer) (int64, error) {
	var total int64
	for _, sz := range f.sizes {
		n, err := w.Write(f.data[f.pos : f.pos+sz])
		total += int64(n)
		f.pos += sz
		if err != nil {
			return total, err
		}
		if n != sz {
			f.short = true
			return total, io.ErrShortWrite
		}
		f.okWrites++
	}
	f.sawEOF = true
	return total, nil
}

// c18SrcPool is the target pool of a transposition: file `index` is fed through `feed`
type c18SrcPool struct {
	container *tlc.Container
	files     [][]byte
	index     int64
	feed      *c18Feed
	wt        bool
	opened    int
}

var _ lake.Pool = (*c18SrcPool)(nil)

func (p *c18SrcPool) GetSize(i int64) int64 { return int64(len(p.files[i])) }
func (p *c18SrcPool) GetReader(i int64) (io.Reader, error) {
	if i < 0 || int(i) >= len(p.files) {
		return nil, fmt.Errorf("c18SrcPool: no file %d", i)
	}
	if i != p.index {
		return bytes.NewReader(p.files[i]), nil
	}
	p.opened++
	if p.wt {
		return c18FeedWT{p.feed}, nil
	}
	return p.feed, nil
}
func (p *c18SrcPool) GetReadSeeker(i int64) (io.ReadSeeker, error) {
	if i < 0 || int(i) >= len(p.files) {
		return nil, fmt.Errorf("c18SrcPool: no file %d", i)
	}
	return bytes.NewReader(p.files[i]), nil
}
func (p *c18SrcPool) Close() error { return nil }

// c18Deliver sends `written`, sliced as `sizes`, to file fileIndex of the validating pool by the
// given route.  It returns the outcome class, the number of Write calls that succeeded and the
// Write calls as they were (to be) issued.
func c18Deliver(vp *pwr.ValidatingPool, route int, fileIndex int64, written, other []byte, sizes []int, wound, closeAfterFail bool) (string, int, []int, error) {
	writeAll := func(w io.WriteCloser, finalize func() error) (string, int) {
		outcome, okWrites, pos := "Done", 0, 0
		for _, sz := range sizes {
			nw, err := w.Write(written[pos : pos+sz])
			pos += sz
			if err != nil {
				outcome = "Failed"
				break
			}
			if nw != sz {
				outcome = "Short"
				break
			}
			okWrites++
		}
		if outcome == "Done" {
			if finalize != nil {
				if err := finalize(); err != nil {
					outcome = "Failed"
				}
			}
			if err := w.Close(); err != nil {
				outcome = "Failed"
			}
		} else if wound || closeAfterFail {
			// wound mode: lets the wound relay of this writer finish; error mode: a caller following the
			// `defer w.Close()` idiom - what poolBowl.Transpose does itself after a failed copy
			w.Close()
		}
		return outcome, okWrites
	}
	if route == c18RouteWriter {
		w, err := vp.GetWriter(fileIndex)
		if err != nil {
			return "", 0, nil, err
		}
		outcome, ok := writeAll(w, nil)
		return outcome, ok, sizes, nil
	}
	// the transposed file sits at another index of the target container than in the new one
	ti := 1 - fileIndex
	tfiles := [][]byte{other, other}
	tfiles[ti] = written
	tc := &tlc.Container{}
	for i, f := range tfiles {
		tc.Files = append(tc.Files, &tlc.File{Path: fmt.Sprintf("t%d", i), Mode: 0644, Size: int64(len(f))})
		tc.Size += int64(len(f))
	}
	feed := &c18Feed{data: written, sizes: sizes}
	src := &c18SrcPool{container: tc, files: tfiles, index: ti, feed: feed, wt: route == c18RouteTransposeWT}
	b, err := bowl.NewPoolBowl(bowl.PoolBowlParams{TargetContainer: tc, SourceContainer: vp.Container, TargetPool: src, OutputPool: vp})
	if err != nil {
		return "", 0, nil, err
	}
	if err := b.Resume(nil); err != nil {
		return "", 0, nil, err
	}
	if route == c18RouteEntry {
		ew, err := b.GetWriter(fileIndex)
		if err != nil {
			return "", 0, nil, err
		}
		if _, err := ew.Resume(nil); err != nil {
			return "", 0, nil, err
		}
		outcome, ok := writeAll(ew, ew.Finalize)
		return outcome, ok, sizes, nil
	}
	outcome := "Done"
	if err := b.Transpose(bowl.Transposition{TargetIndex: ti, SourceIndex: fileIndex}); err != nil {
		outcome = "Failed"
	}
	if feed.short {
		outcome = "Short"
	}
	if route == c18RouteTransposeWT {
		return outcome, feed.okWrites, sizes, nil
	}
	// plain reader: the copy loop stops reading at the first Write that fails, so every chunk served
	// was written, and all but the last one successfully unless the reader was drained (then whatever
	// failed came after the last Write)
	ok := len(feed.served)
	if outcome != "Done" && !feed.sawEOF && ok > 0 {
		ok--
	}
	return outcome, ok, feed.plan(), nil
}

// tailDamage: the written content differs from the signed one only in the trailing partial block
// (the one the validating pool can check only when the writer is closed) - or, for sizes that are
// block multiples, in the last full block
func tailDamage(r *lib.Rng, signed []byte) ([]byte, string) {
	w := append([]byte(nil), signed...)
	if len(w) == 0 {
		return append(w, byte(r.Intn(256))), "ext1"
	}
	lo := ((len(w) - 1) / bs64) * bs64
	switch r.Intn(4) {
	case 0, 1:
		p := []int{lo, len(w) - 1, lo + (len(w)-lo)/2, r.Range(lo, len(w)-1)}[r.Intn(4)]
		w[p] ^= byte(1 << uint(r.Intn(8)))
		return w, fmt.Sprintf("flip@%d", p)
	case 2:
		n := []int{lo + 1, len(w) - 1, r.Range(lo+1, len(w))}[r.Intn(3)]
		if n > len(w)-1 {
			n = len(w) - 1
		}
		if n <= lo { // one-byte last block: cutting it leaves a block-aligned prefix, which must pass
			return w[:lo], fmt.Sprintf("trunc%d", lo)
		}
		return w[:n], fmt.Sprintf("trunc%d", n)
	default:
		room := lo + bs64 - len(w) // bytes until the end of the last signed block
		ext := []int{1, 5, room, room - 1}[r.Intn(4)]
		if ext <= 0 {
			ext = 1
		}
		v := byte(r.Intn(256))
		for i := 0; i < ext; i++ {
			w = append(w, v)
		}
		return w, fmt.Sprintf("ext%d", ext)
	}
}

// blockShiftDamage: whole blocks dropped, doubled or exchanged - every block from the damage on
// differs from the signed block AT ITS POSITION while being equal to a signed block of a
// neighbouring position (a validator that loses count of the position accepts them)
func blockShiftDamage(r *lib.Rng, signed []byte) ([]byte, string, bool) {
	nb := (len(signed) + bs64 - 1) / bs64
	if nb < 2 {
		return nil, "", false
	}
	j := r.Intn(nb - 1) // a full block that has a successor
	lo, hi := j*bs64, (j+1)*bs64
	var w []byte
	switch r.Intn(3) {
	case 0:
		w = append(append(w, signed[:lo]...), signed[hi:]...)
		return w, fmt.Sprintf("shift:drop%d", j), true
	case 1:
		w = append(append(append(w, signed[:hi]...), signed[lo:hi]...), signed[hi:]...)
		return w, fmt.Sprintf("shift:dup%d", j), true
	default:
		if len(signed) < hi+bs64 { // the successor is a short block: exchanging would move every byte
			w = append(append(w, signed[:lo]...), signed[hi:]...)
			return w, fmt.Sprintf("shift:drop%d", j), true
		}
		w = append([]byte(nil), signed...)
		copy(w[lo:hi], signed[hi:hi+bs64])
		copy(w[hi:hi+bs64], signed[lo:hi])
		return w, fmt.Sprintf("shift:swap%d", j), true
	}
}

// c18BowlCorpus: seed-independent cases through the pool bowl.  Error mode: the only differing block
// is the trailing partial one (reported by Close alone), an intact file, a differing full block
// (reported by Write); wound mode: the same damage must not fail the transposition.
func c18BowlCorpus() []*c18Spec {
	r := lib.NewRng(0xC18B)
	type scen struct {
		size   int
		dmg    string // "last": last byte flipped, "cut": 10 bytes short, "same", "first": byte 5 flipped
		slices int
	}
	mk := func(sc scen, mode, route int) *c18Spec {
		s := &c18Spec{model: true, prefix: "vp-bowl-corpus", content: "structured", mode: mode, route: route, maxSize: 2 * bs64, slname: fmt.Sprint("fixed", sc.slices)}
		s.signed = structuredContent(r, sc.size)
		s.written = append([]byte(nil), s.signed...)
		switch sc.dmg {
		case "last":
			s.written[sc.size-1] ^= 0x55
			s.dmg = fmt.Sprintf("flip@%d", sc.size-1)
		case "cut":
			s.written = s.written[:sc.size-10]
			s.dmg = fmt.Sprintf("trunc%d", sc.size-10)
		case "first":
			s.written[5] ^= 0x55
			s.dmg = "flip@5"
		default:
			s.dmg = "same"
		}
		for rem := len(s.written); rem > 0; rem -= sc.slices {
			s.sizes = append(s.sizes, min(rem, sc.slices))
		}
		s.other = structuredContent(r, 10)
		s.fileIndex = int64((mode + route) % 2)
		return s
	}
	var out []*c18Spec
	for _, sc := range []scen{
		{100, "last", 1 << 20},
		{bs64 + 1000, "last", 1 << 20},
		{2*bs64 + 1, "cut", 50000},
		{2*bs64 + 1, "same", 1 << 20},
		{2 * bs64, "last", 1 << 20},
		{bs64 + 1000, "first", 16383},
	} {
		for _, route := range []int{c18RouteEntry, c18RouteTransposeWT, c18RouteTransposeRD} {
			out = append(out, mk(sc, 0, route))
		}
	}
	for _, mode := range []int{1, 2} {
		for _, route := range []int{c18RouteTransposeWT, c18RouteTransposeRD} {
			out = append(out, mk(scen{bs64 + 1000, "last", 1 << 20}, mode, route))
		}
	}
	// a file that lost its first block: every written block equals the signed block of the NEXT position
	// (known finding C18-close-after-reject on the routes that close the writer after the failed Write)
	for _, route := range []int{c18RouteWriter, c18RouteEntry, c18RouteTransposeWT, c18RouteTransposeRD} {
		s := mk(scen{2*bs64 + 77, "same", 40000}, 0, route)
		s.written, s.dmg, s.sizes = s.signed[bs64:], "shift:drop0", []int{40000, 25613}
		s.closeAfterFail = route == c18RouteEntry
		out = append(out, s)
	}
	return out
}

// c18BowlStream: random cases through the pool bowl (and, for comparison, the bare writer); error
// mode has half of the weight, a third of the damages sit in the trailing block only
func c18BowlStream(c *Ctx) error {
	r := c.Rng.Fork()
	for i, n := 0, c.N(60, 600); i < n; i++ {
		size := c18Sizes[r.Intn(len(c18Sizes))]
		if r.Chance(1, 3) {
			size = r.Range(0, 3*bs64)
		}
		s := &c18Spec{model: true, prefix: "vp-bowl", content: "structured"}
		switch r.Intn(4) {
		case 0:
			s.content = "randomish"
			s.signed = randomishContent(r, size)
		case 1: // oracle only, as in the vp-rand stream
			s.model, s.content = false, "random"
			s.signed = r.Bytes(size)
		default:
			s.signed = structuredContent(r, size)
		}
		if w, tag, ok := blockShiftDamage(r, s.signed); ok && r.Chance(1, 6) {
			s.written, s.dmg = w, tag
		} else if r.Chance(1, 3) {
			s.written, s.dmg = tailDamage(r, s.signed)
			s.dmg = "tail:" + s.dmg
		} else {
			s.written, s.dmg, s.edits = damageContent(r, s.signed, !s.model)
		}
		s.sizes, s.slname = slicing(r, len(s.written))
		s.mode = []int{0, 0, 1, 2}[r.Intn(4)]
		s.route = []int{c18RouteEntry, c18RouteTransposeWT, c18RouteTransposeRD, c18RouteTransposeRD, c18RouteTransposeWT, c18RouteWriter}[r.Intn(6)]
		s.maxSize = int64([]int{bs64, 2 * bs64, 3*bs64 - 1, 4 << 20}[r.Intn(4)])
		if s.model {
			s.other = structuredContent(r, []int{0, 10, bs64 + 3}[r.Intn(3)])
		} else {
			s.other = r.Bytes([]int{0, 10, bs64 + 3}[r.Intn(3)])
		}
		s.fileIndex = int64(r.Intn(2))
		s.closeAfterFail = r.Chance(1, 2)
		if err := c18RunVP(c, s); err != nil {
			return err
		}
	}
	return nil
}

// c18FindingCloseAfterReject: id of a known finding of the unchanged tree.  drip.Writer.Write leaves the
// rejected block in its (full) buffer and the validate closure of ValidatingPool.GetWriter has already
// moved on to the next block index, so a Close that follows the failed Write validates the rejected
// block j against signed block j+1 - and relays it to the underlying pool when the two are equal (a
// file that lost or exchanged whole blocks).  poolBowl.Transpose closes the writer after a failed copy
// (it still returns the copy error).  Matches only: error mode, a Close after the failed Write (done
// by Transpose, or by the caller in the cases marked closeAfterFail), the first differing block j is
// a full block equal to signed block j+1, the failure WAS reported, and the underlying pool received
// exactly the blocks before j plus block j.
const c18FindingCloseAfterReject = "C18-close-after-reject"

func c18MatchCloseAfterReject(s *c18Spec, outcome string, bad int, innerBytes []byte) bool {
	closes := s.route == c18RouteTransposeWT || s.route == c18RouteTransposeRD || s.closeAfterFail
	if s.mode != 0 || !closes || outcome != "Failed" || bad < 0 || (bad+1)*bs64 > len(s.written) {
		return false
	}
	sb := blocksOf(s.signed, bs64)
	if bad+1 >= len(sb) || !bytes.Equal(sb[bad+1], s.written[bad*bs64:(bad+1)*bs64]) {
		return false
	}
	return bytes.Equal(innerBytes, s.written[:(bad+1)*bs64])
}

func c18Class(s *c18Spec) string {
	cl := fmt.Sprintf("%s/mode%d/%s", s.prefix, s.mode, strings.SplitN(s.dmg, "@", 2)[0])
	if s.route != c18RouteWriter || strings.HasPrefix(s.prefix, "vp-bowl") {
		cl = fmt.Sprintf("%s/%s/mode%d/%s", s.prefix, c18RouteNames[s.route], s.mode, strings.SplitN(s.dmg, "@", 2)[0])
	}
	return cl
}
