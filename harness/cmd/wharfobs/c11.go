package main

// C11 — rsync operations always reconstruct the source and stay within the old files.
//
// Implementation under test: wsync.Context{CreateSignature, ComputeDiff, ApplySingle} and
// wsync.NewBlockLibrary at an arbitrary block size (wsync.NewContext(bs)).
//
// Groups (evaluated by coq/theories/Exec/C11.v):
//   "ops"   : small cases, exact op list (kind, file, index, span, data bytes) vs the model
//   "apply" : arbitrary (also out-of-range) op lists replayed by ApplySingle vs the model's replay
//   "big"   : real constants (64 KiB blocks, 4 MiB data ops), run-length encoded inputs, exact op list
// Oracle-only lines: "enum/..." summaries of exhaustively enumerated blocks (every enumerated case
// goes through the oracle; a deterministic sample of them is also emitted in group "ops"), the
// high-entropy real-constant cases (flavour "rand") and the low-entropy real-constant cases
// (flavour "low": runs of one byte value across the MaxDataOp cut / the buffer wrap / the trailing
// data, constant, periodic and small-alphabet sources; both tiers) and the end-of-source cases
// (classes real/end@*: the source ends MaxDataOp-1 .. MaxDataOp+2 blocks after the start, a matched
// block, a MaxDataOp cut or a buffer wrap, so that the split of the trailing data runs with pending
// data at any buffer offset; both tiers).
//
// Oracle (independent of the model), on the operations the implementation emitted:
//   own replay == source and ApplySingle replay == source; every block range names an existing
//   old file, span >= 1, index+span <= ceil(len(old)/bs); no two adjacent ranges of the same file
//   with index1+span1 == index2; no data op longer than wsync.MaxDataOp; an empty data op only
//   at position 0.

import (
	"bytes"
	"context"
	"fmt"
	"strings"
	"sync"
	"time"

	"github.com/itchio/wharf/wsync"

	"verif/harness/lib"
)

func init() { register("C11", runC11) }

type c11Op struct {
	Range             bool
	File, Index, Span int64
	Data              []byte
}

type c11Input struct {
	bs   int
	olds [][]byte
	src  []byte
	pref int64
}

// c11Sign computes the signature of one old file with the implementation.
func c11Sign(ctx *wsync.Context, idx int64, data []byte) ([]wsync.BlockHash, error) {
	var out []wsync.BlockHash
	err := ctx.CreateSignature(context.Background(), idx, bytes.NewReader(data), func(h wsync.BlockHash) error {
		out = append(out, h)
		return nil
	})
	return out, err
}

func c11SignAll(ctx *wsync.Context, olds [][]byte) ([]wsync.BlockHash, error) {
	var sig []wsync.BlockHash
	for i, o := range olds {
		s, err := c11Sign(ctx, int64(i), o)
		if err != nil {
			return nil, err
		}
		sig = append(sig, s...)
	}
	return sig, nil
}

// c11Diff runs ComputeDiff and copies the operations out.
func c11Diff(ctx *wsync.Context, library *wsync.BlockLibrary, src []byte, pref int64) (ops []c11Op, class, msg string) {
	class, msg = lib.Guard(func() error {
		return ctx.ComputeDiff(bytes.NewReader(src), library, func(op wsync.Operation) error {
			switch op.Type {
			case wsync.OpBlockRange:
				ops = append(ops, c11Op{Range: true, File: op.FileIndex, Index: op.BlockIndex, Span: op.BlockSpan})
			case wsync.OpData:
				ops = append(ops, c11Op{Data: append([]byte{}, op.Data...)})
			default:
				return fmt.Errorf("operation of unknown type %d", op.Type)
			}
			return nil
		}, pref)
	})
	return
}

// c11Apply replays ops with the implementation's ApplySingle.
func c11Apply(ctx *wsync.Context, pool *lib.MemPool, ops []c11Op) (out []byte, class, msg string) {
	var buf bytes.Buffer
	class, msg = lib.Guard(func() error {
		for _, o := range ops {
			op := wsync.Operation{Type: wsync.OpData, Data: o.Data}
			if o.Range {
				op = wsync.Operation{Type: wsync.OpBlockRange, FileIndex: o.File, BlockIndex: o.Index, BlockSpan: o.Span}
			}
			if err := ctx.ApplySingle(&buf, pool, op); err != nil {
				return err
			}
		}
		return nil
	})
	return buf.Bytes(), class, msg
}

func c11NumBlocks(n, bs int) int64 { return int64((n + bs - 1) / bs) }

// c11Oracle states the property on the emitted operations. applied == nil means "not replayed
// through ApplySingle" (only for the callers that say so).
func c11Oracle(in *c11Input, ops []c11Op, diffClass, diffMsg string, applied []byte, applyClass, applyMsg string) string {
	if diffClass != "ok" {
		return "ComputeDiff " + diffClass + ": " + diffMsg
	}
	bs := int64(in.bs)
	var out []byte
	for k, o := range ops {
		if o.Range {
			if o.File < 0 || o.File >= int64(len(in.olds)) {
				return fmt.Sprintf("op %d: block range names old file %d of %d", k, o.File, len(in.olds))
			}
			old := in.olds[o.File]
			nb := c11NumBlocks(len(old), in.bs)
			if o.Span < 1 || o.Index < 0 || o.Index+o.Span > nb {
				return fmt.Sprintf("op %d: block range index %d span %d outside the %d blocks of old file %d", k, o.Index, o.Span, nb, o.File)
			}
			if k > 0 && ops[k-1].Range && ops[k-1].File == o.File && ops[k-1].Index+ops[k-1].Span == o.Index {
				return fmt.Sprintf("ops %d,%d: consecutive ranges of file %d (%d+%d, %d+%d) were not merged", k-1, k, o.File, ops[k-1].Index, ops[k-1].Span, o.Index, o.Span)
			}
			lo, hi := o.Index*bs, (o.Index+o.Span)*bs
			if hi > int64(len(old)) {
				hi = int64(len(old))
			}
			out = append(out, old[lo:hi]...)
		} else {
			if len(o.Data) > wsync.MaxDataOp {
				return fmt.Sprintf("op %d: data operation of %d bytes exceeds the %d byte limit", k, len(o.Data), wsync.MaxDataOp)
			}
			if len(o.Data) == 0 && k != 0 {
				return fmt.Sprintf("op %d: empty data operation that is not the leading one", k)
			}
			out = append(out, o.Data...)
		}
	}
	if !bytes.Equal(out, in.src) {
		return fmt.Sprintf("replaying the operations yields %d bytes that differ from the %d byte source (first difference at %d)", len(out), len(in.src), c11FirstDiff(out, in.src))
	}
	if applyClass != "" {
		if applyClass != "ok" {
			return "ApplySingle " + applyClass + ": " + applyMsg
		}
		if !bytes.Equal(applied, in.src) {
			return fmt.Sprintf("ApplySingle wrote %d bytes that differ from the %d byte source (first difference at %d)", len(applied), len(in.src), c11FirstDiff(applied, in.src))
		}
	}
	return ""
}

func c11FirstDiff(a, b []byte) int {
	n := len(a)
	if len(b) < n {
		n = len(b)
	}
	for i := 0; i < n; i++ {
		if a[i] != b[i] {
			return i
		}
	}
	return n
}

// ---------- printers ----------

func c11OpsCoq(ops []c11Op) string {
	s := make([]string, len(ops))
	for i, o := range ops {
		if o.Range {
			s[i] = fmt.Sprintf("XR %d %d %d", o.File, o.Index, o.Span)
		} else {
			s[i] = "XD " + lib.CoqBytes(o.Data)
		}
	}
	return "([" + strings.Join(s, "; ") + "]%N)"
}

func c11PrefCoq(p int64) string {
	if p < 0 {
		return "None"
	}
	return fmt.Sprintf("(Some %d%%N)", p)
}

func c11BytesL(bs [][]byte) string {
	s := make([]string, len(bs))
	for i, b := range bs {
		s[i] = lib.CoqBytes(b)
	}
	return lib.CoqList(s)
}

type c11OpJ struct {
	Kind  string `json:"k"`
	File  int64  `json:"f,omitempty"`
	Index int64  `json:"i,omitempty"`
	Span  int64  `json:"n,omitempty"`
	Data  []int  `json:"d,omitempty"`
	Len   int    `json:"len,omitempty"`
}

func c11OpsJ(ops []c11Op, full bool) []c11OpJ {
	out := make([]c11OpJ, len(ops))
	for i, o := range ops {
		if o.Range {
			out[i] = c11OpJ{Kind: "range", File: o.File, Index: o.Index, Span: o.Span}
		} else if full {
			out[i] = c11OpJ{Kind: "data", Data: lib.Ints(o.Data), Len: len(o.Data)}
		} else {
			out[i] = c11OpJ{Kind: "data", Len: len(o.Data)}
		}
	}
	return out
}

// non-trivial: both op kinds and at least one merged range
func c11Nontrivial(ops []c11Op) bool {
	var r, d, m bool
	for _, o := range ops {
		if o.Range {
			r = true
			if o.Span >= 2 {
				m = true
			}
		} else if len(o.Data) > 0 {
			d = true
		}
	}
	return r && d && m
}

func c11SmallCase(in *c11Input, ops []c11Op, oracle, class string) *lib.Case {
	return &lib.Case{Group: "ops", Class: class, Nontrivial: c11Nontrivial(ops),
		Input:  map[string]interface{}{"bs": in.bs, "olds": lib.IntsL(in.olds), "src": lib.Ints(in.src), "pref": in.pref},
		Obs:    map[string]interface{}{"ops": c11OpsJ(ops, true)},
		Oracle: oracle,
		Coq:    fmt.Sprintf("($ID%%N, %d%%N, %s, %s, %s, %s)", in.bs, c11BytesL(in.olds), lib.CoqBytes(in.src), c11PrefCoq(in.pref), c11OpsCoq(ops))}
}

// runSmall runs one small case completely (signature, diff, replay, oracle).
func c11RunSmall(ctx *wsync.Context, in *c11Input) ([]c11Op, string, error) {
	sig, err := c11SignAll(ctx, in.olds)
	if err != nil {
		return nil, "", err
	}
	library := wsync.NewBlockLibrary(sig)
	ops, dc, dm := c11Diff(ctx, library, in.src, in.pref)
	var applied []byte
	ac, am := "", ""
	if dc == "ok" {
		applied, ac, am = c11Apply(ctx, lib.NewMemPool(in.olds), ops)
	}
	return ops, c11Oracle(in, ops, dc, dm, applied, ac, am), nil
}

// ---------- (a) exhaustive enumeration ----------

// all strings over {0..alpha-1} of length 0..maxLen, by length then lexicographically
func c11AllStrings(alpha, maxLen int) [][]byte {
	out := [][]byte{{}}
	prev := [][]byte{{}}
	for l := 1; l <= maxLen; l++ {
		var cur [][]byte
		for _, p := range prev {
			for a := 0; a < alpha; a++ {
				cur = append(cur, append(append([]byte{}, p...), byte(a)))
			}
		}
		out = append(out, cur...)
		prev = cur
	}
	return out
}

type c11Block struct {
	name                string
	bss                 []int
	alpha               int
	nOlds, maxOld       int
	maxSrc              int
	sampleTarget        int // about this many cases of the block are also sent to the model
	sampleOnly          int // > 0: do not enumerate, draw this many random members instead
	enumerated, sampled int
}

type c11Unit struct {
	count    int
	failures []*lib.Case
	samples  []*lib.Case
}

func c11Mix(a ...uint64) uint64 {
	h := uint64(0x9E3779B97F4A7C15)
	for _, x := range a {
		h ^= x + 0x9E3779B97F4A7C15 + (h << 6) + (h >> 2)
		h *= 0xBF58476D1CE4E5B9
		h ^= h >> 29
	}
	return h
}

const c11Workers = 4

// enumerate one block: every tuple of old files, every source, every preferred index, every bs.
func c11Enumerate(c *Ctx, b *c11Block, blockID int) error {
	files := c11AllStrings(b.alpha, b.maxOld)
	srcs := c11AllStrings(b.alpha, b.maxSrc)
	nf := len(files)
	tuples := 1
	for i := 0; i < b.nOlds; i++ {
		tuples *= nf
	}
	total := uint64(tuples) * uint64(len(srcs)) * uint64(b.nOlds+1) * uint64(len(b.bss))
	rate := uint64(1)
	if b.sampleTarget > 0 && total > uint64(b.sampleTarget) {
		rate = total / uint64(b.sampleTarget)
	}
	results := make([]*c11Unit, tuples)
	var wg sync.WaitGroup
	var firstErr error
	var mu sync.Mutex
	next := 0
	for w := 0; w < c11Workers; w++ {
		wg.Add(1)
		go func() {
			defer wg.Done()
			ctxs := map[int]*wsync.Context{}
			for _, bs := range b.bss {
				ctxs[bs] = wsync.NewContext(bs)
			}
			// per-bs signature cache of every candidate old file, for file index 0..nOlds-1
			sigs := map[int][][][]wsync.BlockHash{}
			for _, bs := range b.bss {
				per := make([][][]wsync.BlockHash, b.nOlds)
				for fi := 0; fi < b.nOlds; fi++ {
					per[fi] = make([][]wsync.BlockHash, nf)
					for k, f := range files {
						s, err := c11Sign(ctxs[bs], int64(fi), f)
						if err != nil {
							mu.Lock()
							firstErr = err
							mu.Unlock()
							return
						}
						per[fi][k] = s
					}
				}
				sigs[bs] = per
			}
			for {
				mu.Lock()
				t := next
				next++
				mu.Unlock()
				if t >= tuples {
					return
				}
				u := &c11Unit{}
				idx := make([]int, b.nOlds)
				olds := make([][]byte, b.nOlds)
				for i, x := 0, t; i < b.nOlds; i++ {
					idx[b.nOlds-1-i] = x % nf
					x /= nf
				}
				for i := range olds {
					olds[i] = files[idx[i]]
				}
				pool := lib.NewMemPool(olds)
				for _, bs := range b.bss {
					var sig []wsync.BlockHash
					for i := range olds {
						sig = append(sig, sigs[bs][i][idx[i]]...)
					}
					library := wsync.NewBlockLibrary(sig)
					ctx := ctxs[bs]
					for si, src := range srcs {
						for pref := int64(-1); pref < int64(b.nOlds); pref++ {
							in := &c11Input{bs: bs, olds: olds, src: src, pref: pref}
							ops, dc, dm := c11Diff(ctx, library, src, pref)
							var applied []byte
							ac, am := "", ""
							if dc == "ok" {
								applied, ac, am = c11Apply(ctx, pool, ops)
							}
							oracle := c11Oracle(in, ops, dc, dm, applied, ac, am)
							u.count++
							if oracle != "" {
								if len(u.failures) < 2 {
									u.failures = append(u.failures, c11SmallCase(in, ops, oracle, b.name+"/fail"))
								}
							} else if c11Mix(c.Seed, uint64(blockID), uint64(t), uint64(bs), uint64(si), uint64(pref+1))%rate == 0 {
								u.samples = append(u.samples, c11SmallCase(in, ops, "", fmt.Sprintf("%s/bs%d", b.name, bs)))
							}
						}
					}
				}
				mu.Lock()
				results[t] = u
				mu.Unlock()
			}
		}()
	}
	wg.Wait()
	if firstErr != nil {
		return firstErr
	}
	nfail := 0
	for _, u := range results {
		if u == nil {
			continue
		}
		b.enumerated += u.count
		for _, f := range u.failures {
			if nfail < 5 {
				c.Out.Emit(f)
			}
			nfail++
		}
		for _, s := range u.samples {
			c.Out.Emit(s)
			b.sampled++
		}
	}
	c.Out.Emit(&lib.Case{Class: "enum/" + b.name, Nontrivial: true,
		Input: map[string]interface{}{"block": b.name, "exhaustive": true, "bs": b.bss, "alphabet": b.alpha, "oldFiles": b.nOlds,
			"oldLen": fmt.Sprintf("0..%d", b.maxOld), "srcLen": fmt.Sprintf("0..%d", b.maxSrc), "preferred": fmt.Sprintf("-1..%d", b.nOlds-1)},
		Obs: map[string]interface{}{"enumerated": b.enumerated, "oracleFailures": nfail, "sentToModel": b.sampled}})
	return nil
}

// random members of a block that is too large to enumerate in this tier
func c11SampleBlock(c *Ctx, b *c11Block, r *lib.Rng) error {
	ctxs := map[int]*wsync.Context{}
	for i := 0; i < b.sampleOnly; i++ {
		cr := r.Fork()
		bs := b.bss[cr.Intn(len(b.bss))]
		if ctxs[bs] == nil {
			ctxs[bs] = wsync.NewContext(bs)
		}
		in := &c11Input{bs: bs, pref: int64(cr.Range(-1, b.nOlds-1))}
		for k := 0; k < b.nOlds; k++ {
			in.olds = append(in.olds, c11RandString(cr, b.alpha, cr.Range(0, b.maxOld)))
		}
		in.src = c11RandString(cr, b.alpha, cr.Range(0, b.maxSrc))
		ops, oracle, err := c11RunSmall(ctxs[bs], in)
		if err != nil {
			return err
		}
		c.Out.Emit(c11SmallCase(in, ops, oracle, fmt.Sprintf("%s/sampled/bs%d", b.name, bs)))
	}
	return nil
}

func c11RandString(r *lib.Rng, alpha, n int) []byte {
	b := make([]byte, n)
	for i := range b {
		b[i] = byte(r.Intn(alpha))
	}
	return b
}

func c11Blocks(tier string) []*c11Block {
	if tier == "search" { // after a correspondence break: the quick enumeration at all four block sizes plus larger samples
		return []*c11Block{
			{name: "a2/olds1", bss: []int{1, 2, 3, 4}, alpha: 2, nOlds: 1, maxOld: 5, maxSrc: 8, sampleTarget: 300},
			{name: "a2/olds2/len4", bss: []int{1, 2, 3, 4}, alpha: 2, nOlds: 2, maxOld: 4, maxSrc: 7, sampleTarget: 400},
			{name: "a2/olds3/len7", bss: []int{1, 2, 3, 4}, alpha: 2, nOlds: 3, maxOld: 7, maxSrc: 9, sampleOnly: 3000},
			{name: "a3/olds3/len7", bss: []int{1, 2, 3, 4}, alpha: 3, nOlds: 3, maxOld: 7, maxSrc: 9, sampleOnly: 3000},
		}
	}
	if tier == "quick" {
		return []*c11Block{
			{name: "a2/olds1", bss: []int{1, 2, 3}, alpha: 2, nOlds: 1, maxOld: 5, maxSrc: 7, sampleTarget: 250},
			{name: "a2/olds2/len4", bss: []int{1, 2, 3}, alpha: 2, nOlds: 2, maxOld: 4, maxSrc: 7, sampleTarget: 300},
			{name: "a2/olds2/len5", bss: []int{1, 2, 3}, alpha: 2, nOlds: 2, maxOld: 5, maxSrc: 7, sampleOnly: 150},
			{name: "a2/olds3/len5", bss: []int{1, 2, 3}, alpha: 2, nOlds: 3, maxOld: 5, maxSrc: 7, sampleOnly: 150},
		}
	}
	return []*c11Block{
		{name: "a2/olds1", bss: []int{1, 2, 3, 4}, alpha: 2, nOlds: 1, maxOld: 7, maxSrc: 9, sampleTarget: 1500},
		{name: "a2/olds2/len5", bss: []int{1, 2, 3, 4}, alpha: 2, nOlds: 2, maxOld: 5, maxSrc: 9, sampleTarget: 2000},
		{name: "a2/olds3/len3", bss: []int{1, 2, 3, 4}, alpha: 2, nOlds: 3, maxOld: 3, maxSrc: 8, sampleTarget: 1500},
		{name: "a3/olds1", bss: []int{1, 2, 3, 4}, alpha: 3, nOlds: 1, maxOld: 5, maxSrc: 7, sampleTarget: 1200},
		{name: "a3/olds2/len3", bss: []int{1, 2, 3, 4}, alpha: 3, nOlds: 2, maxOld: 3, maxSrc: 6, sampleTarget: 1200},
		{name: "a2/olds2/len7", bss: []int{1, 2, 3, 4}, alpha: 2, nOlds: 2, maxOld: 7, maxSrc: 9, sampleOnly: 1000},
		{name: "a2/olds3/len7", bss: []int{1, 2, 3, 4}, alpha: 2, nOlds: 3, maxOld: 7, maxSrc: 9, sampleOnly: 1000},
		{name: "a3/olds3/len7", bss: []int{1, 2, 3, 4}, alpha: 3, nOlds: 3, maxOld: 7, maxSrc: 9, sampleOnly: 800},
	}
}

// ---------- (b) random small-alphabet cases, bs <= 16 ----------

func c11RandomSmall(c *Ctx, r *lib.Rng, n int) error {
	ctxs := map[int]*wsync.Context{}
	for i := 0; i < n; i++ {
		cr := r.Fork()
		bs := cr.Range(1, 16)
		if cr.Chance(1, 2) {
			bs = cr.Range(2, 6)
		}
		if ctxs[bs] == nil {
			ctxs[bs] = wsync.NewContext(bs)
		}
		alpha := cr.Range(2, 4)
		nOlds := cr.Range(0, 4)
		in := &c11Input{bs: bs}
		var blocks [][]byte // pool of blocks to repeat
		newBlock := func() []byte {
			switch {
			case len(blocks) > 0 && cr.Chance(1, 3): // repeat an earlier block
				return blocks[cr.Intn(len(blocks))]
			case len(blocks) > 0 && cr.Chance(1, 4) && bs >= 2: // same weak hash, other content: swap-compensated copy
				b := append([]byte{}, blocks[cr.Intn(len(blocks))]...)
				c11Collide(cr, b, alpha)
				return b
			default:
				return c11RandString(cr, alpha, bs)
			}
		}
		for k := 0; k < nOlds; k++ {
			var f []byte
			nb := cr.Range(0, 6)
			for j := 0; j < nb; j++ {
				b := newBlock()
				blocks = append(blocks, b)
				f = append(f, b...)
			}
			// short tail: random or a prefix of some block
			switch cr.Intn(4) {
			case 0:
			case 1:
				f = append(f, c11RandString(cr, alpha, cr.Range(0, bs-1))...)
			default:
				if len(blocks) > 0 && bs > 1 {
					f = append(f, blocks[cr.Intn(len(blocks))][:cr.Range(1, bs-1)]...)
				}
			}
			in.olds = append(in.olds, f)
		}
		// source: pieces
		np := cr.Range(0, 8)
		classes := []string{}
		for j := 0; j < np; j++ {
			switch cr.Intn(7) {
			case 0, 1: // a known block
				if len(blocks) > 0 {
					in.src = append(in.src, blocks[cr.Intn(len(blocks))]...)
				}
			case 2: // a run of consecutive blocks of an old file
				if nOlds > 0 {
					f := in.olds[cr.Intn(nOlds)]
					if nb := len(f) / bs; nb > 0 {
						a := cr.Intn(nb)
						e := cr.Range(a+1, nb)
						in.src = append(in.src, f[a*bs:e*bs]...)
					}
				}
			case 3: // noise
				in.src = append(in.src, c11RandString(cr, alpha, cr.Range(1, 2*bs))...)
			case 4: // a whole old file
				if nOlds > 0 {
					in.src = append(in.src, in.olds[cr.Intn(nOlds)]...)
				}
			case 5: // a single byte (shifts the alignment)
				in.src = append(in.src, byte(cr.Intn(alpha)))
			default: // prefix of a block
				if len(blocks) > 0 && bs > 1 {
					in.src = append(in.src, blocks[cr.Intn(len(blocks))][:cr.Range(1, bs-1)]...)
				}
			}
		}
		// tail of the source: nothing, the tail of an old file, or a prefix of a block
		switch cr.Intn(4) {
		case 0:
			if nOlds > 0 {
				f := in.olds[cr.Intn(nOlds)]
				in.src = append(in.src, f[(len(f)/bs)*bs:]...)
				classes = append(classes, "oldtail")
			}
		case 1:
			if len(blocks) > 0 && bs > 1 {
				in.src = append(in.src, blocks[cr.Intn(len(blocks))][:cr.Range(1, bs-1)]...)
				classes = append(classes, "prefixtail")
			}
		}
		in.pref = int64(cr.Range(-1, nOlds)) // nOlds itself: an index no old file has
		ops, oracle, err := c11RunSmall(ctxs[bs], in)
		if err != nil {
			return err
		}
		cls := "random"
		switch {
		case bs <= 4:
			cls += "/bs1-4"
		case bs <= 8:
			cls += "/bs5-8"
		default:
			cls += "/bs9-16"
		}
		c.Out.Emit(c11SmallCase(in, ops, oracle, cls+fmt.Sprintf("/a%d", alpha)))
	}
	return nil
}

// c11Collide rewrites b in place into different content with the same weak hash when it can:
// +1 at i, -2 at i+1, +1 at i+2 leaves both sums unchanged; so does moving a unit across a
// symmetric pair (+1 at i, -1 at i+1, -1 at j, +1 at j+1).
func c11Collide(r *lib.Rng, b []byte, alpha int) {
	n := len(b)
	for try := 0; try < 8; try++ {
		if n >= 3 {
			i := r.Intn(n - 2)
			if int(b[i])+1 < alpha && b[i+1] >= 2 && int(b[i+2])+1 < alpha {
				b[i]++
				b[i+1] -= 2
				b[i+2]++
				return
			}
			if b[i] >= 1 && int(b[i+1])+2 < alpha && b[i+2] >= 1 {
				b[i]--
				b[i+1] += 2
				b[i+2]--
				return
			}
		}
		if n >= 4 {
			i := r.Intn(n - 3)
			j := r.Range(i+2, n-2)
			if int(b[i])+1 < alpha && b[i+1] >= 1 && b[j] >= 1 && int(b[j+1])+1 < alpha {
				b[i]++
				b[i+1]--
				b[j]--
				b[j+1]++
				return
			}
		}
	}
}

// ---------- "apply" group: ApplySingle on arbitrary op lists ----------

func c11ApplyGroup(c *Ctx, r *lib.Rng, n int) error {
	for i := 0; i < n; i++ {
		cr := r.Fork()
		bs := cr.Range(1, 6)
		ctx := wsync.NewContext(bs)
		nOlds := cr.Range(1, 3)
		var olds [][]byte
		for k := 0; k < nOlds; k++ {
			olds = append(olds, c11RandString(cr, 4, cr.Range(0, 4*bs+1)))
		}
		var ops []c11Op
		nops := cr.Range(0, 6)
		for k := 0; k < nops; k++ {
			if cr.Chance(1, 3) {
				ops = append(ops, c11Op{Data: c11RandString(cr, 4, cr.Range(0, 5))})
				continue
			}
			f := cr.Intn(nOlds)
			nb := int(c11NumBlocks(len(olds[f]), bs))
			idx := cr.Range(0, nb+1)
			span := cr.Range(0, 3)
			if cr.Chance(2, 3) && nb > 0 { // in bounds
				idx = cr.Intn(nb)
				span = cr.Range(1, nb-idx)
			}
			ops = append(ops, c11Op{Range: true, File: int64(f), Index: int64(idx), Span: int64(span)})
		}
		out, cls, msg := c11Apply(ctx, lib.NewMemPool(olds), ops)
		// oracle: for in-bounds ranges the output is the addressed bytes; other ranges are not
		// covered by the property (the differ never emits them): only "no panic" is demanded.
		oracle := ""
		if cls == "panic" {
			oracle = "ApplySingle panic: " + msg
		} else if cls == "ok" {
			inb := true
			var want []byte
			for _, o := range ops {
				if !o.Range {
					want = append(want, o.Data...)
					continue
				}
				nb := c11NumBlocks(len(olds[o.File]), bs)
				if o.Span < 1 || o.Index+o.Span > nb {
					inb = false
					break
				}
				lo, hi := int(o.Index)*bs, int(o.Index+o.Span)*bs
				if hi > len(olds[o.File]) {
					hi = len(olds[o.File])
				}
				want = append(want, olds[o.File][lo:hi]...)
			}
			if inb && !bytes.Equal(want, out) {
				oracle = fmt.Sprintf("ApplySingle wrote %v, the addressed blocks are %v", out, want)
			}
		}
		obsOut := "Some " + lib.CoqBytes(out)
		if cls != "ok" {
			obsOut = "None"
		}
		c.Out.Emit(&lib.Case{Group: "apply", Class: "apply/" + cls, Nontrivial: len(ops) >= 2,
			Input:  map[string]interface{}{"bs": bs, "olds": lib.IntsL(olds), "ops": c11OpsJ(ops, true)},
			Obs:    map[string]interface{}{"class": cls, "out": lib.Ints(out)},
			Oracle: oracle,
			Coq:    fmt.Sprintf("($ID%%N, %d%%N, %s, %s, (%s))", bs, c11BytesL(olds), c11OpsCoq(ops), obsOut)})
	}
	return nil
}

// ---------- (c) real constants ----------

const c11BS = 65536

type c11Seg struct {
	Kind string `json:"kind"` // "fresh" | "match" | "oldtail"; flavour "low" also: "noise" | "const" | "sticky" | "period"
	N    int    `json:"n"`    // fresh, noise, const, sticky, period: bytes; match: number of blocks
	File int    `json:"file,omitempty"`
	At   int    `json:"at,omitempty"` // first block
	// flavour "low" only
	Val    int `json:"val,omitempty"`    // const: the byte value; sticky, period: smallest letter
	Alpha  int `json:"alpha,omitempty"`  // sticky, period: number of letters
	Stick  int `json:"stick,omitempty"`  // sticky: the previous byte is repeated with probability Stick/8
	Period int `json:"period,omitempty"` // period: length of the repeated pattern
}

// c11Aim asks for a run of one byte value laid over the built source at a position the
// implementation itself reveals on a probe run of the source without that run (see c11AimOverlay).
type c11Aim struct {
	Anchor string // "mark" | "wrap" | "tail" | "start"
	Which  int    // which one of the anchors of that kind (modulo their number)
	Rel    int    // first byte of the run relative to the anchor
	N      int    // length of the run (< 0: up to the end of the source)
	Val    int
	// Then != nil: no run is written; the source is CUT at anchor+Rel and these segments are
	// appended, so that the source ends a chosen distance after the anchor (see c11EndCases).
	Then []c11Seg
}

// c11Overlay is the run actually written: bytes [At, At+N) of the source are Val.
type c11Overlay struct {
	Anchor   string `json:"anchor"`   // what the run was aimed at
	AnchorAt int    `json:"anchorAt"` // source offset of that anchor
	At       int    `json:"at"`
	N        int    `json:"n"`
	Val      int    `json:"val"`
}

// c11Cut is the cut actually made: the source built from the segments is cut to its first At
// bytes and the segments Then are appended.
type c11Cut struct {
	Anchor   string   `json:"anchor"`
	AnchorAt int      `json:"anchorAt"`
	At       int      `json:"at"`
	Then     []c11Seg `json:"then"`
}

type c11Big struct {
	BS      int // block size (0: 64 KiB)
	Name    string
	Flavour string // "rand" (high entropy, oracle only) | "rle" (structured, also evaluated by the model) | "low" (low entropy, oracle only)
	OldBlk  []int  // per old file: number of full blocks
	OldTail []int  // per old file: short tail length
	Segs    []c11Seg
	Pref    int64
	// flavour "low" only
	OldConst [][3]int // {file, block, value}: that block of that old file is filled with the value
	Aim      *c11Aim
	Overlay  *c11Overlay // set by c11AimOverlay
	Cut      *c11Cut     // set by c11AimOverlay
}

// structured block: first byte a, fill f, last byte z (all different from each other), so that
// the run-length encoding stays short and no shifted window equals a block by accident.
func c11StructBlock(r *lib.Rng, n int) []byte {
	b := make([]byte, n)
	f := byte(r.Intn(190))
	a, z := f+1+byte(r.Intn(20)), f+21+byte(r.Intn(20))
	for i := range b {
		b[i] = f
	}
	if n > 0 {
		b[n-1] = z
		b[0] = a
	}
	return b
}

func c11FreshStruct(r *lib.Rng, n int) []byte {
	// runs of 1..3 blocks worth of a fill value with a marker byte now and then; values >= 240
	// never occur in old blocks, so no window of it can equal an old block
	b := make([]byte, n)
	for i := 0; i < n; {
		l := r.Range(1000, 3*c11BS)
		v := byte(240 + r.Intn(16))
		for j := 0; j < l && i < n; j++ {
			b[i] = v
			i++
		}
	}
	return b
}

func (bc *c11Big) build(r *lib.Rng) (olds [][]byte, src []byte) {
	if bc.Flavour == "low" {
		return bc.buildLow(r)
	}
	if bc.BS != 0 {
		return bc.buildSmallBS(r)
	}
	for k := range bc.OldBlk {
		var f []byte
		for j := 0; j < bc.OldBlk[k]; j++ {
			if bc.Flavour == "rle" {
				f = append(f, c11StructBlock(r, c11BS)...)
			} else {
				f = append(f, r.Bytes(c11BS)...)
			}
		}
		if bc.OldTail[k] > 0 {
			if bc.Flavour == "rle" {
				f = append(f, c11StructBlock(r, bc.OldTail[k])...)
			} else {
				f = append(f, r.Bytes(bc.OldTail[k])...)
			}
		}
		olds = append(olds, f)
	}
	for _, s := range bc.Segs {
		switch s.Kind {
		case "fresh":
			if bc.Flavour == "rle" {
				src = append(src, c11FreshStruct(r, s.N)...)
			} else {
				src = append(src, r.Bytes(s.N)...)
			}
		case "match":
			src = append(src, olds[s.File][s.At*c11BS:(s.At+s.N)*c11BS]...)
		case "oldtail":
			src = append(src, olds[s.File][bc.OldBlk[s.File]*c11BS:]...)
		}
	}
	return
}

// small block sizes with sources around the internal buffer size 2*bs + MaxDataOp: OldBlk[0] is
// the length of the single old file (a few bytes of a 256-letter alphabet, so that some
// positions of the random source match and most do not), Segs[0].N the source length
func (bc *c11Big) buildSmallBS(r *lib.Rng) (olds [][]byte, src []byte) {
	if bc.Flavour == "rle" {
		// old file: distinct small values; source: long runs of values >= 240 with a few copies of
		// old blocks (and of the old tail) dropped in
		if len(bc.OldBlk) > 0 {
			o := make([]byte, bc.OldBlk[0])
			for i := range o {
				o[i] = byte(3 + 2*(i%100))
			}
			olds = append(olds, o)
		}
		n := bc.Segs[0].N
		src = make([]byte, n)
		for i := 0; i < n; {
			l := []int{1, 2, bc.BS, 1000, 100000, r.Range(1, 300000)}[r.Intn(6)]
			v := byte(240 + r.Intn(16))
			for j := 0; j < l && i < n; j++ {
				src[i] = v
				i++
			}
		}
		if len(olds) > 0 && len(olds[0]) >= bc.BS {
			for k := 0; k < 25; k++ {
				at := r.Intn(n + 1)
				b := r.Intn(len(olds[0])/bc.BS) * bc.BS
				e := b + bc.BS*r.Range(1, 2)
				if e > len(olds[0]) || r.Chance(1, 5) {
					e = len(olds[0])
				}
				copy(src[min(at, n):], olds[0][b:e])
			}
			if r.Bool() { // the source ends with the last blocks of the old file
				t := olds[0][(len(olds[0])-1)/bc.BS*bc.BS:]
				copy(src[n-min(n, len(t)):], t)
			}
		}
		return
	}
	if len(bc.OldBlk) > 0 {
		olds = append(olds, r.Bytes(bc.OldBlk[0]))
	}
	src = r.Bytes(bc.Segs[0].N)
	if len(olds) > 0 && len(olds[0]) >= bc.BS {
		// sprinkle copies of old blocks over the source
		for k := 0; k < 2000; k++ {
			at := r.Intn(len(src) + 1)
			b := r.Intn(len(olds[0])/bc.BS) * bc.BS
			copy(src[min(at, len(src)):], olds[0][b:b+bc.BS])
		}
	}
	return
}

// ---------- (c') low-entropy sources at the real constants (flavour "low", oracle only) ----------
//
// The weak hash of the window does not change from one byte to the next inside a run of one byte
// value longer than a block (and, at small block sizes, in many windows of a small alphabet): the
// differ then takes its "same hash as one byte back" path.  High-entropy sources never take it, and
// the small enumerated cases never combine it with the MaxDataOp flush, the buffer wrap and the
// split of the trailing data.  These cases do: runs laid across the positions where the
// implementation has to cut the pending data, constant / periodic / small-alphabet sources longer
// than the buffer, with and without a library, with and without the run being an old block.

func (bc *c11Big) blockSize() int {
	if bc.BS != 0 {
		return bc.BS
	}
	return c11BS
}

// n random letters lo..lo+cnt-1
func c11Letters(r *lib.Rng, n, lo, cnt int) []byte {
	b := r.Bytes(n)
	for i := range b {
		b[i] = byte(lo + int(b[i])%cnt)
	}
	return b
}

// c11NoiseLetters: the source's noise uses the letters 0..199, the noise blocks of the old files
// the letters 200..255, so that at no block size a window of noise equals an old block by accident
// (the positions where the pending data reaches MaxDataOp are then the ones the probe run showed).
const c11NoiseLetters = 200

func (bc *c11Big) buildLow(r *lib.Rng) (olds [][]byte, src []byte) {
	bs := bc.blockSize()
	for k := range bc.OldBlk {
		olds = append(olds, c11Letters(r, bc.OldBlk[k]*bs+bc.OldTail[k], c11NoiseLetters, 256-c11NoiseLetters))
	}
	for _, cb := range bc.OldConst {
		f := olds[cb[0]]
		for i := cb[1] * bs; i < (cb[1]+1)*bs && i < len(f); i++ {
			f[i] = byte(cb[2])
		}
	}
	return olds, bc.appendLow(r, olds, nil, bc.Segs)
}

// appendLow appends the segments to src (flavour "low").
func (bc *c11Big) appendLow(r *lib.Rng, olds [][]byte, src []byte, segs []c11Seg) []byte {
	bs := bc.blockSize()
	type run struct{ from, to, val int }
	var runs []run
	for _, s := range segs {
		var piece []byte
		switch s.Kind {
		case "noise", "fresh":
			piece = c11Letters(r, s.N, 0, c11NoiseLetters)
		case "const":
			piece = bytes.Repeat([]byte{byte(s.Val)}, s.N)
			runs = append(runs, run{len(src), len(src) + s.N, s.Val})
		case "sticky": // small alphabet, the previous letter is repeated with probability Stick/8
			piece = make([]byte, s.N)
			raw := r.Bytes(s.N)
			prev := byte(s.Val + r.Intn(s.Alpha))
			for i := range piece {
				if int(raw[i]&7) >= s.Stick {
					prev = byte(s.Val + int(raw[i]>>3)%s.Alpha)
				}
				piece[i] = prev
			}
		case "period":
			pat := c11Letters(r, s.Period, s.Val, s.Alpha)
			piece = make([]byte, s.N)
			for i := range piece {
				piece[i] = pat[i%s.Period]
			}
		case "match":
			piece = olds[s.File][s.At*bs : (s.At+s.N)*bs]
		case "oldtail":
			piece = olds[s.File][bc.OldBlk[s.File]*bs:]
		}
		src = append(src, piece...)
	}
	for _, u := range runs { // a run is exactly as long as stated
		c11IsolateRun(src, u.from, u.to, u.val)
	}
	return src
}

// the noise letters next to the run [from, to) of val are made different from val
func c11IsolateRun(src []byte, from, to, val int) {
	other := byte((val + 1) % c11NoiseLetters)
	if from > 0 && from <= len(src) && int(src[from-1]) == val && val < c11NoiseLetters {
		src[from-1] = other
	}
	if to >= 0 && to < len(src) && int(src[to]) == val && val < c11NoiseLetters {
		src[to] = other
	}
}

// c11AimOverlay lays the run bc.Aim over src.  The anchors are read off a probe run of the
// implementation on the source without the run: "mark" = end of a data operation of MaxDataOp (or
// more) bytes, "wrap" = end of a shorter data operation that is directly followed by another data
// operation (the flush before the buffer is wrapped), "tail" = start of the last operation when it
// is a data operation, "start" = offset 0.  A missing kind falls back to the next one.  The probe
// only aims the generator: whatever it returns, the case that is then run and judged is an
// ordinary input.  With Aim.Then the source is cut at the aimed position and the segments Then are
// appended instead (drawn from r).  Returns the source and false when the probe itself did not come
// back (the caller drops ctx).
func c11AimOverlay(ctx *wsync.Context, bc *c11Big, olds [][]byte, src []byte, r *lib.Rng) ([]byte, bool) {
	a := bc.Aim
	bs := bc.blockSize()
	anch := map[string][]int{"start": {0}}
	alive := true
	if a.Anchor != "start" {
		var ops []c11Op
		cls, _ := lib.WithDeadline(120*time.Second, func() error {
			sig, err := c11SignAll(ctx, olds)
			if err != nil {
				return err
			}
			var dc, dm string
			ops, dc, dm = c11Diff(ctx, wsync.NewBlockLibrary(sig), src, bc.Pref)
			if dc != "ok" {
				return fmt.Errorf("%s: %s", dc, dm)
			}
			return nil
		})
		alive = cls != "hang"
		if cls == "ok" {
			off := 0
			for k, o := range ops {
				if o.Range {
					if o.File < 0 || o.File >= int64(len(olds)) || o.Index < 0 || o.Span < 0 || o.Index+o.Span > c11NumBlocks(len(olds[o.File]), bs)+1 {
						break
					}
					lo, hi := int(o.Index)*bs, int(o.Index+o.Span)*bs
					if hi > len(olds[o.File]) {
						hi = len(olds[o.File])
					}
					if hi > lo {
						off += hi - lo
					}
					continue
				}
				n := len(o.Data)
				switch {
				case n >= wsync.MaxDataOp && off+n < len(src):
					anch["mark"] = append(anch["mark"], off+n)
				case n > 0 && k+1 < len(ops) && !ops[k+1].Range:
					anch["wrap"] = append(anch["wrap"], off+n)
				}
				if k == len(ops)-1 && k > 0 {
					anch["tail"] = append(anch["tail"], off)
				}
				off += n
			}
		}
	}
	kind := a.Anchor
	for _, k := range []string{a.Anchor, "mark", "wrap", "tail", "start"} {
		if len(anch[k]) > 0 {
			kind = k
			break
		}
	}
	at0 := anch[kind][a.Which%len(anch[kind])]
	if a.Then != nil {
		cut := at0 + a.Rel
		if cut < 0 {
			cut = 0
		}
		if cut > len(src) {
			cut = len(src)
		}
		bc.Cut = &c11Cut{Anchor: kind, AnchorAt: at0, At: cut, Then: a.Then}
		return bc.appendLow(r, olds, src[:cut:cut], a.Then), alive
	}
	from, to := at0+a.Rel, at0+a.Rel+a.N
	if a.N < 0 {
		to = len(src)
	}
	if from < 0 {
		from = 0
	}
	if to > len(src) {
		to = len(src)
	}
	if from < to {
		for i := from; i < to; i++ {
			src[i] = byte(a.Val)
		}
		c11IsolateRun(src, from, to, a.Val)
		bc.Overlay = &c11Overlay{Anchor: kind, AnchorAt: at0, At: from, N: to - from, Val: a.Val}
	}
	return src, alive
}

func c11LowCases(r *lib.Rng, tier string) []*c11Big {
	M := wsync.MaxDataOp
	noise := func(n int) c11Seg { return c11Seg{Kind: "noise", N: n} }
	// corpus: fresh data whose 4 MiB mark lies inside a run of one byte value (the pending data
	// was not cut there by a faulty variant: seeded/C11-2), and a constant source that fills the buffer
	out := []*c11Big{
		{Name: "corpus/run-across-4MiB-mark", Flavour: "low", Pref: -1,
			Segs: []c11Seg{noise(M - 1), {Kind: "const", N: c11BS + 1, Val: 170}, noise(c11BS + 3)}},
		{BS: 1024, Name: "corpus/constant-source", Flavour: "low", Pref: -1,
			Segs: []c11Seg{{Kind: "const", N: M + 3*1024 + 5, Val: 1}}},
	}
	nAim, nFree, nLong := 8, 4, 2
	if tier != "quick" {
		nAim, nFree, nLong = 180, 60, 1<<30
	}
	bss := []int{1, 2, 3, 4, 7, 16, 255, 1024, 4096, c11BS}
	pickBS := func() int {
		if r.Chance(1, 3) {
			return c11BS
		}
		return bss[r.Intn(len(bss))]
	}
	// source length: one buffer fill and a bit (one MaxDataOp cut, one wrap), or two of them
	length := func(bs int) int {
		if nLong > 0 && r.Chance(1, 4) {
			nLong--
			return 2*(M+2*bs) + r.Range(0, 3*bs)
		}
		return M + 4*bs + r.Range(0, 2*bs+2)
	}
	for i := 0; i < nAim; i++ {
		bs := pickBS()
		bc := &c11Big{BS: bs, Flavour: "low", Pref: -1}
		val := r.Intn(c11NoiseLetters)
		n := length(bs)
		rels := []int{-bs - 1, -2, -1, -1, 0, 1}
		lens := []int{bs - 1, bs, bs + 1, bs + 2, bs + 2, 2*bs + 1, 3*bs + 7, -1}
		aim := &c11Aim{Anchor: []string{"mark", "mark", "mark", "mark", "wrap", "wrap", "tail", "start"}[r.Intn(8)],
			Which: r.Intn(4), Rel: rels[r.Intn(len(rels))], N: lens[r.Intn(len(lens))], Val: val}
		if aim.N == 0 {
			aim.N = 1
		}
		libKind := "nolib"
		switch r.Intn(6) {
		case 0, 1:
		case 2: // a library that matches nothing
			libKind = "otherlib"
			bc.OldBlk, bc.OldTail, bc.Pref = []int{r.Range(1, 4)}, []int{r.Intn(bs)}, int64(r.Range(-1, 0))
		case 3, 4: // old blocks lead the source: the pending data does not start at offset 0
			libKind = "lead"
			bc.OldBlk, bc.OldTail, bc.Pref = []int{r.Range(1, 4)}, []int{r.Intn(bs)}, int64(r.Range(-1, 0))
			at := r.Intn(bc.OldBlk[0])
			bc.Segs = append(bc.Segs, noise([]int{0, 0, 1, bs - 1, bs, bs + 1}[r.Intn(6)]),
				c11Seg{Kind: "match", N: r.Range(1, bc.OldBlk[0]-at), File: 0, At: at})
		default: // one old block is the run's letter: the run itself is found in the library
			libKind = "runlib"
			bc.OldBlk, bc.OldTail, bc.Pref = []int{r.Range(1, 3)}, []int{r.Intn(bs)}, int64(r.Range(-1, 0))
			bc.OldConst = [][3]int{{0, r.Intn(bc.OldBlk[0]), val}}
			if aim.N < 0 || aim.N > 3*bs+7 {
				aim.N = r.Range(bs, 3*bs+7) // (no run of a million matches of a 1-byte block)
			}
		}
		bc.Segs = append(bc.Segs, noise(n))
		bc.Aim = aim
		bc.Name = fmt.Sprintf("run@%s/bs%d/%s/%d", aim.Anchor, bs, libKind, i)
		out = append(out, bc)
	}
	for i := 0; i < nFree; i++ {
		bs := pickBS()
		bc := &c11Big{BS: bs, Flavour: "low", Pref: -1}
		if r.Chance(1, 3) { // a library that matches nothing (letters 200..255)
			bc.OldBlk, bc.OldTail, bc.Pref = []int{r.Range(1, 3)}, []int{r.Intn(bs)}, int64(r.Range(-1, 0))
		}
		kind := i % 3
		if tier != "quick" {
			kind = r.Intn(3)
		}
		switch kind {
		case 0: // small alphabet with repeats, small blocks: the hash stands still every few bytes
			bs = []int{1, 1, 2, 2, 3, 4, 7, 16}[r.Intn(8)]
			bc.BS = bs
			if bc.OldBlk != nil {
				bc.OldTail = []int{r.Intn(bs)}
			}
			s := c11Seg{Kind: "sticky", N: length(bs), Val: r.Intn(150), Alpha: r.Range(2, 4), Stick: []int{4, 6, 7}[r.Intn(3)]}
			bc.Segs = []c11Seg{s}
			bc.Name = fmt.Sprintf("sticky/bs%d/a%d/%d", bs, s.Alpha, i)
		case 1: // one byte value from start to end, or noise around a long run
			n := length(bs)
			v := r.Intn(c11NoiseLetters)
			switch r.Intn(3) {
			case 0:
				bc.Segs = []c11Seg{{Kind: "const", N: n, Val: v}}
			case 1:
				k := r.Range(0, 2*bs+2)
				bc.Segs = []c11Seg{noise(k), {Kind: "const", N: n - k, Val: v}}
			default:
				k := r.Range(0, 2*bs+2)
				bc.Segs = []c11Seg{{Kind: "const", N: n - k, Val: v}, noise(k)}
			}
			bc.Name = fmt.Sprintf("constant/bs%d/%d", bs, i)
		default: // a short pattern repeated (period dividing the block size or not)
			per := []int{2, 3, bs, bs + 1, bs/2 + 1, 2 * bs}[r.Intn(6)]
			bc.Segs = []c11Seg{{Kind: "period", N: length(bs), Val: r.Intn(150), Alpha: r.Range(2, 4), Period: per}}
			bc.Name = fmt.Sprintf("periodic/bs%d/p%d/%d", bs, per, i)
		}
		out = append(out, bc)
	}
	return out
}

// ---------- (c") the source ENDS a critical distance after a match / a data cut / a buffer wrap ----------
//
// The end of the source is the only place where the differ emits pending data that the regular
// "MaxDataOp reached" flush has not seen: up to about one block more than MaxDataOp, split there
// into several data operations.  How much is pending, and WHERE in the reusable buffer it starts,
// depends on what happened last before the trailing fresh bytes: nothing (offset 0: the pure
// fresh sources of real/nomatch and real/smallbs), a matched block (pending data starts behind
// it: any buffer offset), a MaxDataOp cut, or a buffer wrap (offset 0 again, then matches move it).
// The high-entropy match cases end their sources anywhere; the low-entropy run cases end them a
// few blocks after a buffer fill.  These cases end the source L bytes after such an event, for L
// on and around MaxDataOp, MaxDataOp + one and two blocks and the length that exactly fills the
// buffer, at every phase of the event relative to the block grid:
//
//	end@start : [0 | 1 | 2 | bs/2 | bs-2 | bs-1 | bs | bs+1 | 2bs-1 | 2bs+3 fresh bytes] [0..3 old blocks] [tail of L]
//	end@wrap  : noise of one or two buffer fills, CUT at (where the probe run shows the buffer wrap) + rel,
//	            then [0..3 old blocks] [tail of L]; rel as the fresh lead above, also -1 and -bs-1
//	end@mark  : the same at the end of a data operation of MaxDataOp bytes
//
// Tail: noise (letters 0..199, old files use 200..255: nothing matches by accident), sometimes one
// byte value or a sticky small alphabet (hash-unchanged path up to the end of the source).
// Oracle only (group ""), both tiers.
func c11EndCases(r *lib.Rng, tier string) []*c11Big {
	M := wsync.MaxDataOp
	noise := func(n int) c11Seg { return c11Seg{Kind: "noise", N: n} }
	// corpus: one matched block, then a little more than MaxDataOp of fresh bytes up to the end of the
	// source (seeded/C11-5: the split of the trailing data sliced the buffer as if the pending data
	// started at offset 0); the same behind a fresh lead, at the block size the tools use
	out := []*c11Big{
		{BS: 16384, Name: "corpus/block-then-4MiB+100", Flavour: "low", Pref: -1, OldBlk: []int{1}, OldTail: []int{0},
			Segs: []c11Seg{{Kind: "match", N: 1}, noise(M + 100)}},
		{Name: "corpus/lead-block-then-4MiB+bs-1001", Flavour: "low", Pref: 0, OldBlk: []int{2}, OldTail: []int{777},
			Segs: []c11Seg{noise(1000), {Kind: "match", N: 1, At: 1}, noise(M + c11BS - 1001)}},
	}
	nEnd, nLong := 8, 1
	if tier != "quick" {
		nEnd, nLong = 180, 1<<30
	}
	bss := []int{2, 3, 4, 7, 16, 255, 1024, 4096, 16384, c11BS}
	for i := 0; i < nEnd; i++ {
		bs := bss[r.Intn(len(bss))]
		if r.Chance(1, 3) {
			bs = c11BS
		}
		bc := &c11Big{BS: bs, Flavour: "low", Pref: -1}
		anchor := []string{"start", "wrap", "start", "wrap", "mark", "start", "wrap", "wrap"}[i%8]
		// the library; k matched blocks precede the tail (k = 0: the tail follows the anchor directly)
		k := []int{1, 1, 1, 1, 2, 3, 0}[r.Intn(7)]
		bc.OldBlk, bc.OldTail, bc.Pref = []int{r.Range(max(k, 1), 4)}, []int{r.Intn(bs)}, int64(r.Range(-1, 0))
		rel := []int{0, 0, 0, 1, 2, bs / 2, bs - 2, bs - 1, bs, bs + 1, 2*bs - 1, 2*bs + 3, -1, -bs - 1}[r.Intn(14)]
		if rel < 0 && anchor == "start" {
			rel = 0
		}
		// d: where the tail starts in the buffer when the anchor is buffer offset 0 (start, wrap)
		d := max(rel, 0) + k*bs
		fit := 2*bs + M - d // the tail that exactly fills the buffer
		tails := []int{M - 1, M, M + 1, M + 1, M + 2, M + 1 + r.Intn(bs), M + 1 + r.Intn(bs), M + 1 + r.Intn(bs), M + bs/2, M + bs - 2, M + bs - 1, M + bs, M + bs + 1,
			fit - 1, fit, fit, fit + 1, M + 2*bs - 2, M + 2*bs - 1, M + 2*bs, M + 2*bs + 5, M - bs, M - bs + 1, r.Intn(M), []int{0, 1, bs - 1, bs, bs + 1}[r.Intn(5)]}
		L := tails[r.Intn(len(tails))]
		if L < 0 {
			L = 0
		}
		tail := noise(L)
		tailKind := "noise"
		switch r.Intn(8) {
		case 0:
			tail, tailKind = c11Seg{Kind: "const", N: L, Val: r.Intn(c11NoiseLetters)}, "const"
		case 1:
			tail, tailKind = c11Seg{Kind: "sticky", N: L, Val: r.Intn(150), Alpha: r.Range(2, 4), Stick: []int{4, 6, 7}[r.Intn(3)]}, "sticky"
		}
		var then []c11Seg
		if k > 0 {
			then = append(then, c11Seg{Kind: "match", N: k, File: 0, At: r.Intn(bc.OldBlk[0] - k + 1)})
		}
		if L > 0 {
			then = append(then, tail)
		}
		if anchor == "start" {
			bc.Segs = append([]c11Seg{noise(rel)}, then...)
		} else {
			n := M + 4*bs + r.Range(0, 2*bs+2) // one buffer fill and a bit: one MaxDataOp cut, one wrap
			if nLong > 0 && r.Chance(1, 4) {
				nLong--
				n += M + 2*bs
			}
			if r.Chance(1, 4) { // old blocks lead the prefix: the first data cut does not start at offset 0
				at := r.Intn(bc.OldBlk[0])
				bc.Segs = append(bc.Segs, noise([]int{0, 1, bs - 1, bs + 1}[r.Intn(4)]), c11Seg{Kind: "match", N: r.Range(1, bc.OldBlk[0]-at), File: 0, At: at})
			}
			bc.Segs = append(bc.Segs, noise(n))
			bc.Aim = &c11Aim{Anchor: anchor, Which: r.Intn(4), Rel: rel, Then: then}
			if then == nil {
				bc.Aim.Then = []c11Seg{}
			}
		}
		bc.Name = fmt.Sprintf("end@%s/bs%d/k%d/rel%d/%s%d/%d", anchor, bs, k, rel, tailKind, L, i)
		out = append(out, bc)
	}
	return out
}

const c11MiB = 1 << 20

func c11SmallBSCases(r *lib.Rng, tier string) []*c11Big {
	var out []*c11Big
	// corpus: input of the fixed defect "index out of range [-1]" (bs 1, source ends exactly where the buffer wraps)
	out = append(out, &c11Big{BS: 1, Name: "corpus/bs1-wrap-at-eof", Flavour: "rand", Segs: []c11Seg{{Kind: "fresh", N: wsync.MaxDataOp + 2}}, Pref: -1})
	bss := []int{1, 2, 3, 4, 7, 16, 255, 4096}
	// boundary sweep: source lengths on and around the buffer size l = 2*bs + MaxDataOp and its
	// multiples (where the wrap coincides with the end of the source), and around MaxDataOp
	type bl struct{ bs, ln int }
	var sweep []bl
	for _, bs := range bss {
		l := 2*bs + wsync.MaxDataOp
		for _, ln := range []int{l - 1, l, l + 1, 2*l - 1, 2 * l, 2*l + 1, wsync.MaxDataOp - 1, wsync.MaxDataOp, wsync.MaxDataOp + 1, wsync.MaxDataOp + bs, wsync.MaxDataOp + 2*bs - 1, 2*l - bs, 2*l - 2*bs} {
			sweep = append(sweep, bl{bs, ln})
		}
	}
	for i := len(sweep) - 1; i > 0; i-- {
		j := r.Intn(i + 1)
		sweep[i], sweep[j] = sweep[j], sweep[i]
	}
	n := 4
	if tier != "quick" {
		n = len(sweep)
	}
	for i := 0; i < n; i++ {
		bs, ln := sweep[i].bs, sweep[i].ln
		bc := &c11Big{BS: bs, Name: fmt.Sprintf("smallbs/bs%d/%d", bs, ln), Flavour: "rand", Segs: []c11Seg{{Kind: "fresh", N: ln}}, Pref: -1}
		if r.Chance(1, 2) {
			bc.OldBlk = []int{r.Range(1, 3)*bs + r.Intn(bs)}
			bc.OldTail = []int{0}
			bc.Pref = int64(r.Range(-1, 0))
		}
		out = append(out, bc)
	}
	return out
}

func c11BigCases(r *lib.Rng, tier string) []*c11Big {
	var out []*c11Big
	// corpus: the input of the fixed defect (last-run data op above MaxDataOp) comes first
	out = append(out, &c11Big{Name: "corpus/lastrun-129bs+1000", Flavour: "rand", Segs: []c11Seg{{Kind: "fresh", N: 129*c11BS + 1000}}, Pref: -1})
	noMatch := []int{4*c11MiB - 1, 4 * c11MiB, 4*c11MiB + 1, 4*c11MiB + c11BS - 1, 4*c11MiB + c11BS, 4*c11MiB + c11BS + 1,
		4*c11MiB + 2*c11BS - 2, 4*c11MiB + 2*c11BS - 1, 4*c11MiB + 2*c11BS, 4*c11MiB + 2*c11BS + 1, 66 * c11BS, 66*c11BS + 1,
		8*c11MiB - 1, 8 * c11MiB, 8*c11MiB + 1, 8*c11MiB + c11BS, 8*c11MiB + c11BS + 1, 8*c11MiB + 2*c11BS, 8*c11MiB + 2*c11BS + 2,
		8*c11MiB + 3*c11BS - 3, 129*c11BS + 1000, 130*c11BS + 1, 131 * c11BS}
	nNo, nMatch := 3, 4
	if tier != "quick" {
		nNo, nMatch = len(noMatch), 40
	}
	perm := make([]int, len(noMatch))
	for i := range perm {
		perm[i] = i
	}
	for i := len(perm) - 1; i > 0; i-- {
		j := r.Intn(i + 1)
		perm[i], perm[j] = perm[j], perm[i]
	}
	for _, k := range perm[:nNo] {
		bc := &c11Big{Name: fmt.Sprintf("nomatch/%d", noMatch[k]), Flavour: "rand", Segs: []c11Seg{{Kind: "fresh", N: noMatch[k]}}, Pref: -1}
		if r.Bool() { // a library that does not match
			bc.OldBlk, bc.OldTail = []int{3}, []int{77}
			bc.Pref = int64(r.Range(-1, 0))
		}
		out = append(out, bc)
	}
	phases := []int{0, 1, 2, c11BS - 1, c11BS, c11BS + 1, 1000}
	longs := []int{4*c11MiB - c11BS, 4*c11MiB - 1, 4 * c11MiB, 4*c11MiB + 1, 4*c11MiB + c11BS - 1, 4*c11MiB + c11BS + 1, 4*c11MiB + 2*c11BS - 3,
		4*c11MiB + 2*c11BS - 2, 4*c11MiB + 2*c11BS - 1, 4*c11MiB + 2*c11BS + 5}
	for i := 0; i < nMatch; i++ {
		nb := r.Range(3, 70)
		bc := &c11Big{Name: fmt.Sprintf("match/%d", i), Flavour: "rand", OldBlk: []int{nb}, OldTail: []int{[]int{0, 1, 999, c11BS - 1}[r.Intn(4)]}, Pref: int64(r.Range(-1, 0))}
		if r.Chance(1, 3) {
			bc.OldBlk = append(bc.OldBlk, r.Range(1, 5))
			bc.OldTail = append(bc.OldTail, r.Range(0, c11BS-1))
			bc.Pref = int64(r.Range(-1, 1))
		}
		total := 0
		add := func(s c11Seg) {
			bc.Segs = append(bc.Segs, s)
			if s.Kind == "fresh" {
				total += s.N
			} else if s.Kind == "match" {
				total += s.N * c11BS
			}
		}
		match := func() {
			f := r.Intn(len(bc.OldBlk))
			at := r.Intn(bc.OldBlk[f])
			n := r.Range(1, bc.OldBlk[f]-at)
			if r.Chance(1, 2) && n > 3 {
				n = r.Range(1, 3)
			}
			add(c11Seg{Kind: "match", N: n, File: f, At: at})
		}
		// leading phase, then alternate matches and fresh runs, one of them long
		add(c11Seg{Kind: "fresh", N: phases[r.Intn(len(phases))]})
		nlong := r.Range(1, 2)
		for total < 9*c11MiB && len(bc.Segs) < 14 {
			match()
			if nlong > 0 && r.Chance(1, 2) {
				add(c11Seg{Kind: "fresh", N: longs[r.Intn(len(longs))]})
				nlong--
			} else {
				add(c11Seg{Kind: "fresh", N: []int{0, 1, c11BS - 1, c11BS, c11BS + 1, 3*c11BS + 17, r.Range(0, 20*c11BS)}[r.Intn(7)]})
			}
			if nlong == 0 && r.Chance(1, 3) {
				break
			}
		}
		switch r.Intn(3) {
		case 0:
			match()
			f := bc.Segs[len(bc.Segs)-1].File
			if s := bc.Segs[len(bc.Segs)-1]; s.At+s.N == bc.OldBlk[f] && bc.OldTail[f] > 0 {
				add(c11Seg{Kind: "oldtail", File: f})
			}
		case 1:
			add(c11Seg{Kind: "fresh", N: longs[r.Intn(len(longs))]})
		}
		out = append(out, bc)
	}
	return out
}

// run-length friendly real-constant cases: these are also evaluated by the model (group "big",
// about two minutes of vm_compute per 4 MiB of source), thorough tier only
func c11RleCases(r *lib.Rng, tier string) []*c11Big {
	if tier != "thorough" {
		return nil
	}
	bs := c11BS
	out := []*c11Big{
		{Name: "rle/nomatch-66bs+1", Flavour: "rle", Segs: []c11Seg{{Kind: "fresh", N: 66*bs + 1}}, Pref: -1},
		{Name: "rle/match-long-tail", Flavour: "rle", OldBlk: []int{4}, OldTail: []int{999}, Pref: 0,
			Segs: []c11Seg{{Kind: "fresh", N: 1000}, {Kind: "match", N: 2, File: 0, At: 1}, {Kind: "fresh", N: 4*c11MiB + bs + 1},
				{Kind: "match", N: 1, File: 0, At: 0}, {Kind: "fresh", N: bs - 1}, {Kind: "match", N: 1, File: 0, At: 3}, {Kind: "oldtail", File: 0}}},
		{Name: "rle/match-split-boundary", Flavour: "rle", OldBlk: []int{3, 2}, OldTail: []int{0, 17}, Pref: int64(r.Range(-1, 1)),
			Segs: []c11Seg{{Kind: "match", N: 3, File: 0, At: 0}, {Kind: "fresh", N: 4*c11MiB + 2*bs - 2 - r.Intn(3)},
				{Kind: "match", N: 2, File: 1, At: 0}, {Kind: "fresh", N: r.Range(1, 3*bs)}}},
	}
	for _, sb := range []int{1, 16} {
		l := 2*sb + wsync.MaxDataOp
		ln := []int{l, l + 1, 2*l - sb, wsync.MaxDataOp + 2*sb - 1}[r.Intn(4)]
		if sb == 1 {
			ln = l // the input shape of the fixed index-out-of-range defect
		}
		out = append(out, &c11Big{BS: sb, Name: fmt.Sprintf("rle/bs%d/%d", sb, ln), Flavour: "rle", OldBlk: []int{3*sb + r.Intn(sb)}, OldTail: []int{0},
			Segs: []c11Seg{{Kind: "fresh", N: ln}}, Pref: int64(r.Range(-1, 0))})
	}
	return out
}

func c11RleL(files [][]byte) string {
	s := make([]string, len(files))
	for i, f := range files {
		s[i] = lib.ToRle(f).Coq()
	}
	return lib.CoqList(s)
}

func c11RunBig(c *Ctx, r *lib.Rng) error {
	ctxs := map[int]*wsync.Context{}
	all := append(c11BigCases(r.Fork(), c.Tier), c11SmallBSCases(r.Fork(), c.Tier)...)
	all = append(all, c11RleCases(r.Fork(), c.Tier)...)
	for _, bc := range all {
		if err := c11RunOneBig(c, ctxs, bc, r.Fork()); err != nil {
			return err
		}
	}
	// (drawn after the cases above so that their random streams are what they were)
	for _, bc := range c11LowCases(r.Fork(), c.Tier) {
		if err := c11RunOneBig(c, ctxs, bc, r.Fork()); err != nil {
			return err
		}
	}
	for _, bc := range c11EndCases(r.Fork(), c.Tier) {
		if err := c11RunOneBig(c, ctxs, bc, r.Fork()); err != nil {
			return err
		}
	}
	return nil
}

func c11RunOneBig(c *Ctx, ctxs map[int]*wsync.Context, bc *c11Big, cr *lib.Rng) error {
	olds, src := bc.build(cr)
	bs := c11BS
	if bc.BS != 0 {
		bs = bc.BS
	}
	if ctxs[bs] == nil {
		ctxs[bs] = wsync.NewContext(bs)
	}
	ctx := ctxs[bs]
	if bc.Aim != nil {
		var alive bool
		if src, alive = c11AimOverlay(ctx, bc, olds, src, cr); !alive {
			ctx = wsync.NewContext(bs) // the probe run never came back and may still use the old one
			ctxs[bs] = ctx
		}
	}
	in := &c11Input{bs: bs, olds: olds, src: src, pref: bc.Pref}
	var ops []c11Op
	oracle := ""
	cls, msg := lib.WithDeadline(120*time.Second, func() error {
		sig, err := c11SignAll(ctx, olds)
		if err != nil {
			return err
		}
		var dc, dm string
		ops, dc, dm = c11Diff(ctx, wsync.NewBlockLibrary(sig), src, bc.Pref)
		var applied []byte
		ac, am := "", ""
		if dc == "ok" {
			applied, ac, am = c11Apply(ctx, lib.NewMemPool(olds), ops)
		}
		oracle = c11Oracle(in, ops, dc, dm, applied, ac, am)
		return nil
	})
	if cls != "ok" {
		oracle = "differ " + cls + ": " + msg
		delete(ctxs, bs) // a leaked goroutine may still use that context
	}
	finding := ""
	sizes := []int{}
	for _, o := range ops {
		if !o.Range {
			sizes = append(sizes, len(o.Data))
		}
	}
	class := "real/" + strings.SplitN(bc.Name, "/", 2)[0] + "/" + bc.Flavour
	group, coq := "", ""
	if bc.Flavour == "rle" && oracle == "" {
		group = "big"
		ys := make([]string, len(ops))
		for i, o := range ops {
			if o.Range {
				ys[i] = fmt.Sprintf("YR %d %d %d", o.File, o.Index, o.Span)
			} else {
				ys[i] = fmt.Sprintf("YD %d", len(o.Data))
			}
		}
		coq = fmt.Sprintf("($ID%%N, %d%%N, %s, %s, %s, ([%s]%%N))", bs, c11RleL(olds), lib.ToRle(src).Coq(), c11PrefCoq(bc.Pref), strings.Join(ys, "; "))
	}
	input := map[string]interface{}{"name": bc.Name, "bs": bs, "flavour": bc.Flavour, "oldBlocks": bc.OldBlk, "oldTails": bc.OldTail,
		"segments": bc.Segs, "srcLen": len(src), "pref": bc.Pref, "srcDigest": lib.Digest(src)}
	if bc.OldConst != nil {
		input["oldConstBlocks"] = bc.OldConst // {file, block, byte value}
	}
	if bc.Overlay != nil {
		input["overlay"] = bc.Overlay // bytes [at, at+n) of the source built from the segments are val
	}
	if bc.Cut != nil {
		input["cut"] = bc.Cut // the source built from the segments is cut to its first `at` bytes, then the segments `then` follow
	}
	c.Out.Emit(&lib.Case{Group: group, Coq: coq, Class: class, Nontrivial: len(ops) >= 2,
		Input:  input,
		Obs:    map[string]interface{}{"ops": c11OpsJ(ops, false), "dataSizes": sizes},
		Oracle: oracle, Finding: finding})
	return nil
}

func runC11(c *Ctx) error {
	if c.Replay == "rle" { // developer switch: only the model-evaluated real-constant cases
		c.Tier = "thorough"
		r := c.Rng.Fork()
		for _, bc := range c11RleCases(r.Fork(), c.Tier) {
			if err := c11RunOneBig(c, map[int]*wsync.Context{}, bc, r.Fork()); err != nil {
				return err
			}
		}
		return nil
	}
	if c.Replay == "low" { // developer switch: only the low-entropy real-constant cases
		r := c.Rng.Fork()
		ctxs := map[int]*wsync.Context{}
		for _, bc := range c11LowCases(r.Fork(), c.Tier) {
			if err := c11RunOneBig(c, ctxs, bc, r.Fork()); err != nil {
				return err
			}
		}
		return nil
	}
	if c.Replay == "end" { // developer switch: only the end-of-source real-constant cases
		r := c.Rng.Fork()
		ctxs := map[int]*wsync.Context{}
		for _, bc := range c11EndCases(r.Fork(), c.Tier) {
			if err := c11RunOneBig(c, ctxs, bc, r.Fork()); err != nil {
				return err
			}
		}
		return nil
	}
	// real constants first: the corpus case of the fixed defect leads the run
	if err := c11RunBig(c, c.Rng.Fork()); err != nil {
		return err
	}
	rb := c.Rng.Fork()
	for i, b := range c11Blocks(c.Tier) {
		if b.sampleOnly > 0 {
			if err := c11SampleBlock(c, b, rb.Fork()); err != nil {
				return err
			}
			continue
		}
		if err := c11Enumerate(c, b, i); err != nil {
			return err
		}
	}
	if err := c11RandomSmall(c, c.Rng.Fork(), c.N(600, 5000)); err != nil {
		return err
	}
	return c11ApplyGroup(c, c.Rng.Fork(), c.N(200, 1000))
}
