package main

// Helpers shared by C09 (safekeeper) and C07 (rediff): a decoder of patch files that is
// independent of the patcher, the per-old-file usage derived from it, signature
// serialization, and a guarded optimizer call.

import (
	"bytes"
	"fmt"

	"github.com/itchio/lake/pools/fspool"
	"github.com/itchio/lake/tlc"
	"github.com/itchio/savior/seeksource"

	"github.com/itchio/wharf/bsdiff"
	"github.com/itchio/wharf/pwr"
	"github.com/itchio/wharf/pwr/rediff"
	"github.com/itchio/wharf/wire"

	"verif/harness/lib"
)

type rdOp struct {
	Range           bool
	File, Blk, Span int64
	DataLen         int
	DataSum         string // digest of the data of a DATA op
	AddLen, CopyLen int    // bsdiff controls
	Seek            int64
}

type rdSeries struct {
	Bsdiff bool
	Target int64 // bsdiff target index
	Ops    []rdOp
}

type rdPatch struct {
	Comp   *pwr.CompressionSettings
	Target *tlc.Container // old build
	Source *tlc.Container // new build
	Files  []rdSeries
}

// rdDecode reads a patch message by message (no patcher involved).
func rdDecode(patch []byte) (*rdPatch, error) {
	src := seeksource.FromBytes(patch)
	if _, err := src.Resume(nil); err != nil {
		return nil, err
	}
	raw := wire.NewReadContext(src)
	if err := raw.ExpectMagic(pwr.PatchMagic); err != nil {
		return nil, err
	}
	ph := &pwr.PatchHeader{}
	if err := raw.ReadMessage(ph); err != nil {
		return nil, err
	}
	r, err := pwr.DecompressWire(raw, ph.Compression)
	if err != nil {
		return nil, err
	}
	p := &rdPatch{Comp: ph.Compression, Target: &tlc.Container{}, Source: &tlc.Container{}}
	if err := r.ReadMessage(p.Target); err != nil {
		return nil, err
	}
	if err := r.ReadMessage(p.Source); err != nil {
		return nil, err
	}
	for i := range p.Source.Files {
		sh := &pwr.SyncHeader{}
		if err := r.ReadMessage(sh); err != nil {
			return nil, fmt.Errorf("file %d: sync header: %v", i, err)
		}
		if sh.FileIndex != int64(i) {
			return nil, fmt.Errorf("file %d: header carries index %d", i, sh.FileIndex)
		}
		s := rdSeries{}
		if sh.Type == pwr.SyncHeader_BSDIFF {
			s.Bsdiff = true
			bh := &pwr.BsdiffHeader{}
			if err := r.ReadMessage(bh); err != nil {
				return nil, err
			}
			s.Target = bh.TargetIndex
			for {
				ctrl := &bsdiff.Control{}
				if err := r.ReadMessage(ctrl); err != nil {
					return nil, err
				}
				if ctrl.Eof {
					break
				}
				s.Ops = append(s.Ops, rdOp{AddLen: len(ctrl.Add), CopyLen: len(ctrl.Copy), Seek: ctrl.Seek})
			}
			op := &pwr.SyncOp{}
			if err := r.ReadMessage(op); err != nil {
				return nil, err
			}
			if op.Type != pwr.SyncOp_HEY_YOU_DID_IT {
				return nil, fmt.Errorf("file %d: no end marker after the bsdiff series", i)
			}
		} else {
			for {
				op := &pwr.SyncOp{}
				if err := r.ReadMessage(op); err != nil {
					return nil, err
				}
				if op.Type == pwr.SyncOp_HEY_YOU_DID_IT {
					break
				}
				switch op.Type {
				case pwr.SyncOp_BLOCK_RANGE:
					s.Ops = append(s.Ops, rdOp{Range: true, File: op.FileIndex, Blk: op.BlockIndex, Span: op.BlockSpan})
				case pwr.SyncOp_DATA:
					s.Ops = append(s.Ops, rdOp{DataLen: len(op.Data), DataSum: lib.Digest(op.Data)})
				default:
					return nil, fmt.Errorf("file %d: op type %d", i, op.Type)
				}
			}
		}
		p.Files = append(p.Files, s)
	}
	return p, nil
}

// Describe renders the series compactly (for failing inputs).
func (p *rdPatch) Describe() []string {
	var out []string
	for i, s := range p.Files {
		d := fmt.Sprintf("%s(%d):", p.Source.Files[i].Path, p.Source.Files[i].Size)
		if s.Bsdiff {
			d += fmt.Sprintf(" bsdiff<-%d %d controls", s.Target, len(s.Ops))
		} else {
			for j, op := range s.Ops {
				if j > 12 {
					d += " ..."
					break
				}
				if op.Range {
					d += fmt.Sprintf(" R(f%d,%d+%d)", op.File, op.Blk, op.Span)
				} else {
					d += fmt.Sprintf(" D(%d)", op.DataLen)
				}
			}
		}
		out = append(out, d)
	}
	return out
}

func rdNumBlocks(size int64) int64 { return (size + lib.BS - 1) / lib.BS }

// Whole says whether series i is what the patcher treats as a whole-file copy
// (patcher.isFullFileOp restated).
func (p *rdPatch) Whole(i int) (int64, bool) {
	s := p.Files[i]
	if s.Bsdiff || len(s.Ops) == 0 || !s.Ops[0].Range || s.Ops[0].Blk != 0 {
		return 0, false
	}
	op := s.Ops[0]
	if op.File < 0 || int(op.File) >= len(p.Target.Files) {
		return 0, false
	}
	if p.Target.Files[op.File].Size != p.Source.Files[i].Size {
		return 0, false
	}
	return op.File, op.Span == rdNumBlocks(p.Source.Files[i].Size)
}

// rdUsage: how the patch reads one old file.
type rdUsage struct {
	Whole  bool           // copied whole (Transpose)
	Blocks map[int64]bool // blocks read by block-range ops
	Bsdiff bool           // old side of a bsdiff series
}

func (u *rdUsage) Kind() string {
	if u == nil {
		return "unused"
	}
	k := ""
	if u.Whole {
		k += "whole"
	}
	if len(u.Blocks) > 0 {
		k += "ranges"
	}
	if u.Bsdiff {
		k += "bsdiff"
	}
	if k == "" {
		return "unused"
	}
	return k
}

func (p *rdPatch) Usage() map[int64]*rdUsage {
	us := map[int64]*rdUsage{}
	get := func(i int64) *rdUsage {
		if us[i] == nil {
			us[i] = &rdUsage{Blocks: map[int64]bool{}}
		}
		return us[i]
	}
	for i, s := range p.Files {
		if s.Bsdiff {
			get(s.Target).Bsdiff = true
			continue
		}
		if t, ok := p.Whole(i); ok {
			get(t).Whole = true
			continue
		}
		for _, op := range s.Ops {
			if op.Range {
				u := get(op.File)
				for b := op.Blk; b < op.Blk+op.Span; b++ {
					u.Blocks[b] = true
				}
			}
		}
	}
	return us
}

// rdSigBytes serializes a signature the way WritePatch does (uncompressed).
func rdSigBytes(sig *pwr.SignatureInfo) ([]byte, error) {
	var buf bytes.Buffer
	raw := wire.NewWriteContext(&buf)
	if err := raw.WriteMagic(pwr.SignatureMagic); err != nil {
		return nil, err
	}
	comp := &pwr.CompressionSettings{Algorithm: pwr.CompressionAlgorithm_NONE}
	if err := raw.WriteMessage(&pwr.SignatureHeader{Compression: comp}); err != nil {
		return nil, err
	}
	w, err := pwr.CompressWire(raw, comp)
	if err != nil {
		return nil, err
	}
	if err := w.WriteMessage(sig.Container); err != nil {
		return nil, err
	}
	for _, h := range sig.Hashes {
		if err := w.WriteMessage(&pwr.BlockHash{WeakHash: h.WeakHash, StrongHash: h.StrongHash}); err != nil {
			return nil, err
		}
	}
	if err := w.Close(); err != nil {
		return nil, err
	}
	return buf.Bytes(), nil
}

// rdMapping is one entry of rediff's analysis.
type rdMapping struct {
	Source, Target int64
	NumBytes       int64
}

// rdAnalyze runs the analysis pass only and returns the chosen mappings in source order.
func rdAnalyze(patch []byte, o lib.OptParams) (rediff.Context, []rdMapping, error) {
	rc, err := rediff.NewContext(rediff.Params{PatchReader: seeksource.FromBytes(patch), Consumer: lib.Quiet, Compression: o.Comp.Settings(),
		SuffixSortConcurrency: o.Concurrency, Partitions: o.Partitions, ForceMapAll: o.ForceMapAll, RediffSizeLimit: o.SizeLimit})
	if err != nil {
		return nil, nil, err
	}
	var ms []rdMapping
	dm := rc.GetDiffMappings()
	for i := range rc.GetSourceContainer().Files {
		if m, ok := dm[int64(i)]; ok && m != nil {
			ms = append(ms, rdMapping{int64(i), m.TargetIndex, m.NumBytes})
		}
	}
	return rc, ms, nil
}

// rdOptimizeWith runs the second pass of an analysed context.
func rdOptimizeWith(rc rediff.Context, oldDir, newDir string) ([]byte, error) {
	var out bytes.Buffer
	err := rc.Optimize(rediff.OptimizeParams{TargetPool: fspool.New(rc.GetTargetContainer(), oldDir), SourcePool: fspool.New(rc.GetSourceContainer(), newDir), PatchWriter: &out})
	return out.Bytes(), err
}

// the two bsdiff defects of the unchanged tree (DESIGN section 7, #7 and #8), as predicates
// on one (old file, new file, partitions) triple

// rdDivByZeroShape: bsdiff.Do divides by nbuflen/partitions == 0
func rdDivByZeroShape(oldLen, newLen int64, partitions int) bool {
	return partitions > 0 && int64(partitions) < oldLen-1 && newLen > 0 && newLen < int64(partitions)
}

// rdEmptyOldShape: the suffix sorter is handed an empty old file (panics in a goroutine)
func rdEmptyOldShape(oldLen, newLen int64) bool { return oldLen == 0 && newLen > 0 }
