package main

// Independent decoding of a patch into its message list (kinds, effects, stream offsets),
// used by C03: the oracle for liveness, the translation of checkpoints into message
// indices, and the abstract message list handed to the Gallina model.

import (
	"fmt"
	"strings"

	"github.com/itchio/lake/tlc"
	"github.com/itchio/savior"
	"github.com/itchio/savior/seeksource"

	"github.com/itchio/wharf/bsdiff"
	"github.com/itchio/wharf/pwr"
	"github.com/itchio/wharf/wire"

	"verif/harness/lib"
)

// countingSource counts the bytes handed out by the (decompressed) source, i.e. the offsets
// wire.ReadContext keeps privately and stores in MessageReaderCheckpoint.Offset.
type countingSource struct {
	savior.Source
	n int64
}

func (c *countingSource) Read(b []byte) (int, error) {
	n, err := c.Source.Read(b)
	c.n += int64(n)
	return n, err
}
func (c *countingSource) ReadByte() (byte, error) {
	b, err := c.Source.ReadByte()
	if err == nil {
		c.n++
	}
	return b, err
}

// pmsg is what wire.ReadContext.ReadMessage wants (a protobuf message), spelled out so that
// the harness module needs no direct dependency on the protobuf package.
type pmsg interface {
	Reset()
	String() string
	ProtoMessage()
}

type c03MsgKind int

const (
	mkHeader   c03MsgKind = iota // SyncHeader
	mkRange                      // SyncOp BLOCK_RANGE
	mkData                       // SyncOp DATA
	mkEnd                        // SyncOp HEY_YOU_DID_IT
	mkBsHeader                   // BsdiffHeader
	mkCtrl                       // bsdiff Control (not eof)
	mkCtrlEof                    // bsdiff Control eof
)

type c03Msg struct {
	Kind       c03MsgKind
	Start, End int64 // offsets in the decompressed stream
	// SyncHeader
	FileIndex int64
	Bsdiff    bool
	// BLOCK_RANGE
	RFile, RIndex, RSpan int64
	// DATA
	DataLen int64
	// BsdiffHeader
	Target int64
	// Control
	AddLen, CopyLen, Seek int64
}

type c03Series struct {
	FileIndex int64
	Bsdiff    bool
	First     int // index of the SyncHeader in Msgs
	Last      int // index of the closing HEY_YOU_DID_IT
	NOps      int // rsync: ops before the end marker; bsdiff: controls before eof
	FullFile  bool
}

type c03PatchInfo struct {
	Target, Source *tlc.Container
	Msgs           []c03Msg
	Series         []c03Series
	byEnd          map[int64]int
	byStart        map[int64]int
	StreamLen      int64
}

func c03ParsePatch(patch []byte) (*c03PatchInfo, error) {
	src := seeksource.FromBytes(patch)
	if _, err := src.Resume(nil); err != nil {
		return nil, err
	}
	raw := wire.NewReadContext(src)
	if err := raw.ExpectMagic(pwr.PatchMagic); err != nil {
		return nil, err
	}
	ph := &pwr.PatchHeader{}
	if err := raw.ReadMessage(ph); err != nil {
		return nil, err
	}
	dctx, err := pwr.DecompressWire(raw, ph.Compression)
	if err != nil {
		return nil, err
	}
	cs := &countingSource{Source: dctx.GetSource()}
	rctx := wire.NewReadContext(cs)
	pi := &c03PatchInfo{Target: &tlc.Container{}, Source: &tlc.Container{}, byEnd: map[int64]int{}, byStart: map[int64]int{}}
	if err := rctx.ReadMessage(pi.Target); err != nil {
		return nil, err
	}
	if err := rctx.ReadMessage(pi.Source); err != nil {
		return nil, err
	}
	read := func(m pmsg, out c03Msg) (c03Msg, error) {
		out.Start = cs.n
		if err := rctx.ReadMessage(m); err != nil {
			return out, err
		}
		out.End = cs.n
		return out, nil
	}
	push := func(m c03Msg) int {
		pi.byEnd[m.End] = len(pi.Msgs)
		pi.byStart[m.Start] = len(pi.Msgs)
		pi.Msgs = append(pi.Msgs, m)
		return len(pi.Msgs) - 1
	}
	for fi := range pi.Source.Files {
		sh := &pwr.SyncHeader{}
		m, err := read(sh, c03Msg{Kind: mkHeader})
		if err != nil {
			return nil, err
		}
		if sh.FileIndex != int64(fi) {
			return nil, fmt.Errorf("series %d carries file index %d", fi, sh.FileIndex)
		}
		m.FileIndex = sh.FileIndex
		m.Bsdiff = sh.Type == pwr.SyncHeader_BSDIFF
		se := c03Series{FileIndex: sh.FileIndex, Bsdiff: m.Bsdiff, First: push(m)}
		if m.Bsdiff {
			bh := &pwr.BsdiffHeader{}
			m, err := read(bh, c03Msg{Kind: mkBsHeader})
			if err != nil {
				return nil, err
			}
			m.Target = bh.TargetIndex
			push(m)
			for {
				ctrl := &bsdiff.Control{}
				m, err := read(ctrl, c03Msg{Kind: mkCtrl})
				if err != nil {
					return nil, err
				}
				if ctrl.Eof {
					m.Kind = mkCtrlEof
					push(m)
					break
				}
				m.AddLen, m.CopyLen, m.Seek = int64(len(ctrl.Add)), int64(len(ctrl.Copy)), ctrl.Seek
				push(m)
				se.NOps++
			}
			op := &pwr.SyncOp{}
			m, err = read(op, c03Msg{Kind: mkEnd})
			if err != nil {
				return nil, err
			}
			if op.Type != pwr.SyncOp_HEY_YOU_DID_IT {
				return nil, fmt.Errorf("bsdiff series %d not closed by the sentinel", fi)
			}
			se.Last = push(m)
		} else {
			for {
				op := &pwr.SyncOp{}
				m, err := read(op, c03Msg{})
				if err != nil {
					return nil, err
				}
				switch op.Type {
				case pwr.SyncOp_BLOCK_RANGE:
					m.Kind = mkRange
					m.RFile, m.RIndex, m.RSpan = op.FileIndex, op.BlockIndex, op.BlockSpan
				case pwr.SyncOp_DATA:
					m.Kind = mkData
					m.DataLen = int64(len(op.Data))
				case pwr.SyncOp_HEY_YOU_DID_IT:
					m.Kind = mkEnd
				default:
					return nil, fmt.Errorf("unknown op type %v", op.Type)
				}
				idx := push(m)
				if m.Kind == mkEnd {
					se.Last = idx
					break
				}
				se.NOps++
			}
			// the patcher's isFullFileOp, restated
			first := pi.Msgs[se.First+1]
			if first.Kind == mkRange && first.RIndex == 0 && first.RFile >= 0 && first.RFile < int64(len(pi.Target.Files)) {
				tf, of := pi.Target.Files[first.RFile], pi.Source.Files[fi]
				se.FullFile = tf.Size == of.Size && first.RSpan == (of.Size+lib.BS-1)/lib.BS
			}
		}
		pi.Series = append(pi.Series, se)
	}
	pi.StreamLen = cs.n
	return pi, nil
}

// rangeLen restates wsync.ApplySingle's size computation for a BLOCK_RANGE op.
func (pi *c03PatchInfo) rangeLen(m c03Msg) int64 {
	size := pi.Target.Files[m.RFile].Size
	last := int64(lib.BS)
	if lib.BS*(m.RIndex+m.RSpan) > size {
		last = size % lib.BS
	}
	return (m.RSpan-1)*lib.BS + last
}

// Coq renders the message list for the model: is-overlay flags of the source files, target
// (old) file sizes, source (new) file sizes and the messages, payloads reduced to lengths.
func (pi *c03PatchInfo) Coq() string {
	var tsz, ssz []int64
	tpaths := map[string]bool{}
	for _, f := range pi.Target.Files {
		tsz = append(tsz, f.Size)
		tpaths[f.Path] = true
	}
	var isov []string
	for _, f := range pi.Source.Files {
		ssz = append(ssz, f.Size)
		isov = append(isov, lib.CoqBool(tpaths[f.Path]))
	}
	ms := make([]string, len(pi.Msgs))
	for i, m := range pi.Msgs {
		switch m.Kind {
		case mkHeader:
			ms[i] = fmt.Sprintf("MHeader %d %s", m.FileIndex, lib.CoqBool(m.Bsdiff))
		case mkRange:
			ms[i] = fmt.Sprintf("MRange %d %d %d", m.RFile, m.RIndex, m.RSpan)
		case mkData:
			ms[i] = fmt.Sprintf("MData %d", m.DataLen)
		case mkEnd:
			ms[i] = "MEnd"
		case mkBsHeader:
			ms[i] = fmt.Sprintf("MBsHeader %d", m.Target)
		case mkCtrl:
			ms[i] = fmt.Sprintf("MCtrl %d %d %s", m.AddLen, m.CopyLen, lib.CoqZ(m.Seek))
		case mkCtrlEof:
			ms[i] = "MCtrlEof"
		}
	}
	return fmt.Sprintf("%s, %s, %s, ([%s])%%N", lib.CoqList(isov), lib.CoqNList(tsz), lib.CoqNList(ssz), strings.Join(ms, "; "))
}
