package main

// C10 — malformed patch / signature / overlay streams yield an error, never a crash.
//
// Valid streams (lib.Diff, lib.Optimize, the signature written next to a patch, the overlay
// writer) over small builds are decoded into message lists, then
//   (1) truncated at byte level (every offset for small streams, sampled for large), and
//   (2) mutated at field level (indices / spans in {-1, 0, max, max+1, 2^47, 2^62, ...}, unknown
//       enum values, swapped series kinds, missing / duplicated / foreign messages, out-of-file
//       bsdiff seeks and adds - including adds that reach exactly / run past / start exactly at
//       the end of the old file, over old files whose sizes sit on and around the 32 KiB chunks of
//       the applier's read cache -, fewer / more block hashes, other well-formed containers;
//       the header frame in front of the containers: no / unreadable compression settings, unknown
//       or swapped algorithm, arbitrary quality, unknown fields, foreign message, and the magic
//       number in front of it: c10_hdr.go),
// re-encoded through wire.WriteContext under {none, gzip, brotli} framing and fed, in a child
// process, to patcher.New+Resume (fresh and overlay bowl), rediff.NewContext+Optimize,
// pwr.ReadSignature+ComputeHashInfo(+ValidatingPool) and overlay Patch.
// Observable: outcome class ok | error | panic | hang.  Oracle: class in {ok, error}.
// Groups (model correspondence, field-level mutations and frame-aligned truncations only):
//   pat (patcher), red (optimizer), sig (signature reader + hash grouping), ovl (overlay applier).

import (
	"bytes"
	"fmt"
	"os"
	"path/filepath"
	"sort"
	"strings"

	"github.com/golang/protobuf/proto"
	"github.com/itchio/lake/tlc"

	"github.com/itchio/wharf/bsdiff"
	"github.com/itchio/wharf/pwr"
	"github.com/itchio/wharf/pwr/overlay"

	"verif/harness/lib"
)

func init() { register("C10", runC10) }

var c10Framings = []lib.Compression{
	{Algo: pwr.CompressionAlgorithm_NONE, Quality: 0},
	{Algo: pwr.CompressionAlgorithm_GZIP, Quality: 1},
	{Algo: pwr.CompressionAlgorithm_BROTLI, Quality: 1},
}

// ---------- scenarios: small build pairs and the valid streams over them ----------

type c10Scenario struct {
	Name           string
	Old, New       *lib.Build
	OldDir, NewDir string
	WorkDir        string
	Plain, Opt     *c10Stream // rsync-only patch, optimized (bsdiff series) patch
	Sig            *c10Stream // signature of the new build
	Ovl            *c10Stream // overlay turning OvlOld into OvlNew
	OvlOldPath     string
	OvlOldLen      int
}

func c10Bytes(r *lib.Rng, n int) []byte { return r.Bytes(n) }

func c10FixedScenarios(r *lib.Rng) []*c10Scenario {
	var out []*c10Scenario
	mk := func(name string, old, nw *lib.Build) {
		out = append(out, &c10Scenario{Name: name, Old: old, New: nw})
	}
	{ // one file of one block + tail; first block kept, tail rewritten: BLOCK_RANGE + DATA
		a := c10Bytes(r, lib.BS+100)
		b := append(append([]byte(nil), a[:lib.BS]...), c10Bytes(r, 30)...)
		old, nw := &lib.Build{}, &lib.Build{}
		old.Put(lib.Entry{Path: "x.bin", Kind: "file", Data: a})
		nw.Put(lib.Entry{Path: "x.bin", Kind: "file", Data: b})
		mk("tiny", old, nw)
	}
	{ // everything at once
		a := c10Bytes(r, 150000)
		a2 := append([]byte(nil), a...)
		copy(a2[70000:], c10Bytes(r, 300))
		cdat := c10Bytes(r, lib.BS)
		old, nw := &lib.Build{}, &lib.Build{}
		old.Put(lib.Entry{Path: "a.bin", Kind: "file", Data: a})
		old.Put(lib.Entry{Path: "b.txt", Kind: "file", Data: []byte("0123456789")})
		old.Put(lib.Entry{Path: "e.empty", Kind: "file"})
		old.Put(lib.Entry{Path: "sub/c.dat", Kind: "file", Data: cdat})
		old.Put(lib.Entry{Path: "d", Kind: "dir"})
		old.Put(lib.Entry{Path: "lnk", Kind: "link", Dest: "a.bin"})
		nw.Put(lib.Entry{Path: "a.bin", Kind: "file", Data: a2})
		nw.Put(lib.Entry{Path: "b.txt", Kind: "file", Data: []byte("0123456789")})
		nw.Put(lib.Entry{Path: "e.empty", Kind: "file"})
		nw.Put(lib.Entry{Path: "moved/c2.dat", Kind: "file", Data: cdat})
		nw.Put(lib.Entry{Path: "new.dat", Kind: "file", Data: c10Bytes(r, 70000)})
		nw.Put(lib.Entry{Path: "f.zero", Kind: "file"})
		nw.Put(lib.Entry{Path: "lnk", Kind: "link", Dest: "b.txt"})
		mk("mixed", old, nw)
	}
	{ // the old build has no file at all: every BLOCK_RANGE is out of range
		old, nw := &lib.Build{}, &lib.Build{}
		nw.Put(lib.Entry{Path: "n.bin", Kind: "file", Data: c10Bytes(r, 50)})
		mk("empty-old", old, nw)
	}
	{ // multi-block files: block ranges with spans > 1, rename, grown file
		p := c10Bytes(r, 3*lib.BS+17)
		q := c10Bytes(r, lib.BS)
		p2 := append([]byte(nil), p...)
		copy(p2[lib.BS+5:], c10Bytes(r, 40))
		p2 = append(p2, c10Bytes(r, 1000)...)
		old, nw := &lib.Build{}, &lib.Build{}
		old.Put(lib.Entry{Path: "p.bin", Kind: "file", Data: p})
		old.Put(lib.Entry{Path: "q.bin", Kind: "file", Data: q})
		nw.Put(lib.Entry{Path: "p.bin", Kind: "file", Data: p2})
		nw.Put(lib.Entry{Path: "q2.bin", Kind: "file", Data: q})
		nw.Put(lib.Entry{Path: "z.bin", Kind: "file"})
		mk("blocks", old, nw)
	}
	{ // empty files on both sides
		old, nw := &lib.Build{}, &lib.Build{}
		old.Put(lib.Entry{Path: "e", Kind: "file"})
		old.Put(lib.Entry{Path: "f", Kind: "file", Data: []byte("ten bytes!")})
		nw.Put(lib.Entry{Path: "e", Kind: "file"})
		nw.Put(lib.Entry{Path: "f", Kind: "file", Data: []byte("ten bytes!")})
		nw.Put(lib.Entry{Path: "g", Kind: "file"})
		old.Put(lib.Entry{Path: "h", Kind: "file", Data: []byte("1")})
		nw.Put(lib.Entry{Path: "h", Kind: "file", Data: []byte("22")})
		mk("empties", old, nw)
	}
	{ // old files whose sizes sit on / next to the boundaries of the bsdiff applier's read cache
		// (bsdiff/lrufile: 32 KiB chunks; the copy buffer of IndividualPatchContext.Apply is 32 KiB
		// too) and of the 64 KiB blocks (1, 2, 3 chunks, 1 chunk + 1, 2 chunks - 1, 2 blocks); each is edited in place (same path: rediff maps it to a bsdiff
		// series) so that the last add of the series ends exactly at the end of the old file
		old, nw := &lib.Build{}, &lib.Build{}
		for i, n := range []int{c10LruChunk, 2 * c10LruChunk, 3 * c10LruChunk, c10LruChunk + 1, 2*c10LruChunk - 1, 2 * lib.BS} {
			a := c10Bytes(r, n)
			b := append([]byte(nil), a...)
			// (3/4 of the way: for the two-block file the first block is kept: a BLOCK_RANGE op over a
			// file whose size is an exact multiple of the block size)
			copy(b[n/2+n/4:], c10Bytes(r, 9))
			switch i {
			case 1: // grown: the series ends with fresh bytes after an add that reaches the end
				b = append(b, c10Bytes(r, 11)...)
			case 2: // shrunk: the series ends before the end of the old file
				b = b[:n-c10LruChunk/2]
			}
			name := fmt.Sprintf("c%d.bin", i)
			old.Put(lib.Entry{Path: name, Kind: "file", Data: a})
			nw.Put(lib.Entry{Path: name, Kind: "file", Data: b})
		}
		mk("chunks", old, nw)
	}
	return out
}

// c10LruChunk: chunk size of the LRU file cache the bsdiff applier reads the old file through
// (bsdiff/patch.go: lruChunkSize) = size of its copy buffer (minBufferSize).
const c10LruChunk = 32 * 1024

// c10ChunkPair draws a build pair whose file sizes are k*32 KiB + {-1, 0, 0, +1} (1 <= k <= 4), each
// file edited by lib.Edit: the random counterpart of the fixed "chunks" scenario.
func c10ChunkPair(r *lib.Rng) (*lib.Build, *lib.Build, []string) {
	old, nw := &lib.Build{}, &lib.Build{}
	var rel []string
	nf := r.Range(1, 3)
	for i := 0; i < nf; i++ {
		n := r.Range(1, 4)*c10LruChunk + []int{-1, 0, 0, 1}[r.Intn(4)]
		a := lib.GenContent(r, n)
		b, how := lib.Edit(r, a)
		if bytes.Equal(a, b) {
			b = append(append([]byte(nil), a...), 7)
			how = "append1"
		}
		name := fmt.Sprintf("k%d.bin", i)
		old.Put(lib.Entry{Path: name, Kind: "file", Data: a})
		nw.Put(lib.Entry{Path: name, Kind: "file", Data: b})
		rel = append(rel, fmt.Sprintf("%d:%s", n, how))
	}
	return old, nw, rel
}

// c10Prepare materializes the builds and produces the valid base streams.
func c10Prepare(c *Ctx, sc *c10Scenario, idx int) error {
	base := filepath.Join(c.Tmp, fmt.Sprintf("c10-sc%d", idx))
	sc.OldDir, sc.NewDir, sc.WorkDir = filepath.Join(base, "old"), filepath.Join(base, "new"), filepath.Join(base, "work")
	if err := sc.Old.WriteTo(sc.OldDir); err != nil {
		return err
	}
	if err := sc.New.WriteTo(sc.NewDir); err != nil {
		return err
	}
	none := c10Framings[0]
	var dr *lib.DiffResult
	if cls, msg := lib.Guard(func() error {
		var err error
		dr, err = lib.Diff(sc.OldDir, sc.NewDir, none, nil)
		return err
	}); cls != "ok" {
		return fmt.Errorf("C10: base diff of scenario %s: %s %s", sc.Name, cls, msg)
	}
	var err error
	if sc.Plain, err = c10DecodePatch(dr.Patch); err != nil {
		return fmt.Errorf("C10: decode of base patch %s: %v", sc.Name, err)
	}
	if sc.Sig, err = c10DecodeSig(dr.Sig); err != nil {
		return fmt.Errorf("C10: decode of base signature %s: %v", sc.Name, err)
	}
	// optimized patch (bsdiff series); produced in a child so that a crash of the optimizer on a
	// VALID patch (C07's business) cannot kill this run: the scenario then has no Opt stream
	res, out, err := c10OptimizeInChild(c, dr.Patch, sc.OldDir, sc.NewDir)
	if err != nil {
		return err
	}
	if res.Class == "ok" {
		if sc.Opt, err = c10DecodePatch(out); err != nil {
			return fmt.Errorf("C10: decode of optimized patch %s: %v", sc.Name, err)
		}
		hasBsdiff := false
		for _, m := range sc.Opt.Msgs {
			if _, ok := m.(*pwr.BsdiffHeader); ok {
				hasBsdiff = true
			}
		}
		if !hasBsdiff {
			sc.Opt = nil // the optimizer kept every series as it was: nothing the plain stream does not have
		}
	}
	// overlay: first changed file pair with the same path, else first old / first new file
	var o, n []byte
	found := false
	for _, e := range sc.New.Files() {
		if oe := sc.Old.Get(e.Path); oe != nil && oe.Kind == "file" && !bytes.Equal(oe.Data, e.Data) {
			o, n, found = oe.Data, e.Data, true
			break
		}
	}
	if !found {
		if fs := sc.Old.Files(); len(fs) > 0 {
			o = fs[len(fs)-1].Data
		}
		if fs := sc.New.Files(); len(fs) > 0 {
			n = fs[len(fs)-1].Data
		}
	}
	var ob bytes.Buffer
	ow, err := overlay.NewOverlayWriter(bytes.NewReader(o), 0, &ob, 0)
	if err != nil {
		return err
	}
	if _, err := ow.Write(n); err != nil {
		return err
	}
	if err := ow.Finalize(); err != nil {
		return err
	}
	if sc.Ovl, err = c10DecodeOverlay(ob.Bytes()); err != nil {
		return err
	}
	sc.OvlOldPath = filepath.Join(base, "ovl-old")
	sc.OvlOldLen = len(o)
	return os.WriteFile(sc.OvlOldPath, o, 0o644)
}

// ---------- mutations ----------

type c10Mut struct {
	Class string // mutation class (histogram key)
	Desc  string
	Apply func(s *c10Stream) // edits a private clone
	// Always: a boundary mutation that is planned on every run for every base stream it applies
	// to (not subject to the per-base budget): the bsdiff adds aimed at the end of the old file
	Always bool
	// Late: a planned-on-every-run class added in a later round: framing and feeders are drawn from
	// a stream of their own (c10LateRng), so that the draws of all older classes stay what they were
	Late bool
}

const (
	c10Big62 = int64(1) << 62
	c10Big47 = int64(1) << 47 // * 65536 = 2^63: wraps to the most negative int64
	c10Big46 = int64(1) << 46 // * 65536 = 2^62: a huge but representable offset
)

func c10Nb(size int64) int64 { return (size + lib.BS - 1) / lib.BS }

func c10Uniq(xs []int64) []int64 {
	seen := map[int64]bool{}
	var out []int64
	for _, x := range xs {
		if !seen[x] {
			seen[x] = true
			out = append(out, x)
		}
	}
	return out
}

// c10PatchMuts enumerates the systematic single mutations of a patch stream.
func c10PatchMuts(s *c10Stream) []c10Mut {
	var out []c10Mut
	nT, nS := int64(len(s.TC.Files)), int64(len(s.SC.Files))
	add := func(class, desc string, f func(s *c10Stream)) {
		out = append(out, c10Mut{class, desc, f, false, false})
	}
	maxTsize := int64(0)
	for _, f := range s.TC.Files {
		if f.Size > maxTsize {
			maxTsize = f.Size
		}
	}
	// running state of the bsdiff series being walked: old offset before the current control and
	// size of the old file (so that seeks landing just before 0 / exactly at / just past the end
	// of the old file can be aimed at)
	bsOff, bsOld := int64(0), int64(0)
	bsKnown, bsFirst := false, false // inside a series whose old file is known; no control of it seen yet
	always := func(class, desc string, f func(s *c10Stream)) { out = append(out, c10Mut{class, desc, f, true, false}) }
	alwaysLate := func(class, desc string, f func(s *c10Stream)) { out = append(out, c10Mut{class, desc, f, true, true}) }
	hugeFirst, hugeLater := false, false // a first / a later BLOCK_RANGE op of a series got its huge values
	insertAt := func(s *c10Stream, at int, m proto.Message) {
		s.Msgs = append(s.Msgs[:at:at], append([]proto.Message{m}, s.Msgs[at:]...)...)
	}
	for i, m := range s.Msgs {
		i := i
		switch x := m.(type) {
		case *pwr.SyncHeader:
			for _, v := range c10Uniq([]int64{1 - int64(x.Type), 2, 7, -1, 2049}) {
				v := v
				cls := "sh.type.unknown"
				if v == 0 || v == 1 {
					cls = "sh.type.swapped-kind"
				}
				add(cls, fmt.Sprintf("msg %d SyncHeader.type=%d", i, v), func(s *c10Stream) { s.Msgs[i].(*pwr.SyncHeader).Type = pwr.SyncHeader_Type(v) })
			}
			for _, v := range c10Uniq([]int64{-1, 0, x.FileIndex - 1, x.FileIndex + 1, nS - 1, nS, c10Big62}) {
				v := v
				if v == x.FileIndex {
					continue
				}
				add("sh.fileIndex", fmt.Sprintf("msg %d SyncHeader.fileIndex=%d", i, v), func(s *c10Stream) { s.Msgs[i].(*pwr.SyncHeader).FileIndex = v })
			}
		case *pwr.SyncOp:
			for _, v := range []int64{0, 1, 2049, 2, 7, -1} {
				v := v
				if v == int64(x.Type) {
					continue
				}
				cls := "op.type.unknown"
				if v == 0 || v == 1 || v == 2049 {
					cls = "op.type.other-kind"
				}
				add(cls, fmt.Sprintf("msg %d SyncOp.type=%d", i, v), func(s *c10Stream) { s.Msgs[i].(*pwr.SyncOp).Type = pwr.SyncOp_Type(v) })
			}
			for _, v := range c10Uniq([]int64{-1, 0, nT - 1, nT, nT + 6, c10Big62, -c10Big62}) {
				v := v
				if v == x.FileIndex {
					continue
				}
				add("op.fileIndex", fmt.Sprintf("msg %d SyncOp.fileIndex=%d", i, v), func(s *c10Stream) { s.Msgs[i].(*pwr.SyncOp).FileIndex = v })
			}
			nb := int64(1)
			if x.FileIndex >= 0 && x.FileIndex < nT {
				nb = c10Nb(s.TC.Files[x.FileIndex].Size)
			}
			for _, v := range c10Uniq([]int64{-1, 0, 1, nb - 1, nb, nb + 1, c10Big46, c10Big47, c10Big62, -c10Big62, 1 << 28, 1<<28 - 1, 1<<47 + 1}) {
				v := v
				if v == x.BlockIndex {
					continue
				}
				add("op.blockIndex", fmt.Sprintf("msg %d SyncOp.blockIndex=%d", i, v), func(s *c10Stream) { s.Msgs[i].(*pwr.SyncOp).BlockIndex = v })
			}
			for _, v := range c10Uniq([]int64{-1, 0, 1, nb, nb + 1, c10Big46, c10Big47, c10Big62, -c10Big62}) {
				v := v
				if v == x.BlockSpan {
					continue
				}
				add("op.blockSpan", fmt.Sprintf("msg %d SyncOp.blockSpan=%d", i, v), func(s *c10Stream) { s.Msgs[i].(*pwr.SyncOp).BlockSpan = v })
			}
			for _, v := range []int{0, 1, len(x.Data) + 100} {
				v := v
				if v == len(x.Data) {
					continue
				}
				add("op.data", fmt.Sprintf("msg %d SyncOp.data=%dB", i, v), func(s *c10Stream) { s.Msgs[i].(*pwr.SyncOp).Data = make([]byte, v) })
			}
			// --- "spans ... huge" on an op that is APPLIED: a BLOCK_RANGE naming an existing old file.
			// The span / index fields of DATA and end-marker ops are never read, and the budgeted
			// draw above picks its op blindly; the size arithmetic of wsync.ApplySingleFull (and any
			// loop bounded by a field value) only sees a huge span when it sits on a block range, and
			// a different path when that range is the first op of its series (full-file test first) or
			// a later one (relay loop).  Planned on every run for the first op of either kind.
			if x.Type == pwr.SyncOp_BLOCK_RANGE && x.FileIndex >= 0 && x.FileIndex < nT && i > 0 {
				_, firstOfSeries := s.Msgs[i-1].(*pwr.SyncHeader)
				if (firstOfSeries && !hugeFirst) || (!firstOfSeries && !hugeLater) {
					pos := "a later op"
					if firstOfSeries {
						hugeFirst, pos = true, "the first op"
					} else {
						hugeLater = true
					}
					for _, v := range []int64{1 << 40, c10Big46, c10Big62} {
						v := v
						alwaysLate("op.blockSpan-huge", fmt.Sprintf("msg %d BLOCK_RANGE (%s of its series, old file %d of %d bytes) blockSpan=%d", i, pos, x.FileIndex, s.TC.Files[x.FileIndex].Size, v),
							func(s *c10Stream) { s.Msgs[i].(*pwr.SyncOp).BlockSpan = v })
					}
					for _, v := range []int64{c10Big46, c10Big47 - 1, c10Big62} {
						v := v
						alwaysLate("op.blockIndex-huge", fmt.Sprintf("msg %d BLOCK_RANGE (%s of its series, old file %d of %d bytes) blockIndex=%d", i, pos, x.FileIndex, s.TC.Files[x.FileIndex].Size, v),
							func(s *c10Stream) { s.Msgs[i].(*pwr.SyncOp).BlockIndex = v })
					}
				}
			}
			if x.Type == pwr.SyncOp_DATA {
				// swapped series kinds at field level: a DATA op with blockSpan=1 reads as Control{eof:true}
				add("op.data-as-control-eof", fmt.Sprintf("msg %d SyncOp DATA blockSpan=1", i), func(s *c10Stream) { s.Msgs[i].(*pwr.SyncOp).BlockSpan = 1 })
			}
		case *pwr.BsdiffHeader:
			bsOff, bsOld, bsKnown, bsFirst = 0, 0, false, true
			if x.TargetIndex >= 0 && x.TargetIndex < nT {
				bsOld = s.TC.Files[x.TargetIndex].Size
				bsKnown = true
			}
			for _, v := range c10Uniq([]int64{-1, 0, nT - 1, nT, nT + 6, 2049, c10Big62}) {
				v := v
				if v == x.TargetIndex {
					continue
				}
				add("bh.targetIndex", fmt.Sprintf("msg %d BsdiffHeader.targetIndex=%d", i, v), func(s *c10Stream) { s.Msgs[i].(*pwr.BsdiffHeader).TargetIndex = v })
			}
		case *bsdiff.Control:
			// "-mid": another control is applied afterwards, i.e. the offset this one leaves is used
			mid := ""
			if i+1 < len(s.Msgs) {
				if nx, ok := s.Msgs[i+1].(*bsdiff.Control); ok && !nx.Eof {
					mid = "-mid"
				}
			}
			after := bsOff + int64(len(x.Add)) // old offset after the add, before the seek
			for _, v := range c10Uniq([]int64{-1, 1, -c10Big62, c10Big62, -(maxTsize + 1), maxTsize, maxTsize + 1, 1<<63 - 1, -1 << 63,
				-after - 5, -after - 1, -after, bsOld - after, bsOld - after + 1, bsOld - after - 1}) {
				v := v
				if v == x.Seek {
					continue
				}
				add("ctl.seek"+mid, fmt.Sprintf("msg %d Control.seek=%d", i, v), func(s *c10Stream) { s.Msgs[i].(*bsdiff.Control).Seek = v })
			}
			for _, v := range c10Uniq([]int64{0, 1, int64(len(x.Add)) - 1, int64(len(x.Add)) + 1, maxTsize + 10}) {
				v := v
				if v < 0 || v == int64(len(x.Add)) {
					continue
				}
				add("ctl.add"+mid, fmt.Sprintf("msg %d Control.add=%dB", i, v), func(s *c10Stream) { s.Msgs[i].(*bsdiff.Control).Add = make([]byte, v) })
			}
			for _, v := range c10Uniq([]int64{0, 1, int64(len(x.Copy)) + 1}) {
				v := v
				if v == int64(len(x.Copy)) {
					continue
				}
				add("ctl.copy"+mid, fmt.Sprintf("msg %d Control.copy=%dB", i, v), func(s *c10Stream) { s.Msgs[i].(*bsdiff.Control).Copy = make([]byte, v) })
			}
			// --- adds aimed at the end of the old file ("add lengths past its end"): an add that
			// reaches exactly the end, one that runs one byte past it, and one that STARTS exactly at
			// the end (offset == size is a legal seek, nothing is left to read there).  The applier
			// reads the old file through a cache of 32 KiB chunks with a 32 KiB copy buffer, so these
			// are different paths for old files whose size is / is not a multiple of the chunk size
			// (scenario "chunks") and for adds that start on / off a chunk boundary.
			if bsKnown && !x.Eof && bsOff >= 0 && bsOff <= bsOld && bsOld <= 8<<20 {
				room := bsOld - bsOff
				first, off, old := bsFirst, bsOff, bsOld
				lastOfSeries := false
				if i+1 < len(s.Msgs) {
					if nx, ok := s.Msgs[i+1].(*bsdiff.Control); ok && nx.Eof {
						lastOfSeries = true
					}
				}
				// (planned on every run for the first and the last control of a series, budgeted otherwise)
				reg := add
				if first || lastOfSeries {
					reg = always
				}
				if int64(len(x.Add)) != room {
					reg("ctl.add-to-end", fmt.Sprintf("msg %d Control.add=%dB: from old offset %d exactly to the end of the %d-byte old file", i, room, off, old),
						func(s *c10Stream) { s.Msgs[i].(*bsdiff.Control).Add = make([]byte, room) })
				}
				reg("ctl.add-past-end", fmt.Sprintf("msg %d Control.add=%dB: from old offset %d one byte past the end of the %d-byte old file", i, room+1, off, old),
					func(s *c10Stream) { s.Msgs[i].(*bsdiff.Control).Add = make([]byte, room+1) })
				// this control is made to leave the old offset exactly at the end, and one more control
				// adds a single byte from there
				seekToEnd := old - after
				reg("ctl.add-at-end", fmt.Sprintf("msg %d Control.seek=%d leaves old offset %d = end of the old file, then an inserted Control{add:1B}", i, seekToEnd, old),
					func(s *c10Stream) {
						s.Msgs[i].(*bsdiff.Control).Seek = seekToEnd
						insertAt(s, i+1, &bsdiff.Control{Add: []byte{1}})
					})
				if lastOfSeries && after+x.Seek != old {
					// the untouched series, one more 1-byte add before its eof control, wherever it stands
					at := after + x.Seek
					reg("ctl.add-after-last", fmt.Sprintf("Control{add:1B} inserted before the eof control msg %d (old offset %d of %d)", i+1, at, old),
						func(s *c10Stream) { insertAt(s, i+1, &bsdiff.Control{Add: []byte{1}}) })
				}
			}
			if !x.Eof {
				bsFirst = false
			}
			bsOff = after + x.Seek
			add("ctl.eof"+mid, fmt.Sprintf("msg %d Control.eof flipped", i), func(s *c10Stream) { c := s.Msgs[i].(*bsdiff.Control); c.Eof = !c.Eof })
		}
		// structural mutations at position i
		add("struct.drop", fmt.Sprintf("drop msg %d (%s)", i, c10MsgString(m)), func(s *c10Stream) { s.Msgs = append(s.Msgs[:i:i], s.Msgs[i+1:]...) })
		add("struct.dup", fmt.Sprintf("duplicate msg %d (%s)", i, c10MsgString(m)), func(s *c10Stream) {
			s.Msgs = append(s.Msgs[:i+1:i+1], append([]proto.Message{proto.Clone(s.Msgs[i])}, s.Msgs[i+1:]...)...)
		})
		add("struct.cut", fmt.Sprintf("stream ends before msg %d", i), func(s *c10Stream) { s.Msgs = s.Msgs[:i] })
		if i+1 < len(s.Msgs) {
			add("struct.swap", fmt.Sprintf("swap msgs %d,%d", i, i+1), func(s *c10Stream) { s.Msgs[i], s.Msgs[i+1] = s.Msgs[i+1], s.Msgs[i] })
		}
		foreign := []proto.Message{
			&pwr.SyncOp{Type: pwr.SyncOp_HEY_YOU_DID_IT},
			&pwr.SyncHeader{Type: pwr.SyncHeader_BSDIFF, FileIndex: int64(i)},
			&pwr.BsdiffHeader{TargetIndex: 2049},
			&bsdiff.Control{Eof: true},
			&bsdiff.Control{Add: make([]byte, 5), Copy: make([]byte, 3), Seek: -4},
			&pwr.SyncOp{Type: pwr.SyncOp_DATA, Data: make([]byte, 9)},
			&pwr.SyncOp{Type: pwr.SyncOp_BLOCK_RANGE, FileIndex: 0, BlockIndex: 0, BlockSpan: 1},
			&overlay.OverlayOp{Type: overlay.OverlayOp_HEY_YOU_DID_IT},
			&pwr.BlockHash{WeakHash: 77, StrongHash: make([]byte, 16)},
		}
		for k, fm := range foreign {
			fm := fm
			cls := "struct.insert-foreign"
			if k == 0 {
				cls = "struct.dup-endmarker"
			}
			add(cls, fmt.Sprintf("insert %s before msg %d", c10MsgString(fm), i), func(s *c10Stream) {
				s.Msgs = append(s.Msgs[:i:i], append([]proto.Message{proto.Clone(fm)}, s.Msgs[i:]...)...)
			})
		}
	}
	add("struct.no-endmarkers", "all end markers removed", func(s *c10Stream) {
		var ms []proto.Message
		for _, m := range s.Msgs {
			if op, ok := m.(*pwr.SyncOp); ok && op.Type == pwr.SyncOp_HEY_YOU_DID_IT {
				continue
			}
			ms = append(ms, m)
		}
		s.Msgs = ms
	})
	add("struct.all-kinds-swapped", "every SyncHeader.type flipped", func(s *c10Stream) {
		for _, m := range s.Msgs {
			if sh, ok := m.(*pwr.SyncHeader); ok {
				sh.Type = 1 - sh.Type
			}
		}
	})
	// other well-formed containers around the same messages
	if nT > 0 {
		add("cont.target-shorter", "last file dropped from the old container", func(s *c10Stream) { s.TC.Files = s.TC.Files[:len(s.TC.Files)-1] })
	}
	if nS > 0 {
		add("cont.source-shorter", "last file dropped from the new container", func(s *c10Stream) { s.SC.Files = s.SC.Files[:len(s.SC.Files)-1] })
		add("cont.source-resized", "first new file declared one byte longer", func(s *c10Stream) { s.SC.Files[0].Size++; s.SC.Size++ })
	}
	add("cont.source-longer", "one more (empty) file in the new container", func(s *c10Stream) {
		s.SC.Files = append(s.SC.Files, &tlc.File{Path: "zzz-c10-extra", Mode: 0o644, Size: 0, Offset: s.SC.Size})
	})
	add("cont.source-longer", "one more (5-byte) file in the new container", func(s *c10Stream) {
		s.SC.Files = append(s.SC.Files, &tlc.File{Path: "zzz-c10-extra5", Mode: 0o644, Size: 5, Offset: s.SC.Size})
		s.SC.Size += 5
	})
	return out
}

func c10SigMuts(s *c10Stream) []c10Mut {
	var out []c10Mut
	add := func(class, desc string, f func(s *c10Stream)) {
		out = append(out, c10Mut{Class: class, Desc: desc, Apply: f})
	}
	n := len(s.Msgs)
	for _, k := range []int{1, 2, 3, n / 2, n - 1, n} {
		k := k
		if k <= 0 || k > n {
			continue
		}
		add("sig.fewer-hashes", fmt.Sprintf("last %d of %d hashes dropped", k, n), func(s *c10Stream) { s.Msgs = s.Msgs[:len(s.Msgs)-k] })
	}
	for _, k := range []int{1, 2, 9} {
		k := k
		add("sig.more-hashes", fmt.Sprintf("%d extra hashes", k), func(s *c10Stream) {
			for j := 0; j < k; j++ {
				s.Msgs = append(s.Msgs, &pwr.BlockHash{WeakHash: uint32(j), StrongHash: make([]byte, 16)})
			}
		})
	}
	if n > 1 {
		add("sig.fewer-hashes", "first hash dropped", func(s *c10Stream) { s.Msgs = s.Msgs[1:] })
	}
	for i := 0; i < n && i < 4; i++ {
		i := i
		add("sig.foreign", fmt.Sprintf("hash %d replaced by a SyncOp", i), func(s *c10Stream) {
			s.Msgs[i] = &pwr.SyncOp{Type: pwr.SyncOp_HEY_YOU_DID_IT, FileIndex: -1, Data: make([]byte, 3)}
		})
		add("sig.hash-fields", fmt.Sprintf("hash %d with empty strong hash and max weak hash", i), func(s *c10Stream) {
			s.Msgs[i] = &pwr.BlockHash{WeakHash: 1<<32 - 1}
		})
	}
	// other well-formed containers over the same hash list: fewer / more hashes than it needs
	for _, d := range []int64{-1, 1, lib.BS, -lib.BS, 3 * lib.BS} {
		d := d
		add("sig.container-resized", fmt.Sprintf("first file size %+d", d), func(s *c10Stream) {
			if len(s.SC.Files) > 0 && s.SC.Files[0].Size+d >= 0 {
				s.SC.Files[0].Size += d
				s.SC.Size += d
			}
		})
	}
	add("sig.container-longer", "one more 4-block file in the container", func(s *c10Stream) {
		s.SC.Files = append(s.SC.Files, &tlc.File{Path: "zzz-c10-extra", Mode: 0o644, Size: 3*lib.BS + 1, Offset: s.SC.Size})
		s.SC.Size += 3*lib.BS + 1
	})
	add("sig.container-longer", "one more empty file in the container", func(s *c10Stream) {
		s.SC.Files = append(s.SC.Files, &tlc.File{Path: "zzz-c10-extra0", Mode: 0o644, Size: 0, Offset: s.SC.Size})
	})
	if len(s.SC.Files) > 0 {
		add("sig.container-shorter", "last file dropped from the container", func(s *c10Stream) { s.SC.Files = s.SC.Files[:len(s.SC.Files)-1] })
		add("sig.container-empty", "no file in the container", func(s *c10Stream) { s.SC.Files = nil })
	}
	return out
}

func c10OvlMuts(s *c10Stream, oldLen int64) []c10Mut {
	var out []c10Mut
	add := func(class, desc string, f func(s *c10Stream)) {
		out = append(out, c10Mut{Class: class, Desc: desc, Apply: f})
	}
	for i, m := range s.Msgs {
		i := i
		if x, ok := m.(*overlay.OverlayOp); ok {
			for _, v := range []int64{0, 1, 2040, 2, 7, -1, 2049} {
				v := v
				if v == int64(x.Type) {
					continue
				}
				cls := "ovl.type.unknown"
				if v == 0 || v == 1 || v == 2040 {
					cls = "ovl.type.other-kind"
				}
				add(cls, fmt.Sprintf("msg %d OverlayOp.type=%d", i, v), func(s *c10Stream) { s.Msgs[i].(*overlay.OverlayOp).Type = overlay.OverlayOp_Type(v) })
			}
			for _, v := range c10Uniq([]int64{-1, 0, 1, oldLen, oldLen + 1, -oldLen - 1, 1 << 40, 1<<44 - 4096, 1<<44 - 4095, 1 << 44, c10Big62, -c10Big62, 1<<63 - 1, -1 << 63}) {
				v := v
				if v == x.Len {
					continue
				}
				add("ovl.len", fmt.Sprintf("msg %d OverlayOp.len=%d", i, v), func(s *c10Stream) { s.Msgs[i].(*overlay.OverlayOp).Len = v })
			}
			for _, v := range []int{0, 1, len(x.Data) + 100} {
				v := v
				if v == len(x.Data) {
					continue
				}
				add("ovl.data", fmt.Sprintf("msg %d OverlayOp.data=%dB", i, v), func(s *c10Stream) { s.Msgs[i].(*overlay.OverlayOp).Data = make([]byte, v) })
			}
		}
		add("struct.drop", fmt.Sprintf("drop msg %d (%s)", i, c10MsgString(m)), func(s *c10Stream) { s.Msgs = append(s.Msgs[:i:i], s.Msgs[i+1:]...) })
		add("struct.dup", fmt.Sprintf("duplicate msg %d (%s)", i, c10MsgString(m)), func(s *c10Stream) {
			s.Msgs = append(s.Msgs[:i+1:i+1], append([]proto.Message{proto.Clone(s.Msgs[i])}, s.Msgs[i+1:]...)...)
		})
		add("struct.cut", fmt.Sprintf("stream ends before msg %d", i), func(s *c10Stream) { s.Msgs = s.Msgs[:i] })
		foreign := []proto.Message{
			&overlay.OverlayOp{Type: overlay.OverlayOp_HEY_YOU_DID_IT},
			&overlay.OverlayOp{Type: overlay.OverlayOp_SKIP, Len: c10Big62},
			&overlay.OverlayOp{Type: overlay.OverlayOp_SKIP, Len: -1},
			&overlay.OverlayOp{Type: overlay.OverlayOp_FRESH, Data: make([]byte, 7)},
			&pwr.SyncOp{Type: pwr.SyncOp_HEY_YOU_DID_IT},
			&pwr.SyncOp{Type: pwr.SyncOp_DATA, FileIndex: 1 << 50, Data: make([]byte, 9)},
			&bsdiff.Control{Add: make([]byte, 5), Copy: make([]byte, 3), Seek: -4},
		}
		for k, fm := range foreign {
			fm := fm
			cls := "struct.insert-foreign"
			if k == 0 {
				cls = "struct.dup-endmarker"
			}
			add(cls, fmt.Sprintf("insert %s before msg %d", c10MsgString(fm), i), func(s *c10Stream) {
				s.Msgs = append(s.Msgs[:i:i], append([]proto.Message{proto.Clone(fm)}, s.Msgs[i:]...)...)
			})
		}
	}
	add("struct.no-endmarkers", "end marker removed", func(s *c10Stream) {
		var ms []proto.Message
		for _, m := range s.Msgs {
			if op, ok := m.(*overlay.OverlayOp); ok && op.Type == overlay.OverlayOp_HEY_YOU_DID_IT {
				continue
			}
			ms = append(ms, m)
		}
		s.Msgs = ms
	})
	return out
}

// ---------- one planned case ----------

type c10Plan struct {
	Scenario string
	Base     string // plain | opt | sig | ovl
	Class    string
	Desc     string
	Framing  lib.Compression
	Feeder   string
	Stream   *c10Stream // mutated, decoded form (nil for byte-level cases)
	Bytes    []byte     // encoded stream as fed
	TruncAt  int        // byte-level truncation offset, -1 = none
	Tail     string     // model view of a byte-level truncation: "" (frame aligned) or "B" (inside a frame); "-" = not modelled
	NFrames  int        // byte-level truncation: number of complete frames before the cut
	HasWL    bool
	WL       []int64
	Job      *c10Job
	Corpus   bool
	NoModel  bool // judged by the oracle only (header mutations the reader must stop at: c10_hdr.go)
	sc       *c10Scenario
}

func c10Shuffle(r *lib.Rng, n int) []int {
	p := make([]int, n)
	for i := range p {
		p[i] = i
	}
	for i := n - 1; i > 0; i-- {
		j := r.Intn(i + 1)
		p[i], p[j] = p[j], p[i]
	}
	return p
}

// c10FrameEnds returns, for an UNCOMPRESSED encoding of s, the byte offset where the framed
// messages start and the end offset of each frame.
func c10FrameEnds(s *c10Stream) (start int, ends []int, bodies []int, err error) {
	full, err := c10Encode(s, c10Framings[0])
	if err != nil {
		return 0, nil, nil, err
	}
	t := s.clone()
	t.Msgs = nil
	head, err := c10Encode(t, c10Framings[0])
	if err != nil {
		return 0, nil, nil, err
	}
	start = len(head)
	pos := start
	for _, m := range s.Msgs {
		b, err := proto.Marshal(m)
		if err != nil {
			return 0, nil, nil, err
		}
		var lenbuf [10]byte
		n := 0
		for v := uint64(len(b)); ; {
			if v < 0x80 {
				lenbuf[n] = byte(v)
				n++
				break
			}
			lenbuf[n] = byte(v) | 0x80
			n++
			v >>= 7
		}
		pos += n + len(b)
		ends = append(ends, pos)
		bodies = append(bodies, len(b))
	}
	if pos != len(full) {
		return 0, nil, nil, fmt.Errorf("C10: frame accounting %d != %d", pos, len(full))
	}
	return start, ends, bodies, nil
}

func (p *c10Plan) feederJob() *c10Job {
	j := &c10Job{Feeder: p.Feeder, Stream: p.Bytes, Work: p.sc.WorkDir}
	switch p.Feeder {
	case c10FPatFresh, c10FPatOverlay:
		j.Old = p.sc.OldDir
		j.HasWL, j.WL = p.HasWL, p.WL
	case c10FRediff:
		j.Old, j.New = p.sc.OldDir, p.sc.NewDir
	case c10FOverlay:
		j.Old = p.sc.OvlOldPath
	}
	return j
}

// c10N: case counts per tier; the search tier (run by the pipeline after a correspondence break,
// three times with other seeds) has the size of a quick run but mutates twice more often.
func c10N(c *Ctx, quick, thorough int) int {
	if c.Tier == "thorough" {
		return thorough
	}
	return quick
}

func c10Deep(c *Ctx) bool { return c.Tier == "thorough" }

// c10LateRng: the k-th random stream of the classes added in later rounds (header frame, magic
// number, huge spans on applied block ranges).  It derives from the run's seed like everything
// else (a seed replays exactly) but not from c.Rng's sequence: the classes of the earlier rounds
// keep the draws they had, so an input a given seed found before is still found after a class
// was added.
func c10LateRng(c *Ctx, k *uint64) *lib.Rng {
	*k++
	return lib.NewRng(c.Seed*1000003 + 0xC10<<20 + *k)
}

func runC10(c *Ctx) error {
	r := c.Rng.Fork()
	scs := c10FixedScenarios(r.Fork())
	nRand := c10N(c, 2, 4)
	for i := 0; i < nRand; i++ {
		cr := r.Fork()
		old, nw, rel := lib.GenPair(cr, lib.PairOpts{MaxFiles: 4, MaxSize: 3 * lib.BS, Links: true})
		scs = append(scs, &c10Scenario{Name: fmt.Sprintf("rand%d[%s]", i, strings.Join(rel, ",")), Old: old, New: nw})
	}
	// seeded pairs whose file sizes sit on / next to multiples of the 32 KiB cache chunk
	for i := 0; i < c10N(c, 1, 2); i++ {
		old, nw, rel := c10ChunkPair(r.Fork())
		scs = append(scs, &c10Scenario{Name: fmt.Sprintf("chunkrand%d[%s]", i, strings.Join(rel, ",")), Old: old, New: nw})
	}
	for i, sc := range scs {
		if err := c10Prepare(c, sc, i); err != nil {
			return err
		}
	}
	lim, err := c10ProbeLimits(c.Tmp)
	if err != nil {
		return err
	}

	var plans []*c10Plan
	addPlan := func(p *c10Plan) {
		if p.Stream != nil && p.Bytes == nil {
			b, err := c10Encode(p.Stream, p.Framing)
			if err != nil {
				return
			}
			p.Bytes = b
		}
		p.Job = p.feederJob()
		plans = append(plans, p)
	}

	// --- corpus: the inputs that failed on the unchanged tree, first ---
	c10Corpus(scs, addPlan)
	c10HdrCorpus(scs[0], addPlan)

	// --- field-level mutations ---
	perBase := c10N(c, 40, 180)
	nLate := uint64(0)
	for _, sc := range scs {
		type baseT struct {
			name string
			s    *c10Stream
			muts []c10Mut
		}
		var bases []baseT
		bases = append(bases, baseT{"plain", sc.Plain, c10PatchMuts(sc.Plain)})
		if sc.Opt != nil {
			bases = append(bases, baseT{"opt", sc.Opt, c10PatchMuts(sc.Opt)})
		}
		bases = append(bases, baseT{"sig", sc.Sig, c10SigMuts(sc.Sig)})
		bases = append(bases, baseT{"ovl", sc.Ovl, c10OvlMuts(sc.Ovl, int64(sc.OvlOldLen))})
		for _, b := range bases {
			cr := r.Fork()
			lr := c10LateRng(c, &nLate)
			// the unmutated stream under every framing
			for _, fr := range c10Framings {
				if b.name == "ovl" && fr.Algo != pwr.CompressionAlgorithm_NONE {
					continue
				}
				for _, fd := range c10FeedersFor(b.name, cr, true) {
					addPlan(&c10Plan{Scenario: sc.Name, Base: b.name, Class: "valid", Desc: "unmutated", Framing: fr, Feeder: fd, Stream: b.s.clone(), TruncAt: -1, sc: sc})
				}
				if b.name == "plain" || b.name == "opt" {
					wl := []int64{}
					for i := range b.s.SC.Files {
						if cr.Bool() {
							wl = append(wl, int64(i))
						}
					}
					addPlan(&c10Plan{Scenario: sc.Name, Base: b.name, Class: "valid", Desc: fmt.Sprintf("unmutated [whitelist %v]", wl), Framing: fr, Feeder: c10FPatFresh, Stream: b.s.clone(), TruncAt: -1, sc: sc, HasWL: true, WL: wl})
				}
			}
			// the boundary mutations that are planned on every run (bsdiff adds aimed at the end of
			// the old file): fed to the patcher (the optimizer never applies a bsdiff series)
			var budgeted []int
			for mi, m := range b.muts {
				if !m.Always {
					budgeted = append(budgeted, mi)
					continue
				}
				s := b.s.clone()
				m.Apply(s)
				ar := cr
				if m.Late {
					ar = lr
				}
				fr := c10Framings[ar.Intn(len(c10Framings))]
				feeders := []string{c10FPatFresh}
				if ar.Chance(1, 4) {
					feeders = append(feeders, c10FPatOverlay)
				}
				for _, fd := range feeders {
					addPlan(&c10Plan{Scenario: sc.Name, Base: b.name, Class: m.Class, Desc: m.Desc, Framing: fr, Feeder: fd, Stream: s, TruncAt: -1, sc: sc})
				}
			}
			// another magic number, field-level mutations of the header frame in front of the containers (c10_hdr.go)
			c10MagicPlans(lr, sc, b.name, b.s, c10N(c, 3, 11), addPlan)
			if b.name != "ovl" {
				nSame := c10N(c, 3, 12)
				if b.name == "opt" {
					nSame = c10N(c, 2, 8) // (32 MiB LRU cache per applied bsdiff series, see below)
				}
				if err := c10HdrPlans(lr, sc, b.name, b.s, nSame, addPlan); err != nil {
					return err
				}
			}
			order := c10Shuffle(cr, len(budgeted))
			for k, j := range order {
				order[k] = budgeted[j]
			}
			// keep every mutation class represented: stable-sort the shuffled order round-robin by class
			order = c10RoundRobin(cr, order, func(i int) string { return b.muts[i].Class }, b.name == "opt")
			budget := perBase
			if b.name == "sig" {
				budget = perBase / 2
			}
			if b.name == "opt" {
				// every patcher that meets a bsdiff series allocates (and zeroes) a 32 MiB LRU
				// cache (bsdiff/lrufile.New): ~0.1-0.2 s per case
				budget = perBase / 3
			}
			for k, mi := range order {
				if k >= budget {
					break
				}
				m := b.muts[mi]
				s := b.s.clone()
				m.Apply(s)
				desc := m.Desc
				cls := m.Class
				// thorough: sometimes a second independent mutation on top
				if (c10Deep(c) && cr.Chance(1, 4)) || (c.Tier == "search" && cr.Chance(1, 2)) {
					var m2s []c10Mut
					switch b.name {
					case "sig":
						m2s = c10SigMuts(s)
					case "ovl":
						m2s = c10OvlMuts(s, int64(sc.OvlOldLen))
					default:
						for _, m2 := range c10PatchMuts(s) {
							if !m2.Late { // (the pool the second mutation is drawn from stays what it was)
								m2s = append(m2s, m2)
							}
						}
					}
					if len(m2s) > 0 {
						m2 := m2s[cr.Intn(len(m2s))]
						m2.Apply(s)
						desc += " + " + m2.Desc
						cls = "double"
					}
				}
				fr := c10Framings[cr.Intn(len(c10Framings))]
				if b.name == "ovl" {
					fr = c10Framings[0]
				}
				for _, fd := range c10FeedersFor(b.name, cr, false) {
					p := &c10Plan{Scenario: sc.Name, Base: b.name, Class: cls, Desc: desc, Framing: fr, Feeder: fd, Stream: s, TruncAt: -1, sc: sc}
					if (fd == c10FPatFresh || fd == c10FPatOverlay) && cr.Chance(1, 4) {
						// partial application: only whitelisted files are patched, the others' series are skipped
						p.HasWL = true
						p.WL = []int64{}
						for i := range s.SC.Files {
							if cr.Bool() {
								p.WL = append(p.WL, int64(i))
							}
						}
						if cr.Chance(1, 5) {
							p.WL = append(p.WL, int64(len(s.SC.Files))+3)
						}
						p.Desc += fmt.Sprintf(" [whitelist %v]", p.WL)
					}
					addPlan(p)
				}
			}
		}
	}

	// --- byte-level truncations of the valid streams ---
	for _, sc := range scs {
		cr := r.Fork()
		type baseT struct {
			name string
			s    *c10Stream
		}
		bases := []baseT{{"plain", sc.Plain}, {"sig", sc.Sig}, {"ovl", sc.Ovl}}
		if sc.Opt != nil {
			bases = append(bases, baseT{"opt", sc.Opt})
		}
		for _, b := range bases {
			for _, fr := range c10Framings {
				if b.name == "ovl" && fr.Algo != pwr.CompressionAlgorithm_NONE {
					continue
				}
				full, err := c10Encode(b.s, fr)
				if err != nil {
					return err
				}
				var start int
				var ends, bodies []int
				if fr.Algo == pwr.CompressionAlgorithm_NONE {
					if start, ends, bodies, err = c10FrameEnds(b.s); err != nil {
						return err
					}
				}
				offs := map[int]bool{}
				every := c10N(c, 260, 400)
				if sc.Name != "tiny" && !c10Deep(c) {
					every = 0
				}
				if b.name == "opt" && fr.Algo != pwr.CompressionAlgorithm_NONE && !c10Deep(c) {
					every = 0 // (32 MiB LRU cache per case, see above)
				}
				if len(full) <= every {
					for o := 0; o < len(full); o++ {
						offs[o] = true
					}
				} else {
					if c10Deep(c) {
						for o := 0; o < 48 && o < len(full); o++ {
							offs[o] = true
							offs[len(full)-1-o] = true
						}
					}
					for _, e := range ends { // around every frame boundary
						for d := -1; d <= 1; d++ {
							if e+d >= 0 && e+d < len(full) && (c10Deep(c) || cr.Chance(1, 6)) {
								offs[e+d] = true
							}
						}
					}
					for k := 0; k < c10N(c, 8, 60); k++ {
						offs[cr.Intn(len(full))] = true
					}
				}
				var sorted []int
				for o := range offs {
					sorted = append(sorted, o)
				}
				sort.Ints(sorted)
				max := c10N(c, 260, 350)
				if b.name == "opt" && !c10Deep(c) {
					max = 12 // (32 MiB LRU cache per case)
					if fr.Algo != pwr.CompressionAlgorithm_NONE {
						max = 3
					}
				}
				if len(sorted) > max { // thin out evenly, keep the ends
					var t []int
					for k := 0; k < max; k++ {
						t = append(t, sorted[k*len(sorted)/max])
					}
					sorted = t
				}
				for _, o := range sorted {
					if fr.Algo != pwr.CompressionAlgorithm_NONE && !c10Deep(c) && len(full) <= every && o%3 != 0 && o > 16 && o < len(full)-8 {
						continue // compressed framing, quick tier: every third offset
					}
					feeders := c10FeedersFor(b.name, cr, false)
					if !c10Deep(c) && len(feeders) > 1 && o%2 == 1 {
						feeders = feeders[:1] // quick tier: the optimizer sees every other truncation
					}
					for _, fd := range feeders {
						p := &c10Plan{Scenario: sc.Name, Base: b.name, Class: "trunc/" + b.name, Desc: fmt.Sprintf("truncated at byte %d of %d", o, len(full)), Framing: fr, Feeder: fd,
							Stream: b.s, Bytes: full[:o], TruncAt: o, Tail: "-", sc: sc}
						if fr.Algo == pwr.CompressionAlgorithm_NONE && o >= start {
							n := 0
							for n < len(ends) && ends[n] <= o {
								n++
							}
							p.NFrames = n
							p.Tail = "B"
							if o == start || (n > 0 && ends[n-1] == o) {
								p.Tail = ""
							}
							// a cut right behind the length prefix of a non-empty frame: io.ReadFull reads
							// nothing and reports a clean io.EOF (not ErrUnexpectedEOF)
							if n < len(ends) && bodies[n] > 0 && o == ends[n]-bodies[n] {
								p.Tail = ""
							}
						}
						addPlan(p)
					}
				}
			}
		}
	}

	jobs := make([]*c10Job, len(plans))
	for i, p := range plans {
		jobs[i] = p.Job
	}
	results, err := c10RunJobs(c, jobs)
	if err != nil {
		return err
	}
	for i, p := range plans {
		c10Emit(c, p, results[i], lim)
	}
	for i := range scs {
		removeAll(filepath.Join(c.Tmp, fmt.Sprintf("c10-sc%d", i)))
	}
	return nil
}

// c10RoundRobin reorders a shuffled index list so that the mutation classes take turns (in an
// order drawn per base stream): a small budget still meets every class over a few scenarios.
// With bsdiffFirst the classes that only a bsdiff series has (bh.*, ctl.*) come first in every turn.
func c10RoundRobin(r *lib.Rng, order []int, key func(int) string, bsdiffFirst bool) []int {
	buckets := map[string][]int{}
	var keys []string
	for _, i := range order {
		k := key(i)
		if _, ok := buckets[k]; !ok {
			keys = append(keys, k)
		}
		buckets[k] = append(buckets[k], i)
	}
	sort.Strings(keys)
	perm := c10Shuffle(r, len(keys))
	shuffled := make([]string, len(keys))
	for i, j := range perm {
		shuffled[i] = keys[j]
	}
	keys = shuffled
	if bsdiffFirst {
		sort.SliceStable(keys, func(i, j int) bool {
			pi := strings.HasPrefix(keys[i], "bh.") || strings.HasPrefix(keys[i], "ctl.")
			pj := strings.HasPrefix(keys[j], "bh.") || strings.HasPrefix(keys[j], "ctl.")
			return pi && !pj
		})
	}
	var out []int
	for len(out) < len(order) {
		for _, k := range keys {
			if b := buckets[k]; len(b) > 0 {
				out = append(out, b[0])
				buckets[k] = b[1:]
			}
		}
	}
	return out
}

// c10FeedersFor: which readers a stream of the given base kind is fed to.
func c10FeedersFor(base string, r *lib.Rng, all bool) []string {
	switch base {
	case "sig":
		return []string{c10FSig}
	case "ovl":
		return []string{c10FOverlay}
	}
	fs := []string{c10FPatFresh, c10FRediff}
	if all || r.Chance(1, 3) {
		fs = append(fs, c10FPatOverlay)
	}
	return fs
}
