// wharfobs runs itchio/wharf (built from /repo's working tree through the module replace)
// on generated cases of one property and prints one JSON line per case: input, projected
// observables, the verdict of the independent property oracle, and the case as a Coq term.
package main

import (
	"flag"
	"fmt"
	"os"
	"sort"

	"verif/harness/lib"
)

type Ctx struct {
	Seed   uint64
	Tier   string // quick | thorough | search
	Rng    *lib.Rng
	Out    *lib.Out
	Replay string // path of a replay/corpus file to run instead of generating
	Tmp    string // scratch directory (removed by the caller)
}

func (c *Ctx) Thorough() bool { return c.Tier != "quick" }

// N picks the case count by tier
func (c *Ctx) N(quick, thorough int) int {
	if c.Tier == "quick" {
		return quick
	}
	if c.Tier == "search" {
		return thorough * 2
	}
	return thorough
}

var registry = map[string]func(*Ctx) error{}

func register(name string, f func(*Ctx) error) { registry[name] = f }

func main() {
	if len(os.Args) < 2 {
		names := []string{}
		for k := range registry {
			names = append(names, k)
		}
		sort.Strings(names)
		fmt.Fprintln(os.Stderr, "usage: wharfobs <property> -seed N -tier quick|thorough|search -out FILE; properties:", names)
		os.Exit(2)
	}
	prop := os.Args[1]
	fs := flag.NewFlagSet(prop, flag.ExitOnError)
	seed := fs.Uint64("seed", 1, "seed")
	tier := fs.String("tier", "quick", "quick|thorough|search")
	out := fs.String("out", "/dev/stdout", "observation file")
	replay := fs.String("replay", "", "replay file")
	tmp := fs.String("tmp", "", "scratch dir")
	fs.Parse(os.Args[2:])
	f, ok := registry[prop]
	if !ok {
		fmt.Fprintln(os.Stderr, "unknown property", prop)
		os.Exit(2)
	}
	o, err := lib.NewOut(*out)
	if err != nil {
		fmt.Fprintln(os.Stderr, err)
		os.Exit(2)
	}
	t := *tmp
	if t == "" {
		t, err = os.MkdirTemp("", "wharfobs")
		if err != nil {
			fmt.Fprintln(os.Stderr, err)
			os.Exit(2)
		}
		defer os.RemoveAll(t)
	}
	ctx := &Ctx{Seed: *seed, Tier: *tier, Rng: lib.NewRng(*seed), Out: o, Replay: *replay, Tmp: t}
	err = f(ctx)
	o.Close()
	if err != nil {
		fmt.Fprintln(os.Stderr, "harness error:", err)
		os.RemoveAll(t)
		os.Exit(3)
	}
}

func removeAll(p string) { os.RemoveAll(p) }
