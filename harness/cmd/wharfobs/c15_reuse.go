package main

// C15 — what a bsdiff.DiffContext diffed before is a configuration too.
//
// A DiffContext is made to be used again: rediff.Optimize creates one and walks all the files
// of a patch with it, and the context keeps its two input buffers, the suffix array and the
// add-bytes buffer from one Do to the next.  "The same pair with the same settings always gives
// the same bytes" therefore quantifies over the history of the context as well: whatever pairs
// it has diffed before — smaller or larger ones, files of a few bytes for which the partition
// count does not apply, the same pair — the control messages for (old, new) are those of a fresh
// context with the same settings.
//
// Class bsdiff/reused-context/p<N> (oracle-only, group ""): a generated sequence of 2..6 pairs
// (tiny files of 0..p+3 and up to 64 bytes, small files, and files of 20 KB..300 KB that are
// edited, rotated, shuffled or hold twin blocks) is diffed
//   - pair by pair, each with a fresh context (reference; plain readers),
//   - in the generated order with ONE context, and in other orders (reversed, then PRNG
//     permutations) with one more context each, under GOMAXPROCS 1,2,8,16, through readers that
//     slice, yield and end in the three ways;
// oracle: every stream of a used context equals the reference stream of its pair, and replays to
// new.  For every pair that is not tiny the reference is also computed with Partitions 1: when it
// differs the pair is "partition-sensitive" (observation; a sequence without such a pair could not
// show a partition count that drifts).

import (
	"bytes"
	"encoding/hex"
	"fmt"
	"time"

	"github.com/itchio/wharf/bsdiff"

	"verif/harness/lib"
)

type c15ReuseStep struct {
	kind    string
	old, nw []byte
}

func (s *c15ReuseStep) String() string {
	return fmt.Sprintf("%s(%d/%d)", s.kind, len(s.old), len(s.nw))
}

// old files of a few bytes: around the point where bsdiff stops partitioning
// (partitions >= len(old)-1), and a little above
func c15TinyLen(r *lib.Rng, partitions int) int {
	p := max(partitions, 1)
	return []int{0, 1, 2, 3, p - 1, p, p + 1, p + 2, p + 3, r.Range(4, 64)}[r.Intn(10)]
}

func c15GenReuseStep(r *lib.Rng, kind string, partitions int, thorough bool) c15ReuseStep {
	s := c15ReuseStep{kind: kind}
	sizes := []int{20000, 65536, 128*1024 - 1, 128 * 1024, 128*1024 + 1, 200000, 300 * 1024}
	if thorough {
		sizes = append(sizes, 600000, 5*128*1024+77)
	}
	switch kind {
	case "tiny": // a version stamp, an empty marker file, a flag
		s.old = r.Bytes(c15TinyLen(r, partitions))
		switch r.Intn(4) {
		case 0: // one byte changed
			s.nw = append([]byte(nil), s.old...)
			if len(s.nw) > 0 {
				s.nw[r.Intn(len(s.nw))] ^= byte(1 + r.Intn(255))
			}
		case 1: // grown
			s.nw = append(append([]byte(nil), s.old...), r.Bytes(r.Range(1, 40))...)
		case 2: // unrelated
			s.nw = r.Bytes(c15TinyLen(r, partitions))
		default: // cut
			s.nw = append([]byte(nil), s.old[:len(s.old)/2]...)
		}
		if len(s.nw) == 0 { // bsdiff of an empty new file is not this property's subject
			s.nw = r.Bytes(r.Range(1, 3))
		}
	case "small":
		s.old = lib.GenContent(r, r.Range(100, 5000))
		s.nw = s.old
		for k := r.Range(1, 3); k > 0; k-- {
			s.nw, _ = lib.Edit(r, s.nw)
		}
		if len(s.nw) == 0 {
			s.nw = r.Bytes(10)
		}
	case "rotated": // a region moved to the end, a byte flipped every few KB
		n := sizes[r.Intn(len(sizes))]
		s.old = r.Bytes(n)
		k := r.Range(1, n-1)
		s.nw = append(append([]byte(nil), s.old[k:]...), s.old[:k]...)
		for i := r.Range(0, 2000); i < len(s.nw); i += r.Range(3000, 9000) {
			s.nw[i] ^= 0x5a
		}
	case "shuffled":
		s.old = r.Bytes(sizes[r.Intn(len(sizes))])
		s.nw = c15Shuffle(r, s.old, r.Range(30000, 200000), []int{120, 250, 400}[r.Intn(3)])
	case "twins":
		s.old, s.nw = c15GenBsdiffPair(r, "twins", false, partitions)
	default: // "edits"
		s.old = lib.GenContent(r, sizes[r.Intn(len(sizes))])
		s.nw = s.old
		for k := r.Range(1, 5); k > 0; k-- {
			s.nw, _ = lib.Edit(r, s.nw)
		}
		if len(s.nw) < 1024 {
			s.nw = append(append([]byte(nil), s.nw...), r.Bytes(1500)...)
		}
	}
	return s
}

var c15ReuseMedium = []string{"edits", "rotated", "shuffled", "twins", "edits", "rotated"}

// a sequence with at least one tiny or small pair and at least one larger one, in any order;
// one sequence in three takes up an earlier pair again at its end
func c15GenReuseSeq(r *lib.Rng, partitions int, thorough bool) []c15ReuseStep {
	n := r.Range(2, 5)
	kinds := make([]string, n)
	for j := range kinds {
		switch {
		case r.Chance(2, 5):
			kinds[j] = "tiny"
		case r.Chance(1, 5):
			kinds[j] = "small"
		default:
			kinds[j] = c15ReuseMedium[r.Intn(len(c15ReuseMedium))]
		}
	}
	x := r.Intn(n)
	y := (x + 1 + r.Intn(n-1)) % n
	kinds[x] = []string{"tiny", "tiny", "tiny", "small"}[r.Intn(4)]
	kinds[y] = c15ReuseMedium[r.Intn(len(c15ReuseMedium))]
	steps := make([]c15ReuseStep, 0, n+1)
	for _, k := range kinds {
		steps = append(steps, c15GenReuseStep(r.Fork(), k, partitions, thorough))
	}
	if r.Chance(1, 3) {
		again := steps[r.Intn(len(steps))]
		again.kind += "-again"
		steps = append(steps, again)
	}
	return steps
}

type c15ReuseRef struct {
	stream    []byte
	cls       string
	sensitive bool
}

func c15IsTiny(s *c15ReuseStep) bool { return len(s.old) <= 64 }

// c15ReusedContext runs one case; orders[0] is the generated order
func c15ReusedContext(c *Ctx, cr *lib.Rng, steps []c15ReuseStep, partitions, conc, i int, orders [][]int, corpus string) {
	oracle := ""
	refs := make([]c15ReuseRef, len(steps))
	run := func(dc *bsdiff.DiffContext, s *c15ReuseStep, procs int, rng *lib.Rng, mode int) (stream, replay []byte, cls, msg string) {
		withProcs(procs, func() {
			cls, msg = lib.WithDeadline(120*time.Second, func() error {
				var err error
				stream, _, replay, _, _, err = c15RunBsdiffOn(dc, s.old, s.nw, rng, mode, nil)
				return err
			})
		})
		return
	}
	fresh := func(p int) *bsdiff.DiffContext {
		return &bsdiff.DiffContext{Partitions: p, SuffixSortConcurrency: conc}
	}
	// references: every pair on a context of its own
	for j := range steps {
		s := &steps[j]
		stream, replay, cls, msg := run(fresh(partitions), s, c15Procs[(i+j)%len(c15Procs)], nil, eofSeparate)
		refs[j] = c15ReuseRef{stream: stream, cls: cls}
		switch {
		case cls == "panic" || cls == "hang":
			oracle = fmt.Sprintf("pair %d %s on a fresh context: bsdiff %s: %s", j, s, cls, msg)
		case cls == "ok" && !bytes.Equal(replay, s.nw):
			oracle = fmt.Sprintf("pair %d %s on a fresh context: replaying the control messages on old gives %d bytes that differ from new at %d", j, s, len(replay), firstDiffAt(replay, s.nw))
		case cls == "ok" && !c15IsTiny(s) && partitions > 1:
			one, _, cls1, _ := run(fresh(1), s, c15Procs[(i+j)%len(c15Procs)], nil, eofSeparate)
			refs[j].sensitive = cls1 == "ok" && !bytes.Equal(one, stream)
		}
		if oracle != "" {
			break
		}
	}
	var ordersRun [][]int
	var procsUsed []int
	for k := 0; k < len(orders) && oracle == ""; k++ {
		order := orders[k]
		ordersRun = append(ordersRun, order)
		procs := c15Procs[(k+i)%len(c15Procs)]
		procsUsed = append(procsUsed, procs)
		dc := fresh(partitions)
		var before []string
		for _, j := range order {
			s := &steps[j]
			stream, replay, cls, msg := run(dc, s, procs, cr.Fork(), (k+j)%3)
			hist := "a fresh context"
			if len(before) > 0 {
				hist = fmt.Sprintf("a context that had diffed %v before", before)
			}
			how := fmt.Sprintf("order %d: pair %d %s on %s (GOMAXPROCS %d, slicing readers, EOF %s)", k, j, s, hist, procs, c15EOFModes[(k+j)%3])
			settings := ""
			if dc.Partitions != partitions || dc.SuffixSortConcurrency != conc {
				settings = fmt.Sprintf("; the context's settings are now partitions %d, concurrency %d", dc.Partitions, dc.SuffixSortConcurrency)
			}
			switch {
			case cls != refs[j].cls:
				oracle = fmt.Sprintf("%s: bsdiff %s (%s), a fresh context with the same settings (partitions %d, concurrency %d): %s%s", how, cls, msg, partitions, conc, refs[j].cls, settings)
			case cls != "ok":
			case !bytes.Equal(stream, refs[j].stream):
				oracle = fmt.Sprintf("%s: control message stream differs from that of a fresh context with the same settings (partitions %d, concurrency %d) for the same pair (len %d vs %d, first difference at %d)%s",
					how, partitions, conc, len(stream), len(refs[j].stream), firstDiffAt(stream, refs[j].stream), settings)
			case !bytes.Equal(replay, s.nw):
				oracle = fmt.Sprintf("%s: replaying the control messages on old gives %d bytes that differ from new at %d", how, len(replay), firstDiffAt(replay, s.nw))
			}
			if oracle != "" {
				break
			}
			before = append(before, s.String())
		}
	}
	var in []map[string]interface{}
	var streamLens []int
	var classes []string
	sensitive := 0
	for j := range steps {
		s := &steps[j]
		d := map[string]interface{}{"kind": s.kind, "oldLen": len(s.old), "newLen": len(s.nw), "oldSha": lib.Digest(s.old), "newSha": lib.Digest(s.nw)}
		if c15IsTiny(s) && len(s.nw) <= 128 {
			d["oldHex"], d["newHex"] = hex.EncodeToString(s.old), hex.EncodeToString(s.nw)
		}
		in = append(in, d)
		streamLens = append(streamLens, len(refs[j].stream))
		classes = append(classes, refs[j].cls)
		if refs[j].sensitive {
			sensitive++
		}
	}
	cl := fmt.Sprintf("bsdiff/reused-context/p%d", partitions)
	if corpus != "" {
		cl = "corpus/" + corpus
	}
	c.Out.Emit(&lib.Case{Class: cl, Nontrivial: len(steps) >= 2 && len(ordersRun) >= 1,
		Input:  map[string]interface{}{"partitions": partitions, "suffixSortConcurrency": conc, "pairs": in, "orders": orders},
		Obs:    map[string]interface{}{"ordersRun": len(ordersRun), "procs": procsUsed, "refStreamLens": streamLens, "refClasses": classes, "partitionSensitivePairs": sensitive},
		Oracle: oracle})
}

// the generated order, the reversed one, then PRNG permutations
func c15ReuseOrders(r *lib.Rng, n, count int) [][]int {
	id := make([]int, n)
	rev := make([]int, n)
	for j := range id {
		id[j], rev[j] = j, n-1-j
	}
	orders := [][]int{id, rev}
	for len(orders) < count {
		o := append([]int(nil), id...)
		for j := n - 1; j > 0; j-- {
			x := r.Intn(j + 1)
			o[j], o[x] = o[x], o[j]
		}
		orders = append(orders, o)
	}
	return orders[:count]
}

func c15ReuseCases(c *Ctx) error {
	// corpus: the sequence that showed a partition count written back into the context (seeded
	// change): a 3-byte version stamp, then a 300 KiB file of which a region moved — with 4
	// partitions, as rediff does when it walks the files of a patch with one context
	{
		r := lib.NewRng(1577)
		big := c15ReuseStep{kind: "rotated", old: r.Bytes(300 * 1024)}
		big.nw = append(append([]byte(nil), big.old[40*1024:]...), big.old[:40*1024]...)
		for i := 1000; i < len(big.nw); i += 7919 {
			big.nw[i] ^= 0x5a
		}
		steps := []c15ReuseStep{{kind: "tiny", old: []byte("v1\n"), nw: []byte("v2\n")}, big}
		c15ReusedContext(c, r, steps, 4, 0, 0, c15ReuseOrders(r, 2, 2), "bsdiff-reused-context-after-tiny-file")
	}
	// a stream of its own, derived from the seed: the other phases keep the cases they had
	r := lib.NewRng(c.Seed*1000003 + 1577)
	n := c.N(8, 48)
	for i := 0; i < n; i++ {
		cr := r.Fork()
		partitions := []int{4, 2, 3, 8, 4, 2, 1, 0}[(i+int(c.Seed))%8]
		steps := c15GenReuseSeq(cr, partitions, c.Thorough())
		c15ReusedContext(c, cr, steps, partitions, []int{0, 2}[i%2], i, c15ReuseOrders(cr, len(steps), c.N(2, 4)), "")
	}
	return nil
}
