package main

import (
	"os"
	"runtime/pprof"
)

func c03Prof() func() {
	p := os.Getenv("C03_PROF")
	if p == "" {
		return func() {}
	}
	f, _ := os.Create(p)
	pprof.StartCPUProfile(f)
	return func() { pprof.StopCPUProfile(); f.Close() }
}
