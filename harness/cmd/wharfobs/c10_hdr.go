package main

// C10 — field-level mutations of the HEADER frame of a patch / signature stream.
//
// A patch is magic, PatchHeader, [containers and series under the framing the header names]; a
// signature is magic, SignatureHeader, [container, hashes].  The header is a framed message like
// any other ("framed messages carry arbitrary field values"), read by patcher.New,
// rediff.NewContext / Optimize and pwr.ReadSignature and handed to pwr.DecompressWire, but every
// writer of the project emits the same three headers (CompressionSettings{NONE|GZIP|BROTLI, q}),
// so a valid stream - and every mutation behind the containers - only ever shows the readers a
// header with the sub-message present and a registered algorithm.
//
// Here the header payload is written by hand at protobuf wire level (tag / varint / length
// delimited), spliced into the encoded stream in place of the writer's header, and the stream is
// fed to the same readers.  The property's guard limits what can be judged: the two containers
// must stay well-formed and no frame may declare a length beyond the stream, so a header that
// makes the reader take the body under ANOTHER framing than it was written with is only generated
// when the reader provably stops before it reads a frame from the body:
//   - no / unreadable settings, an algorithm without registered decompressor: DecompressWire fails;
//   - GZIP named over a body that does not start with the gzip magic 1f 8b: the gzip reader
//     rejects the stream header before it yields a byte.
// (NONE over a compressed body, BROTLI over anything else: the reader would parse decompressor
// output / compressed bytes as frames of arbitrary declared length and as containers: outside the
// guard, not generated.)
// Headers whose effective settings name the body's own algorithm (any quality, unknown extra
// fields, explicit defaults, a varint that truncates to the algorithm, settings given twice) must
// behave as the unmutated stream: these keep the model correspondence of their group; the
// must-fail ones are judged by the oracle alone (class ok|error) - the model starts behind the
// containers.

import (
	"encoding/hex"
	"fmt"

	"github.com/golang/protobuf/proto"

	"github.com/itchio/wharf/pwr"
	"github.com/itchio/wharf/pwr/overlay"

	"verif/harness/lib"
)

// ---------- protobuf wire level ----------

func c10PbUvarint(b []byte, v uint64) []byte {
	for v >= 0x80 {
		b = append(b, byte(v)|0x80)
		v >>= 7
	}
	return append(b, byte(v))
}

// c10PbV: field num, wire type 0, value v (negative values as the 10-byte two's complement varint)
func c10PbV(num int, v int64) []byte {
	return c10PbUvarint(c10PbUvarint(nil, uint64(num)<<3), uint64(v))
}

// c10PbL: field num, wire type 2, payload
func c10PbL(num int, payload []byte) []byte {
	b := c10PbUvarint(c10PbUvarint(nil, uint64(num)<<3|2), uint64(len(payload)))
	return append(b, payload...)
}

// c10PbF32: field num, wire type 5
func c10PbF32(num int) []byte {
	return append(c10PbUvarint(nil, uint64(num)<<3|5), 1, 2, 3, 4)
}

func c10Cat(parts ...[]byte) []byte {
	out := []byte{}
	for _, p := range parts {
		out = append(out, p...)
	}
	return out
}

// c10HeaderSpan locates the header frame of an encoded patch / signature: the payload is
// enc[lo:hi], the body (what DecompressWire gets) starts at hi.
func c10HeaderSpan(enc []byte) (lo, hi int, err error) {
	if len(enc) < 5 {
		return 0, 0, fmt.Errorf("C10: stream too short for a header")
	}
	l, n := c10Uvarint(enc[4:])
	if n < 0 || uint64(len(enc)-4-n) < l {
		return 0, 0, fmt.Errorf("C10: bad header frame")
	}
	return 4 + n, 4 + n + int(l), nil
}

// c10SpliceHeader replaces the header frame of an encoded stream by a frame with payload hdr.
func c10SpliceHeader(enc []byte, hdr []byte) ([]byte, error) {
	_, hi, err := c10HeaderSpan(enc)
	if err != nil {
		return nil, err
	}
	out := append([]byte(nil), enc[:4]...)
	out = c10PbUvarint(out, uint64(len(hdr)))
	out = append(out, hdr...)
	return append(out, enc[hi:]...), nil
}

// ---------- enumeration ----------

type c10HdrMut struct {
	Class   string
	Desc    string
	Payload []byte
}

func c10HdrName(kind string) string {
	if kind == c10KSig {
		return "SignatureHeader"
	}
	return "PatchHeader"
}

// c10HdrMuts enumerates header payloads for a stream whose body is written under fr.  foreign:
// marshalled messages of other types that take the header's place.
func c10HdrMuts(s *c10Stream, fr lib.Compression) []c10HdrMut {
	var out []c10HdrMut
	hn := c10HdrName(s.Kind)
	add := func(class, desc string, payload []byte) {
		out = append(out, c10HdrMut{class, hn + " " + desc, payload})
	}
	a, q := int64(fr.Algo), int64(fr.Quality)
	// settings as the writers marshal them (proto3: zero fields omitted) / with every field explicit
	settings := func(alg, qual int64, explicit bool, extra ...[]byte) []byte {
		var b []byte
		if alg != 0 || explicit {
			b = append(b, c10PbV(1, alg)...)
		}
		if qual != 0 || explicit {
			b = append(b, c10PbV(2, qual)...)
		}
		return append(b, c10Cat(extra...)...)
	}
	own := settings(a, q, false)

	// --- the settings sub-message is not there / cannot be read ---
	add("hdr.no-compression", "frame empty (no CompressionSettings sub-message)", []byte{})
	add("hdr.no-compression", "with unknown fields only {2: varint 7, 15: 3 bytes} (no CompressionSettings sub-message)", c10Cat(c10PbV(2, 7), c10PbL(15, []byte("xyz"))))
	add("hdr.compression-wiretype", fmt.Sprintf("field 1 (compression) as varint %d instead of a sub-message", a), c10PbV(1, a))
	add("hdr.compression-wiretype", "field 1 (compression) as fixed32 instead of a sub-message", c10PbF32(1))
	add("hdr.compression-unreadable", "compression sub-message ends inside a varint {08 ff}", c10PbL(1, []byte{0x08, 0xff}))
	add("hdr.compression-unreadable", "compression sub-message with an 11-byte varint as algorithm", c10PbL(1, append(append([]byte{0x08}, make11ff()...), 0x01)))
	add("hdr.compression-unreadable", "compression sub-message whose quality declares a length-delimited payload past its end", c10PbL(1, []byte{0x12, 0x7f, 0x01}))

	// --- algorithm values ---
	for _, v := range c10Uniq([]int64{3, 4, 7, 2049, -1, 1<<31 - 1, -1 << 31, 1<<32 + 3, 1<<32 + a, 1<<35 + a, c10Big62}) {
		cls := "hdr.algorithm-unknown"
		if int64(int32(v)) == a {
			cls = "hdr.algorithm-wraps-to-own" // enum = int32 truncation of the varint
		}
		add(cls, fmt.Sprintf("compression.algorithm=%d (body written as %s)", v, fr.Algo), c10PbL(1, settings(v, q, true)))
	}
	for _, v := range []int64{0, 1, 2} {
		if v != a {
			add("hdr.algorithm-swapped", fmt.Sprintf("compression.algorithm=%s over a body written as %s", pwr.CompressionAlgorithm(v), fr.Algo), c10PbL(1, settings(v, q, false)))
		}
	}

	// --- same algorithm, other field values: must behave as the unmutated stream ---
	for _, v := range c10Uniq([]int64{-1, 0, 1, 12, 1<<31 - 1, -1 << 31, c10Big62}) {
		if v != q {
			add("hdr.quality", fmt.Sprintf("compression.quality=%d", v), c10PbL(1, settings(a, v, false)))
		}
	}
	add("hdr.explicit-defaults", "every field of the settings explicit on the wire, zero or not", c10PbL(1, settings(a, q, true)))
	add("hdr.extra-fields", "own settings followed by unknown fields {2: varint, 15: bytes, 3: fixed32}", c10Cat(c10PbL(1, own), c10PbV(2, 7), c10PbL(15, []byte("xyz")), c10PbF32(3)))
	add("hdr.extra-fields", "unknown fields first, own settings with unknown fields {3: varint, 4: bytes} inside", c10Cat(c10PbL(15, make([]byte, 200)), c10PbL(1, settings(a, q, false, c10PbV(3, 9), c10PbL(4, []byte("abcd"))))))
	add("hdr.compression-twice", "compression given twice: algorithm 7 first, own settings (explicit) second", c10Cat(c10PbL(1, settings(7, 3, true)), c10PbL(1, settings(a, q, true))))
	add("hdr.compression-twice", "compression given twice: own settings first, algorithm 7 second", c10Cat(c10PbL(1, settings(a, q, true)), c10PbL(1, settings(7, 3, true))))

	// --- another message in the header's place ---
	foreign := []proto.Message{
		&pwr.SyncOp{Type: pwr.SyncOp_HEY_YOU_DID_IT},
		&pwr.SyncOp{Type: pwr.SyncOp_DATA, Data: make([]byte, 9)},
		&pwr.SyncHeader{Type: pwr.SyncHeader_BSDIFF, FileIndex: 3},
		&pwr.BlockHash{WeakHash: 77, StrongHash: make([]byte, 16)},
		s.SC, // a container: its first file entry is read as the settings
	}
	for k, fm := range foreign {
		b, err := proto.Marshal(fm)
		if err != nil {
			continue
		}
		name := c10MsgString(fm)
		if k == len(foreign)-1 {
			name = fmt.Sprintf("the stream's own container (%d bytes)", len(b))
		}
		add("hdr.foreign", "replaced by "+name, b)
	}
	return out
}

func make11ff() []byte {
	b := make([]byte, 10)
	for i := range b {
		b[i] = 0xff
	}
	return b
}

// c10HdrEffective: what the protobuf decoder makes of a header payload (trusted base: the
// protobuf library).  ok=false: the frame does not unmarshal; present=false: no settings.
func c10HdrEffective(kind string, payload []byte) (ok, present bool, alg pwr.CompressionAlgorithm) {
	var cs *pwr.CompressionSettings
	if kind == c10KSig {
		h := &pwr.SignatureHeader{}
		if err := proto.Unmarshal(payload, h); err != nil {
			return false, false, 0
		}
		cs = h.Compression
	} else {
		h := &pwr.PatchHeader{}
		if err := proto.Unmarshal(payload, h); err != nil {
			return false, false, 0
		}
		cs = h.Compression
	}
	if cs == nil {
		return true, false, 0
	}
	return true, true, cs.Algorithm
}

// c10HdrExpect classifies a header payload over a body written under algorithm a:
//
//	"same"  - the effective settings name the body's algorithm: the stream is the valid one;
//	"fail"  - the reader must stop at the header / at the first byte of the body (see the top of
//	          this file): the containers are never read;
//	""      - the reader would take the body under another framing: outside the guard, not generated.
func c10HdrExpect(kind string, payload, body []byte, a pwr.CompressionAlgorithm) string {
	ok, present, alg := c10HdrEffective(kind, payload)
	switch {
	case !ok, !present:
		return "fail"
	case alg == a:
		return "same"
	case alg != pwr.CompressionAlgorithm_NONE && alg != pwr.CompressionAlgorithm_GZIP && alg != pwr.CompressionAlgorithm_BROTLI:
		// (the harness registers the gzip and brotli decompressors only; ZSTD = 3 has none)
		return "fail"
	case alg == pwr.CompressionAlgorithm_GZIP && !(len(body) >= 2 && body[0] == 0x1f && body[1] == 0x8b):
		return "fail"
	}
	return ""
}

// ---------- planning ----------

// c10HdrPlans plans the header mutations of one base stream (plain / opt / sig).  Every must-fail
// header is planned on EVERY run (such a case costs a millisecond: the reader stops before the
// containers), under one framing drawn per mutation - the two "no settings" headers under all
// three; of the behaves-as-valid headers nSame are drawn (each is a full application).
func c10HdrPlans(cr *lib.Rng, sc *c10Scenario, base string, s *c10Stream, nSame int, add func(*c10Plan)) error {
	type cand struct {
		m      c10HdrMut
		fr     lib.Compression
		expect string
	}
	var fails, sames []cand
	failAt := map[int][]cand{} // mutation index -> the framings under which it must fail
	nMuts := 0
	for _, fr := range c10Framings {
		enc, err := c10Encode(s, fr)
		if err != nil {
			return err
		}
		_, hi, err := c10HeaderSpan(enc)
		if err != nil {
			return err
		}
		body := enc[hi:]
		muts := c10HdrMuts(s, fr) // (same length and order under every framing)
		if len(muts) > nMuts {
			nMuts = len(muts)
		}
		for mi, m := range muts {
			switch e := c10HdrExpect(s.Kind, m.Payload, body, fr.Algo); e {
			case "fail":
				failAt[mi] = append(failAt[mi], cand{m, fr, e})
			case "same":
				sames = append(sames, cand{m, fr, e})
			}
		}
	}
	for mi := 0; mi < nMuts; mi++ {
		cs := failAt[mi]
		if len(cs) == 0 {
			continue
		}
		if cs[0].m.Class == "hdr.no-compression" {
			fails = append(fails, cs...) // under every framing
			continue
		}
		fails = append(fails, cs[cr.Intn(len(cs))])
	}
	order := c10Shuffle(cr, len(sames))
	// keep the classes of the behaves-as-valid family represented
	order = c10RoundRobin(cr, order, func(i int) string { return sames[i].m.Class }, false)
	var chosen []cand
	chosen = append(chosen, fails...)
	for k, i := range order {
		if k >= nSame {
			break
		}
		chosen = append(chosen, sames[i])
	}
	for _, cd := range chosen {
		t := s.clone()
		t.HdrSet, t.Hdr = true, cd.m.Payload
		var feeders []string
		switch {
		case base == "sig":
			feeders = []string{c10FSig}
		case cd.expect == "fail":
			feeders = []string{c10FPatFresh, c10FRediff}
			if cr.Chance(1, 4) {
				feeders = append(feeders, c10FPatOverlay)
			}
		default:
			feeders = c10FeedersFor(base, cr, false)
		}
		for _, fd := range feeders {
			add(&c10Plan{Scenario: sc.Name, Base: base, Class: cd.m.Class, Desc: cd.m.Desc + fmt.Sprintf(" [header payload %s]", c10HexShort(cd.m.Payload)),
				Framing: cd.fr, Feeder: fd, Stream: t, TruncAt: -1, sc: sc, NoModel: cd.expect != "same"})
		}
	}
	return nil
}

// c10MagicPlans: the four bytes in front of the header carry another magic number (the other
// stream kinds' of the project, the own one +-1, 0, -1): every reader must stop at ExpectMagic.
// nVals of them are drawn per base stream, one framing drawn per value; oracle only.
func c10MagicPlans(cr *lib.Rng, sc *c10Scenario, base string, s *c10Stream, nVals int, add func(*c10Plan)) {
	own := map[string]int32{c10KPatch: pwr.PatchMagic, c10KSig: pwr.SignatureMagic, c10KOverlay: overlay.OverlayMagic}[s.Kind]
	names := []struct {
		v    int32
		name string
	}{{pwr.PatchMagic, "the patch magic"}, {pwr.SignatureMagic, "the signature magic"}, {pwr.ManifestMagic, "the manifest magic"}, {pwr.WoundsMagic, "the wounds magic"},
		{pwr.ZipIndexMagic, "the zip index magic"}, {overlay.OverlayMagic, "the overlay magic"}, {own + 1, "own magic + 1"}, {own - 1, "own magic - 1"}, {0, "0"}, {-1, "-1"},
		{int32(uint32(own)<<8 | uint32(own)>>24), "own magic, bytes rotated"}}
	seen := map[int32]bool{own: true}
	planned := 0
	for _, k := range c10Shuffle(cr, len(names)) {
		nm := names[k]
		if seen[nm.v] || planned >= nVals {
			continue
		}
		seen[nm.v] = true
		planned++
		t := s.clone()
		t.MagicSet, t.Magic = true, nm.v
		fr := c10Framings[cr.Intn(len(c10Framings))]
		var feeders []string
		switch base {
		case "sig":
			feeders = []string{c10FSig}
		case "ovl":
			feeders, fr = []string{c10FOverlay}, c10Framings[0]
		default:
			feeders = []string{c10FPatFresh, c10FRediff}
		}
		for _, fd := range feeders {
			add(&c10Plan{Scenario: sc.Name, Base: base, Class: "hdr.magic", Desc: fmt.Sprintf("magic number %#x (%s) in front of a %s stream", uint32(nm.v), nm.name, s.Kind),
				Framing: fr, Feeder: fd, Stream: t, TruncAt: -1, sc: sc, NoModel: true})
		}
	}
}

func c10HexShort(b []byte) string {
	if len(b) == 0 {
		return "<empty>"
	}
	if len(b) > 24 {
		return hex.EncodeToString(b[:24]) + fmt.Sprintf("..(%dB)", len(b))
	}
	return hex.EncodeToString(b)
}

// c10HdrCorpus: the headers without settings over the smallest scenario, first on every run
// (seeded C10-5: a reader that tolerated the missing sub-message and then dereferenced it).
func c10HdrCorpus(sc *c10Scenario, add func(*c10Plan)) {
	none := c10Framings[0]
	for _, b := range []struct {
		base string
		s    *c10Stream
		fds  []string
	}{{"plain", sc.Plain, []string{c10FPatFresh, c10FPatOverlay, c10FRediff}}, {"sig", sc.Sig, []string{c10FSig}}} {
		for _, m := range c10HdrMuts(b.s, none) {
			if m.Class != "hdr.no-compression" {
				continue
			}
			t := b.s.clone()
			t.HdrSet, t.Hdr = true, m.Payload
			for _, fd := range b.fds {
				add(&c10Plan{Scenario: sc.Name, Base: b.base, Class: "corpus", Desc: m.Desc + fmt.Sprintf(" [header payload %s]", c10HexShort(m.Payload)),
					Framing: none, Feeder: fd, Stream: t, TruncAt: -1, sc: sc, Corpus: true, NoModel: true})
			}
		}
	}
}
