package main

// C04 — sessions: the property quantifies over every build and both producers, not over "the first
// use of a fresh object in an otherwise idle process".  The build cases of c04.go sign and validate
// one build at a time, each validation with a ValidatorContext of its own and only ever undamaged
// copies.  The two classes below (oracle only, Group "") run the same producers and the same
// validator the way a long-lived caller does:
//
//   "session/revalidate" : a script of validations - undamaged copies (p), damaged copies (d), the
//        directory of the previous step once more (r: in heal mode that is the re-check after
//        healing), an undamaged copy of ANOTHER build against its own signature (o) - run through
//        ONE ValidatorContext (print / wounds file / heal / fail-fast mode), or through a fresh
//        context per step (state kept outside the context).  Whatever was validated before, every
//        validation of a tree that equals the signed build must return nil, leave the wounds
//        consumer without wounds (HasWounds false, TotalCorrupted 0), write no wounds file and
//        leave the tree alone.  Steps on trees that differ from the build are run, not judged.
//   "session/concurrent" : 2-4 jobs started together behind a barrier, for several rounds:
//        stand-alone signings (file pool, short-read pool, as a stream), diff-time signings
//        (each of which signs its old build stand-alone first, as butler does), validations of
//        undamaged copies, of one build or of an old and a new build side by side.  Every
//        signature must equal the hashes the oracle computes from the bytes, every validation
//        must succeed - exactly what the same calls must give when run alone.  The schedule is
//        the Go scheduler's: a seed replays the builds and the jobs, not the interleaving.

import (
	"context"
	"fmt"
	"os"
	"path/filepath"
	"sync"
	"time"

	"github.com/itchio/lake"
	"github.com/itchio/lake/pools/fspool"
	"github.com/itchio/lake/tlc"
	"github.com/itchio/wharf/archiver"
	"github.com/itchio/wharf/pwr"
	"github.com/itchio/wharf/wsync"

	"verif/harness/lib"
)

func c04Sessions(c *Ctx) error {
	if err := c04Revalidate(c); err != nil {
		return err
	}
	return c04Concurrent(c)
}

// ---------------------------------------------------------------- shared helpers

// c04Signed is a build on disk together with what the property says its signature is.
type c04Signed struct {
	build  *lib.Build
	dir    string
	walked *tlc.Container
	data   map[string][]byte
	want   []c04Hash
}

func c04WriteSigned(b *lib.Build, dir string) (*c04Signed, error) {
	if err := b.WriteTo(dir); err != nil {
		return nil, err
	}
	walked, err := lib.Walk(dir)
	if err != nil {
		return nil, err
	}
	s := &c04Signed{build: b, dir: dir, walked: walked, data: map[string][]byte{}}
	for _, e := range b.Files() {
		s.data[e.Path] = e.Data
	}
	for fi, f := range walked.Files {
		s.want = append(s.want, c04Expect(int64(fi), s.data[f.Path], bs64)...)
	}
	return s, nil
}

// sigInfo: the signature the property describes, built from the oracle's own hashes
func (s *c04Signed) sigInfo() *pwr.SignatureInfo {
	hs := make([]wsync.BlockHash, len(s.want))
	for i, h := range s.want {
		hs[i] = wsync.BlockHash{FileIndex: h.File, BlockIndex: h.Block, WeakHash: h.Weak, StrongHash: append([]byte(nil), h.Strong[:]...), ShortSize: h.Short}
	}
	return &pwr.SignatureInfo{Container: s.walked, Hashes: hs}
}

func (s *c04Signed) checkHashes(what string, hs []wsync.BlockHash) string {
	gh, bad := c04FromWsync(hs)
	if bad != "" {
		return what + ": " + bad
	}
	return c04Compare(what, gh, s.want)
}

// c04TreeIs: the tree at dir is exactly the build (Lstat/Readlink only)
func c04TreeIs(dir string, b *lib.Build) (bool, string, error) {
	got, err := lib.ReadBuild(dir)
	if err != nil {
		if os.IsNotExist(err) {
			return false, "missing", nil
		}
		return false, "", err
	}
	d := lib.DiffBuilds(got, b)
	return d == "", d, nil
}

// ---------------------------------------------------------------- class "session/revalidate"

var c04SessionModes = []string{"print", "woundsfile", "heal", "failfast"}

// p = undamaged copy, d = damaged copy (a new damage each time), r = the previous step's directory
// once more, o = undamaged copy of another build, validated against that build's signature
var c04SessionScripts = []string{"dp", "pdp", "drp", "ddpp", "odp", "dop", "dprp", "pp", "dpdp", "dro"}

// c04DamageBuild returns a copy of b with one entry damaged, and what was done ("" = nothing to damage)
func c04DamageBuild(r *lib.Rng, b *lib.Build) (*lib.Build, string) {
	d := b.Clone()
	var files, links []int
	for i, e := range d.Entries {
		switch e.Kind {
		case "file":
			files = append(files, i)
		case "link":
			links = append(links, i)
		}
	}
	if len(files) == 0 && len(links) == 0 {
		return nil, ""
	}
	if len(files) == 0 || len(links) > 0 && r.Chance(1, 5) {
		e := &d.Entries[links[r.Intn(len(links))]]
		e.Dest += "-moved"
		return d, "symlink " + e.Path + " retargeted"
	}
	e := &d.Entries[files[r.Intn(len(files))]]
	if r.Chance(1, 6) {
		p := e.Path
		d.Remove(p)
		return d, "file " + p + " removed"
	}
	kind := c04VfileKinds[1+r.Intn(len(c04VfileKinds)-1)]
	if len(e.Data) == 0 {
		kind = []string{"longer1", "longerFew", "longerBlock"}[r.Intn(3)]
	}
	before := len(e.Data)
	e.Data = c04Deviate(r, e.Data, kind)
	return d, fmt.Sprintf("file %s (%d bytes) %s -> %d bytes", e.Path, before, kind, len(e.Data))
}

type c04StepObs struct {
	Step      string `json:"step"`
	What      string `json:"what"`
	Undamaged bool   `json:"undamaged"`
	Class     string `json:"class"`
	HasWounds bool   `json:"hasWounds"`
	Corrupted int64  `json:"totalCorrupted"`
	File      bool   `json:"woundsFile"`
}

func c04Revalidate(c *Ctx) error {
	r := c.Rng.Fork()
	n := c04N(c, 16, 160, 60)
	thorough := c.Tier == "thorough"
	// build classes of c04GenBuild that stay small: sweep, empties, many small, links, no files,
	// equal blocks, random pair
	picks := []int{0, 4, 12, 7, 9, 1, 3, 22, 14, 5, 32, 11, 42, 19}
	for i := 0; i < n; i++ {
		cr := r.Fork()
		mode := c04SessionModes[i%len(c04SessionModes)]
		script := c04SessionScripts[(i/len(c04SessionModes)+int(c.Seed%1000))%len(c04SessionScripts)]
		reuse := i%5 != 4 // every fifth case: a fresh context per step (state outside the context)
		b, class, _ := c04GenBuild(cr, picks[cr.Intn(len(picks))], thorough, int(c.Seed%1000))
		ob, _, _ := c04GenBuild(cr, picks[cr.Intn(len(picks))], false, i)
		base := filepath.Join(c.Tmp, fmt.Sprintf("c04s-%d", i))
		input := map[string]interface{}{"new": b.Summary(), "buildClass": class, "mode": mode, "script": script, "oneContext": reuse, "subseed": i}
		oracle := ""
		fail := func(f string, a ...interface{}) {
			if oracle == "" {
				oracle = fmt.Sprintf(f, a...)
			}
		}
		ref, err := c04WriteSigned(b, filepath.Join(base, "ref"))
		if err != nil {
			return err
		}
		other, err := c04WriteSigned(ob, filepath.Join(base, "other-ref"))
		if err != nil {
			return err
		}
		// the signature of the build: written at diff time and read back, or computed stand-alone
		producer := []string{"diff-time", "stand-alone"}[i/2%2]
		input["producer"] = producer
		var si, osi *pwr.SignatureInfo
		cls, msg := lib.WithDeadline(120*time.Second, func() error {
			var err error
			if producer == "diff-time" {
				empty := filepath.Join(base, "empty-old")
				if err = os.MkdirAll(empty, 0o755); err != nil {
					return err
				}
				var dr *lib.DiffResult
				if dr, err = lib.Diff(empty, ref.dir, lib.Compressions[(i+int(c.Seed))%7], nil); err != nil {
					return err
				}
				si, err = lib.ReadSig(dr.Sig)
			} else {
				si, err = lib.SignDir(ref.dir)
			}
			if err != nil {
				return err
			}
			osi, err = lib.SignDir(other.dir)
			return err
		})
		if cls != "ok" {
			c.Out.Emit(&lib.Case{Class: "session/revalidate/" + mode, Input: input, Oracle: "signing (" + producer + ") " + cls + ": " + msg})
			removeAll(base)
			if cls == "hang" {
				return nil
			}
			continue
		}
		fail("%s", ref.checkHashes(producer+" signature", si.Hashes))
		fail("%s", other.checkHashes("stand-alone signature of the other build", osi.Hashes))
		if oracle != "" { // the signatures themselves are wrong: nothing to validate against
			c.Out.Emit(&lib.Case{Class: "session/revalidate/" + mode, Input: input, Oracle: oracle})
			removeAll(base)
			continue
		}
		zipPath := filepath.Join(base, "build.zip")
		if mode == "heal" {
			fw, err := os.Create(zipPath)
			if err != nil {
				return err
			}
			_, err = archiver.CompressZip(fw, ref.dir, nil)
			fw.Close()
			if err != nil {
				return err
			}
		}
		woundsPath := filepath.Join(base, "wounds.pww")
		newCtx := func() *pwr.ValidatorContext {
			v := &pwr.ValidatorContext{Consumer: lib.Quiet}
			switch mode {
			case "woundsfile":
				v.WoundsPath = woundsPath
			case "heal":
				v.HealPath = "archive," + zipPath
			case "failfast":
				v.FailFast = true
			}
			return v
		}
		vctx := newCtx()
		var steps []c04StepObs
		var damages []string
		prevDir, prevOther := "", false
		woundedBefore, nontrivial := false, false
		hang := false
		for k, st := range script {
			dir, isOther, what := prevDir, prevOther, "the directory of the previous step again"
			switch st {
			case 'p':
				dir, isOther, what = filepath.Join(base, fmt.Sprintf("step%d", k)), false, "undamaged copy"
				if err := b.WriteTo(dir); err != nil {
					return err
				}
			case 'o':
				dir, isOther, what = filepath.Join(base, fmt.Sprintf("step%d", k)), true, "undamaged copy of another build, against that build's signature"
				if err := ob.WriteTo(dir); err != nil {
					return err
				}
			case 'd':
				dir, isOther = filepath.Join(base, fmt.Sprintf("step%d", k)), false
				db, desc := c04DamageBuild(cr, b)
				if db == nil {
					db, desc = b, "nothing to damage in this build: undamaged copy"
				}
				what = "damaged copy: " + desc
				damages = append(damages, desc)
				if err := db.WriteTo(dir); err != nil {
					return err
				}
			}
			prevDir, prevOther = dir, isOther
			sig, bld := si, b
			if isOther {
				sig, bld = osi, ob
			}
			undamaged, _, err := c04TreeIs(dir, bld)
			if err != nil {
				return err
			}
			if !reuse {
				vctx = newCtx()
			}
			os.Remove(woundsPath) // the caller has collected the previous report
			cls, msg := lib.WithDeadline(120*time.Second, func() error { return vctx.Validate(context.Background(), dir, sig) })
			so := c04StepObs{Step: string(st), What: what, Undamaged: undamaged, Class: cls}
			if cls == "hang" {
				steps = append(steps, so)
				fail("step %d (%s, %s mode): Validate hang: %s", k, what, mode, msg)
				hang = true
				break
			}
			if wc := vctx.WoundsConsumer; wc != nil {
				so.HasWounds, so.Corrupted = wc.HasWounds(), wc.TotalCorrupted()
			}
			if _, err := os.Stat(woundsPath); err == nil {
				so.File = true
			}
			steps = append(steps, so)
			after := "the same context validated a damaged copy before"
			if !woundedBefore {
				after = "no wound was reported before"
			}
			if !reuse {
				after += ", fresh context for this step"
			}
			if undamaged {
				where := fmt.Sprintf("step %d of script %q (%s mode, %s signature; %s)", k, script, mode, producer, after)
				switch {
				case cls != "ok":
					fail("%s: Validate of an undamaged copy %s: %s", where, cls, msg)
				case so.HasWounds || so.Corrupted != 0:
					fail("%s: the wounds consumer reports wounds for an undamaged copy (HasWounds %v, TotalCorrupted %d)", where, so.HasWounds, so.Corrupted)
				case so.File:
					fail("%s: Validate wrote a wounds file for an undamaged copy", where)
				}
				if same, d, err := c04TreeIs(dir, bld); err != nil {
					return err
				} else if !same {
					fail("%s: validation modified the undamaged tree: %s", where, d)
				}
				if woundedBefore && reuse {
					nontrivial = true
				}
			} else if so.HasWounds || cls == "error" {
				woundedBefore = true
			}
		}
		input["damages"] = damages
		c.Out.Emit(&lib.Case{Class: "session/revalidate/" + mode, Nontrivial: nontrivial, Input: input,
			Obs: map[string]interface{}{"steps": steps}, Oracle: oracle})
		if hang {
			return nil
		}
		removeAll(base)
	}
	return nil
}

// ---------------------------------------------------------------- class "session/concurrent"

type c04Job struct {
	Kind   string `json:"kind"`   // sign-fs | sign-short | sign-stream | diff | validate | validate-print
	Target string `json:"target"` // "new" | "old": the build signed / validated
	Comp   string `json:"compression"`
	pool   lake.Pool
	comp   lib.Compression
}

var c04JobKinds = []string{"sign-fs", "sign-short", "sign-stream", "diff", "validate", "validate-print"}

// c04ConcBuild: a multi-block build - a few files of 4..40 blocks with sizes on and around block
// multiples, an empty file, a small one
func c04ConcBuild(r *lib.Rng, big bool) *lib.Build {
	b := &lib.Build{}
	nf := r.Range(2, 4)
	for k := 0; k < nf; k++ {
		blocks := r.Range(4, 24)
		if big {
			blocks = r.Range(40, 100)
		}
		s := blocks*bs64 + []int{0, 1, -1, 777, c04K16, 12345}[r.Intn(6)]
		b.Put(lib.Entry{Path: fmt.Sprintf("%sdata%d.bin", []string{"", "d/"}[r.Intn(2)], k), Kind: "file", Data: c04Content(r, s, k == 0)})
	}
	b.Put(lib.Entry{Path: "empty", Kind: "file"})
	b.Put(lib.Entry{Path: "small.txt", Kind: "file", Data: r.Bytes(r.Range(1, 50))})
	return b
}

func c04Concurrent(c *Ctx) error {
	r := c.Rng.Fork()
	n := c04N(c, 8, 48, 24)
	rounds := 3
	if c.Tier != "quick" {
		rounds = 5
	}
	for i := 0; i < n; i++ {
		cr := r.Fork()
		nb := c04ConcBuild(cr, i == 0)
		// the old build: an edited version of the new one (one file dropped now and then)
		ob := &lib.Build{}
		for _, e := range nb.Clone().Entries {
			if e.Kind == "file" && len(e.Data) > 0 {
				if cr.Chance(1, 6) {
					continue
				}
				if cr.Chance(2, 3) {
					e.Data, _ = lib.Edit(cr, e.Data)
				}
			}
			ob.Put(e)
		}
		base := filepath.Join(c.Tmp, fmt.Sprintf("c04c-%d", i))
		builds := map[string]*c04Signed{}
		for _, x := range []struct {
			name string
			b    *lib.Build
		}{{"new", nb}, {"old", ob}} {
			s, err := c04WriteSigned(x.b, filepath.Join(base, x.name))
			if err != nil {
				return err
			}
			builds[x.name] = s
		}
		otherOf := map[string]string{"new": "old", "old": "new"}
		// the jobs of this case
		k := cr.Range(2, 4)
		var kinds []string
		class := ""
		switch {
		case i == 0: // several stand-alone signings of one build at the same time
			k, class = 4, "sign"
		case i == 1: // old and new build signed side by side
			k, class = 2, "sign"
		default:
			class = []string{"sign", "diff", "validate+sign", "mixed"}[i%4]
		}
		for j := 0; j < k; j++ {
			switch class {
			case "sign":
				kinds = append(kinds, c04JobKinds[cr.Intn(3)])
			case "diff":
				kinds = append(kinds, "diff")
			case "validate+sign":
				kinds = append(kinds, []string{"validate", "validate-print", "sign-fs", "sign-stream"}[(j+i/4)%4])
			default:
				kinds = append(kinds, c04JobKinds[cr.Intn(len(c04JobKinds))])
			}
		}
		jobs := make([]*c04Job, k)
		for j := range jobs {
			tgt := []string{"new", "old"}[cr.Intn(2)]
			if i == 0 {
				tgt = "new"
			} else if i == 1 {
				tgt = []string{"new", "old"}[j]
			}
			jobs[j] = &c04Job{Kind: kinds[j], Target: tgt, comp: lib.Compressions[(i+j+int(c.Seed))%7]}
			jobs[j].Comp = jobs[j].comp.String()
		}
		input := map[string]interface{}{"new": nb.Summary(), "old": ob.Summary(), "jobs": jobs, "rounds": rounds, "subseed": i}
		oracle := ""
		fail := func(s string) {
			if oracle == "" && s != "" {
				oracle = s
			}
		}
		// alone first: what each producer gives without company
		for _, name := range []string{"new", "old"} {
			s := builds[name]
			cls, msg := lib.Guard(func() error {
				hs, err := pwr.ComputeSignature(context.Background(), s.walked, fspool.New(s.walked, s.dir), lib.Quiet)
				if err != nil {
					return err
				}
				fail(s.checkHashes("ComputeSignature of the "+name+" build, run alone", hs))
				return nil
			})
			if cls != "ok" {
				fail("ComputeSignature of the " + name + " build, run alone, " + cls + ": " + msg)
			}
		}
		var obsRounds []map[string]interface{}
		hang := false
		for rd := 0; rd < rounds && oracle == "" && !hang; rd++ {
			for _, j := range jobs { // pools draw from the case's PRNG before the goroutines start
				j.pool = nil
				if j.Kind == "sign-short" || j.Kind == "diff" && cr.Bool() {
					s := builds[j.Target]
					j.pool = &c04Pool{container: s.walked, data: s.data, rng: cr.Fork(), tiny: false}
				}
			}
			results := make([]string, k)
			classes := make([]string, k)
			start := make(chan struct{})
			cls, msg := lib.WithDeadline(240*time.Second, func() error {
				var wg sync.WaitGroup
				for j := range jobs {
					wg.Add(1)
					go func(j int) {
						defer wg.Done()
						<-start
						job := jobs[j]
						s := builds[job.Target]
						who := fmt.Sprintf("round %d, job %d of %d running at the same time (%s of the %s build)", rd, j, k, job.Kind, job.Target)
						jc, jm := lib.Guard(func() error {
							switch job.Kind {
							case "sign-fs", "sign-short":
								pool := job.pool
								if pool == nil {
									pool = fspool.New(s.walked, s.dir)
								}
								hs, err := pwr.ComputeSignature(context.Background(), s.walked, pool, lib.Quiet)
								if err != nil {
									return err
								}
								results[j] = s.checkHashes(who+": ComputeSignature", hs)
							case "sign-stream":
								st, err := c04StandaloneStream(s.walked, fspool.New(s.walked, s.dir), job.comp)
								if err != nil {
									return err
								}
								_, results[j] = c04CheckStream(who+": stand-alone signature stream ("+job.comp.String()+")", st, s.walked, s.want)
							case "diff":
								o := builds[otherOf[job.Target]]
								dr, err := lib.Diff(o.dir, s.dir, job.comp, job.pool)
								if err != nil {
									return err
								}
								_, results[j] = c04CheckStream(who+": diff-time signature ("+job.comp.String()+")", dr.Sig, s.walked, s.want)
								if results[j] == "" {
									results[j] = o.checkHashes(who+": stand-alone signature of the build diffed against", dr.OldSig.Hashes)
								}
							case "validate":
								if err := pwr.AssertValid(s.dir, s.sigInfo()); err != nil {
									results[j] = who + ": AssertValid of an undamaged build error: " + err.Error()
								}
							case "validate-print":
								v := &pwr.ValidatorContext{Consumer: lib.Quiet}
								if err := v.Validate(context.Background(), s.dir, s.sigInfo()); err != nil {
									results[j] = who + ": Validate of an undamaged build error: " + err.Error()
								} else if wc := v.WoundsConsumer; wc != nil && (wc.HasWounds() || wc.TotalCorrupted() != 0) {
									results[j] = fmt.Sprintf("%s: the wounds consumer reports wounds for an undamaged build (TotalCorrupted %d)", who, wc.TotalCorrupted())
								}
							}
							return nil
						})
						classes[j] = jc
						if jc != "ok" {
							results[j] = who + " " + jc + ": " + jm
						}
					}(j)
				}
				close(start)
				wg.Wait()
				return nil
			})
			if cls == "hang" {
				fail(fmt.Sprintf("round %d: %d jobs at the same time: hang: %s", rd, k, msg))
				hang = true
				break
			}
			for _, s := range results {
				fail(s)
			}
			obsRounds = append(obsRounds, map[string]interface{}{"round": rd, "classes": classes})
		}
		if !hang {
			for _, name := range []string{"new", "old"} {
				if same, d, err := c04TreeIs(builds[name].dir, builds[name].build); err != nil {
					return err
				} else if !same {
					fail("signing / validating modified the " + name + " build: " + d)
				}
			}
		}
		c.Out.Emit(&lib.Case{Class: "session/concurrent/" + class, Nontrivial: k >= 2 && len(builds["new"].want) >= 8, Input: input,
			Obs: map[string]interface{}{"rounds": obsRounds}, Oracle: oracle})
		if hang {
			return nil
		}
		removeAll(base)
	}
	return nil
}
