package main

// C10 — stream codec: valid patch / signature / overlay streams are decoded into typed message
// lists (following the grammar the writers use), mutated at message level, and re-encoded
// through wire.WriteContext under a chosen framing.  Each framed message can also be rendered
// as its generic protobuf field list (field number, wire type, value / payload length): that is
// the form the Gallina model of C10 consumes, so that "a frame decoded as whatever type the
// reader's state expects" is derived from field numbers and wire types and not from a table.

import (
	"bytes"
	"encoding/binary"
	"fmt"
	"strings"

	"github.com/golang/protobuf/proto"
	"github.com/itchio/lake/tlc"
	"github.com/itchio/savior/seeksource"

	"github.com/itchio/wharf/bsdiff"
	"github.com/itchio/wharf/pwr"
	"github.com/itchio/wharf/pwr/overlay"
	"github.com/itchio/wharf/wire"

	"verif/harness/lib"
)

const (
	c10KPatch   = "patch"
	c10KSig     = "sig"
	c10KOverlay = "overlay"
)

// c10Stream is a decoded stream: the containers it declares and its framed messages after them.
type c10Stream struct {
	Kind string
	TC   *tlc.Container // patch: old build
	SC   *tlc.Container // patch: new build; sig: the signed container
	Msgs []proto.Message
	// HdrSet: the frame between the magic and the containers (PatchHeader / SignatureHeader) carries
	// the raw payload Hdr instead of the header the writers produce for the framing (c10_hdr.go)
	HdrSet bool
	Hdr    []byte
	// MagicSet: the first four bytes of the stream carry Magic instead of the kind's own magic number
	MagicSet bool
	Magic    int32
}

func (s *c10Stream) clone() *c10Stream {
	o := &c10Stream{Kind: s.Kind, HdrSet: s.HdrSet, Hdr: append([]byte(nil), s.Hdr...), MagicSet: s.MagicSet, Magic: s.Magic}
	if s.TC != nil {
		o.TC = s.TC.Clone()
	}
	if s.SC != nil {
		o.SC = s.SC.Clone()
	}
	o.Msgs = make([]proto.Message, len(s.Msgs))
	for i, m := range s.Msgs {
		o.Msgs[i] = proto.Clone(m)
	}
	return o
}

// c10DecodePatch reads a patch the way its writers lay it out.
func c10DecodePatch(b []byte) (*c10Stream, error) {
	src := seeksource.FromBytes(b)
	if _, err := src.Resume(nil); err != nil {
		return nil, err
	}
	raw := wire.NewReadContext(src)
	if err := raw.ExpectMagic(pwr.PatchMagic); err != nil {
		return nil, err
	}
	h := &pwr.PatchHeader{}
	if err := raw.ReadMessage(h); err != nil {
		return nil, err
	}
	r, err := pwr.DecompressWire(raw, h.Compression)
	if err != nil {
		return nil, err
	}
	s := &c10Stream{Kind: c10KPatch, TC: &tlc.Container{}, SC: &tlc.Container{}}
	if err := r.ReadMessage(s.TC); err != nil {
		return nil, err
	}
	if err := r.ReadMessage(s.SC); err != nil {
		return nil, err
	}
	for range s.SC.Files {
		sh := &pwr.SyncHeader{}
		if err := r.ReadMessage(sh); err != nil {
			return nil, err
		}
		s.Msgs = append(s.Msgs, sh)
		if sh.Type == pwr.SyncHeader_BSDIFF {
			bh := &pwr.BsdiffHeader{}
			if err := r.ReadMessage(bh); err != nil {
				return nil, err
			}
			s.Msgs = append(s.Msgs, bh)
			for {
				ct := &bsdiff.Control{}
				if err := r.ReadMessage(ct); err != nil {
					return nil, err
				}
				s.Msgs = append(s.Msgs, ct)
				if ct.Eof {
					break
				}
			}
			op := &pwr.SyncOp{}
			if err := r.ReadMessage(op); err != nil {
				return nil, err
			}
			s.Msgs = append(s.Msgs, op)
			continue
		}
		for {
			op := &pwr.SyncOp{}
			if err := r.ReadMessage(op); err != nil {
				return nil, err
			}
			s.Msgs = append(s.Msgs, op)
			if op.Type == pwr.SyncOp_HEY_YOU_DID_IT {
				break
			}
		}
	}
	return s, nil
}

func c10DecodeSig(b []byte) (*c10Stream, error) {
	src := seeksource.FromBytes(b)
	if _, err := src.Resume(nil); err != nil {
		return nil, err
	}
	raw := wire.NewReadContext(src)
	if err := raw.ExpectMagic(pwr.SignatureMagic); err != nil {
		return nil, err
	}
	h := &pwr.SignatureHeader{}
	if err := raw.ReadMessage(h); err != nil {
		return nil, err
	}
	r, err := pwr.DecompressWire(raw, h.Compression)
	if err != nil {
		return nil, err
	}
	s := &c10Stream{Kind: c10KSig, SC: &tlc.Container{}}
	if err := r.ReadMessage(s.SC); err != nil {
		return nil, err
	}
	for {
		bh := &pwr.BlockHash{}
		if err := r.ReadMessage(bh); err != nil {
			break // end of stream
		}
		s.Msgs = append(s.Msgs, bh)
	}
	return s, nil
}

// c10DecodeOverlay: magic, then the (empty) OverlayHeader frame, then ops.  The applier reads
// the header frame as an op too, so it is kept in the message list.
func c10DecodeOverlay(b []byte) (*c10Stream, error) {
	src := seeksource.FromBytes(b)
	if _, err := src.Resume(nil); err != nil {
		return nil, err
	}
	r := wire.NewReadContext(src)
	if err := r.ExpectMagic(overlay.OverlayMagic); err != nil {
		return nil, err
	}
	s := &c10Stream{Kind: c10KOverlay}
	hd := &overlay.OverlayHeader{}
	if err := r.ReadMessage(hd); err != nil {
		return nil, err
	}
	s.Msgs = append(s.Msgs, hd)
	for {
		op := &overlay.OverlayOp{}
		if err := r.ReadMessage(op); err != nil {
			break
		}
		s.Msgs = append(s.Msgs, op)
	}
	return s, nil
}

// c10Encode writes the stream through wire.WriteContext (and pwr.CompressWire for patches and
// signatures).  Any message type may sit at any position.
func c10Encode(s *c10Stream, comp lib.Compression) ([]byte, error) {
	var buf bytes.Buffer
	w := wire.NewWriteContext(&buf)
	switch s.Kind {
	case c10KPatch:
		if err := w.WriteMagic(pwr.PatchMagic); err != nil {
			return nil, err
		}
		if err := w.WriteMessage(&pwr.PatchHeader{Compression: comp.Settings()}); err != nil {
			return nil, err
		}
	case c10KSig:
		if err := w.WriteMagic(pwr.SignatureMagic); err != nil {
			return nil, err
		}
		if err := w.WriteMessage(&pwr.SignatureHeader{Compression: comp.Settings()}); err != nil {
			return nil, err
		}
	case c10KOverlay:
		if err := w.WriteMagic(overlay.OverlayMagic); err != nil {
			return nil, err
		}
	}
	var err error
	if s.Kind != c10KOverlay {
		w, err = pwr.CompressWire(w, comp.Settings())
		if err != nil {
			return nil, err
		}
		if s.TC != nil {
			if err := w.WriteMessage(s.TC); err != nil {
				return nil, err
			}
		}
		if err := w.WriteMessage(s.SC); err != nil {
			return nil, err
		}
	}
	for _, m := range s.Msgs {
		if err := w.WriteMessage(m); err != nil {
			return nil, err
		}
	}
	if err := w.Close(); err != nil {
		return nil, err
	}
	out := buf.Bytes()
	if s.HdrSet && s.Kind != c10KOverlay {
		if out, err = c10SpliceHeader(out, s.Hdr); err != nil {
			return nil, err
		}
	}
	if s.MagicSet && len(out) >= 4 {
		binary.LittleEndian.PutUint32(out, uint32(s.Magic)) // (wire.Endianness)
	}
	return out, nil
}

// ---------- generic field view of one framed message ----------

type c10Field struct {
	Num  uint64
	Wt   int    // 0 varint, 2 length-delimited, 1 / 5 fixed
	Val  uint64 // varint value (unsigned, as on the wire) or payload length
	Repr string
}

func c10Uvarint(b []byte) (uint64, int) {
	var x uint64
	var s uint
	for i, c := range b {
		if i == 10 {
			return 0, -1
		}
		if c < 0x80 {
			return x | uint64(c)<<s, i + 1
		}
		x |= uint64(c&0x7f) << s
		s += 7
	}
	return 0, -1
}

// c10Fields parses the protobuf wire form of a marshalled message (only what our schemas emit).
func c10Fields(m proto.Message) ([]c10Field, error) {
	b, err := proto.Marshal(m)
	if err != nil {
		return nil, err
	}
	var out []c10Field
	for len(b) > 0 {
		tag, n := c10Uvarint(b)
		if n < 0 {
			return nil, fmt.Errorf("bad tag")
		}
		b = b[n:]
		f := c10Field{Num: tag >> 3, Wt: int(tag & 7)}
		switch f.Wt {
		case 0:
			v, n := c10Uvarint(b)
			if n < 0 {
				return nil, fmt.Errorf("bad varint")
			}
			f.Val = v
			b = b[n:]
		case 2:
			l, n := c10Uvarint(b)
			if n < 0 || uint64(len(b)-n) < l {
				return nil, fmt.Errorf("bad length")
			}
			f.Val = l
			b = b[n+int(l):]
		case 1:
			b = b[8:]
		case 5:
			b = b[4:]
		default:
			return nil, fmt.Errorf("wire type %d", f.Wt)
		}
		out = append(out, f)
	}
	return out, nil
}

// c10FrameCoq renders one message as the model's [frame]: G [fv num v | fl num len | fx num]
// (Exec/C10.v: fv n v = (n, V v), fl n l = (n, L l), fx n = (n, X)).
func c10FrameCoq(m proto.Message) string {
	fs, err := c10Fields(m)
	if err != nil {
		return "B"
	}
	parts := make([]string, len(fs))
	for i, f := range fs {
		switch f.Wt {
		case 0:
			parts[i] = fmt.Sprintf("fv %d %d", f.Num, f.Val)
		case 2:
			parts[i] = fmt.Sprintf("fl %d %d", f.Num, f.Val)
		default:
			parts[i] = fmt.Sprintf("fx %d", f.Num)
		}
	}
	return "G [" + strings.Join(parts, "; ") + "]"
}

func c10FramesCoq(ms []proto.Message, tail string) string {
	parts := make([]string, 0, len(ms)+1)
	for _, m := range ms {
		parts = append(parts, c10FrameCoq(m))
	}
	if tail != "" {
		parts = append(parts, tail)
	}
	return "[" + strings.Join(parts, "; ") + "]"
}

func c10MsgString(m proto.Message) string {
	switch x := m.(type) {
	case *pwr.SyncHeader:
		return fmt.Sprintf("SyncHeader{type:%d file:%d}", int32(x.Type), x.FileIndex)
	case *pwr.SyncOp:
		return fmt.Sprintf("SyncOp{type:%d file:%d block:%d span:%d data:%dB}", int32(x.Type), x.FileIndex, x.BlockIndex, x.BlockSpan, len(x.Data))
	case *pwr.BsdiffHeader:
		return fmt.Sprintf("BsdiffHeader{target:%d}", x.TargetIndex)
	case *bsdiff.Control:
		return fmt.Sprintf("Control{add:%dB copy:%dB seek:%d eof:%v}", len(x.Add), len(x.Copy), x.Seek, x.Eof)
	case *overlay.OverlayOp:
		return fmt.Sprintf("OverlayOp{type:%d len:%d data:%dB}", int32(x.Type), x.Len, len(x.Data))
	case *overlay.OverlayHeader:
		return "OverlayHeader{}"
	case *pwr.BlockHash:
		return fmt.Sprintf("BlockHash{weak:%d strong:%dB}", x.WeakHash, len(x.StrongHash))
	}
	return fmt.Sprintf("%T", m)
}

func c10FileSizes(c *tlc.Container) []int64 {
	if c == nil {
		return nil
	}
	out := make([]int64, len(c.Files))
	for i, f := range c.Files {
		out[i] = f.Size
	}
	return out
}

func c10ZList(xs []int64) string {
	s := make([]string, len(xs))
	for i, x := range xs {
		s[i] = fmt.Sprint(x)
	}
	return "[" + strings.Join(s, "; ") + "]"
}
