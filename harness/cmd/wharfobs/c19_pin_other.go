//go:build !linux

package main

const c19PinnedEnv = "VERIF_C19_PINNED"

// no CPU affinity here: the child runs unrestricted and reports the NumCPU it has
func c19PinAndReexec(n int, pick uint64) {}
