package main

// C03 — interrupted patch application resumes from any checkpoint to the same result.
//
// For build pairs whose patches have many ops per file, for {plain, optimized} patches,
// {fresh, overlay} bowls and {none, gzip, brotli}:
//   1. uninterrupted reference run (no save consumer), then a recording run whose consumer
//      always asks to save and continues: every checkpoint is gob-encoded the way a caller
//      would, and the output (+ stage) directory is snapshotted at selected checkpoints;
//   2. for checkpoint k and lag in {0,1,3}: crash disk = snapshot k+lag with the in-progress
//      file truncated / garbled / torn at offsets >= the checkpointed offset (and files not yet
//      started at k damaged at will), then a BRAND-NEW patcher and bowl resume from the gob
//      copy; optionally the resumed run is stopped again (ErrStop) and resumed again (chains),
//      under save schedules where only some ShouldSave calls answer true;
//   3. liveness of checkpoint delivery.
// Oracle: every resume returns nil (ErrStop when asked to stop), the final tree equals the
// uninterrupted one, and the uninterrupted one equals the new build.

import (
	"bytes"
	"encoding/gob"
	"fmt"
	"os"
	"path/filepath"
	"runtime"
	"runtime/debug"
	"sort"
	"strings"
	"sync"
	"time"

	"github.com/itchio/lake/pools/fspool"
	"github.com/itchio/savior"
	"github.com/itchio/savior/seeksource"

	"github.com/itchio/wharf/pwr"
	"github.com/itchio/wharf/pwr/bowl"
	"github.com/itchio/wharf/pwr/patcher"
	"github.com/itchio/wharf/wire"

	"verif/harness/lib"
)

func init() { register("C03", runC03) }

// c03Cause unwraps pkg/errors-style wrappers (the patcher returns errors.WithStack(ErrStop)).
func c03Cause(err error) error {
	for err != nil {
		c, ok := err.(interface{ Cause() error })
		if !ok {
			break
		}
		err = c.Cause()
	}
	return err
}

func c03Wrap(err error, what string) error {
	if err == nil {
		return nil
	}
	return fmt.Errorf("%s: %v", what, err)
}

// ---------------------------------------------------------------- build pairs

// c03ManyEdits applies many small localized edits so that the rsync series of the file
// alternates BLOCK_RANGE / DATA ops many times (checkpoints fall at many positions).
func c03ManyEdits(r *lib.Rng, data []byte) ([]byte, string) {
	out := append([]byte(nil), data...)
	nb := (len(out) + lib.BS - 1) / lib.BS
	edits := 0
	for b := 0; b < nb; b++ {
		if !r.Chance(1, 2) {
			continue
		}
		lo, hi := b*lib.BS, (b+1)*lib.BS
		if hi > len(out) {
			hi = len(out)
		}
		if hi <= lo {
			continue
		}
		at := lo + r.Intn(hi-lo)
		for j := at; j < at+r.Range(1, 7) && j < hi; j++ {
			out[j] ^= byte(1 + r.Intn(255))
		}
		edits++
	}
	how := fmt.Sprintf("%d block edits", edits)
	for k := r.Intn(3); k > 0 && len(out) > 0; k-- { // shifts: the differ re-synchronises afterwards
		at := r.Intn(len(out))
		if r.Bool() {
			ins := r.Bytes(r.Range(1, 300))
			out = append(append(append([]byte(nil), out[:at]...), ins...), out[at:]...)
			how += fmt.Sprintf(", insert@%d+%d", at, len(ins))
		} else {
			end := at + r.Range(1, 300)
			if end > len(out) {
				end = len(out)
			}
			out = append(append([]byte(nil), out[:at]...), out[end:]...)
			how += fmt.Sprintf(", delete@%d+%d", at, end-at)
		}
	}
	return out, how
}

// c03Mix builds a file from whole blocks of old files interleaved with short fresh pieces.
func c03Mix(r *lib.Rng, olds [][]byte, pieces int) []byte {
	var out []byte
	for i := 0; i < pieces; i++ {
		o := olds[r.Intn(len(olds))]
		if nb := len(o) / lib.BS; nb > 0 {
			b := r.Intn(nb)
			span := 1
			if r.Chance(1, 4) && b+2 <= nb {
				span = 2
			}
			out = append(out, o[b*lib.BS:(b+span)*lib.BS]...)
		}
		if r.Chance(2, 3) {
			out = append(out, r.Bytes(r.Range(1, 2000))...)
		}
	}
	return out
}

func c03Pair(r *lib.Rng, class string, maxBlocks int) (*lib.Build, *lib.Build, []string) {
	var old, nw *lib.Build
	var rel []string
	if class == "genpair" {
		old, nw, rel = lib.GenPair(r, lib.PairOpts{MaxFiles: 3, MaxSize: 3 * lib.BS, Links: true})
	} else {
		old, nw = &lib.Build{}, &lib.Build{}
	}
	pfx := func() string { // container order follows the names: vary where the files fall
		return []string{"", "a/", "m/", "z/", "a/b/"}[r.Intn(5)] + string(rune('a'+r.Intn(26)))
	}
	put := func(name string, o, n []byte, what string) {
		if o != nil {
			old.Put(lib.Entry{Path: name, Kind: "file", Data: o})
		}
		if n != nil {
			nw.Put(lib.Entry{Path: name, Kind: "file", Data: n})
		}
		rel = append(rel, what+":"+name)
	}
	blocks := func(lo, hi int) int {
		n := r.Range(lo, hi)
		switch r.Intn(4) {
		case 0:
			return n * lib.BS
		case 1:
			return n*lib.BS + r.Range(1, lib.BS-1)
		case 2:
			return n*lib.BS + 1
		default:
			return n*lib.BS - 1
		}
	}
	// the patched-in-place file with many ops (overlay writer when applied in place)
	bigOld := r.Bytes(blocks(maxBlocks/2, maxBlocks))
	bigNew, how := c03ManyEdits(r, bigOld)
	put(pfx()+"big.bin", bigOld, bigNew, "manyedits("+how+")")
	// a file built from a small alphabet of blocks, so that equal content sits at different
	// offsets of the old and the new file (a reader or writer resumed at a wrong offset then
	// sees plausible data instead of noise)
	{
		alpha := [][]byte{r.Bytes(lib.BS), r.Bytes(lib.BS), r.Bytes(lib.BS)}
		nb := r.Range(maxBlocks/2, maxBlocks)
		var o, n []byte
		letters := make([]int, nb)
		for i := 0; i < nb; i++ {
			letters[i] = r.Intn(2)
			o = append(o, alpha[letters[i]]...)
		}
		for i := 0; i < nb+r.Intn(3)-1; i++ {
			switch {
			case i < nb && r.Chance(2, 5):
				n = append(n, alpha[letters[i]]...) // unchanged in place
			case i < nb && r.Chance(5, 6):
				n = append(n, alpha[1-letters[i]]...) // the other letter: equal to old blocks elsewhere
			default:
				n = append(n, alpha[2]...)
			}
		}
		o = append(o, r.Bytes(r.Intn(3)*r.Intn(lib.BS))...)
		n = append(n, r.Bytes(r.Intn(3)*r.Intn(lib.BS))...)
		h := "block alphabet"
		if r.Chance(1, 3) {
			var h2 string
			n, h2 = c03ManyEdits(r, n)
			h += ", " + h2
		}
		put(pfx()+"rep.bin", o, n, "manyedits("+h+")")
	}
	olds := [][]byte{bigOld}
	if r.Chance(1, 2) {
		o2 := r.Bytes(blocks(2, 4))
		n2, how2 := c03ManyEdits(r, o2)
		put(pfx()+"second.bin", o2, n2, "manyedits("+how2+")")
		olds = append(olds, o2)
	}
	// a new path assembled from old blocks and fresh pieces (a staged "move" file in place)
	if class == "multi" || r.Chance(1, 2) {
		put(pfx()+"mix.bin", nil, c03Mix(r, olds, r.Range(3, maxBlocks/2+3)), "mix")
	}
	if class == "large" { // a patch of several MiB: liveness of checkpoint delivery under compression
		put(pfx()+"huge_new.bin", nil, r.Bytes(5<<20+r.Intn(1<<20)), "added-large")
	}
	if class == "multi" {
		if r.Chance(2, 3) { // whole-file copy under the same and under another name
			d := r.Bytes(blocks(1, 2))
			put(pfx()+"same.bin", d, d, "unchanged")
		}
		if r.Chance(2, 3) {
			d := r.Bytes(blocks(1, 2))
			n1, n2 := pfx()+"ren_old.bin", pfx()+"ren_new.bin"
			old.Put(lib.Entry{Path: n1, Kind: "file", Data: d})
			nw.Put(lib.Entry{Path: n2, Kind: "file", Data: d})
			rel = append(rel, "rename:"+n1+"->"+n2)
		}
		if r.Chance(2, 3) {
			put(pfx()+"new.bin", nil, r.Bytes(r.Range(1, 2*lib.BS)), "added")
		}
		if r.Chance(1, 2) {
			put(pfx()+"empty_new.bin", nil, []byte{}, "added-empty")
		}
		if r.Chance(1, 2) {
			put(pfx()+"was_empty.bin", []byte{}, r.Bytes(r.Range(1, lib.BS+10)), "grows-from-empty")
		}
		if r.Chance(1, 2) {
			put(pfx()+"emptied.bin", r.Bytes(r.Range(1, lib.BS+10)), []byte{}, "emptied")
		}
		if r.Chance(1, 2) {
			put(pfx()+"still_empty.bin", []byte{}, []byte{}, "empty-unchanged")
		}
		if r.Chance(2, 3) { // old shorter than new: the overlay writer reads past the old EOF
			o := r.Bytes(blocks(1, 2))
			n, _ := c03ManyEdits(r, o)
			n = append(n, c03Mix(r, olds, 3)...)
			put(pfx()+"grow.bin", o, n, "grow")
		}
		if r.Chance(2, 3) {
			o := r.Bytes(blocks(3, 5))
			n, _ := c03ManyEdits(r, o[:len(o)-r.Range(1, 2*lib.BS)])
			put(pfx()+"shrink.bin", o, n, "shrink")
		}
		if r.Chance(1, 3) {
			nw.Put(lib.Entry{Path: "lnk", Kind: "link", Dest: "nowhere"})
			old.Put(lib.Entry{Path: "olddir/sub", Kind: "dir"})
			rel = append(rel, "link-added", "dir-removed")
		}
	}
	return old, nw, rel
}

// ---------------------------------------------------------------- save consumers

type c03Offer struct { // one checkpoint handed to the consumer, projected
	FileIndex, Kind      int64
	MsgOffset, SrcOffset int64 // decompressed-stream offsets of the reader / source checkpoint
	MsgIndex, SrcIndex   int   // the same as message indices (seek source), -1 when not on a boundary
	Written              int64 // WriterCheckpoint.Offset: bytes of the new file written
	OldOffset, Target    int64
	Phys                 int64 // offset of the on-disk file covered by the checkpoint
	Overlay              bool
	Trans                [][2]int64 // the overlay bowl's work lists
	OvlFiles, MoveFiles  []int64
	Gob                  []byte
}

// c03Consumer answers ShouldSave from a schedule, records every checkpoint exactly as a
// caller would persist it (encoding/gob) and stops at the stopAt-th delivered one.
type c03Consumer struct {
	pi     *c03PatchInfo
	sched  func(i int) bool
	asked  []bool
	offers []c03Offer
	stopAt int // 1-based; 0 = never
	onSave func(idx int, o *c03Offer) error
}

func (sc *c03Consumer) ShouldSave() bool {
	v := sc.sched(len(sc.asked))
	sc.asked = append(sc.asked, v)
	return v
}

func c03Project(pi *c03PatchInfo, c *patcher.Checkpoint, g []byte) (c03Offer, error) {
	o := c03Offer{FileIndex: c.FileIndex, Kind: int64(c.FileKind), Gob: g, MsgIndex: -1, SrcIndex: -1}
	if c.MessageCheckpoint == nil || c.MessageCheckpoint.SourceCheckpoint == nil {
		return o, fmt.Errorf("checkpoint without message/source checkpoint")
	}
	o.MsgOffset, o.SrcOffset = c.MessageCheckpoint.Offset, c.MessageCheckpoint.SourceCheckpoint.Offset
	if i, ok := pi.byEnd[o.MsgOffset]; ok {
		o.MsgIndex = i + 1 // index of the next unread message
	}
	if i, ok := pi.byStart[o.SrcOffset]; ok {
		o.SrcIndex = i
	}
	var wc *bowl.WriterCheckpoint
	switch {
	case c.RsyncCheckpoint != nil:
		wc = c.RsyncCheckpoint.WriterCheckpoint
	case c.BsdiffCheckpoint != nil:
		wc = c.BsdiffCheckpoint.WriterCheckpoint
		o.OldOffset, o.Target = c.BsdiffCheckpoint.OldOffset, c.BsdiffCheckpoint.TargetIndex
	}
	if wc == nil {
		return o, fmt.Errorf("checkpoint without writer checkpoint")
	}
	o.Written, o.Phys = wc.Offset, wc.Offset
	if c.BowlCheckpoint != nil {
		if bc, ok := c.BowlCheckpoint.Data.(*bowl.OverlayBowlCheckpoint); ok && bc != nil {
			for _, t := range bc.Transpositions {
				o.Trans = append(o.Trans, [2]int64{t.SourceIndex, t.TargetIndex})
			}
			o.OvlFiles = append(o.OvlFiles, bc.OverlayFiles...)
			o.MoveFiles = append(o.MoveFiles, bc.MoveFiles...)
		}
	}
	if oc, ok := wc.Data.(*bowl.OverlayEntryWriterCheckpoint); ok && oc != nil {
		o.Overlay, o.Phys = true, oc.OverlayOffset
	}
	return o, nil
}

func (sc *c03Consumer) Save(c *patcher.Checkpoint) (patcher.AfterSaveAction, error) {
	var buf bytes.Buffer
	if err := gob.NewEncoder(&buf).Encode(c); err != nil {
		return patcher.AfterSaveStop, c03Wrap(err, "gob-encoding the checkpoint")
	}
	o, err := c03Project(sc.pi, c, buf.Bytes())
	if err != nil {
		return patcher.AfterSaveStop, err
	}
	sc.offers = append(sc.offers, o)
	if sc.onSave != nil {
		if err := sc.onSave(len(sc.offers)-1, &sc.offers[len(sc.offers)-1]); err != nil {
			return patcher.AfterSaveStop, err
		}
	}
	if sc.stopAt > 0 && len(sc.offers) == sc.stopAt {
		return patcher.AfterSaveStop, nil
	}
	return patcher.AfterSaveContinue, nil
}

func c03Decode(g []byte) (*patcher.Checkpoint, error) {
	c := &patcher.Checkpoint{}
	err := gob.NewDecoder(bytes.NewReader(g)).Decode(c)
	return c, err
}

// c03ProbeBoundaries asks the decompressing source of the patch for a checkpoint before every
// read and returns the (decompressed) offsets at which it handed one out.
func c03ProbeBoundaries(patch []byte) (offs []int64) {
	lib.Guard(func() error {
		src := seeksource.FromBytes(patch)
		if _, err := src.Resume(nil); err != nil {
			return err
		}
		raw := wire.NewReadContext(src)
		if err := raw.ExpectMagic(pwr.PatchMagic); err != nil {
			return err
		}
		ph := &pwr.PatchHeader{}
		if err := raw.ReadMessage(ph); err != nil {
			return err
		}
		dctx, err := pwr.DecompressWire(raw, ph.Compression)
		if err != nil {
			return err
		}
		s := dctx.GetSource()
		s.SetSourceSaveConsumer(&savior.CallbackSourceSaveConsumer{OnSave: func(c *savior.SourceCheckpoint) error {
			offs = append(offs, c.Offset)
			return nil
		}})
		buf := make([]byte, 32768)
		for {
			s.WantSave()
			if _, err := s.Read(buf); err != nil {
				return nil
			}
		}
	})
	return offs
}

// ---------------------------------------------------------------- one configuration

type c03Config struct {
	large    bool
	name     string
	patch    []byte
	pi       *c03PatchInfo
	overlay  bool
	comp     lib.Compression
	opt      bool
	old, nw  *lib.Build
	oldDir   string // pristine old build on disk (read only)
	base     string // scratch for this configuration
	thorough bool
}

type c03Disk struct{ out, stage string }

func (cfg *c03Config) newDisk(tag string) (c03Disk, error) {
	d := c03Disk{out: filepath.Join(cfg.base, tag, "out"), stage: filepath.Join(cfg.base, tag, "stage")}
	os.RemoveAll(filepath.Join(cfg.base, tag))
	if cfg.overlay {
		if err := cfg.old.WriteTo(d.out); err != nil {
			return d, err
		}
		return d, os.MkdirAll(d.stage, 0o755)
	}
	return d, os.MkdirAll(d.out, 0o755)
}

func (cfg *c03Config) dropDisk(tag string) { os.RemoveAll(filepath.Join(cfg.base, tag)) }

// snapshot reads what patching has put on disk so far (the part a crash leaves behind).
func (cfg *c03Config) snapshot(d c03Disk) (*lib.Build, error) {
	if cfg.overlay {
		return lib.ReadBuild(d.stage)
	}
	return lib.ReadBuild(d.out)
}

func (cfg *c03Config) work(d c03Disk) string { // where in-progress files live
	if cfg.overlay {
		return d.stage
	}
	return d.out
}

// leg runs one patcher life: brand-new patcher over a fresh source on the same patch bytes,
// brand-new bowl on disk d, Resume(ck). Returns "ok" (patched and committed), "stop"
// (ErrStop), or the failure.
func (cfg *c03Config) leg(d c03Disk, ckGob []byte, sc *c03Consumer) (string, string) {
	res := ""
	cls, msg := lib.WithDeadline(120*time.Second, func() error {
		var ck *patcher.Checkpoint
		if ckGob != nil {
			var err error
			if ck, err = c03Decode(ckGob); err != nil {
				return c03Wrap(err, "gob-decoding the checkpoint")
			}
		}
		p, err := lib.NewPatcher(cfg.patch)
		if err != nil {
			return err
		}
		var b bowl.Bowl
		poolDir := cfg.oldDir
		if cfg.overlay {
			poolDir = d.out
			b, err = bowl.NewOverlayBowl(bowl.OverlayBowlParams{SourceContainer: p.GetSourceContainer(), TargetContainer: p.GetTargetContainer(),
				StageFolder: d.stage, OutputFolder: d.out, Consumer: lib.Quiet})
		} else {
			b, err = bowl.NewFreshBowl(bowl.FreshBowlParams{SourceContainer: p.GetSourceContainer(), TargetContainer: p.GetTargetContainer(),
				TargetPool: fspool.New(p.GetTargetContainer(), cfg.oldDir), OutputFolder: d.out})
		}
		if err != nil {
			return c03Wrap(err, "creating the bowl")
		}
		defer b.Close()
		if sc != nil {
			p.SetSaveConsumer(sc)
		}
		err = p.Resume(ck, fspool.New(p.GetTargetContainer(), poolDir), b)
		if c03Cause(err) == patcher.ErrStop {
			if sc == nil || sc.stopAt == 0 || len(sc.offers) != sc.stopAt {
				return fmt.Errorf("ErrStop although the consumer did not ask to stop")
			}
			res = "stop"
			return nil
		}
		if err != nil {
			return c03Wrap(err, "Resume")
		}
		if sc != nil && sc.stopAt > 0 && len(sc.offers) >= sc.stopAt {
			return fmt.Errorf("Resume returned nil although the consumer asked to stop")
		}
		if err := b.Commit(); err != nil {
			return c03Wrap(err, "Commit")
		}
		res = "ok"
		return nil
	})
	if cls != "ok" {
		return cls, msg
	}
	return res, ""
}

// damage turns disk d (a copy of snapshot k+lag) into a crash disk for checkpoint ck: the
// in-progress file keeps every byte below the checkpointed offset; everything at or after it,
// and every file the checkpoint does not cover (not yet started at k), is fair game.
func (cfg *c03Config) damage(r *lib.Rng, d c03Disk, ck *c03Offer, snapK *lib.Build, mode int) (string, error) {
	work := cfg.work(d)
	files := cfg.pi.Source.Files
	path := filepath.Join(work, filepath.FromSlash(files[ck.FileIndex].Path))
	cur, err := os.ReadFile(path)
	if err != nil {
		return "", fmt.Errorf("in-progress file missing on the crash disk: %v", err)
	}
	po := int(ck.Phys)
	if len(cur) < po {
		return "", fmt.Errorf("in-progress file shorter (%d) than the checkpointed offset (%d): the checkpoint covers bytes that were never on disk", len(cur), po)
	}
	desc := ""
	garble := func(b []byte, kind int) {
		switch kind {
		case 0:
			copy(b, r.Bytes(len(b)))
		case 1:
			for i := range b {
				b[i] = 0
			}
		default: // torn: each 512-byte sector is the version of snapshot k or the later one
			var prev []byte
			if snapK != nil {
				if e := snapK.Get(files[ck.FileIndex].Path); e != nil {
					prev = e.Data
				}
			}
			for s := 0; s < len(b); s += 512 {
				if r.Bool() {
					for i := s; i < s+512 && i < len(b); i++ {
						if po+i < len(prev) {
							b[i] = prev[po+i]
						} else {
							b[i] = 0
						}
					}
				}
			}
		}
	}
	switch mode {
	case 0:
		desc = "asis"
	case 1:
		cur = cur[:po]
		desc = "trunc@ckpt"
	case 2:
		cur = cur[:po+r.Intn(len(cur)-po+1)]
		desc = fmt.Sprintf("trunc@ckpt+%d", len(cur)-po)
	case 3, 4, 5:
		garble(cur[po:], mode-3)
		desc = []string{"garble", "zeros", "torn"}[mode-3]
	default:
		cur = cur[:po+r.Intn(len(cur)-po+1)]
		garble(cur[po:], r.Intn(3))
		desc = fmt.Sprintf("trunc@ckpt+%d+garble", len(cur)-po)
	}
	if err := os.WriteFile(path, cur, 0o644); err != nil {
		return "", err
	}
	// files the checkpoint does not cover (series not started at k)
	if mode != 0 && r.Chance(2, 3) {
		n := 0
		for i := int(ck.FileIndex) + 1; i < len(files); i++ {
			p := filepath.Join(work, filepath.FromSlash(files[i].Path))
			b, err := os.ReadFile(p)
			if err != nil {
				continue
			}
			switch r.Intn(4) {
			case 0:
				os.Remove(p)
			case 1:
				os.WriteFile(p, b[:r.Intn(len(b)+1)], 0o644)
			case 2:
				copy(b, r.Bytes(len(b)))
				os.WriteFile(p, b, 0o644)
			default:
				continue
			}
			n++
		}
		if n > 0 {
			desc += fmt.Sprintf("+later(%d)", n)
		}
	}
	return desc, nil
}

type c03Result struct {
	obs     map[string]interface{}
	oracle  string
	resumes int
	ckpts   int
	coq     []string // model cases of group "offers"
}

func c03Sched(r *lib.Rng, density int) func(int) bool {
	// density: 0 never, 1 always, n>1: one call in n answers true (decided by a hash of the
	// call index so that the schedule does not depend on evaluation order)
	seed := r.U64()
	return func(i int) bool {
		switch density {
		case 0:
			return false
		case 1:
			return true
		}
		return lib.NewRng(seed+uint64(i)*7919).Intn(density) == 0
	}
}

func (cfg *c03Config) run(r *lib.Rng) (res c03Result) {
	res.obs = map[string]interface{}{}
	fail := func(format string, a ...interface{}) c03Result {
		if res.oracle == "" {
			res.oracle = fmt.Sprintf(format, a...)
		}
		return res
	}
	defer os.RemoveAll(cfg.base)

	// (0) uninterrupted reference run without any save consumer
	d, err := cfg.newDisk("ref")
	if err != nil {
		panic(err)
	}
	if st, msg := cfg.leg(d, nil, nil); st != "ok" {
		return fail("uninterrupted run: %s %s", st, msg)
	}
	ref, err := lib.ReadBuild(d.out)
	if err != nil {
		panic(err)
	}
	cfg.dropDisk("ref")
	if df := lib.DiffBuilds(ref, cfg.nw); df != "" {
		return fail("uninterrupted result differs from the new build: %s", df)
	}

	// (1a) recording run, always-true ShouldSave, continue: count and project the checkpoints
	d, _ = cfg.newDisk("rec")
	rec := &c03Consumer{pi: cfg.pi, sched: c03Sched(r, 1)}
	if st, msg := cfg.leg(d, nil, rec); st != "ok" {
		return fail("recording run (always save, continue): %s %s", st, msg)
	}
	got, _ := lib.ReadBuild(d.out)
	cfg.dropDisk("rec")
	if df := lib.DiffBuilds(got, ref); df != "" {
		return fail("run that saves at every opportunity differs from the uninterrupted result: %s", df)
	}
	n := len(rec.offers)
	res.ckpts = n
	res.obs["checkpoints"] = n
	res.obs["shouldSaveCalls"] = len(rec.asked)
	res.obs["patchLen"] = len(cfg.patch)
	res.obs["messages"] = len(cfg.pi.Msgs)

	// (3) liveness
	perSeries := map[int64]int{}
	for _, o := range rec.offers {
		perSeries[o.FileIndex]++
	}
	if cfg.comp.Algo == pwr.CompressionAlgorithm_NONE {
		for _, se := range cfg.pi.Series {
			iters := se.NOps // loop iterations of the series: rsync n ops -> n, bsdiff c controls -> c+1
			if se.Bsdiff {
				iters = se.NOps + 1
			}
			if se.FullFile {
				continue
			}
			if iters >= 2 && perSeries[se.FileIndex] == 0 {
				return fail("liveness: series of file %d (%d ops, bsdiff=%v) got no checkpoint although ShouldSave always answered true (seek source)", se.FileIndex, se.NOps, se.Bsdiff)
			}
		}
		res.coq = append(res.coq, cfg.coqOffers(nil, rec))
	} else {
		// Decompressing sources can only checkpoint where their library can (deflate block /
		// brotli meta-block boundaries, the latter megabytes apart at quality >= 4), and a
		// request is only relayed from inside a relay loop: report the rate; fail only when
		// the source itself, asked before every read, hands out many checkpoints after the
		// first relay-loop iteration and the patcher still delivered none
		mib := float64(len(cfg.patch)) / (1 << 20)
		res.obs["checkpointsPerMiB"] = float64(n) / mib
		if n == 0 {
			first := int64(-1)
			for _, se := range cfg.pi.Series {
				if !se.FullFile && se.Last-se.First >= 3 {
					first = cfg.pi.Msgs[se.First+2].Start
					break
				}
			}
			usable := 0
			if first >= 0 {
				for _, b := range c03ProbeBoundaries(cfg.patch) {
					if b > first {
						usable++
					}
				}
			}
			res.obs["sourceBoundariesAfterFirstLoop"] = usable
			if usable >= 16 {
				return fail("liveness: no checkpoint at all over a %d-byte %s patch with an always-true ShouldSave although the source offers %d checkpoints after the first relay-loop iteration", len(cfg.patch), cfg.comp, usable)
			}
		}
	}
	if n == 0 {
		return res
	}

	// which checkpoints to resume from
	var ks []int
	maxK := 7
	if cfg.opt {
		maxK = 4 // every brand-new patcher that meets a bsdiff series allocates a 32 MiB cache: ~0.1 s
	}
	if cfg.thorough { // all checkpoints, up to a bound that keeps the tier within its budget
		maxK = 48
		if cfg.opt {
			maxK = 24
		}
	}
	if cfg.large {
		maxK = 6
	}
	if n <= maxK {
		for k := 0; k < n; k++ {
			ks = append(ks, k)
		}
	} else {
		seen := map[int]bool{}
		for i := 0; i < maxK; i++ {
			k := i * (n - 1) / (maxK - 1)
			if i%3 == 1 { // jitter so that different seeds visit different positions
				k = r.Intn(n)
			}
			if !seen[k] {
				seen[k] = true
				ks = append(ks, k)
			}
		}
		sort.Ints(ks)
	}
	lags := []int{0, 1, 3}
	// (1b)+(2): in windows of at most 30 checkpoints (memory), run the same recording again
	// snapshotting the disk at the needed checkpoints, then crash + resume
	firstFail := ""
	damageMode := r.Intn(7)
	for w := 0; w < len(ks) && firstFail == ""; w += 30 {
		win := ks[w:]
		if len(win) > 30 {
			win = win[:30]
		}
		need := map[int]bool{}
		for _, k := range win {
			for _, l := range lags {
				need[k+l] = true
			}
		}
		d, _ = cfg.newDisk("snap")
		snaps := map[int]*lib.Build{}
		// answering false to the first 0..2 calls shifts which op boundaries receive checkpoints
		phase := r.Intn(3)
		rec2 := &c03Consumer{pi: cfg.pi, sched: func(i int) bool { return i >= phase }}
		rec2.onSave = func(idx int, o *c03Offer) error {
			if need[idx] {
				s, err := cfg.snapshot(d)
				if err != nil {
					return err
				}
				snaps[idx] = s
			}
			return nil
		}
		if st, msg := cfg.leg(d, nil, rec2); st != "ok" {
			return fail("recording run with snapshots: %s %s", st, msg)
		}
		cfg.dropDisk("snap")
		// (the number of checkpoints a decompressing source hands out could legitimately vary
		// between runs; each window works with the checkpoints of its own recording)
		offers := rec2.offers
		for _, k := range win {
			for li, lag := range lags {
				if firstFail != "" || k >= len(offers) || snaps[k] == nil || snaps[k+lag] == nil {
					continue
				}
				if cfg.opt && !cfg.thorough && li > 0 && li != 1+k%2 {
					continue // quick tier, optimized patches: lag 0 and one of {1, 3} per checkpoint
				}
				damageMode = (damageMode + 1) % 7
				mode := damageMode
				cr := r.Fork()
				if lag == 0 && cr.Chance(1, 4) {
					mode = 0
				}
				ff, first := cfg.crashResume(cr, k, lag, len(offers), &offers[k], snaps[k], snaps[k+lag], mode, &res)
				firstFail = ff
				if cfg.comp.Algo == pwr.CompressionAlgorithm_NONE && first != nil && ff == "" && len(res.coq) < cfg.maxCoq() {
					res.coq = append(res.coq, cfg.coqOffers(&offers[k], first))
				}
			}
		}
	}
	res.obs["resumes"] = res.resumes
	if firstFail != "" {
		return fail("%s", firstFail)
	}
	return res
}

func (cfg *c03Config) maxCoq() int {
	if cfg.thorough {
		return 8
	}
	return 4
}

// crashResume builds the crash disk for checkpoint k from snapshot k+lag, resumes in a
// brand-new patcher and bowl (possibly stopping and resuming again) and compares the final
// tree. Returns the failure ("" = fine) and the consumer of the first resumed leg.
func (cfg *c03Config) crashResume(cr *lib.Rng, k, lag, n int, ck *c03Offer, snapK, snapKL *lib.Build, mode int, res *c03Result) (string, *c03Consumer) {
	tag := fmt.Sprintf("crash-%d-%d", k, lag)
	d, _ := cfg.newDisk(tag)
	defer cfg.dropDisk(tag)
	defer runtime.GC()
	if err := snapKL.WriteTo(cfg.work(d)); err != nil {
		panic(err)
	}
	where := fmt.Sprintf("checkpoint %d/%d (file %d %s, bsdiff=%v, written %d, disk offset %d, msg offset %d) on snapshot k+%d",
		k, n, ck.FileIndex, files(cfg.pi, ck.FileIndex), ck.Kind == patcher.FileKindBsdiff, ck.Written, ck.Phys, ck.MsgOffset, lag)
	desc, err := cfg.damage(cr, d, ck, snapK, mode)
	if err != nil {
		return fmt.Sprintf("%s: %v", where, err), nil
	}
	var chain []string
	var first *c03Consumer
	ckGob := ck.Gob
	maxLegs := 1 + []int{0, 0, 0, 1, 1, 2, 3}[cr.Intn(7)]
	for leg := 0; ; leg++ {
		last := leg >= maxLegs-1
		sc := &c03Consumer{pi: cfg.pi}
		if last {
			sc.sched = c03Sched(cr, []int{0, 1, 1, 2, 3, 5}[cr.Intn(6)])
		} else {
			sc.sched = c03Sched(cr, []int{1, 1, 2, 3}[cr.Intn(4)])
			sc.stopAt = cr.Range(1, 6)
		}
		st, msg := cfg.leg(d, ckGob, sc)
		res.resumes++
		if leg == 0 {
			first = sc
		}
		chain = append(chain, fmt.Sprintf("%s(asked %d, offered %d)", st, len(sc.asked), len(sc.offers)))
		switch st {
		case "stop":
			stopCk := sc.offers[len(sc.offers)-1]
			ckGob = stopCk.Gob
			// a graceful stop leaves the disk at the checkpoint; a crash right after it may still
			// lose or tear what lies at or beyond the checkpointed offset
			if cr.Chance(1, 2) {
				dd, err := cfg.damage(cr, d, &stopCk, nil, []int{1, 2, 3, 4, 6}[cr.Intn(5)])
				if err != nil {
					return fmt.Sprintf("resume from %s damaged by %s, chain %v, after the stop: %v", where, desc, chain, err), first
				}
				chain = append(chain, "damage:"+dd)
			}
			continue
		case "ok":
			got, err := lib.ReadBuild(d.out)
			if err != nil {
				panic(err)
			}
			if df := lib.DiffBuilds(got, cfg.nw); df != "" {
				return fmt.Sprintf("resume from %s damaged by %s, chain %v: final tree differs from the uninterrupted result: %s", where, desc, chain, df), first
			}
			return "", first
		default:
			return fmt.Sprintf("resume from %s damaged by %s, chain %v: %s %s", where, desc, chain, st, msg), first
		}
	}
}

func files(pi *c03PatchInfo, i int64) string { return pi.Source.Files[i].Path }

// coqOffers renders one model case: the run (from the start, or resumed from checkpoint
// `from`) under the recorded ShouldSave answers, with the checkpoints it offered.
func (cfg *c03Config) coqOffers(from *c03Offer, sc *c03Consumer) string {
	ck := "None"
	if from != nil {
		ck = fmt.Sprintf("(Some %s)", coqOffer(from))
	}
	asked := make([]string, len(sc.asked))
	for i, b := range sc.asked {
		asked[i] = lib.CoqBool(b)
	}
	offs := make([]string, len(sc.offers))
	for i := range sc.offers {
		offs[i] = coqOffer(&sc.offers[i])
	}
	stop, status := 0, 0
	if sc.stopAt > 0 && len(sc.offers) >= sc.stopAt {
		stop, status = sc.stopAt, 1
	}
	return fmt.Sprintf("($ID%%N, %s, %s, %s, %s, %d%%nat, %d%%N, %s)", lib.CoqBool(!cfg.overlay), cfg.pi.Coq(), ck, lib.CoqList(asked), stop, status, lib.CoqList(offs))
}

func coqOffer(o *c03Offer) string {
	idx := func(i int) string {
		if i < 0 {
			return "999999999%N"
		}
		return lib.CoqN(int64(i))
	}
	tr := make([]string, len(o.Trans))
	for i, t := range o.Trans {
		tr[i] = fmt.Sprintf("(%d, %d)", t[0], t[1])
	}
	return fmt.Sprintf("(mkOffer %s %s %s %s %s %s %s ([%s])%%N %s %s)", idx(o.MsgIndex), idx(o.SrcIndex), lib.CoqN(o.FileIndex), lib.CoqBool(o.Kind == patcher.FileKindBsdiff),
		lib.CoqN(o.Written), lib.CoqZ(o.OldOffset), lib.CoqN(o.Target), strings.Join(tr, "; "), lib.CoqNList(o.OvlFiles), lib.CoqNList(o.MoveFiles))
}

// ---------------------------------------------------------------- driver

func runC03(c *Ctx) error {
	defer c03Prof()()
	// every brand-new patcher that meets a bsdiff series allocates a 32 MiB LRU cache, and
	// first-touch page faults are very expensive on the test machines: collect explicitly after
	// every crash/resume attempt and never return freed spans to the OS, so they are recycled.
	// Time only, not semantics.
	defer debug.SetGCPercent(debug.SetGCPercent(-1))
	r := c.Rng.Fork()
	// the search tier (after a disagreement with the model) re-runs at quick depth with other
	// seeds: a thorough-sized search would take hours
	thorough := c.Tier == "thorough"
	npairs := 2
	if thorough {
		npairs = 16
	} else if c.Tier == "search" {
		npairs = 3
	}
	type job struct {
		cfg  *c03Config
		rng  *lib.Rng
		in   map[string]interface{}
		cls  string
		res  c03Result
		skip string
	}
	gz := []lib.Compression{{Algo: pwr.CompressionAlgorithm_GZIP, Quality: 1}, {Algo: pwr.CompressionAlgorithm_GZIP, Quality: 6}, {Algo: pwr.CompressionAlgorithm_GZIP, Quality: 9}}
	br := []lib.Compression{{Algo: pwr.CompressionAlgorithm_BROTLI, Quality: 1}, {Algo: pwr.CompressionAlgorithm_BROTLI, Quality: 6}, {Algo: pwr.CompressionAlgorithm_BROTLI, Quality: 9}}
	for pi := 0; pi < npairs; pi++ {
		pr := r.Fork()
		class := "multi"
		if pi%2 == 1 {
			class = "genpair"
		}
		if thorough && pi == npairs-1 {
			class = "large"
		}
		if only := os.Getenv("C03_ONLY"); only != "" && only != fmt.Sprint(pi) {
			continue // debugging aid: run a single pair
		}
		maxBlocks := 14
		if thorough {
			maxBlocks = []int{10, 16, 24, 32}[pi%4]
		}
		old, nw, rel := c03Pair(pr, class, maxBlocks)
		base := filepath.Join(c.Tmp, fmt.Sprintf("c03-%d", pi))
		os.RemoveAll(base)
		oldDir, newDir := filepath.Join(base, "old"), filepath.Join(base, "new")
		if err := old.WriteTo(oldDir); err != nil {
			return err
		}
		if err := nw.WriteTo(newDir); err != nil {
			return err
		}
		comps := []lib.Compression{{Algo: pwr.CompressionAlgorithm_NONE}, gz[pr.Intn(3)], br[[]int{0, 0, 1, 2}[pr.Intn(4)]]}
		if !thorough && pi%2 == 1 {
			// quick tier: the second pair runs uncompressed and under one of the two codecs
			comps = []lib.Compression{comps[0], comps[1+int(c.Seed+uint64(pi/2))%2]}
		}
		var jobs []*job
		for _, comp := range comps {
			var plain *lib.DiffResult
			cls, msg := lib.Guard(func() error {
				var err error
				plain, err = lib.Diff(oldDir, newDir, comp, nil)
				return err
			})
			if cls != "ok" {
				return fmt.Errorf("diff failed on a generated pair (%s): %s", cls, msg) // C01's business; never expected here
			}
			patches := map[string][]byte{"plain": plain.Patch}
			var opt []byte
			parts := pr.Intn(2)
			cls, msg = lib.Guard(func() error {
				var err error
				opt, err = lib.Optimize(plain.Patch, oldDir, newDir, lib.OptParams{Partitions: parts, Concurrency: 1, Comp: comp})
				return err
			})
			if cls == "ok" {
				patches["opt"] = opt
			}
			for _, kind := range []string{"plain", "opt"} {
				patch, ok := patches[kind]
				if !ok {
					continue
				}
				info, err := c03ParsePatch(patch)
				if err != nil {
					return fmt.Errorf("cannot decode the %s patch: %v", kind, err)
				}
				for _, ov := range []bool{false, true} {
					bw := "fresh"
					if ov {
						bw = "overlay"
					}
					name := fmt.Sprintf("%s/%s/%s", kind, bw, comp.Algo)
					nbs := 0
					for _, se := range info.Series {
						if se.Bsdiff {
							nbs++
						}
					}
					jobs = append(jobs, &job{cls: name, rng: pr.Fork(),
						cfg: &c03Config{name: name, patch: patch, pi: info, overlay: ov, comp: comp, opt: kind == "opt", old: old, nw: nw, oldDir: oldDir,
							base: filepath.Join(base, strings.ReplaceAll(name, "/", "-")), thorough: thorough, large: class == "large"},
						in: map[string]interface{}{"pair": pi, "pairClass": class, "relations": rel, "old": old.Summary(), "new": nw.Summary(),
							"patch": kind, "bowl": bw, "compression": comp.String(), "bsdiffSeries": nbs, "series": len(info.Series)}})
				}
			}
		}
		// configurations are independent: run up to 4 at a time, emit in order
		sem := make(chan struct{}, 4)
		var wg sync.WaitGroup
		for _, j := range jobs {
			wg.Add(1)
			sem <- struct{}{}
			go func(j *job) {
				defer wg.Done()
				defer func() { <-sem }()
				cls, msg := lib.Guard(func() error { j.res = j.cfg.run(j.rng); return nil })
				if cls != "ok" {
					j.res.oracle = "harness/implementation panic: " + msg
				}
			}(j)
		}
		wg.Wait()
		for _, j := range jobs {
			nontrivial := j.res.ckpts >= 6 && j.res.resumes >= 6
			if len(j.res.coq) == 0 {
				c.Out.Emit(&lib.Case{Class: j.cls, Nontrivial: nontrivial, Input: j.in, Obs: j.res.obs, Oracle: j.res.oracle})
				continue
			}
			for i, term := range j.res.coq {
				cs := &lib.Case{Group: "offers", Class: j.cls, Nontrivial: nontrivial, Input: j.in, Obs: j.res.obs, Coq: term}
				if i == 0 {
					cs.Oracle = j.res.oracle
				} else {
					cs.Class = j.cls + "/resumed-offers"
					cs.Input = map[string]interface{}{"of": j.in, "resumedCase": i}
					cs.Obs = nil
				}
				c.Out.Emit(cs)
			}
		}
		removeAll(base)
	}
	return nil
}
