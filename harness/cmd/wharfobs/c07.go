package main

// C07 — optimizing a patch (rediff: bsdiff series substituted for rsync series) never changes
// what it produces, and the optimizer returns for every valid patch and every parameter setting.
//
// Group "rediff" (oracle + model): build pair -> plain patch -> rediff analysis + Optimize under
// (partitions, concurrency, ForceMapAll, size limit, output compression) -> both patches applied
// fresh and in place.
//   oracle: Optimize returns without panic / hang / error; the optimized patch decodes, carries a
//           bsdiff series exactly for the mapped files (with the mapped target) and the original
//           ops verbatim for the others; all four applications give the new build.
//   model : the mapping chosen for every new file is one the selection rule allows (the rule
//           iterates a Go map: any max-bytes old file, the same-path one on ties), with the
//           reused-bytes figure of the model.
// The two known bsdiff defects (DESIGN section 7, #7 and #8) crash the optimizer; runs whose
// mappings have a tiny file on either side, and runs that bsdiff two or more files, are executed
// in a child process (re-exec of this binary, sub-command C07child) so that a panic in a
// goroutine (suffix sorter, scan worker) cannot take the harness down.

import (
	"bytes"
	"encoding/json"
	"fmt"
	"os"
	"os/exec"
	"path/filepath"
	"runtime"
	"strings"
	"time"

	"github.com/itchio/wharf/pwr/rediff"

	"verif/harness/lib"
)

func init() {
	register("C07", runC07)
	register("C07child", runC07Child)
}

const (
	c07FindingDiv   = "C07/bsdiff-div-by-zero-small-new"
	c07FindingEmpty = "C07/bsdiff-empty-old-panic"
)

type c07Job struct {
	Patch, OldDir, NewDir, Out, Result string
	Params                             lib.OptParams
}

type c07Result struct {
	Class, Msg string
	Mappings   []rdMapping // the analysis of the run that produced the optimized patch
}

// runC07Child: analyse + optimize as told by the job file (given through -replay)
func runC07Child(c *Ctx) error {
	b, err := os.ReadFile(c.Replay)
	if err != nil {
		return err
	}
	var job c07Job
	if err := json.Unmarshal(b, &job); err != nil {
		return err
	}
	patch, err := os.ReadFile(job.Patch)
	if err != nil {
		return err
	}
	var ms []rdMapping
	cls, msg := lib.Guard(func() error {
		rc, m, err := rdAnalyze(patch, job.Params)
		if err != nil {
			return err
		}
		ms = m
		out, err := rdOptimizeWith(rc, job.OldDir, job.NewDir)
		if err != nil {
			return err
		}
		return os.WriteFile(job.Out, out, 0o644)
	})
	rb, _ := json.Marshal(c07Result{cls, msg, ms})
	return os.WriteFile(job.Result, rb, 0o644)
}

// c07OptimizeChild runs the optimizer in a child process
func (c *Ctx) c07OptimizeChild(dir string, patch []byte, oldDir, newDir string, o lib.OptParams, deadline time.Duration) (cls, msg string, out []byte, ms []rdMapping) {
	job := c07Job{Patch: filepath.Join(dir, "job.patch"), OldDir: oldDir, NewDir: newDir, Out: filepath.Join(dir, "job.out"),
		Result: filepath.Join(dir, "job.result"), Params: o}
	jobFile := filepath.Join(dir, "job.json")
	for _, f := range []string{job.Out, job.Result} {
		os.Remove(f)
	}
	if err := os.WriteFile(job.Patch, patch, 0o644); err != nil {
		return "harness", err.Error(), nil, nil
	}
	jb, _ := json.Marshal(job)
	if err := os.WriteFile(jobFile, jb, 0o644); err != nil {
		return "harness", err.Error(), nil, nil
	}
	exe, err := os.Executable()
	if err != nil {
		return "harness", err.Error(), nil, nil
	}
	cmd := exec.Command(exe, "C07child", "-replay", jobFile, "-out", os.DevNull, "-tmp", dir)
	var stderr bytes.Buffer
	cmd.Stderr = &stderr
	cmd.Stdout = nil
	if err := cmd.Start(); err != nil {
		return "harness", err.Error(), nil, nil
	}
	done := make(chan error, 1)
	go func() { done <- cmd.Wait() }()
	select {
	case err = <-done:
	case <-time.After(deadline):
		cmd.Process.Kill()
		<-done
		return "hang", fmt.Sprintf("no return within %s", deadline), nil, nil
	}
	rb, rerr := os.ReadFile(job.Result)
	if err != nil || rerr != nil {
		// the process died: a panic outside the calling goroutine
		tail := stderr.String()
		if i := strings.Index(tail, "panic:"); i >= 0 {
			tail = tail[i:]
		}
		if len(tail) > 300 {
			tail = tail[:300]
		}
		return "panic", "optimizer process died: " + strings.TrimSpace(tail), nil, nil
	}
	var res c07Result
	if err := json.Unmarshal(rb, &res); err != nil {
		return "harness", err.Error(), nil, nil
	}
	if res.Class == "ok" {
		out, err = os.ReadFile(job.Out)
		if err != nil {
			return "harness", err.Error(), nil, nil
		}
	}
	return res.Class, res.Msg, out, res.Mappings
}

// ---------------------------------------------------------------- pairs

// c07Enrich adds what the quantifier text lists on top of a C01 pair: new files of 0..16 bytes,
// tiny and empty old files, files that map to a differently named old file.
func c07Enrich(r *lib.Rng, old, nw *lib.Build, rel []string) []string {
	tiny := func() []byte {
		n := r.Range(0, 16)
		if r.Chance(1, 3) {
			return bytes.Repeat([]byte{byte(r.Intn(3))}, n)
		}
		return r.Bytes(n)
	}
	n := r.Range(1, 5)
	for k := 0; k < n; k++ {
		switch r.Intn(8) {
		case 0: // brand-new tiny file
			p := fmt.Sprintf("tiny/new%d.bin", k)
			nw.Put(lib.Entry{Path: p, Kind: "file", Data: tiny()})
			rel = append(rel, "tiny-added:"+p)
		case 1: // an old file (of any size) shrinks to 0..16 bytes under the same path
			fs := old.Files()
			f := fs[r.Intn(len(fs))]
			d := tiny()
			if len(f.Data) > 0 && len(d) > 0 && r.Bool() { // keep something in common
				copy(d, f.Data)
			}
			nw.Put(lib.Entry{Path: f.Path, Kind: "file", Data: d})
			rel = append(rel, fmt.Sprintf("shrunk-to-%d:%s", len(d), f.Path))
		case 2: // tiny old file, same path, edited / grown / emptied in the new build
			p := fmt.Sprintf("tiny/t%d.bin", k)
			od := tiny()
			old.Put(lib.Entry{Path: p, Kind: "file", Data: od})
			var nd []byte
			switch r.Intn(4) {
			case 0:
				nd = tiny()
			case 1:
				nd = append(append([]byte(nil), od...), r.Bytes(r.Range(1, 40))...)
			case 2:
				nd = append(r.Bytes(r.Range(1, 20)), od...)
			default:
				nd = lib.GenContent(r, r.Range(1, lib.BS+10))
			}
			nw.Put(lib.Entry{Path: p, Kind: "file", Data: nd})
			rel = append(rel, fmt.Sprintf("tiny-old-%d-new-%d:%s", len(od), len(nd), p))
		case 3: // empty old file that is not empty any more (same path)
			p := fmt.Sprintf("tiny/e%d.bin", k)
			old.Put(lib.Entry{Path: p, Kind: "file", Data: nil})
			nw.Put(lib.Entry{Path: p, Kind: "file", Data: r.Bytes(r.Range(1, 300))})
			rel = append(rel, "empty-old-grows:"+p)
		case 4, 5: // edited and moved: maps to a differently named old file
			fs := old.Files()
			f := fs[r.Intn(len(fs))]
			d, how := lib.Edit(r, f.Data)
			if r.Bool() {
				d, _ = lib.Edit(r, d)
			}
			p := fmt.Sprintf("moved/m%d.bin", k)
			nw.Put(lib.Entry{Path: p, Kind: "file", Data: d})
			if r.Bool() {
				nw.Remove(f.Path)
			}
			rel = append(rel, "edited+moved:"+f.Path+"->"+p+":"+how)
		case 6: // two old files contribute the same number of blocks to a new file (tie)
			fs := old.Files()
			a, b := fs[r.Intn(len(fs))], fs[r.Intn(len(fs))]
			if len(a.Data) >= lib.BS && len(b.Data) >= lib.BS {
				d := append(append(append([]byte(nil), a.Data[:lib.BS]...), r.Bytes(r.Range(1, 100))...), b.Data[:lib.BS]...)
				p := a.Path
				if r.Bool() {
					p = fmt.Sprintf("tie/t%d.bin", k)
				}
				nw.Put(lib.Entry{Path: p, Kind: "file", Data: d})
				rel = append(rel, "tie:"+a.Path+"+"+b.Path+"->"+p)
			}
		default: // small edit of a small file under the same path
			p := fmt.Sprintf("tiny/s%d.bin", k)
			od := r.Bytes(r.Range(17, 400))
			nd := append([]byte(nil), od...)
			nd[r.Intn(len(nd))] ^= 0x20
			if r.Bool() {
				nd = nd[:r.Range(1, len(nd))]
			}
			old.Put(lib.Entry{Path: p, Kind: "file", Data: od})
			nw.Put(lib.Entry{Path: p, Kind: "file", Data: nd})
			rel = append(rel, fmt.Sprintf("small-edit-%d->%d:%s", len(od), len(nd), p))
		}
	}
	return rel
}

type c07Fixed struct {
	name        string
	old, nw     map[string][]byte
	partitions  int
	force       bool
	concurrency int
}

// c07Concurrency draws a suffix-sort concurrency setting. The field is a plain int ("Exceeding
// the number of cores will only slow it down. A 0 value (default) uses sequential suffix
// sorting ... A negative value means (number of cores - value)"): every int is a legal setting,
// and whatever the code derives from it (a number of workers, a channel capacity, a semaphore)
// has its boundaries at 0, at 1, at the partition count and at +-(number of cores of the machine
// the optimizer runs on), not at fixed numbers. So the draw is made relative to
// runtime.NumCPU(): on or next to -cores (0 or 1 worker left, or a negative count) in 3 draws of
// 10, far below -cores, next to / far above +cores, next to the partition count, and the small
// values -3..4.
func c07Concurrency(r *lib.Rng, partitions int) int {
	cores := runtime.NumCPU()
	switch r.Intn(10) {
	case 0:
		return 0
	case 1:
		return r.Range(1, 4)
	case 2:
		return r.Range(-3, -1)
	case 3: // as many sorters as partitions, one less, one more
		if v := partitions + r.Range(-1, 1); v > 0 {
			return v
		}
		return 1
	case 4: // more workers than cores
		return []int{cores - 1, cores, cores + 1, 2 * cores, 4*cores + r.Range(0, 50), 1000}[r.Intn(6)]
	case 5, 6, 7: // "number of cores - value" is 2, 1, 0, -1, -2
		return -cores + r.Range(-2, 2)
	case 8:
		return -cores - r.Range(3, 16)
	default:
		return []int{-2 * cores, -4*cores - r.Range(0, 50), -1000}[r.Intn(3)]
	}
}

// c07ConcurrencyClass: where a setting lies relative to 0 and to the number of cores
func c07ConcurrencyClass(v int) string {
	cores := runtime.NumCPU()
	switch {
	case v == 0:
		return "c0"
	case v > cores:
		return "c>cores"
	case v > 0:
		return "c+"
	case v > -cores:
		return "c-"
	case v == -cores:
		return "c=-cores"
	}
	return "c<-cores"
}

func c07Corpus() []c07Fixed {
	r := lib.NewRng(707)
	o16 := r.Bytes(16)
	cores := runtime.NumCPU()
	e0 := r.Bytes(lib.BS + 4567)
	e1 := append([]byte(nil), e0...)
	for i := 1000; i < len(e1); i += 9001 {
		e1[i] += 3
	}
	return []c07Fixed{
		// #7: old 16 B, new 3 B, partitions 4: integer divide by zero
		{name: "corpus/old16-new3-partitions4", old: map[string][]byte{"f.bin": o16}, nw: map[string][]byte{"f.bin": {9, 8, 7}}, partitions: 4},
		// same shape, partitions small enough
		{name: "corpus/old16-new3-partitions2", old: map[string][]byte{"f.bin": o16}, nw: map[string][]byte{"f.bin": {9, 8, 7}}, partitions: 2},
		// #8 as far as a patch can reach it: empty old file, non-empty new file at the same path
		{name: "corpus/old-empty-new3", old: map[string][]byte{"f.bin": {}, "g.bin": o16}, nw: map[string][]byte{"f.bin": {1, 2, 3}, "g.bin": o16}, partitions: 0, force: true},
		// new file empty, old not, every file mapped
		{name: "corpus/new-empty-forced", old: map[string][]byte{"f.bin": o16}, nw: map[string][]byte{"f.bin": {}}, partitions: 3, force: true},
		// one edited file of a block and a bit; a negative concurrency setting that leaves no core,
		// one core, or less than no core ("number of cores - value" = 1, -3, -1, then 0), and a positive
		// one above the number of cores and of partitions
		{name: "corpus/edited/concurrency=-cores+1/partitions3", old: map[string][]byte{"f.bin": e0}, nw: map[string][]byte{"f.bin": e1}, partitions: 3, concurrency: -cores + 1},
		{name: "corpus/edited/concurrency=-cores-3/partitions2", old: map[string][]byte{"f.bin": e0}, nw: map[string][]byte{"f.bin": e1}, partitions: 2, concurrency: -cores - 3},
		{name: "corpus/edited/concurrency=-cores-1/partitions16", old: map[string][]byte{"f.bin": e0}, nw: map[string][]byte{"f.bin": e1}, partitions: 16, concurrency: -cores - 1},
		{name: "corpus/edited/concurrency=2*cores+1/partitions4", old: map[string][]byte{"f.bin": e0}, nw: map[string][]byte{"f.bin": e1}, partitions: 4, concurrency: 2*cores + 1},
		{name: "corpus/edited/concurrency=-cores/partitions0", old: map[string][]byte{"f.bin": e0}, nw: map[string][]byte{"f.bin": e1}, partitions: 0, concurrency: -cores},
		{name: "corpus/edited/concurrency=-cores/partitions5", old: map[string][]byte{"f.bin": e0}, nw: map[string][]byte{"f.bin": e1}, partitions: 5, concurrency: -cores},
	}
}

// ---------------------------------------------------------------- one case

func c07CoqOps(ops []rdOp) string {
	var s []string
	for _, op := range ops {
		if op.Range {
			s = append(s, fmt.Sprintf("SRange %s %s %s", lib.CoqZ(op.File), lib.CoqZ(op.Blk), lib.CoqZ(op.Span)))
		} else {
			s = append(s, fmt.Sprintf("SData %s", lib.CoqZ(int64(op.DataLen))))
		}
	}
	return lib.CoqList(s)
}

// c07Apps says how the two patches of a case are applied on top of original/fresh and
// optimized/fresh.
type c07Apps struct {
	inplaceOpt, inplaceOrig bool
	// applications of the optimized patch with a save consumer: first one that is offered every
	// checkpoint and takes none ("saving"), then one interrupted by the c07Plan of the given kind
	interrupted []c07Interrupt
	rng         *lib.Rng      // source of the interruption plans
	deadline    time.Duration // per call of the optimizer / the patcher (default 180 s)
}

type c07Interrupt struct {
	inplace  bool
	kind     int
	original bool // the original patch instead of the optimized one
}

func (c *Ctx) c07Run(idx int, name string, old, nw *lib.Build, rel []string, o lib.OptParams, comp lib.Compression, ap c07Apps) error {
	base := filepath.Join(c.Tmp, fmt.Sprintf("c07-%d", idx))
	defer removeAll(base)
	deadline := ap.deadline
	if deadline == 0 {
		deadline = 180 * time.Second
	}
	oldDir, newDir := filepath.Join(base, "old"), filepath.Join(base, "new")
	if err := old.WriteTo(oldDir); err != nil {
		return err
	}
	if err := nw.WriteTo(newDir); err != nil {
		return err
	}
	dr, err := lib.Diff(oldDir, newDir, comp, nil)
	if err != nil {
		return fmt.Errorf("c07: diff: %v", err)
	}
	orig, err := rdDecode(dr.Patch)
	if err != nil {
		return fmt.Errorf("c07: decoding the plain patch: %v", err)
	}
	in := map[string]interface{}{"pair": name, "relations": rel, "subseed": idx, "diffCompression": comp.String(),
		"partitions": o.Partitions, "concurrency": o.Concurrency, "cores": runtime.NumCPU(), "forceMapAll": o.ForceMapAll, "sizeLimit": o.SizeLimit, "compression": o.Comp.String()}
	obs := map[string]interface{}{}
	oracle, finding := "", ""
	fail := func(f string, a ...interface{}) {
		if oracle == "" {
			oracle = fmt.Sprintf(f, a...)
		}
	}

	// ---- analysis pass
	// (the selection iterates a Go map: on a tie between old files none of which has the new
	// file's path two analyses of the same patch may differ, so the mappings judged below are
	// those of the very run that writes the optimized patch)
	var ms []rdMapping
	var rc rediff.Context
	cls, msg := lib.Guard(func() error {
		var err error
		rc, ms, err = rdAnalyze(dr.Patch, o)
		return err
	})
	obs["analyze"] = cls
	if cls != "ok" {
		fail("analysis pass: %s: %s", cls, msg)
	}
	mapped := map[int64]rdMapping{}
	risky, shapeDiv, shapeEmpty := false, false, false
	var mdesc []string
	digest := func() {
		mapped = map[int64]rdMapping{}
		risky, shapeDiv, shapeEmpty, mdesc = false, false, false, nil
		for _, m := range ms {
			mapped[m.Source] = m
			ol, nl := orig.Target.Files[m.Target].Size, orig.Source.Files[m.Source].Size
			if ol < 64 || nl < 64 {
				risky = true
			}
			if rdDivByZeroShape(ol, nl, o.Partitions) {
				shapeDiv = true
			}
			if rdEmptyOldShape(ol, nl) {
				shapeEmpty = true
			}
			mdesc = append(mdesc, fmt.Sprintf("%s(%d)<-%s(%d):%d", orig.Source.Files[m.Source].Path, nl, orig.Target.Files[m.Target].Path, ol, m.NumBytes))
		}
		// one differ context serves all the files of a run: what it keeps from one file (buffers,
		// suffix array) meets the next, and its scan workers are goroutines
		if len(ms) >= 2 {
			risky = true
		}
	}
	digest()

	// ---- optimization pass
	var opt []byte
	if cls == "ok" {
		if risky {
			var cms []rdMapping
			cls, msg, opt, cms = c.c07OptimizeChild(base, dr.Patch, oldDir, newDir, o, deadline)
			obs["child"] = true
			if cms != nil || cls == "ok" {
				ms = cms
				digest()
			}
		} else {
			cls, msg = lib.WithDeadline(deadline, func() error {
				var err error
				opt, err = rdOptimizeWith(rc, oldDir, newDir)
				return err
			})
		}
		obs["mappings"] = mdesc
		if cls == "harness" {
			return fmt.Errorf("c07: child process plumbing: %s", msg)
		}
		obs["optimize"] = cls
		if cls != "ok" {
			if len(msg) > 300 {
				msg = msg[:300]
			}
			fail("optimizer: %s: %s", cls, msg)
			// the two known bsdiff defects, by the shape of the input alone
			switch {
			case cls == "panic" && shapeEmpty:
				finding = c07FindingEmpty
			case cls == "panic" && shapeDiv:
				finding = c07FindingDiv
			}
		}
	}

	// ---- structure of the optimized patch, and the four applications
	var series []string
	if cls == "ok" {
		op, err := rdDecode(opt)
		if err != nil {
			fail("the optimized patch does not decode: %v", err)
		} else {
			if len(op.Files) != len(orig.Files) {
				fail("optimized patch has %d series, the original %d", len(op.Files), len(orig.Files))
			}
			for i := range op.Files {
				if i >= len(orig.Files) {
					break
				}
				m, isMapped := mapped[int64(i)]
				s := op.Files[i]
				switch {
				case isMapped && (!s.Bsdiff || s.Target != m.Target):
					fail("file %d is mapped to old file %d but its series is bsdiff=%v target=%d", i, m.Target, s.Bsdiff, s.Target)
				case !isMapped && s.Bsdiff:
					fail("file %d is not mapped but carries a bsdiff series", i)
				case !isMapped:
					a, b := orig.Files[i].Ops, s.Ops
					same := len(a) == len(b)
					for j := 0; same && j < len(a); j++ {
						same = a[j] == b[j]
					}
					if !same {
						fail("file %d is not mapped but its ops were not copied verbatim", i)
					}
				}
				if s.Bsdiff {
					series = append(series, fmt.Sprintf("(Some %s)", lib.CoqZ(s.Target)))
				} else {
					series = append(series, "None")
				}
			}
			if !bytes.Equal(mustJSON(op.Target), mustJSON(orig.Target)) || !bytes.Equal(mustJSON(op.Source), mustJSON(orig.Source)) {
				fail("the optimized patch carries different containers")
			}
		}
		type app struct {
			name    string
			patch   []byte
			inplace bool
		}
		apps := []app{{"original/fresh", dr.Patch, false}, {"optimized/fresh", opt, false}}
		if ap.inplaceOpt {
			apps = append(apps, app{"optimized/in-place", opt, true})
		}
		if ap.inplaceOrig {
			apps = append(apps, app{"original/in-place", dr.Patch, true})
		}
		for _, a := range apps {
			outDir := filepath.Join(base, "out")
			removeAll(outDir)
			var acls, amsg string
			if a.inplace {
				if err := old.WriteTo(outDir); err != nil {
					return err
				}
				acls, amsg = lib.WithDeadline(deadline, func() error {
					return lib.ApplyInPlace(a.patch, outDir, filepath.Join(base, "stage"), nil)
				})
				removeAll(filepath.Join(base, "stage"))
			} else {
				acls, amsg = lib.WithDeadline(deadline, func() error {
					_, err := lib.ApplyFresh(a.patch, oldDir, outDir, nil, nil)
					return err
				})
			}
			obs[a.name] = acls
			if acls != "ok" {
				fail("applying the %s patch: %s: %s", a.name, acls, amsg)
				continue
			}
			got, err := lib.ReadBuild(outDir)
			if err != nil {
				return err
			}
			if d := lib.DiffBuilds(got, nw); d != "" {
				fail("%s apply differs from the new build: %s", a.name, d)
			}
		}
		// ---- application with a save consumer, and with interruptions
		for _, it := range ap.interrupted {
			if oracle != "" {
				break
			}
			aname, patch := "optimized", opt
			if it.original {
				aname, patch = "original", dr.Patch
			}
			if it.inplace {
				aname += "/in-place"
			} else {
				aname += "/fresh"
			}
			check := func(what string) error {
				got, err := lib.ReadBuild(filepath.Join(base, "out"))
				if err != nil {
					return err
				}
				if d := lib.DiffBuilds(got, nw); d != "" {
					fail("%s apply differs from the new build: %s", what, d)
				}
				return nil
			}
			var lives [][]c07Offer
			acls, amsg := lib.WithDeadline(deadline, func() error {
				var err error
				lives, err = c07ApplyLegs(patch, old, oldDir, base, it.inplace, nil)
				return err
			})
			obs[aname+"/saving"] = acls
			if acls != "ok" {
				fail("applying the %s patch with a save consumer that never stops: %s: %s", aname, acls, amsg)
				continue
			}
			if err := check(aname + " (with a save consumer that never stops)"); err != nil {
				return err
			}
			plan, pdesc := c07Plan(ap.rng, lives[0], it.kind)
			obs[aname+"/offers"] = len(lives[0])
			if plan == nil || oracle != "" {
				continue
			}
			in["interruptions:"+aname] = pdesc
			acls, amsg = lib.WithDeadline(deadline, func() error {
				var err error
				lives, err = c07ApplyLegs(patch, old, oldDir, base, it.inplace, plan)
				return err
			})
			obs[aname+"/interrupted"] = fmt.Sprintf("%s/%d lives", acls, len(lives))
			if acls != "ok" {
				fail("applying the %s patch with interruptions (%s; every life a new patcher and bowl resuming from the serialized checkpoint): %s: %s", aname, pdesc, acls, amsg)
				continue
			}
			if err := check(fmt.Sprintf("%s (interrupted: %s)", aname, pdesc)); err != nil {
				return err
			}
		}
	}
	if oracle != "" {
		in["old"], in["new"] = old.Summary(), nw.Summary()
		in["series"] = orig.Describe()
	}

	// ---- the case for the model
	pathIdx := map[string]int{}
	var tsizes []string
	for i, f := range orig.Target.Files {
		pathIdx[f.Path] = i
		tsizes = append(tsizes, lib.CoqZ(f.Size))
	}
	var srcs, om []string
	classes := map[string]bool{}
	for i, f := range orig.Source.Files {
		sp := "None"
		if j, ok := pathIdx[f.Path]; ok {
			sp = fmt.Sprintf("(Some %s)", lib.CoqZ(int64(j)))
		}
		srcs = append(srcs, fmt.Sprintf("(%s, %s, %s)", lib.CoqZ(f.Size), sp, c07CoqOps(orig.Files[i].Ops)))
		if m, ok := mapped[int64(i)]; ok {
			om = append(om, fmt.Sprintf("(Some (%s, %s))", lib.CoqZ(m.Target), lib.CoqZ(m.NumBytes)))
			if orig.Target.Files[m.Target].Path != f.Path {
				classes["other-name"] = true
			} else {
				classes["same-name"] = true
			}
			if f.Size <= 16 {
				classes["new<=16"] = true
			}
			if orig.Target.Files[m.Target].Size <= 16 {
				classes["old<=16"] = true
			}
		} else {
			om = append(om, "None")
		}
	}
	limit := o.SizeLimit
	if limit == 0 {
		limit = 4 * 1024 * 1024 * 1024
	}
	obsSeries := "None"
	if series != nil {
		obsSeries = "(Some " + lib.CoqList(series) + ")"
	}
	coq := ""
	if obs["analyze"] == "ok" {
		coq = fmt.Sprintf("($ID%%N, %s, %s, %s, %s, %s, %s)", lib.CoqList(tsizes), lib.CoqList(srcs), lib.CoqBool(o.ForceMapAll), lib.CoqZ(limit), lib.CoqList(om), obsSeries)
	}
	var cl []string
	for _, k := range []string{"same-name", "other-name", "new<=16", "old<=16"} {
		if classes[k] {
			cl = append(cl, k)
		}
	}
	class := fmt.Sprintf("p%d/%s", o.Partitions, strings.Join(cl, "+"))
	if len(ms) == 0 {
		class = fmt.Sprintf("p%d/no-mapping", o.Partitions)
	}
	if o.ForceMapAll {
		class += "/force"
	}
	if o.SizeLimit != 0 {
		class += "/limit"
	}
	if len(ms) >= 2 {
		class += "/multi"
	}
	class += "/" + c07ConcurrencyClass(o.Concurrency)
	for _, m := range ms {
		if orig.Target.Files[m.Target].Size > c07CacheChunk*c07CacheEntries {
			class += "/old>read-cache"
			break
		}
	}
	if len(ap.interrupted) > 0 {
		class += "/interrupted"
	}
	group := ""
	if coq != "" {
		group = "rediff"
	}
	c.Out.Emit(&lib.Case{Group: group, Class: class, Nontrivial: len(ms) > 0, Input: in, Obs: obs, Oracle: oracle, Finding: finding, Coq: coq})
	if cls == "hang" {
		return fmt.Errorf("c07: optimizer or patcher hung; stopping")
	}
	return nil
}

// cr07Extra: by how many chunks the big old file exceeds the read cache (just above it, mostly)
func cr07Extra(r *lib.Rng) int { return []int{1, 2, 8, 33}[r.Intn(4)] }

func mustJSON(v interface{}) []byte {
	b, err := json.Marshal(v)
	if err != nil {
		panic(err)
	}
	return b
}

// c07DefaultApps: every patcher of a bsdiff series allocates (and clears) a 32 MiB read cache,
// which is most of the run time, so the quick tier applies in place in every second (optimized)
// / fourth (original) case only and with interruptions in every third.
func (c *Ctx) c07DefaultApps(cr *lib.Rng, i int) c07Apps {
	ap := c07Apps{inplaceOpt: c.Thorough() || i%2 == 0, inplaceOrig: c.Thorough() || i%4 == 0, rng: cr.Fork()}
	switch {
	case c.Thorough():
		ap.interrupted = []c07Interrupt{{inplace: i%2 == 0, kind: i % 3}}
		if i%8 == 0 {
			ap.interrupted = append(ap.interrupted, c07Interrupt{inplace: i%16 == 0, kind: 1 + (i/8)%2, original: true})
		}
	case i%3 == 1:
		ap.interrupted = []c07Interrupt{{inplace: i%2 == 0, kind: (i / 3) % 3}}
	}
	return ap
}

func runC07(c *Ctx) error {
	r := c.Rng.Fork()
	idx := 0
	for _, cc := range c07Corpus() {
		old, nw := &lib.Build{}, &lib.Build{}
		for p, d := range cc.old {
			old.Put(lib.Entry{Path: p, Kind: "file", Data: d})
		}
		for p, d := range cc.nw {
			nw.Put(lib.Entry{Path: p, Kind: "file", Data: d})
		}
		o := lib.OptParams{Partitions: cc.partitions, Concurrency: cc.concurrency, ForceMapAll: cc.force, Comp: lib.Compressions[0]}
		if err := c.c07Run(1000+idx, cc.name, old, nw, []string{cc.name}, o, lib.Compressions[0], c07Apps{inplaceOpt: true, inplaceOrig: true}); err != nil {
			return err
		}
		idx++
	}
	// ties: two or three old files contribute the same reused-bytes figure to a new file that
	// carries the path of one of them (which must win whatever the map order) or of none
	nt := c.N(10, 80)
	if c.Tier == "search" { // the search after a correspondence break: a second, larger quick run
		nt = 24
	}
	for i := 0; i < nt; i++ {
		cr := r.Fork()
		old, nw := &lib.Build{}, &lib.Build{}
		k := cr.Range(2, 3)
		var names []string
		var datas [][]byte
		for j := 0; j < k; j++ {
			names = append(names, fmt.Sprintf("%c/f%d.bin", 'a'+byte(cr.Intn(3)), j))
			datas = append(datas, cr.Bytes(2*lib.BS+cr.Range(1, 5000)))
			old.Put(lib.Entry{Path: names[j], Kind: "file", Data: datas[j]})
		}
		var d []byte
		order := cr.Intn(k)
		for j := 0; j < k; j++ {
			src := datas[(j+order)%k]
			d = append(append(d, src[:lib.BS]...), cr.Bytes(cr.Range(1, 200))...)
		}
		// (the differ does not match a full block that is followed by less than a block of other
		// data at the end of the file, so the reused blocks are kept away from the end)
		d = append(d, cr.Bytes(lib.BS+cr.Range(1, 200))...)
		target := names[cr.Intn(k)]
		rel := []string{"tie-same-path:" + target}
		if cr.Chance(1, 4) {
			target = "elsewhere.bin"
			rel = []string{"tie-no-same-path"}
		}
		nw.Put(lib.Entry{Path: target, Kind: "file", Data: d})
		for j := 0; j < k; j++ { // the other old files stay as they are
			if names[j] != target {
				nw.Put(lib.Entry{Path: names[j], Kind: "file", Data: datas[j]})
			}
		}
		o := lib.OptParams{Partitions: cr.Range(0, 4), Comp: lib.Compressions[i%2]}
		o.Concurrency = c07Concurrency(cr, o.Partitions)
		o.ForceMapAll = cr.Chance(1, 4)
		if err := c.c07Run(2000+i, "tie", old, nw, rel, o, lib.Compressions[0], c.c07DefaultApps(cr, i)); err != nil {
			return err
		}
	}
	n := c.N(30, 900)
	if c.Tier == "search" {
		n = 70
	}
	for i := 0; i < n; i++ {
		cr := r.Fork()
		opts := lib.PairOpts{MaxFiles: 4, MaxSize: 3*lib.BS + 100, Links: i%5 == 0}
		old, nw, rel := lib.GenPair(cr, opts)
		rel = c07Enrich(cr, old, nw, rel)
		o := lib.OptParams{Partitions: cr.Range(0, 16), Comp: lib.Compressions[(i+int(c.Seed))%len(lib.Compressions)]}
		o.Concurrency = c07Concurrency(cr, o.Partitions)
		o.ForceMapAll = cr.Chance(1, 3)
		if cr.Chance(1, 4) { // a size limit that excludes some of the files
			var sizes []int
			for _, f := range append(old.Files(), nw.Files()...) {
				sizes = append(sizes, len(f.Data))
			}
			o.SizeLimit = int64(sizes[cr.Intn(len(sizes))]) + int64(cr.Range(-1, 1))
			if o.SizeLimit <= 0 {
				o.SizeLimit = 1
			}
		}
		comp := []lib.Compression{lib.Compressions[0], lib.Compressions[1], lib.Compressions[4]}[i%3]
		if err := c.c07Run(i, "genpair+tiny", old, nw, rel, o, comp, c.c07DefaultApps(cr, i)); err != nil {
			return err
		}
	}
	// several bsdiff series in one patch, applied uninterrupted and with interruptions: what one
	// series leaves behind in the patcher (read cache, checkpoint, writer) meets the next one
	nm := c.N(8, 40)
	if c.Tier == "search" {
		nm = 16
	}
	for i := 0; i < nm; i++ {
		cr := r.Fork()
		old, nw, rel := c07MultiPair(cr)
		o := lib.OptParams{Partitions: cr.Range(0, 6), Comp: lib.Compressions[0]}
		o.Concurrency = c07Concurrency(cr, o.Partitions)
		o.ForceMapAll = cr.Chance(1, 5)
		if i%2 == 1 { // checkpoints of a compressed patch exist at the codec's block boundaries only
			o.Comp = lib.Compressions[(i/2+int(c.Seed))%len(lib.Compressions)]
		}
		ap := c07Apps{inplaceOpt: true, inplaceOrig: c.Thorough(), rng: cr.Fork(),
			interrupted: []c07Interrupt{{inplace: false, kind: 0}, {inplace: true, kind: []int{0, 2}[i%2]}}}
		if c.Thorough() {
			ap.interrupted = append(ap.interrupted, c07Interrupt{inplace: i%2 == 0, kind: 1 + i%2}, c07Interrupt{inplace: i%2 == 1, kind: 1, original: true})
		}
		comp := []lib.Compression{lib.Compressions[0], lib.Compressions[1], lib.Compressions[4]}[i%3]
		if err := c.c07Run(3000+i, "multi-bsdiff", old, nw, rel, o, comp, ap); err != nil {
			return err
		}
	}
	// an old file larger than the patcher's read cache (1024 chunks of 32 KiB): about 25 s and
	// 500 MB per case (suffix sort of > 32 MiB), so one case in the quick tier
	type big struct {
		extra      int
		moved      bool
		partitions int
	}
	bigs := []big{{cr07Extra(r), false, 6}}
	if c.Thorough() {
		bigs = append(bigs, big{1, true, 4}, big{r.Range(64, 256), r.Bool(), r.Range(1, 8)})
	}
	if c.Tier == "search" {
		bigs = nil
	}
	for i, bg := range bigs {
		cr := r.Fork()
		old, nw, rel := c07BigPair(cr, bg.extra, bg.moved)
		o := lib.OptParams{Partitions: bg.partitions, Concurrency: c07Concurrency(cr, bg.partitions), Comp: lib.Compressions[0]}
		ap := c07Apps{inplaceOpt: c.Thorough(), rng: cr.Fork(), deadline: 15 * time.Minute}
		if c.Thorough() {
			ap.interrupted = []c07Interrupt{{inplace: i%2 == 1, kind: 0}}
		}
		if err := c.c07Run(4000+i, "old-file-larger-than-read-cache", old, nw, rel, o, lib.Compressions[0], ap); err != nil {
			return err
		}
	}
	return nil
}
