package main

// C01 — diff then apply (fresh) reproduces the new build exactly, for every compression setting.
//
// Groups (see checks/props/C01.json):
//   pair    oracle only: lib.GenPair build pairs with high-entropy contents, sizes up to > 4 MiB
//   fresh   the same pipeline on run-structured build pairs, also evaluated by the model
//           (Patch/Stream.v write_patch, Patch/Patcher.v apply_patch_fresh, Bowl/Fresh.v)
//   apply1  wsync.ApplySingleFull on an in-memory pool at tiny block sizes vs apply_range
//           also split pairs: one old file cut at block boundaries into consecutive new files
//           with whole-file copies / other files in between (state carried from one new file
//           to the next through the shared old-build pool)
//   ""      big runs (oracle only): fresh runs of about wsync.MaxDataOp (4 MiB +/- up to two
//           blocks, twice that) after 0-3 reused blocks, up to the end of the file or followed
//           by reused blocks; split pairs with high-entropy contents
//   apply1  also sequences of ranges through ONE wsync.Context and ONE pool with fspool's
//           single cached reader, which other users of the pool move in between
//   craft   hand-made message lists (full-file ops with trailing ops, short/long outputs,
//           out-of-bounds ranges, unknown kinds, truncated series, bsdiff series) vs apply_fresh

import (
	"bytes"
	"fmt"
	"os"
	"path/filepath"
	"reflect"
	"strings"

	"github.com/itchio/lake"
	"github.com/itchio/lake/tlc"
	"github.com/itchio/wharf/wsync"

	"verif/harness/lib"
)

func init() { register("C01", runC01) }

func runC01(c *Ctx) error {
	if err := c01Corpus(c); err != nil {
		return err
	}
	if err := c01Apply1(c); err != nil {
		return err
	}
	if err := c01ApplySeq(c); err != nil {
		return err
	}
	if err := c01Craft(c); err != nil {
		return err
	}
	if err := c01Fresh(c); err != nil {
		return err
	}
	if err := c01Split(c); err != nil {
		return err
	}
	if err := c01BigRuns(c); err != nil {
		return err
	}
	return c01Pairs(c)
}

// ---------------------------------------------------------------- the pipeline on one pair

type freshOpts struct {
	class  string
	comps  []lib.Compression // diff + apply under each; the decoded message lists must agree
	model  bool              // also emit the Coq term (group fresh)
	rel    []string
	subkey string
	// fixedEnvs: compression i runs under c01FixedEnvs[i]; else under genEnv(case name, i)
	fixedEnvs bool
}

func blk(v byte, n int) []byte { return bytes.Repeat([]byte{v}, n) }

func cat(bs ...[]byte) []byte {
	var out []byte
	for _, b := range bs {
		out = append(out, b...)
	}
	return out
}

// runFreshCase: write both builds, diff under every compression of o.comps, decode the patch,
// check the stream, apply to an empty directory, compare the tree; emits one case.
func runFreshCase(c *Ctx, name string, old, nw *lib.Build, o freshOpts) error {
	base := filepath.Join(c.Tmp, name)
	oldDir, newDir, outDir := filepath.Join(base, "old"), filepath.Join(base, "new"), filepath.Join(base, "out")
	defer removeAll(base)
	if err := old.WriteTo(oldDir); err != nil {
		return err
	}
	if err := nw.WriteTo(newDir); err != nil {
		return err
	}
	oldC, err := lib.Walk(oldDir)
	if err != nil {
		return err
	}
	newC, err := lib.Walk(newDir)
	if err != nil {
		return err
	}
	oracle := ""
	obs := map[string]interface{}{}
	var first *lib.DecodedPatch
	var firstOut *lib.Build
	applyCls := "ok"
	envs := make([]string, len(o.comps))
	for ci := range o.comps {
		envs[ci] = o.env(c, name, ci, oldC.Size+newC.Size).String()
	}
	for ci, comp := range o.comps {
		env := o.env(c, name, ci, oldC.Size+newC.Size)
		var dr *lib.DiffResult
		cls, msg := lib.Guard(func() error {
			var err error
			dr, err = c01Diff(oldDir, newDir, comp, env)
			return err
		})
		obs["diff"] = cls
		if cls != "ok" {
			oracle = fmt.Sprintf("diff (%s; %s) %s: %s", comp, env, cls, msg)
			break
		}
		if ci == 0 {
			obs["patchLen"], obs["fresh"], obs["reused"] = len(dr.Patch), dr.Fresh, dr.Reused
		}
		if dr.Fresh+dr.Reused != newC.Size {
			oracle = fmt.Sprintf("(%s; %s) fresh %d + reused %d bytes != new build size %d", comp, env, dr.Fresh, dr.Reused, newC.Size)
			break
		}
		dp, err := lib.DecodePatch(dr.Patch)
		if err != nil {
			oracle = fmt.Sprintf("patch (%s; %s) does not follow the patch grammar: %v", comp, env, err)
			break
		}
		if bad := checkPlainStream(dp, comp, oldC, newC, old, nw); bad != "" {
			oracle = fmt.Sprintf("patch (%s; %s): %s", comp, env, bad)
			break
		}
		if first == nil {
			first = dp
			obs["msgs"] = lib.MsgSummary(dp.Msgs)
		} else if !reflect.DeepEqual(first.Msgs, dp.Msgs) {
			oracle = fmt.Sprintf("the message list under %s (%s) differs from the one under %s (%s)", comp, env, o.comps[0], envs[0])
			break
		}
		cls, msg = lib.Guard(func() error {
			_, err := lib.ApplyFresh(dr.Patch, oldDir, outDir, nil, c01WrapTarget(env))
			return err
		})
		obs["apply"] = cls
		applyCls = cls
		if cls != "ok" {
			oracle = fmt.Sprintf("apply (%s; %s) %s: %s", comp, env, cls, msg)
			break
		}
		got, err := lib.ReadBuild(outDir)
		if err != nil {
			return err
		}
		if firstOut == nil {
			firstOut = got
		}
		if d := lib.DiffBuilds(got, nw); d != "" {
			oracle = fmt.Sprintf("output tree (%s; %s) differs from the new build: %s", comp, env, d)
			break
		}
		o2, err := lib.ReadBuild(oldDir)
		if err != nil {
			return err
		}
		if d := lib.DiffBuilds(o2, old); d != "" {
			oracle = "fresh apply modified the old build: " + d
			break
		}
	}
	cs := &lib.Case{Class: o.class, Nontrivial: len(o.rel) >= 2 || (len(o.rel) == 1 && o.rel[0] != "identical"),
		Input: map[string]interface{}{"old": old.Summary(), "new": nw.Summary(), "relations": o.rel, "compressions": compNames(o.comps), "envs": envs, "sub": o.subkey},
		Obs:   obs, Oracle: oracle}
	if o.model && first != nil && firstOut != nil {
		d := lib.NewPathDict()
		rops := make([]string, len(first.Series))
		for i := range first.Series {
			ops := seriesOps(first, i)
			s := make([]string, len(ops))
			for k, op := range ops {
				if op.Type == 0 {
					s[k] = fmt.Sprintf("ROpRange %s %s %s", lib.CoqZ(op.FileIndex), lib.CoqZ(op.BlockIndex), lib.CoqZ(op.BlockSpan))
				} else {
					s[k] = "ROpData " + lib.CoqRle(op.Data)
				}
			}
			rops[i] = lib.CoqList(s)
		}
		frames := []string{fmt.Sprintf("RFHeader %s %s", lib.CoqZ(int64(first.Algo)), lib.CoqZ(int64(first.Quality))),
			"RFContainer " + lib.CoqContainer(first.Target, d), "RFContainer " + lib.CoqContainer(first.Source, d)}
		for _, m := range first.Msgs {
			frames = append(frames, "RFMsg ("+lib.CoqMsg(m)+")")
		}
		cs.Group = "fresh"
		cs.Coq = fmt.Sprintf("($ID%%N, %s, %s, %s, %s, %s, %s, %s, %s)", lib.CoqZ(int64(first.Algo)), lib.CoqZ(int64(first.Quality)),
			coqBuildInContainerOrder(oldC, old, d), coqBuildInContainerOrder(newC, nw, d), lib.CoqList(rops), lib.CoqList(frames),
			lib.CoqZ(classCode(applyCls)), lib.CoqTree(firstOut, d))
	}
	c.Out.Emit(cs)
	return nil
}

// env: the configuration compression ci of this case runs under.
func (o freshOpts) env(c *Ctx, name string, ci int, bytesTotal int64) c01Env {
	if o.fixedEnvs {
		e := c01FixedEnvs[ci%len(c01FixedEnvs)]
		e.seed = uint64(ci) + 1
		return e
	}
	return genEnv(c, name, ci, bytesTotal)
}

func compNames(cs []lib.Compression) []string {
	out := make([]string, len(cs))
	for i, c := range cs {
		out[i] = c.String()
	}
	return out
}

// ---------------------------------------------------------------- fixed cases, run first

func c01Corpus(c *Ctx) error {
	BS := lib.BS
	type pair struct {
		name     string
		old, new *lib.Build
		rel      []string
	}
	var ps []pair
	mk := func(es ...lib.Entry) *lib.Build {
		b := &lib.Build{}
		for _, e := range es {
			b.Put(e)
		}
		return b
	}
	file := func(p string, d []byte) lib.Entry { return lib.Entry{Path: p, Kind: "file", Data: d} }
	a := cat(blk(1, BS), blk(2, BS), blk(3, BS), blk(4, 100))
	// block-aligned prefix / suffix of a larger old file; two old files sharing blocks; the same
	// size as an old file but other content; exact multiple next to a short tail
	ps = append(ps, pair{"prefix-suffix-share", mk(file("a.bin", a), file("d/b.bin", cat(blk(2, BS), blk(9, 10))), file("z.bin", blk(5, 2*BS))),
		mk(file("pre.bin", a[:2*BS]), file("suf.bin", a[BS:]), file("d/b.bin", cat(blk(2, BS), blk(9, 10))), file("a.bin", cat(blk(1, BS), blk(2, BS), blk(7, BS), blk(4, 100))),
			file("z.bin", blk(5, 2*BS)), file("z2.bin", blk(5, 2*BS+1)), file("e.bin", nil), lib.Entry{Path: "emptydir/x", Kind: "dir"}, lib.Entry{Path: "ln", Kind: "link", Dest: "a.bin"}),
		[]string{"prefix", "suffix", "same", "edit", "grow", "empty", "dir-added", "link-added"}})
	// whole-file copies under another name whose first block also starts other old files;
	// an old file that is a prefix of the new one with equal block count
	ps = append(ps, pair{"rename-swap", mk(file("x.bin", cat(blk(1, BS), blk(2, 5))), file("y.bin", cat(blk(1, BS), blk(3, 5))), file("w.bin", blk(1, BS)), file("gone/q.bin", blk(8, 3))),
		mk(file("x.bin", cat(blk(1, BS), blk(3, 5))), file("y.bin", cat(blk(1, BS), blk(2, 5))), file("w2.bin", blk(1, BS)), file("w3.bin", cat(blk(1, BS), blk(2, 6)))),
		[]string{"swap", "rename", "remove", "grow"}})
	// everything empty / only directories and links
	ps = append(ps, pair{"empties", mk(file("e.bin", nil), lib.Entry{Path: "d1/d2", Kind: "dir"}, lib.Entry{Path: "l", Kind: "link", Dest: "d1"}),
		mk(file("e.bin", nil), file("e2.bin", nil), lib.Entry{Path: "d1", Kind: "dir"}, lib.Entry{Path: "l", Kind: "link", Dest: "d1/d2"}),
		[]string{"empty", "dir-removed", "link-retarget"}})
	// an old file cut at block boundaries into consecutive new files (each piece followed by a few
	// fresh bytes, the last one being the short tail), with - in container order - a verbatim copy
	// of the whole file, then of another old file, between the pieces
	w := cat(blk(1, BS), blk(2, BS), blk(3, 200))
	o := cat(blk(6, BS), blk(7, 5))
	ps = append(ps, pair{"split-around-copy", mk(file("pack/whole.bin", w), file("pack/other.bin", o), file("readme", []byte("hello"))),
		mk(file("pack/a-part1.bin", cat(w[:BS], []byte("end of part one"))), file("pack/b-whole.bin", w), file("pack/c-part2.bin", cat(w[BS:2*BS], []byte("end of part two"))),
			file("pack/d-other.bin", o), file("pack/e-tail.bin", w[2*BS:]), file("readme", []byte("hello"))),
		[]string{"split", "copy", "split-resumed", "rename", "same"}})
	for _, p := range ps {
		if err := runFreshCase(c, "c01-corpus-"+p.name, p.old, p.new, freshOpts{class: "corpus/" + p.name, comps: lib.Compressions, model: true, rel: p.rel, subkey: p.name, fixedEnvs: true}); err != nil {
			return err
		}
	}
	return nil
}

// ---------------------------------------------------------------- generated, model-compared

func c01Fresh(c *Ctx) error {
	r := c.Rng.Fork()
	n := nFor(c, 20, 600, 40)
	maxSize := 3*lib.BS + 17
	if !c.Thorough() {
		maxSize = 2*lib.BS + 17 // the model side of a quick run stays within seconds
	}
	for i := 0; i < n; i++ {
		cr := r.Fork()
		old, nw, classes := lib.GenRunPair(cr, lib.RunPairOpts{MaxOld: 4, Links: true, MaxSize: maxSize})
		rel := []string{}
		for _, cl := range classes {
			rel = append(rel, cl.Class+":"+cl.Path)
		}
		comps := []lib.Compression{lib.Compressions[(i+int(c.Seed))%len(lib.Compressions)]}
		if i%10 == 9 {
			comps = lib.Compressions
		}
		cls := "run-pair/" + comps[0].String()
		if len(comps) > 1 {
			cls = "run-pair/all-compressions"
		}
		if err := runFreshCase(c, fmt.Sprintf("c01-fresh-%d", i), old, nw, freshOpts{class: cls, comps: comps, model: true, rel: rel, subkey: fmt.Sprint(i)}); err != nil {
			return err
		}
	}
	return nil
}

// ---------------------------------------------------------------- generated, oracle only (large, high entropy)

func c01Pairs(c *Ctx) error {
	r := c.Rng.Fork()
	n := nFor(c, 24, 400, 30)
	for i := 0; i < n; i++ {
		cr := r.Fork()
		opts := lib.PairOpts{MaxFiles: 5, MaxSize: 4 * lib.BS, Links: true}
		if i%8 == 7 { // one large pair per 8: > 4 MiB data run
			opts.MaxFiles = 2
			opts.MaxSize = 5<<20 + 777
		}
		old, nw, rel := lib.GenPair(cr, opts)
		comps := []lib.Compression{lib.Compressions[(i+int(c.Seed))%len(lib.Compressions)]}
		if c.Thorough() && i%6 == 0 {
			comps = lib.Compressions
		}
		relKinds := map[string]bool{}
		for _, x := range rel {
			relKinds[strings.SplitN(x, ":", 2)[0]] = true
		}
		if err := runFreshCase(c, fmt.Sprintf("c01-pair-%d", i), old, nw, freshOpts{class: "pair/" + comps[0].String(), comps: comps, rel: rel, subkey: fmt.Sprint(i)}); err != nil {
			return err
		}
	}
	return nil
}

// ---------------------------------------------------------------- apply1: ApplySingleFull arithmetic

func c01Apply1(c *Ctx) error {
	r := c.Rng.Fork()
	n := nFor(c, 500, 12000, 3000)
	bss := []int{1, 2, 3, 4, 5, 8, 16}
	for i := 0; i < n; i++ {
		cr := r.Fork()
		bs := bss[cr.Intn(len(bss))]
		if i%97 == 96 {
			bs = lib.BS
		}
		nf := cr.Range(1, 3)
		files := make([][]byte, nf)
		for k := range files {
			nb := cr.Range(0, 4)
			size := nb * bs
			switch cr.Intn(4) {
			case 0:
				size += cr.Intn(bs)
			case 1:
				if size > 0 {
					size--
				}
			case 2:
				size++
			}
			if bs == lib.BS {
				files[k] = lib.RunContent(cr, size)
			} else {
				d := make([]byte, size)
				for j := range d {
					d[j] = byte(1 + (j/bs)*16 + j%bs%16) // position-dependent, so that a shifted copy shows
				}
				files[k] = d
			}
		}
		f := int64(cr.Intn(nf))
		size := int64(len(files[f]))
		nb := (size + int64(bs) - 1) / int64(bs)
		var bi, sp int64
		class := "in-bounds"
		switch cr.Intn(10) {
		case 0: // arbitrary, often out of bounds
			f = int64(cr.Range(-1, nf))
			bi, sp = int64(cr.Range(-2, int(nb)+2)), int64(cr.Range(-1, int(nb)+3))
			class = "arbitrary"
		case 1: // reaches past the last block
			bi = int64(cr.Range(0, int(nb)))
			sp = nb - bi + int64(cr.Range(1, 2))
			class = "past-end"
		default:
			if nb == 0 {
				bi, sp = 0, int64(cr.Range(0, 1))
				class = "empty-file"
			} else {
				bi = int64(cr.Intn(int(nb)))
				sp = int64(cr.Range(1, int(nb-bi)))
				if cr.Chance(1, 3) {
					sp = nb - bi // up to and including the (possibly short) last block
				}
			}
		}
		pool := lib.NewMemPool(files)
		var out bytes.Buffer
		cls, msg := lib.Guard(func() error {
			return wsync.NewContext(bs).ApplySingleFull(&out, pool, wsync.Operation{Type: wsync.OpBlockRange, FileIndex: f, BlockIndex: bi, BlockSpan: sp}, true)
		})
		oracle := ""
		inBounds := f >= 0 && int(f) < nf && bi >= 0 && sp >= 1 && bi+sp <= (int64(len(files[max64(f, 0)%int64(nf)]))+int64(bs)-1)/int64(bs)
		if inBounds {
			d := files[f]
			from, to := bi*int64(bs), (bi+sp)*int64(bs)
			if to > int64(len(d)) {
				to = int64(len(d))
			}
			if cls != "ok" {
				oracle = "in-bounds range: " + cls + ": " + msg
			} else if !bytes.Equal(out.Bytes(), d[from:to]) {
				oracle = fmt.Sprintf("in-bounds range wrote %d bytes, the blocks hold %d (or other bytes)", out.Len(), to-from)
			}
		}
		sizes := make([]int, nf)
		rl := make([]string, nf)
		for k := range files {
			sizes[k] = len(files[k])
			rl[k] = lib.CoqRle(files[k])
		}
		outB := out.Bytes()
		if cls != "ok" {
			outB = nil
		}
		c.Out.Emit(&lib.Case{Group: "apply1", Class: fmt.Sprintf("apply1/%s/bs%d", class, bs), Nontrivial: inBounds && sp >= 1,
			Input: map[string]interface{}{"bs": bs, "sizes": sizes, "file": f, "blockIndex": bi, "blockSpan": sp},
			Obs:   map[string]interface{}{"class": cls, "written": out.Len()}, Oracle: oracle,
			Coq: fmt.Sprintf("($ID%%N, %s, %s, (%s, %s, %s), (%s, %s))", lib.CoqZ(int64(bs)), lib.CoqList(rl), lib.CoqZ(f), lib.CoqZ(bi), lib.CoqZ(sp),
				lib.CoqZ(classCode(cls)), lib.CoqRle(outB))})
	}
	return nil
}

func max64(a, b int64) int64 {
	if a > b {
		return a
	}
	return b
}

// ---------------------------------------------------------------- craft: hand-made message lists

type craft struct {
	old   *lib.Build
	files []craftFile // new container's files
	dirs  []string
	links [][2]string
	msgs  []lib.PMsg
	want  map[string][]byte // expected content per new file when the stream is well-formed (nil = no claim)
	class string
}
type craftFile struct {
	path string
	size int64
}

func (cf *craft) container() *tlc.Container {
	c := &tlc.Container{}
	off := int64(0)
	for _, d := range cf.dirs {
		c.Dirs = append(c.Dirs, &tlc.Dir{Path: d, Mode: 0o755})
	}
	for _, f := range cf.files {
		c.Files = append(c.Files, &tlc.File{Path: f.path, Mode: 0o644, Size: f.size, Offset: off})
		off += f.size
	}
	for _, l := range cf.links {
		c.Symlinks = append(c.Symlinks, &tlc.Symlink{Path: l[0], Mode: 0o777, Dest: l[1]})
	}
	c.Size = off
	return c
}

// genCraft makes one crafted patch: per new file a series chosen among well-formed and
// ill-formed shapes. olds are the old files in container (sorted path) order.
func genCraft(r *lib.Rng) *craft { return genCraftWith(r, nil, -1) }

// genCraftWith: forced (optional) fixes the shape of every new file's series (see the switch
// below) and the old build (2 blocks + 9 bytes, 1 block); damage (optional, 0..3) applies one
// stream-level damage.
func genCraftWith(r *lib.Rng, forced []int, damage int) *craft {
	BS := lib.BS
	cf := &craft{old: &lib.Build{}, want: map[string][]byte{}}
	nOld := r.Range(1, 3)
	if forced != nil {
		nOld = 2
	}
	var olds [][]byte
	for i := 0; i < nOld; i++ {
		size := []int{0, 5, BS - 1, BS, BS + 1, 2 * BS, 2*BS + 9}[r.Intn(7)]
		if forced != nil {
			size = []int{2*BS + 9, BS}[i]
		}
		d := lib.RunContent(r, size)
		cf.old.Put(lib.Entry{Path: fmt.Sprintf("o%d.bin", i), Kind: "file", Data: d})
		olds = append(olds, d)
	}
	nNew := r.Range(1, 3)
	if forced != nil {
		nNew = len(forced)
	}
	bad := r.Chance(1, 3) // at most one ill-formed series per patch, in a random position
	badAt := r.Intn(nNew)
	classes := []string{}
	cf.dirs = []string{"d"}
	if forced == nil && r.Chance(1, 4) {
		cf.links = append(cf.links, [2]string{"lnk", "o0.bin"})
	}
	for i := 0; i < nNew; i++ {
		p := fmt.Sprintf("n%d.bin", i)
		if i == 1 {
			p = "d/n1.bin"
		}
		if i == 2 && forced == nil && r.Chance(1, 6) {
			p = "nodir/n2.bin" // parent not among the container's dirs: Prepare fails
			classes = append(classes, "parent-missing")
		}
		t := int64(r.Intn(nOld))
		if forced != nil {
			t = 0
		}
		od := olds[t]
		nb := (int64(len(od)) + int64(BS) - 1) / int64(BS)
		var ms []lib.PMsg
		var content []byte
		size := int64(-1)
		known := true
		shape := r.Intn(7)
		if bad && i == badAt {
			shape = 7 + r.Intn(12)
		}
		if forced != nil {
			shape = forced[i]
		}
		switch shape {
		case 0: // full-file op, sometimes followed by ops the patcher must ignore
			if nb == 0 {
				ms, content = []lib.PMsg{lib.DataOp(nil)}, []byte{}
				classes = append(classes, "empty-data")
				break
			}
			ms, content = []lib.PMsg{lib.Range(t, 0, nb)}, od
			switch r.Intn(3) {
			case 1:
				ms = append(ms, lib.DataOp(nil))
				classes = append(classes, "full+empty-data")
			case 2:
				ms = append(ms, lib.DataOp(blk(9, 3)), lib.Range(t, 0, 1))
				classes = append(classes, "full+junk")
			default:
				classes = append(classes, "full")
			}
		case 1, 2: // ranges and data
			k := r.Range(1, 4)
			for j := 0; j < k; j++ {
				if nb > 0 && r.Bool() {
					bi := int64(r.Intn(int(nb)))
					sp := int64(r.Range(1, int(nb-bi)))
					ms = append(ms, lib.Range(t, bi, sp))
					to := (bi + sp) * int64(BS)
					if to > int64(len(od)) {
						to = int64(len(od))
					}
					content = append(content, od[bi*int64(BS):to]...)
				} else {
					d := blk(byte(10+j), []int{0, 1, 70, BS}[r.Intn(4)])
					ms = append(ms, lib.DataOp(d))
					content = append(content, d...)
				}
			}
			// a first op that looks like a full-file op must be one (the generator of valid
			// series never emits a non-full range from block 0 of an equally sized file ...)
			classes = append(classes, "ranges+data")
		case 3: // first range starts at block 0 and spans all blocks, but the sizes differ => not a full-file op
			if nb == 0 {
				ms, content = []lib.PMsg{lib.DataOp(blk(3, 2))}, blk(3, 2)
				break
			}
			ms = []lib.PMsg{lib.Range(t, 0, nb), lib.DataOp(blk(4, 1))}
			content = cat(od, blk(4, 1))
			classes = append(classes, "covering-range+data")
		case 4: // declared size larger than what the ops write: the tail keeps Prepare's zeros
			d := blk(5, r.Range(1, 50))
			ms, content = []lib.PMsg{lib.DataOp(d)}, cat(d, make([]byte, 7))
			size = int64(len(content))
			classes = append(classes, "short-write")
		case 5: // declared size smaller than what the ops write
			d := blk(6, r.Range(10, 50))
			ms, content = []lib.PMsg{lib.DataOp(d)}, d
			size = int64(len(d) - 4)
			classes = append(classes, "long-write")
		case 6: // bsdiff series
			ms, content = craftBsdiff(r, t, od)
			classes = append(classes, "bsdiff")
		// ---- ill-formed ----
		case 7: // range past the end of the old file: fewer bytes, no error
			ms = []lib.PMsg{lib.DataOp(blk(1, 1)), lib.Range(t, nb, 2)}
			known = false
			classes = append(classes, "bad/range-past-end")
		case 8: // span reaching over the end
			ms = []lib.PMsg{lib.DataOp(blk(1, 1)), lib.Range(t, 0, nb+2)}
			known = false
			classes = append(classes, "bad/span-over-end")
		case 9:
			ms = []lib.PMsg{lib.DataOp(blk(1, 1)), lib.Range(t, -1, 1)}
			known = false
			classes = append(classes, "bad/negative-block")
		case 10: // old file index out of range in the first op (validateOp, before isFullFileOp): an error
			ms = []lib.PMsg{lib.Range(int64(nOld)+int64(r.Intn(2)), int64(r.Intn(2)), 1)}
			known = false
			classes = append(classes, "bad/file-index")
		case 11:
			ms = []lib.PMsg{lib.DataOp(blk(1, 1)), {Kind: "so", Type: 7}}
			known = false
			classes = append(classes, "bad/op-type")
		case 12: // no op at all before the marker
			ms = nil
			known = false
			classes = append(classes, "bad/no-op")
		case 13: // span 0 / negative
			ms = []lib.PMsg{lib.DataOp(blk(1, 2)), lib.Range(t, 0, int64(r.Range(-1, 0)))}
			known = false
			classes = append(classes, "bad/span")
		case 14: // bsdiff with a control reading past the old file
			ms = []lib.PMsg{lib.BH(t), lib.Ctl(blk(1, len(od)+1), nil, 0), lib.CtlEof()}
			known = false
			classes = append(classes, "bad/bsdiff-add-past-end")
		case 16: // looks like a full-file op but starts at block 1 (never emitted by the differ)
			ms = []lib.PMsg{lib.Range(t, 1, nb)}
			size = int64(len(od))
			known = false
			classes = append(classes, "bad/shifted-full")
		case 17: // old file index out of range in a later op (validateOp in the relay loop): an error
			ms = []lib.PMsg{lib.DataOp(blk(1, 2)), lib.Range(int64(nOld)+int64(r.Intn(2)), 0, 1)}
			if r.Bool() {
				ms[1].FileIndex = -1
			}
			known = false
			classes = append(classes, "bad/file-index-later")
		case 18: // bsdiff header whose target index is outside the old container: an error
			ms = []lib.PMsg{lib.BH(int64(nOld) + int64(r.Intn(2))), lib.Ctl(nil, blk(2, 5), 0), lib.CtlEof()}
			if r.Bool() {
				ms[0].TargetIndex = -1
			}
			known = false
			classes = append(classes, "bad/bsdiff-target-index")
		case 15: // bsdiff whose output length is not the declared size
			ms = []lib.PMsg{lib.BH(t), lib.Ctl(nil, blk(2, 5), 0), lib.CtlEof()}
			size = 9
			known = false
			classes = append(classes, "bad/bsdiff-size")
		}
		if size < 0 {
			size = int64(len(content))
		}
		typ := int64(0)
		if len(ms) > 0 && ms[0].Kind == "bh" {
			typ = 1
		}
		cf.files = append(cf.files, craftFile{p, size})
		cf.msgs = append(cf.msgs, lib.SH(typ, int64(i)))
		cf.msgs = append(cf.msgs, ms...)
		cf.msgs = append(cf.msgs, lib.Hey())
		if known {
			cf.want[p] = content
		}
	}
	// stream-level damage
	if dmg := r.Intn(4); (forced == nil && r.Chance(1, 8)) || damage >= 0 {
		if damage >= 0 {
			dmg = damage
		}
		switch dmg {
		case 0:
			cf.msgs = cf.msgs[:len(cf.msgs)-1] // last end marker missing
			classes = append(classes, "bad/truncated")
		case 1:
			cf.msgs[0] = lib.SH(0, 1) // wrong index
			classes = append(classes, "bad/header-index")
		case 2:
			cf.msgs[0] = lib.SH(2, 0) // unknown series kind
			classes = append(classes, "bad/series-kind")
		case 3:
			cf.msgs = append(cf.msgs, lib.DataOp(blk(1, 3))) // left-over after the last series: never read
			classes = append(classes, "left-over")
		}
		cf.want = nil
	}
	for _, cl := range classes {
		if strings.HasPrefix(cl, "bad/") || cl == "parent-missing" {
			cf.want = nil
		}
	}
	cf.class = strings.Join(classes, ",")
	return cf
}

// craftBsdiff: a bsdiff series against old file t and the bytes it produces.
func craftBsdiff(r *lib.Rng, t int64, od []byte) ([]lib.PMsg, []byte) {
	ms := []lib.PMsg{lib.BH(t)}
	var out []byte
	off := int64(0)
	k := r.Range(0, 3)
	for j := 0; j < k; j++ {
		var add []byte
		if rem := int64(len(od)) - off; rem > 0 && r.Bool() {
			n := int64(r.Range(1, int(min64(rem, 70000))))
			add = blk(byte(r.Intn(3)), int(n))
			for x := int64(0); x < n; x++ {
				out = append(out, add[x]+od[off+x])
			}
		}
		cp := blk(byte(20+j), r.Intn(4))
		out = append(out, cp...)
		seek := int64(0)
		noff := off + int64(len(add))
		if r.Bool() {
			seek = int64(r.Range(int(-noff), int(int64(len(od))-noff)))
		}
		ms = append(ms, lib.Ctl(add, cp, seek))
		off = noff + seek
	}
	ms = append(ms, lib.CtlEof())
	return ms, out
}

func min64(a, b int64) int64 {
	if a < b {
		return a
	}
	return b
}

// craftCorpus: every series shape once on its own, every ill-formed shape also in front of a
// well-formed series, every stream-level damage; the same in every run (fixed sub-seeds).
func craftCorpus() []*craft {
	var out []*craft
	for shape := 0; shape <= 18; shape++ {
		out = append(out, genCraftWith(lib.NewRng(uint64(1000+shape)), []int{shape}, -1))
		if shape >= 7 {
			out = append(out, genCraftWith(lib.NewRng(uint64(2000+shape)), []int{shape, 1}, -1))
		}
	}
	for v := 0; v < 3; v++ { // the three variants of the full-file shape
		out = append(out, genCraftWith(lib.NewRng(uint64(3000+v)), []int{0, 0, 0}, -1))
	}
	for dmg := 0; dmg < 4; dmg++ {
		out = append(out, genCraftWith(lib.NewRng(uint64(4000+dmg)), []int{1, 6}, dmg))
	}
	for _, cf := range out {
		cf.class = "corpus/" + cf.class
	}
	return out
}

func c01Craft(c *Ctx) error {
	r := c.Rng.Fork()
	for i, cf := range craftCorpus() {
		if err := runCraft(c, fmt.Sprintf("c01-craftcorpus-%d", i), cf, lib.Compressions[i%len(lib.Compressions)]); err != nil {
			return err
		}
	}
	n := nFor(c, 30, 1500, 900)
	for i := 0; i < n; i++ {
		cr := r.Fork()
		cf := genCraft(cr)
		if err := runCraft(c, fmt.Sprintf("c01-craft-%d", i), cf, lib.Compressions[(i+int(c.Seed))%len(lib.Compressions)]); err != nil {
			return err
		}
	}
	return nil
}

func runCraft(c *Ctx, name string, cf *craft, comp lib.Compression) error {
	base := filepath.Join(c.Tmp, name)
	oldDir, outDir := filepath.Join(base, "old"), filepath.Join(base, "out")
	defer removeAll(base)
	if err := cf.old.WriteTo(oldDir); err != nil {
		return err
	}
	oldC, err := lib.Walk(oldDir)
	if err != nil {
		return err
	}
	newC := cf.container()
	patch, err := lib.EncodePatch(comp, oldC, newC, cf.msgs)
	if err != nil {
		return err
	}
	// the old build is served the way genEnv says (reader styles only matter on the apply side here)
	env := genEnv(c, name, 0, oldC.Size+newC.Size)
	// run: apply with the old-build pool wrapped by wrap; the oracle of a well-formed hand-made
	// patch: it must apply and give exactly the contents its ops denote
	run := func(wrap func(lake.Pool, *tlc.Container) lake.Pool) (cls, msg, oracle string, got *lib.Build, err error) {
		cls, msg = lib.Guard(func() error {
			_, err := lib.ApplyFresh(patch, oldDir, outDir, nil, wrap)
			return err
		})
		got = &lib.Build{}
		if cls == "ok" {
			if got, err = lib.ReadBuild(outDir); err != nil {
				return
			}
		}
		if cf.want != nil {
			if cls != "ok" {
				oracle = "well-formed crafted patch: " + cls + ": " + msg
			} else {
				for p, w := range cf.want {
					e := got.Get(p)
					if e == nil || e.Kind != "file" || !bytes.Equal(e.Data, w) {
						oracle = fmt.Sprintf("crafted patch: %s does not hold the bytes its ops denote", p)
					}
				}
			}
		}
		return
	}
	cls, msg, oracle, got, err := run(c01WrapTarget(env))
	if err != nil {
		return err
	}
	finding := ""
	obs := map[string]interface{}{"class": cls, "msg": firstLine(msg)}
	if env.tgt.maxChunk > 0 && hasBsdiffAdd(cf.msgs) {
		// Known finding C01-lrufile-short-read: bsdiff/lrufile fills a 32 KiB chunk with ONE Read of
		// the old file's ReadSeeker, so a bsdiff series is only rebuilt correctly when that reader
		// never returns fewer bytes than asked (os.File). The model gets the run over the plain
		// pool; a failure that only the short reads produce is reported under the finding's id.
		cls2, msg2, oracle2, got2, err := run(nil)
		if err != nil {
			return err
		}
		obs["styledPoolClass"], obs["styledPoolOracle"] = cls, oracle
		if oracle != "" && oracle2 == "" {
			finding = "C01-lrufile-short-read"
			oracle = fmt.Sprintf("old-build pool reading %s: %s (applies correctly over a pool that fills every read)", env.tgt, oracle)
		} else {
			oracle = oracle2
		}
		cls, msg, got = cls2, msg2, got2
		obs["class"], obs["msg"] = cls, firstLine(msg)
	}
	d := lib.NewPathDict()
	os.RemoveAll(outDir)
	c.Out.Emit(&lib.Case{Group: "craft", Class: "craft/" + cf.class, Nontrivial: len(cf.msgs) > 3,
		Input: map[string]interface{}{"old": cf.old.Summary(), "newFiles": fmt.Sprint(cf.files), "msgs": lib.MsgSummary(cf.msgs), "compression": comp.String(), "oldPool": env.tgt.String()},
		Obs:   obs, Oracle: oracle, Finding: finding,
		Coq: fmt.Sprintf("($ID%%N, %s, %s, %s, %s, %s, %s)", lib.CoqContainer(oldC, d), lib.CoqContainer(newC, d), coqRleList(oldContents(oldC, cf.old)),
			lib.CoqMsgs(cf.msgs), lib.CoqZ(classCode(cls)), lib.CoqTree(got, d))})
	return nil
}

// hasBsdiffAdd: some bsdiff control adds bytes of the old file (read through bsdiff/lrufile).
func hasBsdiffAdd(ms []lib.PMsg) bool {
	for _, m := range ms {
		if m.Kind == "ct" && len(m.Add) > 0 {
			return true
		}
	}
	return false
}

func firstLine(s string) string {
	if i := strings.IndexByte(s, '\n'); i >= 0 {
		s = s[:i]
	}
	if len(s) > 200 {
		s = s[:200]
	}
	return s
}
