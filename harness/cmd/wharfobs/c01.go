package main

// C01 — diff then apply (fresh) reproduces the new build exactly, for every compression setting.

import (
	"fmt"
	"path/filepath"
	"strings"

	"verif/harness/lib"
)

func init() { register("C01", runC01) }

func runC01(c *Ctx) error {
	r := c.Rng.Fork()
	n := c.N(24, 300)
	for i := 0; i < n; i++ {
		cr := r.Fork()
		opts := lib.PairOpts{MaxFiles: 5, MaxSize: 4 * lib.BS, Links: true}
		if i%8 == 7 { // one large pair per 8: > 4 MiB data run
			opts.MaxFiles = 2
			opts.MaxSize = 5<<20 + 777
		}
		old, nw, rel := lib.GenPair(cr, opts)
		comp := lib.Compressions[(i+int(c.Seed))%len(lib.Compressions)]
		base := filepath.Join(c.Tmp, fmt.Sprintf("c01-%d", i))
		oldDir, newDir, outDir := filepath.Join(base, "old"), filepath.Join(base, "new"), filepath.Join(base, "out")
		if err := old.WriteTo(oldDir); err != nil {
			return err
		}
		if err := nw.WriteTo(newDir); err != nil {
			return err
		}
		oracle := ""
		var dr *lib.DiffResult
		cls, msg := lib.Guard(func() error {
			var err error
			dr, err = lib.Diff(oldDir, newDir, comp, nil)
			return err
		})
		obs := map[string]interface{}{"diff": cls}
		if cls != "ok" {
			oracle = "diff " + cls + ": " + msg
		} else {
			obs["patchLen"] = len(dr.Patch)
			obs["fresh"] = dr.Fresh
			obs["reused"] = dr.Reused
			cls, msg = lib.Guard(func() error {
				_, err := lib.ApplyFresh(dr.Patch, oldDir, outDir, nil, nil)
				return err
			})
			obs["apply"] = cls
			if cls != "ok" {
				oracle = "apply " + cls + ": " + msg
			} else {
				got, err := lib.ReadBuild(outDir)
				if err != nil {
					return err
				}
				if d := lib.DiffBuilds(got, nw); d != "" {
					oracle = "output tree differs from the new build: " + d
				}
				// the old build must not have been touched by a fresh apply
				if oracle == "" {
					o2, err := lib.ReadBuild(oldDir)
					if err != nil {
						return err
					}
					if d := lib.DiffBuilds(o2, old); d != "" {
						oracle = "fresh apply modified the old build: " + d
					}
				}
			}
		}
		relKinds := map[string]bool{}
		for _, x := range rel {
			relKinds[strings.SplitN(x, ":", 2)[0]] = true
		}
		c.Out.Emit(&lib.Case{Class: "pair/" + comp.String(), Nontrivial: len(rel) >= 2 || (len(rel) == 1 && rel[0] != "identical"),
			Input: map[string]interface{}{"old": old.Summary(), "new": nw.Summary(), "relations": rel, "compression": comp.String(), "subseed": i},
			Obs:   obs, Oracle: oracle})
		removeAll(base)
	}
	return nil
}
