package main

// C17 — whitelisted application that is stopped at checkpoints and resumed.
//
// C17 is stated about what the patcher does and reports when it is given a whitelist; it does
// not say that Resume is called exactly once. Stopping at a checkpoint (SaveConsumer answers
// AfterSaveStop, Resume returns ErrStop) and calling Resume(checkpoint) again on the SAME patcher,
// bowl and pool is the ordinary way of driving the same API (Test_Naive's with-saves loop does
// exactly that), so every whitelist of every patch is also applied that way, under a save/stop
// schedule, and the same claims are made about the finished run: touched count, bowl calls,
// old-build reads, contents.
//
// What is deliberately NOT claimed: the count reported by a patcher object that was created
// afresh and resumed from a checkpoint taken by another object (C03's way of resuming). The
// counter lives in the patcher object and is not part of the checkpoint, so "the patcher ...
// reports" has no single referent there; such runs are C03's.

import (
	"bytes"
	"encoding/gob"
	"fmt"
	"hash/fnv"
	"os"

	"github.com/itchio/lake"
	"github.com/itchio/lake/pools/fspool"
	"github.com/itchio/lake/tlc"

	"github.com/itchio/wharf/pwr/bowl"
	"github.com/itchio/wharf/pwr/patcher"

	"verif/harness/lib"
)

// c17Sched says when the save consumer asks for a checkpoint and at which delivered checkpoints
// it stops the patcher. Both decisions are a hash of the call index, so that a schedule does not
// depend on evaluation order.
type c17Sched struct {
	saveDen, stopDen int // 1 = every call, n = one call in n
	seed             uint64
	gob              bool // the checkpoint goes through encoding/gob, as a caller would persist it
	maxStops         int  // after that many stops the consumer stops asking (bounds the run)
}

func (s c17Sched) String() string {
	how := "as handed over"
	if s.gob {
		how = "through gob"
	}
	return fmt.Sprintf("save 1/%d, stop 1/%d, checkpoint %s", s.saveDen, s.stopDen, how)
}

func c17Hit(seed uint64, i, den int) bool {
	if den <= 1 {
		return true
	}
	return lib.NewRng(seed+uint64(i)*7919).Intn(den) == 0
}

// c17Scheds derives the schedules of one patch from the run seed and the case name (so that the
// existing generators draw exactly what they drew before). k-th whitelist: every other one is
// stopped at EVERY checkpoint (the densest schedule, what Test_Naive does), the others at some.
func c17Scheds(seed uint64, name string, n int) []c17Sched {
	h := fnv.New64a()
	h.Write([]byte(name))
	r := lib.NewRng(seed ^ h.Sum64())
	out := make([]c17Sched, n)
	for k := range out {
		s := c17Sched{saveDen: 1, stopDen: 1, seed: r.U64(), gob: r.Bool(), maxStops: 48}
		if k%2 != 0 {
			s.saveDen, s.stopDen = r.Range(1, 2), r.Range(1, 3)
		}
		out[k] = s
	}
	return out
}

type c17Saver struct {
	sch                  c17Sched
	asked, offers, stops int
	pending              *patcher.Checkpoint // the checkpoint the patcher was stopped at
	err                  error
}

var _ patcher.SaveConsumer = (*c17Saver)(nil)

func (s *c17Saver) ShouldSave() bool {
	i := s.asked
	s.asked++
	return s.stops < s.sch.maxStops && c17Hit(s.sch.seed, i, s.sch.saveDen)
}

func (s *c17Saver) Save(c *patcher.Checkpoint) (patcher.AfterSaveAction, error) {
	k := s.offers
	s.offers++
	if s.stops >= s.sch.maxStops || !c17Hit(s.sch.seed^0x5bd1e995, k, s.sch.stopDen) {
		return patcher.AfterSaveContinue, nil
	}
	if s.sch.gob {
		var buf bytes.Buffer
		if err := gob.NewEncoder(&buf).Encode(c); err != nil {
			s.err = fmt.Errorf("gob-encoding the checkpoint: %v", err)
			return patcher.AfterSaveStop, s.err
		}
		c = &patcher.Checkpoint{}
		if err := gob.NewDecoder(bytes.NewReader(buf.Bytes())).Decode(c); err != nil {
			s.err = fmt.Errorf("gob-decoding the checkpoint: %v", err)
			return patcher.AfterSaveStop, s.err
		}
	}
	s.pending = c
	s.stops++
	return patcher.AfterSaveStop, nil
}

func c17Cause(err error) error {
	for err != nil {
		c, ok := err.(interface{ Cause() error })
		if !ok {
			break
		}
		err = c.Cause()
	}
	return err
}

// c17Leg is one resumption: where in the event log it starts and what the checkpoint it
// resumes from says is in progress.
type c17Leg struct {
	at        int   // len(rec.Events) when Resume(checkpoint) was called
	fileIndex int64 // the new file in progress
	bsdiff    bool
	target    int64 // bsdiff: the old file the series is applied against
	touched   int64 // GetTouchedFiles() when the patcher stopped (observation only)
}

// applyStopResume is applyRecorded driven the interrupted way: ONE patcher, ONE fresh bowl (behind
// the recording wrapper) and ONE recording pool; Resume(nil), and after every ErrStop
// Resume(checkpoint the consumer was handed) until Resume returns something else.
func applyStopResume(patch []byte, oldDir, outDir string, whitelist map[int64]bool, sch c17Sched) (rec *lib.Recorder, touched int64, legs []c17Leg, src *tlc.Container, err error) {
	rec = &lib.Recorder{}
	os.RemoveAll(outDir)
	if err = os.MkdirAll(outDir, 0o755); err != nil {
		return
	}
	p, err := lib.NewPatcher(patch)
	if err != nil {
		return
	}
	src = p.GetSourceContainer()
	if whitelist != nil {
		p.SetSourceIndexWhitelist(whitelist)
	}
	sc := &c17Saver{sch: sch}
	p.SetSaveConsumer(sc)
	var tp lake.Pool = &lib.RecPool{Inner: fspool.New(p.GetTargetContainer(), oldDir), Rec: rec}
	fb, err := bowl.NewFreshBowl(bowl.FreshBowlParams{SourceContainer: p.GetSourceContainer(), TargetContainer: p.GetTargetContainer(), TargetPool: tp, OutputFolder: outDir})
	if err != nil {
		return
	}
	rb := &lib.RecBowl{Inner: fb, Rec: rec}
	defer rb.Close()
	var ck *patcher.Checkpoint
	for {
		before := sc.stops
		err = p.Resume(ck, tp, rb)
		touched = p.GetTouchedFiles()
		if sc.err != nil {
			err = sc.err
			return
		}
		if c17Cause(err) == patcher.ErrStop {
			if sc.stops != before+1 || sc.pending == nil {
				err = fmt.Errorf("Resume returned ErrStop although the save consumer did not ask to stop")
				return
			}
			ck, sc.pending = sc.pending, nil
			leg := c17Leg{at: len(rec.Events), fileIndex: ck.FileIndex, touched: touched}
			if ck.BsdiffCheckpoint != nil {
				leg.bsdiff, leg.target = true, ck.BsdiffCheckpoint.TargetIndex
			}
			legs = append(legs, leg)
			continue
		}
		if err != nil {
			return
		}
		if sc.stops != before {
			err = fmt.Errorf("Resume returned nil although the save consumer asked to stop")
			return
		}
		break
	}
	err = rb.Commit()
	return
}

// stripReopen removes from the event log what resuming in the middle of a file adds to it: at
// the start of every resumed leg the patcher re-opens what was open when it stopped -
// GetReadSeeker(bsdiff target) for a bsdiff series, then GetWriter(file in progress). What is left
// is what the model (which has no checkpoints) must reproduce: the trace of the uninterrupted
// run. A leg that does not start that way is left alone (and then disagrees with the model).
func stripReopen(events []lib.Ev, legs []c17Leg) []lib.Ev {
	drop := map[int]bool{}
	for _, l := range legs {
		var want []lib.Ev
		if l.bsdiff {
			want = append(want, lib.Ev{Kind: "R", A: l.target})
		}
		want = append(want, lib.Ev{Kind: "W", A: l.fileIndex})
		if l.at+len(want) > len(events) {
			continue
		}
		ok := true
		for k, w := range want {
			if events[l.at+k] != w {
				ok = false
			}
		}
		if ok {
			for k := range want {
				drop[l.at+k] = true
			}
		}
	}
	out := make([]lib.Ev, 0, len(events))
	for i, e := range events {
		if !drop[i] {
			out = append(out, e)
		}
	}
	return out
}
