package main

// C09 — applying through the safekeeper (signature-checking pool) never yields a silently
// wrong result, and an undamaged old build is never rejected.
//
// Groups: "apply"  (oracle only): build pair -> patch (plain and optimized) -> the old build is
//                  damaged -> fresh apply with the old-build pool wrapped by pwr.NewSafeKeeper;
//                  oracle: error, or output tree == new build; pristine old build: no error.
//                  The paths of the old build are part of the input: some pairs (and some skread
//                  cases) use paths that differ only by case, directory, a blank ... (c09NameFamilies).
//         "skread" (oracle + model): a pwr.NewSafeKeeper pool over in-memory files (signed
//                  content vs actual content) driven by the three consumers' read patterns
//                  (fresh bowl Transpose, wsync.ApplySingle block range, lrufile.getChunk - emulated
//                  chunk loads, and the real bsdiff.PatchContext.Patch with its lrufile driven by
//                  control messages whose add-runs start at aligned and unaligned old offsets);
//                  observable: ok/error and the number of bytes served per step (for a bspatch
//                  step: the chunk loads the real lrufile issued against the safekeeper reader).

import (
	"bytes"
	"context"
	"fmt"
	"io"
	"os"
	"path/filepath"
	"sort"
	"strings"
	"time"

	"github.com/golang/protobuf/proto"
	"github.com/itchio/lake"
	"github.com/itchio/lake/pools/fspool"
	"github.com/itchio/lake/tlc"
	"github.com/itchio/savior"
	"github.com/itchio/savior/seeksource"

	"github.com/itchio/wharf/bsdiff"
	"github.com/itchio/wharf/pwr"
	"github.com/itchio/wharf/pwr/bowl"
	"github.com/itchio/wharf/wsync"

	"verif/harness/lib"
)

func init() { register("C09", runC09) }

const c09Chunk = 32 * 1024

func c09Safekeeper(inner lake.Pool, sig []byte) (lake.Pool, error) {
	return pwr.NewSafeKeeper(pwr.SafeKeeperParams{Inner: inner, Open: func() (savior.SeekSource, error) {
		src := seeksource.FromBytes(sig)
		if _, err := src.Resume(nil); err != nil {
			return nil, err
		}
		return src, nil
	}})
}

// ---------------------------------------------------------------- damages

type c09Damage struct {
	Class string // damage class (histogram)
	Path  string
	Kind  string // flip | trunc | extend | delete
	Arg   int    // flip: offset; trunc: new size; extend: number of bytes appended
	Hit   bool   // lies in (or changes the extent of) a part of the file the patch reads
}

func (d c09Damage) String() string {
	return fmt.Sprintf("%s %s %s(%d)", d.Class, d.Path, d.Kind, d.Arg)
}

// apply returns the damaged content (nil, false = file deleted)
func (d c09Damage) apply(r *lib.Rng, data []byte) ([]byte, bool) {
	switch d.Kind {
	case "flip":
		out := append([]byte(nil), data...)
		out[d.Arg] ^= byte(1 + r.Intn(255))
		return out, true
	case "trunc":
		return append([]byte(nil), data[:d.Arg]...), true
	case "extend":
		var ext []byte
		switch r.Intn(3) {
		case 0:
			ext = make([]byte, d.Arg) // zeros
		case 1:
			ext = r.Bytes(d.Arg)
		default: // more of the same
			ext = make([]byte, d.Arg)
			for i := range ext {
				if len(data) > 0 {
					ext[i] = data[i%len(data)]
				} else {
					ext[i] = 0x41
				}
			}
		}
		return append(append([]byte(nil), data...), ext...), true
	case "delete":
		return nil, false
	}
	panic("unknown damage")
}

// c09Damages enumerates the damage classes of the property text for one old file.
func c09Damages(r *lib.Rng, path string, size int, u *rdUsage) []c09Damage {
	bs := lib.BS
	nb := (size + bs - 1) / bs
	var out []c09Damage
	used := u != nil
	reused := func(b int) bool {
		if u == nil {
			return false
		}
		return u.Whole || u.Bsdiff || u.Blocks[int64(b)]
	}
	add := func(class, kind string, arg int, hit bool) {
		out = append(out, c09Damage{Class: class, Path: path, Kind: kind, Arg: arg, Hit: hit})
	}
	if size > 0 {
		// bit flips: one in a block the patch reuses, one in a block it does not (when they exist)
		var re, un []int
		for b := 0; b < nb; b++ {
			if reused(b) {
				re = append(re, b)
			} else {
				un = append(un, b)
			}
		}
		flipIn := func(b int) int {
			lo, hi := b*bs, (b+1)*bs
			if hi > size {
				hi = size
			}
			return []int{lo, hi - 1, (lo + hi) / 2, r.Range(lo, hi-1)}[r.Intn(4)]
		}
		if len(re) > 0 {
			add("flip-reused-block", "flip", flipIn(re[r.Intn(len(re))]), true)
			add("flip-reused-block", "flip", flipIn(re[len(re)-1]), true)
		}
		if len(un) > 0 {
			add("flip-unreused-block", "flip", flipIn(un[r.Intn(len(un))]), false)
		}
		// truncation to 0, 1, k*bs-1, k*bs, k*bs+1, size-1
		seen := map[int]bool{}
		tr := func(class string, n int) {
			if n >= 0 && n < size && !seen[n] {
				seen[n] = true
				add(class, "trunc", n, used)
			}
		}
		tr("trunc-0", 0)
		tr("trunc-1", 1)
		if nb >= 1 {
			k := r.Range(1, nb)
			tr("trunc-kbs-1", k*bs-1)
			tr("trunc-kbs", k*bs)
			tr("trunc-kbs+1", k*bs+1)
			tr("trunc-lastboundary", ((size-1)/bs)*bs)
		}
		tr("trunc-size-1", size-1)
	}
	// extension: 1 byte, inside the last block, to the block end, one more block, several
	rem := (bs - size%bs) % bs // bytes missing to the end of the last block
	if size > 0 || true {
		add("extend-1", "extend", 1, used)
		if rem > 2 {
			add("extend-inside-last-block", "extend", r.Range(2, rem-1), used)
		}
		if rem > 0 {
			add("extend-to-block-end", "extend", rem, used)
		}
		add("extend-one-block", "extend", rem+bs, used)
		add("extend-several", "extend", rem+2*bs+r.Range(0, 9), used)
	}
	add("delete", "delete", 0, used)
	if size == 0 {
		for i := range out {
			if out[i].Kind == "extend" {
				out[i].Class = "nonempty-where-empty-signed/" + out[i].Class
			}
		}
	}
	if size%bs == 0 && size > 0 {
		for i := range out {
			out[i].Class += "/size=k*bs"
		}
	}
	return out
}

// ---------------------------------------------------------------- build pairs

type c09Pair struct {
	name    string
	old, nw *lib.Build
	rel     []string
}

func c09Content(r *lib.Rng, size int) []byte { return lib.GenContent(r, size) }

// targeted pair: whole-file copies, block-range reuse and (after optimization) bsdiff series
// on files of exactly k*bs bytes, k*bs+r bytes, a small file and an empty one
func c09Targeted(r *lib.Rng) c09Pair {
	return c09TargetedNamed(r, "targeted", []string{"exact.bin", "a/tail.bin", "small.bin", "a/empty.bin"})
}

// c09TargetedNamed: the targeted pair over four given old paths (k*bs bytes, k*bs+r bytes, small,
// empty - in this order)
func c09TargetedNamed(r *lib.Rng, pairName string, names []string) c09Pair {
	bs := lib.BS
	k := r.Range(1, 3)
	sizes := []int{k * bs, r.Range(1, 3)*bs + []int{1, 100, bs - 1, bs / 2}[r.Intn(4)], []int{1, 100, 105, 4000}[r.Intn(4)], 0}
	old := &lib.Build{}
	for i, s := range sizes {
		old.Put(lib.Entry{Path: names[i], Kind: "file", Data: r.Bytes(s)})
	}
	nw := &lib.Build{}
	var rel []string
	for i, n := range names {
		e := old.Get(n)
		switch r.Intn(7) {
		case 5, 6: // only some whole blocks survive, under a new name: the other blocks are not reused
			nb := len(e.Data) / bs
			if nb == 0 {
				nw.Put(lib.Entry{Path: n, Kind: "file", Data: e.Data})
				rel = append(rel, "same:"+n)
				break
			}
			b := r.Intn(nb)
			d := append(append(r.Bytes(r.Range(0, 50)), e.Data[b*bs:(b+1)*bs]...), r.Bytes(r.Range(0, 50))...)
			nw.Put(lib.Entry{Path: fmt.Sprintf("kept/%d.bin", i), Kind: "file", Data: d})
			rel = append(rel, fmt.Sprintf("block:%s[%d]", n, b))
		case 0: // unchanged: whole-file copy to the same path
			nw.Put(lib.Entry{Path: n, Kind: "file", Data: e.Data})
			rel = append(rel, "same:"+n)
		case 1: // renamed: whole-file copy to another path
			nw.Put(lib.Entry{Path: fmt.Sprintf("moved/%d.bin", i), Kind: "file", Data: e.Data})
			rel = append(rel, "rename:"+n)
		case 2: // edited in one place: block ranges + data (bsdiff once optimized)
			d, how := lib.Edit(r, e.Data)
			nw.Put(lib.Entry{Path: n, Kind: "file", Data: d})
			rel = append(rel, "edit:"+n+":"+how)
		case 3: // copied twice
			nw.Put(lib.Entry{Path: n, Kind: "file", Data: e.Data})
			nw.Put(lib.Entry{Path: fmt.Sprintf("dup/%d.bin", i), Kind: "file", Data: e.Data})
			rel = append(rel, "dup:"+n)
		default: // a prefix of whole blocks + fresh data under a new name, original kept
			cut := (len(e.Data) / bs) * bs
			if cut > bs && r.Bool() {
				cut -= bs
			}
			d := append(append([]byte(nil), e.Data[:cut]...), r.Bytes(r.Range(0, 300))...)
			nw.Put(lib.Entry{Path: fmt.Sprintf("part/%d.bin", i), Kind: "file", Data: d})
			nw.Put(lib.Entry{Path: n, Kind: "file", Data: e.Data})
			rel = append(rel, fmt.Sprintf("prefix:%s[:%d]", n, cut))
		}
	}
	if r.Bool() { // a new file stitched from blocks of two old files
		a, b := old.Get(names[0]).Data, old.Get(names[1]).Data
		d := append(append([]byte(nil), b[:bs]...), a...)
		nw.Put(lib.Entry{Path: "stitched.bin", Kind: "file", Data: d})
		rel = append(rel, "stitch")
	}
	return c09Pair{name: pairName, old: old, nw: nw, rel: rel}
}

// c09SeriesPair: files of several blocks that the optimized patch rebuilds with a bsdiff series,
// where the reused bytes moved: the new file dropped or gained bytes in front of them (at the
// start of the file or further in), by amounts that are not / are a multiple of the 32 KiB the
// patcher reads at a time, or was only edited in place (reads stay aligned); a few scattered
// bytes change as well so that the series is more than one add-run.  Returns the pair and, as
// fixed damages, one bit flip in EVERY block of every old file (whether a flip is noticed by a
// bsdiff series or a block range depends on which read first enters the block).
func c09SeriesPair(r *lib.Rng) (c09Pair, []c09Damage) {
	bs := lib.BS
	old, nw := &lib.Build{}, &lib.Build{}
	var rel []string
	var dmg []c09Damage
	nf := r.Range(1, 2)
	for i := 0; i < nf; i++ {
		name := fmt.Sprintf("series/s%d.bin", i)
		size := r.Range(2, 4)*bs + []int{0, 1, 1000, c09Chunk, c09Chunk + 1, bs - 1}[r.Intn(6)]
		data := r.Bytes(size)
		old.Put(lib.Entry{Path: name, Kind: "file", Data: data})
		k := []int{1, 7, 100, c09Chunk - 1, c09Chunk + 1, bs - 1, bs + 1, r.Range(1, bs), c09Chunk, bs}[r.Intn(10)]
		at := []int{0, 0, 0, 1, bs, bs + c09Chunk, r.Intn(size - bs)}[r.Intn(7)]
		if at+k > size {
			at = 0
		}
		var d []byte
		how := ""
		switch r.Intn(5) {
		case 0, 1: // bytes dropped
			d = append(append([]byte(nil), data[:at]...), data[at+k:]...)
			how = fmt.Sprintf("drop@%d+%d", at, k)
		case 2, 3: // bytes inserted
			d = append(append(append([]byte(nil), data[:at]...), r.Bytes(k)...), data[at:]...)
			how = fmt.Sprintf("insert@%d+%d", at, k)
		default: // edited in place only
			d = append([]byte(nil), data...)
			how = "inplace"
		}
		for j := r.Range(1000, 9000); j < len(d); j += r.Range(40000, 200000) {
			d[j] ^= 0xff
		}
		nw.Put(lib.Entry{Path: name, Kind: "file", Data: d})
		rel = append(rel, "series:"+name+":"+how)
		nb := (size + bs - 1) / bs
		for b := 0; b < nb; b++ {
			lo, hi := b*bs, (b+1)*bs
			if hi > size {
				hi = size
			}
			pos := "inner"
			switch b {
			case 0:
				pos = "first"
			case nb - 1:
				pos = "last"
			}
			dmg = append(dmg, c09Damage{Class: "flip-every-block/" + pos, Path: name, Kind: "flip",
				Arg: []int{lo, hi - 1, (lo + hi) / 2, r.Range(lo, hi-1)}[r.Intn(4)], Hit: true})
		}
	}
	if r.Bool() { // a bystander copied whole
		b := r.Bytes([]int{100, bs, bs + 5}[r.Intn(3)])
		old.Put(lib.Entry{Path: "kept.bin", Kind: "file", Data: b})
		nw.Put(lib.Entry{Path: "kept.bin", Kind: "file", Data: b})
		rel = append(rel, "same:kept.bin")
	}
	return c09Pair{name: "series", old: old, nw: nw, rel: rel}, dmg
}

// ---------------------------------------------------------------- paths of the old build

// "For all build pairs": the paths of a build are part of the input.  The safekeeper finds the
// hashes of a file through the path -> file index table of the signature (pwr/hashinfo.go), the
// pools open files by path, the bowl creates them by path.  A table keyed by anything coarser
// than the exact path (case folded, base name, trimmed, normalized, cut to a length, separators
// rewritten ...) confuses two files of the SAME build; nothing goes wrong as long as every path of
// the build differs from the others in an "ordinary" way.  c09NameFamilies lists sets of paths
// (all legal on a case-sensitive filesystem, all valid UTF-8) whose members differ only in the way
// the family is named after.
type c09Names struct {
	family string
	names  []string
}

func c09NameFamilies(r *lib.Rng) []c09Names {
	stem := []string{"Data", "Level", "Main"}[r.Intn(3)]
	ext := []string{".bin", ".pak", ".Dat"}[r.Intn(3)]
	lo, up := strings.ToLower(stem), strings.ToUpper(stem)
	long := strings.Repeat("n", 60) + strings.Repeat("m", 140) // 200 bytes, NAME_MAX is 255
	return []c09Names{
		// the same path up to letter case, in the file name or in a directory
		{"case", []string{"assets/" + stem + ext, "assets/" + lo + strings.ToLower(ext), "assets/" + up + strings.ToUpper(ext), "Assets/" + stem + ext, "assets/" + lo + ext + "x", "ASSETS/sub/" + lo + ext, "assets/sub/" + lo + ext}},
		// the same base name in different directories
		{"basename", []string{"a/" + lo + ext, "b/" + lo + ext, lo + ext, "a/b/" + lo + ext, "b/a/" + lo + ext, "a/a/" + lo + ext}},
		// one path a prefix / suffix of the other
		{"affix", []string{lo, lo + ext, lo + ext + ".bak", lo + ext[:len(ext)-1], "x" + lo + ext, lo + ext + "2", "sub/" + lo, "sub/" + lo + ext}},
		// blanks and dots at the ends and inside
		{"blank", []string{lo + ext, lo + ext + " ", " " + lo + ext, lo + ext + ".", lo + " " + ext, lo + "." + ext, "d/" + lo + ext, "d /" + lo + ext}},
		// composed / decomposed / other-case / unaccented / look-alike letters
		{"unicode", []string{"caf\u00e9" + ext, "cafe\u0301" + ext, "CAF\u00c9" + ext, "cafe" + ext, "caf\u00e8" + ext, "\uff43afe" + ext, "stra\u00dfe" + ext, "strasse" + ext}},
		// characters that are separators elsewhere, or that stand in for one
		{"separator", []string{"a/b" + ext, "a\\b" + ext, "a_b" + ext, "a b" + ext, "ab" + ext, "a-b/c" + ext, "a/b-c" + ext, "a:b" + ext}},
		// long names that differ only at one end
		{"long", []string{"x" + long, long + "x", long + "y", "y" + long, long, long[1:], "l/" + long + "x", "l/" + long + "y"}},
		// names that are the same number
		{"numeric", []string{"f1" + ext, "f01" + ext, "f10" + ext, "f1.0" + ext, "f+1" + ext, "f\uff11" + ext, "f1" + ext + "0"}},
	}
}

var c09ProbeCache = map[string]bool{}

// c09ProbeNames: does the scratch filesystem keep these paths apart, exactly as spelled?  (A
// filesystem that folds case or normalizes names cannot hold such a build; the family is then
// left out and the evidence shows no case of its class.)
func c09ProbeNames(tmp string, names []string) bool {
	key := strings.Join(names, "\x00")
	if v, ok := c09ProbeCache[key]; ok {
		return v
	}
	dir := filepath.Join(tmp, "c09-probe")
	defer removeAll(dir)
	ok := true
	for i, n := range names {
		if err := c09WriteFile(dir, n, []byte{byte(i)}); err != nil {
			ok = false
		}
	}
	if ok {
		got := map[string]bool{}
		_ = filepath.Walk(dir, func(p string, info os.FileInfo, err error) error {
			if err == nil && info.Mode().IsRegular() {
				rel, _ := filepath.Rel(dir, p)
				got[filepath.ToSlash(rel)] = true
			}
			return nil
		})
		ok = len(got) == len(names)
		for i, n := range names {
			b, err := os.ReadFile(filepath.Join(dir, filepath.FromSlash(n)))
			if !got[n] || err != nil || len(b) != 1 || b[0] != byte(i) {
				ok = false
			}
		}
	}
	c09ProbeCache[key] = ok
	return ok
}

// c09DrawNames: n paths of one family (members in random order), "" if the scratch filesystem
// cannot hold any of the families
func (c *Ctx) c09DrawNames(r *lib.Rng, n int) (string, []string) {
	fams := c09NameFamilies(r)
	for try := 0; try < 4; try++ {
		f := fams[r.Intn(len(fams))]
		names := append([]string(nil), f.names...)
		for i := len(names) - 1; i > 0; i-- {
			j := r.Intn(i + 1)
			names[i], names[j] = names[j], names[i]
		}
		names = names[:n]
		if c09ProbeNames(c.Tmp, names) {
			return f.family, names
		}
	}
	return "", nil
}

// c09NamedPair: the targeted pair (whole-file copies, block ranges, bsdiff series once optimized)
// over four old paths of one family; sometimes two of them trade contents in the new build
func c09NamedPair(r *lib.Rng, family string, names []string) c09Pair {
	pr := c09TargetedNamed(r, "paths/"+family, names)
	if a, b := pr.nw.Get(names[0]), pr.nw.Get(names[1]); a != nil && b != nil && r.Chance(1, 3) {
		a.Data, b.Data = b.Data, a.Data
		pr.rel = append(pr.rel, "swap:"+names[0]+"<->"+names[1])
	}
	return pr
}

// c09AllNamesPair: one old build holding every member of every family (distinct contents, sizes
// of several blocks / one block / small / empty in turn); in the new build one member per family
// is edited, one moved, two trade contents, the others stay.  Run pristine on every run.
func (c *Ctx) c09AllNamesPair() c09Pair {
	r := lib.NewRng(9091)
	bs := lib.BS
	old, nw := &lib.Build{}, &lib.Build{}
	var rel []string
	seen := map[string]bool{}
	for _, f := range c09NameFamilies(lib.NewRng(1)) {
		if !c09ProbeNames(c.Tmp, f.names) {
			continue
		}
		sizes := []int{bs + 100, 100, 4000, bs, 0, 1, 2*bs + 1, 70000}
		var mine []string
		for i, n := range f.names {
			if seen[n] {
				continue
			}
			seen[n] = true
			mine = append(mine, n)
			old.Put(lib.Entry{Path: n, Kind: "file", Data: r.Bytes(sizes[i%len(sizes)])})
		}
		for i, n := range mine {
			d := old.Get(n).Data
			switch {
			case i == 0 && len(d) > 0:
				e := append([]byte(nil), d...)
				e[len(e)/2] ^= 0xff
				nw.Put(lib.Entry{Path: n, Kind: "file", Data: e})
			case i == 1:
				nw.Put(lib.Entry{Path: "moved/" + f.family + ".bin", Kind: "file", Data: d})
			case i == 2 && len(mine) > 3:
				nw.Put(lib.Entry{Path: n, Kind: "file", Data: old.Get(mine[3]).Data})
			case i == 3:
				nw.Put(lib.Entry{Path: n, Kind: "file", Data: old.Get(mine[2]).Data})
			default:
				nw.Put(lib.Entry{Path: n, Kind: "file", Data: d})
			}
		}
		rel = append(rel, "paths/"+f.family)
	}
	return c09Pair{name: "corpus/confusable-paths", old: old, nw: nw, rel: rel}
}

// the failing inputs of DESIGN section 7 (#4, #5, #6) as fixed corpus pairs with fixed damages
type c09CorpusCase struct {
	pair    c09Pair
	damages []c09Damage // empty: pristine only
}

func c09Corpus() []c09CorpusCase {
	r := lib.NewRng(909)
	mk := func(name string, oldFiles, newFiles map[string][]byte) c09Pair {
		o, n := &lib.Build{}, &lib.Build{}
		for p, d := range oldFiles {
			o.Put(lib.Entry{Path: p, Kind: "file", Data: d})
		}
		for p, d := range newFiles {
			n.Put(lib.Entry{Path: p, Kind: "file", Data: d})
		}
		return c09Pair{name: name, old: o, nw: n, rel: []string{name}}
	}
	bs := lib.BS
	exact := r.Bytes(bs)
	two := r.Bytes(2 * bs)
	small := r.Bytes(100)
	tail := r.Bytes(bs + 34464)
	edited := append([]byte(nil), tail...)
	edited[10] ^= 0xff
	dupd := r.Bytes(bs + 34464)
	return []c09CorpusCase{
		// found by this check: the second whole-file copy of the same old file came out empty
		{pair: mk("corpus/same-file-copied-twice", map[string][]byte{"d.bin": dupd}, map[string][]byte{"d.bin": dupd, "d2.bin": dupd, "d3.bin": dupd})},
		// #4: a pristine 64 KiB file copied whole is rejected "too large"
		{pair: mk("corpus/pristine-64k-whole-copy", map[string][]byte{"a.bin": exact, "b.bin": two}, map[string][]byte{"a2.bin": exact, "b.bin": two})},
		// #5: +5 bytes inside the last short block, whole-file copy: 105-byte output, no error
		{pair: mk("corpus/extended-inside-last-block", map[string][]byte{"s.bin": small}, map[string][]byte{"s2.bin": small}),
			damages: []c09Damage{{Class: "extend-inside-last-block", Path: "s.bin", Kind: "extend", Arg: 5, Hit: true}}},
		// #6: old file emptied / truncated at a block boundary: io.EOF taken for a clean end
		{pair: mk("corpus/emptied-or-cut-at-boundary", map[string][]byte{"s.bin": small, "t.bin": tail}, map[string][]byte{"s2.bin": small, "t2.bin": tail, "t.bin": edited}),
			damages: []c09Damage{{Class: "trunc-0", Path: "s.bin", Kind: "trunc", Arg: 0, Hit: true},
				{Class: "trunc-0", Path: "t.bin", Kind: "trunc", Arg: 0, Hit: true},
				{Class: "trunc-kbs", Path: "t.bin", Kind: "trunc", Arg: bs, Hit: true}}},
	}
}

// ---------------------------------------------------------------- the "apply" group

func c09WriteFile(dir, rel string, data []byte) error {
	p := filepath.Join(dir, filepath.FromSlash(rel))
	if err := os.MkdirAll(filepath.Dir(p), 0o755); err != nil {
		return err
	}
	return os.WriteFile(p, data, 0o644)
}

type c09PatchVariant struct {
	name  string
	bytes []byte
}

func (c *Ctx) c09RunPair(r *lib.Rng, idx int, pr c09Pair, fixed []c09Damage, perPatch int) error {
	base := filepath.Join(c.Tmp, fmt.Sprintf("c09-%d", idx))
	defer removeAll(base)
	oldDir, newDir, dmgDir, outDir := filepath.Join(base, "old"), filepath.Join(base, "new"), filepath.Join(base, "dmg"), filepath.Join(base, "out")
	for d, b := range map[string]*lib.Build{oldDir: pr.old, newDir: pr.nw, dmgDir: pr.old} {
		if err := b.WriteTo(d); err != nil {
			return err
		}
	}
	// compression is not what this property is about: the three cheap settings in rotation
	comp := []lib.Compression{lib.Compressions[0], lib.Compressions[1], lib.Compressions[4]}[idx%3]
	dr, err := lib.Diff(oldDir, newDir, comp, nil)
	if err != nil {
		return fmt.Errorf("c09: diff: %v", err)
	}
	sig, err := rdSigBytes(dr.OldSig)
	if err != nil {
		return err
	}
	variants := []c09PatchVariant{{"plain", dr.Patch}}
	// optimized patch (bsdiff series); partitions 0 and no forced mapping keep clear of the two
	// bsdiff defects that C07 reports
	op := lib.OptParams{Partitions: 0, Concurrency: 0, Comp: comp}
	if rc, ms, err := rdAnalyze(dr.Patch, op); err == nil && len(ms) > 0 {
		risky := false
		for _, m := range ms {
			if rdEmptyOldShape(rc.GetTargetContainer().Files[m.Target].Size, rc.GetSourceContainer().Files[m.Source].Size) {
				risky = true
			}
		}
		if !risky {
			var ob []byte
			cls, _ := lib.WithDeadline(120*time.Second, func() error {
				var err error
				ob, err = rdOptimizeWith(rc, oldDir, newDir)
				return err
			})
			if cls == "ok" {
				variants = append(variants, c09PatchVariant{"optimized", ob})
			}
		}
	}
	wrap := func(p lake.Pool, _ *tlc.Container) lake.Pool {
		sk, err := c09Safekeeper(p, sig)
		if err != nil {
			panic(err)
		}
		return sk
	}
	summary := map[string]interface{}{"old": pr.old.Summary(), "new": pr.nw.Summary()}
	for _, v := range variants {
		pi, err := rdDecode(v.bytes)
		if err != nil {
			return fmt.Errorf("c09: decoding the %s patch: %v", v.name, err)
		}
		usage := pi.Usage()
		byPath := map[string]*rdUsage{}
		kinds := map[string]bool{}
		for i, f := range pi.Target.Files {
			byPath[f.Path] = usage[int64(i)]
			kinds[usage[int64(i)].Kind()] = true
		}
		// scenario list: pristine first, then fixed damages, then sampled ones
		type scen struct {
			d        *c09Damage
			pristine bool
		}
		scens := []scen{{pristine: true}}
		for i := range fixed {
			scens = append(scens, scen{d: &fixed[i]})
		}
		if perPatch > 0 {
			var all []c09Damage
			want := perPatch
			for _, f := range pr.old.Files() {
				// the optimized patch differs from the plain one only in its bsdiff series, and every
				// patcher of a bsdiff series allocates a 32 MiB read cache: damage only their old files
				if v.name == "optimized" && (byPath[f.Path] == nil || !byPath[f.Path].Bsdiff) {
					continue
				}
				all = append(all, c09Damages(r, f.Path, len(f.Data), byPath[f.Path])...)
			}
			if v.name == "optimized" {
				want = (perPatch + 1) / 2
			}
			// one damage per class in turn (classes in random order), so that every class of the
			// property text shows up whatever the mix of files
			byClass := map[string][]int{}
			var classes []string
			for j, d := range all {
				k := d.Class + "|" + byPath[d.Path].Kind()
				if _, ok := byClass[k]; !ok {
					classes = append(classes, k)
				}
				byClass[k] = append(byClass[k], j)
			}
			for i := len(classes) - 1; i > 0; i-- {
				j := r.Intn(i + 1)
				classes[i], classes[j] = classes[j], classes[i]
			}
			pick := map[int]bool{}
			for round := 0; len(pick) < want && len(pick) < len(all) && round < 64; round++ {
				for _, k := range classes {
					if len(pick) >= want {
						break
					}
					js := byClass[k]
					pick[js[r.Intn(len(js))]] = true
				}
			}
			for j := range all {
				if pick[j] {
					d := all[j]
					scens = append(scens, scen{d: &d})
				}
			}
		}
		for _, sc := range scens {
			applyDir := oldDir
			var desc string
			class := "pristine"
			hit := false
			ukind := ""
			if !sc.pristine {
				d := sc.d
				e := pr.old.Get(d.Path)
				if e == nil {
					return fmt.Errorf("c09: no old file %s", d.Path)
				}
				nd, keep := d.apply(r, e.Data)
				p := filepath.Join(dmgDir, filepath.FromSlash(d.Path))
				if keep {
					if err := os.WriteFile(p, nd, 0o644); err != nil {
						return err
					}
				} else if err := os.Remove(p); err != nil {
					return err
				}
				applyDir = dmgDir
				desc = d.String()
				ukind = byPath[d.Path].Kind()
				class = d.Class + "/" + ukind
				hit = d.Hit
				if d.Kind == "flip" { // a fixed flip: whether its block is read depends on the patch variant
					u := byPath[d.Path]
					hit = u != nil && (u.Whole || u.Bsdiff || u.Blocks[int64(d.Arg/lib.BS)])
				}
			}
			cls, msg := lib.WithDeadline(120*time.Second, func() error {
				_, err := lib.ApplyFresh(v.bytes, applyDir, outDir, nil, wrap)
				return err
			})
			oracle := ""
			switch {
			case cls == "panic" || cls == "hang":
				oracle = "apply through the safekeeper: " + cls + ": " + msg
			case cls == "error" && sc.pristine:
				oracle = "undamaged old build rejected: " + msg
			case cls == "ok":
				got, err := lib.ReadBuild(outDir)
				if err != nil {
					return err
				}
				if d := lib.DiffBuilds(got, pr.nw); d != "" {
					oracle = "apply reported success but the output differs from the new build: " + d
				}
			}
			if len(msg) > 200 {
				msg = msg[:200]
			}
			in := map[string]interface{}{"pair": pr.name, "relations": pr.rel, "patch": v.name, "compression": comp.String(), "damage": desc, "subseed": idx}
			if oracle != "" {
				in["builds"] = summary
				in["series"] = pi.Describe()
			}
			var ks []string
			for k := range kinds {
				ks = append(ks, k)
			}
			sort.Strings(ks)
			c.Out.Emit(&lib.Case{Class: "apply/" + v.name + "/" + class, Nontrivial: hit || (sc.pristine && len(usage) > 0),
				Input: in, Obs: map[string]interface{}{"apply": cls, "msg": msg, "usage": strings.Join(ks, ",")}, Oracle: oracle})
			removeAll(outDir)
			if !sc.pristine { // restore the damaged copy
				if err := c09WriteFile(dmgDir, sc.d.Path, pr.old.Get(sc.d.Path).Data); err != nil {
					return err
				}
			}
			if cls == "hang" {
				return fmt.Errorf("c09: apply hung; stopping")
			}
		}
	}
	return nil
}

// ---------------------------------------------------------------- the "skread" group

type c09Step struct {
	File  int
	Kind  string // copy | range | chunks | bspatch
	Blk   int64
	Span  int64
	Cis   []int64
	Class string
	Bytes int64
	// bspatch: the control messages given to bsdiff.PatchContext.Patch, the number of entries of
	// its read cache (0 = the 1024 of the patcher), the shape of the series (class label)
	Ctrls   []c09Ctrl
	Entries int
	Shape   string
	// bspatch, observed at the safekeeper reader: the chunks the real lrufile loaded, whether every
	// load succeeded, the bytes the loads returned; Unmodelable = some access was not "seek to a
	// multiple of 32 KiB, read 32 KiB" (then the case is judged by the oracle only)
	Loads       []int64
	LoadsOK     bool
	Loaded      int64
	Unmodelable string
	Unsigned    string // a load was given bytes that are not the signed content
}

func (s c09Step) Coq() string {
	switch s.Kind {
	case "copy":
		return fmt.Sprintf("(%s, PCopy)", lib.CoqN(int64(s.File)))
	case "range":
		return fmt.Sprintf("(%s, PRange %s %s)", lib.CoqN(int64(s.File)), lib.CoqN(s.Blk), lib.CoqN(s.Span))
	case "bspatch":
		return fmt.Sprintf("(%s, PChunks %s)", lib.CoqN(int64(s.File)), lib.CoqNList(s.Loads))
	default:
		return fmt.Sprintf("(%s, PChunks %s)", lib.CoqN(int64(s.File)), lib.CoqNList(s.Cis))
	}
}

// what the model is compared with: for a bspatch step the model sees the loads of the real
// lrufile (PChunks), so the observation is taken at the safekeeper reader, not at the output
func (s c09Step) CoqObs() string {
	if s.Kind == "bspatch" {
		return fmt.Sprintf("(%s, %s)", lib.CoqBool(s.LoadsOK), lib.CoqN(s.Loaded))
	}
	return fmt.Sprintf("(%s, %s)", lib.CoqBool(s.Class == "ok"), lib.CoqN(s.Bytes))
}

func (s c09Step) String() string {
	if s.Kind == "bspatch" {
		return fmt.Sprintf("%d:bspatch(%s, cache entries %d) %s", s.File, s.Shape, s.Entries, c09DescribeCtrls(s.Ctrls))
	}
	return strings.TrimSpace(fmt.Sprintf("%d:%s %d+%d %v", s.File, s.Kind, s.Blk, s.Span, s.Cis))
}

// ---- bsdiff series over the safekeeper (the third consumer, for real)

// c09Ctrl is one bsdiff control: add Add to len(Add) old bytes at the old offset, append Copy,
// move the old offset by Seek.
type c09Ctrl struct {
	Add, Copy []byte
	Seek      int64
}

func c09DescribeCtrls(cs []c09Ctrl) string {
	var sb strings.Builder
	off := int64(0)
	for i, c := range cs {
		if i >= 16 {
			fmt.Fprintf(&sb, " ... (%d controls)", len(cs))
			break
		}
		fmt.Fprintf(&sb, " [old@%d add %d copy %d seek %d]", off, len(c.Add), len(c.Copy), c.Seek)
		off += int64(len(c.Add)) + c.Seek
	}
	return strings.TrimSpace(sb.String())
}

// c09BspatchIdeal: what the series yields on the signed content (bspatch restated)
func c09BspatchIdeal(signed []byte, cs []c09Ctrl) []byte {
	var out []byte
	off := int64(0)
	for _, c := range cs {
		for j, a := range c.Add {
			out = append(out, a+signed[off+int64(j)])
		}
		out = append(out, c.Copy...)
		off += int64(len(c.Add)) + c.Seek
	}
	return out
}

// c09GenCtrls draws a valid series for an old file of size bytes (size > 0): every add-run lies
// inside the file and every old offset in [0, size].  What matters for this property is where
// the reads of the old file start relative to the 32 KiB chunks of the read cache and the
// 64 KiB blocks of the signature: aligned (in-place edits), shifted by a few bytes, by a chunk
// or a block +- 1, or anywhere (bytes dropped / inserted in front of the reused part), in one
// long run or in pieces, forwards, backwards or jumping.
func c09GenCtrls(r *lib.Rng, size int) ([]c09Ctrl, string) {
	starts := []int{0, 1, 100, c09Chunk - 1, c09Chunk, c09Chunk + 1, bs64 - 1, bs64, bs64 + 1, bs64 + c09Chunk + 1, r.Intn(size + 1), r.Intn(size + 1)}
	start := starts[r.Intn(len(starts))]
	if start > size {
		start = r.Intn(size + 1)
	}
	bytesOf := func(n int) []byte {
		if r.Chance(1, 3) {
			return r.Bytes(n)
		}
		return make([]byte, n)
	}
	var cs []c09Ctrl
	shape := ""
	if start > 0 { // the first control only moves the old offset (bytes inserted in the new file)
		cs = append(cs, c09Ctrl{Copy: r.Bytes(r.Range(0, 9)), Seek: int64(start)})
	}
	cur := start
	align := "unaligned"
	if start%c09Chunk == 0 {
		align = "aligned"
	}
	switch pat := r.Intn(4); pat {
	case 0: // one add-run up to the end of the old file
		shape = "one-run-to-end"
		cs = append(cs, c09Ctrl{Add: bytesOf(size - cur), Copy: r.Bytes(r.Range(0, 5))})
	case 1: // one add-run ending anywhere (on a chunk / block boundary, +-1, at random)
		shape = "one-run"
		end := []int{cur + c09Chunk, cur + bs64, (cur/bs64 + 1) * bs64, (cur/bs64+2)*bs64 - 1, (cur/bs64+1)*bs64 + 1, r.Range(cur, size), size - 1}[r.Intn(7)]
		if end > size || end < cur {
			end = size
		}
		cs = append(cs, c09Ctrl{Add: bytesOf(end - cur), Copy: r.Bytes(r.Range(0, 5))})
	case 2: // contiguous pieces, as bsdiff emits them: add, a few fresh bytes, a small seek
		shape = "pieces"
		for n := 0; cur < size && n < 24; n++ {
			l := []int{1, 100, c09Chunk - 1, c09Chunk, c09Chunk + 1, bs64, bs64 + c09Chunk, r.Range(1, 3*c09Chunk)}[r.Intn(8)]
			if l > size-cur {
				l = size - cur
			}
			next := cur + l + []int{0, 0, 1, 7, -1, -7, 300}[r.Intn(7)]
			if next < 0 || next > size {
				next = cur + l
			}
			cs = append(cs, c09Ctrl{Add: bytesOf(l), Copy: r.Bytes(r.Range(0, 9)), Seek: int64(next - cur - l)})
			cur = next
		}
	default: // jumps: each add-run starts somewhere else (blocks reused out of order)
		shape = "jumps"
		align = "mixed"
		m := r.Range(1, 6)
		for n := 0; n < m; n++ {
			l := []int{1, 100, c09Chunk, c09Chunk + 1, bs64, r.Range(0, 2*bs64)}[r.Intn(6)]
			if l > size-cur {
				l = size - cur
			}
			var next int
			switch r.Intn(4) {
			case 0:
				next = r.Intn(size/c09Chunk+1) * c09Chunk // a chunk start
			case 1:
				next = r.Intn(size/bs64+1)*bs64 + r.Range(-1, 1) // around a block start
			default:
				next = r.Intn(size + 1)
			}
			if next < 0 || next > size {
				next = 0
			}
			cs = append(cs, c09Ctrl{Add: bytesOf(l), Copy: r.Bytes(r.Range(0, 9)), Seek: int64(next - cur - l)})
			cur = next
		}
	}
	return cs, align + "/" + shape
}

// c09RunFrom: the series of a new file that is the old one from byte start on, unchanged
func c09RunFrom(size, start, entries int) c09Step {
	cs := []c09Ctrl{{Add: make([]byte, size-start)}}
	if start > 0 {
		cs = []c09Ctrl{{Seek: int64(start)}, cs[0]}
	}
	return c09Step{Kind: "bspatch", Ctrls: cs, Entries: entries, Shape: "corpus"}
}

func c09CtrlReader(cs []c09Ctrl) bsdiff.ReadMessageFunc {
	i := 0
	return func(m proto.Message) error {
		c := m.(*bsdiff.Control)
		c.Reset()
		if i >= len(cs) {
			c.Eof = true
			return nil
		}
		c.Add = append([]byte(nil), cs[i].Add...)
		c.Copy = append([]byte(nil), cs[i].Copy...)
		c.Seek = cs[i].Seek
		i++
		return nil
	}
}

// c09LoadRecorder sits between the lrufile and the safekeeper reader and notes every access.
type c09LoadRecorder struct {
	rs          io.ReadSeeker
	signed      []byte // what the file held when it was signed
	unsigned    string // first load that returned something else than signed content
	pos         int64  // -1: not known (after a seek relative to the end)
	loads       []int64
	ok          bool
	loaded      int64
	unmodelable string
}

func (lr *c09LoadRecorder) Seek(off int64, whence int) (int64, error) {
	p, err := lr.rs.Seek(off, whence)
	switch {
	case err != nil:
		lr.ok = false
		lr.pos = -1
	case whence == io.SeekStart:
		lr.pos = off
	default:
		if !(whence == io.SeekEnd && off == 0 && len(lr.loads) == 0) && lr.unmodelable == "" {
			lr.unmodelable = fmt.Sprintf("seek(%d, whence %d) after %d loads", off, whence, len(lr.loads))
		}
		lr.pos = -1
	}
	return p, err
}

func (lr *c09LoadRecorder) Read(p []byte) (int, error) {
	if (lr.pos < 0 || lr.pos%c09Chunk != 0 || len(p) != c09Chunk) && lr.unmodelable == "" {
		lr.unmodelable = fmt.Sprintf("read of %d bytes at %d", len(p), lr.pos)
	}
	if lr.pos >= 0 {
		lr.loads = append(lr.loads, lr.pos/c09Chunk)
	}
	n, err := lr.rs.Read(p)
	lr.loaded += int64(n)
	if err != nil && err != io.EOF {
		lr.ok = false
	}
	if at := lr.pos; at >= 0 && n > 0 && lr.unsigned == "" {
		if at+int64(n) > int64(len(lr.signed)) || !bytes.Equal(p[:n], lr.signed[at:at+int64(n)]) {
			lr.unsigned = fmt.Sprintf("the read cache was given %d bytes at offset %d that are not the signed content", n, at)
		}
	}
	lr.pos = -1 // the lrufile seeks before every load
	return n, err
}

type c09File struct {
	Signed, Actual []byte
	Path           string // path in the signed container ("" = f<index>)
}

// ideal result of a step on the signed content
func c09Ideal(signed []byte, s c09Step) []byte {
	bs := int64(lib.BS)
	size := int64(len(signed))
	switch s.Kind {
	case "copy":
		return signed
	case "bspatch":
		return c09BspatchIdeal(signed, s.Ctrls)
	case "range":
		last := s.Blk + s.Span - 1
		lastSize := bs
		if bs*(last+1) > size {
			lastSize = size % bs
		}
		n := (s.Span-1)*bs + lastSize
		return signed[s.Blk*bs : s.Blk*bs+n]
	default:
		var out []byte
		for _, ci := range s.Cis {
			lo, hi := ci*c09Chunk, (ci+1)*c09Chunk
			if lo > size {
				lo = size
			}
			if hi > size {
				hi = size
			}
			out = append(out, signed[lo:hi]...)
		}
		return out
	}
}

func c09FirstDiff(a, b []byte) int {
	for i := 0; i < len(a) && i < len(b); i++ {
		if a[i] != b[i] {
			return i
		}
	}
	return min(len(a), len(b))
}

type plainWriter struct{ w io.Writer }

func (p plainWriter) Write(b []byte) (int, error) { return p.w.Write(b) }

// c09Drive runs the steps against a safekeeper over the in-memory files.
func (c *Ctx) c09Drive(files []c09File, steps []c09Step, tag string) (oracle string, err error) {
	var signed [][]byte
	for _, f := range files {
		signed = append(signed, f.Signed)
	}
	sp := lib.NewMemPool(signed)
	for i, f := range files {
		if f.Path != "" {
			sp.Container.Files[i].Path = f.Path
		}
	}
	hashes, err := pwr.ComputeSignature(context.Background(), sp.Container, sp, lib.Quiet)
	if err != nil {
		return "", err
	}
	sig, err := rdSigBytes(&pwr.SignatureInfo{Container: sp.Container, Hashes: hashes})
	if err != nil {
		return "", err
	}
	// the old-build pool as the patcher sees it: an fspool over the container of the signed
	// build (sizes as signed) serving whatever the files hold now
	poolDir := filepath.Join(c.Tmp, "c09-skpool-"+tag)
	defer removeAll(poolDir)
	for i, f := range files {
		if err := c09WriteFile(poolDir, sp.Container.Files[i].Path, f.Actual); err != nil {
			return "", err
		}
	}
	ap := fspool.New(sp.Container, poolDir)
	defer ap.Close()
	sk, err := c09Safekeeper(ap, sig)
	if err != nil {
		return "", err
	}
	// one patch context for all the bsdiff series of a case, as the patcher has one per patch:
	// the read cache is Reset, not cleared, between files
	var pc *bsdiff.PatchContext
	pcEntries := -1
	for si := range steps {
		s := &steps[si]
		var served []byte
		var cls, msg string
		switch s.Kind {
		case "bspatch":
			var buf bytes.Buffer
			rec := &c09LoadRecorder{ok: true, pos: -1, signed: files[s.File].Signed}
			cls, msg = lib.Guard(func() error {
				if pc == nil || pcEntries != s.Entries {
					pc, pcEntries = bsdiff.NewPatchContext(), s.Entries
					if s.Entries > 0 { // same 32 KiB chunks, fewer of them: loads, evictions and re-loads
						if err := pc.VerifSetLRU(c09Chunk, s.Entries); err != nil {
							return err
						}
					}
				}
				rs, err := sk.GetReadSeeker(int64(s.File))
				if err != nil {
					rec.ok = false
					return err
				}
				rec.rs = rs
				return pc.Patch(rec, plainWriter{&buf}, int64(len(c09BspatchIdeal(files[s.File].Signed, s.Ctrls))), c09CtrlReader(s.Ctrls))
			})
			served = buf.Bytes()
			s.Loads, s.LoadsOK, s.Loaded, s.Unmodelable, s.Unsigned = rec.loads, rec.ok, rec.loaded, rec.unmodelable, rec.unsigned
			if cls == "panic" {
				pc = nil
			}
		case "copy":
			dir := filepath.Join(c.Tmp, "c09-skread-"+tag)
			outC := &tlc.Container{Files: []*tlc.File{{Path: "out.bin", Mode: 0o644, Size: int64(len(files[s.File].Signed))}}}
			cls, msg = lib.Guard(func() error {
				b, err := bowl.NewFreshBowl(bowl.FreshBowlParams{TargetContainer: sp.Container, SourceContainer: outC, TargetPool: sk, OutputFolder: dir})
				if err != nil {
					return err
				}
				defer b.Close()
				if err := b.Transpose(bowl.Transposition{TargetIndex: int64(s.File), SourceIndex: 0}); err != nil {
					return err
				}
				return b.Commit()
			})
			served, _ = os.ReadFile(filepath.Join(dir, "out.bin"))
			removeAll(dir)
		case "range":
			var buf bytes.Buffer
			cls, msg = lib.Guard(func() error {
				return wsync.NewContext(lib.BS).ApplySingle(plainWriter{&buf}, sk, wsync.Operation{Type: wsync.OpBlockRange, FileIndex: int64(s.File), BlockIndex: s.Blk, BlockSpan: s.Span})
			})
			served = buf.Bytes()
		default: // lrufile: Reset seeks to the end, getChunk seeks to the chunk and reads it with one Read, EOF tolerated
			cls, msg = lib.Guard(func() error {
				rs, err := sk.GetReadSeeker(int64(s.File))
				if err != nil {
					return err
				}
				if _, err := rs.Seek(0, io.SeekEnd); err != nil {
					return err
				}
				buf := make([]byte, c09Chunk)
				for _, ci := range s.Cis {
					if _, err := rs.Seek(ci*c09Chunk, io.SeekStart); err != nil {
						return err
					}
					n, err := rs.Read(buf)
					served = append(served, buf[:n]...)
					if err != nil && err != io.EOF {
						return err
					}
				}
				return nil
			})
		}
		s.Class, s.Bytes = cls, int64(len(served))
		if oracle != "" {
			continue
		}
		ideal := c09Ideal(files[s.File].Signed, *s)
		pristine := bytes.Equal(files[s.File].Signed, files[s.File].Actual)
		switch {
		case cls == "panic":
			oracle = fmt.Sprintf("step %d: panic: %s", si, msg)
		case s.Kind == "bspatch":
			// what the series writes before it fails is not served content (the bytes of a failed read
			// are written without the add bytes, and the file is discarded): judge the bytes the
			// safekeeper handed to the read cache, and the output of a series that completed
			switch {
			case s.Unsigned != "":
				oracle = fmt.Sprintf("step %d (bspatch): %s", si, s.Unsigned)
			case cls == "ok" && !bytes.Equal(served, ideal):
				oracle = fmt.Sprintf("step %d (bspatch): completed without error but the output (%d bytes) is not what the series yields on the signed content (%d bytes, first difference at %d)", si, len(served), len(ideal), c09FirstDiff(served, ideal))
			case cls != "ok" && pristine:
				oracle = fmt.Sprintf("step %d (bspatch): undamaged file rejected: %s", si, msg)
			}
		case !bytes.HasPrefix(ideal, served):
			oracle = fmt.Sprintf("step %d (%s): served bytes are not a prefix of the signed content (served %d bytes, class %s)", si, s.Kind, len(served), cls)
		case cls == "ok" && len(served) != len(ideal):
			oracle = fmt.Sprintf("step %d (%s): completed without error after %d of the %d signed bytes asked for", si, s.Kind, len(served), len(ideal))
		case cls != "ok" && pristine:
			oracle = fmt.Sprintf("step %d (%s): undamaged file rejected: %s", si, s.Kind, msg)
		}
	}
	return oracle, nil
}

// c09SigFail: when the signature cannot be loaded (source cannot be opened, or is not a
// signature) nothing may be served: every consumer must fail.
func (c *Ctx) c09SigFail(r *lib.Rng) error {
	data := structuredContent(r, lib.BS+100)
	for _, mode := range []string{"open-error", "garbage", "truncated-signature"} {
		sp := lib.NewMemPool([][]byte{data})
		hashes, err := pwr.ComputeSignature(context.Background(), sp.Container, sp, lib.Quiet)
		if err != nil {
			return err
		}
		sig, err := rdSigBytes(&pwr.SignatureInfo{Container: sp.Container, Hashes: hashes})
		if err != nil {
			return err
		}
		opens := 0
		sk, err := pwr.NewSafeKeeper(pwr.SafeKeeperParams{Inner: lib.NewMemPool([][]byte{data}), Open: func() (savior.SeekSource, error) {
			opens++
			var b []byte
			switch mode {
			case "open-error":
				return nil, fmt.Errorf("cannot open the signature")
			case "garbage":
				b = r.Bytes(200)
			default:
				b = sig[:len(sig)-7]
			}
			src := seeksource.FromBytes(b)
			if _, err := src.Resume(nil); err != nil {
				return nil, err
			}
			return src, nil
		}})
		if err != nil {
			return err
		}
		oracle := ""
		var obs []string
		for i := 0; i < 3; i++ {
			var buf bytes.Buffer
			cls, msg := lib.Guard(func() error {
				rd, err := sk.GetReader(0)
				if err != nil {
					return err
				}
				_, err = io.CopyBuffer(plainWriter{&buf}, rd, make([]byte, c09Chunk))
				return err
			})
			obs = append(obs, fmt.Sprintf("%s/%d", cls, buf.Len()))
			if cls != "error" && oracle == "" {
				oracle = fmt.Sprintf("signature unusable (%s) but the copy ended with %s after %d bytes: %s", mode, cls, buf.Len(), msg)
			}
		}
		c.Out.Emit(&lib.Case{Class: "sigfail/" + mode, Nontrivial: true, Input: map[string]interface{}{"mode": mode, "size": len(data)},
			Obs: map[string]interface{}{"copies": obs, "opens": opens}, Oracle: oracle})
	}
	return nil
}

var c09Sizes = []int{0, 1, 100, c09Chunk, c09Chunk + 1, bs64 - 1, bs64, bs64 + 1, bs64 + c09Chunk, 2*bs64 - 1, 2 * bs64, 2*bs64 + 5, 3 * bs64, 3*bs64 + c09Chunk + 7}

func c09GenFile(r *lib.Rng) (c09File, string) {
	size := c09Sizes[r.Intn(len(c09Sizes))]
	signed := structuredContent(r, size)
	if r.Chance(1, 4) {
		return c09File{Signed: signed, Actual: signed}, "pristine"
	}
	ds := c09Damages(r, "f", size, &rdUsage{Whole: true})
	var cand []c09Damage
	for _, d := range ds {
		if d.Kind != "delete" {
			cand = append(cand, d)
		}
	}
	d := cand[r.Intn(len(cand))]
	var actual []byte
	if d.Kind == "extend" { // a structured extension keeps the run-length encoding short
		fill := byte(r.Intn(256))
		if r.Chance(1, 3) && size > 0 {
			fill = signed[size-1] // more of the same
		}
		actual = append(append([]byte(nil), signed...), bytes.Repeat([]byte{fill}, d.Arg)...)
		if d.Arg > 2 && r.Bool() {
			actual[len(actual)-1] ^= 0x55
		}
	} else {
		actual, _ = d.apply(r, signed)
	}
	return c09File{Signed: signed, Actual: actual}, d.Class
}

func c09GenSteps(r *lib.Rng, files []c09File) []c09Step {
	var steps []c09Step
	n := r.Range(1, 4)
	// the read cache of the bsdiff patcher: the real one (1024 chunks of 32 KiB) or a few chunks
	entries := []int{0, 0, 1, 2, 3, 5}[r.Intn(6)]
	for i := 0; i < n; i++ {
		fi := r.Intn(len(files))
		size := len(files[fi].Signed)
		nb := int64((size + lib.BS - 1) / lib.BS)
		switch k := r.Intn(5); {
		case k >= 3 && size > 0: // a bsdiff series read through the real lrufile
			cs, shape := c09GenCtrls(r, size)
			steps = append(steps, c09Step{File: fi, Kind: "bspatch", Ctrls: cs, Entries: entries, Shape: shape})
		case k == 0 || k >= 3 || (k == 1 && nb == 0):
			steps = append(steps, c09Step{File: fi, Kind: "copy"})
		case k == 1:
			b := int64(r.Intn(int(nb)))
			span := int64(r.Range(1, int(nb-b)))
			if r.Bool() {
				span = nb - b
			}
			steps = append(steps, c09Step{File: fi, Kind: "range", Blk: b, Span: span})
		default:
			nc := int64((size+c09Chunk-1)/c09Chunk) + 3
			var cis []int64
			m := r.Range(1, 5)
			for j := 0; j < m; j++ {
				cis = append(cis, int64(r.Intn(int(nc))))
			}
			if r.Bool() { // sequential from the start, up to and past the end
				cis = nil
				for j := int64(0); j < nc-1; j++ {
					cis = append(cis, j)
				}
			}
			steps = append(steps, c09Step{File: fi, Kind: "chunks", Cis: cis})
		}
	}
	return steps
}

func (c *Ctx) c09EmitSkread(files []c09File, steps []c09Step, class string, tag string) error {
	oracle, err := c.c09Drive(files, steps, tag)
	if err != nil {
		return err
	}
	var fs, ss, os_ []string
	var inFiles []map[string]interface{}
	damaged := false
	for _, f := range files {
		fs = append(fs, "("+lib.ToRle(f.Signed).Coq()+", "+lib.ToRle(f.Actual).Coq()+")")
		inf := map[string]interface{}{"signed": lib.ToRle(f.Signed).String(), "actual": lib.ToRle(f.Actual).String()}
		if f.Path != "" {
			inf["path"] = f.Path
		}
		inFiles = append(inFiles, inf)
		damaged = damaged || !bytes.Equal(f.Signed, f.Actual)
	}
	var inSteps []string
	var obs []string
	group := "skread"
	for _, s := range steps {
		ss = append(ss, s.Coq())
		os_ = append(os_, s.CoqObs())
		inSteps = append(inSteps, s.String())
		if s.Kind == "bspatch" {
			obs = append(obs, fmt.Sprintf("%s/%d loads %v ok=%v %d bytes", s.Class, s.Bytes, s.Loads, s.LoadsOK, s.Loaded))
			if s.Unmodelable != "" { // the cache did something else than loading whole chunks: oracle only
				group = ""
				obs = append(obs, "not expressible as chunk loads: "+s.Unmodelable)
			}
		} else {
			obs = append(obs, fmt.Sprintf("%s/%d", s.Class, s.Bytes))
		}
	}
	cs := &lib.Case{Group: group, Class: "skread/" + class, Nontrivial: damaged && len(steps) > 0,
		Input: map[string]interface{}{"files": inFiles, "steps": inSteps}, Obs: obs, Oracle: oracle}
	if group != "" {
		cs.Coq = fmt.Sprintf("($ID%%N, %s, %s, %s)", lib.CoqList(fs), lib.CoqList(ss), lib.CoqList(os_))
	}
	c.Out.Emit(cs)
	return nil
}

func runC09(c *Ctx) error {
	r := c.Rng.Fork()
	bs := lib.BS
	// ---- corpus: the reader-level shapes of defects #4-#6, then their end-to-end forms
	rc := lib.NewRng(99)
	exact := structuredContent(rc, bs)
	small := structuredContent(rc, 100)
	tail := structuredContent(rc, bs+34464)
	ext := append(append([]byte(nil), small...), 7, 7, 7, 7, 7)
	long := structuredContent(rc, 3*bs+1000)
	flipAt := func(b []byte, at int) []byte {
		out := append([]byte(nil), b...)
		out[at] ^= 0x10
		return out
	}
	onFile := func(i int, s c09Step) c09Step { s.File = i; return s }
	corpus := []struct {
		name  string
		files []c09File
		steps []c09Step
	}{
		{"corpus/pristine-k*bs-copy", []c09File{{Signed: exact, Actual: exact}}, []c09Step{{Kind: "copy"}}},
		{"corpus/pristine-empty-copy", []c09File{{Signed: nil, Actual: nil}}, []c09Step{{Kind: "copy"}, {Kind: "chunks", Cis: []int64{0, 1}}}},
		{"corpus/extended-inside-last-block-copy", []c09File{{Signed: small, Actual: ext}}, []c09Step{{Kind: "copy"}}},
		{"corpus/emptied-copy", []c09File{{Signed: small, Actual: nil}}, []c09Step{{Kind: "copy"}}},
		{"corpus/emptied-range", []c09File{{Signed: small, Actual: nil}}, []c09Step{{Kind: "range", Blk: 0, Span: 1}}},
		{"corpus/cut-at-boundary-copy", []c09File{{Signed: tail, Actual: tail[:bs]}}, []c09Step{{Kind: "copy"}}},
		{"corpus/cut-at-boundary-range", []c09File{{Signed: tail, Actual: tail[:bs]}}, []c09Step{{Kind: "range", Blk: 0, Span: 2}}},
		{"corpus/cut-at-boundary-chunks", []c09File{{Signed: tail, Actual: tail[:bs]}}, []c09Step{{Kind: "chunks", Cis: []int64{1, 2, 3}}}},
		{"corpus/same-file-copied-twice", []c09File{{Signed: tail, Actual: tail}}, []c09Step{{Kind: "copy"}, {Kind: "copy"}, {Kind: "range", Blk: 1, Span: 1}, {Kind: "copy"}}},
		// a bsdiff series whose 32 KiB reads straddle the chunks of the read cache (the new file lost
		// its first 100 bytes): damage in a block that is only ever entered in the middle of a read
		{"corpus/bspatch-shifted-run-pristine", []c09File{{Signed: long, Actual: long}}, []c09Step{c09RunFrom(len(long), 100, 0)}},
		{"corpus/bspatch-shifted-run-flip-inner-block", []c09File{{Signed: long, Actual: flipAt(long, bs+40000)}}, []c09Step{c09RunFrom(len(long), 100, 0)}},
		{"corpus/bspatch-shifted-run-flip-last-block", []c09File{{Signed: long, Actual: flipAt(long, len(long)-1)}}, []c09Step{c09RunFrom(len(long), c09Chunk+1, 0)}},
		{"corpus/bspatch-shifted-run-cut-at-boundary", []c09File{{Signed: long, Actual: long[:2*bs]}}, []c09Step{c09RunFrom(len(long), 100, 0)}},
		{"corpus/bspatch-aligned-run-flip-inner-block", []c09File{{Signed: long, Actual: flipAt(long, 2*bs+10)}}, []c09Step{c09RunFrom(len(long), 0, 0)}},
		{"corpus/bspatch-small-cache-flip-inner-block", []c09File{{Signed: long, Actual: flipAt(long, 2*bs+10)}, {Signed: tail, Actual: tail}}, []c09Step{onFile(1, c09RunFrom(len(tail), 7, 2)), c09RunFrom(len(long), 100, 2), {Kind: "copy", File: 1}}},
	}
	// two signed files whose paths differ only in letter case / only in their directory: each is
	// checked against its own hashes (nothing damaged; then a flip in one of them only)
	for _, pp := range [][2]string{{"assets/Data.bin", "assets/data.bin"}, {"a/data.bin", "b/data.bin"}} {
		if !c09ProbeNames(c.Tmp, pp[:]) {
			continue
		}
		what := "case-only"
		if pp[0][0] != pp[1][0] {
			what = "same-basename"
		}
		two := func(a0, a1 []byte) []c09File {
			return []c09File{{Signed: tail, Actual: a0, Path: pp[0]}, {Signed: long, Actual: a1, Path: pp[1]}}
		}
		all := []c09Step{{Kind: "copy"}, {Kind: "copy", File: 1}, {Kind: "range", Blk: 1, Span: 1}, onFile(1, c09RunFrom(len(long), 100, 0)), {Kind: "chunks", Cis: []int64{0, 1, 2}}}
		corpus = append(corpus, []struct {
			name  string
			files []c09File
			steps []c09Step
		}{
			{"corpus/paths-" + what + "-pristine", two(tail, long), all},
			{"corpus/paths-" + what + "-flip-first", two(flipAt(tail, bs+5), long), []c09Step{{Kind: "copy", File: 1}, {Kind: "copy"}, {Kind: "range", File: 1, Blk: 1, Span: 1}}},
			{"corpus/paths-" + what + "-flip-second", two(tail, flipAt(long, bs+5)), []c09Step{{Kind: "copy"}, {Kind: "copy", File: 1}, {Kind: "range", Blk: 1, Span: 1}}},
		}...)
	}
	for i, cc := range corpus {
		if err := c.c09EmitSkread(cc.files, cc.steps, cc.name, fmt.Sprintf("corpus%d", i)); err != nil {
			return err
		}
	}
	for i, cc := range c09Corpus() {
		if err := c.c09RunPair(rc.Fork(), 1000+i, cc.pair, cc.damages, 0); err != nil {
			return err
		}
	}
	if err := c.c09RunPair(rc.Fork(), 1100, c.c09AllNamesPair(), nil, 0); err != nil {
		return err
	}
	if err := c.c09SigFail(rc.Fork()); err != nil {
		return err
	}
	// ---- generated: reader level
	n := c.N(200, 1400)
	if c.Tier == "search" { // the search after a correspondence break: a second, larger quick run
		n = 400
	}
	for i := 0; i < n; i++ {
		cr := r.Fork()
		nf := cr.Range(1, 3)
		var files []c09File
		var classes []string
		for j := 0; j < nf; j++ {
			f, cl := c09GenFile(cr)
			files = append(files, f)
			classes = append(classes, cl)
		}
		steps := c09GenSteps(cr, files)
		kind := steps[0].Kind
		if kind == "bspatch" {
			kind += "/" + steps[0].Shape
		}
		if nf >= 2 && cr.Chance(1, 3) { // paths that a coarser key than the exact path would confuse
			if fam, names := c.c09DrawNames(cr, nf); fam != "" {
				for j := range files {
					files[j].Path = names[j]
				}
				kind += "/paths=" + fam
			}
		}
		if err := c.c09EmitSkread(files, steps, classes[steps[0].File]+"/"+kind, fmt.Sprint(i)); err != nil {
			return err
		}
	}
	// ---- generated: end to end
	np := c.N(16, 120)
	if c.Tier == "search" {
		np = 24
	}
	per := 14
	if c.Thorough() {
		per = 30
	}
	for i := 0; i < np; i++ {
		cr := r.Fork()
		var pr c09Pair
		var fixed []c09Damage
		n := per
		switch i % 3 {
		case 0:
			fam, names := "", []string(nil)
			if i%6 == 3 { // the same relations over paths that differ only by case, directory, a blank ...
				fam, names = c.c09DrawNames(cr, 4)
			}
			if fam != "" {
				pr = c09NamedPair(cr, fam, names)
			} else {
				pr = c09Targeted(cr)
			}
		case 1:
			old, nw, rel := lib.GenPair(cr, lib.PairOpts{MaxFiles: 4, MaxSize: 4 * bs})
			pr = c09Pair{name: "genpair", old: old, nw: nw, rel: rel}
		default:
			pr, fixed = c09SeriesPair(cr)
			n = per / 2
		}
		if err := c.c09RunPair(cr, i, pr, fixed, n); err != nil {
			return err
		}
	}
	return nil
}
