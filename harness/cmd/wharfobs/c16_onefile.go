package main

// C16, damage confined to ONE file of the build (every other entry intact), for every size class
// of file and every way a regular file can stop matching its signed blocks.
//
// The second sentence of the property ("if fail-fast validation returns no error, the directory
// really matched the signature", for all builds and damage patterns) is only tested by a tree whose
// ONLY defect is the one under test: when every file is damaged at once (files-short, files-long,
// files-flip ...) any one of the wounds makes the guardian fail, and a validator that overlooks one
// class of defect (a zero-length file that has content, a file cut exactly at a block boundary, a
// block whose weak hash still matches ...) still answers correctly.
//
// Damage name: one:<file index in container order>:<kind>[:<arg>]
//   cut:<len>    the file keeps its first len bytes (len < size): 0, 1, size-1, every block boundary
//                k*64 KiB below the size, one byte before the first / after the last boundary
//   grow:<n>     n extra bytes at the end: 1, up to the next block boundary, one block, one block + 1
//                (for a zero-length file of the build: it has 1 / 100 / 64 KiB / 64 KiB + 1 bytes)
//   flip:<off>   one byte changed at off: first / last byte of the file, first byte of the first /
//                middle / last block, last byte of the first block
//   weak:<off>   three consecutive bytes changed by +1,-2,+1: the block's weak (rolling) hash is
//                unchanged, only the strong hash tells
//   replace      same size, every byte different
//   missing | asdir | aslink   (aslink: a symlink to a sibling holding the signed content)
// Two class-wide variants for the random stream: empties-filled (every zero-length file of the
// build has content, nothing else differs), cut-at-boundary (every file longer than a block is cut
// at its last block boundary, nothing else differs).

import (
	"fmt"
	"path"
	"strconv"
	"strings"

	"verif/harness/lib"
)

type c16One struct {
	idx  int
	kind string
	arg  int
}

func c16ParseOne(d string) (c16One, bool) {
	if !strings.HasPrefix(d, "one:") {
		return c16One{}, false
	}
	p := strings.Split(d, ":")
	if len(p) < 3 {
		return c16One{}, false
	}
	o := c16One{kind: p[2]}
	o.idx, _ = strconv.Atoi(p[1])
	if len(p) > 3 {
		o.arg, _ = strconv.Atoi(p[3])
	}
	return o, true
}

// c16Confined: the damage leaves every file but one (or but one class of files) intact.
func c16Confined(d string) bool {
	return strings.HasPrefix(d, "one:") || d == "empties-filled" || d == "cut-at-boundary"
}

// c16SizesShape: one file per size class around the 64 KiB block size; zero-length files first,
// in the middle, last, and inside a directory. Bytes are in [2,253] so that "weak" never wraps.
func c16SizesShape(b *lib.Build) {
	bs := lib.BS
	files := []struct {
		p  string
		sz int
	}{
		{"a-empty", 0}, {"b01", 1}, {"b02", bs - 1}, {"b03", bs}, {"b04", bs + 1}, {"b05", 2 * bs}, {"b06", 2*bs + bs/2},
		{"d/marker", 0}, {"d/x.bin", 100}, {"m-empty", 0}, {"n07", 3*bs + 17}, {"n08", 5 * bs}, {"n09", 100}, {"z-empty", 0},
	}
	b.Entries = append(b.Entries, lib.Entry{Path: "d", Kind: "dir"})
	for i, f := range files {
		data := make([]byte, f.sz)
		x := uint32(0x9e3779b9) * uint32(i+1)
		for j := range data {
			x = x*1664525 + 1013904223
			data[j] = byte(2 + (x>>24)%252)
		}
		b.Entries = append(b.Entries, lib.Entry{Path: f.p, Kind: "file", Data: data})
	}
}

// c16OneDamages lists the one-file damages that apply to a file of the given size.
func c16OneDamages(size int) []string {
	bs := lib.BS
	var out []string
	seen := map[string]bool{}
	add := func(kind string, arg int) {
		s := fmt.Sprintf("%s:%d", kind, arg)
		if !seen[s] {
			seen[s] = true
			out = append(out, s)
		}
	}
	nb := (size + bs - 1) / bs
	// cut
	cuts := []int{0, 1, size - 1}
	for k := 1; k*bs < size; k++ {
		cuts = append(cuts, k*bs)
	}
	if size > bs {
		cuts = append(cuts, bs-1, ((size-1)/bs)*bs+1)
	}
	for _, l := range cuts {
		if l >= 0 && l < size {
			add("cut", l)
		}
	}
	// grow
	if size == 0 {
		add("grow", 100)
	}
	add("grow", 1)
	if size%bs != 0 {
		add("grow", bs-size%bs)
	}
	add("grow", bs)
	add("grow", bs+1)
	// flip
	if size > 0 {
		add("flip", 0)
		add("flip", size-1)
		if nb > 1 {
			add("flip", bs-1)
			add("flip", (nb/2)*bs)
			add("flip", (nb-1)*bs)
		}
	}
	// weak-hash preserving change, in the first and in the last block
	if size >= 3 {
		add("weak", 0)
		if last := (nb - 1) * bs; nb > 1 && size-last >= 3 {
			add("weak", last)
		}
	}
	if size > 0 {
		out = append(out, "replace")
	}
	return append(out, "missing", "asdir", "aslink")
}

// c16ApplyOne damages the file at path p of tree t.
func c16ApplyOne(t *lib.Build, p string, o c16One) {
	e := t.Get(p)
	if e == nil || e.Kind != "file" {
		return
	}
	switch o.kind {
	case "cut":
		if o.arg >= 0 && o.arg < len(e.Data) {
			e.Data = e.Data[:o.arg]
		}
	case "grow":
		for i := 0; i < o.arg; i++ {
			e.Data = append(e.Data, byte(3+i%200))
		}
	case "flip":
		if o.arg >= 0 && o.arg < len(e.Data) {
			e.Data[o.arg] ^= 0x55
		}
	case "weak":
		if o.arg >= 0 && o.arg+2 < len(e.Data) {
			d := e.Data[o.arg:]
			if d[0] < 255 && d[1] >= 2 && d[2] < 255 {
				d[0]++
				d[1] -= 2
				d[2]++
			} else {
				d[0] ^= 0x55
			}
		}
	case "replace":
		for i := range e.Data {
			e.Data[i] ^= 0x55
		}
	case "missing":
		t.Remove(p)
	case "asdir":
		t.Remove(p)
		t.Entries = append(t.Entries, lib.Entry{Path: p, Kind: "dir"})
	case "aslink":
		data := e.Data
		t.Remove(p)
		t.Entries = append(t.Entries,
			lib.Entry{Path: p + ".real", Kind: "file", Data: data},
			lib.Entry{Path: p, Kind: "link", Dest: path.Base(p) + ".real"})
	}
}

// c16ApplyClass: the class-wide confined damages.
func c16ApplyClass(t *lib.Build, damage string) {
	for i := range t.Entries {
		e := &t.Entries[i]
		if e.Kind != "file" {
			continue
		}
		switch damage {
		case "empties-filled":
			if len(e.Data) == 0 {
				e.Data = make([]byte, []int{1, 100, lib.BS + 1, lib.BS}[i%4])
			}
		case "cut-at-boundary":
			if len(e.Data) > lib.BS {
				e.Data = e.Data[:((len(e.Data)-1)/lib.BS)*lib.BS]
			}
		}
	}
}

// c16OneModel: what doOne does on the damaged file, as a model file (blocks = signed 64 KiB blocks
// of the file, size = its signed size). Healthy runs are capped at 2 markers.
func c16OneModel(blocks int, size int64, o c16One) string {
	cap2 := func(n int) int {
		if n > 2 {
			return 2
		}
		if n < 0 {
			return 0
		}
		return n
	}
	bs := int64(lib.BS)
	rep := func(s string, n int) []string {
		var l []string
		for i := 0; i < n; i++ {
			l = append(l, s)
		}
		return l
	}
	switch o.kind {
	case "missing", "asdir", "aslink":
		return "fwhole"
	case "cut": // the full blocks kept are healthy; a partial last block does not hash as signed; size wound
		return fmt.Sprintf("(fdata %d %s FMShort)", cap2(int(int64(o.arg)/bs)), lib.CoqBool(int64(o.arg)%bs != 0))
	case "grow": // the signed full blocks are healthy, what follows is not; size wound
		return fmt.Sprintf("(fdata %d true FMShort)", cap2(int(size/bs)))
	case "flip", "weak":
		j := int(int64(o.arg) / bs)
		if j == blocks-1 && size%bs != 0 { // the short last block is judged when the writer closes
			return fmt.Sprintf("(fdata %d true FMNone)", cap2(j))
		}
		ms := append(rep("FHealthy", cap2(j)), "FBad false false")
		ms = append(ms, rep("FHealthy", cap2(blocks-1-j))...)
		return fmt.Sprintf("(FData %s FMNone [])", lib.CoqList(ms))
	case "replace":
		ms := append([]string{"FBad false false"}, rep("FBad true false", cap2(blocks-1))...)
		return fmt.Sprintf("(FData %s FMNone [])", lib.CoqList(ms))
	}
	return "(fdata 0 false FMNone)"
}

// c16OneClass labels a one-file damage for the class histogram: size class of the file, where it
// is in the validation order, what happened to it.
func c16OneClass(o c16One, size, idx, nFiles int) string {
	bs := lib.BS
	var sc string
	switch {
	case size == 0:
		sc = "0"
	case size < bs:
		sc = "<bs"
	case size == bs:
		sc = "bs"
	case size%bs == 0:
		sc = "k*bs"
	case size < 2*bs:
		sc = "bs+r"
	default:
		sc = "k*bs+r"
	}
	pos := "mid"
	if idx == 0 {
		pos = "first"
	} else if idx == nFiles-1 {
		pos = "last"
	}
	k := o.kind
	switch o.kind {
	case "cut":
		switch {
		case o.arg == 0:
			k = "cut@0"
		case o.arg%bs == 0:
			k = "cut@boundary"
		default:
			k = "cut@inside"
		}
	case "grow":
		if (size+o.arg)%bs == 0 {
			k = "grow-to-boundary"
		}
	}
	return fmt.Sprintf("one(size %s,%s):%s", sc, pos, k)
}
