package main

// C19 — archive then extract gives the same tree for any concurrency and resume point.
//
// Groups (each case carries the archive's entry list in archive order, see Exec/C19.v):
//   "extract" : compress (archiver.CompressZip | containerarchiver.CompressZip | archiver.CompressTar)
//               + uninterrupted extraction with a worker count; observables: archive order, error
//               class, extracted tree, ExtractResult counts, number of OnEntryDone callbacks
//   "resume"  : zip extraction in a child process that exits inside OnEntryDone after n
//               callbacks, then a restart with the same resume file; observables: resume file and
//               tree at the kill, final tree and counts
// Oracle-only classes "race/..." : the same pipelines in a child built with the race detector.
// Classes ".../cpusN-procsM" of both groups: the extraction runs in a child process restricted
// to N CPUs (affinity) and GOMAXPROCS M (c19Env, c19BudgetCases) - what Concurrency -1 resolves
// to, and the schedules, depend on that budget.

import (
	stdtar "archive/tar"
	stdzip "archive/zip"
	"bytes"
	"encoding/json"
	"fmt"
	"io"
	"os"
	"path/filepath"
	"regexp"
	"runtime"
	"sort"
	"strconv"
	"strings"
	"sync"
	"sync/atomic"
	"time"

	"github.com/itchio/headway/state"
	"github.com/itchio/lake/pools/fspool"
	"github.com/itchio/wharf/archiver"
	"github.com/itchio/wharf/archiver/containerarchiver"

	"verif/harness/lib"
)

func init() {
	register("C19", runC19)
	register("C19child", runC19Child)
	register("C19race", runC19Race)
}

// ---------------------------------------------------------------- trees

var c19Classes = []string{"mixed", "big+small", "emptyish", "links", "longnames", "wide"}

func c19Name(r *lib.Rng) string {
	return []string{"a", "b", "c", "d", "sub", "x1", "data", "z", "a-b", "a.b", "A", ".hid", "with space", "café", "0", "~t"}[r.Intn(16)]
}

func c19Dest(r *lib.Rng, b *lib.Build) string {
	switch r.Intn(7) {
	case 0:
		return "nowhere" // dangling
	case 1:
		return "../outside/" + c19Name(r) // dangling, leaves the tree
	case 2:
		return "/absolute/" + c19Name(r)
	case 3:
		return strings.Repeat("d/", 70) + "long-destination" // > 100 bytes (tar: PAX / GNU long link)
	default:
		if len(b.Entries) > 0 { // an existing file, dir or link (relative to the tree root: may or may not resolve)
			return b.Entries[r.Intn(len(b.Entries))].Path
		}
		return "self"
	}
}

func c19SmallData(r *lib.Rng) []byte {
	switch r.Intn(6) {
	case 0:
		return nil
	case 1:
		return []byte{byte(r.Intn(256))}
	case 2:
		return lib.GenContent(r, lib.BS+r.Range(-1, 1))
	default:
		return r.Bytes(r.Range(1, 700))
	}
}

// compressible but not trivial content: decompressing it takes a while, which keeps the
// worker holding it busy while the others finish many small entries
func c19BigData(r *lib.Rng, size int) []byte {
	words := make([][]byte, 64)
	for i := range words {
		words[i] = r.Bytes(r.Range(3, 40))
	}
	b := make([]byte, 0, size+64)
	for len(b) < size {
		b = append(b, words[r.Intn(len(words))]...)
		if r.Chance(1, 8) {
			b = append(b, r.Bytes(16)...)
		}
	}
	return b[:size]
}

func c19GenTree(r *lib.Rng, class string, thorough bool) *lib.Build {
	b := &lib.Build{}
	randDir := func(depth int) string {
		n := r.Range(0, depth)
		parts := make([]string, n)
		for i := range parts {
			parts[i] = c19Name(r)
		}
		return strings.Join(parts, "/")
	}
	join := func(d, n string) string {
		if d == "" {
			return n
		}
		return d + "/" + n
	}
	// never replace an existing entry by something of another kind: Put would silently drop a subtree
	free := func(p string) bool {
		for q := p; ; q = q[:strings.LastIndex(q, "/")] {
			if e := b.Get(q); e != nil && (q == p || e.Kind != "dir") {
				return false
			}
			if !strings.Contains(q, "/") {
				return true
			}
		}
	}
	put := func(e lib.Entry) {
		if e.Path != "" && free(e.Path) {
			b.Put(e)
		}
	}
	switch class {
	case "mixed":
		n := r.Range(3, 25)
		for i := 0; i < n; i++ {
			p := join(randDir(5), fmt.Sprintf("%s%d", c19Name(r), i))
			switch r.Intn(6) {
			case 0:
				put(lib.Entry{Path: p, Kind: "dir"}) // empty dir (unless something lands in it later)
			case 1:
				put(lib.Entry{Path: p, Kind: "link", Dest: c19Dest(r, b)})
			case 2:
				put(lib.Entry{Path: p, Kind: "file"}) // empty file
			default:
				put(lib.Entry{Path: p, Kind: "file", Data: c19SmallData(r)})
			}
		}
	case "big+small":
		big := 2 << 20
		small := r.Range(30, 90)
		if thorough {
			big = r.Range(4, 12) << 20
			small = r.Range(100, 600)
		}
		// the big file sorts first in walk order and in container order
		bigPath := []string{"0big.bin", "0/0big.bin", "!big"}[r.Intn(3)]
		put(lib.Entry{Path: bigPath, Kind: "file", Data: c19BigData(r, big)})
		if r.Chance(1, 3) { // a second big one somewhere in the middle
			put(lib.Entry{Path: "m/big2.bin", Kind: "file", Data: c19BigData(r, big/2)})
		}
		dirs := []string{"", "a", "a/b", "m", "s/t/u", "z"}
		for i := 0; i < small; i++ {
			p := join(dirs[r.Intn(len(dirs))], fmt.Sprintf("f%04d", i))
			switch r.Intn(12) {
			case 0:
				put(lib.Entry{Path: p, Kind: "link", Dest: c19Dest(r, b)})
			case 1:
				put(lib.Entry{Path: p + ".d", Kind: "dir"})
			default:
				put(lib.Entry{Path: p, Kind: "file", Data: r.Bytes(r.Range(0, 300))})
			}
		}
	case "emptyish":
		switch r.Intn(5) {
		case 0: // nothing at all
		case 1:
			put(lib.Entry{Path: "only", Kind: "file"})
		case 2:
			put(lib.Entry{Path: "e1/e2/e3/e4", Kind: "dir"})
			put(lib.Entry{Path: "e1/f2", Kind: "dir"})
		case 3:
			put(lib.Entry{Path: "lonely", Kind: "link", Dest: "nowhere"})
		default:
			for i := 0; i < r.Range(1, 8); i++ {
				put(lib.Entry{Path: join(randDir(4), fmt.Sprintf("e%d", i)), Kind: "dir"})
			}
			put(lib.Entry{Path: join(randDir(3), "empty.txt"), Kind: "file"})
		}
	case "links":
		put(lib.Entry{Path: "t/file", Kind: "file", Data: r.Bytes(40)})
		put(lib.Entry{Path: "t/dir/inner", Kind: "file", Data: r.Bytes(4)})
		put(lib.Entry{Path: "to-file", Kind: "link", Dest: "t/file"})
		put(lib.Entry{Path: "to-dir", Kind: "link", Dest: "t/dir"})
		put(lib.Entry{Path: "t/up", Kind: "link", Dest: ".."})
		put(lib.Entry{Path: "t/self", Kind: "link", Dest: "self"})
		put(lib.Entry{Path: "to-link", Kind: "link", Dest: "to-file"})
		for i := 0; i < r.Range(2, 30); i++ {
			put(lib.Entry{Path: join(randDir(3), fmt.Sprintf("l%d", i)), Kind: "link", Dest: c19Dest(r, b)})
		}
	case "longnames":
		long := strings.Repeat("n", 120)
		put(lib.Entry{Path: long, Kind: "file", Data: r.Bytes(10)})
		put(lib.Entry{Path: long + "d/" + long + "/" + long + "/leaf", Kind: "file", Data: r.Bytes(3)}) // > 255 bytes in total
		put(lib.Entry{Path: long + "d/" + long + "/emptydir", Kind: "dir"})
		put(lib.Entry{Path: "l/" + strings.Repeat("p", 99), Kind: "file"}) // 101 bytes: just past the ustar name field
		put(lib.Entry{Path: "l/" + strings.Repeat("q", 98), Kind: "file"}) // exactly 100
		put(lib.Entry{Path: long + "d/lnk", Kind: "link", Dest: strings.Repeat("../", 40) + long})
		put(lib.Entry{Path: "sp ace/café/日本", Kind: "file", Data: []byte("x")})
		put(lib.Entry{Path: "sp ace/-dash", Kind: "dir"})
	case "wide":
		n := r.Range(40, 100)
		if thorough {
			n = r.Range(200, 1200)
		}
		for i := 0; i < n; i++ {
			put(lib.Entry{Path: fmt.Sprintf("w/f%05d", i), Kind: "file", Data: r.Bytes(r.Range(0, 64))})
		}
	case "contents":
		c19GenContents(r, put, thorough)
	case "linkdests":
		c19GenLinkDests(r, put, thorough)
	}
	return b
}

// ---------------------------------------------------------------- file contents

// Granules at which code that copies, pads or packs file contents works: the tar block (512),
// a page (4 KiB), io.Copy's buffer (32 KiB), the wharf block (64 KiB); one more per tree from
// c19MoreGranules.  "Every file byte-for-byte" is about contents, not only about names: a
// copy loop, a hole/sparse optimisation, a padding rule or an end-of-data test goes wrong for
// contents laid out on such a granule (a run of one byte value that starts, ends or fills the
// file exactly at a multiple of it), never for a few hundred random bytes.
var c19Granules = []int{512, 4096, 32 << 10, 64 << 10}
var c19MoreGranules = []int{1024, 8192, 16 << 10, 128 << 10, 256 << 10}

type c19Seg struct {
	fill byte // 'z' zeroes, 'f' 0xff, 'b' one random byte value, 'r' random, 't' text-like, 'n' zeroes + one non-zero byte
	n    int
}

func c19Layout(r *lib.Rng, segs []c19Seg) (string, []byte) {
	var name []string
	var data []byte
	for _, s := range segs {
		if s.n <= 0 {
			continue
		}
		name = append(name, fmt.Sprintf("%c%d", s.fill, s.n))
		var d []byte
		switch s.fill {
		case 'z':
			d = make([]byte, s.n)
		case 'f':
			d = bytes.Repeat([]byte{0xff}, s.n)
		case 'b':
			d = bytes.Repeat([]byte{byte(r.Range(1, 254))}, s.n)
		case 't':
			d = c19BigData(r, s.n)
		case 'n': // all zero but one byte: first, last, or anywhere
			d = make([]byte, s.n)
			d[[]int{0, s.n - 1, r.Intn(s.n)}[r.Intn(3)]] = byte(r.Range(1, 255))
		default:
			d = r.Bytes(s.n)
			// the run next to it must not be extended by chance
			d[0] |= 1
			d[len(d)-1] |= 1
		}
		data = append(data, d...)
	}
	return strings.Join(name, "-"), data
}

// c19GenContents: per granule g, files named after their layout (fill letter + length per
// segment, so a replay reads e.g. g32768/01_r32768-z65536):
//
//	always   a run filling the file (k*g), a run ending the file at a multiple of g, a run starting
//	         it, a run in the middle - the run being zeroes, data before/after random or text
//	random   the same with 0xff / one byte value / almost-zero runs, sizes one byte or a random
//	         amount off the multiple, data that is not a multiple of g before the run, several runs
//
// plus an empty file, an empty directory and a link so that all three counters move.
func c19GenContents(r *lib.Rng, put func(lib.Entry), thorough bool) {
	gs := append([]int(nil), c19Granules...)
	gs = append(gs, c19MoreGranules[r.Intn(len(c19MoreGranules))])
	if thorough && r.Chance(1, 3) {
		gs = append(gs, 1<<20)
	}
	dataFill := func() byte { return []byte{'r', 'r', 't', 'n', 'b'}[r.Intn(5)] }
	runFill := func() byte { return []byte{'z', 'z', 'z', 'f', 'b', 'n'}[r.Intn(6)] }
	for _, g := range gs {
		maxK := 3
		if g >= 1<<20 {
			maxK = 1
		}
		k := func() int { return g * r.Range(1, maxK) }
		off := func() int { // a length that is not a multiple of g
			if r.Chance(1, 2) {
				return []int{1, g - 1, g + 1}[r.Intn(3)]
			}
			return r.Range(1, g-1)
		}
		layouts := [][]c19Seg{
			{{'z', k()}},
			{{dataFill(), k()}, {'z', k()}},
			{{'z', k()}, {dataFill(), k()}},
			{{dataFill(), k()}, {'z', k()}, {dataFill(), off()}},
		}
		for i, extra := 0, r.Range(3, 5); i < extra; i++ {
			switch r.Intn(8) {
			case 0: // a run filling the file, other byte values, or one byte off
				layouts = append(layouts, []c19Seg{{runFill(), k() + []int{0, 0, -1, 1}[r.Intn(4)]}})
			case 1: // run at the end, the file size a multiple of g or not
				layouts = append(layouts, []c19Seg{{dataFill(), k()}, {runFill(), k() + []int{0, 0, -1, 1, off()}[r.Intn(5)]}})
			case 2: // run at the end at an offset that is not a multiple
				layouts = append(layouts, []c19Seg{{dataFill(), off()}, {runFill(), k()}})
			case 3: // ... ending at a multiple all the same
				o := r.Range(1, g-1)
				layouts = append(layouts, []c19Seg{{dataFill(), o}, {runFill(), k() - o}})
			case 4: // run at the start
				layouts = append(layouts, []c19Seg{{runFill(), k() + []int{0, -1, 1}[r.Intn(3)]}, {dataFill(), []int{k(), off(), 1}[r.Intn(3)]}})
			case 5: // several runs
				layouts = append(layouts, []c19Seg{{runFill(), k()}, {dataFill(), k()}, {runFill(), k()}, {dataFill(), g}, {runFill(), g}})
			case 6: // two different runs back to back, the second ends the file
				layouts = append(layouts, []c19Seg{{'f', k()}, {'z', k()}})
			default: // no run at all, size on the multiple
				layouts = append(layouts, []c19Seg{{dataFill(), k() + []int{0, -1, 1}[r.Intn(3)]}})
			}
		}
		for i, l := range layouts {
			name, data := c19Layout(r, l)
			put(lib.Entry{Path: fmt.Sprintf("g%d/%02d_%s", g, i, name), Kind: "file", Data: data})
		}
	}
	put(lib.Entry{Path: "g0/empty", Kind: "file"})
	put(lib.Entry{Path: "g0/one-zero", Kind: "file", Data: []byte{0}})
	put(lib.Entry{Path: "g0/dir", Kind: "dir"})
	put(lib.Entry{Path: "g0/link", Kind: "link", Dest: "empty"})
}

// ---------------------------------------------------------------- archives

type c19Entry struct {
	Path string
	Kind string // dir | file | link
}

// entries of a zip in archive order, read with the standard library's reader (the code under
// test uses itchio/arkive's)
func c19ZipEntries(z []byte) ([]c19Entry, error) {
	zr, err := stdzip.NewReader(bytes.NewReader(z), int64(len(z)))
	if err != nil {
		return nil, err
	}
	var out []c19Entry
	for _, f := range zr.File {
		k := "file"
		switch {
		case strings.HasSuffix(f.Name, "/") || f.Mode().IsDir():
			k = "dir"
		case f.Mode()&os.ModeSymlink != 0:
			k = "link"
		}
		out = append(out, c19Entry{strings.TrimSuffix(f.Name, "/"), k})
	}
	return out, nil
}

func c19TarEntries(t []byte) ([]c19Entry, error) {
	tr := stdtar.NewReader(bytes.NewReader(t))
	var out []c19Entry
	for {
		h, err := tr.Next()
		if err == io.EOF {
			return out, nil
		}
		if err != nil {
			return nil, err
		}
		k := map[byte]string{stdtar.TypeDir: "dir", stdtar.TypeReg: "file", stdtar.TypeSymlink: "link"}[h.Typeflag]
		if k == "" {
			k = fmt.Sprintf("type%d", h.Typeflag)
		}
		out = append(out, c19Entry{h.Name, k})
	}
}

func c19Compress(flavor, dir string) ([]byte, error) {
	var buf bytes.Buffer
	switch flavor {
	case "zip":
		_, err := archiver.CompressZip(&buf, dir, lib.Quiet)
		return buf.Bytes(), err
	case "czip":
		ct, err := lib.Walk(dir)
		if err != nil {
			return nil, err
		}
		pool := fspool.New(ct, dir)
		defer pool.Close()
		_, err = containerarchiver.CompressZip(&buf, ct, pool, lib.Quiet)
		return buf.Bytes(), err
	case "tar":
		_, err := archiver.CompressTar(&buf, dir, lib.Quiet)
		return buf.Bytes(), err
	}
	return nil, fmt.Errorf("unknown flavor %s", flavor)
}

// the archive must name every entry of the tree exactly once, by its slash-separated relative path
func c19CheckNames(ents []c19Entry, b *lib.Build) string {
	seen := map[string]int{}
	for _, e := range ents {
		seen[e.Path]++
		if strings.HasPrefix(e.Path, "/") || strings.HasPrefix(e.Path, "./") || strings.HasSuffix(e.Path, "/") || strings.Contains(e.Path, "\\") {
			return fmt.Sprintf("archive entry name %q is not a clean relative slash path", e.Path)
		}
	}
	for _, e := range b.Entries {
		if seen[e.Path] != 1 {
			return fmt.Sprintf("%s %s appears %d times in the archive", e.Kind, e.Path, seen[e.Path])
		}
		delete(seen, e.Path)
	}
	for p := range seen {
		return fmt.Sprintf("archive has an entry %q that is not in the tree", p)
	}
	for _, e := range ents {
		if s := b.Get(e.Path); s.Kind != e.Kind {
			return fmt.Sprintf("%s archived as %s, is a %s", e.Path, e.Kind, s.Kind)
		}
	}
	return ""
}

type c19Counts struct{ Dirs, Files, Symlinks int }

func c19CountKinds(ents []c19Entry, above int) c19Counts {
	var c c19Counts
	for i, e := range ents {
		if i <= above {
			continue
		}
		switch e.Kind {
		case "dir":
			c.Dirs++
		case "file":
			c.Files++
		case "link":
			c.Symlinks++
		}
	}
	return c
}

func c19BuildCounts(b *lib.Build) c19Counts {
	var c c19Counts
	for _, e := range b.Entries {
		switch e.Kind {
		case "dir":
			c.Dirs++
		case "file":
			c.Files++
		case "link":
			c.Symlinks++
		}
	}
	return c
}

// ---------------------------------------------------------------- Coq printers

// names are projected to their rank among all path components of the case (order preserving),
// file contents and link destinations to [length; id] / [id] tokens (equality preserving)
type c19Proj struct {
	rank  map[string]int
	datas map[string]int
	dests map[string]int
}

func newC19Proj(builds ...*lib.Build) *c19Proj {
	p := &c19Proj{rank: map[string]int{}, datas: map[string]int{}, dests: map[string]int{}}
	var names []string
	seen := map[string]bool{}
	for _, b := range builds {
		if b == nil {
			continue
		}
		for _, e := range b.Entries {
			for _, n := range strings.Split(e.Path, "/") {
				if !seen[n] {
					seen[n] = true
					names = append(names, n)
				}
			}
		}
	}
	sort.Strings(names) // bytewise, as filepath.Walk sorts directory entries
	for i, n := range names {
		p.rank[n] = i
	}
	return p
}

func (p *c19Proj) path(s string) string {
	parts := strings.Split(s, "/")
	out := make([]string, len(parts))
	for i, n := range parts {
		out[i] = strconv.Itoa(p.rank[n])
	}
	return "[" + strings.Join(out, ";") + "]"
}

func (p *c19Proj) data(d []byte) string {
	k := lib.Digest(d) + fmt.Sprint(len(d))
	id, ok := p.datas[k]
	if !ok {
		id = len(p.datas)
		p.datas[k] = id
	}
	return fmt.Sprintf("[%d;%d]", len(d), id)
}

func (p *c19Proj) dest(d string) string {
	id, ok := p.dests[d]
	if !ok {
		id = len(p.dests)
		p.dests[d] = id
	}
	return fmt.Sprintf("[%d]", id)
}

func (p *c19Proj) entry(e *lib.Entry) string {
	switch e.Kind {
	case "dir":
		return "EDir " + p.path(e.Path)
	case "link":
		return "ELink " + p.path(e.Path) + " " + p.dest(e.Dest)
	}
	return "EFile " + p.path(e.Path) + " " + p.data(e.Data)
}

// the entries of build b in the order ents (archive order); entries unknown to b are skipped
// (the oracle has complained already)
func (p *c19Proj) entries(ents []c19Entry, b *lib.Build) string {
	var out []string
	for _, e := range ents {
		if s := b.Get(e.Path); s != nil {
			out = append(out, p.entry(s))
		}
	}
	return "([" + strings.Join(out, "; ") + "]%N)"
}

func (p *c19Proj) tree(b *lib.Build) string {
	var out []string
	for i := range b.Entries {
		out = append(out, p.entry(&b.Entries[i]))
	}
	return "([" + strings.Join(out, "; ") + "]%N)"
}

func c19CoqCounts(c c19Counts) string {
	return fmt.Sprintf("(%d, %d, %d)%%nat", c.Dirs, c.Files, c.Symlinks)
}

// archive order as indices into the (path-sorted) entries of b
func c19Perm(ents []c19Entry, b *lib.Build) string {
	idx := map[string]int{}
	for i, e := range b.Entries {
		idx[e.Path] = i
	}
	out := make([]string, 0, len(ents))
	for _, e := range ents {
		if i, ok := idx[e.Path]; ok {
			out = append(out, strconv.Itoa(i))
		}
	}
	return "([" + strings.Join(out, ";") + "]%nat)"
}

// an observed tree: None when it is exactly want
func (p *c19Proj) obsTree(got, want *lib.Build) string {
	if lib.DiffBuilds(got, want) == "" && len(got.Entries) == len(want.Entries) {
		return "None"
	}
	return "(Some " + p.tree(got) + ")"
}

// the directory at an interruption relative to the archive entries: status per entry and the rest
func (p *c19Proj) killState(ents []c19Entry, b, kill *lib.Build) (string, string) {
	st := make([]string, len(ents))
	covered := map[string]bool{}
	for i, e := range ents {
		src, k := b.Get(e.Path), kill.Get(e.Path)
		switch {
		case k == nil:
			st[i] = "0"
			covered[e.Path] = true
		case src != nil && k.Kind == src.Kind && bytes.Equal(k.Data, src.Data) && k.Dest == src.Dest:
			st[i] = "1"
			covered[e.Path] = true
		default:
			st[i] = "2"
		}
	}
	var extra []string
	for i := range kill.Entries {
		if !covered[kill.Entries[i].Path] {
			extra = append(extra, p.entry(&kill.Entries[i]))
		}
	}
	return "([" + strings.Join(st, ";") + "]%N)", "([" + strings.Join(extra, "; ") + "]%N)"
}

func c19FlavorCoq(f string) string {
	return map[string]string{"zip": "FWalk", "tar": "FTar", "czip": "FContainer"}[f]
}

func c19ClassCoq(cls string) string {
	if cls == "ok" {
		return "true"
	}
	return "false"
}

// numWorkers as ExtractZip computes it is not an input we control for -1: the model is told
// the number the harness expects from the documented rule (NumCPU-1, at least 1), NumCPU being
// that of the process that ran the extraction (a child with a processor budget reports its own)
func c19ModelWorkers(w, ncpu int) int {
	if ncpu <= 0 { // not reported (the run did not get that far): this process's
		ncpu = numCPU()
	}
	if w < 0 {
		w = ncpu - 1
	}
	if w < 1 {
		w = 1
	}
	return w
}

// ---------------------------------------------------------------- in-process extraction

type c19Run struct {
	Class  string
	Msg    string
	Counts c19Counts
	Done   []string
	// of the process that ran the extraction (children only)
	NumCPU   int `json:",omitempty"`
	MaxProcs int `json:",omitempty"`
}

// c19Env is the processor budget of the process that extracts: the number of CPUs it may run
// on (affinity mask: what runtime.NumCPU reports; a one-core machine or container, taskset)
// and GOMAXPROCS (environment variable).  0 = not restricted.  Concurrency -1 means "pick for
// me": what is picked depends on this budget, so "for all worker counts 1..16 and -1" is
// also a statement about every budget - and so are the schedules (one P runs the workers
// almost in turn, more Ps than CPUs pre-empts them anywhere).
type c19Env struct{ Cpus, Procs int }

func (e c19Env) restricted() bool { return e.Cpus > 0 || e.Procs > 0 }

func (e c19Env) String() string { return fmt.Sprintf("cpus%d-procs%d", e.Cpus, e.Procs) }

var c19Envs = []c19Env{{Cpus: 1}, {Procs: 1}, {Cpus: 2}, {Procs: 2}, {Cpus: 1, Procs: 4}, {Cpus: 2, Procs: 1}, {Procs: 3}, {Cpus: 3}}

func c19ExtractZip(z []byte, out string, workers int, resume string) c19Run {
	var mu sync.Mutex
	var run c19Run
	var res *archiver.ExtractResult
	run.Class, run.Msg = lib.WithDeadline(120*time.Second, func() error {
		var err error
		res, err = archiver.ExtractZip(bytes.NewReader(z), int64(len(z)), out, archiver.ExtractSettings{
			Consumer: lib.Quiet, Concurrency: workers, ResumeFrom: resume,
			OnEntryDone: func(p string) {
				mu.Lock()
				run.Done = append(run.Done, p)
				mu.Unlock()
			}})
		return err
	})
	if run.Class == "ok" && res != nil {
		run.Counts = c19Counts{res.Dirs, res.Files, res.Symlinks}
	}
	mu.Lock()
	defer mu.Unlock()
	run.Done = append([]string(nil), run.Done...)
	return run
}

func c19ExtractTar(archivePath, out string) c19Run {
	var run c19Run
	var res *archiver.ExtractResult
	run.Class, run.Msg = lib.WithDeadline(120*time.Second, func() error {
		var err error
		res, err = archiver.ExtractTar(archivePath, out, archiver.ExtractSettings{Consumer: lib.Quiet})
		return err
	})
	if run.Class == "ok" && res != nil {
		run.Counts = c19Counts{res.Dirs, res.Files, res.Symlinks}
	}
	return run
}

// ---------------------------------------------------------------- the check

func runC19(c0 *Ctx) error {
	// thousands of small files are created per run: use the memory file system when there is one
	cc := *c0
	c := &cc
	if tmp := shmScratch("c19"); tmp != "" {
		defer os.RemoveAll(tmp)
		c.Tmp = tmp
	}
	c19LinkMax = c19ProbeLinkMax(c.Tmp)
	t0 := time.Now()
	phase := func(name string) {
		if os.Getenv("VERIF_TIMING") != "" {
			fmt.Fprintf(os.Stderr, "C19 %-14s %6.1fs\n", name, time.Since(t0).Seconds())
		}
		t0 = time.Now()
	}
	// corpus: the two inputs that failed on the unchanged tree run first (known_findings.json "fixed")
	if err := c19RaceCases(c, true); err != nil {
		return err
	}
	phase("race corpus")
	if err := c19ResumeCorpus(c); err != nil {
		return err
	}
	phase("resume corpus")
	if err := c19ExtractCases(c); err != nil {
		return err
	}
	phase("extract")
	if err := c19ResumeCases(c); err != nil {
		return err
	}
	phase("resume")
	if err := c19RaceCases(c, false); err != nil {
		return err
	}
	phase("race")
	// last, so that the cases above are the same as before this class existed
	if err := c19ContentCases(c); err != nil {
		return err
	}
	phase("contents")
	if err := c19BudgetCases(c); err != nil {
		return err
	}
	phase("cpu budgets")
	err := c19LinkDestCases(c)
	phase("link dests")
	return err
}

var c19Workers = []int{1, 2, 4, 16, -1}

func c19ExtractCases(c *Ctx) error {
	r := c.Rng.Fork()
	n := c.N(24, 300)
	for i := 0; i < n; i++ {
		cr := r.Fork()
		class := c19Classes[i%len(c19Classes)]
		b := c19GenTree(cr, class, c.Thorough() && i%4 == 0)
		flavor := []string{"zip", "czip", "tar", "zip"}[(i/len(c19Classes)+i)%4]
		workers := c19Workers[(i/2+i/len(c19Classes))%len(c19Workers)]
		if c.Thorough() && cr.Chance(1, 4) {
			workers = cr.Range(0, 16)
		}
		if flavor == "tar" {
			workers = 1
		}
		if err := c19OneExtract(c, cr, b, class, flavor, workers, cr.Chance(1, 2), c19Env{}); err != nil {
			return err
		}
	}
	return nil
}

// trees of class "contents" (file contents laid out on copy/pad granules) through every
// flavor; the worker count matters little here, it rotates all the same
func c19ContentCases(c *Ctx) error {
	r := c.Rng.Fork()
	n := c.N(6, 60)
	for i := 0; i < n; i++ {
		cr := r.Fork()
		b := c19GenTree(cr, "contents", c.Thorough() && i%3 == 0)
		flavor := []string{"zip", "tar", "czip"}[i%3]
		workers := c19Workers[(i/3+i)%len(c19Workers)]
		if flavor == "tar" {
			workers = 1
		}
		if err := c19OneExtract(c, cr, b, "contents", flavor, workers, cr.Chance(1, 2), c19Env{}); err != nil {
			return err
		}
	}
	return nil
}

// c19BudgetCases: extraction in a child process whose processor budget is restricted (see
// c19Env) - CPUs allowed 1..3 (thorough 1..4), GOMAXPROCS 1..4 (thorough 1..8), both, with
// fewer and with more Ps than CPUs.  Every budget of c19Envs first meets Concurrency -1 (the
// count that is derived from the budget), then the explicit counts, which must not depend on
// it (16 workers on one P, 1 worker on 4 Ps ...).  Then interrupted extractions (the child
// exits inside OnEntryDone) and restarts under such budgets.
func c19BudgetCases(c *Ctx) error {
	r := c.Rng.Fork()
	classes := []string{"mixed", "wide", "links", "big+small", "emptyish", "longnames"}
	n := c.N(12, 80)
	for i := 0; i < n; i++ {
		cr := r.Fork()
		env := c19Envs[i%len(c19Envs)]
		workers := -1
		if i >= len(c19Envs) {
			if c.Thorough() {
				env = c19Env{Cpus: cr.Range(0, 4), Procs: cr.Range(0, 4) * cr.Range(1, 2)}
				if !env.restricted() {
					env.Cpus = 1
				}
			} else {
				env = []c19Env{{Cpus: 1}, {Procs: 1}, {Cpus: 1, Procs: 4}, {Cpus: 2, Procs: 1}}[i%4]
			}
			if i%2 == 1 {
				workers = []int{16, 2, 1, 4}[(i/2)%4]
				if c.Thorough() && cr.Chance(1, 3) {
					workers = cr.Range(0, 16)
				}
			}
		}
		class := classes[(i+i/len(classes))%len(classes)]
		b := c19GenTree(cr, class, false)
		if err := c19OneExtract(c, cr, b, class, []string{"zip", "czip"}[(i/3)%2], workers, i%3 != 2, env); err != nil {
			return err
		}
	}
	for i, n := 0, c.N(2, 12); i < n; i++ {
		cr := r.Fork()
		env := []c19Env{{Procs: 1}, {Cpus: 1}, {Cpus: 2, Procs: 1}, {Cpus: 1, Procs: 4}, {Cpus: 2}, {Procs: 2}}[i%6]
		workers := -1
		if i%4 == 3 {
			workers = []int{16, 2, 4}[(i/4)%3]
		}
		class := []string{"mixed", "wide", "links"}[i%3]
		b := c19GenTree(cr, class, false)
		nonDir := len(b.Entries) - c19BuildCounts(b).Dirs
		var chains [][]int
		for _, k := range c19KillPoints(cr, nonDir, c.N(3, 8)) {
			chains = append(chains, []int{k})
		}
		if nonDir >= 2 {
			chains = append(chains, []int{cr.Range(1, nonDir), cr.Range(1, nonDir)})
		}
		if len(chains) == 0 {
			chains = [][]int{{1}}
		}
		if err := c19ResumeConfig(c, cr, b, class, []string{"zip", "czip"}[i%2], workers, chains, "process", "", env); err != nil {
			return err
		}
	}
	return nil
}

func c19OneExtract(c *Ctx, cr *lib.Rng, b *lib.Build, class, flavor string, workers int, withResume bool, env c19Env) error {
	base := filepath.Join(c.Tmp, "c19x")
	defer os.RemoveAll(base)
	os.RemoveAll(base)
	src, out := filepath.Join(base, "src"), filepath.Join(base, "out")
	if err := b.WriteTo(src); err != nil {
		return err
	}
	if err := os.MkdirAll(out, 0o755); err != nil {
		return err
	}
	oracle := ""
	obs := map[string]interface{}{}
	var arc []byte
	cls, msg := lib.Guard(func() error {
		var err error
		arc, err = c19Compress(flavor, src)
		return err
	})
	obs["compress"] = cls
	var ents []c19Entry
	var run c19Run
	got := &lib.Build{}
	if cls != "ok" {
		oracle = "compress " + cls + ": " + msg
	} else {
		var err error
		if flavor == "tar" {
			ents, err = c19TarEntries(arc)
		} else {
			ents, err = c19ZipEntries(arc)
		}
		if err != nil {
			oracle = "the archive cannot be listed by the standard library reader: " + err.Error()
		} else {
			oracle = c19CheckNames(ents, b)
		}
		if flavor == "tar" {
			ap := filepath.Join(base, "a.tar")
			if err := os.WriteFile(ap, arc, 0o644); err != nil {
				return err
			}
			run = c19ExtractTar(ap, out)
		} else {
			resume := ""
			if withResume {
				resume = filepath.Join(base, "resume")
			}
			if env.restricted() { // in a child process with that processor budget
				ap := filepath.Join(base, "a.zip")
				if err := os.WriteFile(ap, arc, 0o644); err != nil {
					return err
				}
				var err error
				run, _, err = c19Child(c, c19ChildParams{Archive: ap, Out: out, Resume: resume, Workers: workers, Cpus: env.Cpus, Procs: env.Procs, CpuPick: cr.U64()})
				if err != nil {
					return err
				}
				obs["numCPU"], obs["gomaxprocs"] = run.NumCPU, run.MaxProcs
			} else {
				run = c19ExtractZip(arc, out, workers, resume)
			}
			if withResume && run.Class == "ok" {
				if _, err := os.Stat(resume); err == nil && oracle == "" {
					oracle = "the resume file is still there after a complete extraction"
				}
			}
		}
		obs["extract"] = run.Class
		obs["counts"] = run.Counts
		obs["entryDone"] = len(run.Done)
		if run.Class != "ok" {
			if oracle == "" {
				oracle = "extract " + run.Class + ": " + run.Msg
			}
		} else {
			got, err = lib.ReadBuild(out)
			if err != nil {
				return err
			}
			if d := c19DiffBuilds(got, b); d != "" && oracle == "" {
				oracle = "extracted tree differs from the source tree: " + d
			}
			if want := c19BuildCounts(b); run.Counts != want && oracle == "" {
				oracle = fmt.Sprintf("ExtractResult %+v, the tree has %+v", run.Counts, want)
			}
		}
	}
	pj := newC19Proj(b, got)
	mw := c19ModelWorkers(workers, run.NumCPU)
	nonDir := 0
	for _, e := range b.Entries {
		if e.Kind != "dir" {
			nonDir++
		}
	}
	clsName := fmt.Sprintf("extract/%s/%s/w%d", flavor, class, workers)
	input := map[string]interface{}{"tree": c19Summary(b), "flavor": flavor, "workers": workers, "resumeFile": withResume}
	if class == "linkdests" {
		input["longestLinkDestOfScratchFS"] = c19LinkMax
	}
	if env.restricted() {
		clsName += "/" + env.String()
		input["cpusAllowed"], input["GOMAXPROCS"] = env.Cpus, env.Procs
	}
	coq := fmt.Sprintf("($ID%%N, %s, %s, %d%%nat, %d%%N, (%s, %s, %s, %s, %d%%nat))", c19FlavorCoq(flavor), pj.tree(b), mw,
		cr.U64()%(1<<31), c19Perm(ents, b), c19ClassCoq(run.Class), pj.obsTree(got, b), c19CoqCounts(run.Counts), len(run.Done))
	group := "extract"
	if oracle != "" && (cls != "ok" || len(ents) != len(b.Entries)) {
		group = "" // the archive itself is broken: nothing to compare with the model
	}
	c.Out.Emit(&lib.Case{Group: group, Class: clsName,
		Nontrivial: len(b.Entries) >= 3 && nonDir >= 1,
		Input:      input,
		Obs:        obs, Oracle: oracle, Coq: coq})
	return nil
}

// ---------------------------------------------------------------- interruption without a process: freeze

// c19Freezer stops every goroutine of one ExtractZip call at its next callback (OnEntryDone,
// Consumer.OnProgress - called between two reads of a file's content -, Consumer.OnMessage)
// once the killAfter-th OnEntryDone callback has been entered.  When all goroutines of the
// call are parked the directory and the resume file are exactly what a process dying at that
// moment leaves behind: a reachable global state, taken without a process per interruption.
type c19Freezer struct {
	mu        sync.Mutex
	calls     int
	killAfter int
	frozen    bool
	release   chan struct{}
	done      []string
}

func (f *c19Freezer) entryDone(p string) {
	f.mu.Lock()
	f.calls++
	if f.killAfter > 0 && f.calls == f.killAfter {
		f.frozen = true
	}
	fr := f.frozen
	if !fr {
		f.done = append(f.done, p)
	}
	f.mu.Unlock()
	if fr {
		<-f.release
	}
}

func (f *c19Freezer) gate() {
	f.mu.Lock()
	fr := f.frozen
	f.mu.Unlock()
	if fr {
		<-f.release
	}
}

func (f *c19Freezer) isFrozen() bool {
	f.mu.Lock()
	defer f.mu.Unlock()
	return f.frozen
}

// c19Source is the archive; after fail is set every read fails
type c19Source struct {
	r    *bytes.Reader
	fail atomic.Bool
}

func (s *c19Source) ReadAt(p []byte, off int64) (int, error) {
	if s.fail.Load() {
		return 0, fmt.Errorf("c19: archive withdrawn after the interruption was captured")
	}
	return s.r.ReadAt(p, off)
}

var c19Parked = map[string]bool{"chan receive": true, "chan send": true, "select": true, "semacquire": true,
	"sync.Mutex.Lock": true, "sync.RWMutex.Lock": true, "sync.RWMutex.RLock": true, "sync.Cond.Wait": true, "sync.WaitGroup.Wait": true}

// c19Quiescent: every goroutine with archiver.ExtractZip on its stack is parked (the dump is
// taken with the world stopped, so the statuses are simultaneous)
var c19StackBuf = make([]byte, 256<<10)

func c19Quiescent() bool {
	var buf []byte
	for {
		n := runtime.Stack(c19StackBuf, true)
		if n < len(c19StackBuf) {
			buf = c19StackBuf[:n]
			break
		}
		c19StackBuf = make([]byte, 2*len(c19StackBuf))
	}
	found := false
	for _, g := range strings.Split(string(buf), "\n\n") {
		if !strings.Contains(g, "archiver.ExtractZip") {
			continue
		}
		found = true
		i, j := strings.Index(g, "["), strings.Index(g, "]")
		if i < 0 || j < i {
			return false
		}
		st := g[i+1 : j]
		if k := strings.Index(st, ","); k >= 0 {
			st = st[:k]
		}
		if !c19Parked[st] {
			return false
		}
	}
	return found
}

// c19FreezeRun extracts z into out; when killAfter > 0 and that many callbacks happen, the
// extraction is frozen, the state on disk is captured (resume index, tree), and the frozen
// call is then released and left to finish (its result is discarded).
func c19FreezeRun(z []byte, out string, workers int, resume string, killAfter int) (run c19Run, killed bool, lastDone int, tree *lib.Build, err error) {
	f := &c19Freezer{killAfter: killAfter, release: make(chan struct{})}
	cons := &state.Consumer{OnProgress: func(float64) { f.gate() }, OnMessage: func(string, string) { f.gate() }}
	type res struct {
		cls, msg string
		r        *archiver.ExtractResult
	}
	ch := make(chan res, 1)
	src := &c19Source{r: bytes.NewReader(z)}
	go func() {
		var r *archiver.ExtractResult
		cls, msg := lib.Guard(func() error {
			var err error
			r, err = archiver.ExtractZip(src, int64(len(z)), out, archiver.ExtractSettings{
				Consumer: cons, Concurrency: workers, ResumeFrom: resume, OnEntryDone: f.entryDone})
			return err
		})
		ch <- res{cls, msg, r}
	}()
	deadline := time.After(120 * time.Second)
	var frozenAt time.Time
	tick := time.NewTicker(300 * time.Microsecond)
	defer tick.Stop()
	for {
		select {
		case x := <-ch:
			run.Class, run.Msg = x.cls, x.msg
			if x.r != nil {
				run.Counts = c19Counts{x.r.Dirs, x.r.Files, x.r.Symlinks}
			}
			f.mu.Lock()
			run.Done = append([]string(nil), f.done...)
			f.mu.Unlock()
			return run, false, -1, nil, nil
		case <-deadline:
			close(f.release)
			return c19Run{Class: "hang", Msg: "extraction did not finish in 120 s"}, false, -1, nil, nil
		case <-tick.C:
			if !f.isFrozen() {
				continue
			}
			if frozenAt.IsZero() {
				frozenAt = time.Now()
			}
			// all goroutines of the call parked: the directory is exactly a crash state.  Should
			// parking not be recognised (another Go runtime naming its wait states differently)
			// the capture is taken after 3 s anyway, resume file first: what the resume file
			// vouches for was complete before it was written, so the capture can only be more
			// complete than a crash state, never less - no false alarm either way.
			if !c19Quiescent() && time.Since(frozenAt) < 3*time.Second {
				continue
			}
			lastDone = c19ReadResume(resume)
			tree, err = lib.ReadBuild(out)
			src.fail.Store(true) // the captured run is of no further interest: let it end quickly
			close(f.release)
			select {
			case <-ch:
			case <-time.After(120 * time.Second):
				return c19Run{Class: "hang", Msg: "released extraction did not finish in 120 s"}, false, -1, nil, nil
			}
			return run, true, lastDone, tree, err
		}
	}
}

// ---------------------------------------------------------------- kill and restart

type c19ChildParams struct {
	Archive   string
	Out       string
	Resume    string
	Workers   int
	KillAfter int // exit(77) inside the KillAfter-th OnEntryDone callback; 0 = never
	Cpus      int // run on that many CPUs only (affinity set before the Go runtime starts); 0 = as the parent
	Procs     int // GOMAXPROCS of the child (set by the parent in its environment); 0 = default
	CpuPick   uint64
}

const c19KillExit = 77

func runC19Child(c *Ctx) error {
	var p c19ChildParams
	b, err := os.ReadFile(c.Replay)
	if err != nil {
		return err
	}
	if err := json.Unmarshal(b, &p); err != nil {
		return err
	}
	if p.Cpus > 0 && os.Getenv(c19PinnedEnv) == "" {
		// runtime.NumCPU is read once, when the process starts: restrict this thread and
		// start over (only returns when that is not possible: the run goes on unrestricted
		// and reports the NumCPU it really had)
		c19PinAndReexec(p.Cpus, p.CpuPick)
	}
	f, err := os.Open(p.Archive)
	if err != nil {
		return err
	}
	defer f.Close()
	st, err := f.Stat()
	if err != nil {
		return err
	}
	var calls int64
	var mu sync.Mutex
	var run c19Run
	var res *archiver.ExtractResult
	// a blocked extraction is reported by the child itself (see c19HangWatch): the parent's
	// 120 s deadline is the last resort only
	var emit sync.Mutex
	emitted := false
	stop := c19HangWatch(&calls, func(msg string) {
		emit.Lock()
		defer emit.Unlock()
		if emitted {
			return
		}
		emitted = true
		c.Out.Emit(&lib.Case{Class: "child", Obs: c19Run{Class: "hang", Msg: msg, NumCPU: runtime.NumCPU(), MaxProcs: runtime.GOMAXPROCS(0)}})
		c.Out.Close()
		os.Exit(0)
	})
	run.Class, run.Msg = lib.Guard(func() error {
		var err error
		res, err = archiver.ExtractZip(f, st.Size(), p.Out, archiver.ExtractSettings{Consumer: lib.Quiet, Concurrency: p.Workers, ResumeFrom: p.Resume,
			OnEntryDone: func(name string) {
				if n := atomic.AddInt64(&calls, 1); p.KillAfter > 0 && n == int64(p.KillAfter) {
					os.Exit(c19KillExit) // the interruption: the process dies inside OnEntryDone
				}
				mu.Lock()
				run.Done = append(run.Done, name)
				mu.Unlock()
			}})
		return err
	})
	if res != nil {
		run.Counts = c19Counts{res.Dirs, res.Files, res.Symlinks}
	}
	close(stop)
	run.NumCPU, run.MaxProcs = runtime.NumCPU(), runtime.GOMAXPROCS(0)
	emit.Lock()
	defer emit.Unlock()
	if emitted {
		return nil
	}
	emitted = true
	mu.Lock()
	defer mu.Unlock()
	c.Out.Emit(&lib.Case{Class: "child", Obs: run})
	return nil
}

// c19Goroutines: id -> wait state (+ the itchio/wharf function it is in) of every goroutine of
// this process but the calling one, from a dump taken with the world stopped
func c19Goroutines() map[string]string {
	var buf []byte
	for n := 256 << 10; ; n *= 2 {
		buf = make([]byte, n)
		if m := runtime.Stack(buf, true); m < n {
			buf = buf[:m]
			break
		}
	}
	out := map[string]string{}
	for i, g := range strings.Split(string(buf), "\n\n") {
		if i == 0 { // the caller comes first
			continue
		}
		var id, st string
		if f := strings.Fields(g); len(f) >= 2 && f[0] == "goroutine" {
			id = f[1]
		}
		if a, b := strings.Index(g, "["), strings.Index(g, "]"); a >= 0 && b > a {
			st = g[a+1 : b]
			if k := strings.Index(st, ","); k >= 0 {
				st = st[:k]
			}
		}
		if id == "" {
			continue
		}
		if fn := c19WharfFrame.FindString(g); fn != "" {
			st += " in " + strings.TrimPrefix(fn, "github.com/itchio/wharf/")
		}
		out[id] = st
	}
	return out
}

// c19HangWatch runs in the process that does nothing but one extraction.  It reports a hang
// when every goroutine that did not exist before the extraction started - the one that called
// ExtractZip and whatever was started since - sits in a state that only another goroutine can
// end (channel operation, select, lock, WaitGroup: c19Parked), the goroutines that did exist
// (a library's ticker ...) are parked too or in the state they were in then, and the set of
// goroutines, their states and the number of OnEntryDone callbacks have not changed over 40
// consecutive samples and at least 5 s.  Nothing is left then that could wake any of them.
// Not a matter of speed: a goroutine that is merely starved on a busy machine is "runnable",
// one that waits for the disk is in "syscall"/"IO wait", a timer shows as "sleep".
func c19HangWatch(calls *int64, report func(string)) (stop chan struct{}) {
	stop = make(chan struct{})
	base := c19Goroutines() // the caller is not in there
	go func() {
		last, since, samples := "", time.Now(), 0
		for {
			select {
			case <-stop:
				return
			case <-time.After(100 * time.Millisecond):
			}
			gs := c19Goroutines()
			var sig, sigOld []string
			stuck := true
			for id, st := range gs {
				was, old := base[id]
				w := st
				if k := strings.Index(w, " in "); k >= 0 {
					w = w[:k]
				}
				if k := strings.Index(w, " ("); k >= 0 { // "chan receive (nil chan)", "select (no cases)"
					w = w[:k]
				}
				// one that was there before the extraction (a library's ticker ...) may also be in
				// the state it was in then (sleep)
				if !c19Parked[w] && !(old && st == was) {
					stuck = false
				}
				if old {
					sigOld = append(sigOld, id+" "+st)
				} else {
					sig = append(sig, id+" "+st)
				}
			}
			sort.Strings(sig)
			sort.Strings(sigOld)
			s := fmt.Sprintf("%d callbacks; %s", atomic.LoadInt64(calls), strings.Join(sig, "; "))
			if all := s + " | " + strings.Join(sigOld, "; "); !stuck || len(sig) == 0 || all != last {
				last, since, samples = all, time.Now(), 0
				continue
			}
			samples++
			if samples >= 40 && time.Since(since) >= 5*time.Second {
				report("the extraction is blocked for ever: for 5 s every goroutine of it has been waiting for another one (goroutine, state: " + s + ")")
				return
			}
		}
	}()
	return stop
}

// c19Child runs one extraction in a child process; killed reports whether it died at the
// requested interruption point.
func c19Child(c *Ctx, p c19ChildParams) (run c19Run, killed bool, err error) {
	self, err := os.Executable()
	if err != nil {
		return run, false, err
	}
	result := filepath.Join(c.Tmp, "c19child.jsonl")
	defer os.Remove(result)
	var env []string
	if p.Procs > 0 {
		env = append(env, "GOMAXPROCS="+strconv.Itoa(p.Procs))
	}
	cr, err := runChild(self, "C19child", p, result, c.Tmp, 120*time.Second, env...)
	if err != nil {
		return run, false, err
	}
	switch {
	case cr.TimedOut:
		return c19Run{Class: "hang", Msg: "child extraction did not finish in 120 s"}, false, nil
	case cr.Exit == c19KillExit:
		return run, true, nil
	case cr.Exit != 0 && strings.Contains(cr.Stderr, "all goroutines are asleep - deadlock"):
		// the Go runtime found every goroutine of the child blocked for ever: a hang, reported at once
		return c19Run{Class: "hang", Msg: "child extraction blocked for ever (Go runtime: all goroutines are asleep - deadlock): " + c19BlockedAt(cr.Stderr)}, false, nil
	case cr.Exit != 0:
		return c19Run{Class: "panic", Msg: "child exited with status " + strconv.Itoa(cr.Exit) + ": " + tail(cr.Stderr, 600)}, false, nil
	}
	b, err := os.ReadFile(result)
	if err != nil {
		return run, false, err
	}
	var cs struct{ Obs c19Run }
	if err := json.Unmarshal(bytes.TrimSpace(b), &cs); err != nil {
		return run, false, fmt.Errorf("child result: %v", err)
	}
	return cs.Obs, false, nil
}

var c19WharfFrame = regexp.MustCompile(`github\.com/itchio/wharf/[^\s(]+`)

// the itchio/wharf functions on the stacks of a deadlock report, outermost call last
func c19BlockedAt(stderr string) string {
	fns := uniq(c19WharfFrame.FindAllString(stderr, -1))
	if len(fns) > 6 {
		fns = fns[:6]
	}
	if len(fns) == 0 {
		return tail(stderr, 300)
	}
	return "blocked in " + strings.Join(fns, " <- ")
}

// readResume: the index stored in the resume file, -1 when absent or unreadable (as ExtractZip reads it)
func c19ReadResume(path string) int {
	b, err := os.ReadFile(path)
	if err != nil {
		return -1
	}
	v, err := strconv.ParseInt(string(b), 10, 64)
	if err != nil {
		return -1
	}
	return int(v)
}

// c19KillPoints: every interruption point when there are at most max of them, else the first
// few, the last, and random ones in between
func c19KillPoints(r *lib.Rng, nonDir, max int) []int {
	if nonDir <= max {
		out := make([]int, nonDir)
		for i := range out {
			out[i] = i + 1
		}
		return out
	}
	set := map[int]bool{1: true, 2: true, 3: true, nonDir: true, nonDir - 1: true}
	for len(set) < max {
		if r.Chance(1, 2) {
			set[r.Range(1, 12)] = true // early: the first workers are still busy
		} else {
			set[r.Range(1, nonDir)] = true
		}
	}
	var out []int
	for k := range set {
		if k >= 1 && k <= nonDir {
			out = append(out, k)
		}
	}
	sort.Ints(out)
	return out
}

// one tree, one worker count, a list of interruption chains (each chain: kill points of
// successive runs, the last run is left to finish)
func c19ResumeConfig(c *Ctx, cr *lib.Rng, b *lib.Build, class, flavor string, workers int, chains [][]int, mode, corpus string, env c19Env) error {
	if env.restricted() && mode != "process" {
		return fmt.Errorf("c19: a processor budget needs interruption mode process")
	}
	pick := cr.U64()
	ncpu := 0
	base := filepath.Join(c.Tmp, "c19r")
	defer os.RemoveAll(base)
	os.RemoveAll(base)
	src := filepath.Join(base, "src")
	if err := b.WriteTo(src); err != nil {
		return err
	}
	arc, err := c19Compress(flavor, src)
	if err != nil {
		return err
	}
	ents, err := c19ZipEntries(arc)
	if err != nil {
		return err
	}
	if s := c19CheckNames(ents, b); s != "" {
		return nil // reported by the extract group
	}
	ap := filepath.Join(base, "a.zip")
	if mode == "process" {
		if err := os.WriteFile(ap, arc, 0o644); err != nil {
			return err
		}
	}
	for ci, chain := range chains {
		stage := 0
		out, resume := filepath.Join(base, fmt.Sprintf("out%d", ci)), filepath.Join(base, fmt.Sprintf("resume%d", ci))
		if err := os.MkdirAll(out, 0o755); err != nil {
			return err
		}
		// one extraction; kill > 0: interrupt it inside the kill-th OnEntryDone callback
		attempt := func(kill int) (run c19Run, killed bool, lastDone int, tree *lib.Build, err error) {
			if mode == "process" {
				run, killed, err = c19Child(c, c19ChildParams{Archive: ap, Out: out, Resume: resume, Workers: workers, KillAfter: kill,
					Cpus: env.Cpus, Procs: env.Procs, CpuPick: pick})
				if run.NumCPU > 0 {
					ncpu = run.NumCPU
				}
				if err != nil || !killed {
					return run, killed, -1, nil, err
				}
				lastDone = c19ReadResume(resume)
				tree, err = lib.ReadBuild(out)
				return run, true, lastDone, tree, err
			}
			run, killed, lastDone, tree, err = c19FreezeRun(arc, out, workers, resume, kill)
			if err != nil || !killed {
				return run, killed, lastDone, tree, err
			}
			// what the interrupted run left behind goes to a fresh directory and resume file
			// (the released run has meanwhile completed the old ones)
			stage++
			os.RemoveAll(out)
			out, resume = filepath.Join(base, fmt.Sprintf("out%d_%d", ci, stage)), filepath.Join(base, fmt.Sprintf("resume%d_%d", ci, stage))
			if err = tree.WriteTo(out); err != nil {
				return
			}
			if lastDone >= 0 {
				err = os.WriteFile(resume, []byte(strconv.Itoa(lastDone)), 0o644)
			}
			return
		}
		oracle := ""
		var kills []map[string]interface{}
		lastDone := -1
		killTree := &lib.Build{}
		var final c19Run
		finished := false
		for _, k := range append(append([]int(nil), chain...), 0) {
			run, killed, ld, tree, err := attempt(k)
			if err != nil {
				return err
			}
			if !killed { // fewer callbacks than k (or k = 0): this run went through
				final, finished = run, true
				break
			}
			lastDone, killTree = ld, tree
			kills = append(kills, map[string]interface{}{"after": k, "resumeFile": lastDone, "entriesOnDisk": len(killTree.Entries)})
		}
		if !finished {
			return fmt.Errorf("c19: the last run of chain %v was interrupted", chain)
		}
		got := &lib.Build{}
		if final.Class != "ok" && len(kills) == 0 {
			oracle = "extraction (not interrupted yet): " + final.Class + ": " + final.Msg
		} else if final.Class != "ok" {
			oracle = "extraction after restart: " + final.Class + ": " + final.Msg
		} else {
			got, err = lib.ReadBuild(out)
			if err != nil {
				return err
			}
			if d := c19DiffBuilds(got, b); d != "" {
				oracle = fmt.Sprintf("after interruption(s) %v and restart (resume file said %d) the tree is not complete: %s", chain, lastDone, d)
			} else {
				// the restarted run extracted at least what was missing or incomplete, at most everything
				var lo c19Counts
				for _, e := range b.Entries {
					k := killTree.Get(e.Path)
					if k != nil && k.Kind == e.Kind && bytes.Equal(k.Data, e.Data) && k.Dest == e.Dest {
						continue
					}
					switch e.Kind {
					case "dir":
						lo.Dirs++
					case "file":
						lo.Files++
					case "link":
						lo.Symlinks++
					}
				}
				hi := c19BuildCounts(b)
				if c := final.Counts; c.Dirs < lo.Dirs || c.Files < lo.Files || c.Symlinks < lo.Symlinks || c.Dirs > hi.Dirs || c.Files > hi.Files || c.Symlinks > hi.Symlinks {
					oracle = fmt.Sprintf("restarted run reports %+v; %+v were missing or incomplete at the interruption, the archive has %+v", c, lo, hi)
				}
			}
		}
		os.RemoveAll(out)
		os.Remove(resume)
		pj := newC19Proj(b, killTree, got)
		mw := c19ModelWorkers(workers, ncpu)
		ld := "None"
		if lastDone >= 0 {
			ld = fmt.Sprintf("(Some %d%%nat)", lastDone)
		}
		kst, kextra := pj.killState(ents, b, killTree)
		coq := fmt.Sprintf("($ID%%N, %s, %d%%nat, %d%%N, %s, %s, %s, (%s, %s, %s, %d%%nat))", pj.entries(ents, b), mw, cr.U64()%(1<<31),
			ld, kst, kextra, c19ClassCoq(final.Class), pj.obsTree(got, b), c19CoqCounts(final.Counts), len(final.Done))
		cls := fmt.Sprintf("resume-%s/%s/%s/w%d/kills%d", mode, flavor, class, workers, len(kills))
		if corpus != "" {
			cls = "corpus/" + corpus
		}
		input := map[string]interface{}{"tree": c19Summary(b), "flavor": flavor, "workers": workers, "killAfterCallbacks": chain, "interruptBy": mode}
		if class == "linkdests" {
			input["longestLinkDestOfScratchFS"] = c19LinkMax
		}
		if env.restricted() {
			cls += "/" + env.String()
			input["cpusAllowed"], input["GOMAXPROCS"] = env.Cpus, env.Procs
		}
		c.Out.Emit(&lib.Case{Group: "resume", Class: cls, Nontrivial: len(kills) >= 1 && len(ents) >= 3,
			Input:  input,
			Obs:    map[string]interface{}{"kills": kills, "final": final.Class, "counts": final.Counts, "entryDone": len(final.Done)},
			Oracle: oracle, Coq: coq})
		if final.Class == "hang" && len(kills) == 0 {
			break // before any interruption: the other chains of this configuration start the same way
		}
	}
	return nil
}

// the input that failed on the unchanged tree (resume file = last index finished by any
// worker): one large early file, many small later ones, several workers, early interruption
func c19ResumeCorpus(c *Ctx) error {
	r := lib.NewRng(19)
	b := &lib.Build{}
	b.Put(lib.Entry{Path: "0big.bin", Kind: "file", Data: c19BigData(r, 6<<20)})
	for i := 0; i < 60; i++ {
		b.Put(lib.Entry{Path: fmt.Sprintf("s/f%03d", i), Kind: "file", Data: r.Bytes(r.Range(0, 200))})
	}
	if err := c19ResumeConfig(c, r, b, "big+small", "zip", 4, [][]int{{3}, {20}, {2, 5}}, "process", "resume-watermark", c19Env{}); err != nil {
		return err
	}
	return c19ResumeConfig(c, r, b, "big+small", "zip", 4, [][]int{{1}, {3}, {8}, {20}, {2, 5}}, "freeze", "resume-watermark-freeze", c19Env{})
}

func c19ResumeCases(c *Ctx) error {
	r := c.Rng.Fork()
	n := c.N(8, 50)
	maxPoints := 8
	if c.Thorough() {
		maxPoints = 16
	}
	for i := 0; i < n; i++ {
		cr := r.Fork()
		class := []string{"big+small", "mixed", "links", "big+small", "emptyish", "wide", "longnames"}[i%7]
		b := c19GenTree(cr, class, c.Thorough() && i%5 == 0)
		flavor := []string{"zip", "czip"}[(i/7+i)%2]
		workers := c19Workers[(i+i/len(c19Workers))%len(c19Workers)]
		nonDir := 0
		for _, e := range b.Entries {
			if e.Kind != "dir" {
				nonDir++
			}
		}
		var chains [][]int
		for _, k := range c19KillPoints(cr, nonDir, maxPoints) {
			chains = append(chains, []int{k})
		}
		if nonDir >= 2 { // repeated interruptions
			chains = append(chains, []int{cr.Range(1, nonDir), cr.Range(1, nonDir)})
			if c.Thorough() {
				chains = append(chains, []int{cr.Range(1, 4), cr.Range(1, 4), cr.Range(1, nonDir)})
			}
		}
		if len(chains) == 0 {
			chains = [][]int{{1}}
		}
		mode := "freeze"
		if i%10 == 3 || (c.Thorough() && i%4 == 3) { // some configurations with real processes that die
			mode = "process"
			if !c.Thorough() && len(chains) > 4 {
				chains = append(chains[:3], chains[len(chains)-1])
			}
		}
		if err := c19ResumeConfig(c, cr, b, class, flavor, workers, chains, mode, "", c19Env{}); err != nil {
			return err
		}
	}
	// contents laid out on granules, interrupted (in freeze mode: also between two reads of a
	// file's content, so that partly written files are on disk at the restart)
	for i, n := 0, c.N(1, 6); i < n; i++ {
		cr := r.Fork()
		b := c19GenTree(cr, "contents", false)
		nonDir := len(b.Entries) - c19BuildCounts(b).Dirs
		var chains [][]int
		for _, k := range c19KillPoints(cr, nonDir, c.N(5, 10)) {
			chains = append(chains, []int{k})
		}
		chains = append(chains, []int{cr.Range(1, nonDir), cr.Range(1, nonDir)})
		mode := "freeze"
		if i%4 == 3 {
			mode = "process"
		}
		if err := c19ResumeConfig(c, cr, b, "contents", []string{"zip", "czip"}[i%2], []int{4, 1, 16, 2, -1}[i%5], chains, mode, "", c19Env{}); err != nil {
			return err
		}
	}
	return nil
}

// ---------------------------------------------------------------- race detector runs

type c19RaceParams struct {
	Seed    uint64
	Class   string
	Flavor  string
	Workers int
	Resume  bool
}

// runs inside the -race build: same pipeline as c19OneExtract, prints its case
func runC19Race(c *Ctx) error {
	var p c19RaceParams
	b, err := os.ReadFile(c.Replay)
	if err != nil {
		return err
	}
	if err := json.Unmarshal(b, &p); err != nil {
		return err
	}
	r := lib.NewRng(p.Seed)
	return c19OneExtract(c, r, c19GenTree(r, p.Class, false), p.Class, p.Flavor, p.Workers, p.Resume, c19Env{})
}

func c19RaceCases(c *Ctx, corpus bool) error {
	bin, err := raceBinary(c)
	if err != nil {
		return err
	}
	var ps []c19RaceParams
	if corpus {
		// DESIGN section 7 #15: a couple of hundred small files, 8 workers
		ps = []c19RaceParams{{Seed: 15, Class: "wide", Flavor: "zip", Workers: 8, Resume: true}}
	} else {
		r := c.Rng.Fork()
		n := c.N(2, 12)
		for i := 0; i < n; i++ {
			ps = append(ps, c19RaceParams{Seed: r.U64(), Class: []string{"big+small", "mixed", "wide", "links"}[i%4],
				Flavor: []string{"zip", "czip", "zip", "tar"}[(i/4+i)%4], Workers: []int{2, 16, -1, 4}[i%4], Resume: i%3 != 2})
		}
	}
	for _, p := range ps {
		if p.Flavor == "tar" {
			p.Workers = 1
		}
		result := filepath.Join(c.Tmp, "c19race.jsonl")
		cr, err := runChild(bin, "C19race", p, result, c.Tmp, 300*time.Second, raceEnv)
		if err != nil {
			return err
		}
		oracle := ""
		var child struct {
			Oracle string
			Obs    map[string]interface{}
		}
		if b, err := os.ReadFile(result); err == nil {
			json.Unmarshal(bytes.TrimSpace(b), &child)
		}
		os.Remove(result)
		switch {
		case len(cr.Races) > 0:
			oracle = fmt.Sprintf("the race detector reported %d data race(s): %s", len(cr.Races), strings.Join(uniq(cr.Races), " ;; "))
		case cr.TimedOut:
			oracle = "extraction under the race detector did not finish in 300 s"
		case cr.Exit != 0:
			oracle = fmt.Sprintf("race-detector child exited with status %d: %s", cr.Exit, tail(cr.Stderr, 600))
		case child.Oracle != "":
			oracle = "under the race detector: " + child.Oracle
		case child.Obs == nil:
			return fmt.Errorf("race-detector child produced no result: %s", tail(cr.Stderr, 600))
		}
		cls := fmt.Sprintf("race/%s/%s/w%d", p.Flavor, p.Class, p.Workers)
		if corpus {
			cls = "corpus/race-counters"
		}
		c.Out.Emit(&lib.Case{Class: cls, Nontrivial: p.Workers != 1,
			Input: p, Obs: map[string]interface{}{"races": cr.Races, "exit": cr.Exit, "child": child.Obs}, Oracle: oracle})
	}
	return nil
}

func uniq(xs []string) []string {
	seen := map[string]bool{}
	var out []string
	for _, x := range xs {
		if !seen[x] {
			seen[x] = true
			out = append(out, x)
		}
	}
	return out
}
