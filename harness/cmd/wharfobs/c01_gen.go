package main

// C01 — generators added after the seeded variants C01-2 / C01-3 were missed (see
// seeded/C01/NOTES.md): build pairs whose failure needs a *sequence* of new files (state kept
// between two block ranges while somebody else uses the old-build pool) or a fresh run of about
// wsync.MaxDataOp bytes that does not start where the differ's buffer starts.

import (
	"bytes"
	"fmt"
	"io"

	"github.com/itchio/lake"
	"github.com/itchio/wharf/wsync"

	"verif/harness/lib"
)

// ---------------------------------------------------------------- split pairs

type splitOpts struct {
	maxBlocks int  // the old file that is cut up has 2..maxBlocks full blocks (+ a short tail)
	entropy   bool // high-entropy contents (oracle only); else one constant per block (run-length compact, every block distinct)
}

// splitContent: nb full blocks and a tail; constant blocks take the values base, base+1, ...
func splitContent(r *lib.Rng, entropy bool, base byte, nb, tail int) []byte {
	if entropy {
		return r.Bytes(nb*lib.BS + tail)
	}
	var d []byte
	for i := 0; i < nb; i++ {
		d = append(d, blk(base+byte(i), lib.BS)...)
	}
	return append(d, blk(base+byte(nb), tail)...)
}

// genSplitPair: the old build holds X (cut up), Y and a readme; the new build is a sequence of
// files in container (sorted path) order: pieces of X cut at block boundaries (most of them
// starting where the previous piece stopped, some with a few fresh bytes in front / behind),
// verbatim copies of X and of Y (full-file ops: the bowl transposes them through the same
// old-build pool), empty files, fresh files, a patched Y.
func genSplitPair(r *lib.Rng, o splitOpts) (*lib.Build, *lib.Build, []string) {
	BS := lib.BS
	nb := r.Range(2, o.maxBlocks)
	tail := []int{0, 0, 1, 200, BS - 1}[r.Intn(5)]
	x := splitContent(r, o.entropy, 1, nb, tail)
	y := splitContent(r, o.entropy, 101, r.Range(0, 2), []int{0, 5, BS - 1}[r.Intn(3)])
	nbTot := nb
	if tail > 0 {
		nbTot++
	}
	fresh := func(k, n int) []byte {
		if o.entropy {
			return r.Bytes(n)
		}
		return blk(byte(200+k%40), n)
	}
	type elem struct {
		kind string
		data []byte
	}
	var seq []elem
	n := r.Range(3, 7)
	cur := 0
	for i := 0; i < n; i++ {
		w := r.Intn(12)
		if i == 0 {
			w = 0
		}
		switch {
		case w < 6: // a piece of X
			a := cur
			if a >= nbTot || !r.Chance(3, 4) {
				a = r.Intn(nbTot)
			}
			b := r.Range(a+1, nbTot)
			if r.Chance(1, 4) {
				b = nbTot // through the (short) last block
			}
			to := b * BS
			if to > len(x) {
				to = len(x)
			}
			kind := fmt.Sprintf("piece[%d,%d)", a, b)
			var d []byte
			if r.Chance(1, 5) {
				l := []int{1, 15, BS + 3}[r.Intn(3)]
				d = append(d, fresh(i, l)...)
				kind = fmt.Sprintf("fresh%d+", l) + kind
			}
			d = append(d, x[a*BS:to]...)
			if r.Chance(1, 2) {
				l := []int{1, 15, 1000}[r.Intn(3)]
				d = append(d, fresh(i+20, l)...)
				kind += fmt.Sprintf("+fresh%d", l)
			}
			seq = append(seq, elem{kind, d})
			cur = b
		case w < 8:
			seq = append(seq, elem{"copyX", x})
		case w < 9:
			seq = append(seq, elem{"copyY", y})
		case w < 10:
			seq = append(seq, elem{"empty", []byte{}})
		case w < 11:
			seq = append(seq, elem{"new", fresh(i+10, []int{1, 300, BS, BS + 17}[r.Intn(4)])})
		default:
			d := append([]byte(nil), y...)
			if len(d) > 0 {
				d[len(d)/2] ^= 0x55
			}
			seq = append(seq, elem{"patchedY", append(d, fresh(i+30, 3)...)})
		}
	}
	name := func(i int) string { return fmt.Sprintf("pack/%c.bin", 'a'+i) }
	old, nw := &lib.Build{}, &lib.Build{}
	// X lives at the path of one of the new files (that one is then "the same path, other
	// content" and X is the preferred file of its diff) or at a path of its own
	xPath := "pack/whole.bin"
	if r.Bool() {
		xPath = name(r.Intn(len(seq)))
	}
	old.Put(lib.Entry{Path: xPath, Kind: "file", Data: x})
	old.Put(lib.Entry{Path: "pack/y.bin", Kind: "file", Data: y})
	old.Put(lib.Entry{Path: "readme", Kind: "file", Data: []byte("hello")})
	var rel []string
	for i, e := range seq {
		nw.Put(lib.Entry{Path: name(i), Kind: "file", Data: e.data})
		rel = append(rel, e.kind+":"+name(i))
	}
	if r.Bool() {
		nw.Put(lib.Entry{Path: "readme", Kind: "file", Data: []byte("hello")})
	}
	return old, nw, rel
}

func c01Split(c *Ctx) error {
	r := c.Rng.Fork()
	n := nFor(c, 8, 240, 30)
	for i := 0; i < n; i++ {
		cr := r.Fork()
		mb := 3
		if !c.Thorough() {
			mb = 2 // the model side of a quick run stays within seconds
		}
		old, nw, rel := genSplitPair(cr, splitOpts{maxBlocks: mb})
		comps := []lib.Compression{lib.Compressions[(i+int(c.Seed))%len(lib.Compressions)]}
		if err := runFreshCase(c, fmt.Sprintf("c01-split-%d", i), old, nw, freshOpts{class: "split/" + comps[0].String(), comps: comps, model: true, rel: rel, subkey: fmt.Sprint(i)}); err != nil {
			return err
		}
	}
	n = nFor(c, 8, 160, 20)
	for i := 0; i < n; i++ {
		cr := r.Fork()
		old, nw, rel := genSplitPair(cr, splitOpts{maxBlocks: 7, entropy: true})
		comps := []lib.Compression{lib.Compressions[(i+int(c.Seed))%len(lib.Compressions)]}
		if err := runFreshCase(c, fmt.Sprintf("c01-splite-%d", i), old, nw, freshOpts{class: "split-entropy/" + comps[0].String(), comps: comps, rel: rel, subkey: fmt.Sprint(i)}); err != nil {
			return err
		}
	}
	return nil
}

// ---------------------------------------------------------------- big fresh runs (oracle only)

// bigDeltas: run lengths are k*MaxDataOp + one of these (the differ flushes a DATA op at
// MaxDataOp, its buffer holds MaxDataOp + 2 blocks and it reads a block at a time: every
// boundary sits within two blocks of a multiple of MaxDataOp)
var bigDeltas = []int{-lib.BS - 1, -lib.BS, -1, 0, 1, 2, 5000, lib.BS - 1, lib.BS, lib.BS + 1, 2*lib.BS - 1, 2 * lib.BS, 2*lib.BS + 1}

// genBigRunPair: old file X (3 blocks + 300 bytes, high entropy); the new file is
//
//	shape 0: X[0..m blocks) + fresh run                       (run up to the end of the file)
//	shape 1: X[0..m blocks) + fresh run + last blocks of X    (run followed by reused blocks / the short tail)
//	shape 2: fresh run + X[0..m blocks) + fresh run           (reused blocks anywhere in a later buffer cycle)
//
// with m in 0..3. fixed >= 0 selects one of the fixed corpus shapes.
func genBigRunPair(r *lib.Rng, fixed int) (*lib.Build, *lib.Build, []string) {
	BS := lib.BS
	x := r.Bytes(3*BS + 300)
	runLen := func() int {
		k := 1
		if r.Chance(1, 8) {
			k = 2
		}
		// half of the runs end less than a block above the limit: the only lengths whose
		// trailing piece (what is left when the source ends) is itself longer than MaxDataOp
		d := bigDeltas[r.Intn(len(bigDeltas))]
		if r.Chance(1, 2) {
			d = []int{1, 2, 5000, BS - 1, r.Range(1, BS-1), r.Range(1, BS-1)}[r.Intn(6)]
		} else if r.Chance(1, 6) {
			d = r.Range(-BS, 2*BS)
		}
		return k*wsync.MaxDataOp + d
	}
	shape := []int{0, 0, 0, 1, 2, 2}[r.Intn(6)]
	m := []int{0, 1, 1, 1, 2, 3}[r.Intn(6)]
	l0, l1 := runLen(), runLen()
	trailFrom := []int{2 * BS, 2 * BS, BS, 3 * BS}[r.Intn(4)]
	trailTo := len(x)
	if r.Chance(1, 3) {
		trailTo = 3 * BS
	}
	switch fixed {
	case 0: // one reused block, then a little over MaxDataOp of fresh data up to the end
		shape, m, l1 = 0, 1, wsync.MaxDataOp+5000
	case 1: // the same after a first buffer cycle
		shape, m, l0, l1 = 2, 1, wsync.MaxDataOp+BS+1, wsync.MaxDataOp+1
	case 2: // two reused blocks: the buffer wraps right before the end
		shape, m, l1 = 0, 2, wsync.MaxDataOp+BS-1
	}
	if shape == 2 && m == 0 {
		m = 1
	}
	var d []byte
	var how string
	switch shape {
	case 0:
		d = cat(x[:m*BS], r.Bytes(l1))
		how = fmt.Sprintf("X[0,%d)+fresh(%d)", m, l1)
	case 1:
		if trailTo <= trailFrom {
			trailTo = len(x)
		}
		d = cat(x[:m*BS], r.Bytes(l1), x[trailFrom:trailTo])
		how = fmt.Sprintf("X[0,%d)+fresh(%d)+X[%d:%d]", m, l1, trailFrom, trailTo)
	default:
		d = cat(r.Bytes(l0), x[:m*BS], r.Bytes(l1))
		how = fmt.Sprintf("fresh(%d)+X[0,%d)+fresh(%d)", l0, m, l1)
	}
	old, nw := &lib.Build{}, &lib.Build{}
	old.Put(lib.Entry{Path: "assets.bin", Kind: "file", Data: x})
	old.Put(lib.Entry{Path: "readme", Kind: "file", Data: []byte("hello")})
	nw.Put(lib.Entry{Path: "readme", Kind: "file", Data: []byte("hello")})
	p := "assets.bin"
	if fixed < 0 && r.Chance(1, 4) {
		p = "big.bin" // X is not the preferred file
		if r.Bool() {
			nw.Put(lib.Entry{Path: "assets.bin", Kind: "file", Data: x})
		}
	}
	nw.Put(lib.Entry{Path: p, Kind: "file", Data: d})
	return old, nw, []string{"bigrun:" + p + ":" + how}
}

func c01BigRuns(c *Ctx) error {
	r := c.Rng.Fork()
	// compression of > 4 MiB of incompressible bytes: the cheap settings in a quick run
	comps := []lib.Compression{lib.Compressions[0], lib.Compressions[1], lib.Compressions[4]}
	if c.Tier == "thorough" {
		comps = lib.Compressions
	}
	nfixed := 3
	n := nFor(c, 9, 150, 30)
	for i := 0; i < nfixed+n; i++ {
		cr := r.Fork()
		fixed := -1
		cls := "bigrun/"
		if i < nfixed {
			fixed = i
			cls = "corpus/bigrun/"
		}
		old, nw, rel := genBigRunPair(cr, fixed)
		comp := comps[(i+int(c.Seed))%len(comps)]
		if err := runFreshCase(c, fmt.Sprintf("c01-bigrun-%d", i), old, nw, freshOpts{class: cls + comp.String(), comps: []lib.Compression{comp}, rel: rel, subkey: fmt.Sprint(i)}); err != nil {
			return err
		}
	}
	return nil
}

// ---------------------------------------------------------------- apply1 in sequence

// cachePool is an in-memory lake.Pool with the reader caching of lake's fspool: one cached
// reader (of the file asked for last), shared by every caller; GetReader rewinds it.
type cachePool struct {
	files [][]byte
	idx   int64
	rd    *bytes.Reader
}

var _ lake.Pool = (*cachePool)(nil)

func (p *cachePool) GetSize(i int64) int64 { return int64(len(p.files[i])) }
func (p *cachePool) GetReadSeeker(i int64) (io.ReadSeeker, error) {
	if i < 0 || int(i) >= len(p.files) {
		return nil, fmt.Errorf("cachepool: no file %d", i)
	}
	if p.rd == nil || p.idx != i {
		p.rd, p.idx = bytes.NewReader(p.files[i]), i
	}
	return p.rd, nil
}
func (p *cachePool) GetReader(i int64) (io.Reader, error) {
	rs, err := p.GetReadSeeker(i)
	if err != nil {
		return nil, err
	}
	if _, err := rs.Seek(0, io.SeekStart); err != nil {
		return nil, err
	}
	return rs, nil
}
func (p *cachePool) Close() error { p.rd, p.idx = nil, -1; return nil }

// c01ApplySeq: several block ranges through ONE wsync.Context and ONE pool; between two ranges
// another user of the pool (what the bowl's Transpose is to the patcher) reads a file, part of
// it, or seeks. Every range is one apply1 case: the bytes it wrote must be the blocks it names
// whatever came before.
func c01ApplySeq(c *Ctx) error {
	r := c.Rng.Fork()
	n := nFor(c, 120, 3000, 600)
	bss := []int{1, 2, 3, 4, 5, 8, 16}
	for i := 0; i < n; i++ {
		cr := r.Fork()
		bs := bss[cr.Intn(len(bss))]
		nf := cr.Range(1, 3)
		files := make([][]byte, nf)
		sizes := make([]int, nf)
		rl := make([]string, nf)
		for k := range files {
			size := cr.Range(1, 5) * bs
			switch cr.Intn(4) {
			case 0:
				size += cr.Intn(bs)
			case 1:
				if size > 1 {
					size--
				}
			}
			d := make([]byte, size)
			for j := range d {
				d[j] = byte(1 + k*100 + (j/bs)*16 + j%bs%16)
			}
			files[k], sizes[k], rl[k] = d, size, lib.CoqRle(d)
		}
		var pool lake.Pool
		poolKind := "cached-reader"
		if cr.Chance(1, 4) {
			pool, poolKind = lib.NewMemPool(files), "fresh-reader"
		} else {
			pool = &cachePool{files: files, idx: -1}
		}
		wctx := wsync.NewContext(bs)
		stopped := make([]int64, nf) // block after the last range applied per file
		f := int64(cr.Intn(nf))
		var seq []string
		nops := cr.Range(2, 5)
		for k := 0; k < nops; k++ {
			if !cr.Chance(3, 4) {
				f = int64(cr.Intn(nf))
			}
			nb := (int64(sizes[f]) + int64(bs) - 1) / int64(bs)
			touch := "none"
			if k > 0 || cr.Chance(1, 3) {
				g := f
				switch cr.Intn(8) {
				case 0, 1: // a whole-file copy of the same file
					touch = fmt.Sprintf("read-all(%d)", g)
					if rd, err := pool.GetReader(g); err == nil {
						io.Copy(io.Discard, rd)
					}
				case 2: // a whole-file copy of another file
					g = int64(cr.Intn(nf))
					touch = fmt.Sprintf("read-all(%d)", g)
					if rd, err := pool.GetReader(g); err == nil {
						io.Copy(io.Discard, rd)
					}
				case 3:
					l := int64(cr.Range(0, sizes[g]))
					touch = fmt.Sprintf("read(%d,%d)", g, l)
					if rd, err := pool.GetReader(g); err == nil {
						io.CopyN(io.Discard, rd, l)
					}
				case 4:
					to := int64(cr.Range(0, sizes[g]))
					touch = fmt.Sprintf("seek(%d,%d)", g, to)
					if rs, err := pool.GetReadSeeker(g); err == nil {
						rs.Seek(to, io.SeekStart)
					}
				}
			}
			class := "in-bounds"
			bi := stopped[f]
			if bi >= nb || !cr.Chance(2, 3) {
				bi = int64(cr.Intn(int(nb)))
			}
			if bi == stopped[f] && bi > 0 {
				class = "resumes" // starts where the previous range on this file stopped
			}
			sp := int64(cr.Range(1, int(nb-bi)))
			if cr.Chance(1, 4) {
				sp = nb - bi
			}
			if cr.Chance(1, 10) {
				sp = nb - bi + int64(cr.Range(1, 2))
				class = "past-end"
			}
			seq = append(seq, "touch:"+touch, fmt.Sprintf("range(%d,%d,%d)", f, bi, sp))
			var out bytes.Buffer
			cls, msg := lib.Guard(func() error {
				return wctx.ApplySingleFull(&out, pool, wsync.Operation{Type: wsync.OpBlockRange, FileIndex: f, BlockIndex: bi, BlockSpan: sp}, true)
			})
			inBounds := bi+sp <= nb
			oracle := ""
			if inBounds {
				d := files[f]
				from, to := bi*int64(bs), (bi+sp)*int64(bs)
				if to > int64(len(d)) {
					to = int64(len(d))
				}
				if cls != "ok" {
					oracle = "in-bounds range: " + cls + ": " + msg
				} else if out.Len() != int(to-from) {
					oracle = fmt.Sprintf("in-bounds range (step %d of a sequence on one context and pool) wrote %d bytes, the blocks hold %d", k, out.Len(), to-from)
				} else if !bytes.Equal(out.Bytes(), d[from:to]) {
					oracle = fmt.Sprintf("in-bounds range (step %d of a sequence on one context and pool) wrote other bytes than blocks [%d,%d) of file %d hold", k, bi, bi+sp, f)
				}
				stopped[f] = bi + sp
			}
			outB := out.Bytes()
			if cls != "ok" {
				outB = nil
			}
			tk := touch
			if j := bytes.IndexByte([]byte(tk), '('); j >= 0 {
				tk = tk[:j]
			}
			c.Out.Emit(&lib.Case{Group: "apply1", Class: fmt.Sprintf("apply1/seq/%s/after-%s/bs%d", class, tk, bs), Nontrivial: inBounds,
				Input: map[string]interface{}{"bs": bs, "sizes": sizes, "file": f, "blockIndex": bi, "blockSpan": sp, "pool": poolKind, "step": k,
					"sequence": append([]string(nil), seq...)},
				Obs: map[string]interface{}{"class": cls, "written": out.Len()}, Oracle: oracle,
				Coq: fmt.Sprintf("($ID%%N, %s, %s, (%s, %s, %s), (%s, %s))", lib.CoqZ(int64(bs)), lib.CoqList(rl), lib.CoqZ(f), lib.CoqZ(bi), lib.CoqZ(sp),
					lib.CoqZ(classCode(cls)), lib.CoqRle(outB))})
			if cls != "ok" {
				break
			}
		}
	}
	return nil
}
