package main

// C10 — oracle, known-finding matchers, corpus, file-system limits, Coq case printer.

import (
	"encoding/hex"
	"fmt"
	"os"
	"path/filepath"
	"strings"

	"github.com/golang/protobuf/proto"

	"github.com/itchio/wharf/bsdiff"
	"github.com/itchio/wharf/pwr"

	"verif/harness/lib"
)

// c10Limits: what the file system under the scratch directory allows.  Seeking an *os.File beyond
// SeekMax fails (EINVAL), a write ending beyond WriteMax fails (EFBIG); both are properties of
// the file system (ext4: 2^44-4096, tmpfs: 2^63-1), so the model takes them as parameters.
type c10Limits struct{ SeekMax, WriteMax int64 }

func c10ProbeLimits(dir string) (*c10Limits, error) {
	p := filepath.Join(dir, "c10-probe")
	f, err := os.OpenFile(p, os.O_CREATE|os.O_RDWR, 0o644)
	if err != nil {
		return nil, err
	}
	defer os.Remove(p)
	defer f.Close()
	bisect := func(ok func(int64) bool) int64 { // largest v in [0, 2^63-1] with ok(v); ok is monotone
		lo, hi := int64(0), int64(1<<63-1)
		if ok(hi) {
			return hi
		}
		for lo+1 < hi {
			mid := lo + (hi-lo)/2
			if ok(mid) {
				lo = mid
			} else {
				hi = mid
			}
		}
		return lo
	}
	lim := &c10Limits{}
	lim.SeekMax = bisect(func(v int64) bool { _, err := f.Seek(v, 0); return err == nil })
	lim.WriteMax = bisect(func(v int64) bool {
		if v == 0 {
			return true
		}
		_, err := f.WriteAt([]byte{1}, v-1)
		f.Truncate(0)
		return err == nil
	})
	f.Seek(0, 0)
	return lim, nil
}

// c10OptimizeInChild runs lib.Optimize on a valid patch in a child process.
func c10OptimizeInChild(c *Ctx, patch []byte, oldDir, newDir string) (*c10Res, []byte, error) {
	outPath := filepath.Join(c.Tmp, "c10-optimized.pwr")
	defer os.Remove(outPath)
	rs, err := c10RunJobs(c, []*c10Job{{Feeder: c10FOptBase, Stream: patch, Old: oldDir, New: newDir, Out: outPath}})
	if err != nil {
		return nil, nil, err
	}
	if rs[0].Class != "ok" {
		return rs[0], nil, nil
	}
	b, err := os.ReadFile(outPath)
	return rs[0], b, err
}

// ---------- corpus: inputs that failed on the unchanged tree (DESIGN §7 #13, #14 and what the
// sweep of this check found); they run first on every run ----------

func c10Corpus(scs []*c10Scenario, add func(*c10Plan)) {
	var tiny, mixed, blocks, emptyOld *c10Scenario
	for _, sc := range scs {
		switch sc.Name {
		case "tiny":
			tiny = sc
		case "mixed":
			mixed = sc
		case "blocks":
			blocks = sc
		case "empty-old":
			emptyOld = sc
		}
	}
	none := c10Framings[0]
	firstOp := func(s *c10Stream, typ pwr.SyncOp_Type) int {
		for i, m := range s.Msgs {
			if op, ok := m.(*pwr.SyncOp); ok && op.Type == typ {
				return i
			}
		}
		return -1
	}
	plan := func(sc *c10Scenario, base, feeder, desc string, s *c10Stream) {
		add(&c10Plan{Scenario: sc.Name, Base: base, Class: "corpus", Desc: desc, Framing: none, Feeder: feeder, Stream: s, TruncAt: -1, sc: sc, Corpus: true})
	}
	if tiny != nil {
		if i := firstOp(tiny.Plain, pwr.SyncOp_BLOCK_RANGE); i >= 0 {
			for _, v := range []int64{7, -1, 1, 1 << 62} {
				// #13: one BLOCK_RANGE with fileIndex 7 over a 1-file container
				s := tiny.Plain.clone()
				s.Msgs[i].(*pwr.SyncOp).FileIndex = v
				plan(tiny, "plain", c10FPatFresh, fmt.Sprintf("#13 first BLOCK_RANGE fileIndex=%d over a 1-file container (isFullFileOp)", v), s)
				plan(tiny, "plain", c10FPatOverlay, fmt.Sprintf("#13 first BLOCK_RANGE fileIndex=%d over a 1-file container (isFullFileOp), overlay bowl", v), s)
				plan(tiny, "plain", c10FRediff, fmt.Sprintf("#13 BLOCK_RANGE fileIndex=%d over a 1-file container (rediff.analyzePatch)", v), s)
				// same with blockIndex != 0: passes isFullFileOp, reaches wsync.ApplySingleFull -> pool.GetSize
				s2 := s.clone()
				s2.Msgs[i].(*pwr.SyncOp).BlockIndex = 1
				plan(tiny, "plain", c10FPatFresh, fmt.Sprintf("#13 first BLOCK_RANGE fileIndex=%d blockIndex=1 (ApplySingleFull -> pool.GetSize)", v), s2)
			}
			// a later (relayed) op
			s := tiny.Plain.clone()
			ins := &pwr.SyncOp{Type: pwr.SyncOp_BLOCK_RANGE, FileIndex: 7, BlockIndex: 0, BlockSpan: 1}
			s.Msgs = append(s.Msgs[:i+1:i+1], append([]proto.Message{ins}, s.Msgs[i+1:]...)...)
			plan(tiny, "plain", c10FPatFresh, "#13 second op BLOCK_RANGE fileIndex=7 (relay loop -> ApplySingleFull -> pool.GetSize)", s)
		}
	}
	if emptyOld != nil {
		i := firstOp(emptyOld.Plain, pwr.SyncOp_DATA)
		if i >= 0 {
			s := emptyOld.Plain.clone()
			s.Msgs[i] = &pwr.SyncOp{Type: pwr.SyncOp_BLOCK_RANGE}
			plan(emptyOld, "plain", c10FPatFresh, "#13 BLOCK_RANGE{0,0,0} over an old container without files", s)
			plan(emptyOld, "plain", c10FRediff, "#13 BLOCK_RANGE{0,0,0} over an old container without files (rediff)", s)
		}
	}
	for _, sc := range []*c10Scenario{mixed, blocks} {
		if sc == nil || sc.Opt == nil {
			continue
		}
		for i, m := range sc.Opt.Msgs {
			if _, ok := m.(*pwr.BsdiffHeader); ok {
				for _, v := range []int64{int64(len(sc.Opt.TC.Files)), -1, 1 << 62} {
					s := sc.Opt.clone()
					s.Msgs[i].(*pwr.BsdiffHeader).TargetIndex = v
					plan(sc, "opt", c10FPatFresh, fmt.Sprintf("BsdiffHeader.targetIndex=%d (processBsdiff -> pool.GetReadSeeker)", v), s)
				}
				break
			}
		}
		// a control in the middle of a series that leaves a negative / too large old offset behind
		off := int64(0)
		for i, m := range sc.Opt.Msgs {
			if _, ok := m.(*pwr.BsdiffHeader); ok {
				off = 0
			}
			ct, ok := m.(*bsdiff.Control)
			if !ok || ct.Eof || i+1 >= len(sc.Opt.Msgs) {
				continue
			}
			after := off + int64(len(ct.Add))
			off = after + ct.Seek
			if nx, ok := sc.Opt.Msgs[i+1].(*bsdiff.Control); !ok || nx.Eof {
				continue
			}
			// -after-5: the old offset becomes -5 (inside "chunk 0" of the LRU file cache)
			for _, v := range []int64{-after - 5, -(1 << 40), 1 << 40} {
				s := sc.Opt.clone()
				s.Msgs[i].(*bsdiff.Control).Seek = v
				plan(sc, "opt", c10FPatFresh, fmt.Sprintf("Control %d seek=%d in the middle of a bsdiff series (old offset outside the old file)", i, v), s)
				// ... and the next control adds from there
				s2 := s.clone()
				s2.Msgs[i+1].(*bsdiff.Control).Add = make([]byte, 64)
				plan(sc, "opt", c10FPatFresh, fmt.Sprintf("Control %d seek=%d, next control adds 64 bytes from there", i, v), s2)
			}
			break
		}
		// an optimized patch fed to the optimizer again: controls read as BLOCK_RANGE ops
		plan(sc, "opt", c10FRediff, "optimized patch fed to rediff (bsdiff series read as rsync ops)", sc.Opt.clone())
	}
	for _, sc := range scs {
		if sc.Name != "empties" {
			continue
		}
		// a block range naming an EMPTY old file made rediff choose it as bsdiff target; bsdiff then
		// died in a suffix-sort goroutine (found by this check's sweep; bsdiff.NewPSA, psa.go:42)
		for i, m := range sc.Plain.Msgs {
			if sh, ok := m.(*pwr.SyncHeader); ok && sh.FileIndex == 1 {
				s := sc.Plain.clone()
				// the file's own full-file op gets span -1 (it then accounts for -1 reused bytes), and a
				// block of the empty old file 0 follows: file 0 becomes the best "origin" of this file
				if op, ok := s.Msgs[i+1].(*pwr.SyncOp); !ok || op.Type != pwr.SyncOp_BLOCK_RANGE {
					break
				}
				s.Msgs[i+1].(*pwr.SyncOp).BlockSpan = -1
				ins := []proto.Message{
					&pwr.SyncOp{Type: pwr.SyncOp_BLOCK_RANGE, FileIndex: 0, BlockIndex: 0, BlockSpan: 1},
				}
				s.Msgs = append(s.Msgs[:i+2:i+2], append(ins, s.Msgs[i+2:]...)...)
				plan(sc, "plain", c10FRediff, "block ranges naming an empty old file (rediff maps to it, bsdiff on empty input)", s)
				plan(sc, "plain", c10FPatFresh, "block ranges naming an empty old file", s)
				break
			}
		}
	}
	for _, sc := range scs {
		if sc.Name != "chunks" || sc.Opt == nil {
			continue
		}
		// seeded C10-1 (lrufile.Read took "last chunk" from the chunk index: a read that starts exactly
		// at the end of an old file of k * 32 KiB never saw EOF and spun): a control leaves the old
		// offset at the end of the old file and the next one adds a byte, per series of the scenario
		// whose old files are 1, 2, 3 chunks, 1 chunk + 1, 2 chunks - 1 and 2 blocks long
		for _, m := range c10PatchMuts(sc.Opt) {
			if m.Always && m.Class == "ctl.add-at-end" {
				s := sc.Opt.clone()
				m.Apply(s)
				plan(sc, "opt", c10FPatFresh, "add starting exactly at the end of the old file: "+m.Desc, s)
			}
		}
	}
	if blocks != nil {
		// #14: container needs more hashes than the signature carries
		n := len(blocks.Sig.Msgs)
		for _, keep := range []int{1, 0, n - 1} {
			if keep < 0 || keep >= n {
				continue
			}
			s := blocks.Sig.clone()
			s.Msgs = s.Msgs[:keep]
			plan(blocks, "sig", c10FSig, fmt.Sprintf("#14 container needs %d hashes, signature carries %d", n, keep), s)
		}
	}
}

// ---------- verdict per case ----------

// c10Finding: known, not-yet-repaired crash sites outside this property's files, identified by the
// call site on top of the panic stack.
func c10Finding(p *c10Plan, r *c10Res) string {
	return ""
}

func c10Cls(class string) string {
	switch class {
	case "ok":
		return "COk"
	case "error":
		return "CErr"
	case "panic":
		return "CPanic"
	}
	return "CHang"
}

func c10Emit(c *Ctx, p *c10Plan, r *c10Res, lim *c10Limits) {
	oracle := ""
	if r.Class == "skipped" {
		c.Out.Emit(&lib.Case{Class: p.Feeder + ":skipped", Input: map[string]interface{}{"scenario": p.Scenario, "base": p.Base, "mutation": p.Desc, "feeder": p.Feeder},
			Obs: map[string]interface{}{"class": "skipped", "why": r.Msg}})
		return
	}
	if r.Class != "ok" && r.Class != "error" {
		site := r.Wharf
		if site == "" {
			site = r.Top
		}
		oracle = fmt.Sprintf("%s fed a malformed %s stream (%s): %s at %s [stage %s]: %s", p.Feeder, p.Base, p.Desc, r.Class, site, r.Stage, r.Msg)
	}
	if r.Stage == "harness" || r.Stage == "setup" {
		oracle = "harness problem: " + r.Msg
	}
	finding := ""
	if oracle != "" {
		finding = c10Finding(p, r)
	}
	in := map[string]interface{}{"scenario": p.Scenario, "base": p.Base, "mutation": p.Desc, "framing": p.Framing.String(), "feeder": p.Feeder, "streamLen": len(p.Bytes)}
	if len(p.Bytes) <= 1500 {
		in["streamHex"] = hex.EncodeToString(p.Bytes)
	}
	if p.Job.HasWL {
		in["whitelist"] = p.Job.WL
	}
	if p.Stream != nil && p.Stream.HdrSet {
		in["headerHex"] = hex.EncodeToString(p.Stream.Hdr)
	}
	if p.Stream != nil && p.TruncAt < 0 && len(p.Stream.Msgs) <= 40 {
		ms := make([]string, len(p.Stream.Msgs))
		for i, m := range p.Stream.Msgs {
			ms[i] = c10MsgString(m)
		}
		in["messages"] = ms
		in["oldSizes"] = c10FileSizes(p.Stream.TC)
		in["newSizes"] = c10FileSizes(p.Stream.SC)
	}
	obs := map[string]interface{}{"class": r.Class, "stage": r.Stage, "ms": r.Ms}
	if r.Class == "panic" || r.Class == "hang" {
		obs["site"] = r.Wharf
		obs["top"] = r.Top
		obs["msg"] = r.Msg
	}
	if p.Feeder == c10FSig {
		obs["hashes"] = r.Len
		obs["cap"] = r.Cap
	}
	group, coq := c10Coq(p, r, lim)
	if finding != "" {
		group, coq = "", "" // a known crash of code outside the model is not compared
	}
	cls := p.Class
	if p.TruncAt >= 0 {
		cls += "/" + p.Framing.Algo.String()
	}
	c.Out.Emit(&lib.Case{Group: group, Class: p.Feeder + ":" + cls, Nontrivial: p.Class != "valid", Input: in, Obs: obs, Oracle: oracle, Finding: finding, Coq: coq})
}

// c10Coq renders the case for the model: containers' file sizes, the frames as generic field
// lists, the file-system limits, and the observed class.
func c10Coq(p *c10Plan, r *c10Res, lim *c10Limits) (group, term string) {
	if p.Stream == nil || p.Tail == "-" || p.NoModel {
		return "", ""
	}
	msgs := p.Stream.Msgs
	tail := ""
	if p.TruncAt >= 0 {
		msgs = msgs[:p.NFrames]
		tail = p.Tail
	}
	frames := c10FramesCoq(msgs, tail)
	if len(frames) > 200000 {
		return "", ""
	}
	switch p.Feeder {
	case c10FPatFresh, c10FPatOverlay:
		wl := "None"
		if p.Job.HasWL {
			wl = "(Some " + c10ZList(p.Job.WL) + ")"
		}
		return "pat", fmt.Sprintf("mkpat $ID%%N %s %s %s %d %s %s", c10ZList(c10FileSizes(p.Stream.TC)), c10ZList(c10FileSizes(p.Stream.SC)), wl, lim.SeekMax, frames, c10Cls(r.Class))
	case c10FRediff:
		return "red", fmt.Sprintf("mkred $ID%%N %s %s %s %s", c10ZList(c10FileSizes(p.Stream.TC)), c10ZList(c10FileSizes(p.Stream.SC)), frames, c10Cls(r.Class))
	case c10FSig:
		return "sig", fmt.Sprintf("mksig $ID%%N %s %s %s", c10ZList(c10FileSizes(p.Stream.SC)), frames, c10Cls(r.Class))
	case c10FOverlay:
		return "ovl", fmt.Sprintf("mkovl $ID%%N %d %d %s %s", lim.SeekMax, lim.WriteMax, frames, c10Cls(r.Class))
	}
	return "", ""
}

var _ = strings.Join
