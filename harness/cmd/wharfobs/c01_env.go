package main

// C01 — the *configurations* a build pair is diffed and applied under, added after the seeded
// variants C01-7 / C01-8 / C01-9 were missed (see seeded/C01/NOTES.md). Until then every case
// ran under one configuration: the signature of the old build computed from disk by
// pwr.ComputeSignature, both builds served by lake's fspool, i.e. by *os.File readers, which
// fill the caller's buffer on every read but the last and report io.EOF on an extra empty
// read. Everything in the diff / apply path that is only correct for that reader (a copy loop
// that takes a short read for the end of the file, a loop that drops the bytes delivered
// together with io.EOF) and everything that only runs when the old signature comes from a
// signature file (pwr.ReadSignature: the ordinary push flow) was out of reach.
//
//   - readStyle / styledPool: a lake.Pool whose readers deliver the same bytes the way other
//     legal io.Readers do: at most k bytes per Read (fixed or a fresh random length each time),
//     the last bytes together with io.EOF (zip / flate / iotest.DataErrReader behaviour).
//   - c01Env: the reader style of the new-build pool (WritePatch), of the old-build pool
//     (patcher + bowl), and where the old build's signature comes from: computed over fspool,
//     computed over a styled pool, or read back with pwr.ReadSignature from the signature file
//     that WritePatch wrote when the old build itself was pushed (diff empty -> old, or diff
//     new -> old).
//
// None of this changes what correct code emits (the differ fills whole blocks with
// io.ReadAtLeast), so the model comparison of the group `fresh` is untouched.

import (
	"bytes"
	"context"
	"fmt"
	"hash/fnv"
	"io"

	"github.com/itchio/lake"
	"github.com/itchio/lake/pools/fspool"
	"github.com/itchio/lake/tlc"
	"github.com/itchio/wharf/pwr"
	"github.com/itchio/wharf/wsync"

	"verif/harness/lib"
)

// ---------------------------------------------------------------- reader styles

type readStyle struct {
	maxChunk    int  // 0: as many bytes as asked for; else at most this many per Read
	jitter      bool // a fresh length in 1..maxChunk on every Read
	eofWithData bool // the last bytes of the file come together with io.EOF
}

func (s readStyle) plain() bool { return s.maxChunk == 0 && !s.eofWithData }

func (s readStyle) String() string {
	if s.plain() {
		return "plain"
	}
	out := ""
	if s.maxChunk > 0 {
		out = fmt.Sprintf("<=%d", s.maxChunk)
		if s.jitter {
			out = fmt.Sprintf("1..%d", s.maxChunk)
		}
	}
	if s.eofWithData {
		if out != "" {
			out += ","
		}
		out += "data+EOF"
	}
	return out
}

// styledPool serves the files of the pool it wraps through styledReaders.
type styledPool struct {
	inner lake.Pool
	st    readStyle
	rng   *lib.Rng
}

var _ lake.Pool = (*styledPool)(nil)

func stylePool(p lake.Pool, st readStyle, seed uint64) lake.Pool {
	if st.plain() {
		return p
	}
	return &styledPool{inner: p, st: st, rng: lib.NewRng(seed)}
}

func (p *styledPool) GetSize(i int64) int64 { return p.inner.GetSize(i) }
func (p *styledPool) Close() error          { return p.inner.Close() }

// GetReader: a plain io.Reader (no Seek, no WriteTo / ReadFrom short cuts).
func (p *styledPool) GetReader(i int64) (io.Reader, error) {
	r, err := p.inner.GetReader(i)
	if err != nil {
		return nil, err
	}
	return &styledReader{r: r, size: p.inner.GetSize(i), st: p.st, rng: p.rng}, nil
}

func (p *styledPool) GetReadSeeker(i int64) (io.ReadSeeker, error) {
	rs, err := p.inner.GetReadSeeker(i)
	if err != nil {
		return nil, err
	}
	pos, err := rs.Seek(0, io.SeekCurrent) // fspool hands out its cached reader wherever it stands
	if err != nil {
		return nil, err
	}
	return &styledReadSeeker{styledReader{r: rs, size: p.inner.GetSize(i), pos: pos, st: p.st, rng: p.rng}, rs}, nil
}

type styledReader struct {
	r    io.Reader
	size int64
	pos  int64
	st   readStyle
	rng  *lib.Rng
}

func (s *styledReader) Read(b []byte) (int, error) {
	if len(b) == 0 {
		return 0, nil
	}
	lim := len(b)
	if s.st.maxChunk > 0 {
		k := s.st.maxChunk
		if s.st.jitter {
			k = 1 + s.rng.Intn(k)
		}
		if k < lim {
			lim = k
		}
	}
	n, err := s.r.Read(b[:lim])
	s.pos += int64(n)
	if err == nil && n > 0 && s.st.eofWithData && s.pos >= s.size {
		err = io.EOF
	}
	return n, err
}

type styledReadSeeker struct {
	styledReader
	sk io.Seeker
}

func (s *styledReadSeeker) Seek(off int64, whence int) (int64, error) {
	p, err := s.sk.Seek(off, whence)
	if err == nil {
		s.pos = p
	}
	return p, err
}

// ---------------------------------------------------------------- environments

const (
	sigComputed  = "computed"         // pwr.ComputeSignature over fspool
	sigStyled    = "computed/styled"  // pwr.ComputeSignature over a styled old-build pool
	sigFirstPush = "file/first-push"  // signature file written by WritePatch(empty -> old), read by pwr.ReadSignature
	sigReverse   = "file/reverse"     // signature file written by WritePatch(new -> old), read by pwr.ReadSignature
	envSeedMix   = 0x5bd1e9955bd1e995 // keeps the environment choices apart from the case generators' random stream
)

type c01Env struct {
	sig           string
	src, tgt, sgn readStyle // new-build pool (diff), old-build pool (apply), old-build pool (signature)
	seed          uint64
}

func (e c01Env) String() string {
	s := fmt.Sprintf("sig=%s src=%s tgt=%s", e.sig, e.src, e.tgt)
	if e.sig != sigComputed {
		s += fmt.Sprintf(" sigpool=%s", e.sgn)
	}
	return s
}

var c01PlainEnv = c01Env{sig: sigComputed}

// c01FixedEnvs: one per compression of a corpus pair (9), so that every fixed pair meets every
// signature source and every reader behaviour on either side in every run.
var c01FixedEnvs = []c01Env{
	{sig: sigComputed},
	{sig: sigFirstPush},
	{sig: sigComputed, src: readStyle{eofWithData: true}},
	{sig: sigComputed, tgt: readStyle{maxChunk: 32767}},
	{sig: sigReverse, tgt: readStyle{eofWithData: true}},
	{sig: sigStyled, sgn: readStyle{maxChunk: 16384, eofWithData: true}, src: readStyle{maxChunk: 65537}},
	{sig: sigFirstPush, sgn: readStyle{maxChunk: 5000, jitter: true}, src: readStyle{maxChunk: 40000, jitter: true, eofWithData: true}, tgt: readStyle{maxChunk: 70000, jitter: true}},
	{sig: sigComputed, src: readStyle{maxChunk: 16383}, tgt: readStyle{maxChunk: 1000, eofWithData: true}},
	{sig: sigReverse, sgn: readStyle{eofWithData: true}, src: readStyle{maxChunk: 4095}, tgt: readStyle{maxChunk: 1000, jitter: true}},
}

// genStyle: small: the files are small enough for reads of a few bytes.
func genStyle(r *lib.Rng, small bool) readStyle {
	if r.Chance(1, 4) {
		return readStyle{}
	}
	chunks := []int{0, 0, 1000, 4096, 16383, 16384, 16385, 32767, 32768, 32769, 65535, 65536, 65537, 100000}
	if small {
		chunks = append(chunks, 1, 3, 17)
	}
	st := readStyle{maxChunk: chunks[r.Intn(len(chunks))], eofWithData: r.Chance(2, 5)}
	st.jitter = st.maxChunk > 0 && r.Chance(1, 3)
	if st.jitter && st.maxChunk < 1000 && !small {
		st.jitter = false
	}
	return st
}

// genEnv: the environment of (case name, compression index) under this seed: one in five plain
// (what every case ran under before), else every dimension drawn independently.
func genEnv(c *Ctx, name string, ci int, bytesTotal int64) c01Env {
	h := fnv.New64a()
	fmt.Fprintf(h, "%s/%d", name, ci)
	r := lib.NewRng(h.Sum64() ^ (c.Seed * envSeedMix))
	e := c01Env{sig: sigComputed, seed: r.U64()}
	if r.Chance(1, 5) {
		return e
	}
	small := bytesTotal <= 2*int64(lib.BS)
	e.sig = []string{sigComputed, sigComputed, sigStyled, sigFirstPush, sigFirstPush, sigReverse}[r.Intn(6)]
	e.src, e.tgt, e.sgn = genStyle(r, small), genStyle(r, small), genStyle(r, small)
	if e.sig == sigComputed {
		e.sgn = readStyle{}
	}
	return e
}

// ---------------------------------------------------------------- diff / apply under an environment

// sigFile: the signature file WritePatch writes for the build in dir (container c) when that
// build is diffed against target (nil: nothing, the first push of a game).
func sigFile(dir string, c *tlc.Container, pool lake.Pool, tc *tlc.Container, ts []wsync.BlockHash, comp lib.Compression) ([]byte, error) {
	dctx := &pwr.DiffContext{Compression: comp.Settings(), Consumer: lib.Quiet, SourceContainer: c, Pool: pool, TargetContainer: tc, TargetSignature: ts}
	var sig bytes.Buffer
	if err := dctx.WritePatch(context.Background(), io.Discard, &sig); err != nil {
		return nil, err
	}
	return sig.Bytes(), nil
}

// c01Diff is lib.Diff under env: the old build's signature from env.sig, the new build read
// through env.src.
func c01Diff(oldDir, newDir string, comp lib.Compression, env c01Env) (*lib.DiffResult, error) {
	oldC, err := lib.Walk(oldDir)
	if err != nil {
		return nil, err
	}
	nc, err := lib.Walk(newDir)
	if err != nil {
		return nil, err
	}
	oldPool := func() lake.Pool { return stylePool(fspool.New(oldC, oldDir), env.sgn, env.seed+1) }
	oldSig := &pwr.SignatureInfo{Container: oldC}
	switch env.sig {
	case sigComputed, sigStyled:
		oldSig.Hashes, err = pwr.ComputeSignature(context.Background(), oldC, oldPool(), lib.Quiet)
		if err != nil {
			return nil, fmt.Errorf("signature of the old build: %w", err)
		}
	default:
		var file []byte
		if env.sig == sigFirstPush {
			file, err = sigFile(oldDir, oldC, oldPool(), &tlc.Container{}, nil, comp)
		} else {
			var ns *pwr.SignatureInfo
			if ns, err = lib.SignDir(newDir); err == nil {
				file, err = sigFile(oldDir, oldC, oldPool(), ns.Container, ns.Hashes, comp)
			}
		}
		if err != nil {
			return nil, fmt.Errorf("signature file of the old build (%s): %w", env.sig, err)
		}
		// what a push does: container and hashes both come from the file
		oldSig, err = lib.ReadSig(file)
		if err != nil {
			return nil, fmt.Errorf("reading the signature file of the old build back: %w", err)
		}
	}
	dctx := &pwr.DiffContext{Compression: comp.Settings(), Consumer: lib.Quiet, SourceContainer: nc, Pool: stylePool(fspool.New(nc, newDir), env.src, env.seed+2),
		TargetContainer: oldSig.Container, TargetSignature: oldSig.Hashes}
	var p, s bytes.Buffer
	if err := dctx.WritePatch(context.Background(), &p, &s); err != nil {
		return nil, err
	}
	return &lib.DiffResult{Patch: p.Bytes(), Sig: s.Bytes(), Fresh: dctx.FreshBytes, Reused: dctx.ReusedBytes, OldSig: oldSig, NewContainer: nc}, nil
}

// c01WrapTarget: the wrapPool argument of lib.ApplyFresh for env (the pool is shared by the
// patcher and the bowl, as in patcher.PatchFresh).
func c01WrapTarget(env c01Env) func(lake.Pool, *tlc.Container) lake.Pool {
	if env.tgt.plain() {
		return nil
	}
	return func(p lake.Pool, _ *tlc.Container) lake.Pool { return stylePool(p, env.tgt, env.seed+3) }
}
