package main

// C15 — what else the process is doing, or did before, is a configuration too.
//
// The diff classes of c15.go run every WritePatch to completion, one after the other.  The
// classes of this file diff a pair of builds
//   - "diff/after-abandoned/<how>": after another diff of the same process was abandoned —
//     cancelled while a read of its source pool was pending (taskgroup.Do returns at once on
//     cancellation and on the first task error: the other per-file goroutines are still there),
//     or failed by a source read error — and while the pending read of the abandoned diff
//     completes (with data, or with an error because the pool was closed in the meantime);
//   - "diff/concurrent/<n>": while n-1 other diffs run in the same process.
// Oracle (the property as stated): patch and signature bytes are those of the reference run of
// the same pair with the same settings, made before anything was abandoned.  The race child
// runs both sequences under the race detector.  Oracle-only classes (group "").

import (
	"bytes"
	"context"
	"errors"
	"fmt"
	"io"
	"os"
	"runtime"
	"sync"
	"sync/atomic"
	"time"

	"github.com/itchio/lake"
	"github.com/itchio/lake/pools/fspool"
	"github.com/itchio/lake/tlc"
	"github.com/itchio/wharf/pwr"

	"verif/harness/lib"
)

// what a diff of a pair needs besides its source pool
type c15DiffEnv struct {
	p      *c15Pair
	oldSig *pwr.SignatureInfo
	nc     *tlc.Container
}

func c15Env(p *c15Pair) (*c15DiffEnv, error) {
	oldSig, err := lib.SignDir(p.oldDir)
	if err != nil {
		return nil, err
	}
	nc, err := lib.Walk(p.newDir)
	if err != nil {
		return nil, err
	}
	return &c15DiffEnv{p: p, oldSig: oldSig, nc: nc}, nil
}

// pool == nil: plain fspool over the new build
func (e *c15DiffEnv) writePatch(ctx context.Context, comp lib.Compression, pool lake.Pool) (patch, sig []byte, err error) {
	if pool == nil {
		pool = fspool.New(e.nc, e.p.newDir)
	}
	dctx := &pwr.DiffContext{Compression: comp.Settings(), Consumer: lib.Quiet, SourceContainer: e.nc, Pool: pool,
		TargetContainer: e.oldSig.Container, TargetSignature: e.oldSig.Hashes}
	var pb, sb bytes.Buffer
	if err := dctx.WritePatch(ctx, &pb, &sb); err != nil {
		// the buffers may still be written by goroutines the diff left behind: hands off
		return nil, nil, err
	}
	return pb.Bytes(), sb.Bytes(), nil
}

func (e *c15DiffEnv) run(comp lib.Compression, pool lake.Pool) (patch, sig []byte, cls, msg string) {
	cls, msg = lib.WithDeadline(120*time.Second, func() error {
		var err error
		patch, sig, err = e.writePatch(context.Background(), comp, pool)
		return err
	})
	return
}

// the new build served from memory: Close has nothing to close, a read that is pending when
// the diff gives up can still complete (as with a pool that reads over the network)
type c15MemSource struct{ e *c15DiffEnv }

func (m *c15MemSource) GetSize(i int64) int64 { return m.e.nc.Files[i].Size }
func (m *c15MemSource) GetReader(i int64) (io.Reader, error) {
	return m.GetReadSeeker(i)
}
func (m *c15MemSource) GetReadSeeker(i int64) (io.ReadSeeker, error) {
	if i < 0 || int(i) >= len(m.e.nc.Files) {
		return nil, fmt.Errorf("c15MemSource: no file %d", i)
	}
	en := m.e.p.nw.Get(m.e.nc.Files[i].Path)
	if en == nil || en.Kind != "file" || int64(len(en.Data)) != m.e.nc.Files[i].Size {
		return nil, fmt.Errorf("c15MemSource: container and build disagree on %s", m.e.nc.Files[i].Path)
	}
	return bytes.NewReader(en.Data), nil
}
func (m *c15MemSource) Close() error { return nil }

// how a diff is abandoned
var c15AbandonKinds = []string{
	"cancel/read-completes", // cancelled while a source read is pending; the read later returns its data
	"cancel/read-fails",     // same, but the pending read later fails (the pool was closed under it)
	"read-error",            // a source read fails: the diff gives up on its own
}

// c15StallPool is the source pool of the diff that is going to be abandoned: the reader of one
// file hands out `at` bytes and then, on the next Read, stalls until released (or fails)
type c15StallPool struct {
	lake.Pool
	file, at int64
	kind     string
	entered  chan struct{} // closed when the read is pending
	release  chan struct{}
	once     sync.Once
	reads    atomic.Int64 // Reads that returned after the release
	finished atomic.Bool  // the stalled reader returned an error or io.EOF
	closed   atomic.Bool
}

func newC15StallPool(p lake.Pool, file, at int64, kind string) *c15StallPool {
	return &c15StallPool{Pool: p, file: file, at: at, kind: kind, entered: make(chan struct{}), release: make(chan struct{})}
}

func (sp *c15StallPool) Close() error { sp.closed.Store(true); return nil }

func (sp *c15StallPool) GetReader(i int64) (io.Reader, error) {
	r, err := sp.Pool.GetReader(i)
	if err != nil || i != sp.file {
		return r, err
	}
	return &c15StallReader{sp: sp, r: r}, nil
}

type c15StallReader struct {
	sp      *c15StallPool
	r       io.Reader
	pos     int64
	tripped bool
}

func (s *c15StallReader) Read(b []byte) (int, error) {
	sp := s.sp
	if !s.tripped {
		if s.pos < sp.at {
			if int64(len(b)) > sp.at-s.pos {
				b = b[:sp.at-s.pos]
			}
		} else {
			s.tripped = true
			if sp.kind == "read-error" {
				sp.finished.Store(true)
				return 0, errors.New("c15: source read failed")
			}
			close(sp.entered)
			<-sp.release
			if sp.kind == "cancel/read-fails" {
				sp.reads.Add(1)
				sp.finished.Store(true)
				return 0, errors.New("c15: read on a closed pool")
			}
		}
	}
	n, err := s.r.Read(b)
	s.pos += int64(n)
	if s.tripped {
		sp.reads.Add(1)
	}
	if err != nil {
		sp.finished.Store(true)
	}
	return n, err
}

// let the pending read go, and give what the abandoned diff left behind the time to consume it:
// until its reader is through (io.EOF / error) or is not read any more (the copy loop notices
// the cancellation every 256 KiB); bounded
func (sp *c15StallPool) releaseAndSettle() {
	first := false
	sp.once.Do(func() { close(sp.release); first = true })
	if !first {
		return
	}
	select {
	case <-sp.entered:
	default:
		return // nothing was pending
	}
	last, same := int64(0), 0
	for i := 0; i < 600 && !sp.finished.Load(); i++ {
		time.Sleep(500 * time.Microsecond)
		n := sp.reads.Load()
		if n > 0 && n == last {
			if same++; same >= 6 {
				break
			}
		} else {
			same, last = 0, n
		}
	}
	for i := 0; i < 4; i++ {
		runtime.Gosched()
	}
	time.Sleep(500 * time.Microsecond)
}

// c15HookPool calls hook once, from the Read of file `file` that follows its first `at` bytes
// (or that finds the file shorter than that)
type c15HookPool struct {
	lake.Pool
	file, at int64
	hook     func()
}

func (hp *c15HookPool) GetReader(i int64) (io.Reader, error) {
	r, err := hp.Pool.GetReader(i)
	if err != nil || i != hp.file {
		return r, err
	}
	return &c15HookReader{hp: hp, r: r}, nil
}

type c15HookReader struct {
	hp    *c15HookPool
	r     io.Reader
	pos   int64
	fired bool
}

func (h *c15HookReader) Read(b []byte) (int, error) {
	if !h.fired {
		if h.pos >= h.hp.at {
			h.fired = true
			h.hp.hook()
		} else if int64(len(b)) > h.hp.at-h.pos {
			b = b[:h.hp.at-h.pos]
		}
	}
	n, err := h.r.Read(b)
	h.pos += int64(n)
	if err != nil && !h.fired {
		h.fired = true
		h.hp.hook()
	}
	return n, err
}

// abandon a diff of env's pair; returns how WritePatch ended
func c15Abandon(env *c15DiffEnv, comp lib.Compression, sp *c15StallPool) (ended string, stalled bool, oracle string) {
	ctx, cancel := context.WithCancel(context.Background())
	defer cancel()
	type res struct{ cls, msg string }
	done := make(chan res, 1)
	go func() {
		cls, msg := lib.Guard(func() error {
			_, _, err := env.writePatch(ctx, comp, sp)
			return err
		})
		done <- res{cls, msg}
	}()
	var r res
	select {
	case <-sp.entered:
		stalled = true
		cancel()
		select {
		case r = <-done:
		case <-time.After(30 * time.Second):
			sp.releaseAndSettle()
			return "hang", true, "the diff that was cancelled while a source read was pending did not return within 30s"
		}
	case r = <-done:
	case <-time.After(120 * time.Second):
		return "hang", false, "the diff with a failing source pool did not return within 2m"
	}
	switch {
	case r.cls == "panic":
		oracle = "the abandoned diff panicked: " + r.msg
	case r.cls == "ok" && stalled:
		oracle = "WritePatch reported success although it was cancelled while a read of its source was pending"
	}
	return r.cls, stalled, oracle
}

type c15AbandonPlan struct {
	kind         string
	aFile, aAt   int64 // file of the abandoned diff whose reader stalls after aAt bytes
	bFile, bAt   int64 // file of the diff under test whose reader lets the stalled read go after bAt bytes
	procs, mode  int   // GOMAXPROCS and way of ending files of the diff under test
	comp         lib.Compression
	plainSources bool // the diff under test reads through a plain pool (no slicing)
}

// files worth stalling in / hooking: prefer those that are not a copy of an old file (their
// bytes travel in the patch), at least 1 byte long
func c15PickFile(r *lib.Rng, env *c15DiffEnv) int64 {
	oldData := map[string]bool{}
	for _, f := range env.p.old.Files() {
		oldData[lib.Digest(f.Data)] = true
	}
	var fresh, nonEmpty []int64
	for i, f := range env.nc.Files {
		en := env.p.nw.Get(f.Path)
		if en == nil || f.Size == 0 {
			continue
		}
		nonEmpty = append(nonEmpty, int64(i))
		if !oldData[lib.Digest(en.Data)] {
			fresh = append(fresh, int64(i))
		}
	}
	switch {
	case len(fresh) > 0 && r.Chance(3, 4):
		return fresh[r.Intn(len(fresh))]
	case len(nonEmpty) > 0 && r.Chance(9, 10):
		return nonEmpty[r.Intn(len(nonEmpty))]
	case len(env.nc.Files) > 0:
		return int64(r.Intn(len(env.nc.Files)))
	}
	return 0
}

func c15PlanAbandon(r *lib.Rng, a, b *c15DiffEnv, i int, comp lib.Compression) c15AbandonPlan {
	pl := c15AbandonPlan{kind: c15AbandonKinds[[]int{0, 0, 1, 0, 2}[i%5]], comp: comp, procs: c15Procs[i%len(c15Procs)], mode: i % 3, plainSources: i%4 == 3}
	pl.aFile = c15PickFile(r, a)
	if len(a.nc.Files) > 0 {
		size := int(a.nc.Files[pl.aFile].Size)
		pl.aAt = int64([]int{0, 1, 1000, lib.BS - 1, lib.BS}[r.Intn(5)])
		if r.Chance(1, 3) {
			pl.aAt = int64(r.Range(0, size))
		}
		if pl.aAt > int64(size) {
			pl.aAt = int64(r.Range(0, size))
		}
	}
	pl.bFile = c15PickFile(r, b)
	if len(b.nc.Files) > 0 {
		size := int(b.nc.Files[pl.bFile].Size)
		pl.bAt = int64(r.Range(size/2, size))
		if r.Chance(1, 4) {
			pl.bAt = int64(r.Range(0, size))
		}
	}
	return pl
}

// the sequence: reference diff of B; diff of A abandoned; diff of B while what A left behind
// wakes up; diff of B once more, plainly
func c15AfterAbandoned(c *Ctx, cr *lib.Rng, pa, pb *c15Pair, i int, comp lib.Compression, corpus string, fixed *c15AbandonPlan) error {
	a, err := c15Env(pa)
	if err != nil {
		return err
	}
	b, err := c15Env(pb)
	if err != nil {
		return err
	}
	pl := c15PlanAbandon(cr, a, b, i, comp)
	if fixed != nil {
		pl = *fixed
	}
	oracle := ""
	obs := map[string]interface{}{}
	refPatch, refSig, cls, msg := b.run(pl.comp, nil)
	if cls != "ok" {
		oracle = "reference diff " + cls + ": " + msg
	}
	if oracle == "" {
		obs["patchLen"], obs["sigLen"] = len(refPatch), len(refSig)
		sp := newC15StallPool(&c15MemSource{a}, pl.aFile, pl.aAt, pl.kind)
		var ended string
		var stalled bool
		ended, stalled, oracle = c15Abandon(a, pl.comp, sp)
		obs["abandonedDiffEnded"], obs["readWasPending"] = ended, stalled
		if oracle == "" {
			var pool lake.Pool = &c15HookPool{Pool: fspool.New(b.nc, pb.newDir), file: pl.bFile, at: pl.bAt, hook: sp.releaseAndSettle}
			how := fmt.Sprintf("diffed after another diff was abandoned (%s) and while that diff's pending source read returned (GOMAXPROCS %d", pl.kind, pl.procs)
			if !pl.plainSources {
				pool = &chunkyPool{Pool: pool, rng: cr.Fork(), mode: pl.mode}
				how += ", slicing source pool, EOF " + c15EOFModes[pl.mode]
			}
			how += ")"
			var patch, sig []byte
			withProcs(pl.procs, func() { patch, sig, cls, msg = b.run(pl.comp, pool) })
			sp.releaseAndSettle() // whatever happened: nothing stays blocked
			obs["readsOfTheAbandonedDiffAfterRelease"] = sp.reads.Load()
			oracle = c15SameAsRef(how, cls, msg, patch, sig, refPatch, refSig)
			if oracle == "" {
				patch, sig, cls, msg = b.run(pl.comp, nil)
				oracle = c15SameAsRef("diffed once more afterwards", cls, msg, patch, sig, refPatch, refSig)
			}
		} else {
			sp.releaseAndSettle()
		}
	}
	cl := "diff/after-abandoned/" + pl.kind
	if corpus != "" {
		cl = "corpus/" + corpus
	}
	c.Out.Emit(&lib.Case{Class: cl, Nontrivial: len(pb.nw.Files()) >= 1 && len(pa.nw.Files()) >= 1,
		Input: map[string]interface{}{
			"abandoned": map[string]interface{}{"old": pa.old.Summary(), "new": pa.nw.Summary(), "relations": pa.rel, "how": pl.kind,
				"stalledFile": c15FileName(a, pl.aFile), "bytesBeforeTheStall": pl.aAt},
			"old": pb.old.Summary(), "new": pb.nw.Summary(), "relations": pb.rel, "compression": pl.comp.String(),
			"releasedFromFile": c15FileName(b, pl.bFile), "releasedAfterBytes": pl.bAt, "procs": pl.procs, "slicing": !pl.plainSources},
		Obs: obs, Oracle: oracle})
	return nil
}

func c15FileName(e *c15DiffEnv, i int64) string {
	if i >= 0 && int(i) < len(e.nc.Files) {
		return e.nc.Files[i].Path
	}
	return ""
}

func c15SameAsRef(how, cls, msg string, patch, sig, refPatch, refSig []byte) string {
	switch {
	case cls != "ok":
		return fmt.Sprintf("%s: diff %s: %s", how, cls, msg)
	case !bytes.Equal(patch, refPatch):
		return fmt.Sprintf("%s: patch bytes differ from the reference run of the same pair with the same settings (len %d vs %d, first difference at %d)", how, len(patch), len(refPatch), firstDiffAt(patch, refPatch))
	case !bytes.Equal(sig, refSig):
		return fmt.Sprintf("%s: signature bytes differ from the reference run of the same pair with the same settings (len %d vs %d, first difference at %d)", how, len(sig), len(refSig), firstDiffAt(sig, refSig))
	}
	return ""
}

// a build pair in which fresh bytes travel: GenPair, plus (two in three) a new file of 1..5 blocks
// (small: for the runs under the race detector)
func c15GenSeqPair(r *lib.Rng, small bool) (*lib.Build, *lib.Build, []string) {
	opts := lib.PairOpts{MaxFiles: 3, MaxSize: 3 * lib.BS, Links: true}
	if small {
		opts = lib.PairOpts{MaxFiles: 2, MaxSize: 2 * lib.BS, Links: true}
	}
	old, nw, rel := lib.GenPair(r, opts)
	if r.Chance(2, 3) {
		size := []int{lib.BS, lib.BS + 1, 100 * 1024, 2 * lib.BS, 3*lib.BS - 1, 5*lib.BS + 17}[r.Intn(6)]
		if small {
			size = []int{lib.BS, lib.BS + 1, 100 * 1024, 2 * lib.BS}[r.Intn(4)]
		}
		nw.Put(lib.Entry{Path: "fresh.bin", Kind: "file", Data: r.Bytes(size)})
		rel = append(rel, fmt.Sprintf("added:fresh.bin (%d bytes)", size))
	}
	return old, nw, rel
}

func c15SeqCases(c *Ctx) error {
	// corpus: the sequence that showed a recycled sync context (seeded change): a 256 KiB file
	// whose second read is pending when the diff is cancelled, then a fresh 100 KiB file
	{
		r := lib.NewRng(1515)
		oa, na, ob, nb := &lib.Build{}, &lib.Build{}, &lib.Build{}, &lib.Build{}
		na.Put(lib.Entry{Path: "stalled.bin", Kind: "file", Data: bytes.Repeat([]byte{0xEE}, 4*lib.BS)})
		nb.Put(lib.Entry{Path: "data.bin", Kind: "file", Data: r.Bytes(100 * 1024)})
		pa, err := c15WritePair(c, "c15sa", oa, na, []string{"added:stalled.bin"})
		if err != nil {
			return err
		}
		pb, err := c15WritePair(c, "c15sb", ob, nb, []string{"added:data.bin"})
		if err != nil {
			return err
		}
		pl := &c15AbandonPlan{kind: c15AbandonKinds[0], aAt: 1000, bAt: lib.BS, procs: runtime.NumCPU(), comp: lib.Compressions[0], plainSources: true}
		err = c15AfterAbandoned(c, r, pa, pb, 0, lib.Compressions[0], "diff-after-cancelled-diff", pl)
		os.RemoveAll(pa.base)
		os.RemoveAll(pb.base)
		if err != nil {
			return err
		}
	}
	// a stream of its own, derived from the seed: the phases that follow in runC15 keep the
	// cases they had before this one was added
	r := lib.NewRng(c.Seed*1000003 + 1515)
	n := c.N(6, 60)
	for i := 0; i < n; i++ {
		cr := r.Fork()
		if err := c15SeqCase(c, cr, i, lib.Compressions[(i+int(c.Seed))%len(lib.Compressions)], false); err != nil {
			return err
		}
	}
	n = c.N(2, 20)
	for i := 0; i < n; i++ {
		if err := c15ConcurrentCase(c, r.Fork(), 2+i%2, i+int(c.Seed), false); err != nil {
			return err
		}
	}
	return nil
}

func c15SeqCase(c *Ctx, cr *lib.Rng, i int, comp lib.Compression, small bool) error {
	oa, na, ra := c15GenSeqPair(cr, small)
	ob, nb, rb := c15GenSeqPair(cr, small)
	pa, err := c15WritePair(c, "c15sa", oa, na, ra)
	if err != nil {
		return err
	}
	defer os.RemoveAll(pa.base)
	pb, err := c15WritePair(c, "c15sb", ob, nb, rb)
	if err != nil {
		return err
	}
	defer os.RemoveAll(pb.base)
	return c15AfterAbandoned(c, cr, pa, pb, i, comp, "", nil)
}

// n pairs diffed at the same time in this process, each through its own slicing pool
func c15ConcurrentCase(c *Ctx, cr *lib.Rng, n, i int, small bool) error {
	type one struct {
		p                *c15Pair
		e                *c15DiffEnv
		comp             lib.Compression
		refPatch, refSig []byte
		patch, sig       []byte
		cls, msg         string
		pool             lake.Pool
	}
	oracle := ""
	var all []*one
	var inputs []map[string]interface{}
	for j := 0; j < n; j++ {
		old, nw, rel := c15GenSeqPair(cr, small)
		p, err := c15WritePair(c, fmt.Sprintf("c15q%d", j), old, nw, rel)
		if err != nil {
			return err
		}
		defer os.RemoveAll(p.base)
		e, err := c15Env(p)
		if err != nil {
			return err
		}
		o := &one{p: p, e: e, comp: lib.Compressions[(i+3*j)%len(lib.Compressions)]}
		o.pool = &chunkyPool{Pool: fspool.New(e.nc, p.newDir), rng: cr.Fork(), mode: (i + j) % 3}
		all = append(all, o)
		inputs = append(inputs, map[string]interface{}{"old": old.Summary(), "new": nw.Summary(), "relations": rel, "compression": o.comp.String()})
		if o.refPatch, o.refSig, o.cls, o.msg = e.run(o.comp, nil); o.cls != "ok" && oracle == "" {
			oracle = fmt.Sprintf("reference diff of pair %d %s: %s", j, o.cls, o.msg)
		}
	}
	procs := c15Procs[i%len(c15Procs)]
	if oracle == "" {
		withProcs(procs, func() {
			var wg sync.WaitGroup
			for _, o := range all {
				wg.Add(1)
				go func(o *one) {
					defer wg.Done()
					o.patch, o.sig, o.cls, o.msg = o.e.run(o.comp, o.pool)
				}(o)
			}
			wg.Wait()
		})
		for j, o := range all {
			if oracle == "" {
				oracle = c15SameAsRef(fmt.Sprintf("pair %d diffed while %d other diff(s) ran in the same process (GOMAXPROCS %d, slicing source pools)", j, n-1, procs), o.cls, o.msg, o.patch, o.sig, o.refPatch, o.refSig)
			}
		}
	}
	c.Out.Emit(&lib.Case{Class: fmt.Sprintf("diff/concurrent/%d", n), Nontrivial: true,
		Input: map[string]interface{}{"pairs": inputs, "procs": procs}, Obs: map[string]interface{}{"diffs": n}, Oracle: oracle})
	return nil
}
