package main

// C17 — partial application by whitelist produces exactly the selected files.
//
// Groups (see checks/props/C17.json):
//   wl        real patches (plain = pwr diff, optimized = rediff with bsdiff series) and crafted
//             message lists, each applied under many whitelists through a RECORDING bowl and a
//             RECORDING old-build pool; also evaluated by the model (Patch/Patcher.v). A whitelist
//             is a map[int64]bool: each selected set is passed in one of its spellings (absent vs
//             explicitly-false indices, keys outside the build) - see spellings(). Every whitelist
//             is applied twice: by one Resume(nil), and stopped at checkpoints and resumed on the
//             same patcher under a save/stop schedule (c17_resume.go); same claims on both
//   reinterp  a message marshalled as type T and unmarshalled as each of the four types vs the
//             schema-derived table of Patch/Reinterp.v

import (
	"bytes"
	"fmt"
	"os"
	"path/filepath"
	"sort"
	"strings"

	"github.com/itchio/lake/pools/fspool"
	"github.com/itchio/lake/tlc"
	"github.com/itchio/savior/seeksource"

	"github.com/itchio/wharf/bsdiff"
	"github.com/itchio/wharf/pwr"
	"github.com/itchio/wharf/pwr/rediff"
	"github.com/itchio/wharf/wire"

	"verif/harness/lib"
)

func init() { register("C17", runC17) }

func runC17(c *Ctx) error {
	if err := c17Corpus(c); err != nil {
		return err
	}
	if err := c17Reinterp(c); err != nil {
		return err
	}
	if err := c17Crafted(c); err != nil {
		return err
	}
	return c17Real(c)
}

// ---------------------------------------------------------------- one patch under many whitelists

type wlRun struct {
	wl      []int64 // keys mapped to true = the selected set (what the model receives); nil = no whitelist
	neg     []int64 // keys present in the map but mapped to false (not selected, like absent keys)
	rep     string  // how the set is spelled as a map (see wlSpec)
	hasWl   bool
	cls     string
	msg     string
	touched int64
	events  []lib.Ev
	files   [][]byte // content of every new file (by index) after the run
	// stop/resume runs (c17_resume.go): the same patcher is stopped at checkpoints and resumed
	interrupted bool
	sched       string
	legs        []c17Leg // one per resumption
	norm        []lib.Ev // events without the re-open calls of the resumed legs (what the model sees)
}

// neededOld returns, per new file index, the set of old file indices its series refers to.
func neededOld(dp *lib.DecodedPatch) []map[int64]bool {
	out := make([]map[int64]bool, len(dp.Series))
	for i, se := range dp.Series {
		out[i] = map[int64]bool{}
		for _, m := range dp.Msgs[se[0]:se[1]] {
			switch {
			case m.Kind == "so" && m.Type == 0:
				out[i][m.FileIndex] = true
			case m.Kind == "bh":
				out[i][m.TargetIndex] = true
			}
		}
	}
	return out
}

func readOutFiles(outDir string, src *tlc.Container) [][]byte {
	out := make([][]byte, len(src.Files))
	for i, f := range src.Files {
		d, err := os.ReadFile(filepath.Join(outDir, filepath.FromSlash(f.Path)))
		if err == nil {
			out[i] = d
		}
	}
	return out
}

// wlSpec is one whitelist as the patcher receives it: SetSourceIndexWhitelist takes a
// map[int64]bool, so one selected SET has many spellings - an index that is not selected may be
// absent or present and mapped to false, and the map may carry keys that are no file index of the
// new build at all. sel = keys mapped to true, neg = keys mapped to false.
type wlSpec struct {
	sel, neg []int64
	rep      string // sparse | dense | mixed, "+foreign" when keys outside [0,n) are present
}

func (w wlSpec) mapOf() map[int64]bool {
	m := map[int64]bool{}
	for _, i := range w.neg {
		m[i] = false
	}
	for _, i := range w.sel {
		m[i] = true
	}
	return m
}

// String spells the map out, keys ascending: {0:true 1:false 2:true}
func (w wlSpec) String() string {
	m := w.mapOf()
	keys := make([]int64, 0, len(m))
	for k := range m {
		keys = append(keys, k)
	}
	sort.Slice(keys, func(a, b int) bool { return keys[a] < keys[b] })
	parts := make([]string, len(keys))
	for i, k := range keys {
		parts[i] = fmt.Sprintf("%d:%v", k, m[k])
	}
	return "{" + strings.Join(parts, " ") + "}"
}

type wlPatch struct {
	name    string
	class   string
	oldDir  string
	old     *lib.Build
	nw      *lib.Build // nil for crafted patches
	patch   []byte
	dp      *lib.DecodedPatch // independent decoding (nil when the stream is ill-formed on purpose)
	msgs    []lib.PMsg        // the per-file messages (for the model)
	oldC    *tlc.Container
	newC    *tlc.Container
	wls     []wlSpec // whitelists to try
	members map[string]bool
	// claims: false for crafted ill-formed patches (model comparison only)
	claims bool
	input  map[string]interface{}
}

// runWhitelists applies p under every whitelist and emits one case.
func runWhitelists(c *Ctx, p *wlPatch) error {
	outDir := filepath.Join(c.Tmp, p.name+"-out")
	defer removeAll(outDir)
	var runs []wlRun
	run := func(w wlSpec, has bool) wlRun {
		var m map[int64]bool
		if has {
			m = w.mapOf()
		}
		r := wlRun{wl: w.sel, neg: w.neg, rep: w.rep, hasWl: has}
		var rec *lib.Recorder
		r.cls, r.msg = lib.Guard(func() error {
			var err error
			rec, r.touched, _, err = applyRecorded(p.patch, p.oldDir, outDir, m)
			return err
		})
		if rec != nil {
			r.events = rec.Events
		}
		if r.cls == "ok" {
			r.files = readOutFiles(outDir, p.newC)
		}
		return r
	}
	// the same application, stopped at checkpoints and resumed on the same patcher
	runI := func(w wlSpec, has bool, sch c17Sched) wlRun {
		var m map[int64]bool
		if has {
			m = w.mapOf()
		}
		r := wlRun{wl: w.sel, neg: w.neg, rep: w.rep, hasWl: has, interrupted: true, sched: sch.String()}
		var rec *lib.Recorder
		r.cls, r.msg = lib.Guard(func() error {
			var err error
			rec, r.touched, r.legs, _, err = applyStopResume(p.patch, p.oldDir, outDir, m, sch)
			return err
		})
		if rec != nil {
			r.events = rec.Events
			r.norm = stripReopen(rec.Events, r.legs)
		}
		if r.cls == "ok" {
			r.files = readOutFiles(outDir, p.newC)
		}
		return r
	}
	full := run(wlSpec{}, false)
	runs = append(runs, full)
	wlMaps := make([]string, len(p.wls))
	for i, w := range p.wls {
		runs = append(runs, run(w, true))
		wlMaps[i] = w.String()
	}
	// (only runs that are GIVEN a whitelist: C17 says nothing about what an application without
	// one reports, the uninterrupted run without whitelist above is the "full application" the
	// contents are compared with)
	// At most maxInterrupted whitelists per patch are applied this second way (all of them in the
	// quick tier's samples; every k-th plus the last one, the full set, when all subsets are tried).
	const maxInterrupted = 16
	scheds := c17Scheds(c.Seed, p.name, len(p.wls))
	step := (len(p.wls) + maxInterrupted - 1) / maxInterrupted
	var iruns []wlRun
	for i, w := range p.wls {
		if step <= 1 || i%step == int(c.Seed)%step || i == len(p.wls)-1 {
			iruns = append(iruns, runI(w, true, scheds[i]))
		}
	}
	oracle, finding := "", ""
	if p.claims {
		var need []map[int64]bool
		if p.dp != nil {
			need = neededOld(p.dp)
		}
		for _, r := range append(append([]wlRun{}, runs...), iruns...) {
			bad := checkWlRun(p, &r, &full, need)
			if bad != "" && oracle == "" {
				oracle = bad
				finding = c17Finding(p, &r)
			}
		}
	}
	// Coq term
	d := lib.NewPathDict()
	// the model evaluates the full run and at most modelRuns whitelisted runs (the empty set,
	// the full set, then every k-th); the oracle above has judged all of them
	modelRuns := 9
	if c.Tier == "quick" {
		modelRuns = 6
	}
	inModel := map[int]bool{0: true}
	if len(runs)-1 <= modelRuns {
		for i := range runs {
			inModel[i] = true
		}
	} else {
		inModel[1], inModel[len(runs)-1] = true, true
		step := (len(runs) - 1) / (modelRuns - 2)
		for i := 1 + int(c.Seed)%step; i < len(runs); i += step {
			inModel[i] = true
		}
	}
	var rs []string
	coqRun := func(r *wlRun, trace []lib.Ev) string {
		wl := "None"
		if r.hasWl {
			zs := make([]string, len(r.wl))
			for k, x := range r.wl {
				zs[k] = lib.CoqZ(x)
			}
			wl = "(Some " + lib.CoqList(zs) + ")"
		}
		evs := make([]string, len(trace))
		for k, e := range trace {
			evs[k] = e.Coq()
		}
		files := "[]"
		if r.cls == "ok" {
			files = coqRleList(r.files)
		}
		return fmt.Sprintf("(%s, (%s, %s, %s, %s))", wl, lib.CoqZ(classCode(r.cls)), lib.CoqZ(r.touched), lib.CoqList(evs), files)
	}
	evString := func(evs []lib.Ev) string {
		es := make([]string, len(evs))
		for k, e := range evs {
			es[k] = e.String()
		}
		return strings.Join(es, " ")
	}
	obsRuns := make([]map[string]interface{}, 0, len(runs))
	for i := range runs {
		r := &runs[i]
		if !inModel[i] {
			continue
		}
		rs = append(rs, coqRun(r, r.events))
		if len(obsRuns) < 12 {
			obsRuns = append(obsRuns, map[string]interface{}{"whitelist": wlString(*r), "spelling": r.rep, "class": r.cls, "touched": r.touched, "trace": evString(r.events)})
		}
	}
	// stop/resume runs: the model has no checkpoints, so what it must reproduce is the run with
	// the re-open calls of the resumed legs taken out (class, touched count, that trace, every
	// file). The oracle has judged all of them; the model gets those that were actually stopped
	// first (2 per patch in the quick tier, 3 otherwise).
	var order []int
	for pass := 0; pass < 2 && len(iruns) > 0; pass++ {
		for k := range iruns {
			i := (k + int(c.Seed)) % len(iruns)
			if (len(iruns[i].legs) > 0) == (pass == 0) {
				order = append(order, i)
			}
		}
	}
	modelIRuns := 3
	if c.Tier == "quick" {
		modelIRuns = 2
	}
	stopsTotal := 0
	obsIRuns := make([]map[string]interface{}, 0, len(iruns))
	for k, i := range order {
		r := &iruns[i]
		stopsTotal += len(r.legs)
		if k < modelIRuns {
			rs = append(rs, coqRun(r, r.norm))
		}
		if len(obsIRuns) < 12 {
			at := make([]string, len(r.legs))
			for j, l := range r.legs {
				kind := "rsync"
				if l.bsdiff {
					kind = fmt.Sprintf("bsdiff<-%d", l.target)
				}
				at[j] = fmt.Sprintf("file %d (%s), touched so far %d", l.fileIndex, kind, l.touched)
			}
			obsIRuns = append(obsIRuns, map[string]interface{}{"whitelist": wlString(*r), "spelling": r.rep, "schedule": r.sched, "stops": len(r.legs), "stoppedIn": at,
				"class": r.cls, "touched": r.touched, "trace": evString(r.events), "inModel": k < modelIRuns})
		}
	}
	p.input["stopResume"] = fmt.Sprintf("%d whitelisted runs stopped and resumed on the same patcher, %d stops in all", len(iruns), stopsTotal)
	if stopsTotal > 0 {
		p.class += "/stopped"
	}
	p.input["whitelists"] = len(p.wls)
	p.input["whitelistMaps"] = wlMaps
	// The model keeps a file as a flat list, so every write costs its whole length: a series of
	// thousands of tiny bsdiff controls (bsdiff does that on long runs) would take minutes in
	// Coq. Such a patch is judged by the oracle only.
	group, cost := "wl", 0
	idx := -1
	for _, m := range p.msgs {
		if m.Kind == "sh" {
			idx++
		} else if idx >= 0 && idx < len(p.newC.Files) {
			cost += int(p.newC.Files[idx].Size)
		}
	}
	if cost*len(rs) > 150_000_000 {
		group = ""
		p.class += "/oracle-only(too many writes for the model)"
	}
	c.Out.Emit(&lib.Case{Group: group, Class: p.class, Nontrivial: len(p.newC.Files) >= 2 && len(p.wls) >= 2,
		Input: p.input, Obs: map[string]interface{}{"runs": obsRuns, "stopResumeRuns": obsIRuns}, Oracle: oracle, Finding: finding,
		Coq: fmt.Sprintf("($ID%%N, %s, %s, %s, %s, %s, %s)", lib.CoqBool(p.claims), lib.CoqContainer(p.oldC, d), lib.CoqContainer(p.newC, d),
			coqRleList(oldContents(p.oldC, p.old)), lib.CoqMsgs(p.msgs), lib.CoqList(rs))})
	return nil
}

func wlString(r wlRun) string {
	if !r.hasWl {
		return "none"
	}
	return wlSpec{sel: r.wl, neg: r.neg}.String()
}

// checkWlRun restates C17 on one run. need may be nil (no independent decoding available).
func checkWlRun(p *wlPatch, r, full *wlRun, need []map[int64]bool) string {
	tag := "whitelist " + wlString(*r) + ": "
	if r.interrupted {
		tag = fmt.Sprintf("whitelist %s, stopped at %d checkpoints and resumed on the same patcher (%s): ", wlString(*r), len(r.legs), r.sched)
	}
	if r.cls != "ok" {
		return tag + "patcher " + r.cls + ": " + firstLine(r.msg)
	}
	n := int64(len(p.newC.Files))
	in := map[int64]bool{}
	if r.hasWl {
		for _, i := range r.wl {
			if i >= 0 && i < n {
				in[i] = true
			}
		}
	} else {
		for i := int64(0); i < n; i++ {
			in[i] = true
		}
	}
	if r.touched != int64(len(in)) {
		return tag + fmt.Sprintf("GetTouchedFiles() = %d, %d files selected", r.touched, len(in))
	}
	okOld := map[int64]bool{}
	if need != nil {
		for i := range in {
			for o := range need[i] {
				okOld[o] = true
			}
		}
	}
	written := map[int64]bool{}
	for _, e := range r.events {
		switch e.Kind {
		case "W", "T":
			if !in[e.A] {
				return tag + "the bowl was asked for file " + e.String() + " which is not selected"
			}
			written[e.A] = true
		case "S", "R":
			if need != nil && !okOld[e.A] {
				return tag + fmt.Sprintf("old file %d was read (%s) but no selected file needs it", e.A, e.String())
			}
		}
	}
	for i := range in {
		if !written[i] {
			return tag + fmt.Sprintf("selected file %d was never handed to the bowl", i)
		}
		if full.cls == "ok" && !bytes.Equal(r.files[i], full.files[i]) {
			return tag + fmt.Sprintf("selected file %d (%s) differs from what full application produces", i, p.newC.Files[i].Path)
		}
		if p.nw != nil {
			if e := p.nw.Get(filepath.ToSlash(p.newC.Files[i].Path)); e == nil || !bytes.Equal(r.files[i], e.Data) {
				return tag + fmt.Sprintf("selected file %d (%s) differs from the new build", i, p.newC.Files[i].Path)
			}
		}
	}
	return ""
}

// c17Finding: the matcher of the one known shape - a file that is NOT selected carries a bsdiff
// series whose header's target index reads as the end marker when decoded as a SyncOp
// (int32(targetIndex) == 2049).
func c17Finding(p *wlPatch, r *wlRun) string {
	if p.dp == nil || !r.hasWl {
		return ""
	}
	sel := map[int64]bool{}
	for _, i := range r.wl {
		sel[i] = true
	}
	for i, se := range p.dp.Series {
		if sel[int64(i)] {
			continue
		}
		for _, m := range p.dp.Msgs[se[0]:se[1]] {
			if m.Kind == "bh" && int32(m.TargetIndex) == 2049 {
				return "skipfile-bsdiff-header-read-as-end-marker"
			}
		}
	}
	return ""
}

// subsets of [0,n): all of them (thorough, n <= 6) or a sample that always has the empty set,
// the full set, every singleton-complement for small n and random ones.
func subsets(r *lib.Rng, n int, all bool, sample int) [][]int64 {
	var out [][]int64
	mk := func(mask int) []int64 {
		s := []int64{}
		for i := 0; i < n; i++ {
			if mask&(1<<uint(i)) != 0 {
				s = append(s, int64(i))
			}
		}
		return s
	}
	if all && n <= 6 {
		for m := 0; m < 1<<uint(n); m++ {
			out = append(out, mk(m))
		}
		return out
	}
	seen := map[int]bool{}
	add := func(m int) {
		if !seen[m] {
			seen[m] = true
			out = append(out, mk(m))
		}
	}
	fullMask := 1<<uint(n) - 1
	add(0)
	add(fullMask)
	for len(out) < sample && len(seen) < 1<<uint(n) {
		switch r.Intn(3) {
		case 0:
			add(1 << uint(r.Intn(n)))
		case 1:
			add(fullMask &^ (1 << uint(r.Intn(n))))
		default:
			add(r.Intn(1 << uint(n)))
		}
	}
	return out
}

// spellings turns selected sets into the maps handed to SetSourceIndexWhitelist. The same set is
// spelled sparse (only the selected indices, all true), dense (every other index of the build
// present and mapped to false) or mixed (some of them), and now and then the map also carries
// keys that are no file index of the build (n, n+1, -1, -(i+1), 2^31+i, 2^32+i - the last two are
// what an index would alias to if it were narrowed), mapped to true or to false: none of this
// changes the selected set. Always present: the empty map, "everything explicitly false" right
// after it, and the first proper non-empty subset spelled dense.
func spellings(r *lib.Rng, n int, sets [][]int64) []wlSpec {
	others := func(sel []int64) []int64 {
		in := map[int64]bool{}
		for _, i := range sel {
			in[i] = true
		}
		var o []int64
		for i := int64(0); i < int64(n); i++ {
			if !in[i] {
				o = append(o, i)
			}
		}
		return o
	}
	foreign := func(w *wlSpec) {
		k := r.Range(1, 2)
		seen := map[int64]bool{}
		for j := 0; j < k; j++ {
			i := int64(r.Intn(n + 1))
			var key int64
			switch r.Intn(6) {
			case 0:
				key = int64(n)
			case 1:
				key = int64(n) + 1 + i
			case 2:
				key = -1
			case 3:
				key = -(i + 1)
			case 4:
				key = 1<<31 + i
			default:
				key = 1<<32 + i
			}
			if seen[key] {
				continue
			}
			seen[key] = true
			if r.Bool() {
				w.sel = append(w.sel, key)
			} else {
				w.neg = append(w.neg, key)
			}
		}
		w.rep += "+foreign"
	}
	var out []wlSpec
	denseDone := false
	for _, sel := range sets {
		rest := others(sel)
		w := wlSpec{sel: append([]int64{}, sel...), rep: "sparse"}
		mode := r.Intn(3)
		if len(sel) == 0 {
			mode = 0 // the empty map itself; its dense twin follows
		} else if len(rest) > 0 && !denseDone {
			mode, denseDone = 1, true
		}
		if len(rest) > 0 {
			switch mode {
			case 1:
				w.neg, w.rep = rest, "dense"
			case 2:
				for _, i := range rest {
					if r.Bool() {
						w.neg = append(w.neg, i)
					}
				}
				if len(w.neg) > 0 {
					w.rep = "mixed"
				}
			}
		}
		if len(sel) > 0 && r.Chance(1, 4) {
			foreign(&w)
		}
		out = append(out, w)
		if len(sel) == 0 && n > 0 {
			out = append(out, wlSpec{sel: []int64{}, neg: rest, rep: "dense"})
		}
	}
	return out
}

// ---------------------------------------------------------------- real patches

// optimize runs rediff but refuses the inputs that crash bsdiff on the unchanged tree (known
// defects of C07/C12: empty old file => panic in a goroutine; partitions > len(new)).
func optimize(patch []byte, oldDir, newDir string, o lib.OptParams) ([]byte, rediff.DiffMappings, string, error) {
	rc, err := rediff.NewContext(rediff.Params{PatchReader: seeksource.FromBytes(patch), Consumer: lib.Quiet, Compression: o.Comp.Settings(),
		SuffixSortConcurrency: o.Concurrency, Partitions: o.Partitions, ForceMapAll: o.ForceMapAll, RediffSizeLimit: o.SizeLimit})
	if err != nil {
		return nil, nil, "", err
	}
	dm := rc.GetDiffMappings()
	for si, m := range dm {
		if rc.GetTargetContainer().Files[m.TargetIndex].Size == 0 {
			return nil, dm, "mapping onto an empty old file (bsdiff crash, C12)", nil
		}
		if o.Partitions > 1 && rc.GetSourceContainer().Files[si].Size < int64(o.Partitions) {
			return nil, dm, "new file shorter than the partition count (bsdiff crash, C07)", nil
		}
	}
	var out bytes.Buffer
	err = rc.Optimize(rediff.OptimizeParams{TargetPool: fspool.New(rc.GetTargetContainer(), oldDir), SourcePool: fspool.New(rc.GetSourceContainer(), newDir), PatchWriter: &out})
	return out.Bytes(), dm, "", err
}

func c17RealPair(c *Ctx, name string, cr *lib.Rng, old, nw *lib.Build, classes []lib.FileClass, comp lib.Compression, optimized bool, opt lib.OptParams, all bool, sample int, classPrefix string) error {
	base := filepath.Join(c.Tmp, name)
	oldDir, newDir := filepath.Join(base, "old"), filepath.Join(base, "new")
	defer removeAll(base)
	if err := old.WriteTo(oldDir); err != nil {
		return err
	}
	if err := nw.WriteTo(newDir); err != nil {
		return err
	}
	dr, err := lib.Diff(oldDir, newDir, comp, nil)
	if err != nil {
		return fmt.Errorf("diff: %v", err)
	}
	patch := dr.Patch
	kind := "plain"
	input := map[string]interface{}{"old": old.Summary(), "new": nw.Summary(), "compression": comp.String()}
	if optimized {
		var why string
		var op []byte
		cls, msg := lib.Guard(func() error {
			var err error
			op, _, why, err = optimize(patch, oldDir, newDir, opt)
			return err
		})
		if cls != "ok" {
			return fmt.Errorf("optimize %s: %s", cls, msg)
		}
		if why == "" {
			patch = op
			kind = "optimized"
			input["optimize"] = fmt.Sprintf("%+v", opt)
		} else {
			kind = "plain(opt-refused)"
			input["optimize-refused"] = why
		}
	}
	dp, err := lib.DecodePatch(patch)
	if err != nil {
		return fmt.Errorf("decode: %v", err)
	}
	nb := 0
	for _, m := range dp.Msgs {
		if m.Kind == "bh" {
			nb++
		}
	}
	byPath := map[string]string{}
	for _, cl := range classes {
		byPath[cl.Path] = cl.Class
	}
	members := []string{}
	for _, f := range dp.Source.Files {
		members = append(members, byPath[filepath.ToSlash(f.Path)])
	}
	input["members"] = members
	input["bsdiffSeries"] = nb
	input["msgs"] = lib.MsgSummary(dp.Msgs)
	p := &wlPatch{name: name, class: fmt.Sprintf("%s%s/%s", classPrefix, kind, compOf(dp)), oldDir: oldDir, old: old, nw: nw, patch: patch, dp: dp, msgs: dp.Msgs,
		oldC: dp.Target, newC: dp.Source, wls: spellings(cr, len(dp.Source.Files), subsets(cr, len(dp.Source.Files), all, sample)), claims: true, input: input}
	return runWhitelists(c, p)
}

func compOf(dp *lib.DecodedPatch) string { return fmt.Sprintf("%s-q%d", dp.Algo, dp.Quality) }

func c17Real(c *Ctx) error {
	r := c.Rng.Fork()
	n := nFor(c, 10, 160, 10)
	for i := 0; i < n; i++ {
		cr := r.Fork()
		maxSize := 2*lib.BS + 17
		if c.Thorough() && i%3 == 0 {
			maxSize = 3*lib.BS + 17
		}
		old, nw, classes := lib.GenRunPair(cr, lib.RunPairOpts{MaxOld: 3, MaxNew: 6, MaxSize: maxSize, AllKinds: true})
		if len(nw.Files()) > 6 {
			continue
		}
		comp := lib.Compressions[(2*i+int(c.Seed))%len(lib.Compressions)]
		if err := c17RealPair(c, fmt.Sprintf("c17-plain-%d", i), cr, old, nw, classes, comp, false, lib.OptParams{}, c.Thorough(), 7, ""); err != nil {
			return err
		}
		opt := lib.OptParams{Partitions: cr.Intn(3), Concurrency: cr.Range(0, 2), ForceMapAll: cr.Bool(), Comp: lib.Compressions[(2*i+1+int(c.Seed))%len(lib.Compressions)]}
		if err := c17RealPair(c, fmt.Sprintf("c17-opt-%d", i), cr, old, nw, classes, comp, true, opt, c.Thorough(), 7, ""); err != nil {
			return err
		}
	}
	return c17RealInterleaved(c)
}

// interleave makes one file of the new build a MANY-op file: at the path of an old file that has
// a full block, the new content is 2-4 pieces "one whole block of some old file, then a short
// fresh run" - the rsync series of that file alternates BLOCK_RANGE and DATA ops (and the bsdiff
// series rediff makes of it has several controls), so the relay loops go round often enough for
// a save consumer to be offered checkpoints INSIDE the file (a seek source hands one out per
// loop iteration from the second on; the single-edit files of GenRunPair have 1-3 ops). Such a
// file is also the longest thing skipFile has to read past when it is not selected.
func interleave(r *lib.Rng, old, nw *lib.Build, classes []lib.FileClass) []lib.FileClass {
	var withBlock []lib.Entry
	for _, f := range old.Files() {
		if len(f.Data) >= lib.BS {
			withBlock = append(withBlock, f)
		}
	}
	if len(withBlock) == 0 {
		return classes
	}
	at := withBlock[r.Intn(len(withBlock))].Path
	var d []byte
	for k, n := 0, r.Range(2, 4); k < n; k++ {
		f := withBlock[r.Intn(len(withBlock))]
		b := r.Intn(len(f.Data) / lib.BS)
		d = append(d, f.Data[b*lib.BS:(b+1)*lib.BS]...)
		v := byte(6 + r.Intn(3)) // symbols no old file contains
		for i, l := 0, []int{1, 7, 1000}[r.Intn(3)]; i < l; i++ {
			d = append(d, v)
		}
	}
	nw.Put(lib.Entry{Path: at, Kind: "file", Data: d})
	var out []lib.FileClass
	seen := false
	for _, cl := range classes {
		if cl.Path == at {
			cl.Class, seen = "interleaved", true
		}
		out = append(out, cl)
	}
	if !seen {
		out = append(out, lib.FileClass{Path: at, Class: "interleaved"})
	}
	return out
}

// c17RealInterleaved: pairs of c17Real's kind plus one interleaved file, under the settings whose
// sources can checkpoint anywhere (no compression, 2 pairs in 3) or at block boundaries (gzip,
// brotli in rotation): these are the patches on which stopping and resuming a whitelisted
// application (c17_resume.go) happens inside files, several times per file.
func c17RealInterleaved(c *Ctx) error {
	r := c.Rng.Fork()
	n := nFor(c, 4, 36, 4)
	for i := 0; i < n; i++ {
		cr := r.Fork()
		old, nw, classes := lib.GenRunPair(cr, lib.RunPairOpts{MaxOld: 3, MaxNew: 5, MaxSize: 2*lib.BS + 17, AllKinds: true})
		classes = interleave(cr, old, nw, classes)
		if len(nw.Files()) > 6 {
			continue
		}
		comp := lib.Compressions[0]
		if i%3 == 2 {
			comp = lib.Compressions[1+(i/3+int(c.Seed))%(len(lib.Compressions)-1)]
		}
		if err := c17RealPair(c, fmt.Sprintf("c17-il-plain-%d", i), cr, old, nw, classes, comp, false, lib.OptParams{}, c.Thorough(), 7, "interleaved/"); err != nil {
			return err
		}
		opt := lib.OptParams{Partitions: cr.Intn(3), Concurrency: cr.Range(0, 2), ForceMapAll: cr.Bool(), Comp: comp}
		if err := c17RealPair(c, fmt.Sprintf("c17-il-opt-%d", i), cr, old, nw, classes, comp, true, opt, c.Thorough(), 7, "interleaved/"); err != nil {
			return err
		}
	}
	return nil
}

// ---------------------------------------------------------------- corpus: the bsdiff header that reads as the end marker

func c17Corpus(c *Ctx) error {
	// old build: 2051 tiny files f0000.bin .. f2050.bin (walk order = index); the new build keeps
	// f2049.bin slightly changed (rediff maps it onto old file #2049 by path) between two
	// brand-new files. A whitelist without f2049.bin makes skipFile read BsdiffHeader{2049}.
	old, nw := &lib.Build{}, &lib.Build{}
	for i := 0; i <= 2050; i++ {
		old.Entries = append(old.Entries, lib.Entry{Path: fmt.Sprintf("f%04d.bin", i), Kind: "file", Data: []byte{byte(i), byte(i >> 8), 7, 7, 7, 7, 7, 7, 7, 7, 7, 7}})
	}
	nw.Put(lib.Entry{Path: "a.bin", Kind: "file", Data: blk(1, 20)})
	nw.Put(lib.Entry{Path: "f2049.bin", Kind: "file", Data: []byte{byte(2049 & 255), byte(2049 >> 8), 7, 7, 7, 7, 9, 9, 7, 7, 7, 7, 7, 7, 5}})
	nw.Put(lib.Entry{Path: "zz.bin", Kind: "file", Data: blk(2, 33)})
	classes := []lib.FileClass{{Path: "a.bin", Class: "new"}, {Path: "f2049.bin", Class: "patched"}, {Path: "zz.bin", Class: "new"}}
	cr := c.Rng.Fork()
	for k, comp := range []lib.Compression{lib.Compressions[0], lib.Compressions[4]} {
		if err := c17RealPair(c, fmt.Sprintf("c17-corpus-2049-%d", k), cr, old, nw, classes, comp, true,
			lib.OptParams{Comp: lib.Compressions[(k+1)%len(lib.Compressions)]}, true, 8, "corpus/bsdiff-target-2049/"); err != nil {
			return err
		}
	}
	return c17CorpusStopResume(c)
}

// c17CorpusStopResume: the input on which seeded variant C17-4 (touched counter bumped on entry to
// processFile, i.e. once per Resume call that works on the file) was first seen: uncompressed
// patches, plain and optimized, whose patched files have enough ops (controls) for a seek source
// to hand out checkpoints inside them; every subset, each also stopped and resumed on the same
// patcher (c17_resume.go). New build: a many-op file, a whole-file copy, a second patched file,
// a brand-new file and an empty file.
func c17CorpusStopResume(c *Ctx) error {
	B := lib.BS
	old, nw := &lib.Build{}, &lib.Build{}
	old.Put(lib.Entry{Path: "a.bin", Kind: "file", Data: cat(blk(1, B), blk(2, B), blk(3, 11))})
	old.Put(lib.Entry{Path: "b.bin", Kind: "file", Data: cat(blk(4, B), blk(5, 5))})
	old.Put(lib.Entry{Path: "c.bin", Kind: "file", Data: cat(blk(0, B), blk(3, B), blk(1, 1))})
	nw.Put(lib.Entry{Path: "a.bin", Kind: "file", Data: cat(blk(1, B), blk(7, 1), blk(2, B), blk(8, 7), blk(1, B), blk(6, 1000))})
	nw.Put(lib.Entry{Path: "b.bin", Kind: "file", Data: cat(blk(4, B), blk(5, 5))})
	nw.Put(lib.Entry{Path: "c.bin", Kind: "file", Data: cat(blk(8, 3), blk(0, B), blk(3, B), blk(7, 2))})
	nw.Put(lib.Entry{Path: "d.bin", Kind: "file", Data: blk(2, 33)})
	nw.Put(lib.Entry{Path: "e.bin", Kind: "file", Data: []byte{}})
	classes := []lib.FileClass{{Path: "a.bin", Class: "interleaved"}, {Path: "b.bin", Class: "same"}, {Path: "c.bin", Class: "patched"}, {Path: "d.bin", Class: "new"}, {Path: "e.bin", Class: "empty"}}
	cr := c.Rng.Fork()
	for k, optimized := range []bool{false, true} {
		if err := c17RealPair(c, fmt.Sprintf("c17-corpus-stop-%d", k), cr, old, nw, classes, lib.Compressions[0], optimized,
			lib.OptParams{Comp: lib.Compressions[0]}, true, 8, "corpus/stop-resume/"); err != nil {
			return err
		}
	}
	return nil
}

// ---------------------------------------------------------------- crafted message lists under whitelists

func c17Crafted(c *Ctx) error {
	r := c.Rng.Fork()
	corpus := craftCorpus()
	n := nFor(c, 16, 500, 300) + len(corpus)
	for i := 0; i < n; i++ {
		cr := r.Fork()
		var cf *craft
		if i < len(corpus) {
			cf = corpus[i]
			if len(cf.files) < 2 { // a single series says little about skipping
				continue
			}
		} else {
			cf = genCraft(cr)
		}
		name := fmt.Sprintf("c17-craft-%d", i)
		base := filepath.Join(c.Tmp, name)
		oldDir := filepath.Join(base, "old")
		if err := cf.old.WriteTo(oldDir); err != nil {
			return err
		}
		oldC, err := lib.Walk(oldDir)
		if err != nil {
			return err
		}
		newC := cf.container()
		comp := lib.Compressions[(i+int(c.Seed))%len(lib.Compressions)]
		patch, err := lib.EncodePatch(comp, oldC, newC, cf.msgs)
		if err != nil {
			return err
		}
		var dp *lib.DecodedPatch
		wellFormed := cf.want != nil
		if wellFormed {
			dp, _ = lib.DecodePatch(patch)
		}
		p := &wlPatch{name: name, class: "craft/" + cf.class, oldDir: oldDir, old: cf.old, patch: patch, dp: dp, msgs: cf.msgs, oldC: oldC, newC: newC,
			wls: spellings(cr, len(newC.Files), subsets(cr, len(newC.Files), c.Thorough(), 5)), claims: wellFormed && dp != nil,
			input: map[string]interface{}{"old": cf.old.Summary(), "newFiles": fmt.Sprint(cf.files), "msgs": lib.MsgSummary(cf.msgs), "compression": comp.String()}}
		err = runWhitelists(c, p)
		removeAll(base)
		if err != nil {
			return err
		}
	}
	return nil
}

// ---------------------------------------------------------------- reinterp: marshal as T, unmarshal as T'

func c17Reinterp(c *Ctx) error {
	r := c.Rng.Fork()
	n := nFor(c, 300, 6000, 1000)
	interesting := []int64{0, 1, 2, 3, 2049, 2048, 2050, -1, 1 << 31, 1<<31 - 1, 1<<32 + 2049, -(1 << 31), 1<<63 - 1, -(1 << 63), 16, 255, 256}
	pick := func(cr *lib.Rng) int64 {
		switch cr.Intn(4) {
		case 0:
			return int64(cr.Intn(5))
		case 1:
			return int64(cr.U64())
		default:
			return interesting[cr.Intn(len(interesting))]
		}
	}
	bts := func(cr *lib.Rng) []byte {
		if cr.Chance(1, 3) {
			return nil
		}
		return cr.Bytes(cr.Range(1, 6))
	}
	// fixed cases first: the two collisions DESIGN 5.4 names
	fixed := []lib.PMsg{lib.BH(2049), lib.DataOp(nil), {Kind: "so", Type: 1, BlockSpan: 1}, lib.Hey(), lib.CtlEof(), lib.SH(1, 2049)}
	for i := 0; i < n+len(fixed); i++ {
		cr := r.Fork()
		var m lib.PMsg
		if i < len(fixed) {
			m = fixed[i]
		} else {
			switch cr.Intn(4) {
			case 0:
				m = lib.SH(int64(int32(pick(cr))), pick(cr))
			case 1:
				m = lib.PMsg{Kind: "so", Type: int64(int32(pick(cr))), FileIndex: pick(cr), BlockIndex: pick(cr), BlockSpan: pick(cr), Data: bts(cr)}
			case 2:
				m = lib.BH(pick(cr))
			default:
				m = lib.PMsg{Kind: "ct", Add: bts(cr), Copy: bts(cr), Seek: pick(cr), Eof: cr.Bool()}
			}
		}
		// through the wire package, exactly as WritePatch writes and the patcher reads a frame
		var frame bytes.Buffer
		if err := wire.NewWriteContext(&frame).WriteMessage(m.Proto()); err != nil {
			return err
		}
		buf := frame.Bytes()
		sh, so, bh, ct := &pwr.SyncHeader{}, &pwr.SyncOp{}, &pwr.BsdiffHeader{}, &bsdiff.Control{}
		oracle := ""
		for _, t := range []lib.ProtoMsg{sh, so, bh, ct} {
			src := seeksource.FromBytes(buf)
			if _, err := src.Resume(nil); err != nil {
				return err
			}
			if err := wire.NewReadContext(src).ReadMessage(t); err != nil {
				oracle = "unmarshal failed: " + err.Error() // would make the model's total table wrong
			}
		}
		// the only claim of the oracle here: reading a frame as its own type gives it back
		back := ""
		switch m.Kind {
		case "sh":
			if int64(sh.Type) != m.Type || sh.FileIndex != m.FileIndex {
				back = "SyncHeader"
			}
		case "so":
			if int64(so.Type) != m.Type || so.FileIndex != m.FileIndex || so.BlockIndex != m.BlockIndex || so.BlockSpan != m.BlockSpan || !bytes.Equal(so.Data, m.Data) {
				back = "SyncOp"
			}
		case "bh":
			if bh.TargetIndex != m.TargetIndex {
				back = "BsdiffHeader"
			}
		case "ct":
			if !bytes.Equal(ct.Add, m.Add) || !bytes.Equal(ct.Copy, m.Copy) || ct.Seek != m.Seek || ct.Eof != m.Eof {
				back = "Control"
			}
		}
		if back != "" && oracle == "" {
			oracle = back + " does not survive marshal/unmarshal"
		}
		obs := fmt.Sprintf("(mkSH %s %s, mkSO %s %s %s %s %s, mkBH %s, mkCT %s %s %s %s)", lib.CoqZ(int64(sh.Type)), lib.CoqZ(sh.FileIndex),
			lib.CoqZ(int64(so.Type)), lib.CoqZ(so.FileIndex), lib.CoqZ(so.BlockIndex), lib.CoqZ(so.BlockSpan), lib.CoqBytes(so.Data),
			lib.CoqZ(bh.TargetIndex), lib.CoqBytes(ct.Add), lib.CoqBytes(ct.Copy), lib.CoqZ(ct.Seek), lib.CoqBool(ct.Eof))
		c.Out.Emit(&lib.Case{Group: "reinterp", Class: "reinterp/" + m.Kind, Nontrivial: len(buf) > 1,
			Input:  map[string]interface{}{"msg": lib.MsgSummary([]lib.PMsg{m})[0], "fields": fmt.Sprintf("%+v", m)},
			Obs:    map[string]interface{}{"asSyncHeader": sh.String(), "asSyncOp": so.String(), "asBsdiffHeader": bh.String(), "asControl": ct.String()},
			Oracle: oracle, Coq: fmt.Sprintf("($ID%%N, %s, %s)", coqPlainMsg(m), obs)})
	}
	return nil
}

// coqPlainMsg prints a message as the model's [pmsg] (payloads spelled out, they are tiny here)
func coqPlainMsg(m lib.PMsg) string {
	switch m.Kind {
	case "sh":
		return fmt.Sprintf("MSH (mkSH %s %s)", lib.CoqZ(m.Type), lib.CoqZ(m.FileIndex))
	case "so":
		return fmt.Sprintf("MSO (mkSO %s %s %s %s %s)", lib.CoqZ(m.Type), lib.CoqZ(m.FileIndex), lib.CoqZ(m.BlockIndex), lib.CoqZ(m.BlockSpan), lib.CoqBytes(m.Data))
	case "bh":
		return fmt.Sprintf("MBH (mkBH %s)", lib.CoqZ(m.TargetIndex))
	default:
		return fmt.Sprintf("MCT (mkCT %s %s %s %s)", lib.CoqBytes(m.Add), lib.CoqBytes(m.Copy), lib.CoqZ(m.Seek), lib.CoqBool(m.Eof))
	}
}

var _ = sort.Ints
