package main

// C12 helper: bsdiff.DiffContext.Do spawns goroutines (suffix sort per partition, one scan worker
// per block, dispatcher, collector).  A panic inside one of them cannot be recovered by the
// caller and kills the whole process, so every Do of the C12 check runs in a child process
// (this same binary re-executed with WHARFOBS_C12_CHILD=1) that serves requests over
// stdin/stdout (gob).  When the child dies the request in flight is reported with class
// "panic" (message = tail of the child's stderr) and a new child is started for the next one.

import (
	"bytes"
	"encoding/gob"
	"fmt"
	"io"
	"os"
	"os/exec"
	"runtime"
	"sync"
	"time"

	"github.com/golang/protobuf/proto"
	"github.com/itchio/headway/state"
	"github.com/itchio/wharf/bsdiff"

	"verif/harness/lib"
)

type c12Ctrl struct {
	Add  []byte
	Copy []byte
	Seek int64
	Eof  bool
}

type c12Req struct {
	Old, New    []byte
	Partitions  int
	Concurrency int
	Procs       int  // GOMAXPROCS for this request (0 = unchanged)
	Reuse       bool // use the child's long-lived DiffContext (stale ctx.I / buffers)
	DeadlineSec int
}

type c12Resp struct {
	Class string // ok | error | panic | hang
	Msg   string
	Ctrls []c12Ctrl
}

func c12ChildMain() {
	dec := gob.NewDecoder(os.Stdin)
	enc := gob.NewEncoder(os.Stdout)
	shared := &bsdiff.DiffContext{}
	for {
		var req c12Req
		if err := dec.Decode(&req); err != nil {
			return
		}
		resp := c12DoInProcess(&req, shared)
		if err := enc.Encode(resp); err != nil {
			return
		}
		if resp.Class == "hang" {
			return // goroutines of the hung Do are still around: start afresh
		}
	}
}

// c12DoInProcess runs the differ and collects the control messages it writes.
func c12DoInProcess(req *c12Req, shared *bsdiff.DiffContext) *c12Resp {
	dc := &bsdiff.DiffContext{}
	if req.Reuse && shared != nil {
		dc = shared
	}
	dc.Partitions = req.Partitions
	dc.SuffixSortConcurrency = req.Concurrency
	if req.Procs > 0 {
		prev := runtime.GOMAXPROCS(req.Procs)
		defer runtime.GOMAXPROCS(prev)
	}
	var mu sync.Mutex
	var ctrls []c12Ctrl
	d := time.Duration(req.DeadlineSec) * time.Second
	if d <= 0 {
		d = 180 * time.Second
	}
	cls, msg := lib.WithDeadline(d, func() error {
		return dc.Do(bytes.NewReader(req.Old), bytes.NewReader(req.New), func(m proto.Message) error {
			c, ok := m.(*bsdiff.Control)
			if !ok {
				return fmt.Errorf("unexpected message type %T", m)
			}
			mu.Lock()
			ctrls = append(ctrls, c12Ctrl{Add: append([]byte(nil), c.Add...), Copy: append([]byte(nil), c.Copy...), Seek: c.Seek, Eof: c.Eof})
			mu.Unlock()
			return nil
		}, &state.Consumer{})
	})
	mu.Lock()
	defer mu.Unlock()
	return &c12Resp{Class: cls, Msg: msg, Ctrls: append([]c12Ctrl(nil), ctrls...)}
}

type c12Tail struct {
	mu sync.Mutex
	b  []byte
}

func (t *c12Tail) Write(p []byte) (int, error) {
	t.mu.Lock()
	defer t.mu.Unlock()
	t.b = append(t.b, p...)
	if len(t.b) > 8192 {
		t.b = t.b[len(t.b)-8192:]
	}
	return len(p), nil
}

func (t *c12Tail) String() string {
	t.mu.Lock()
	defer t.mu.Unlock()
	s := string(t.b)
	if len(s) > 600 {
		s = s[:600]
	}
	return s
}

type c12Runner struct {
	cmd     *exec.Cmd
	in      io.WriteCloser
	enc     *gob.Encoder
	dec     *gob.Decoder
	tail    *c12Tail
	Crashes int
}

func (r *c12Runner) start() error {
	exe, err := os.Executable()
	if err != nil {
		return err
	}
	cmd := exec.Command(exe)
	cmd.Env = append(os.Environ(), "WHARFOBS_C12_CHILD=1")
	in, err := cmd.StdinPipe()
	if err != nil {
		return err
	}
	out, err := cmd.StdoutPipe()
	if err != nil {
		return err
	}
	r.tail = &c12Tail{}
	cmd.Stderr = r.tail
	if err := cmd.Start(); err != nil {
		return err
	}
	r.cmd, r.in, r.enc, r.dec = cmd, in, gob.NewEncoder(in), gob.NewDecoder(out)
	return nil
}

func (r *c12Runner) stop(kill bool) {
	if r.cmd == nil {
		return
	}
	r.in.Close()
	if kill {
		r.cmd.Process.Kill()
	}
	done := make(chan struct{})
	go func() { r.cmd.Wait(); close(done) }()
	select {
	case <-done:
	case <-time.After(5 * time.Second):
		r.cmd.Process.Kill()
		<-done
	}
	r.cmd = nil
}

func (r *c12Runner) Close() { r.stop(false) }

// Do runs one request in the child; a dead child is an observation, not a harness failure.
func (r *c12Runner) Do(req *c12Req) (*c12Resp, error) {
	if r.cmd == nil {
		if err := r.start(); err != nil {
			return nil, err
		}
	}
	if req.DeadlineSec == 0 {
		req.DeadlineSec = 180 // small inputs take milliseconds; the deadline only has to tell a hang from a loaded machine
	}
	if err := r.enc.Encode(req); err != nil {
		msg := "child died before the request: " + r.tail.String()
		r.stop(true)
		r.Crashes++
		return &c12Resp{Class: "panic", Msg: msg}, nil
	}
	type res struct {
		resp *c12Resp
		err  error
	}
	ch := make(chan res, 1)
	go func() {
		var resp c12Resp
		err := r.dec.Decode(&resp)
		ch <- res{&resp, err}
	}()
	select {
	case x := <-ch:
		if x.err != nil {
			r.stop(true)
			r.Crashes++
			return &c12Resp{Class: "panic", Msg: "process died (panic outside the calling goroutine): " + r.tail.String()}, nil
		}
		if x.resp.Class == "hang" {
			r.stop(true)
		}
		return x.resp, nil
	case <-time.After(time.Duration(req.DeadlineSec+30) * time.Second):
		r.stop(true)
		<-ch
		return &c12Resp{Class: "hang", Msg: "no answer from the differ"}, nil
	}
}
